(* Obligations over the operator table REGENERATED from /repo on this run (OpTable.v is
   written by the harness next to this file). Finite domain, closed by computation. *)
From Coq Require Import List Bool String.
From V Require Import DType Gate GateProofs.
From Gen Require Import OpTable.
Import ListNotations.

(* every registered operator (the variadic one aside) has min <= max <= |constraints| *)
Theorem optable13_wf : forallb (fun o => o_dyn o || wf_info o) optable13 = true.
Proof. vm_compute. reflexivity. Qed.

(* two successive lookups of every name return distinct instances *)
Theorem optable13_fresh : forallb o_fresh optable13 = true.
Proof. vm_compute. reflexivity. Qed.

(* names are unique, so the table is a finite map *)
Theorem optable13_names_nodup : NoDup (map o_name optable13).
Proof.
  assert (H : forallb (fun p => negb (existsb (String.eqb (fst p)) (snd p)))
               ((fix tails (l : list string) := match l with [] => [] | x :: r => (x, r) :: tails r end)
                  (map o_name optable13)) = true) by (vm_compute; reflexivity).
  revert H. generalize (map o_name optable13). induction l as [|x r IH]; intros H; constructor.
  - cbn in H. apply andb_true_iff in H as [H _]. intro I.
    apply negb_true_iff in H. assert (existsb (String.eqb x) r = true); [|congruence].
    apply existsb_exists. exists x. split; auto. apply String.eqb_refl.
  - apply IH. cbn in H. now apply andb_true_iff in H as [_ H].
Qed.

(* hence the generic gate theorem applies to every registered operator: no input list of any
   length and any dtypes makes a registered gate panic *)
Theorem registered_gate_never_panics (T : Type) (dt : T -> dtype) o ins :
  In o optable13 -> o_dyn o = false ->
  match validate T dt o ins with GPanic => False | _ => True end.
Proof.
  intros I D. pose proof (validate_spec T dt o ins) as H.
  assert (W : wf_info o = true).
  { pose proof optable13_wf as F. rewrite forallb_forall in F. specialize (F o I). rewrite D in F. exact F. }
  specialize (H W). now destruct (validate T dt o ins).
Qed.
Print Assumptions registered_gate_never_panics.

(* the PRelu layer's hypotheses hold for the registered PRelu *)
Theorem registered_prelu_shape :
  forallb (fun o => negb (String.eqb (o_name o) "PRelu") || (Nat.eqb (o_min o) 2 && Nat.eqb (o_max o) 2)) optable13 = true.
Proof. vm_compute. reflexivity. Qed.
