(* Obligations over the opset table REGENERATED from /repo on this run. *)
From Coq Require Import List ZArith Bool.
From V Require Import DType Case Decode Load LoadProofs.
From Gen Require Import OpTable.
Import ListNotations.
Open Scope Z_scope.

(* the library implements exactly the opset whose operators live in ops/opset13 *)
Theorem supported_opsets_is_13 : supported_opsets = [13].
Proof. vm_compute. reflexivity. Qed.

(* hence: whatever loads has 13 as its highest imported version *)
Theorem loaded_models_import_13 mp ps : load supported_opsets mp = LOk ps -> max_version (m_opsets mp) = 13.
Proof. rewrite supported_opsets_is_13. apply load_ok_version. Qed.
