(* Interval enclosures of real-number semantics, for the properties whose statement says "up to
   floating-point rounding" (C06, C09 softmax family, C10, C16): IEEE bit patterns become exact point
   intervals; the real functions are enclosed by the Coq Interval library (I.exp, I.ln, I.sin ... are
   PROVED enclosures: I.exp_correct etc.); `widen` adds the rounding error a floating-point kernel may
   commit (relative k * unit roundoff, plus the smallest subnormal). *)
From Coq Require Import ZArith List Bool.
From Interval Require Import Float.Specific_ops Float.Specific_bigint Float.Basic Interval.Interval Interval.Float Interval.Float_full.
Module F := SpecificFloat BigIntRadix2.
Module I := Float_full.FloatIntervalFull F.
Import ListNotations.
Open Scope Z_scope.

Definition prec := F.PtoP 120.
Definition fz (m e : Z) : F.type := F.scale2 (F.fromZ m) (F.ZtoS e).
Definition pt (m e : Z) : I.type := I.bnd (fz m e) (fz m e).
Definition iv (lm le um ue : Z) : I.type := I.bnd (fz lm le) (fz um ue).
Definition izero := pt 0 0.
Definition ione := pt 1 0.
Definition itwo := pt 2 0.
Definition ihalf := pt 1 (-1).

Inductive fw := W32 | W64.
Inductive fv := VNaN | VInf (neg : bool) | VFin (m e : Z).

Definition decode (w : fw) (b : Z) : fv :=
  match w with
  | W32 =>
      let s := b / 2147483648 in let e := (b / 8388608) mod 256 in let m := b mod 8388608 in
      if e =? 255 then (if m =? 0 then VInf (s =? 1) else VNaN)
      else let mant := if e =? 0 then m else m + 8388608 in
           let ex := if e =? 0 then -149 else e - 150 in
           VFin (if s =? 1 then - mant else mant) ex
  | W64 =>
      let s := b / 9223372036854775808 in let e := (b / 4503599627370496) mod 2048 in let m := b mod 4503599627370496 in
      if e =? 2047 then (if m =? 0 then VInf (s =? 1) else VNaN)
      else let mant := if e =? 0 then m else m + 4503599627370496 in
           let ex := if e =? 0 then -1074 else e - 1075 in
           VFin (if s =? 1 then - mant else mant) ex
  end.

Definition ubits (w : fw) : Z := match w with W32 => 24 | W64 => 53 end.      (* unit roundoff 2^-ubits *)
(* absolute allowance: the smallest NORMAL number -- a result that underflows may be flushed to zero
   or rounded to any subnormal (kernels with flush-to-zero arithmetic are accepted) *)
Definition tiny (w : fw) : Z := match w with W32 => -126 | W64 => -1022 end.
Definition maxfin (w : fw) : F.type :=
  match w with W32 => fz 16777215 104 | W64 => fz 9007199254740991 971 end.
Definition eta (w : fw) : I.type := iv (-1) (tiny w) 1 (tiny w).
Definition rel (w : fw) (k : Z) : I.type := iv (2 ^ ubits w - k) (- ubits w) (2 ^ ubits w + k) (- ubits w).
(* what a kernel with relative error <= k * 2^-ubits (and gradual underflow) may return *)
Definition widen (w : fw) (k : Z) (x : I.type) : I.type := I.add prec (I.mul prec x (rel w k)) (eta w).

(* the correctly rounded / faithfully rounded IEEE operations *)
Definition f_add w a b := widen w 1 (I.add prec a b).
Definition f_sub w a b := widen w 1 (I.sub prec a b).
Definition f_mul w a b := widen w 1 (I.mul prec a b).
Definition f_div w a b := widen w 1 (I.div prec a b).

Definition isum (l : list I.type) : I.type := fold_left (I.add prec) l izero.
(* a sum of n terms evaluated in floating point in ANY order: |error| <= gamma_{n} * sum |t_i| *)
Definition f_sum w (l : list I.type) : I.type :=
  let n := Z.of_nat (length l) in
  let mag := isum (map I.abs l) in
  I.add prec (I.add prec (isum l) (I.mul prec mag (iv (- 2 * n) (- ubits w) (2 * n) (- ubits w)))) (eta w).
Definition f_dot w (a b : list I.type) : I.type :=
  let prods := map (fun p => I.mul prec (fst p) (snd p)) (combine a b) in
  let n := Z.of_nat (length a) + 1 in
  let mag := isum (map I.abs prods) in
  I.add prec (I.add prec (isum prods) (I.mul prec mag (iv (- 2 * n) (- ubits w) (2 * n) (- ubits w)))) (eta w).

(* Interval's exp, sin, cos and tan take very long on arguments of huge magnitude (argument
   reduction with an exponent-sized loop). exp is monotone, so beyond +-800 -- where the value is
   outside the range of binary64 anyway -- its enclosure is taken from the bound; sin and cos of an
   argument above 2^60 are enclosed by [-1, 1], tan by the whole line. All three are still sound. *)
Definition c800 := pt 800 0.
Definition sexp (x : I.type) : I.type :=
  if I.subset x (iv (-800) 0 800 0) then I.exp prec x
  else if I.subset x (I.bnd (fz 800 0) F.nan) then I.bnd (I.lower (I.exp prec c800)) F.nan
  else if I.subset x (I.bnd F.nan (fz (-800) 0)) then I.bnd F.zero (I.upper (I.exp prec (I.neg c800)))
  else I.bnd F.zero F.nan.
Definition trig_ok (x : I.type) : bool := I.subset x (iv (-1) 60 1 60).
Definition ssin (x : I.type) : I.type := if trig_ok x then I.sin prec x else iv (-1) 0 1 0.
Definition scos (x : I.type) : I.type := if trig_ok x then I.cos prec x else iv (-1) 0 1 0.
Definition stan (x : I.type) : I.type := if trig_ok x then I.tan prec x else I.bnd F.nan F.nan.

(* |x| < 2^-20 ? (x a point or small interval) *)
Definition is_small (x : I.type) : bool := I.subset x (iv (-1) (-20) 1 (-20)).
Definition near_id (x : I.type) : I.type := I.mul prec x (iv (2 ^ 38 - 1) (-38) (2 ^ 38 + 1) (-38)).

(* real functions beyond Interval's primitives, by their textbook identities; arguments of
   magnitude < 2^-20 use f(x) = x (1 + O(x^2)) to avoid cancellation *)
Definition r_exp := sexp.
Definition r_sigmoid (x : I.type) := I.div prec ione (I.add prec ione (sexp (I.neg x))).
Definition r_tanh (x : I.type) :=
  if is_small x then near_id x
  else let t := sexp (I.mul prec itwo x) in I.div prec (I.sub prec t ione) (I.add prec t ione).
Definition r_sinh (x : I.type) :=
  if is_small x then near_id x
  else I.mul prec ihalf (I.sub prec (sexp x) (sexp (I.neg x))).
Definition r_cosh (x : I.type) := I.mul prec ihalf (I.add prec (sexp x) (sexp (I.neg x))).
Definition pos_asinh (x : I.type) := I.ln prec (I.add prec x (I.sqrt prec (I.add prec (I.sqr prec x) ione))).
Definition r_asinh (x : I.type) :=
  if is_small x then near_id x
  else if I.subset x (I.bnd F.zero F.nan) then pos_asinh x else I.neg (pos_asinh (I.neg x)).
Definition r_acosh (x : I.type) := I.ln prec (I.add prec x (I.sqrt prec (I.sub prec (I.sqr prec x) ione))).
Definition r_atanh (x : I.type) :=
  if is_small x then near_id x
  else I.mul prec ihalf (I.ln prec (I.div prec (I.add prec ione x) (I.sub prec ione x))).
Definition half_pi := I.mul prec ihalf (I.pi prec).
Definition r_asin (x : I.type) :=
  if is_small x then near_id x
  else I.atan prec (I.div prec x (I.sqrt prec (I.sub prec ione (I.sqr prec x)))).
Definition r_acos (x : I.type) := I.sub prec half_pi (r_asin x).

(* does the floating-point result with bit pattern r lie in the enclosure E *)
Definition res_in (w : fw) (r : Z) (E : I.type) : bool :=
  match decode w r with
  | VFin m e => I.subset (pt m e) E
  | VInf false => negb (I.subset E (I.bnd F.nan (maxfin w)))            (* the enclosure reaches beyond the largest finite value *)
  | VInf true => negb (I.subset E (I.bnd (F.neg (maxfin w)) F.nan))
  | VNaN => false
  end.
Definition is_fin (w : fw) (r : Z) : bool := match decode w r with VFin _ _ => true | _ => false end.
Definition pt_of (w : fw) (b : Z) : option I.type := match decode w b with VFin m e => Some (pt m e) | _ => None end.

(* ---- float kernels behind the activations (allowances measured on gorgonia / Go math) ---- *)
(* an integer upper bound of |z| *)
Definition abs_up (z : I.type) : Z :=
  match I.abs z with
  | Interval.Float.Ibnd _ u => match F.toF u with
                                | Basic.Float _ m e => (if (0 <=? e) then Z.pos m * 2 ^ e else Z.pos m / 2 ^ (- e) + 1)
                                | _ => 0 end
  | _ => 1000
  end.
(* gorgonia's float32 Exp: relative error growing with |z| (allowance (8 + 4|z|) u); Go's float64 math.Exp: 4u *)
Definition f_exp (w : fw) (z : I.type) : I.type :=
  match w with W32 => widen w (8 + 4 * abs_up z) (sexp z) | W64 => widen w 4 (sexp z) end.
(* Sigmoid as composed in ops/activation.go: 1 / (1 + exp(-x)); when exp(-x) overflows IEEE gives 1/(1+Inf) = 0 *)
Definition f_sigmoid (w : fw) (p : I.type) : I.type :=
  let e := f_exp w (I.neg p) in
  let overflow := negb (I.subset e (I.bnd F.nan (maxfin w))) in
  let r := I.join (f_div w ione (f_add w ione e)) (widen w 8 (r_sigmoid p)) in
  if overflow then I.join izero r else r.
Definition f_tanh (w : fw) (p : I.type) : I.type := widen w 8 (r_tanh p).
(* max(x, 0) on an interval: exact *)
Definition f_relu (p : I.type) : I.type :=
  if I.subset p (I.bnd F.zero F.nan) then p
  else if I.subset p (I.bnd F.nan F.zero) then izero
  else I.join izero (I.meet p (I.bnd F.zero F.nan)).
