(* gorgonia Dense.Reshape on a contiguous tensor: same backing, new shape, refused when the
   element counts differ. (Negative extents are handled by the callers at the Z level.) *)
From Coq Require Import List Arith Lia PeanoNat Bool.
From V Require Import Tensor ListUtil Case.
Import ListNotations.

Section R.
Context {A : Type}.
Definition g_reshape (t : tensor A) (s : shape) : mres (tensor A) :=
  if numel s =? numel (tshape t) then MOk (mkT s (tdata t)) else MErr.

Lemma g_reshape_wf t s t' : wf t -> g_reshape t s = MOk t' -> wf t' /\ tshape t' = s /\ tdata t' = tdata t.
Proof.
  unfold g_reshape, wf. intros W. destruct (numel s =? numel (tshape t)) eqn:E; [|discriminate].
  intros H; inversion H; subst; cbn. apply Nat.eqb_eq in E. repeat split; congruence.
Qed.
End R.
