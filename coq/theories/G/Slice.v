From Coq Require Import List ZArith Bool Lia.
From V Require Import Tensor.
Import ListNotations.
Open Scope Z_scope.

(* gorgonia Dense.Slice followed by Materialize, as observed on v0.9.24 (CheckSlice, SliceDetails,
   the extent arithmetic of AP.S with its `i > 0` rounding and its `<= 0 becomes 1` patch, the
   ndEnd - ndStart = 1 scalar rule, dropping of sliced extent-1 axes). SChaos: a slice with
   start = end yields a view of length 0 that is then read past its end: unpredictable. *)
Inductive outcome := SOk (s : list nat) (d : list Z) | SErr | SPanic | SChaos.

(* per-axis result of CheckSlice + SliceDetails + the extent computation of AP.S *)
Record axinfo := { a_start : Z; a_end : Z; a_step : Z; a_extent : Z; a_sliced : bool; a_empty : bool }.

Definition axis_info (i : nat) (size : Z) (s : option (Z * Z * Z)) : option axinfo :=
  match s with
  | None => Some {| a_start := 0; a_end := size; a_step := 1; a_extent := size; a_sliced := false; a_empty := false |}
  | Some (st, en, sp) =>
      if (st >? en) || (st <? 0) || ((sp =? 0) && (en - st >? 1)) || (st >=? size) then None
      else
        let en' := Z.min en size in
        let ext :=
          if sp >? 0 then
            let q := (en' - st) / sp in
            let q := if ((en' - st) mod sp >? 0) && negb (Nat.eqb i 0) then q + 1 else q in
            if q <=? 0 then 1 else q
          else en' - st in
        Some {| a_start := st; a_end := en'; a_step := (if sp >? 0 then sp else 1);
                a_extent := ext; a_sliced := true; a_empty := (en' =? st) |}
  end.

Fixpoint strides (s : list nat) : list Z :=
  match s with [] => [] | _ :: s' => Z.of_nat (numel s') :: strides s' end.

Fixpoint infos (i : nat) (s : list nat) (sls : list (option (Z*Z*Z))) : option (list axinfo) :=
  match s with
  | [] => Some []
  | d :: s' =>
      let (sl, rest) := match sls with [] => (None, []) | x :: r => (x, r) end in
      match axis_info i (Z.of_nat d) sl, infos (S i) s' rest with
      | Some a, Some l => Some (a :: l)
      | _, _ => None
      end
  end.

(* all source flat offsets, row-major over the extents *)
Fixpoint offsets (inf : list axinfo) (str : list Z) : list Z :=
  match inf, str with
  | a :: inf', st :: str' =>
      flat_map (fun k => map (fun o => (a_start a + Z.of_nat k * a_step a) * st + o) (offsets inf' str'))
               (seq 0 (Z.to_nat (a_extent a)))
  | _, _ => [0]
  end.

Definition g_slice (s : list nat) (data : list Z) (sls : list (option (Z*Z*Z))) : outcome :=
  if (length s <? length sls)%nat then SErr else
  match infos 0 s sls with
  | None => SErr
  | Some inf =>
      if existsb a_empty inf then SChaos else
      let str := strides s in
      let total := Z.of_nat (numel s) in
      let ndStart := fold_left Z.add (map (fun p => a_start (fst p) * snd p) (combine inf str)) 0 in
      let ndEnd := fold_left Z.sub (map (fun p => (Z.of_nat (fst (fst p)) - a_end (snd (fst p))) * snd p) (combine (combine s inf) str)) total in
      let vals := map (fun o => nth (Z.to_nat o) data 0) (offsets inf str) in
      if ndEnd - ndStart =? 1 then SOk [] vals
      else SOk (map (fun a => Z.to_nat (a_extent a)) (filter (fun a => negb (a_sliced a && (a_extent a =? 1))) inf)) vals
  end.

