(* gorgonia tensor.Repeat(t, axis, n) with a single repeat count: numpy.repeat along the axis.
   Functional model over the tensor base; element type arbitrary. *)
From Coq Require Import List Arith Lia PeanoNat Bool.
From V Require Import Tensor ListUtil.
Import ListNotations.

Section R.
Context {A : Type} (d : A).
Definition g_repeat (t : tensor A) (axis n : nat) : tensor A :=
  let s := tshape t in
  tabulate (upd s axis (nth axis s 0 * n))
           (fun i => get d t (upd i axis (nth axis i 0 / n))).

Lemma g_repeat_wf t axis n : wf (g_repeat t axis n).
Proof. apply wf_tabulate. Qed.
End R.
