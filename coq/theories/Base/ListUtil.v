(* List update and the nth-characterisation of index validity. *)
From Coq Require Import List Arith Lia PeanoNat Bool.
From V Require Import Tensor.
Import ListNotations.

(* ---------- list update and nth-characterisation of validity ---------- *)
Fixpoint upd {X} (l : list X) (k : nat) (x : X) : list X :=
  match l, k with
  | [], _ => []
  | _ :: l', 0 => x :: l'
  | y :: l', S k' => y :: upd l' k' x
  end.

Lemma upd_length {X} (l : list X) k x : length (upd l k x) = length l.
Proof. revert k; induction l as [|y l IH]; intros [|k]; cbn; auto. Qed.

Lemma nth_upd {X} (l : list X) k j x d :
  nth j (upd l k x) d = if (j =? k) && (k <? length l) then x else nth j l d.
Proof.
  revert k j; induction l as [|y l IH]; intros k j; cbn.
  - destruct j; rewrite andb_false_r; reflexivity.
  - destruct k as [|k], j as [|j]; cbn; try reflexivity.
    rewrite IH. reflexivity.
Qed.

Lemma valid_nth s i :
  valid s i <-> length i = length s /\ forall k, k < length s -> nth k i 0 < nth k s 0.
Proof.
  unfold valid. split.
  - intros H. induction H as [|x d i' s' Hx Hv [IHl IHn]]; cbn; [split; [reflexivity|lia]|].
    split; [congruence|]. intros [|k] Hk; [exact Hx|apply IHn; lia].
  - revert i. induction s as [|d s' IH]; intros [|x i'] [Hl Hn]; cbn in *; try discriminate; constructor.
    + apply (Hn 0); lia.
    + apply IH. split; [lia|]. intros k Hk. apply (Hn (S k)); lia.
Qed.


Lemma list_ext_nth (l1 l2 : list nat) :
  length l1 = length l2 -> (forall k, k < length l1 -> nth k l1 0 = nth k l2 0) -> l1 = l2.
Proof. intros. apply nth_ext with (d := 0) (d' := 0); auto. Qed.
