(* Vocabulary shared by the harness-generated case files, the models and the
   Check modules: concrete tensors as (dtype, shape, payload), attributes,
   observed outcomes, model outcomes. *)
From Coq Require Import List ZArith String Bool.
From V Require Import DType.
Import ListNotations.

(* A tensor value as it crosses the Go/Coq boundary: extents are nat (small),
   every payload entry is a Z: integers by value, bool as 0/1, floats as IEEE bit
   patterns with every NaN mapped to the canonical quiet NaN. *)
Record tval := { dt : dtype; sh : list nat; pl : list Z }.

Inductive attr :=
| AInt (n : string) (v : Z) | AInts (n : string) (v : list Z)
| AFloat (n : string) (bits : Z) | AFloats (n : string) (bits : list Z)
| AStr (n : string) (s : string) | AStrs (n : string) (s : list string)
| ATensor (n : string) (t : tval).

(* error kinds the properties name; everything else is EOther *)
Inductive ekind := EOther | EInput | EUnsupportedOp | EUnsupportedOpset | EModel.

(* what the harness saw the implementation do (under recover) *)
Inductive observed := OOk (outs : list (option tval)) | OErr (k : ekind) | OPanic.

(* oc_after: deep snapshot of the input tensors after the call (same order as oc_ins) *)
Record opcase := { oc_op : string; oc_attrs : list attr; oc_ins : list (option tval); oc_obs : observed;
                   oc_after : list (option tval) }.

(* outcome of a model function: a value, an error, or a Go panic *)
Inductive mres (X : Type) := MOk (x : X) | MErr | MPanic.
Arguments MOk {X} x. Arguments MErr {X}. Arguments MPanic {X}.

Definition mbind {X Y} (m : mres X) (f : X -> mres Y) : mres Y :=
  match m with MOk x => f x | MErr => MErr | MPanic => MPanic end.
Notation "'let*' x ':=' m 'in' f" := (mbind m (fun x => f)) (at level 200, x pattern, right associativity).

Definition list_eqb {X} (e : X -> X -> bool) := fix go (a b : list X) : bool :=
  match a, b with
  | [], [] => true
  | x :: a', y :: b' => e x y && go a' b'
  | _, _ => false
  end.

Lemma list_eqb_eq {X} (e : X -> X -> bool) (He : forall x y, e x y = true <-> x = y) a b :
  list_eqb e a b = true <-> a = b.
Proof.
  revert b. induction a as [|x a IH]; destruct b as [|y b]; cbn; split; intros H; try discriminate; auto.
  - apply andb_true_iff in H as [H1 H2]. apply He in H1. apply IH in H2. now subst.
  - inversion H; subst. apply andb_true_iff. split; [now apply He|now apply IH].
Qed.

Definition tval_eqb (a b : tval) : bool :=
  dtype_eqb (dt a) (dt b) && list_eqb Nat.eqb (sh a) (sh b) && list_eqb Z.eqb (pl a) (pl b).

Lemma tval_eqb_eq a b : tval_eqb a b = true <-> a = b.
Proof.
  unfold tval_eqb. rewrite !andb_true_iff, dtype_eqb_eq,
    (list_eqb_eq Nat.eqb Nat.eqb_eq), (list_eqb_eq Z.eqb Z.eqb_eq).
  destruct a, b; cbn. split; [intros [[-> ->] ->]; reflexivity|intros H; inversion H; auto].
Qed.

Definition otval_eqb (a b : option tval) : bool :=
  match a, b with Some x, Some y => tval_eqb x y | None, None => true | _, _ => false end.

Fixpoint find_int (n : string) (l : list attr) : option Z :=
  match l with
  | [] => None
  | AInt m v :: r => if String.eqb m n then Some v else find_int n r
  | _ :: r => find_int n r
  end.
Fixpoint find_ints (n : string) (l : list attr) : option (list Z) :=
  match l with
  | [] => None
  | AInts m v :: r => if String.eqb m n then Some v else find_ints n r
  | _ :: r => find_ints n r
  end.
Fixpoint find_str (n : string) (l : list attr) : option string :=
  match l with
  | [] => None
  | AStr m v :: r => if String.eqb m n then Some v else find_str n r
  | _ :: r => find_str n r
  end.
Definition attr_name (a : attr) : string :=
  match a with AInt n _ | AInts n _ | AFloat n _ | AFloats n _ | AStr n _ | AStrs n _ | ATensor n _ => n end.

Definition zshape (s : list nat) : list Z := map Z.of_nat s.
Definition zprod (l : list Z) : Z := fold_right Z.mul 1%Z l.
Definition total (t : tval) : Z := zprod (zshape (sh t)).

(* verdict codes printed by every Check module:
   0 pass; 100+k: known finding class k reproduced exactly; 2 violation;
   3 drift (property holds on this input, model disagrees with the code);
   4 input outside the property's domain (counted, never a pass). *)
