(* Element types of gorgonia tensors, as far as gonnx can meet them. *)
From Coq Require Import List Bool.
Import ListNotations.

Inductive dtype := Uint8 | Uint16 | Uint32 | Uint64 | Int8 | Int16 | Int32 | Int64
                 | Float32 | Float64 | Complex64 | Complex128 | DString | DBool.

Definition dtype_eqb (a b : dtype) : bool :=
  match a, b with
  | Uint8, Uint8 | Uint16, Uint16 | Uint32, Uint32 | Uint64, Uint64
  | Int8, Int8 | Int16, Int16 | Int32, Int32 | Int64, Int64
  | Float32, Float32 | Float64, Float64 | Complex64, Complex64 | Complex128, Complex128
  | DString, DString | DBool, DBool => true
  | _, _ => false
  end.

Lemma dtype_eqb_eq a b : dtype_eqb a b = true <-> a = b.
Proof. destruct a, b; cbn; split; intros; try discriminate; auto. Qed.

Lemma dtype_eqb_refl a : dtype_eqb a a = true.
Proof. now apply dtype_eqb_eq. Qed.

Definition dtype_eq_dec (a b : dtype) : {a = b} + {a <> b}.
Proof. decide equality. Defined.

Definition all_dtypes : list dtype :=
  [Uint8; Uint16; Uint32; Uint64; Int8; Int16; Int32; Int64; Float32; Float64; Complex64; Complex128; DString; DBool].

Lemma all_dtypes_complete d : In d all_dtypes.
Proof. destruct d; cbn; tauto. Qed.

Definition mem_dtype (d : dtype) (l : list dtype) : bool := existsb (dtype_eqb d) l.

Lemma mem_dtype_In d l : mem_dtype d l = true <-> In d l.
Proof.
  unfold mem_dtype. rewrite existsb_exists. split.
  - intros (x & I & E). apply dtype_eqb_eq in E. now subst.
  - intros I. exists d. split; auto. apply dtype_eqb_refl.
Qed.
