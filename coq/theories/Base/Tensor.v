(* Index arithmetic and functional tensors: the base every loop induction rests on. *)
From Coq Require Import List Arith Lia PeanoNat Bool.
Import ListNotations.

Definition shape := list nat.
Fixpoint numel (s : shape) : nat := match s with [] => 1 | d :: s' => d * numel s' end.

Fixpoint flat (s : shape) (i : list nat) : nat :=
  match s, i with
  | _ :: s', k :: i' => k * numel s' + flat s' i'
  | _, _ => 0
  end.

Fixpoint unflat (s : shape) (n : nat) : list nat :=
  match s with
  | [] => []
  | _ :: s' => (n / numel s') :: unflat s' (n mod numel s')
  end.

Definition valid (s : shape) (i : list nat) : Prop := Forall2 lt i s.

Lemma flat_lt s i : valid s i -> flat s i < numel s.
Proof.
  unfold valid. intros H. induction H as [|k d i' s' Hk _ IH]; cbn [flat numel]; [lia|nia].
Qed.

Lemma unflat_flat s i : valid s i -> unflat s (flat s i) = i.
Proof.
  unfold valid. intros H. induction H as [|k d i' s' Hk Hv IH]; cbn [flat unflat]; [reflexivity|].
  pose proof (flat_lt _ _ Hv) as Hlt.
  assert (Hq : (k * numel s' + flat s' i') / numel s' = k).
  { symmetry. apply Nat.div_unique with (r := flat s' i'); lia. }
  assert (Hr : (k * numel s' + flat s' i') mod numel s' = flat s' i').
  { symmetry. apply Nat.mod_unique with (q := k); lia. }
  rewrite Hq, Hr, IH. reflexivity.
Qed.

Lemma valid_unflat s n : n < numel s -> valid s (unflat s n).
Proof.
  unfold valid. revert n. induction s as [|d s' IH]; intros n Hn; cbn [unflat]; [constructor|].
  cbn [numel] in Hn.
  assert (Hpos : numel s' <> 0) by (intro E; rewrite E in Hn; lia).
  constructor.
  - apply Nat.div_lt_upper_bound; lia.
  - apply IH. apply Nat.mod_upper_bound; exact Hpos.
Qed.

Lemma flat_unflat s n : n < numel s -> flat s (unflat s n) = n.
Proof.
  revert n. induction s as [|d s' IH]; intros n Hn; cbn [unflat flat numel] in *; [lia|].
  assert (Hpos : numel s' <> 0) by (intro E; rewrite E in Hn; lia).
  rewrite IH by (apply Nat.mod_upper_bound; exact Hpos).
  pose proof (Nat.div_mod n (numel s') Hpos). lia.
Qed.

Lemma valid_length s i : valid s i -> length i = length s.
Proof. unfold valid. induction 1; cbn; congruence. Qed.

Section T.
Context {A : Type}.
Record tensor := mkT { tshape : shape; tdata : list A }.
Definition wf (t : tensor) : Prop := length (tdata t) = numel (tshape t).
Definition tabulate (s : shape) (f : list nat -> A) : tensor :=
  mkT s (map (fun n => f (unflat s n)) (seq 0 (numel s))).
Definition get (d : A) (t : tensor) (i : list nat) : A := nth (flat (tshape t) i) (tdata t) d.

Lemma wf_tabulate s f : wf (tabulate s f).
Proof. unfold wf, tabulate; cbn. now rewrite map_length, seq_length. Qed.

Lemma get_tabulate d s f i : valid s i -> get d (tabulate s f) i = f i.
Proof.
  intros Hv. unfold get, tabulate; cbn [tshape tdata].
  pose proof (flat_lt _ _ Hv) as Hlt.
  rewrite nth_indep with (d' := f (unflat s 0)) by now rewrite map_length, seq_length.
  rewrite (map_nth (fun n => f (unflat s n)) (seq 0 (numel s)) 0).
  rewrite seq_nth by exact Hlt. cbn. now rewrite unflat_flat.
Qed.

Lemma tensor_ext d (t1 t2 : tensor) :
  wf t1 -> wf t2 -> tshape t1 = tshape t2 ->
  (forall i, valid (tshape t1) i -> get d t1 i = get d t2 i) -> t1 = t2.
Proof.
  destruct t1 as [s1 d1], t2 as [s2 d2]; unfold wf, get; cbn. intros W1 W2 <- H.
  f_equal. apply nth_ext with (d := d) (d' := d); [congruence|].
  intros n Hn. rewrite W1 in Hn.
  specialize (H (unflat s1 n) (valid_unflat _ _ Hn)). now rewrite flat_unflat in H.
Qed.
End T.
Arguments tensor A : clear implicits.
