(* A loop nest that performs SetAt calls, abstracted as the list of its writes in program order.
   get_apply_writes: every cell written at most once => it holds that write, every other cell is
   untouched. Used for the Conv loop nests, the batched MatMul odometer and Gather's block copy. *)
From Coq Require Import List Arith Lia PeanoNat Bool.
From V Require Import Tensor ListUtil.
Import ListNotations.

(* all multi-indices of a shape in row-major order = what a loop nest enumerates *)
Definition all_indices (s : shape) : list (list nat) := map (unflat s) (seq 0 (numel s)).

Lemma in_all_indices s i : In i (all_indices s) <-> valid s i.
Proof.
  unfold all_indices. rewrite in_map_iff. split.
  - intros (n & <- & Hn). apply in_seq in Hn. apply valid_unflat. lia.
  - intros V. exists (flat s i). split; [now apply unflat_flat|]. apply in_seq. pose proof (flat_lt _ _ V). lia.
Qed.

Lemma NoDup_map_inj {X Y} (f : X -> Y) l :
  (forall a b, In a l -> In b l -> f a = f b -> a = b) -> NoDup l -> NoDup (map f l).
Proof.
  intros Inj ND. induction ND as [|x l Hx ND IH]; cbn; constructor.
  - intros I. apply in_map_iff in I as (y & E & Iy). assert (y = x) by (apply Inj; cbn; auto). subst. contradiction.
  - apply IH. intros a b Ia Ib. apply Inj; cbn; auto.
Qed.

Lemma NoDup_all_indices s : NoDup (all_indices s).
Proof.
  unfold all_indices. apply NoDup_map_inj; [|apply seq_NoDup].
  intros a b Ia Ib E. apply in_seq in Ia, Ib.
  rewrite <- (flat_unflat s a), <- (flat_unflat s b) by lia. now rewrite E.
Qed.

Lemma NoDup_filter {X} (p : X -> bool) l : NoDup l -> NoDup (filter p l).
Proof.
  induction 1 as [|x l Hx ND IH]; cbn; [constructor|]. destruct (p x); [constructor|]; auto.
  intro I. apply filter_In in I. tauto.
Qed.

Section W.
Context {A : Type} (d : A).
Notation tensor := (tensor A).

(* Dense.SetAt on a materialised tensor *)
Definition tset (t : tensor) (i : list nat) (v : A) : tensor :=
  mkT (tshape t) (upd (tdata t) (flat (tshape t) i) v).

Lemma wf_tset t i v : wf t -> wf (tset t i v).
Proof. unfold wf, tset; cbn. now rewrite upd_length. Qed.

Lemma flat_inj s i j : valid s i -> valid s j -> flat s i = flat s j -> i = j.
Proof. intros Vi Vj E. rewrite <- (unflat_flat _ _ Vi), <- (unflat_flat _ _ Vj). now rewrite E. Qed.

Lemma get_tset t i v j : wf t -> valid (tshape t) i -> valid (tshape t) j ->
  get d (tset t i v) j = if list_eq_dec Nat.eq_dec i j then v else get d t j.
Proof.
  intros W Vi Vj. unfold get, tset; cbn [tshape tdata]. rewrite nth_upd.
  pose proof (flat_lt _ _ Vi) as Li. rewrite W.
  replace (flat (tshape t) i <? numel (tshape t)) with true by (symmetry; now apply Nat.ltb_lt).
  rewrite andb_true_r. destruct (list_eq_dec Nat.eq_dec i j) as [->|Ne].
  - now rewrite Nat.eqb_refl.
  - replace (flat (tshape t) j =? flat (tshape t) i) with false; [reflexivity|].
    symmetry. apply Nat.eqb_neq. intro E. apply Ne. symmetry. eapply flat_inj; eauto.
Qed.

Definition apply_writes (t : tensor) (ws : list (list nat * A)) : tensor :=
  fold_left (fun t w => tset t (fst w) (snd w)) ws t.

Lemma apply_writes_shape t ws : tshape (apply_writes t ws) = tshape t.
Proof. unfold apply_writes. revert t; induction ws as [|w ws IH]; intros t; cbn [fold_left]; [reflexivity|]. now rewrite IH. Qed.
Lemma apply_writes_wf t ws : wf t -> wf (apply_writes t ws).
Proof. unfold apply_writes. revert t; induction ws as [|w ws IH]; intros t W; cbn [fold_left]; [exact W|]. apply IH. now apply wf_tset. Qed.

Theorem get_apply_writes t ws j :
  wf t -> Forall (fun w => valid (tshape t) (fst w)) ws -> NoDup (map fst ws) -> valid (tshape t) j ->
  (forall v, In (j, v) ws -> get d (apply_writes t ws) j = v) /\
  (~ In j (map fst ws) -> get d (apply_writes t ws) j = get d t j).
Proof.
  revert t. induction ws as [|[i v] ws IH]; intros t W F ND Vj; cbn [apply_writes fold_left map fst snd].
  - split; [intros v []|reflexivity].
  - inversion F as [|? ? Vi F']; subst. inversion ND as [|? ? Ni ND']; subst. cbn [fst] in *.
    specialize (IH (tset t i v) (wf_tset _ _ _ W) F' ND' Vj). destruct IH as [IHin IHout].
    fold (apply_writes (tset t i v) ws). split.
    + intros v' [E|I].
      * inversion E; subst. rewrite IHout by exact Ni. rewrite get_tset by auto.
        now destruct (list_eq_dec Nat.eq_dec j j).
      * now apply IHin.
    + intros N. rewrite IHout by (intro; apply N; now right). rewrite get_tset by auto.
      destruct (list_eq_dec Nat.eq_dec i j) as [->|]; [exfalso; apply N; now left|reflexivity].
Qed.
End W.
