(* Model of ops/opset13/matmul.go over an arbitrary scalar type with a zero, an addition and a
   multiplication: 2-D product, vector promotion/demotion, batch broadcasting that leaves the two
   matrix axes alone, the odometer loop writing 2-D products into the slices of the output.
   A tensor of shape batch ++ [M;K] is viewed as a tensor of shape `batch` whose elements are
   M x K matrices: on that view broadcastTensors IS the multidirectional broadcast of
   Model/Broadcast.v (rank equalisation by prepending 1s, Repeat per differing batch axis from the
   last to the first), which is proved correct in C14 for any element type. Definitions only. *)
From Coq Require Import List Arith Lia PeanoNat Bool.
From V Require Import Tensor ListUtil Case Repeat Reshape Broadcast Odometer.
Import ListNotations.

Section M.
Context {A : Type} (zero : A) (add mul : A -> A -> A).
Notation tensor := (tensor A).
Notation get := (get zero).

Definition rank (t : tensor) : nat := length (tshape t).
Definition ext (t : tensor) (i : nat) : nat := nth i (tshape t) 0.

(* sum_{k < K} f k * g k, accumulated from k = 0 *)
Definition dotk (K : nat) (f g : nat -> A) : A :=
  fold_left add (map (fun k => mul (f k) (g k)) (seq 0 K)) zero.

(* the 2-D product of an M x K and a K x N matrix *)
Definition mm2 (a b : tensor) : tensor :=
  tabulate [ext a 0; ext b 1]
           (fun i => dotk (ext a 1) (fun k => get a [nth 0 i 0; k]) (fun k => get b [k; nth 1 i 0])).

(* tensor.MatMul on two matrices *)
Definition g_matmul2 (a b : tensor) : mres tensor :=
  if (rank a =? 2) && (rank b =? 2) && (ext a 1 =? ext b 0) then MOk (mm2 a b) else MErr.

Definition chunk {X} (n j : nat) (l : list X) : list X := firstn n (skipn (j * n) l).
Definition dblk : tensor := mkT [] [].
(* batch view: the last two axes become the element *)
Definition to_blocks (t : tensor) : Tensor.tensor tensor :=
  let r := rank t in
  let bs := firstn (r - 2) (tshape t) in let ms := skipn (r - 2) (tshape t) in
  mkT bs (map (fun j => mkT ms (chunk (numel ms) j (tdata t))) (seq 0 (numel bs))).

Definition matmul_model (a b : tensor) : mres tensor :=
  if (rank a =? 2) && (rank b =? 2) then g_matmul2 a b
  else if (rank a =? 0) || (rank b =? 0) then MPanic     (* not in the property's domain; never generated *)
  else
    (* vector promotion: clone and Reshape to (1, K) resp. (K, 1) *)
    let a1 := if rank a =? 1 then mkT [1; ext a 0] (tdata a) else a in
    let b1 := if rank b =? 1 then mkT [ext b 0; 1] (tdata b) else b in
    (* broadcastTensors *)
    let* (ab, bb) := multidir_broadcast dblk (to_blocks a1) (to_blocks b1) in
    let bs := tshape ab in
    let M := ext a1 (rank a1 - 2) in let K := ext a1 (rank a1 - 1) in
    let K' := ext b1 (rank b1 - 2) in let N := ext b1 (rank b1 - 1) in
    (* batchedMatMul: gorgonia's Slice returns a rank-0 scalar when the selected matrix has exactly
       one element -- also with an empty slice list -- and tensor.MatMul refuses scalars
       (known finding C04 class 1) *)
    if (M * K =? 1) || (K' * N =? 1) then MErr
    else if negb (K =? K') then MErr
    else match odometer bs with
         | None => MPanic                                 (* the loop always terminates: odometer_enumerates *)
         | Some idxs =>
             let out := concat (map (fun bi => tdata (mm2 (Tensor.get dblk ab bi) (Tensor.get dblk bb bi))) idxs) in
             (* demotion: drop the prepended / appended axis again *)
             let s := bs ++ (if rank a =? 1 then [] else [M]) ++ (if rank b =? 1 then [] else [N]) in
             MOk (mkT s out)
         end.
End M.
