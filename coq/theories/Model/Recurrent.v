(* Model of ops/opset13/rnn.go, gru.go, lstm.go (forward direction, as repaired) over an ARBITRARY
   scalar type with its operations: the per-gate Gemm(transB) calls, the ONNX gate ordering of the
   packed W / R / B / P tensors (ExtractMatrices), linear_before_reset, peepholes, the time loop and
   the assembly of Y, Y_h, Y_c. Everything is per batch row (a vector of hidden_size scalars): the
   code's matrices have one row per batch entry and no operation mixes rows. Definitions only. *)
From Coq Require Import List Bool.
Import ListNotations.

Inductive rkind := KRNN | KGRU | KLSTM.

(* the scalar operations (exact over a ring; rounding-aware over intervals; IEEE over floats) *)
Record sops (A : Type) := { s_zero : A; s_one : A; s_add : A -> A -> A; s_sub : A -> A -> A; s_mul : A -> A -> A;
                            s_dot : list A -> list A -> A }.
Arguments s_zero {A}. Arguments s_one {A}. Arguments s_add {A}. Arguments s_sub {A}. Arguments s_mul {A}. Arguments s_dot {A}.

Section R.
Context {A : Type} (o : sops A).
Definition vec := list A.
Definition zip (f : A -> A -> A) (a b : vec) : vec := map (fun p => f (fst p) (snd p)) (combine a b).
Definition gate (g : nat) {X} (l : list X) (d : X) : X := nth g l d.

(* gemm.Apply(x, W, Wb) with transB, alpha = beta = 1: one output per row of W *)
Definition gemm_row (x : vec) (W : list vec) (b : vec) : vec :=
  map (fun p => s_add o (s_dot o x (fst p)) (snd p)) (combine W b).
(* gateCalculation / layerCalculation before the activation: Xt W^T + Wb + H R^T + Rb *)
Definition pre (x h : vec) (W R : list vec) (wb rb : vec) : vec :=
  zip (s_add o) (gemm_row x W wb) (gemm_row h R rb).

Definition rnn_cell (f : A -> A) (Wg Rg : list (list vec)) (Wb Rb : list vec) (x h : vec) : vec :=
  map f (pre x h (gate 0 Wg []) (gate 0 Rg []) (gate 0 Wb []) (gate 0 Rb [])).

(* gates z r h *)
Definition gru_cell (f g : A -> A) (lbr : bool) (Wg Rg : list (list vec)) (Wb Rb : list vec) (x h : vec) : vec :=
  let z := map f (pre x h (gate 0 Wg []) (gate 0 Rg []) (gate 0 Wb []) (gate 0 Rb [])) in
  let r := map f (pre x h (gate 1 Wg []) (gate 1 Rg []) (gate 1 Wb []) (gate 1 Rb [])) in
  let hh :=
    if lbr
    then map g (zip (s_add o) (zip (s_mul o) (gemm_row h (gate 2 Rg []) (gate 2 Rb [])) r) (gemm_row x (gate 2 Wg []) (gate 2 Wb [])))
    else map g (pre x (zip (s_mul o) r h) (gate 2 Wg []) (gate 2 Rg []) (gate 2 Wb []) (gate 2 Rb [])) in
  zip (s_add o) (zip (s_mul o) (map (s_sub o (s_one o)) z) hh) (zip (s_mul o) z h).

(* gates i o f c; peepholes i o f; `coupled`: input_forget = 1 (f = 1 - i) *)
Definition lstm_gate (act : A -> A) (x h : vec) (W R : list vec) (wb rb : vec) (pc : option (vec * vec)) : vec :=
  let s := pre x h W R wb rb in
  map act (match pc with Some (p, c) => zip (s_add o) s (zip (s_mul o) p c) | None => s end).
Definition lstm_cell (f g hh : A -> A) (coupled : bool) (Wg Rg : list (list vec)) (Wb Rb : list vec) (P : option (list vec))
    (x h c : vec) : vec * vec :=
  let pe (k : nat) (cc : vec) := match P with Some p => Some (gate k p [], cc) | None => None end in
  let it := lstm_gate f x h (gate 0 Wg []) (gate 0 Rg []) (gate 0 Wb []) (gate 0 Rb []) (pe 0 c) in
  let ft := if coupled then map (s_sub o (s_one o)) it
            else lstm_gate f x h (gate 2 Wg []) (gate 2 Rg []) (gate 2 Wb []) (gate 2 Rb []) (pe 2 c) in
  let ct := lstm_gate g x h (gate 3 Wg []) (gate 3 Rg []) (gate 3 Wb []) (gate 3 Rb []) None in
  let c' := zip (s_add o) (zip (s_mul o) ft c) (zip (s_mul o) it ct) in
  let ot := lstm_gate f x h (gate 1 Wg []) (gate 1 Rg []) (gate 1 Wb []) (gate 1 Rb []) (pe 1 c') in
  (zip (s_mul o) ot (map hh c'), c').

(* one time step for all batch rows: states are lists (one vector per batch row) *)
Definition step (k : rkind) (acts : list (A -> A)) (lbr coupled : bool) (Wg Rg : list (list vec)) (Wb Rb : list vec) (P : option (list vec))
    (xt : list vec) (st : list vec * list vec) : list vec * list vec :=
  let a (i : nat) := nth i acts (fun v => v) in
  match k with
  | KRNN => (map (fun p => rnn_cell (a 0) Wg Rg Wb Rb (fst p) (snd p)) (combine xt (fst st)), snd st)
  | KGRU => (map (fun p => gru_cell (a 0) (a 1) lbr Wg Rg Wb Rb (fst p) (snd p)) (combine xt (fst st)), snd st)
  | KLSTM => let r := map (fun p => lstm_cell (a 0) (a 1) (a 2) coupled Wg Rg Wb Rb P (fst (fst p)) (snd (fst p)) (snd p))
                          (combine (combine xt (fst st)) (snd st)) in
             (map fst r, map snd r)
  end.

(* the time loop: all hidden states (Y), the last hidden state (Y_h), the last cell state (Y_c) *)
Fixpoint run_from (k : rkind) (acts : list (A -> A)) (lbr coupled : bool) Wg Rg Wb Rb P (xs : list (list vec)) (st : list vec * list vec)
  : list (list vec) * (list vec * list vec) :=
  match xs with
  | [] => ([], st)
  | xt :: rest => let st' := step k acts lbr coupled Wg Rg Wb Rb P xt st in
                  let (ys, fin) := run_from k acts lbr coupled Wg Rg Wb Rb P rest st' in (fst st' :: ys, fin)
  end.
Definition run_rec (k : rkind) (acts : list (A -> A)) (lbr coupled : bool) Wg Rg Wb Rb P (xs : list (list vec)) (h0 c0 : list vec)
  : list (list vec) * list vec * list vec :=
  let '(ys, (h, c)) := run_from k acts lbr coupled Wg Rg Wb Rb P xs (h0, c0) in (ys, h, c).
End R.
