(* Model of Run over an explicit OBJECT STORE, for the properties that are about mutation and
   sharing (C02 histories, C17 interleavings): tensors are objects with identity; the
   environment of a Run maps names to object ids; an operator application returns new objects
   and may, in addition, change the state of its input objects (its EFFECT). The per-Run
   environment is new for every Run, but the objects in it -- the caller's tensors and the
   model's weights -- are shared references, exactly as in model.go. Definitions only. *)
From Coq Require Import List String Bool Arith ZArith Lia.
From V Require Import Run.
Import ListNotations.
Open Scope string_scope.

Section H.
Variable T attrs : Type.
Variable shape_of : T -> list nat.
(* results of one freshly constructed operator on the given input values ... *)
Variable op_sem : string -> attrs -> list (option T) -> xres (list (option T)).
(* ... and the state it leaves its input objects in (same length as the inputs; the post-state
   of an absent input is ignored). A pure operator returns its inputs unchanged. *)
Variable op_eff : string -> attrs -> list (option T) -> list (option T).
Variable supported : string -> bool.

Definition oid := nat.
(* the heap: object states and the allocation counter *)
Record heap := { h_obj : oid -> option T; h_next : oid }.
Definition deref (h : heap) (o : option oid) : option T := match o with Some i => h_obj h i | None => None end.
Definition alloc (h : heap) (t : option T) : heap * option oid :=
  match t with
  | None => (h, None)                                  (* a nil tensor is no object *)
  | Some v => ({| h_obj := fun i => if Nat.eqb i (h_next h) then Some v else h_obj h i; h_next := S (h_next h) |},
               Some (h_next h))
  end.
Fixpoint alloc_all (h : heap) (ts : list (option T)) : heap * list (option oid) :=
  match ts with
  | [] => (h, [])
  | t :: r => let (h1, o) := alloc h t in let (h2, os) := alloc_all h1 r in (h2, o :: os)
  end.
Definition write (h : heap) (o : option oid) (t : option T) : heap :=
  match o, t with
  | Some i, Some v => {| h_obj := fun j => if Nat.eqb j i then Some v else h_obj h j; h_next := h_next h |}
  | _, _ => h
  end.
Fixpoint write_all (h : heap) (os : list (option oid)) (ts : list (option T)) : heap :=
  match os, ts with
  | o :: os', t :: ts' => write_all (write h o t) os' ts'
  | _, _ => h
  end.

(* name -> object (Some None: bound to a nil tensor) *)
Definition oenv := string -> option (option oid).
Definition oupd (e : oenv) (n : string) (o : option oid) : oenv := fun m => if String.eqb m n then Some o else e m.

Fixpoint ogather (e : oenv) (names : list string) : xres (list (option oid)) :=
  match names with
  | [] => XOk []
  | n :: r =>
      if String.eqb n "" then (l <- ogather e r ;; XOk (None :: l))
      else match e n with
           | Some o => l <- ogather e r ;; XOk (o :: l)
           | None => XErr RModel
           end
  end.
Fixpoint obindout (e : oenv) (names : list string) (outs : list (option oid)) : oenv :=
  match names, outs with
  | n :: ns, o :: os => obindout (oupd e n o) ns os
  | _, _ => e
  end.

(* one node: the heap changes made before a failure PERSIST (the effect on the inputs happens
   inside Apply, whatever Apply then returns) *)
Definition ostep (h : heap) (e : oenv) (n : node attrs) : heap * xres oenv :=
  if supported (n_op n) then
    match ogather e (n_in n) with
    | XOk ids =>
        let vals := map (deref h) ids in
        let h1 := write_all h ids (op_eff (n_op n) (n_attrs n) vals) in
        match op_sem (n_op n) (n_attrs n) vals with
        | XOk outs =>
            if Nat.eqb (List.length (n_out n)) (List.length outs)
            then let (h2, oids) := alloc_all h1 outs in (h2, XOk (obindout e (n_out n) oids))
            else (h1, XErr RModel)
        | XErr k => (h1, XErr k)
        | XPanic => (h1, XPanic)
        end
    | XErr k => (h, XErr k)
    | XPanic => (h, XPanic)
    end
  else (h, XErr RUnsupportedOp).

Fixpoint orun_nodes (h : heap) (e : oenv) (ns : list (node attrs)) : heap * xres oenv :=
  match ns with
  | [] => (h, XOk e)
  | n :: r => match ostep h e n with
              | (h1, XOk e1) => orun_nodes h1 e1 r
              | (h1, XErr k) => (h1, XErr k)
              | (h1, XPanic) => (h1, XPanic)
              end
  end.

(* a loaded model: the graph structure with its parameters as OBJECTS *)
Record omodel := { om_inputs : list (string * option (list dim));
                   om_params : list (string * oid);
                   om_outputs : list string;
                   om_nodes : list (node attrs) }.

(* the graph the pure model of C01 sees when the objects are in the given state *)
Definition deref_list (h : heap) (l : list (string * oid)) : list (string * T) :=
  flat_map (fun p => match h_obj h (snd p) with Some v => [(fst p, v)] | None => [] end) l.
Definition graph_of (h : heap) (m : omodel) : graph T attrs :=
  {| g_inputs := om_inputs m; g_params := deref_list h (om_params m);
     g_outputs := om_outputs m; g_nodes := om_nodes m |}.

Definition oenv0 (m : omodel) (feed : list (string * oid)) : oenv :=
  fun n =>
    match lookup_last feed n with
    | Some o => if (match lookup_last (om_params m) n with Some _ => true | None => false end)
                   && negb (existsb (fun p => String.eqb (fst p) n) (om_inputs m))
                then option_map Some (lookup_last (om_params m) n) else Some (Some o)
    | None => option_map Some (lookup_last (om_params m) n)
    end.

Fixpoint ocollect (e : oenv) (outs : list string) : xres (list (string * oid)) :=
  match outs with
  | [] => XOk []
  | o :: r => match e o with
              | Some (Some i) => l <- ocollect e r ;; XOk ((o, i) :: l)
              | _ => XErr RModel
              end
  end.

(* one Run of a history: the caller passes OBJECTS; validation reads their current state *)
Definition orun (h : heap) (m : omodel) (feed : list (string * oid)) : heap * xres (list (string * oid)) :=
  if negb (validate_shapes T attrs shape_of (graph_of h m) (deref_list h feed)) then (h, XErr RShape)
  else match orun_nodes h (oenv0 m feed) (om_nodes m) with
       | (h1, XOk e) => (h1, ocollect e (om_outputs m))
       | (h1, XErr k) => (h1, XErr k)
       | (h1, XPanic) => (h1, XPanic)
       end.

(* what a caller can see of a result: the values of the returned objects *)
Definition result_values (h : heap) (r : xres (list (string * oid))) : xres (list (string * option T)) :=
  match r with
  | XOk l => XOk (map (fun p => (fst p, h_obj h (snd p))) l)
  | XErr k => XErr k
  | XPanic => XPanic
  end.

(* a history: a sequence of Runs on ONE model, each passing some objects *)
Fixpoint orun_hist (h : heap) (m : omodel) (calls : list (list (string * oid)))
  : heap * list (xres (list (string * option T))) :=
  match calls with
  | [] => (h, [])
  | feed :: r => let (h1, res) := orun h m feed in
                 let (h2, rs) := orun_hist h1 m r in (h2, result_values h1 res :: rs)
  end.

(* every operator leaves its inputs as they were *)
Definition pure_ops : Prop := forall o a ins, op_eff o a ins = ins.

(* ---- interleavings (C17): n Runs share the heap; a schedule picks which Run executes its next node ---- *)
Record thread := { t_env : oenv; t_todo : list (node attrs); t_failed : option rerr }.
Definition sched_step (h : heap) (ts : list thread) (i : nat) : heap * list thread :=
  match nth_error ts i with
  | Some t =>
      match t_failed t, t_todo t with
      | None, n :: rest =>
          let (h1, r) := ostep h (t_env t) n in
          let t' := match r with
                    | XOk e1 => {| t_env := e1; t_todo := rest; t_failed := None |}
                    | XErr k => {| t_env := t_env t; t_todo := rest; t_failed := Some k |}
                    | XPanic => {| t_env := t_env t; t_todo := rest; t_failed := Some ROpErr |}
                    end in
          (h1, firstn i ts ++ t' :: skipn (S i) ts)%list
      | _, _ => (h, ts)
      end
  | None => (h, ts)
  end.
Fixpoint run_schedule (h : heap) (ts : list thread) (sched : list nat) : heap * list thread :=
  match sched with
  | [] => (h, ts)
  | i :: r => let (h1, ts1) := sched_step h ts i in run_schedule h1 ts1 r
  end.
End H.
