(* Model of ops/validate_inputs.go (checkNInputs, padInputs, checkInputTypes),
   of the operator-specific layers of concat.go and prelu.go, and of the registry
   of ops/opset13/opset13.go. Definitions only; proofs are in Proofs/GateProofs.v. *)
From Coq Require Import List Arith Bool Lia String.
From V Require Import DType.
Import ListNotations.

Record opinfo := { o_name : string; o_min : nat; o_max : nat; o_cons : list (list dtype); o_fresh : bool; o_dyn : bool }.

(* what the gate can return *)
Inductive gate_out (T : Type) := GOk (ins : list (option T)) | GErrCount | GErrType (pos : nat) | GPanic.
Arguments GOk {T} ins. Arguments GErrCount {T}. Arguments GErrType {T} pos. Arguments GPanic {T}.

Section Gate.
Variable T : Type.
Variable dt : T -> dtype.

(* checkNInputs *)
Definition check_n (o : opinfo) (n : nat) : option nat :=
  if o_min o =? o_max o then (if n =? o_min o then Some (o_min o) else None)
  else if (n <? o_min o) || (o_max o <? n) then None else Some (o_max o).

(* padInputs: for len(inputs) < List.length { append nil } *)
Definition pad (ins : list (option T)) (len : nat) : list (option T) := ins ++ repeat None (len - List.length ins).

(* checkInputTypes: typeConstraints[i] is only evaluated for non-nil inputs; out of range = panic *)
Fixpoint check_types (cons : list (list dtype)) (i : nat) (ins : list (option T)) : option (option nat) :=
  (* None = panic, Some None = ok, Some (Some p) = type error at p *)
  match ins with
  | [] => Some None
  | None :: r => check_types cons (S i) r
  | Some t :: r =>
      match nth_error cons i with
      | None => None
      | Some allowed => if existsb (dtype_eqb (dt t)) allowed then check_types cons (S i) r else Some (Some i)
      end
  end.

Definition validate (o : opinfo) (ins : list (option T)) : gate_out T :=
  match check_n o (List.length ins) with
  | None => GErrCount
  | Some len =>
      let padded := pad ins len in
      match check_types (o_cons o) 0 padded with
      | None => GPanic
      | Some None => GOk padded
      | Some (Some p) => GErrType p
      end
  end.

(* side condition under which the gate cannot index past the constraint list *)
Definition wf_info (o : opinfo) : bool := (o_min o <=? o_max o) && (o_max o <=? List.length (o_cons o)).


(* concat.go:ValidateInputs sets max := len(inputs) and a constraint list of AllTypes of that
   length before calling the generic gate; min stays MinConcatInputs (o_min of the table). *)
Definition concat_info (o : opinfo) (n : nat) : opinfo :=
  {| o_name := o_name o; o_min := o_min o; o_max := n; o_cons := repeat all_dtypes n;
     o_fresh := o_fresh o; o_dyn := true |}.
Definition validate_concat (o : opinfo) (ins : list (option T)) : gate_out T :=
  validate (concat_info o (List.length ins)) ins.

(* prelu.go:ValidateInputs: generic gate, then x.Dtype() != slope.Dtype() => error (not an
   InputError); a nil at either position is dereferenced (panic). *)
Inductive prelu_out := POk (ins : list (option T)) | PGate (g : gate_out T) | PErrMismatch | PPanic.
Definition validate_prelu (o : opinfo) (ins : list (option T)) : prelu_out :=
  match validate o ins with
  | GOk out =>
      match out with
      | Some x :: Some s :: _ => if dtype_eqb (dt x) (dt s) then POk out else PErrMismatch
      | _ => PPanic
      end
  | g => PGate g
  end.
End Gate.

(* ---- registry: a finite table of constructors; every lookup runs the constructor ---- *)
Section Registry.
Variable St : Type.                    (* attribute state of an operator instance *)
Variable init_state : string -> St.    (* what the constructor of that name returns *)

(* an operator instance is a handle into a store of instance states *)
Record registry := { next_id : nat; store : nat -> option (string * St) }.
Definition reg0 : registry := {| next_id := 0; store := fun _ => None |}.

Definition lookup_name (names : list string) (n : string) : bool := existsb (String.eqb n) names.

(* GetOperator: unknown name => ErrUnsupportedOperator; known name => a NEW instance *)
Definition get_operator (names : list string) (r : registry) (n : string) : registry * option nat :=
  if lookup_name names n then
    ({| next_id := S (next_id r);
        store := fun i => if Nat.eqb i (next_id r) then Some (n, init_state n) else store r i |},
     Some (next_id r))
  else (r, None).

(* Init/Apply of one instance may rewrite that instance's state, nothing else *)
Definition write_state (r : registry) (i : nat) (s : St) : registry :=
  {| next_id := next_id r;
     store := fun j => if Nat.eqb j i then option_map (fun p => (fst p, s)) (store r j) else store r j |}.
Definition read_state (r : registry) (i : nat) : option St := option_map snd (store r i).

(* The variant the property excludes: one cached instance per operator name. *)
Definition get_operator_cached (names : list string) (idx : string -> nat) (r : registry) (n : string)
  : registry * option nat :=
  if lookup_name names n then
    (match store r (idx n) with
     | Some _ => r
     | None => {| next_id := next_id r;
                  store := fun i => if Nat.eqb i (idx n) then Some (n, init_state n) else store r i |}
     end, Some (idx n))
  else (r, None).
End Registry.
