(* Scalar semantics of the elementwise kernels: two's-complement wrap-around and truncating
   division for integers, IEEE-754 binary32/binary64 through Flocq (bit patterns in, bit patterns
   out, every NaN identified with the canonical quiet NaN), comparisons, boolean logic. *)
From Coq Require Import List ZArith Bool Lia String.
From Flocq Require Import Core.
From Flocq Require IEEE754.BinarySingleNaN.
From Flocq Require Import IEEE754.Binary IEEE754.Bits.
From V Require Import DType.
Import ListNotations.
Open Scope Z_scope.

(* ---------- scalar layer ---------- *)
Definition wrap (bits : Z) (signed : bool) (z : Z) : Z :=
  let m := z mod 2 ^ bits in
  if signed && (2 ^ (bits - 1) <=? m) then m - 2 ^ bits else m.

Definition nan32 : Z := 2143289344.              (* canonical representative of every binary32 NaN *)
Definition nan64 : Z := 9221120237041090560.
Definition canon32 (f : binary32) : Z := if is_nan 24 128 f then nan32 else bits_of_b32 f.
Definition canon64 (f : binary64) : Z := if is_nan 53 1024 f then nan64 else bits_of_b64 f.

Inductive arith := OAdd | OSub | OMul | ODiv.
Inductive cmp := CEq | CGt | CGe | CLt | CLe.
Inductive logic := LAnd | LOr | LXor.

Definition int_arith (bits : Z) (signed : bool) (o : arith) (a b : Z) : Z :=
  wrap bits signed
    match o with
    | OAdd => a + b | OSub => a - b | OMul => a * b
    | ODiv => if b =? 0 then 0 else Z.quot a b        (* gorgonia yields 0 for a zero divisor *)
    end.
Definition is_zero32 (b : Z) : bool := (b =? 0) || (b =? 2147483648).
Definition is_zero64 (b : Z) : bool := (b =? 0) || (b =? 9223372036854775808).
(* vecf32/vecf64 (pure-Go kernels): a zero divisor, of either sign, yields +Inf whatever the dividend *)
Definition f32_arith (o : arith) (a b : Z) : Z :=
  let x := b32_of_bits a in let y := b32_of_bits b in
  match o with ODiv => if is_zero32 b then 2139095040 else canon32 (b32_div BinarySingleNaN.mode_NE x y) | _ =>
  canon32 match o with
          | OAdd => b32_plus BinarySingleNaN.mode_NE x y | OSub => b32_minus BinarySingleNaN.mode_NE x y
          | OMul => b32_mult BinarySingleNaN.mode_NE x y | ODiv => b32_div BinarySingleNaN.mode_NE x y
          end end.
(* IEEE-754 division, what S asks for *)
Definition f32_div_ieee (a b : Z) : Z := canon32 (b32_div BinarySingleNaN.mode_NE (b32_of_bits a) (b32_of_bits b)).
Definition f64_div_ieee (a b : Z) : Z := canon64 (b64_div BinarySingleNaN.mode_NE (b64_of_bits a) (b64_of_bits b)).
Definition f64_arith (o : arith) (a b : Z) : Z :=
  let x := b64_of_bits a in let y := b64_of_bits b in
  match o with ODiv => if is_zero64 b then 9218868437227405312 else canon64 (b64_div BinarySingleNaN.mode_NE x y) | _ =>
  canon64 match o with
          | OAdd => b64_plus BinarySingleNaN.mode_NE x y | OSub => b64_minus BinarySingleNaN.mode_NE x y
          | OMul => b64_mult BinarySingleNaN.mode_NE x y | ODiv => b64_div BinarySingleNaN.mode_NE x y
          end end.

Definition of_comparison (c : cmp) (r : option comparison) : Z :=
  match r with
  | None => 0                                                   (* unordered: every comparison is false *)
  | Some Eq => match c with CEq | CGe | CLe => 1 | _ => 0 end
  | Some Gt => match c with CGt | CGe => 1 | _ => 0 end
  | Some Lt => match c with CLt | CLe => 1 | _ => 0 end
  end.
Definition int_cmp (c : cmp) (a b : Z) : Z := of_comparison c (Some (a ?= b)).
Definition f32_cmp (c : cmp) (a b : Z) : Z := of_comparison c (Bcompare 24 128 (b32_of_bits a) (b32_of_bits b)).
Definition f64_cmp (c : cmp) (a b : Z) : Z := of_comparison c (Bcompare 53 1024 (b64_of_bits a) (b64_of_bits b)).
Definition bool_logic (l : logic) (a b : Z) : Z :=
  match l with LAnd => if (a =? 1) && (b =? 1) then 1 else 0
             | LOr => if (a =? 1) || (b =? 1) then 1 else 0
             | LXor => if a =? b then 0 else 1 end.

(* typed dispatch: None = the kernel refuses this element type *)
Definition arith_fn (d : dtype) (o : arith) : option (Z -> Z -> Z) :=
  match d with
  | Int32 => Some (int_arith 32 true o) | Int64 => Some (int_arith 64 true o)
  | Uint32 => Some (int_arith 32 false o) | Uint64 => Some (int_arith 64 false o)
  | Float32 => Some (f32_arith o) | Float64 => Some (f64_arith o)
  | _ => None
  end.
Definition arith_fn_spec (d : dtype) (o : arith) : option (Z -> Z -> Z) :=
  match d, o with
  | Float32, ODiv => Some f32_div_ieee
  | Float64, ODiv => Some f64_div_ieee
  | _, _ => arith_fn d o
  end.
Definition cmp_fn (d : dtype) (c : cmp) : option (Z -> Z -> Z) :=
  match d with
  | Int8 | Int16 | Int32 | Int64 | Uint8 | Uint16 | Uint32 | Uint64 => Some (int_cmp c)
  | Float32 => Some (f32_cmp c) | Float64 => Some (f64_cmp c)
  | DString => Some (int_cmp c)              (* strings compare lexicographically; the harness uses one-digit tokens *)
  | DBool | Complex64 | Complex128 => match c with CEq => Some (int_cmp CEq) | _ => None end   (* only equality *)
  end.

