(* Models of ops/opset13/{reshape,flatten,squeeze,unsqueeze,shape}.go at the boundary type tval
   (these operators never look at element values: the payload is carried along unchanged). *)
From Coq Require Import List ZArith Bool Lia String.
From V Require Import DType Tensor Case.
Import ListNotations.
Open Scope Z_scope.


(* gorgonia Dense.Reshape on a fresh clone: size check, then negative extents panic *)
Definition gz_reshape (t : tval) (dims : list Z) : mres tval :=
  if negb (zprod dims =? total t) then MErr
  else if existsb (fun d => d <? 0) dims then MPanic
  else MOk {| dt := dt t; sh := map Z.to_nat dims; pl := pl t |}.

(* ---- reshape.go: processShape ---- *)
Fixpoint copy_zeros (i : nat) (ns : list Z) (cur : list nat) : option (list Z) :=
  match ns with
  | [] => Some []
  | d :: r =>
      match (if d =? 0 then option_map Z.of_nat (nth_error cur i) else Some d) with
      | None => None                                  (* "could not infer dim size" *)
      | Some d' => option_map (cons d') (copy_zeros (S i) r cur)
      end
  end.

(* the first -1: divide the total by every other entry (Go integer division truncates toward zero);
   a second -1 is an error *)
Fixpoint first_neg1 (ns : list Z) : option nat :=
  match ns with [] => None | d :: r => if d =? -1 then Some 0%nat else option_map S (first_neg1 r) end.
Definition infer (ns : list Z) (tot : Z) : option (list Z) :=
  match first_neg1 ns with
  | None => Some ns
  | Some i =>
      let others := firstn i ns ++ skipn (S i) ns in
      if existsb (fun d => d =? -1) others then None
      else Some (firstn i ns ++ [fold_left Z.quot others tot] ++ skipn (S i) ns)
  end.

Definition reshape_model (t shp : tval) : mres tval :=
  match sh shp with
  | [] => MPanic                                      (* Data().([]int64) on a scalar *)
  | _ =>
      if existsb (fun d => d <? -1) (pl shp) then MErr else   (* "dim sizes must be positive, 0 or -1" *)
      match copy_zeros 0 (pl shp) (sh t) with
      | None => MErr
      | Some ns => match infer ns (total t) with
                   | None => MErr
                   | Some ns' => gz_reshape t ns'
                   end
      end
  end.

(* ---- flatten.go ---- *)
Definition flatten_model (axis : Z) (t : tval) : mres tval :=
  let r := Z.of_nat (List.length (sh t)) in
  let a := if axis <? 0 then r + axis else axis in
  if (axis <? - r) || (r <? axis) then MErr            (* ErrAxisOutOfRange *)
  else if a =? 0 then gz_reshape t [1; total t]
  else gz_reshape t [zprod (zshape (firstn (Z.to_nat a) (sh t))); zprod (zshape (skipn (Z.to_nat a) (sh t)))].

(* ---- squeeze.go ---- *)
Definition squeeze_model (t : tval) (axes : option tval) : mres tval :=
  let n := Z.of_nat (List.length (sh t)) in
  let dims :=
    match axes with
    | None => Some (map Z.of_nat (filter (fun i => Nat.eqb (nth i (sh t) 0%nat) 1) (seq 0 (List.length (sh t)))))
    | Some a => match sh a with
                | [] => None                           (* AnyToIntSlice on a scalar: ErrCast *)
                | _ => Some (map (fun v => if v <? 0 then n + v else v) (pl a))
                end
    end in
  match dims with
  | None => MErr
  | Some ds =>
      if match axes with Some _ => negb (forallb (fun v => (0 <=? v) && (v <=? n - 1)) ds) | None => false end
      then MErr else                                   (* ErrNotAllAxesInRange *)
      let keep := filter (fun i => negb (existsb (fun d => d =? Z.of_nat i) ds)) (seq 0 (List.length (sh t))) in
      gz_reshape t (map (fun i => Z.of_nat (nth i (sh t) 0%nat)) keep)
  end.

(* ---- unsqueeze.go ---- *)
Fixpoint insert_sorted (x : Z) (l : list Z) : list Z :=
  match l with [] => [x] | y :: r => if x <=? y then x :: l else y :: insert_sorted x r end.
Definition sortz (l : list Z) : list Z := fold_right insert_sorted [] l.
Fixpoint has_dup (l : list Z) : bool :=
  match l with a :: ((b :: _) as r) => (a =? b) || has_dup r | _ => false end.
Fixpoint insert_ones (fuel : nat) (i : Z) (orig : list nat) (idx : list Z) : list Z :=
  match fuel with
  | O => []
  | S f => match idx with
           | j :: idx' => if j =? i then 1 :: insert_ones f (i + 1) orig idx'
                          else match orig with d :: o' => Z.of_nat d :: insert_ones f (i + 1) o' idx | [] => [] end
           | [] => match orig with d :: o' => Z.of_nat d :: insert_ones f (i + 1) o' idx | [] => [] end
           end
  end.
Definition unsqueeze_model (t axes : tval) : mres tval :=
  match sh axes with
  | [] => MErr
  | _ =>
      let orank := Z.of_nat (List.length (sh t) + List.length (pl axes)) in
      if negb (forallb (fun a => (- orank <=? a) && (a <=? orank - 1)) (pl axes)) then MErr
      else
        let ax := sortz (map (fun a => if a <? 0 then a + orank else a) (pl axes)) in
        if has_dup ax then MErr
        else gz_reshape t (insert_ones (Z.to_nat orank) 0 (sh t) ax)
  end.

(* ---- shape.go: tensor.New(WithShape(rank), WithBacking(dims)) ---- *)
Definition shape_model (t : tval) : mres tval :=
  match sh t with
  | [] => MPanic                                      (* an empty tensor cannot be constructed *)
  | s => MOk {| dt := Int64; sh := [List.length s]; pl := zshape s |}
  end.
