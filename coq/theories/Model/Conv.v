(* Model of ops/opset13/conv.go (1-D and 2-D, group 1; as repaired) over exact integers, and the
   ONNX specification of Conv. The test data are integer valued, so float32 arithmetic is exact
   and the geometry is compared exactly. *)
From Coq Require Import List ZArith Bool Lia String.
From V Require Import DType Tensor Case Writes ConvLoop.
Import ListNotations.
Open Scope Z_scope.

Inductive autopad := NotSet | SameUpper | SameLower | Valid.
Record cfg := { c_auto : autopad; c_dil : list Z; c_pads : list Z; c_str : list Z }.

Definition zn (l : list nat) (i : nat) : Z := Z.of_nat (nth i l 0%nat).
Definition znth (l : list Z) (i : nat) : Z := nth i l 0.
Definition tzc (t : tval) : tensor Z := mkT (sh t) (pl t).
Definition sumz (l : list Z) : Z := fold_left Z.add l 0.
Definition all_idx (s : list nat) : list (list nat) := map (unflat s) (seq 0 (numel s)).
Definition nsp (x : tval) : nat := (List.length (sh x) - 2)%nat.

Definition dil (cf : cfg) (i : nat) : Z := match c_dil cf with [] => 1 | l => znth l i end.
Definition str (cf : cfg) (i : nat) : Z := match c_str cf with [] => 1 | l => znth l i end.
(* getDilatedKernel + setKernelShape(newKernel): effective kernel extents (the kernel_shape attribute is overwritten) *)
Definition kext (cf : cfg) (k : tval) (i : nat) : Z := let kd := zn (sh k) (2 + i) in kd + (kd - 1) * (dil cf i - 1).
Definition explicit_pad (cf : cfg) (j : nat) : Z := match c_pads cf with [] => 0 | l => znth l j end.

(* setPaddingWithAutoPad (as repaired): spatial extents, padding clamped at 0; every mode other than
   NOTSET and SAME_LOWER -- including VALID -- is computed as SAME_UPPER *)
Definition code_pads (cf : cfg) (x k : tval) (i : nat) : Z * Z :=
  match c_auto cf with
  | NotSet => (explicit_pad cf i, explicit_pad cf (i + nsp x))
  | m => let dim := zn (sh x) (2 + i) in
         let target := (dim + str cf i - 1) / str cf i in
         let need := Z.max 0 ((target - 1) * str cf i + kext cf k i - dim) in
         let head := match m with SameLower => (need + 1) / 2 | _ => need / 2 end in
         (head, need - head)
  end.
(* ONNX *)
Definition onnx_pads (cf : cfg) (x k : tval) (i : nat) : Z * Z :=
  match c_auto cf with
  | NotSet => (explicit_pad cf i, explicit_pad cf (i + nsp x))
  | Valid => (0, 0)
  | m => let dim := zn (sh x) (2 + i) in
         let target := (dim + str cf i - 1) / str cf i in
         let need := Z.max 0 ((target - 1) * str cf i + kext cf k i - dim) in
         match m with SameLower => (need - need / 2, need / 2) | _ => (need / 2, need - need / 2) end
  end.

(* the convolution given pads and the predicate "the loop nest reaches output index o on axis i" *)
Definition conv_with (cf : cfg) (x k : tval) (bias : option tval) (pads : nat -> Z * Z) (visited : nat -> Z -> bool) : tval :=
  let n := nsp x in
  let oext := fun i => (zn (sh x) (2 + i) - kext cf k i + fst (pads i) + snd (pads i)) / str cf i + 1 in
  let oshape := [nth 0 (sh x) 0%nat; nth 0 (sh k) 0%nat] ++ map (fun i => Z.to_nat (oext i)) (seq 0 n) in
  let C := nth 1 (sh x) 0%nat in
  let taps := all_idx (C :: skipn 2 (sh k)) in
  let xpad := fun (b c : nat) (pos : list Z) =>
    if forallb (fun p => (fst (pads (fst p)) <=? snd p) && (snd p <? fst (pads (fst p)) + zn (sh x) (2 + fst p))) (combine (seq 0 n) pos)
    then get 0 (tzc x) (b :: c :: map (fun p => Z.to_nat (snd p - fst (pads (fst p)))) (combine (seq 0 n) pos)) else 0 in
  {| dt := dt x; sh := oshape;
     pl := map (fun f =>
             let o := unflat oshape f in
             let b := nth 0 o 0%nat in let m := nth 1 o 0%nat in let os := skipn 2 o in
             let w := if forallb (fun p => visited (fst p) (Z.of_nat (snd p))) (combine (seq 0 n) os)
                      then sumz (map (fun t => let c := nth 0 t 0%nat in let ts := skipn 1 t in
                                              get 0 (tzc k) (m :: c :: ts) *
                                              xpad b c (map (fun p => Z.of_nat (snd (fst p)) * str cf (fst (fst p)) + Z.of_nat (snd p) * dil cf (fst (fst p)))
                                                            (combine (combine (seq 0 n) os) ts))) taps)
                      else 0 in
             w + match bias with Some bt => nth m (pl bt) 0 | None => 0 end)
           (seq 0 (numel oshape)) |}.

Definition conv_spec (cf : cfg) (x k : tval) (bias : option tval) : tval :=
  conv_with cf x k bias (onnx_pads cf x k) (fun _ _ => true).

(* getDilatedKernel: a zero kernel of the dilated extents, every old tap copied to coordinate * dilation *)
Definition dilate (k : tensor Z) (ds : list nat) : tensor Z :=
  let s := tshape k in
  let ns := firstn 2 s ++ map (fun p => (snd p + (snd p - 1) * (fst p - 1))%nat) (combine ds (skipn 2 s)) in
  tabulate ns (fun i =>
    let sp := combine ds (skipn 2 i) in
    if forallb (fun p => (snd p mod fst p =? 0)%nat) sp
    then get 0 k (firstn 2 i ++ map (fun p => (snd p / fst p)%nat) sp) else 0).

Definition add_bias (t : tensor Z) (bias : option tval) : tensor Z :=
  match bias with
  | None => t
  | Some bt => tabulate (tshape t) (fun i => get 0 t i + nth (nth 1 i 0%nat) (pl bt) 0)
  end.

(* Apply: defaults, dilation, auto_pad, the 1-D / 2-D loop nest (Model/ConvLoop.v), bias *)
Definition conv_model (cf : cfg) (x k : tval) (bias : option tval) : mres tval :=
  let n := nsp x in
  if negb ((n =? 1)%nat || (n =? 2)%nat) then MErr
  else
    let ks := map (kext cf k) (seq 0 n) in
    let C := zn (sh x) 1 in
    let pads := code_pads cf x k in
    (* order as in Apply: pads are computed, then applyConvND pads the input (NewDense with a negative extent panics)
       before the first sub-image / sub-kernel broadcast can fail *)
    if existsb (fun i => (fst (pads i) <? 0) || (snd (pads i) <? 0)) (seq 0 n) then MPanic
    (* getSubImage / kernel.Slice: sliced axes of extent 1 are dropped; ranks must agree for the unidirectional broadcast *)
    else if negb (forallb (fun e => 2 <=? e) ks || (C * fold_right Z.mul 1 ks =? 1)) then MErr
    else
      let d := fun i => Z.to_nat (dil cf i) in
      let s := fun i => Z.to_nat (str cf i) in
      let e := fun l i => nth i l 0%nat in
      let kd := dilate (tzc k) (map d (seq 0 n)) in
      let p := fun i => Z.to_nat (fst (pads i)) in
      let q := fun i => Z.to_nat (snd (pads i)) in
      let out :=
        if (n =? 1)%nat
        then conv1d_loop 0 Z.add Z.mul (e (sh x) 0%nat) (e (sh x) 1%nat) (e (sh x) 2%nat) (e (sh k) 0%nat) (e (tshape kd) 2%nat)
                         (p 0%nat) (q 0%nat) (s 0%nat) (tzc x) kd
        else conv2d_loop 0 Z.add Z.mul (e (sh x) 0%nat) (e (sh x) 1%nat) (e (sh x) 2%nat) (e (sh x) 3%nat) (e (sh k) 0%nat)
                         (e (tshape kd) 2%nat) (e (tshape kd) 3%nat) (p 0%nat) (p 1%nat) (q 0%nat) (q 1%nat) (s 0%nat) (s 1%nat) (tzc x) kd in
      let r := add_bias out bias in
      MOk {| dt := dt x; sh := tshape r; pl := tdata r |}.
