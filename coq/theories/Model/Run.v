(* Model of model.go: Run, applyOp, validateShapes, getInputTensorsForNode,
   setOutputTensorsOfNode (as repaired). Operators are abstract: the semantics of one freshly
   constructed operator (Init; ValidateInputs; Apply) is a parameter, and so is the tensor type.
   Definitions only; proofs in Proofs/RunProofs.v. *)
From Coq Require Import List String Bool Arith ZArith Lia.
Import ListNotations.
Open Scope string_scope.

Inductive rerr := RModel | RShape | RUnsupportedOp | ROpErr.
Inductive xres (X : Type) := XOk (x : X) | XErr (k : rerr) | XPanic.
Arguments XOk {X} x. Arguments XErr {X} k. Arguments XPanic {X}.
Definition xbind {X Y} (r : xres X) (f : X -> xres Y) : xres Y :=
  match r with XOk x => f x | XErr k => XErr k | XPanic => XPanic end.
Notation "x <- r ;; k" := (xbind r (fun x => k)) (at level 61, r at next level, right associativity).

(* a declared dimension: fixed to a size, or dynamic (symbolic name or nothing: dim_value = 0) *)
Inductive dim := DFixed (n : Z) | DDyn.

Section Run.
Variable T attrs : Type.
Variable shape_of : T -> list nat.

Record node := { n_op : string; n_attrs : attrs; n_in : list string; n_out : list string }.

(* one freshly constructed operator applied to its inputs (None = absent / nil tensor);
   results may be nil tensors (None) *)
Variable op_sem : string -> attrs -> list (option T) -> xres (list (option T)).
Variable supported : string -> bool.

(* g_inputs: the declared graph inputs in order, each with its declared shape if the value info
   carries one (getShapesFromValueProto creates no entry otherwise) *)
Record graph := { g_inputs : list (string * option (list dim));
                  g_params : list (string * T);            (* decoded initializers *)
                  g_outputs : list string;
                  g_nodes : list node }.

(* the name -> tensor map of a Run; a name may be bound to a nil tensor (Some None) *)
Definition env := string -> option (option T).
Definition upd (e : env) (n : string) (t : option T) : env := fun m => if String.eqb m n then Some t else e m.
Definition empty_env : env := fun _ => None.

Fixpoint lookup {X} (l : list (string * X)) (n : string) : option X :=
  match l with [] => None | (m, v) :: r => if String.eqb m n then Some v else lookup r n end.
(* Go maps: a later duplicate key overwrites an earlier one *)
Fixpoint lookup_last {X} (l : list (string * X)) (n : string) : option X :=
  match l with
  | [] => None
  | (m, v) :: r => match lookup_last r n with Some w => Some w | None => if String.eqb m n then Some v else None end
  end.

Definition is_param (g : graph) (n : string) : bool := match lookup_last (g_params g) n with Some _ => true | None => false end.
Definition has_input (g : graph) (n : string) : bool := existsb (fun p => String.eqb (fst p) n) (g_inputs g).

(* validateShapes: for every declared input that has a shape entry and is not a parameter: present,
   same rank, every non-dynamic dimension equal *)
Definition dims_match (decl : list dim) (s : list nat) : bool :=
  Nat.eqb (List.length decl) (List.length s) &&
  forallb (fun p => match fst p with DDyn => true | DFixed n => Z.eqb n (Z.of_nat (snd p)) end) (combine decl s).
Definition input_shapes (g : graph) : list (string * list dim) :=
  flat_map (fun p => match snd p with Some s => [(fst p, s)] | None => [] end) (g_inputs g).
Definition validate_shapes (g : graph) (feed : list (string * T)) : bool :=
  forallb (fun p =>
             is_param g (fst p) ||
             match lookup_last feed (fst p), lookup_last (input_shapes g) (fst p) with
             | Some t, Some decl => dims_match decl (shape_of t)
             | _, _ => false
             end) (input_shapes g).

(* the initial environment: parameters, then the caller's tensors, except that an initializer
   which is not declared as a graph input is a constant and cannot be overridden *)
Definition env0 (g : graph) (feed : list (string * T)) : env :=
  fun n =>
    match lookup_last feed n with
    | Some t => if is_param g n && negb (has_input g n)
                then option_map Some (lookup_last (g_params g) n) else Some (Some t)
    | None => option_map Some (lookup_last (g_params g) n)
    end.

(* getInputTensorsForNode *)
Fixpoint gather (e : env) (names : list string) : xres (list (option T)) :=
  match names with
  | [] => XOk []
  | n :: r =>
      if String.eqb n "" then (l <- gather e r ;; XOk (None :: l))
      else match e n with
           | Some t => l <- gather e r ;; XOk (t :: l)
           | None => XErr RModel                       (* "no tensor yet for name" *)
           end
  end.

(* setOutputTensorsOfNode, after its length check *)
Fixpoint bindout (e : env) (names : list string) (outs : list (option T)) : env :=
  match names, outs with
  | n :: ns, t :: ts => bindout (upd e n t) ns ts
  | _, _ => e
  end.

(* one iteration of the node loop: GetOperator, then applyOp *)
Definition step (e : env) (n : node) : xres env :=
  if supported (n_op n) then
    ins <- gather e (n_in n) ;;
    outs <- op_sem (n_op n) (n_attrs n) ins ;;
    if Nat.eqb (List.length (n_out n)) (List.length outs) then XOk (bindout e (n_out n) outs)
    else XErr RModel                                   (* "could not set output tensor" *)
  else XErr RUnsupportedOp.

Fixpoint run_nodes (e : env) (ns : list node) : xres env :=
  match ns with [] => XOk e | n :: r => e' <- step e n ;; run_nodes e' r end.

(* output collection: every declared output must be bound to a non-nil tensor *)
Fixpoint collect (e : env) (outs : list string) : xres (list (string * T)) :=
  match outs with
  | [] => XOk []
  | o :: r => match e o with
              | Some (Some t) => l <- collect e r ;; XOk ((o, t) :: l)
              | _ => XErr RModel
              end
  end.

Definition run_model (g : graph) (feed : list (string * T)) : xres (list (string * T)) :=
  if negb (validate_shapes g feed) then XErr RShape
  else e <- run_nodes (env0 g feed) (g_nodes g) ;; collect e (g_outputs g).
End Run.

Arguments n_op {attrs}. Arguments n_attrs {attrs}. Arguments n_in {attrs}. Arguments n_out {attrs}.
Arguments g_inputs {T attrs}. Arguments g_params {T attrs}. Arguments g_outputs {T attrs}. Arguments g_nodes {T attrs}.
