(* The block-copy LOOP of ops/opset13/gather.go (Apply, gather, insertWithReplace) and of
   ops.OffsetTensorIfNegative, over an arbitrary element type, as the list of its element writes in
   program order (Base/Writes.v).

     for coords in indices.Iterator()               -- row-major, all_indices (shape idx)
         k := indices[coords]                       -- already offset to be non-negative
         dataSlice   := data[:, .., :, k, :, .., :]            (k at position axis)
         outputSlice := out [:, .., :, coords.., :, .., :]     (coords from position axis)
         PairwiseAssign(outputSlice, dataSlice)     -- both blocks have shape sd[:axis] ++ sd[axis+1:]
                                                       and are walked in row-major order (pre, post)

   GatherLoopProofs.v proves the loop equal to the index formula that IndexOps.gather_model uses. *)
From Coq Require Import List Arith Lia PeanoNat Bool ZArith.
From V Require Import DType Tensor ListUtil Writes Case IndexOps.
Import ListNotations.
Local Open Scope nat_scope.

(* ---------- ops.OffsetTensorIfNegative: n < 0 => n + offset, elementwise, in place ---------- *)
Definition offset_neg (offset n : Z) : Z := if (n <? 0)%Z then (n + offset)%Z else n.
Definition offset_tensor (offset : Z) (t : tensor Z) : tensor Z :=
  mkT (tshape t) (map (offset_neg offset) (tdata t)).

(* ---------- insertWithReplace(a, x, axis): x[:axis] ++ a ++ (x[axis+1:] if axis+1 < len x) ---------- *)
Definition insert_with_replace (a x : shape) (axis : nat) : shape :=
  firstn axis x ++ a ++ (if S axis <? length x then skipn (S axis) x else []).

Section Loop.
Context {A : Type} (d : A).
Notation tensor := (tensor A).

(* k := indices.At(coords...) as an int used for slicing *)
Definition key_of (idx : Tensor.tensor Z) (coords : list nat) : nat := Z.to_nat (get 0%Z idx coords).

(* PairwiseAssign(out[pre.., coords.., post..], data[pre.., k, post..]) for one coords: the block
   positions (pre, post) in row-major order of the block shape sd[:a] ++ sd[a+1:] *)
Definition block_writes (a : nat) (data : tensor) (coords : list nat) (k : nat) : list (list nat * A) :=
  flat_map (fun pre =>
              map (fun post => (pre ++ coords ++ post, get d data (pre ++ [k] ++ post)))
                  (all_indices (skipn (S a) (tshape data))))
           (all_indices (firstn a (tshape data))).

(* the whole loop: one block copy per coordinate of the index tensor, in iterator order *)
Definition gather_writes (a : nat) (data : tensor) (idx : Tensor.tensor Z) : list (list nat * A) :=
  flat_map (fun coords => block_writes a data coords (key_of idx coords)) (all_indices (tshape idx)).

Definition gather_out_shape (a : nat) (data : tensor) (idx : Tensor.tensor Z) : shape :=
  insert_with_replace (tshape idx) (tshape data) a.

(* tensor.New(WithShape(os...), Of(dtype)) is filled with the zero value; then gather() runs *)
Definition gather_loop_from (zero : A) (a : nat) (data : tensor) (idx : Tensor.tensor Z) : tensor :=
  apply_writes (tabulate (gather_out_shape a data idx) (fun _ => zero)) (gather_writes a data idx).

Definition gather_loop (a : nat) (data : tensor) (idx : Tensor.tensor Z) : tensor :=
  gather_loop_from d a data idx.

(* the ONNX index formula: out[j_0..j_{a-1}, i_0..i_{q-1}, j_{a+1}..] = data[j_0.., idx[i..], ..] *)
Definition gather_formula (a : nat) (data : tensor) (idx : Tensor.tensor Z) : tensor :=
  let q := length (tshape idx) in
  tabulate (firstn a (tshape data) ++ tshape idx ++ skipn (S a) (tshape data))
           (fun o => get d data (firstn a o ++ [key_of idx (firstn q (skipn a o))] ++ skipn (a + q) o)).
End Loop.

(* ---------- Gather.Apply at payload type Z: checks, offsetting, output allocation, loop ---------- *)
Definition gather_loop_model (axis : Z) (data idx : tval) : mres tval :=
  let r := rank data in
  if ((axis <? - r) || (r <=? axis))%Z then MErr                       (* ErrAxisOutOfRange *)
  else
    let a := Z.to_nat (if (axis <? 0)%Z then (axis + r)%Z else axis) in
    let dim := Z.of_nat (nthz (sh data) a) in
    if negb (forallb (fun k => (- dim <=? k) && (k <? dim))%Z (pl idx)) then MErr   (* AllInRange *)
    else MOk (of_tensor (dt data) (gather_loop 0%Z a (tz data) (offset_tensor dim (tz idx)))).
