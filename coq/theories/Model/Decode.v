(* Model of onnx/graph_proto.go:TensorFromProto and its readers (as repaired): the data_type
   switch, typed-field-else-raw selection, the fixed-width little-endian read loops with buffer
   size and element size kept apart as in the source, the narrowing conversions from the
   int32/uint64 carriers, the unknown-type fallback, getDims, the element-count check. *)
From Coq Require Import List ZArith Lia Bool.
From V Require Import DType Case Scalar.
Import ListNotations.
Open Scope Z_scope.

(* an onnx.TensorProto as far as the decoder looks at it; float payloads are bit patterns *)
Record tproto := { tp_type : Z; tp_dims : list Z; tp_raw : list Z;
                   tp_float : list Z; tp_int32 : list Z; tp_int64 : list Z;
                   tp_double : list Z; tp_uint64 : list Z }.

(* little-endian value of a chunk of bytes, and its inverse *)
Fixpoint le (bs : list Z) : Z := match bs with [] => 0 | b :: r => b + 256 * le r end.
Fixpoint enc (w : nat) (x : Z) : list Z := match w with O => [] | S w' => (x mod 256) :: enc w' (x / 256) end.

(* outcome of a reader: values, an error, or the (nil, nil) return of the readers as first written *)
Inductive rres (X : Type) := ROk (x : X) | RErr | RNilNil.
Arguments ROk {X} x. Arguments RErr {X}. Arguments RNilNil {X}.

(* the read loop of ReadXxxArrayFromBytes:
     n, err = buffer.Read(element); if n != size || err != nil { break }
   bytes.Reader.Read returns min(len(element), remaining) bytes, io.EOF iff nothing remains *)
Fixpoint read_loop (fuel buf size : nat) (data : list Z) (acc : list Z) : rres (list Z) :=
  match fuel with
  | O => RErr
  | S f =>
      match data with
      | [] => ROk (rev acc)                                    (* err == io.EOF *)
      | _ => let chunk := firstn buf data in
             if Nat.eqb (List.length chunk) size
             then read_loop f buf size (skipn buf data) (le chunk :: acc)
             else RNilNil                                       (* err == nil, n != size *)
      end
  end.
Definition read_array (buf size : nat) (data : list Z) : rres (list Z) :=
  read_loop (S (List.length data)) buf size data [].

(* the repaired readers: a trailing partial element is io.ErrUnexpectedEOF *)
Definition read_fixed (w : nat) (data : list Z) : option (list Z) :=
  match read_array w w data with ROk v => Some v | _ => None end.

Definition to_signed (bits : Z) (u : Z) : Z := if 2 ^ (bits - 1) <=? u then u - 2 ^ bits else u.

(* ONNX TensorProto.DataType codes *)
Definition T_FLOAT := 1. Definition T_UINT8 := 2. Definition T_INT8 := 3. Definition T_UINT16 := 4.
Definition T_INT16 := 5. Definition T_INT32 := 6. Definition T_INT64 := 7. Definition T_BOOL := 9.
Definition T_DOUBLE := 11. Definition T_UINT32 := 12. Definition T_UINT64 := 13.

Definition nonempty (l : list Z) : bool := match l with [] => false | _ => true end.

(* getXxxData: the typed field if populated, else the raw bytes *)
Definition get_float tp := if nonempty (tp_float tp) then Some (tp_float tp) else read_fixed 4 (tp_raw tp).
Definition get_double tp := if nonempty (tp_double tp) then Some (tp_double tp) else read_fixed 8 (tp_raw tp).
Definition get_int32 tp := if nonempty (tp_int32 tp) then Some (tp_int32 tp) else option_map (map (to_signed 32)) (read_fixed 4 (tp_raw tp)).
Definition get_int64 tp := if nonempty (tp_int64 tp) then Some (tp_int64 tp) else option_map (map (to_signed 64)) (read_fixed 8 (tp_raw tp)).
Definition get_uint64 tp := if nonempty (tp_uint64 tp) then Some (tp_uint64 tp) else read_fixed 8 (tp_raw tp).
Definition get_uint32 tp := if nonempty (tp_uint64 tp) then Some (map (wrap 32 false) (tp_uint64 tp)) else read_fixed 4 (tp_raw tp).
Definition get_int8 tp := if nonempty (tp_int32 tp) then Some (map (wrap 8 true) (tp_int32 tp)) else option_map (map (to_signed 8)) (read_fixed 1 (tp_raw tp)).
Definition get_uint8 tp := if nonempty (tp_int32 tp) then Some (map (wrap 8 false) (tp_int32 tp)) else read_fixed 1 (tp_raw tp).
Definition get_int16 tp := if nonempty (tp_int32 tp) then Some (map (wrap 16 true) (tp_int32 tp)) else option_map (map (to_signed 16)) (read_fixed 2 (tp_raw tp)).
Definition get_uint16 tp := if nonempty (tp_int32 tp) then Some (map (wrap 16 false) (tp_int32 tp)) else read_fixed 2 (tp_raw tp).
Definition get_bool tp := if nonempty (tp_int32 tp) then Some (map (fun v => if v =? 1 then 1 else 0) (tp_int32 tp))
                          else Some (map (fun b => if 0 <? b then 1 else 0) (tp_raw tp)).

(* the data_type switch, including the fallback of the default branch *)
Definition decode_values (tp : tproto) : option (dtype * option (list Z)) :=
  let t := tp_type tp in
  if t =? T_FLOAT then Some (Float32, get_float tp) else
  if t =? T_UINT8 then Some (Uint8, get_uint8 tp) else
  if t =? T_INT8 then Some (Int8, get_int8 tp) else
  if t =? T_UINT16 then Some (Uint16, get_uint16 tp) else
  if t =? T_INT16 then Some (Int16, get_int16 tp) else
  if t =? T_UINT32 then Some (Uint32, get_uint32 tp) else
  if t =? T_INT32 then Some (Int32, get_int32 tp) else
  if t =? T_UINT64 then Some (Uint64, get_uint64 tp) else
  if t =? T_INT64 then Some (Int64, get_int64 tp) else
  if t =? T_DOUBLE then Some (Float64, get_double tp) else
  if t =? T_BOOL then Some (DBool, get_bool tp) else
  if negb (t =? 0) then None else               (* a type that is not supported: ErrInvalidType *)
  (* UNDEFINED: fall back on whichever typed field is populated *)
  if nonempty (tp_float tp) then Some (Float32, get_float tp) else
  if nonempty (tp_int32 tp) then Some (Int32, get_int32 tp) else
  if nonempty (tp_int64 tp) then Some (Int64, get_int64 tp) else
  if nonempty (tp_double tp) then Some (Float64, get_double tp) else
  if nonempty (tp_uint64 tp) then Some (Uint64, get_uint64 tp) else None.

(* dims must be positive and their product must be the number of decoded values *)
Definition tensor_from_proto (tp : tproto) : mres tval :=
  match decode_values tp with
  | None => MErr                                   (* ErrInvalidType *)
  | Some (_, None) => MErr                         (* reader error *)
  | Some (d, Some vals) =>
      if existsb (fun x => x <? 1) (tp_dims tp) then MErr
      else if negb (Z.of_nat (List.length vals) =? zprod (tp_dims tp)) then MErr
      else MOk {| dt := d; sh := map Z.to_nat (tp_dims tp); pl := vals |}
  end.
