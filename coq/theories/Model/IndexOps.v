(* Models of ops/opset13/{transpose,concat,slice,gather,expand}.go and their ONNX specifications. *)
From Coq Require Import List ZArith Bool Lia String.
From V Require Import DType Tensor Case Slice Broadcast.
Import ListNotations.
Open Scope Z_scope.

Definition tz (t : tval) : tensor Z := mkT (sh t) (pl t).
Definition of_tensor (d : dtype) (t : tensor Z) : tval := {| dt := d; sh := tshape t; pl := tdata t |}.
Definition rank (t : tval) : Z := Z.of_nat (List.length (sh t)).
Definition nthz (l : list nat) (i : nat) : nat := nth i l 0%nat.
Fixpoint has_dupz (l : list Z) : bool := match l with [] => false | a :: r => existsb (Z.eqb a) r || has_dupz r end.

(* ---------- Transpose ---------- *)
Definition transpose_idx (perm : list nat) (r : nat) (i : list nat) : list nat :=
  (* source index: src[perm[k]] = i[k] *)
  map (fun a => match find (fun k => Nat.eqb (nth k perm 0%nat) a) (seq 0 r) with Some k => nth k i 0%nat | None => 0%nat end) (seq 0 r).
Definition transpose_value (t : tval) (perm : list nat) : tval :=
  let r := List.length (sh t) in
  let s' := map (nthz (sh t)) perm in
  of_tensor (dt t) (tabulate s' (fun i => get 0 (tz t) (transpose_idx perm r i))).
Definition perm_ok (t : tval) (perm : list Z) : bool :=
  (Z.of_nat (List.length perm) =? rank t) && forallb (fun p => (0 <=? p) && (p <? rank t)) perm && negb (has_dupz perm).
Definition transpose_model (perm : option (list Z)) (nattrs : nat) (t : tval) : mres tval :=
  match perm with
  | Some p => if negb (Nat.eqb nattrs 1) then MErr
              else match p with
                   | [] => MOk (transpose_value t (rev (seq 0 (List.length (sh t)))))   (* no axes given: gorgonia reverses *)
                   | _ => if perm_ok t p then MOk (transpose_value t (map Z.to_nat p)) else MErr   (* isPermutation *)
                   end
  | None => MErr                                     (* Init: exactly one attribute, named perm *)
  end.

(* ---------- Concat ---------- *)
Definition concat2 (axis : nat) (a b : tensor Z) : tensor Z :=
  let da := nthz (tshape a) axis in
  tabulate (map (fun k => if Nat.eqb k axis then (da + nthz (tshape b) axis)%nat else nthz (tshape a) k) (seq 0 (List.length (tshape a))))
           (fun i => if (nth axis i 0 <? da)%nat then get 0 a i
                     else get 0 b (map (fun k => if Nat.eqb k axis then (nth k i 0 - da)%nat else nth k i 0%nat) (seq 0 (List.length i)))).
Definition concat_compatible (axis : nat) (a b : tval) : bool :=
  dtype_eqb (dt a) (dt b) &&      (* one element type for all inputs (as repaired: a type error instead of the library's panic) *)
  Nat.eqb (List.length (sh a)) (List.length (sh b)) &&
  forallb (fun k => Nat.eqb k axis || Nat.eqb (nthz (sh a) k) (nthz (sh b) k)) (seq 0 (List.length (sh a))).
Definition concat_value (axis : nat) (ts : list tval) : option tval :=
  match ts with
  | [] => None
  | t0 :: rest =>
      if forallb (concat_compatible axis t0) rest
      then Some (of_tensor (dt t0) (fold_left (fun acc t => concat2 axis acc (tz t)) rest (tz t0)))
      else None
  end.
Definition concat_model (axis : Z) (ts : list tval) : mres tval :=
  match ts with
  | [t] => MOk t
  | t0 :: _ =>
      let a := if axis <? 0 then rank t0 + axis else axis in
      if (axis <? - rank t0) || (rank t0 <=? axis) then MErr      (* ErrAxisOutOfRange *)
      else match concat_value (Z.to_nat a) ts with Some v => MOk v | None => MErr end
  | [] => MErr
  end.

(* ---------- Slice: constructSlices + gorgonia Slice + Materialize ---------- *)
Definition ints_of (t : tval) : list Z := pl t.     (* AnyToIntSlice (IfScalarToSlice data) *)
Fixpoint set_nth {X} (l : list X) (k : nat) (x : X) : list X :=
  match l, k with [], _ => [] | _ :: r, O => x :: r | y :: r, S k' => y :: set_nth r k' x end.
(* checkSlices: operands of equal length, axes in range, positive steps, non-empty result *)
Definition slice_operands (t starts ends : tval) (axes steps : option tval) : list Z * list Z * list Z * list Z :=
  let st := ints_of starts in let en := ints_of ends in
  let ax := match axes with Some a => ints_of a | None => map Z.of_nat (seq 0 (List.length st)) end in
  let sp := match steps with Some s => ints_of s | None => repeat 1 (List.length st) end in
  (st, en, ax, sp).
Definition check_slices (t : tval) (st en ax sp : list Z) : bool :=
  let r := rank t in
  Nat.eqb (List.length en) (List.length st) && Nat.eqb (List.length ax) (List.length st) && Nat.eqb (List.length sp) (List.length st) &&
  forallb (fun q => let '(((s0, e0), a), p0) := q in
                    (- r <=? a) && (a <? r) && (0 <? p0) &&
                    (s0 <? Z.min e0 (Z.of_nat (nthz (sh t) (Z.to_nat (if a <? 0 then r + a else a))))))
          (combine (combine (combine st en) ax) sp).
Definition slice_model (t starts ends : tval) (axes steps : option tval) : mres tval :=
  let '(st, en, ax, sp) := slice_operands t starts ends axes steps in
  let r := List.length (sh t) in
  if negb (check_slices t st en ax sp) then MErr else
  (* for i, ax := range axes { slices[ax] = NewSlicer(starts[i], ends[i], steps[i]) } *)
  let fix build (stl enl axl spl : list Z) (acc : list (option (Z*Z*Z))) : list (option (Z*Z*Z)) :=
    match stl, enl, axl, spl with
    | s0 :: stl', e0 :: enl', a :: axl', p0 :: spl' =>
        let a' := if a <? 0 then Z.of_nat r + a else a in
        build stl' enl' axl' spl' (set_nth acc (Z.to_nat a') (Some (s0, e0, p0)))
    | _, _, _, _ => acc
    end in
  match g_slice (sh t) (pl t) (build st en ax sp (repeat None r)) with
  | SOk s d => MOk {| dt := dt t; sh := s; pl := d |}
  | SErr => MErr
  | SPanic => MPanic
  | SChaos => MPanic                            (* unreachable after check_slices; kept total *)
  end.

(* ONNX Slice-13 *)
Definition clamp (lo hi x : Z) : Z := Z.max lo (Z.min hi x).
Definition onnx_slice_axis (dim start end_ step : Z) : Z * Z * Z :=   (* start', step, extent *)
  let s0 := if start <? 0 then start + dim else start in
  let e0 := if end_ <? 0 then end_ + dim else end_ in
  if 0 <? step then
    let s := clamp 0 dim s0 in let e := clamp 0 dim e0 in
    (s, step, Z.max 0 ((e - s + step - 1) / step))
  else
    let s := clamp 0 (dim - 1) s0 in let e := clamp (-1) (dim - 1) e0 in
    (s, step, Z.max 0 ((s - e + (- step) - 1) / (- step))).
Inductive sspec := SValue (v : tval) | SEmpty | SInvalid.
Definition slice_spec (t starts ends : tval) (axes steps : option tval) : sspec :=
  let st := ints_of starts in let en := ints_of ends in
  let ax := match axes with Some a => ints_of a | None => map Z.of_nat (seq 0 (List.length st)) end in
  let sp := match steps with Some s => ints_of s | None => repeat 1 (List.length st) end in
  let r := rank t in
  if negb (Nat.eqb (List.length st) (List.length en) && Nat.eqb (List.length st) (List.length ax) && Nat.eqb (List.length st) (List.length sp)) then SInvalid
  else if negb (forallb (fun a => (- r <=? a) && (a <? r)) ax) || existsb (Z.eqb 0) sp then SInvalid
  else
    let axn := map (fun a => Z.to_nat (if a <? 0 then a + r else a)) ax in
    if (List.length (nodup Nat.eq_dec axn) <? List.length axn)%nat then SInvalid
    else
      let per_axis := map (fun k => match find (fun p => Nat.eqb (snd p) k) (combine (seq 0 (List.length axn)) axn) with
                                    | Some (i, _) => onnx_slice_axis (Z.of_nat (nthz (sh t) k)) (nth i st 0) (nth i en 0) (nth i sp 1)
                                    | None => (0, 1, Z.of_nat (nthz (sh t) k))
                                    end) (seq 0 (List.length (sh t))) in
      let s' := map (fun p => Z.to_nat (snd p)) per_axis in
      if existsb (Nat.eqb 0) s' then SEmpty
      else
        let src := fun (i : list nat) => map (fun p => Z.to_nat (fst (fst (snd p)) + Z.of_nat (fst p) * snd (fst (snd p)))) (combine i per_axis) in
        SValue (of_tensor (dt t) (tabulate s' (fun i => get 0 (tz t) (src i)))).

(* ---------- Gather (index formula; the block-copy loop is proved equal to it separately) ---------- *)
Definition gather_model (axis : Z) (data idx : tval) : mres tval :=
  let r := rank data in
  if (axis <? - r) || (r <=? axis) then MErr
  else
    let a := Z.to_nat (if axis <? 0 then axis + r else axis) in
    let d := Z.of_nat (nthz (sh data) a) in
    if negb (forallb (fun k => (- d <=? k) && (k <? d)) (pl idx)) then MErr
    else
      let q := List.length (sh idx) in
      let os := firstn a (sh data) ++ sh idx ++ skipn (S a) (sh data) in
      MOk (of_tensor (dt data) (tabulate os (fun o =>
             let k := get 0 (tz idx) (firstn q (skipn a o)) in
             let k' := Z.to_nat (if k <? 0 then k + d else k) in
             get 0 (tz data) (firstn a o ++ [k'] ++ skipn (a + q) o)))).

(* ---------- Expand: MultidirectionalBroadcast against a tensor of the requested shape ---------- *)
Definition expand_model (t shp : tval) : mres tval :=
  match sh shp with
  | [] => MErr                                        (* AnyToIntSlice on a scalar *)
  | _ =>
      if existsb (fun d => d <=? 0) (pl shp) then MErr
      else
        let shape := map Z.to_nat (pl shp) in
        let target := mkT shape (repeat 0 (numel shape)) in
        let* p := multidir_broadcast 0 (tz t) target in
        MOk (of_tensor (dt t) (fst p))
  end.
(* ONNX: two-way broadcast of the input against the target shape *)
Fixpoint bshape_r (ra rb : list nat) : option (list nat) :=
  match ra, rb with
  | [], l | l, [] => Some l
  | x :: ra', y :: rb' =>
      if (x =? y)%nat || (y =? 1)%nat then option_map (cons x) (bshape_r ra' rb')
      else if (x =? 1)%nat then option_map (cons y) (bshape_r ra' rb') else None
  end.
Definition expand_spec (t shp : tval) : option tval :=
  match option_map (@rev nat) (bshape_r (rev (sh t)) (rev (map Z.to_nat (pl shp)))) with
  | None => None
  | Some s =>
      let r := List.length (sh t) in
      Some (of_tensor (dt t) (tabulate s (fun i =>
              let j := skipn (List.length i - r) i in
              get 0 (tz t) (map (fun p => if Nat.eqb (snd p) 1 then 0%nat else fst p) (combine j (sh t))))))
  end.
