(* Model of model.go:NewModel on the PARSED structure (after proto.Unmarshal): Params decodes
   every initializer (first error wins), the opset is the maximum version over all imports
   whatever their domain, ResolveOperatorGetter looks it up in the opset table. *)
From Coq Require Import List ZArith Bool.
From V Require Import DType Case Decode.
Import ListNotations.
Open Scope Z_scope.

Record mproto := { m_inits : list tproto; m_opsets : list Z }.

(* for i := 0; i < len(opsetImports); i++ { if version > opsetID { opsetID = version } }, from 0 *)
Definition max_version (vs : list Z) : Z := fold_left (fun acc v => if acc <? v then v else acc) vs 0.

Inductive lres := LOk (params : list tval) | LErrInit | LErrOpset | LPanic.

Fixpoint params (inits : list tproto) : mres (list tval) :=
  match inits with
  | [] => MOk []
  | tp :: r => let* t := tensor_from_proto tp in let* l := params r in MOk (t :: l)
  end.

Definition load (supported : list Z) (mp : mproto) : lres :=
  match params (m_inits mp) with
  | MErr => LErrInit
  | MPanic => LPanic
  | MOk ps => if existsb (Z.eqb (max_version (m_opsets mp))) supported then LOk ps else LErrOpset
  end.
