(* The loop nests of applyConv1D / applyConv2D (ops/opset13/conv.go, as repaired) over an arbitrary
   scalar type: batch, kernel, h (and w) loops `for h := 0; h < Hp; h += s` with the guard
   `h/s >= OH => continue`, each iteration one SetAt of sum(subImage * subKernel); the padded input
   is the zero-extended input (padInput). And the ONNX direct-convolution formula. The kernel is the
   already dilated one. *)
From Coq Require Import List Arith Lia PeanoNat Bool.
From V Require Import Tensor ListUtil Writes.
Import ListNotations.

Section C.
Context {A : Type} (zero : A) (add mul : A -> A -> A).
Notation tensor := (tensor A).
Notation get := (get zero).

Definition sum (l : list A) : A := fold_left add l zero.

Section Conv1.
(* x : [N;C;H], k : [M;C;KW], pads p0 p1, stride s *)
Variables (N C H M KW p0 p1 s : nat) (x k : tensor).
Let Hp := p0 + H + p1.
Let OH := (Hp - KW) / s + 1.
Let J := (Hp + s - 1) / s.          (* iterations of  for h := 0; h < Hp; h += s *)

Definition xpad1 (b c h : nat) : A :=
  if (p0 <=? h) && (h <? p0 + H) then get x [b; c; h - p0] else zero.
Definition padded1 : tensor := tabulate [N; C; Hp] (fun i => xpad1 (nth 0 i 0) (nth 1 i 0) (nth 2 i 0)).

(* sum (getSubImage(paddedX, b, h) * subKernel(m)): taps in row-major (c, a) order *)
Definition window1 (pd : tensor) (b m h : nat) : A :=
  sum (map (fun ca => mul (get pd [b; nth 0 ca 0; h + nth 1 ca 0]) (get k [m; nth 0 ca 0; nth 1 ca 0]))
           (all_indices [C; KW])).

Definition writes1 (pd : tensor) : list (list nat * A) :=
  map (fun i => ([nth 0 i 0; nth 1 i 0; nth 2 i 0], window1 pd (nth 0 i 0) (nth 1 i 0) (nth 2 i 0 * s)))
      (filter (fun i => nth 2 i 0 <? OH) (all_indices [N; M; J])).

(* the padded input is built once (padInput), then the loops run *)
Definition conv1d_loop : tensor :=
  let pd := padded1 in apply_writes (tabulate [N; M; OH] (fun _ => zero)) (writes1 pd).

(* ONNX: out[b,m,o] = sum_c sum_a Xpad[b,c,o*s+a] * W[m,c,a] *)
Definition conv1d_spec : tensor :=
  tabulate [N; M; OH] (fun i =>
    sum (map (fun ca => mul (xpad1 (nth 0 i 0) (nth 0 ca 0) (nth 2 i 0 * s + nth 1 ca 0))
                            (get k [nth 1 i 0; nth 0 ca 0; nth 1 ca 0]))
             (all_indices [C; KW]))).
End Conv1.

Section Conv2.
(* x : [N;C;H;W], k : [M;C;KH;KW], pads (top p0, left p1, bottom p2, right p3), strides s0 s1 *)
Variables (N C H W M KH KW p0 p1 p2 p3 s0 s1 : nat) (x k : tensor).
Let Hp := p0 + H + p2.
Let Wp := p1 + W + p3.
Let OH := (Hp - KH) / s0 + 1.
Let OW := (Wp - KW) / s1 + 1.
Let JH := (Hp + s0 - 1) / s0.
Let JW := (Wp + s1 - 1) / s1.        (* the w loop runs over the padded WIDTH (as repaired) *)

Definition xpad2 (b c h w : nat) : A :=
  if (p0 <=? h) && (h <? p0 + H) && (p1 <=? w) && (w <? p1 + W) then get x [b; c; h - p0; w - p1] else zero.
Definition padded2 : tensor :=
  tabulate [N; C; Hp; Wp] (fun i => xpad2 (nth 0 i 0) (nth 1 i 0) (nth 2 i 0) (nth 3 i 0)).

Definition window2 (pd : tensor) (b m h w : nat) : A :=
  sum (map (fun t => mul (get pd [b; nth 0 t 0; h + nth 1 t 0; w + nth 2 t 0])
                         (get k [m; nth 0 t 0; nth 1 t 0; nth 2 t 0]))
           (all_indices [C; KH; KW])).

Definition writes2 (pd : tensor) : list (list nat * A) :=
  map (fun i => ([nth 0 i 0; nth 1 i 0; nth 2 i 0; nth 3 i 0],
                 window2 pd (nth 0 i 0) (nth 1 i 0) (nth 2 i 0 * s0) (nth 3 i 0 * s1)))
      (filter (fun i => (nth 2 i 0 <? OH) && (nth 3 i 0 <? OW)) (all_indices [N; M; JH; JW])).

Definition conv2d_loop : tensor :=
  let pd := padded2 in apply_writes (tabulate [N; M; OH; OW] (fun _ => zero)) (writes2 pd).

Definition conv2d_spec : tensor :=
  tabulate [N; M; OH; OW] (fun i =>
    sum (map (fun t => mul (xpad2 (nth 0 i 0) (nth 0 t 0) (nth 2 i 0 * s0 + nth 1 t 0) (nth 3 i 0 * s1 + nth 2 t 0))
                           (get k [nth 1 i 0; nth 0 t 0; nth 1 t 0; nth 2 t 0]))
             (all_indices [C; KH; KW]))).
End Conv2.
End C.
