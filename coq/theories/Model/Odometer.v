(* incrementSlices (ops/opset13/matmul.go) and the `for { ...; if !incrementSlices break }` loop
   of batchedMatMul, recording the batch index visited at every iteration. Definitions only. *)
From Coq Require Import List Arith Lia PeanoNat Bool.
From V Require Import Tensor.
Import ListNotations.

(* on reversed lists: last axis first. None = "incrementSucceeded" is false. *)
Fixpoint incr_r (rs ridx : list nat) : option (list nat) :=
  match rs, ridx with
  | d :: rs', k :: ridx' =>
      if d =? k + 1 then
        match rs' with
        | [] => None                       (* i == 0: cannot increment any more *)
        | _ => option_map (cons 0) (incr_r rs' ridx')
        end
      else Some ((k + 1) :: ridx')
  | _, _ => None
  end.
Definition incr (s idx : list nat) : option (list nat) :=
  option_map (@rev nat) (incr_r (rev s) (rev idx)).

Fixpoint bloop (fuel : nat) (s idx : list nat) (acc : list (list nat)) : option (list (list nat)) :=
  match fuel with
  | 0 => None
  | S f => match incr s idx with
           | Some i' => bloop f s i' (idx :: acc)
           | None => Some (rev (idx :: acc))
           end
  end.

(* the batch indices batchedMatMul visits, starting from all-zero slices *)
Definition odometer (s : list nat) : option (list (list nat)) := bloop (numel s) s (repeat 0 (length s)) [].
