(* Model of ops/multidir_broadcast.go and ops/unidir_broadcast.go. Definitions only. *)
From Coq Require Import List Arith Lia PeanoNat Bool.
From V Require Import Tensor ListUtil Case Repeat Reshape.
Import ListNotations.

Section B.
Context {A : Type} (d : A).
Notation tensor := (tensor A).

(* AddExtraDimsToTensor: clone, prepend n extents of 1, Reshape *)
Definition add_extra_dims (t : tensor) (n : nat) : mres tensor :=
  g_reshape t (repeat 1 n ++ tshape t).

(* ReshapeTensorsForMultidirBroadcast *)
Definition reshape_multidir (a b : tensor) : mres (tensor * tensor) :=
  let ra := length (tshape a) in let rb := length (tshape b) in
  if rb <? ra then let* b' := add_extra_dims b (ra - rb) in MOk (a, b')
  else if ra <? rb then let* a' := add_extra_dims a (rb - ra) in MOk (a', b)
  else MOk (a, b).

(* one iteration of the loop in repeatTensorsForMutltidirBroadcast; sa/sb are the
   shapes captured before the loop, exactly as the Go code does *)
Definition step (sa sb : shape) (st : mres (tensor * tensor)) (axis : nat) : mres (tensor * tensor) :=
  match st with
  | MOk (a, b) =>
      let da := nth axis sa 0 in let db := nth axis sb 0 in
      if da =? db then MOk (a, b)
      else if da =? 1 then MOk (g_repeat d a axis db, b)
      else if db =? 1 then MOk (a, g_repeat d b axis da)
      else MErr
  | e => e
  end.

(* for axis := nDims-1; axis >= 0; axis-- *)
Fixpoint loop (sa sb : shape) (m : nat) (st : mres (tensor * tensor)) :=
  match m with 0 => st | S m' => loop sa sb m' (step sa sb st m') end.

Definition repeat_multidir (a b : tensor) :=
  loop (tshape a) (tshape b) (length (tshape a)) (MOk (a, b)).

Definition multidir_broadcast (a b : tensor) : mres (tensor * tensor) :=
  let* (a1, b1) := reshape_multidir a b in repeat_multidir a1 b1.

(* ---- unidirectional ---- *)
Definition reshape_unidir (a b : tensor) : mres tensor :=
  let ra := length (tshape a) in let rb := length (tshape b) in
  if rb <? ra then add_extra_dims b (ra - rb)
  else if ra =? rb then MOk b
  else MErr.

Definition ustep (sa sb : shape) (st : mres tensor) (axis : nat) : mres tensor :=
  match st with
  | MOk b =>
      let da := nth axis sa 0 in let db := nth axis sb 0 in
      if da =? db then MOk b
      else if db =? 1 then MOk (g_repeat d b axis da)
      else MErr
  | e => e
  end.
Fixpoint uloop (sa sb : shape) (m : nat) (st : mres tensor) :=
  match m with 0 => st | S m' => uloop sa sb m' (ustep sa sb st m') end.

Definition unidir_broadcast (a b : tensor) : mres (tensor * tensor) :=
  let* b1 := reshape_unidir a b in
  let* b2 := uloop (tshape a) (tshape b1) (length (tshape a)) (MOk b1) in
  MOk (a, b2).
End B.
