(* Model of ops/binary_op.go:ApplyBinaryOperation for the twelve binary operators:
   multidirectional broadcast (Model/Broadcast.v), dtype equality, the kernel. *)
From Coq Require Import List ZArith Bool Lia String.
From V Require Import DType Tensor Case Broadcast BroadcastSpec Scalar.
Import ListNotations.
Open Scope Z_scope.

Definition tz (t : tval) : tensor Z := mkT (sh t) (pl t).

Fixpoint map2 {X Y W} (f : X -> Y -> W) (a : list X) (b : list Y) : list W :=
  match a, b with x :: a', y :: b' => f x y :: map2 f a' b' | _, _ => [] end.

Definition binop_model (f : option (Z -> Z -> Z)) (out_dt : dtype) (a b : tval) : mres tval :=
  let* (a', b') := multidir_broadcast 0 (tz a) (tz b) in
  if negb (dtype_eqb (dt a) (dt b)) then MErr        (* gorgonia: TypeMismatch *)
  else match f with
       | None => MErr                                 (* the kernel refuses this element type *)
       | Some g => MOk {| dt := out_dt; sh := tshape a'; pl := map2 g (tdata a') (tdata b') |}
       end.

(* ONNX: broadcast the two operands (Spec/BroadcastSpec.v), apply the scalar operation at every index *)
Definition binop_spec (g : Z -> Z -> Z) (out_dt : dtype) (a b : tval) : option tval :=
  match bshape (sh a) (sh b) with
  | None => None
  | Some s => Some {| dt := out_dt; sh := s;
                      pl := map (fun n => let i := unflat s n in
                                          g (get 0 (tz a) (bproj (sh a) i)) (get 0 (tz b) (bproj (sh b) i)))
                                (seq 0 (numel s)) |}
  end.
