(* Run (Model/Run.v) computes the dataflow composition of the graph (Spec/RunSpec.v), for every
   node list, every operator semantics, every tensor type. *)
From Coq Require Import List String Bool Arith ZArith Lia.
From V Require Import Run RunSpec.
Import ListNotations.
Open Scope string_scope.

Section P.
Variable T attrs : Type.
Variable shape_of : T -> list nat.
Variable op_sem : string -> attrs -> list (option T) -> xres (list (option T)).
Variable supported : string -> bool.
Notation node := (node attrs).
Notation graph := (graph T attrs).
Notation env := (env T).
Notation run_nodes := (run_nodes T attrs op_sem supported).
Notation step := (step T attrs op_sem supported).
Notation value := (value T attrs op_sem).
Notation run_model := (run_model T attrs shape_of op_sem supported).

(* ---------- helper lemmas ---------- *)
Lemma gather_spec (e : env) names l :
  gather T e names = XOk l ->
  sequence (map (fun i => if String.eqb i "" then Some None else e i) names) = Some l.
Proof.
  revert l. induction names as [|n r IH]; cbn; intros l H.
  - now inversion H.
  - destruct (String.eqb n "") eqn:En.
    + destruct (gather T e r) as [l'|k|] eqn:G; cbn in H; inversion H; subst.
      now rewrite (IH _ eq_refl).
    + destruct (e n) as [t|]; [|discriminate].
      destruct (gather T e r) as [l'|k|] eqn:G; cbn in H; inversion H; subst.
      cbn. now rewrite (IH _ eq_refl).
Qed.

(* the LAST occurrence of a name among the output names wins; no NoDup hypothesis *)
Lemma bindout_last (e : env) names outs x :
  List.length names = List.length outs ->
  bindout T e names outs x =
  match last_index_of x names with Some j => nth_error outs j | None => e x end.
Proof.
  revert e outs. induction names as [|n ns IH]; intros e outs L; cbn in *.
  - reflexivity.
  - destruct outs as [|t ts]; [discriminate|]. cbn in L.
    rewrite IH by lia.
    destruct (last_index_of x ns) as [j|] eqn:I; [reflexivity|].
    unfold upd. destruct (String.eqb x n) eqn:E; reflexivity.
Qed.

Lemma run_nodes_app (e : env) a b :
  run_nodes e (a ++ b)%list = xbind (run_nodes e a) (fun e' => run_nodes e' b).
Proof.
  revert e. induction a as [|m r IH]; intros e; cbn; [reflexivity|].
  destruct (step e m) as [e'|k|]; cbn; auto.
Qed.

Lemma step_ok_inv (e e' : env) n :
  step e n = XOk e' ->
  exists ins outs, supported (n_op n) = true /\ gather T e (n_in n) = XOk ins /\
    op_sem (n_op n) (n_attrs n) ins = XOk outs /\
    List.length (n_out n) = List.length outs /\ e' = bindout T e (n_out n) outs.
Proof.
  unfold Run.step. intros H.
  destruct (supported (n_op n)) eqn:S; [|discriminate].
  destruct (gather T e (n_in n)) as [ins|k|] eqn:G; cbn in H; try discriminate.
  destruct (op_sem (n_op n) (n_attrs n) ins) as [outs|k|] eqn:O; cbn in H; try discriminate.
  destruct (Nat.eqb (List.length (n_out n)) (List.length outs)) eqn:L; [|discriminate].
  apply Nat.eqb_eq in L. inversion H; subst. exists ins, outs. auto.
Qed.

Lemma value_ext (ns : list node) (e0 e0' : env) :
  (forall y, e0 y = e0' y) -> forall x, value ns e0 x = value ns e0' x.
Proof.
  intros HE. induction ns as [|n r IH]; intros x; cbn; [apply HE|].
  destruct (last_index_of x (n_out n)) as [j|]; [|apply IH].
  assert (Hmap : map (fun i => if String.eqb i "" then Some None else value r e0 i) (n_in n)
               = map (fun i => if String.eqb i "" then Some None else value r e0' i) (n_in n)).
  { apply map_ext. intros i. now rewrite IH. }
  now rewrite Hmap.
Qed.

(* TARGET 1: the environment after the node loop holds, under every name, the demand-driven value.
   No topological-order, SSA or distinct-output-names hypothesis. *)
Theorem run_nodes_value (ns : list node) (e0 e : env) :
  run_nodes e0 ns = XOk e -> forall x, e x = value (rev ns) e0 x.
Proof.
  revert e0 e. induction ns as [|n ns' IH] using rev_ind; intros e0 e H x.
  - cbn in *. now inversion H.
  - rewrite rev_app_distr. cbn [rev app RunSpec.value].
    rewrite run_nodes_app in H.
    destruct (run_nodes e0 ns') as [e1|k|] eqn:H1; cbn in H; try discriminate.
    destruct (step e1 n) as [e2|k|] eqn:H2; cbn in H; try discriminate.
    inversion H; subst e2. clear H.
    pose proof (IH e0 e1 H1) as IH1.
    apply step_ok_inv in H2 as (ins & outs & S & G & O & L & ->).
    apply gather_spec in G.
    assert (Hmap : map (fun i => if String.eqb i "" then Some None else value (rev ns') e0 i) (n_in n)
                 = map (fun i => if String.eqb i "" then Some None else e1 i) (n_in n)).
    { apply map_ext. intros i. now rewrite IH1. }
    rewrite Hmap, G, O.
    rewrite bindout_last by exact L.
    destruct (last_index_of x (n_out n)) as [j|] eqn:I; [reflexivity|apply IH1].
Qed.

(* TARGET 2: the initial environment of the model is the one the property describes *)
Theorem env0_spec (g : graph) feed n : env0 T attrs g feed n = spec_env0 T attrs g feed n.
Proof.
  unfold env0, spec_env0, is_param.
  destruct (lookup_last feed n) as [t|] eqn:F;
  destruct (lookup_last (g_params g) n) as [w|] eqn:Pm;
  destruct (has_input T attrs g n) eqn:HI; cbn; reflexivity.
Qed.

Lemma collect_ok (e : env) outs out :
  collect T e outs = XOk out ->
  map fst out = outs /\ forall o t, In (o, t) out -> e o = Some (Some t).
Proof.
  revert out. induction outs as [|o r IH]; cbn; intros out H.
  - inversion H; subst. split; [reflexivity|]. intros o t [].
  - destruct (e o) as [[t|]|] eqn:E; try discriminate.
    destruct (collect T e r) as [l|k|] eqn:C; cbn in H; try discriminate.
    inversion H; subst. destruct (IH _ eq_refl) as [IH1 IH2].
    split; [cbn; now rewrite IH1|].
    intros o' t' [HIn|HIn]; [inversion HIn; subst; exact E|now apply IH2].
Qed.

Lemma collect_err (e : env) outs k :
  collect T e outs = XErr k ->
  k = RModel /\ exists o, In o outs /\ (e o = None \/ e o = Some None).
Proof.
  induction outs as [|o r IH]; cbn; intros H; [discriminate|].
  destruct (e o) as [[t|]|] eqn:E.
  - destruct (collect T e r) as [l|k'|] eqn:C; cbn in H; try discriminate.
    inversion H; subst. destruct (IH eq_refl) as [-> (o' & HIn & Ho')].
    split; [reflexivity|]. exists o'. split; [now right|exact Ho'].
  - inversion H; subst. split; [reflexivity|]. exists o. split; [now left|now right].
  - inversion H; subst. split; [reflexivity|]. exists o. split; [now left|now left].
Qed.

Lemma collect_no_panic (e : env) outs : collect T e outs <> XPanic.
Proof.
  induction outs as [|o r IH]; cbn; [discriminate|].
  destruct (e o) as [[t|]|]; try discriminate.
  destruct (collect T e r) as [l|k|]; cbn; try discriminate. congruence.
Qed.

Lemma gather_no_panic (e : env) names : gather T e names <> XPanic.
Proof.
  induction names as [|n r IH]; cbn; [discriminate|].
  destruct (String.eqb n "").
  - destruct (gather T e r) as [l|k|]; cbn; try discriminate. congruence.
  - destruct (e n) as [t|]; [|discriminate].
    destruct (gather T e r) as [l|k|]; cbn; try discriminate. congruence.
Qed.

Lemma step_no_panic (e : env) n :
  (forall o a i, op_sem o a i <> XPanic) -> step e n <> XPanic.
Proof.
  intros HP. unfold Run.step.
  destruct (supported (n_op n)); [|discriminate].
  destruct (gather T e (n_in n)) as [ins|k|] eqn:G; cbn; try discriminate.
  - destruct (op_sem (n_op n) (n_attrs n) ins) as [outs|k|] eqn:O; cbn; try discriminate.
    + destruct (Nat.eqb (List.length (n_out n)) (List.length outs)); discriminate.
    + exfalso. exact (HP _ _ _ O).
  - exfalso. exact (gather_no_panic _ _ G).
Qed.

Lemma run_nodes_no_panic (e : env) ns :
  (forall o a i, op_sem o a i <> XPanic) -> run_nodes e ns <> XPanic.
Proof.
  intros HP. revert e. induction ns as [|n r IH]; intros e; cbn; [discriminate|].
  destruct (step e n) as [e'|k|] eqn:S; cbn; try discriminate.
  - apply IH.
  - exfalso. exact (step_no_panic _ _ HP S).
Qed.

Lemma run_nodes_err (e0 : env) ns k :
  run_nodes e0 ns = XErr k ->
  exists pre n post, ns = (pre ++ n :: post)%list /\
    exists e, run_nodes e0 pre = XOk e /\ step e n = XErr k.
Proof.
  revert e0. induction ns as [|m r IH]; intros e0 H; cbn in H; [discriminate|].
  destruct (step e0 m) as [e'|k'|] eqn:S; cbn in H; try discriminate.
  - destruct (IH _ H) as (pre & n & post & -> & e & H1 & H2).
    exists (m :: pre), n, post. split; [reflexivity|].
    exists e. split; [|exact H2]. cbn. rewrite S. cbn. exact H1.
  - inversion H; subst. exists [], m, r. split; [reflexivity|].
    exists e0. split; [reflexivity|exact S].
Qed.

(* TARGET 3: a successful Run returns exactly the declared outputs, in order, each the (non-nil)
   demand-driven value of its name *)
Theorem run_model_ok (g : graph) feed out :
  run_model g feed = XOk out ->
  validate_shapes T attrs shape_of g feed = true /\
  map fst out = g_outputs g /\
  forall o t, In (o, t) out -> value (rev (g_nodes g)) (spec_env0 T attrs g feed) o = Some (Some t).
Proof.
  unfold Run.run_model. intros H.
  destruct (validate_shapes T attrs shape_of g feed) eqn:V; cbn in H; [|discriminate].
  split; [reflexivity|].
  destruct (run_nodes (env0 T attrs g feed) (g_nodes g)) as [e|k|] eqn:R; cbn in H; try discriminate.
  destruct (collect_ok _ _ _ H) as [H1 H2].
  split; [exact H1|].
  intros o t HIn. apply H2 in HIn.
  rewrite <- HIn. rewrite (run_nodes_value _ _ _ R o).
  apply value_ext. intros y. symmetry. apply env0_spec.
Qed.

(* TARGET 4: Run fails exactly when validation fails, or a node fails, or a declared output is
   not bound to a tensor; the error of the first failing node is the one reported *)
Theorem run_model_err (g : graph) feed k :
  run_model g feed = XErr k ->
  (k = RShape /\ validate_shapes T attrs shape_of g feed = false) \/
  (validate_shapes T attrs shape_of g feed = true /\
   exists pre n post, g_nodes g = (pre ++ n :: post)%list /\
     (exists e, run_nodes (env0 T attrs g feed) pre = XOk e /\ step e n = XErr k)) \/
  (validate_shapes T attrs shape_of g feed = true /\ k = RModel /\
   exists e, run_nodes (env0 T attrs g feed) (g_nodes g) = XOk e /\
     exists o, In o (g_outputs g) /\ (e o = None \/ e o = Some None)).
Proof.
  unfold Run.run_model. intros H.
  destruct (validate_shapes T attrs shape_of g feed) eqn:V; cbn in H.
  - right.
    destruct (run_nodes (env0 T attrs g feed) (g_nodes g)) as [e|k'|] eqn:R; cbn in H; try discriminate.
    + right. destruct (collect_err _ _ _ H) as [-> (o & HIn & Ho)].
      split; [reflexivity|]. split; [reflexivity|].
      exists e. split; [reflexivity|]. exists o. auto.
    + left. inversion H; subst k'. split; [reflexivity|].
      destruct (run_nodes_err _ _ _ R) as (pre & n & post & E & e & H1 & H2).
      exists pre, n, post. split; [exact E|]. exists e. auto.
  - left. inversion H; subst. auto.
Qed.

(* TARGET 5: a node of an unregistered operator type makes Run fail with the unsupported-operator
   error if every earlier node succeeds; and no graph containing such a node can succeed *)
Theorem unsupported_op_refused (g : graph) feed pre n post :
  g_nodes g = (pre ++ n :: post)%list -> supported (n_op n) = false ->
  (forall out, run_model g feed <> XOk out) /\
  (forall e, validate_shapes T attrs shape_of g feed = true ->
             run_nodes (env0 T attrs g feed) pre = XOk e -> run_model g feed = XErr RUnsupportedOp).
Proof.
  intros E S.
  assert (St : forall e, step e n = XErr RUnsupportedOp).
  { intros e. unfold Run.step. now rewrite S. }
  split.
  - intros out H. unfold Run.run_model in H.
    destruct (validate_shapes T attrs shape_of g feed) eqn:V; cbn in H; [|discriminate].
    rewrite E, run_nodes_app in H.
    destruct (run_nodes (env0 T attrs g feed) pre) as [e|k|] eqn:R; cbn in H; try discriminate.
    rewrite St in H. cbn in H. discriminate.
  - intros e V R. unfold Run.run_model. rewrite V. cbn.
    rewrite E, run_nodes_app, R. cbn. rewrite St. reflexivity.
Qed.

(* TARGET 6: Run never panics unless an operator does *)
Theorem run_model_no_panic (g : graph) feed :
  (forall o a i, op_sem o a i <> XPanic) -> run_model g feed <> XPanic.
Proof.
  intros HP. unfold Run.run_model.
  destruct (validate_shapes T attrs shape_of g feed) eqn:V; cbn; [|discriminate].
  destruct (run_nodes (env0 T attrs g feed) (g_nodes g)) as [e|k|] eqn:R; cbn.
  - apply collect_no_panic.
  - discriminate.
  - exfalso. exact (run_nodes_no_panic _ _ HP R).
Qed.

(* TARGET 7: positional binding: renaming the names of a graph consistently (an injective
   renaming that fixes "") leaves all values unchanged *)
Definition rename_node (f : string -> string) (n : node) : node :=
  {| n_op := n_op n; n_attrs := n_attrs n; n_in := map f (n_in n); n_out := map f (n_out n) |}.
Lemma last_index_of_map (f : string -> string) x l :
  (forall a b, f a = f b -> a = b) ->
  last_index_of (f x) (map f l) = last_index_of x l.
Proof.
  intros Hinj. induction l as [|y r IH]; cbn; [reflexivity|].
  rewrite IH. destruct (last_index_of x r) as [j|]; [reflexivity|].
  destruct (String.eqb x y) eqn:E.
  - apply String.eqb_eq in E. subst. now rewrite String.eqb_refl.
  - destruct (String.eqb (f x) (f y)) eqn:E'; [|reflexivity].
    apply String.eqb_eq in E'. apply Hinj in E'. subst. rewrite String.eqb_refl in E. discriminate.
Qed.

Lemma eqb_empty_map (f : string -> string) i :
  (forall a b, f a = f b -> a = b) -> f "" = "" ->
  String.eqb (f i) "" = String.eqb i "".
Proof.
  intros Hinj Hemp. destruct (String.eqb i "") eqn:E.
  - apply String.eqb_eq in E. subst. rewrite Hemp. apply String.eqb_refl.
  - apply String.eqb_neq. intros C. rewrite <- Hemp in C. apply Hinj in C.
    subst. rewrite String.eqb_refl in E. discriminate.
Qed.

(* the clean form: any initial environment that agrees, through f, on the names that can be
   demanded (x and the names of the graph) *)
Lemma value_rename_gen (f : string -> string) (ns : list node) (e0 e0' : env) :
  (forall a b, f a = f b -> a = b) -> f "" = "" ->
  forall x,
  (forall y, In y (x :: flat_map (fun n => (n_in n ++ n_out n)%list) ns) -> e0' (f y) = e0 y) ->
  value (map (rename_node f) ns) e0' (f x) = value ns e0 x.
Proof.
  intros Hinj Hemp. induction ns as [|n r IH]; intros x HE; cbn [map RunSpec.value].
  - apply HE. now left.
  - cbn [rename_node n_out n_in n_op n_attrs].
    rewrite last_index_of_map by exact Hinj.
    destruct (last_index_of x (n_out n)) as [j|] eqn:I.
    + rewrite map_map.
      assert (Hmap : map (fun i => if String.eqb (f i) "" then Some None
                                   else value (map (rename_node f) r) e0' (f i)) (n_in n)
                   = map (fun i => if String.eqb i "" then Some None else value r e0 i) (n_in n)).
      { apply map_ext_in. intros i Hi. rewrite eqb_empty_map by assumption.
        destruct (String.eqb i ""); [reflexivity|].
        apply IH. intros y [Hy|Hy].
        - subst y. apply HE. right. cbn. apply in_or_app. left. apply in_or_app. now left.
        - apply HE. right. cbn. apply in_or_app. now right. }
      rewrite Hmap. reflexivity.
    + apply IH. intros y [Hy|Hy].
      * subst y. apply HE. now left.
      * apply HE. right. cbn. apply in_or_app. now right.
Qed.

(* corollary: the initial environment renamed pointwise *)
Corollary value_rename_env (f : string -> string) (ns : list node) (e0 e0' : env) x :
  (forall a b, f a = f b -> a = b) -> f "" = "" ->
  (forall y, e0' (f y) = e0 y) ->
  value (map (rename_node f) ns) e0' (f x) = value ns e0 x.
Proof. intros Hinj Hemp HE. apply value_rename_gen; auto. Qed.

Theorem value_rename (f : string -> string) (ns : list node) (e0 : env) x :
  (forall a b, f a = f b -> a = b) -> f "" = "" ->
  value (map (rename_node f) ns) (fun y => match find (fun z => String.eqb (f z) y) (x :: flat_map (fun n => (n_in n ++ n_out n)%list) ns) with
                                            | Some z => e0 z | None => None end) (f x)
  = value ns e0 x.
Proof.
  intros Hinj Hemp.
  apply value_rename_gen; [exact Hinj|exact Hemp|].
  intros y HIn.
  set (L := (x :: flat_map (fun n => (n_in n ++ n_out n)%list) ns)) in *.
  destruct (find (fun z => String.eqb (f z) (f y)) L) as [z|] eqn:F.
  - apply find_some in F as [_ F]. apply String.eqb_eq in F. apply Hinj in F. now subst.
  - exfalso. pose proof (find_none _ _ F y HIn) as F'. cbn in F'.
    rewrite String.eqb_refl in F'. discriminate.
Qed.
End P.

Print Assumptions run_nodes_value.
Print Assumptions env0_spec.
Print Assumptions run_model_ok.
Print Assumptions run_model_err.
Print Assumptions unsupported_op_refused.
Print Assumptions run_model_no_panic.
Print Assumptions value_rename.
