(* Run (Model/Run.v) computes the dataflow composition of the graph (Spec/RunSpec.v), for every
   node list, every operator semantics, every tensor type. *)
From Coq Require Import List String Bool Arith ZArith Lia.
From V Require Import Run RunSpec.
Import ListNotations.
Open Scope string_scope.

Section P.
Variable T attrs : Type.
Variable shape_of : T -> list nat.
Variable op_sem : string -> attrs -> list (option T) -> xres (list (option T)).
Variable supported : string -> bool.
Notation node := (node attrs).
Notation graph := (graph T attrs).
Notation env := (env T).
Notation run_nodes := (run_nodes T attrs op_sem supported).
Notation step := (step T attrs op_sem supported).
Notation value := (value T attrs op_sem).
Notation run_model := (run_model T attrs shape_of op_sem supported).

(* TARGET 1: the environment after the node loop holds, under every name, the demand-driven value.
   No topological-order, SSA or distinct-output-names hypothesis. *)
Theorem run_nodes_value (ns : list node) (e0 e : env) :
  run_nodes e0 ns = XOk e -> forall x, e x = value (rev ns) e0 x.
Proof.
Abort.

(* TARGET 2: the initial environment of the model is the one the property describes *)
Theorem env0_spec (g : graph) feed n : env0 T attrs g feed n = spec_env0 T attrs g feed n.
Proof.
Abort.

(* TARGET 3: a successful Run returns exactly the declared outputs, in order, each the (non-nil)
   demand-driven value of its name *)
Theorem run_model_ok (g : graph) feed out :
  run_model g feed = XOk out ->
  validate_shapes T attrs shape_of g feed = true /\
  map fst out = g_outputs g /\
  forall o t, In (o, t) out -> value (rev (g_nodes g)) (spec_env0 T attrs g feed) o = Some (Some t).
Proof.
Abort.

(* TARGET 4: Run fails exactly when validation fails, or a node fails, or a declared output is
   not bound to a tensor; the error of the first failing node is the one reported *)
Theorem run_model_err (g : graph) feed k :
  run_model g feed = XErr k ->
  (k = RShape /\ validate_shapes T attrs shape_of g feed = false) \/
  (validate_shapes T attrs shape_of g feed = true /\
   exists pre n post, g_nodes g = (pre ++ n :: post)%list /\
     (exists e, run_nodes (env0 T attrs g feed) pre = XOk e /\ step e n = XErr k)) \/
  (validate_shapes T attrs shape_of g feed = true /\ k = RModel /\
   exists e, run_nodes (env0 T attrs g feed) (g_nodes g) = XOk e /\
     exists o, In o (g_outputs g) /\ (e o = None \/ e o = Some None)).
Proof.
Abort.

(* TARGET 5: a node of an unregistered operator type makes Run fail with the unsupported-operator
   error if every earlier node succeeds; and no graph containing such a node can succeed *)
Theorem unsupported_op_refused (g : graph) feed pre n post :
  g_nodes g = (pre ++ n :: post)%list -> supported (n_op n) = false ->
  (forall out, run_model g feed <> XOk out) /\
  (forall e, validate_shapes T attrs shape_of g feed = true ->
             run_nodes (env0 T attrs g feed) pre = XOk e -> run_model g feed = XErr RUnsupportedOp).
Proof.
Abort.

(* TARGET 6: Run never panics unless an operator does *)
Theorem run_model_no_panic (g : graph) feed :
  (forall o a i, op_sem o a i <> XPanic) -> run_model g feed <> XPanic.
Proof.
Abort.

(* TARGET 7: positional binding: renaming the names of a graph consistently (an injective
   renaming that fixes "") leaves all values unchanged *)
Definition rename_node (f : string -> string) (n : node) : node :=
  {| n_op := n_op n; n_attrs := n_attrs n; n_in := map f (n_in n); n_out := map f (n_out n) |}.
Theorem value_rename (f : string -> string) (ns : list node) (e0 : env) x :
  (forall a b, f a = f b -> a = b) -> f "" = "" ->
  value (map (rename_node f) ns) (fun y => match find (fun z => String.eqb (f z) y) (x :: flat_map (fun n => (n_in n ++ n_out n)%list) ns) with
                                            | Some z => e0 z | None => None end) (f x)
  = value ns e0 x.
Proof.
Abort.
End P.
