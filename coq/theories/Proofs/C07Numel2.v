(* C07: Reshape with an inferred extent (-1) -- the shape S demands holds the input's element count *)
From Coq Require Import List ZArith Bool Lia String.
From V Require Import DType Tensor Case OpCheck ShapeOps CheckC07 ShapeOpsProofs C07Numel.
Import ListNotations.
Open Scope Z_scope.

Definition is1 (d : Z) := d =? -1.
Definition not1 (d : Z) := negb (d =? -1).

Lemma infer_count0 q l : List.length (filter is1 l) = 0%nat ->
  zprod (map (fun d => if d =? -1 then q else d) l) = zprod (filter not1 l).
Proof.
  unfold is1, not1. induction l as [|x l IH]; cbn [filter map]; [reflexivity|].
  destruct (x =? -1); cbn [negb List.length]; [discriminate|]. intros H. rewrite !zprod_cons, IH by exact H. reflexivity.
Qed.

Lemma infer_count1 q l : List.length (filter is1 l) = 1%nat ->
  zprod (map (fun d => if d =? -1 then q else d) l) = q * zprod (filter not1 l).
Proof.
  induction l as [|x l IH]; cbn [filter map]; [discriminate|].
  unfold is1, not1 in *. destruct (x =? -1) eqn:Hx; cbn [negb List.length]; intros H.
  - rewrite zprod_cons. f_equal. apply infer_count0. unfold is1. lia.
  - rewrite !zprod_cons, IH by exact H. lia.
Qed.

Lemma count_copied (s : list nat) ns k :
  List.length (filter is1 (map (fun p : nat * Z => if snd p =? 0 then match nth_error s (fst p) with Some d => Z.of_nat d | None => -7 end else snd p)
                          (combine (seq k (List.length ns)) ns))) = List.length (filter is1 ns).
Proof.
  revert k. induction ns as [|x ns IH]; intros k; [reflexivity|].
  cbn [List.length seq combine map]. cbn [filter]. specialize (IH (S k)).
  cbn [fst snd]. unfold is1 in *.
  destruct (Z.eqb_spec x 0) as [->|Hx0].
  - destruct (nth_error s k) as [n|].
    + destruct (Z.eqb_spec (Z.of_nat n) (-1)); [lia|]. cbn. exact IH.
    + cbn. exact IH.
  - destruct (x =? -1); cbn [List.length]; now rewrite IH.
Qed.

Lemma reshape_inferred_keeps_count t shp v :
  reshape_spec t shp = SMust [Some v] -> total v = total t.
Proof.
  destruct (in_dec Z.eq_dec (-1) (pl shp)) as [Hin|Hno]; [|now apply reshape_plain_keeps_count].
  unfold reshape_spec, SMust1. intros H.
  destruct (sh shp) as [|? [|? ?]]; try discriminate.
  destruct (existsb (fun d => d <? -1) (pl shp)) eqn:Hlow; [discriminate|].
  destruct (1 <? _) eqn:Hcnt; [discriminate|].
  pose proof (count_copied (sh t) (pl shp) 0) as Hcc.
  set (copied := map _ _) in *.
  destruct (existsb (fun d => d =? -7) copied) eqn:H7; [discriminate|].
  assert (Hone : List.length (filter is1 copied) = 1%nat).
  { rewrite Hcc. apply Z.ltb_ge in Hcnt. fold is1 in Hcnt.
    assert (In (-1) (filter is1 (pl shp))) as Hf by (apply filter_In; split; [exact Hin|reflexivity]).
    destruct (filter is1 (pl shp)) as [|a [|b r]]; cbn [List.length] in *; [contradiction|reflexivity|lia]. }
  assert (Hc : Forall (fun d => d = -1 \/ 0 <= d) copied).
  { apply Forall_forall. intros d Hd.
    assert (Hd7 : d <> -7).
    { intros ->. rewrite <- not_true_iff_false in H7. apply H7. apply existsb_exists. exists (-7). split; [exact Hd|reflexivity]. }
    unfold copied in Hd. apply in_map_iff in Hd as [[i x] [Hx Hin']]. cbn [fst snd] in Hx.
    apply in_combine_r in Hin'.
    destruct (x =? 0) eqn:Hx0.
    - destruct (nth_error (sh t) i); subst d; lia.
    - subst d. apply Z.eqb_neq in Hx0. assert (~ x < -1).
      { intros Hlt. rewrite <- not_true_iff_false in Hlow. apply Hlow. apply existsb_exists. exists x. split; [exact Hin'|]. now apply Z.ltb_lt. }
      lia. }
  assert (Hex : existsb (fun d => d =? -1) copied = true).
  { destruct (filter is1 copied) as [|a r] eqn:Hf; [discriminate|].
    assert (In a (filter is1 copied)) as Ha by (rewrite Hf; now left). apply filter_In in Ha as [Ha1 Ha2].
    apply existsb_exists. exists a. split; assumption. }
  rewrite Hex in H. fold not1 in H.
  set (known := zprod (filter not1 copied)) in *.
  assert (Hk : 0 <= known).
  { apply zprod_nonneg'. apply Forall_forall. intros d Hd. apply filter_In in Hd as [Hd Hn].
    rewrite Forall_forall in Hc. destruct (Hc _ Hd) as [->|]; [discriminate|assumption]. }
  destruct (Z.eqb_spec known 0) as [|Hk0]; [discriminate|]. cbn [orb] in H.
  destruct (Z.eqb_spec (total t mod known) 0) as [Hm|]; [|discriminate]. cbn [negb] in H.
  assert (Ht : 0 <= total t) by (unfold total; apply zprod_nonneg', zshape_nonneg').
  inversion H; subst v. rewrite total_with_shape.
  - rewrite infer_count1 by exact Hone. fold known. apply Z.div_exact in Hm; [|exact Hk0]. lia.
  - apply Forall_forall. intros d Hd. apply in_map_iff in Hd as [x [Hx Hxin]].
    rewrite Forall_forall in Hc. destruct (Z.eqb_spec x (-1)).
    + subst d. apply Z.div_pos; lia.
    + subst d. destruct (Hc _ Hxin); [contradiction|assumption].
Qed.
