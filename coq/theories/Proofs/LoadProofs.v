(* The load model never panics and refuses every opset it does not implement. *)
From Coq Require Import List ZArith Bool Lia.
From V Require Import DType Case Decode DecodeProofs Load.
Import ListNotations.
Open Scope Z_scope.

Lemma params_no_panic inits : params inits <> MPanic.
Proof.
  induction inits as [|tp r IH]; cbn; [discriminate|].
  pose proof (tensor_from_proto_shape tp) as H.
  destruct (tensor_from_proto tp) as [t| |]; cbn; [|discriminate|contradiction].
  destruct (params r) as [l| |]; cbn; [discriminate|discriminate|contradiction].
Qed.

(* for EVERY parsed structure: loading succeeds or returns an error, never a panic *)
Theorem load_never_panics supported mp : load supported mp <> LPanic.
Proof.
  unfold load. pose proof (params_no_panic (m_inits mp)) as H.
  destruct (params (m_inits mp)); [|discriminate|contradiction].
  destruct (existsb _ supported); discriminate.
Qed.

(* a loaded model's highest imported version is an implemented one *)
Theorem load_ok_version_in supported mp ps : load supported mp = LOk ps -> In (max_version (m_opsets mp)) supported.
Proof.
  unfold load. destruct (params (m_inits mp)); try discriminate.
  destruct (existsb (Z.eqb (max_version (m_opsets mp))) supported) eqn:E; [|discriminate].
  intros _. apply existsb_exists in E as (v & I & Ev). apply Z.eqb_eq in Ev. now subst.
Qed.
Theorem load_ok_version mp ps : load [13] mp = LOk ps -> max_version (m_opsets mp) = 13.
Proof. intros H. apply load_ok_version_in in H. destruct H as [H|[]]. now symmetry. Qed.

(* with well-decoding initializers, an unimplemented highest version is THE unsupported-opset error *)
Theorem load_unsupported_opset supported mp ps :
  params (m_inits mp) = MOk ps -> ~ In (max_version (m_opsets mp)) supported -> load supported mp = LErrOpset.
Proof.
  unfold load. intros -> N. destruct (existsb (Z.eqb (max_version (m_opsets mp))) supported) eqn:E; [|reflexivity].
  exfalso. apply N. apply existsb_exists in E as (v & I & Ev). apply Z.eqb_eq in Ev. now subst.
Qed.

(* max_version is the maximum of 0 and all imported versions, whatever their order *)
Lemma fold_max_ge vs : forall acc, 0 <= acc ->
  fold_left (fun a v => if a <? v then v else a) vs acc = Z.max acc (fold_right Z.max 0 vs).
Proof.
  induction vs as [|v r IH]; intros acc H; cbn [fold_left fold_right].
  - lia.
  - destruct (acc <? v) eqn:E; [apply Z.ltb_lt in E|apply Z.ltb_ge in E]; rewrite IH by lia; lia.
Qed.
Theorem max_version_spec vs : max_version vs = fold_right Z.max 0 vs.
Proof. unfold max_version. rewrite fold_max_ge by lia.
  assert (0 <= fold_right Z.max 0 vs) by (induction vs; cbn; lia). lia.
Qed.
