(* A node's attributes are a set keyed by name: with distinct names, every lookup the models make
   (find_int / find_ints / find_str) is invariant under ANY reordering of the attribute list, so every
   model -- a function of those lookups -- gives the same outcome. This is the model-side fact behind
   the harness's `attribute_order` observation (the implementation is observed, the model proved). *)
From Coq Require Import List ZArith Bool String Permutation.
From V Require Import Case.
Import ListNotations.

Section Generic.
  Context {A : Type} (sel : attr -> option A).
  (* the shape all three lookups have: the first attribute of the right constructor and name *)
  Fixpoint find_gen (n : string) (l : list attr) : option A :=
    match l with
    | [] => None
    | a :: r => match sel a with
                | Some v => if String.eqb (attr_name a) n then Some v else find_gen n r
                | None => find_gen n r
                end
    end.

  Lemma find_gen_absent n l : ~ In n (map attr_name l) -> find_gen n l = None.
  Proof.
    induction l as [|a r IH]; [reflexivity|]. cbn [map In find_gen]. intro H.
    assert (Hn : String.eqb (attr_name a) n = false) by (apply String.eqb_neq; intro E; apply H; left; exact E).
    rewrite Hn. destruct (sel a); apply IH; intro Hin; apply H; right; exact Hin.
  Qed.

  Lemma find_gen_perm n l l' : Permutation l l' -> NoDup (map attr_name l) -> find_gen n l = find_gen n l'.
  Proof.
    induction 1 as [|a l l' Hp IH|a b l|l1 l2 l3 H12 IH12 H23 IH23]; intro Hnd.
    - reflexivity.
    - cbn [find_gen]. cbn [map] in Hnd. inversion Hnd as [|? ? _ Hnd']; subst. rewrite (IH Hnd'). reflexivity.
    - cbn [find_gen]. cbn [map] in Hnd. inversion Hnd as [|? ? Hna Hnd']; subst. cbn [In] in Hna.
      destruct (sel a) as [va|], (sel b) as [vb|]; try reflexivity.
      destruct (String.eqb (attr_name a) n) eqn:Ea, (String.eqb (attr_name b) n) eqn:Eb; try reflexivity.
      apply String.eqb_eq in Ea, Eb. exfalso. apply Hna. left. congruence.
    - rewrite IH12 by exact Hnd. apply IH23.
      apply (Permutation_NoDup (l := map attr_name l1)); [apply Permutation_map; exact H12 | exact Hnd].
  Qed.
End Generic.

Lemma find_int_gen n l : find_int n l = find_gen (fun a => match a with AInt _ v => Some v | _ => None end) n l.
Proof. induction l as [|a r IH]; [reflexivity|]. destruct a; cbn [find_int find_gen attr_name]; rewrite IH; reflexivity. Qed.
Lemma find_ints_gen n l : find_ints n l = find_gen (fun a => match a with AInts _ v => Some v | _ => None end) n l.
Proof. induction l as [|a r IH]; [reflexivity|]. destruct a; cbn [find_ints find_gen attr_name]; rewrite IH; reflexivity. Qed.
Lemma find_str_gen n l : find_str n l = find_gen (fun a => match a with AStr _ v => Some v | _ => None end) n l.
Proof. induction l as [|a r IH]; [reflexivity|]. destruct a; cbn [find_str find_gen attr_name]; rewrite IH; reflexivity. Qed.

Theorem lookups_order_independent l l' : Permutation l l' -> NoDup (map attr_name l) ->
  forall n, find_int n l = find_int n l' /\ find_ints n l = find_ints n l' /\ find_str n l = find_str n l'.
Proof.
  intros Hp Hnd n. rewrite !find_int_gen, !find_ints_gen, !find_str_gen.
  repeat split; apply find_gen_perm; assumption.
Qed.

Corollary lookups_rev l : NoDup (map attr_name l) ->
  forall n, find_int n (rev l) = find_int n l /\ find_ints n (rev l) = find_ints n l /\ find_str n (rev l) = find_str n l.
Proof.
  intros Hnd n. destruct (lookups_order_independent l (rev l) (Permutation_rev l) Hnd n) as (A & B & C).
  repeat split; symmetry; assumption.
Qed.
Print Assumptions lookups_order_independent.
