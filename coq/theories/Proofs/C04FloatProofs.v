(* Floating-point soundness of the enclosures Check/CheckC04F.v judges against.

   CheckC04F.enclosures builds, per output element, the interval
     MatMul            f_dot w ra cb
     Gemm              f_mul w al (f_dot w ra cb)                       (no C)
                       f_add w (f_mul w al (f_dot w ra cb)) (f_mul w be pc)
     LinearRegressor   f_add w (f_dot w xr co) ic
     Scaler            f_mul w (f_sub w px po) ps
   Here: ANY execution of the ONNX formula in which every primitive result is within its rounding
   allowance (Proofs/FexecProofs.v: near w 1 for + - *, dot_near for an inner product in any
   summation order) of the exact operation applied to the PREVIOUS ROUNDED values lies inside that
   interval, for every format w. The statements are per element; the Scaler one is lifted to a
   row and to the whole tensor exactly in the shape CheckC04F uses. *)
From Coq Require Import ZArith List Bool Reals Lra Lia.
From Interval Require Import Float.Specific_ops Float.Specific_bigint Float.Basic Interval.Interval Interval.Float Interval.Float_full Real.Xreal.
From V Require Import G.Ival Proofs.IvalProofs Proofs.FexecProofs.
Import ListNotations.
Local Open Scope R_scope.

Section C04F.
Variable w : fw.

(* the three binary primitives, restated with near *)
Lemma f_add_near a b x y r : encl a x -> encl b y -> near w 1 (x + y) r -> encl (f_add w a b) r.
Proof. intros Ha Hb Hr. apply (f_add_correct w a b x y); [exact Ha|exact Hb|apply near1; exact Hr]. Qed.
Lemma f_sub_near a b x y r : encl a x -> encl b y -> near w 1 (x - y) r -> encl (f_sub w a b) r.
Proof. intros Ha Hb Hr. apply (f_sub_correct w a b x y); [exact Ha|exact Hb|apply near1; exact Hr]. Qed.
Lemma f_mul_near a b x y r : encl a x -> encl b y -> near w 1 (x * y) r -> encl (f_mul w a b) r.
Proof. intros Ha Hb Hr. apply (f_mul_correct w a b x y); [exact Ha|exact Hb|apply near1; exact Hr]. Qed.

(* 1. Scaler element: d = fl (x - o), y = fl (d * s) *)
Theorem fexec_scaler_elem : forall px po ps x o s d y,
  encl px x -> encl po o -> encl ps s ->
  near w 1 (x - o) d -> near w 1 (d * s) y ->
  encl (f_mul w (f_sub w px po) ps) y.
Proof.
  intros px po ps x o s d y Hx Ho Hs Hd Hy.
  apply (f_mul_near _ _ d s); [|exact Hs|exact Hy].
  apply (f_sub_near _ _ x o); assumption.
Qed.

(* 2. LinearRegressor element: d = fl (sum_f x_f c_f), y = fl (d + i) *)
Theorem fexec_linreg_elem : forall pxs pcs pi xs cs i d y,
  Forall2 encl pxs xs -> Forall2 encl pcs cs -> encl pi i ->
  dot_near w xs cs d -> near w 1 (d + i) y ->
  encl (f_add w (f_dot w pxs pcs) pi) y.
Proof.
  intros pxs pcs pi xs cs i d y Hx Hc Hi Hd Hy.
  apply (f_add_near _ _ d i); [|exact Hi|exact Hy].
  apply (f_dot_near w pxs pcs xs cs); assumption.
Qed.

(* 3. MatMul element: y = fl (sum_k a_k b_k) *)
Theorem fexec_matmul_elem : forall pas pbs as_ bs y,
  Forall2 encl pas as_ -> Forall2 encl pbs bs ->
  dot_near w as_ bs y ->
  encl (f_dot w pas pbs) y.
Proof. intros pas pbs as_ bs y Ha Hb Hy. apply (f_dot_near w pas pbs as_ bs); assumption. Qed.

(* 4. Gemm element without C: d = fl (sum_k a_k b_k), y = fl (alpha * d) *)
Theorem fexec_gemm_elem : forall pas pbs pal as_ bs al d y,
  Forall2 encl pas as_ -> Forall2 encl pbs bs -> dot_near w as_ bs d ->
  encl pal al -> near w 1 (al * d) y ->
  encl (f_mul w pal (f_dot w pas pbs)) y.
Proof.
  intros pas pbs pal as_ bs al d y Ha Hb Hd Hal Hy.
  apply (f_mul_near _ _ al d); [exact Hal| |exact Hy].
  apply (f_dot_near w pas pbs as_ bs); assumption.
Qed.

(*    Gemm element with C: p = fl (alpha * d), t = fl (beta * c), y = fl (p + t) *)
Theorem fexec_gemm_c_elem : forall pas pbs pal pbe pc as_ bs al be c d p t y,
  Forall2 encl pas as_ -> Forall2 encl pbs bs -> dot_near w as_ bs d ->
  encl pal al -> near w 1 (al * d) p ->
  encl pbe be -> encl pc c -> near w 1 (be * c) t ->
  near w 1 (p + t) y ->
  encl (f_add w (f_mul w pal (f_dot w pas pbs)) (f_mul w pbe pc)) y.
Proof.
  intros pas pbs pal pbe pc as_ bs al be c d p t y Ha Hb Hd Hal Hp Hbe Hc Ht Hy.
  apply (f_add_near _ _ p t); [| |exact Hy].
  - apply (fexec_gemm_elem pas pbs pal as_ bs al d p); assumption.
  - apply (f_mul_near _ _ be c); assumption.
Qed.

(* 5. a Scaler row, in the shape CheckC04F builds it: offsets o and scales s zipped with the row.
      d_f = fl (x_f - o_f), y_f = fl (d_f * s_f) for every feature f. *)
Definition scaler_row (xr o s : list I.type) : list I.type :=
  map (fun t => f_mul w (f_sub w (fst (fst t)) (snd (fst t))) (snd t)) (combine (combine xr o) s).

Definition scaler_exec_row (xs os ss ds ys : list R) : Prop :=
  Forall2 (fun xo d => near w 1 (fst xo - snd xo) d) (combine xs os) ds /\
  Forall2 (fun ds_ y => near w 1 (fst ds_ * snd ds_) y) (combine ds ss) ys.

Theorem fexec_scaler_row : forall pxs xs, Forall2 encl pxs xs ->
  forall pos os, Forall2 encl pos os ->
  forall pss ss, Forall2 encl pss ss ->
  forall ds ys, scaler_exec_row xs os ss ds ys ->
  Forall2 encl (scaler_row pxs pos pss) ys.
Proof.
  unfold scaler_row, scaler_exec_row.
  induction 1 as [|px x pxs xs Hx HX IH]; intros pos os HO pss ss HS ds ys [HD HY].
  - simpl in *. inversion HD; subst. simpl in HY. inversion HY; subst. constructor.
  - destruct HO as [|po o pos os Ho HO].
    { simpl in *. inversion HD; subst. simpl in HY. inversion HY; subst. constructor. }
    simpl in HD. inversion HD as [|? d ? ds' Hd HD']; subst. simpl in Hd.
    destruct HS as [|ps s pss ss Hs HS].
    { simpl in *. inversion HY; subst. constructor. }
    simpl in HY. inversion HY as [|? y ? ys' Hy HY']; subst. simpl in Hy.
    simpl. constructor.
    + apply (fexec_scaler_elem px po ps x o s d y); assumption.
    + apply (IH pos os HO pss ss HS ds' ys'). split; assumption.
Qed.

(*    the whole Scaler tensor: every row against the same offsets and scales *)
Theorem fexec_scaler_tensor : forall pX X po os ps ss Y,
  Forall2 (Forall2 encl) pX X -> Forall2 encl po os -> Forall2 encl ps ss ->
  Forall2 (fun xs ys => exists ds, scaler_exec_row xs os ss ds ys) X Y ->
  Forall2 (Forall2 encl) (map (fun xr => scaler_row xr po ps) pX) Y.
Proof.
  intros pX X po os ps ss Y HX Ho Hs. revert Y.
  induction HX as [|pxr xr pX X Hr HX IH]; intros Y HY; inversion HY as [|? yr ? Y' [ds He] HY']; subst;
    simpl; constructor.
  - apply (fexec_scaler_row pxr xr Hr po os Ho ps ss Hs ds yr He).
  - apply IH. exact HY'.
Qed.
End C04F.

(* the row is literally the expression of Check/CheckC04F.v *)
Example scaler_row_shape w xr o s :
  scaler_row w xr o s =
  map (fun t => f_mul w (f_sub w (fst (fst t)) (snd (fst t))) (snd t)) (combine (combine xr o) s).
Proof. reflexivity. Qed.

Print Assumptions fexec_scaler_tensor.
