(* C07: S demands an error for a Reshape request with an extent below -1 or with more than one -1
   ("a single -1 is inferred"), whatever the input *)
From Coq Require Import List ZArith Bool Lia String.
From V Require Import DType Tensor Case OpCheck ShapeOps CheckC07.
Import ListNotations.
Open Scope Z_scope.

Lemma reshape_refuses_bad_request t shp n :
  sh shp = [n] ->
  (exists d, In d (pl shp) /\ d < -1) \/ (2 <= List.length (filter (fun d => (d =? -1)%Z) (pl shp)))%nat ->
  reshape_spec t shp = SMustErr.
Proof.
  intros Hs H. unfold reshape_spec. rewrite Hs.
  destruct (existsb (fun d => d <? -1) (pl shp)) eqn:Hlow; [reflexivity|].
  destruct H as [[d [Hin Hd]]|Hc].
  - exfalso. rewrite <- not_true_iff_false in Hlow. apply Hlow. apply existsb_exists. exists d. split; [exact Hin|now apply Z.ltb_lt].
  - destruct (1 <? Z.of_nat (List.length (filter (fun d => d =? -1) (pl shp)))) eqn:Hcnt; [reflexivity|].
    apply Z.ltb_ge in Hcnt. lia.
Qed.
