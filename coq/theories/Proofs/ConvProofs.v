(* Facts about the model of conv.go (Model/Conv.v) around the loop nests. *)
From Coq Require Import List ZArith Bool Lia String.
From V Require Import DType Tensor Case Writes ConvLoop ConvLoopProofs Conv.
Import ListNotations.
Open Scope Z_scope.
Ltac Zify.zify_post_hook ::= Z.div_mod_to_equations.

(* setPaddingWithAutoPad (as repaired) computes the ONNX pads for NOTSET, SAME_UPPER and SAME_LOWER *)
Lemma code_pads_onnx cf x k i :
  c_auto cf <> Valid -> 1 <= str cf i -> code_pads cf x k i = onnx_pads cf x k i.
Proof.
  unfold code_pads, onnx_pads. intros NV S. destruct (c_auto cf); try congruence; try reflexivity.
  (* SAME_LOWER *)
  set (need := Z.max 0 _). assert (0 <= need) by (unfold need; lia). clearbody need.
  f_equal; lia.
Qed.

(* and never requests a negative pad *)
Lemma code_pads_auto_nonneg cf x k i :
  c_auto cf <> NotSet -> 0 <= fst (code_pads cf x k i) /\ 0 <= snd (code_pads cf x k i).
Proof.
  unfold code_pads. intros NN. destruct (c_auto cf); try congruence; cbn [fst snd];
    set (need := Z.max 0 _); assert (0 <= need) by (unfold need; lia); clearbody need; lia.
Qed.

(* outcomes: a tensor only for 1-D / 2-D inputs; the result has the ONNX output shape for the pads in force *)
Lemma add_bias_shape t b : tshape (add_bias t b) = tshape t.
Proof. destruct b; reflexivity. Qed.

Lemma conv_model_ok_rank cf x k b t : conv_model cf x k b = MOk t -> nsp x = 1%nat \/ nsp x = 2%nat.
Proof.
  unfold conv_model. destruct (nsp x =? 1)%nat eqn:E1; [apply Nat.eqb_eq in E1; auto|].
  destruct (nsp x =? 2)%nat eqn:E2; [apply Nat.eqb_eq in E2; auto|]. cbn. discriminate.
Qed.

Lemma conv_model_no_panic cf x k b :
  (forall i, 0 <= fst (code_pads cf x k i) /\ 0 <= snd (code_pads cf x k i)) -> conv_model cf x k b <> MPanic.
Proof.
  intros NN. unfold conv_model.
  destruct (negb _); [discriminate|].
  replace (existsb _ (seq 0 (nsp x))) with false.
  - destruct (negb _); discriminate.
  - symmetry. apply not_true_iff_false. intro E. apply existsb_exists in E as (i & _ & E).
    specialize (NN i). apply orb_true_iff in E. destruct E as [E|E]; apply Z.ltb_lt in E; lia.
Qed.

(* the value: the loop nest over the dilated kernel, which is the direct convolution (1-D) *)
Lemma conv_model_1d cf x k b t :
  nsp x = 1%nat -> conv_model cf x k b = MOk t ->
  1 <= str cf 0 ->
  let kd := dilate (tzc k) [Z.to_nat (dil cf 0)] in
  let p := Z.to_nat (fst (code_pads cf x k 0)) in let q := Z.to_nat (snd (code_pads cf x k 0)) in
  let e := fun l i => nth i l 0%nat in
  (1 <= e (tshape kd) 2 <= p + e (sh x) 2 + q)%nat ->
  t = let r := add_bias (conv1d_spec 0%Z Z.add Z.mul (e (sh x) 0) (e (sh x) 1) (e (sh x) 2) (e (sh k) 0) (e (tshape kd) 2)
                                      p q (Z.to_nat (str cf 0)) (tzc x) kd)%nat b in
      {| dt := dt x; sh := tshape r; pl := tdata r |}.
Proof.
  intros N1 HM S kd p q e Fit. unfold conv_model in HM. rewrite N1 in HM. cbn [Nat.eqb negb orb seq map] in HM.
  destruct (existsb _ _); [discriminate|]. destruct (negb _); [discriminate|].
  inversion HM as [HT]. clear HM HT.
  rewrite conv1d_loop_spec; [reflexivity|lia|exact Fit].
Qed.

Lemma conv_model_2d cf x k b t :
  nsp x = 2%nat -> conv_model cf x k b = MOk t ->
  1 <= str cf 0 -> 1 <= str cf 1 ->
  let kd := dilate (tzc k) [Z.to_nat (dil cf 0); Z.to_nat (dil cf 1)] in
  let p := fun i => Z.to_nat (fst (code_pads cf x k i)) in let q := fun i => Z.to_nat (snd (code_pads cf x k i)) in
  let e := fun l i => nth i l 0%nat in
  (1 <= e (tshape kd) 2 <= p 0 + e (sh x) 2 + q 0)%nat -> (1 <= e (tshape kd) 3 <= p 1 + e (sh x) 3 + q 1)%nat ->
  t = let r := add_bias (conv2d_spec 0%Z Z.add Z.mul (e (sh x) 0) (e (sh x) 1) (e (sh x) 2) (e (sh x) 3) (e (sh k) 0)
                                      (e (tshape kd) 2) (e (tshape kd) 3) (p 0) (p 1) (q 0) (q 1)
                                      (Z.to_nat (str cf 0)) (Z.to_nat (str cf 1)) (tzc x) kd)%nat b in
      {| dt := dt x; sh := tshape r; pl := tdata r |}.
Proof.
  intros N2 HM S0 S1 kd p q e FitH FitW. unfold conv_model in HM. rewrite N2 in HM. cbn [Nat.eqb negb orb seq map] in HM.
  destruct (existsb _ _); [discriminate|]. destruct (negb _); [discriminate|].
  inversion HM as [HT]. clear HM HT.
  rewrite conv2d_loop_spec; [reflexivity|lia|lia|exact FitH|exact FitW].
Qed.

(* the dilated kernel holds the original taps at coordinate * dilation and zeros elsewhere *)
Lemma get_dilate k ds i :
  valid (tshape (dilate k ds)) i ->
  get 0 (dilate k ds) i =
    let sp := combine ds (skipn 2 i) in
    if forallb (fun p => (snd p mod fst p =? 0)%nat) sp
    then get 0 k (firstn 2 i ++ map (fun p => (snd p / fst p)%nat) sp) else 0.
Proof. intros V. unfold dilate in *. cbn [tshape tabulate] in V. now rewrite get_tabulate. Qed.
