(* C07: the shape S demands always holds exactly as many elements as the input has -- so "the
   input's elements in the same row-major order" is a well-formed tensor for every request S
   accepts (Flatten at every axis, Squeeze without axes, Reshape without an inferred extent) *)
From Coq Require Import List ZArith Bool Lia String.
From V Require Import DType Tensor Case OpCheck ShapeOps CheckC07 ShapeOpsProofs.
Import ListNotations.
Open Scope Z_scope.

Lemma zshape_to_nat (s : list Z) : Forall (fun d => 0 <= d) s -> zshape (map Z.to_nat s) = s.
Proof.
  unfold zshape. induction s as [|d s IH]; intros H; [reflexivity|].
  inversion H as [|? ? Hd Hs]; subst. cbn [map]. rewrite Z2Nat.id by exact Hd. now rewrite IH.
Qed.

Lemma total_with_shape t s : Forall (fun d => 0 <= d) s -> total (with_shape t s) = zprod s.
Proof. intros H. unfold total, with_shape; cbn [sh]. now rewrite zshape_to_nat. Qed.

Lemma zshape_nonneg' (s : list nat) : Forall (fun d => 0 <= d) (zshape s).
Proof. unfold zshape. apply Forall_forall. intros d Hd. apply in_map_iff in Hd as [n [<- _]]. lia. Qed.

Lemma zprod_nonneg' l : Forall (fun d => 0 <= d) l -> 0 <= zprod l.
Proof.
  induction l as [|x l IH]; intros H; [rewrite zprod_nil; lia|].
  inversion H; subst. rewrite zprod_cons. apply Z.mul_nonneg_nonneg; auto.
Qed.

Lemma flatten_keeps_count axis t v : flatten_spec axis t = SMust [Some v] -> total v = total t.
Proof.
  unfold flatten_spec, SMust1. intros H.
  destruct ((axis <? - Z.of_nat (List.length (sh t))) || (Z.of_nat (List.length (sh t)) <? axis)); [discriminate|].
  inversion H; subst. rewrite total_with_shape.
  - rewrite !zprod_cons, zprod_nil, Z.mul_1_r. unfold total. apply zprod_firstn_skipn.
  - repeat apply Forall_cons; try apply Forall_nil; apply zprod_nonneg', zshape_nonneg'.
Qed.

Lemma zprod_filter_ones l : zprod (filter (fun d => negb (d =? 1)) l) = zprod l.
Proof.
  induction l as [|x l IH]; cbn [filter]; [reflexivity|].
  destruct (Z.eqb_spec x 1) as [->|Hx]; cbn [negb]; rewrite ?zprod_cons, IH; lia.
Qed.

Lemma squeeze_all_keeps_count t v : squeeze_spec t None = SMust [Some v] -> total v = total t.
Proof.
  unfold squeeze_spec, SMust1. intros H. inversion H; subst. rewrite total_with_shape.
  - unfold total. apply zprod_filter_ones.
  - apply Forall_forall. intros d Hd. apply filter_In in Hd as [Hd _].
    pose proof (zshape_nonneg' (sh t)) as Hn. rewrite Forall_forall in Hn. now apply Hn.
Qed.

(* Reshape when no extent is inferred (no -1 among the requested dimensions; 0 copies) *)
Lemma reshape_plain_keeps_count t shp v :
  ~ In (-1) (pl shp) -> reshape_spec t shp = SMust [Some v] -> total v = total t.
Proof.
  unfold reshape_spec, SMust1. intros Hno H.
  destruct (sh shp) as [|? [|? ?]]; try discriminate.
  destruct (existsb (fun d => d <? -1) (pl shp)) eqn:Hlow; [discriminate|].
  destruct (1 <? _); [discriminate|].
  set (copied := map _ _) in H.
  destruct (existsb (fun d => d =? -7) copied) eqn:H7; [discriminate|].
  assert (Hc : Forall (fun d => 0 <= d) copied).
  { apply Forall_forall. intros d Hd.
    assert (Hd7 : d <> -7).
    { intros ->. rewrite <- not_true_iff_false in H7. apply H7. apply existsb_exists. exists (-7). split; [exact Hd|reflexivity]. }
    unfold copied in Hd. apply in_map_iff in Hd as [[i x] [Hx Hin]]. cbn [fst snd] in Hx.
    apply in_combine_r in Hin.
    destruct (x =? 0) eqn:Hx0.
    - destruct (nth_error (sh t) i); subst d; lia.
    - subst d. apply Z.eqb_neq in Hx0. assert (~ x < -1).
      { intros Hlt. rewrite <- not_true_iff_false in Hlow. apply Hlow. apply existsb_exists. exists x. split; [exact Hin|]. now apply Z.ltb_lt. }
      assert (x <> -1) by (intros ->; now apply Hno). lia. }
  assert (Hn1 : existsb (fun d => d =? -1) copied = false).
  { apply not_true_iff_false. intros He. apply existsb_exists in He as [d [Hd Heq]].
    apply Z.eqb_eq in Heq. subst d. rewrite Forall_forall in Hc. specialize (Hc _ Hd). lia. }
  rewrite Hn1 in H.
  assert (Hf : filter (fun d => negb (d =? -1)) copied = copied).
  { clear - Hn1. induction copied as [|x l IH]; [reflexivity|]. cbn [existsb] in Hn1. apply orb_false_iff in Hn1 as [Hx Hl].
    cbn [filter]. rewrite Hx. cbn [negb]. now rewrite IH. }
  rewrite Hf in H.
  destruct (Z.eqb_spec (zprod copied) (total t)) as [Heq|]; [|discriminate].
  inversion H; subst. now rewrite total_with_shape.
Qed.
