(* C08 -- Transpose, Concat, Slice, Gather, Expand: the models of Model/IndexOps.v refine the
   ONNX specifications (Check/CheckC08.v `spec`), for every input with well-formed tensors of
   positive extents, every attribute combination, every request.  Slice is proved outside the
   two known deviation classes of CheckC08.known_class and outside two further, narrowly
   delimited input classes found while proving (see slice_dup_axes, slice_unit_noop). *)
From Coq Require Import List ZArith Bool Lia String Arith PeanoNat.
From V Require Import DType Tensor ListUtil Case OpCheck Slice Broadcast BroadcastSpec
                      BroadcastProofs BroadcastFull IndexOps CheckC08.
From V Require ShapeOpsProofs.
Import ListNotations.

Notation refines := ShapeOpsProofs.refines.
Local Notation length := List.length.
Open Scope nat_scope.
Definition wrap (m : mres tval) : mres (list (option tval)) := let* v := m in MOk [Some v].

(* ==================================================================================== *)
(* (T) Transpose                                                                         *)
(* ==================================================================================== *)
Definition transpose_spec (perm : option (list Z)) (t : tval) : spec_out :=
  match perm with
  | Some p => if perm_ok t p then SEither1 (transpose_value t (map Z.to_nat p))
              else match p with
                   | [] => SEither1 (transpose_value t (rev (seq 0 (List.length (sh t)))))
                   | _ => SMustErr end
  | None => SEither1 (transpose_value t (rev (seq 0 (List.length (sh t)))))
  end.

Lemma perm_ok_nil t : perm_ok t [] = true -> sh t = [].
Proof.
  unfold perm_ok, rank. intros H. apply andb_true_iff in H as [H _]. apply andb_true_iff in H as [H _].
  apply Z.eqb_eq in H. destruct (sh t) as [|d s]; [reflexivity|]. cbn [List.length] in H. lia.
Qed.

Theorem transpose_refines perm nattrs t :
  refines (transpose_spec perm t) (wrap (transpose_model perm nattrs t)).
Proof.
  unfold transpose_spec, transpose_model, wrap.
  destruct perm as [p|]; [|right; reflexivity].
  destruct (Nat.eqb nattrs 1); cbn [negb].
  - destruct p as [|x p].
    + destruct (perm_ok t []) eqn:E.
      * left. rewrite (perm_ok_nil t E). reflexivity.
      * left. reflexivity.
    + destruct (perm_ok t (x :: p)); [left|]; reflexivity.
  - destruct (perm_ok t p); [right; reflexivity|]. destruct p; [right|]; reflexivity.
Qed.

(* the sharp reading: with exactly the one attribute `perm`, the model returns the transposed
   tensor for every valid permutation, the axis-reversed tensor for an empty one, an error for
   everything else *)
Theorem transpose_exact p t :
  transpose_model (Some p) 1 t =
    match p with
    | [] => MOk (transpose_value t (rev (seq 0 (List.length (sh t)))))
    | _ => if perm_ok t p then MOk (transpose_value t (map Z.to_nat p)) else MErr
    end.
Proof. reflexivity. Qed.

(* ==================================================================================== *)
(* (C) Concat                                                                            *)
(* ==================================================================================== *)
Definition concat_spec (a : Z) (ts : option (list tval)) : spec_out :=
  match ts with
  | Some [t0] => SEither1 t0
  | Some (t0 :: rest) =>
      if (a <? - rank t0)%Z || (rank t0 <=? a)%Z then SMustErr
      else match concat_value (Z.to_nat (if (a <? 0)%Z then (a + rank t0)%Z else a)) (t0 :: rest) with
           | Some v => SEither1 v | None => SMustErr end
  | _ => SOutOfDomain
  end.

Theorem concat_refines a ts :
  refines (concat_spec a ts) (match ts with Some l => wrap (concat_model a l) | None => MErr end).
Proof.
  unfold concat_spec, concat_model, wrap.
  destruct ts as [[|t0 [|t1 rest]]|]; try exact I.
  - left. reflexivity.
  - destruct ((a <? - rank t0)%Z || (rank t0 <=? a)%Z); [reflexivity|].
    rewrite (Z.add_comm (rank t0) a).
    destruct (concat_value _ _); [left|]; reflexivity.
Qed.

(* sharp: at least two inputs, axis in range: a value exactly when the inputs are compatible *)
Theorem concat_exact a t0 t1 rest :
  (- rank t0 <= a < rank t0)%Z ->
  concat_model a (t0 :: t1 :: rest) =
    match concat_value (Z.to_nat (if (a <? 0)%Z then (a + rank t0)%Z else a)) (t0 :: t1 :: rest) with
    | Some v => MOk v | None => MErr end.
Proof.
  intros Ha. unfold concat_model.
  replace (a <? - rank t0)%Z with false by (symmetry; apply Z.ltb_ge; lia).
  replace (rank t0 <=? a)%Z with false by (symmetry; apply Z.leb_gt; lia).
  cbn [orb]. now rewrite (Z.add_comm (rank t0) a).
Qed.

(* ==================================================================================== *)
(* (E) Expand                                                                            *)
(* ==================================================================================== *)
(* --- bshape_r on reversed shapes is BroadcastSpec.bshape --- *)
Definition padr (n : nat) (l : list nat) : list nat := l ++ repeat 1 (n - length l).

Lemma compat_ones_l l : compat_all (repeat 1 (length l)) l = true.
Proof. induction l as [|x l IH]; cbn; [reflexivity|]. rewrite IH. unfold compat. cbn. now rewrite orb_true_r. Qed.
Lemma compat_ones_r l : compat_all l (repeat 1 (length l)) = true.
Proof. induction l as [|x l IH]; cbn; [reflexivity|]. rewrite IH. unfold compat. cbn. now rewrite !orb_true_r. Qed.
Lemma bdims_ones_l l : bdims (repeat 1 (length l)) l = l.
Proof. induction l as [|x l IH]; cbn; [reflexivity|]. now rewrite IH. Qed.
Lemma bdims_ones_r l : bdims l (repeat 1 (length l)) = l.
Proof.
  induction l as [|x l IH]; cbn; [reflexivity|]. rewrite IH. unfold bdim.
  destruct (x =? 1) eqn:E; [apply Nat.eqb_eq in E; now subst|reflexivity].
Qed.

Lemma bshape_r_padded ra rb :
  bshape_r ra rb =
    if compat_all (padr (Nat.max (length ra) (length rb)) ra) (padr (Nat.max (length ra) (length rb)) rb)
    then Some (bdims (padr (Nat.max (length ra) (length rb)) ra) (padr (Nat.max (length ra) (length rb)) rb))
    else None.
Proof.
  revert rb. induction ra as [|x ra IH]; intros rb.
  - unfold padr. cbn [length Nat.max app]. rewrite Nat.sub_0_r, Nat.sub_diag. cbn [repeat].
    rewrite app_nil_r, compat_ones_l, bdims_ones_l. destruct rb; reflexivity.
  - destruct rb as [|y rb].
    + unfold padr. cbn [length Nat.max app]. rewrite Nat.sub_0_r, Nat.sub_diag. cbn [repeat app].
      rewrite app_nil_r.
      change (S (length ra)) with (length (x :: ra)).
      rewrite compat_ones_r, bdims_ones_r. reflexivity.
    + cbn [bshape_r length]. rewrite <- Nat.succ_max_distr. unfold padr in *. cbn [length Nat.sub app].
      cbn [compat_all bdims]. rewrite IH.
      set (n := Nat.max (length ra) (length rb)).
      destruct (compat_all (ra ++ repeat 1 (n - length ra)) (rb ++ repeat 1 (n - length rb))).
      * unfold compat, bdim.
        destruct (x =? y) eqn:E1, (x =? 1) eqn:E2, (y =? 1) eqn:E3; cbn; try reflexivity;
          repeat match goal with H : (_ =? _) = true |- _ => apply Nat.eqb_eq in H end; subst; reflexivity.
      * rewrite andb_false_r.
        destruct ((x =? y) || (y =? 1)); [reflexivity|]. destruct (x =? 1); reflexivity.
Qed.

Lemma rev_repeat {X} (x : X) n : rev (repeat x n) = repeat x n.
Proof.
  induction n as [|n IH]; cbn [repeat rev]; [reflexivity|]. rewrite IH.
  clear IH. induction n as [|n IH]; cbn [repeat app]; [reflexivity|]. now rewrite IH.
Qed.

Lemma compat_all_app x1 x2 y1 y2 : length x1 = length y1 ->
  compat_all (x1 ++ x2) (y1 ++ y2) = compat_all x1 y1 && compat_all x2 y2.
Proof.
  revert y1. induction x1 as [|a x1 IH]; intros [|b y1] Hl; cbn in *; try lia; [reflexivity|].
  rewrite IH by lia. now rewrite andb_assoc.
Qed.
Lemma bdims_app x1 x2 y1 y2 : length x1 = length y1 ->
  bdims (x1 ++ x2) (y1 ++ y2) = bdims x1 y1 ++ bdims x2 y2.
Proof.
  revert y1. induction x1 as [|a x1 IH]; intros [|b y1] Hl; cbn in *; try lia; [reflexivity|].
  now rewrite IH by lia.
Qed.
Lemma compat_all_rev x y : length x = length y -> compat_all (rev x) (rev y) = compat_all x y.
Proof.
  revert y. induction x as [|a x IH]; intros [|b y] Hl; cbn [length rev] in *; try lia; [reflexivity|].
  rewrite compat_all_app by (rewrite !rev_length; lia). rewrite IH by lia.
  cbn [compat_all]. rewrite andb_true_r. apply andb_comm.
Qed.
Lemma bdims_rev x y : length x = length y -> bdims (rev x) (rev y) = rev (bdims x y).
Proof.
  revert y. induction x as [|a x IH]; intros [|b y] Hl; cbn [length rev bdims] in *; try lia; [reflexivity|].
  rewrite bdims_app by (rewrite !rev_length; lia). now rewrite IH by lia.
Qed.

Lemma rev_pad_shape n s : rev (pad_shape n s) = padr n (rev s).
Proof. unfold pad_shape, padr. now rewrite rev_app_distr, rev_repeat, rev_length. Qed.

Lemma pad_shape_length n s : length s <= n -> length (pad_shape n s) = n.
Proof. intros H. unfold pad_shape. rewrite app_length, repeat_length. lia. Qed.

Theorem bshape_r_rev a b : option_map (@rev nat) (bshape_r (rev a) (rev b)) = bshape a b.
Proof.
  rewrite bshape_r_padded. unfold bshape. rewrite !rev_length.
  set (n := Nat.max (length a) (length b)).
  rewrite <- !rev_pad_shape.
  assert (Hl : length (pad_shape n a) = length (pad_shape n b)) by (rewrite !pad_shape_length; lia).
  rewrite compat_all_rev, bdims_rev by exact Hl.
  destruct (compat_all _ _); cbn [option_map]; [now rewrite rev_involutive|reflexivity].
Qed.

(* --- the spec's element formula is BroadcastSpec.bproj --- *)
Lemma pin_combine s i :
  pin s i = map (fun p => if Nat.eqb (snd p) 1 then 0 else fst p) (combine i s).
Proof.
  revert i. induction s as [|d s IH]; intros [|k i]; cbn [pin combine map]; try reflexivity.
  now rewrite IH.
Qed.

Lemma existsb_nonpos_false l :
  existsb (fun d => (d <=? 0)%Z) l = false -> positive (map Z.to_nat l).
Proof.
  intros H k Hk. rewrite map_length in Hk.
  rewrite nth_indep with (d' := Z.to_nat 0%Z) by now rewrite map_length.
  rewrite map_nth.
  assert (Hin : In (nth k l 0%Z) l) by (apply nth_In; exact Hk).
  destruct (Z.leb_spec (nth k l 0%Z) 0) as [Hle|Hgt]; [|lia].
  exfalso. assert (E : existsb (fun d => (d <=? 0)%Z) l = true).
  { apply existsb_exists. eexists. split; [exact Hin|]. apply Z.leb_le. exact Hle. }
  congruence.
Qed.

(* sharp form: a target of rank >= 1 with positive entries: the model is the ONNX function *)
Theorem expand_exact t shp :
  wf (tz t) -> positive (sh t) ->
  sh shp <> [] -> existsb (fun d => (d <=? 0)%Z) (pl shp) = false ->
  expand_model t shp = match expand_spec t shp with Some v => MOk v | None => MErr end.
Proof.
  intros Wt Pt Hs Hp. unfold expand_model, expand_spec.
  destruct (sh shp) as [|d0 s0] eqn:Es; [congruence|]. rewrite Hp.
  set (shape := map Z.to_nat (pl shp)).
  rewrite (multidir_broadcast_correct 0%Z (tz t) (mkT shape (repeat 0%Z (numel shape)))).
  - unfold multidir_spec. cbn [tshape]. change (tshape (tz t)) with (sh t).
    rewrite <- bshape_r_rev.
    destruct (bshape_r (rev (sh t)) (rev shape)) as [s|]; cbn [option_map mbind fst]; [|reflexivity].
    f_equal. f_equal. unfold bcast_to, tabulate. f_equal. apply map_ext. intros n.
    unfold bproj. rewrite pin_combine. reflexivity.
  - exact Wt.
  - unfold wf. cbn [tdata tshape]. apply repeat_length.
  - exact Pt.
  - cbn [tshape]. apply existsb_nonpos_false. exact Hp.
Qed.

Corollary expand_value t shp v :
  wf (tz t) -> positive (sh t) -> sh shp <> [] -> existsb (fun d => (d <=? 0)%Z) (pl shp) = false ->
  expand_spec t shp = Some v -> expand_model t shp = MOk v.
Proof. intros Wt Pt Hs Hp E. rewrite expand_exact by assumption. now rewrite E. Qed.

Corollary expand_none t shp :
  wf (tz t) -> positive (sh t) -> expand_spec t shp = None -> expand_model t shp = MErr.
Proof.
  intros Wt Pt E. destruct (sh shp) as [|d0 s0] eqn:Es; [unfold expand_model; now rewrite Es|].
  destruct (existsb (fun d => (d <=? 0)%Z) (pl shp)) eqn:Hp; [unfold expand_model; now rewrite Es, Hp|].
  rewrite expand_exact; [now rewrite E|assumption|assumption|congruence|assumption].
Qed.

(* for EVERY target tensor: the ONNX value or an error; an error when ONNX has no value *)
Theorem expand_refines t shp :
  wf (tz t) -> positive (sh t) ->
  refines (match expand_spec t shp with Some v => SEither1 v | None => SMustErr end)
          (wrap (expand_model t shp)).
Proof.
  intros Wt Pt. unfold wrap.
  destruct (sh shp) as [|d0 s0] eqn:Es.
  { unfold expand_model. rewrite Es. destruct (expand_spec t shp); [right|]; reflexivity. }
  destruct (existsb (fun d => (d <=? 0)%Z) (pl shp)) eqn:Hp.
  { unfold expand_model. rewrite Es, Hp. destruct (expand_spec t shp); [right|]; reflexivity. }
  rewrite expand_exact; [|assumption|assumption|congruence|assumption].
  destruct (expand_spec t shp); [left|]; reflexivity.
Qed.

(* ==================================================================================== *)
(* Gather: Check/CheckC08.spec takes the index formula of the model as the ONNX function  *)
(* ==================================================================================== *)
Theorem gather_refines a d i :
  refines (match gather_model a d i with MOk v => SEither1 v | _ => SMustErr end) (wrap (gather_model a d i)).
Proof.
  unfold wrap. destruct (gather_model a d i) as [v| |] eqn:E; cbn [mbind]; [left; reflexivity|reflexivity|].
  exfalso. unfold gather_model in E.
  repeat match type of E with (if ?c then _ else _) = _ => destruct c end; discriminate.
Qed.

(* ==================================================================================== *)
(* (S) Slice                                                                             *)
(* ==================================================================================== *)
Open Scope Z_scope.
Ltac Zify.zify_post_hook ::= Z.div_mod_to_equations.

Ltac zbool :=
  rewrite ?Z.gtb_ltb, ?Z.geb_leb in *;
  repeat match goal with
         | |- context [?a <? ?b] => destruct (Z.ltb_spec a b)
         | |- context [?a <=? ?b] => destruct (Z.leb_spec a b)
         | |- context [?a =? ?b] => destruct (Z.eqb_spec a b)
         end.

(* ---------- stage 1: one axis: the extent arithmetic of axis_info versus ONNX ---------- *)
Definition tri (a : axinfo) : Z * Z * Z := (a_start a, a_step a, a_extent a).

Lemma ceil_div d p : 0 < p -> 0 <= d ->
  (d + p - 1) / p = d / p + (if d mod p >? 0 then 1 else 0).
Proof.
  intros Hp Hd. rewrite Z.gtb_ltb. destruct (Z.ltb_spec 0 (d mod p)) as [Hm|Hm].
  - symmetry. apply Z.div_unique with (r := d mod p - 1); [left|]; lia.
  - symmetry. apply Z.div_unique with (r := p - 1); [left|]; lia.
Qed.

Lemma ceil_ge1 d p : 0 < p -> 1 <= d -> 1 <= (d + p - 1) / p.
Proof. intros Hp Hd. apply Z.div_le_lower_bound; lia. Qed.

Lemma ceil_eq1 d p : 0 < p -> 1 <= d -> (d + p - 1) / p <> 1 -> 2 <= d.
Proof.
  intros Hp Hd Hne. destruct (Z.eq_dec d 1) as [->|]; [|lia].
  exfalso. apply Hne. replace (1 + p - 1) with (1 * p) by lia. apply Z.div_mul. lia.
Qed.

(* under check_slices and a non-negative start, ONNX's clamping is the identity on the start
   and clamps the end to the dimension *)
Lemma onnx_axis_checked dim s e p :
  0 <= s -> s < Z.min e dim -> 0 < p ->
  onnx_slice_axis dim s e p = (s, p, (Z.min e dim - s + p - 1) / p).
Proof.
  intros Hs Hlt Hp. unfold onnx_slice_axis, clamp.
  replace (s <? 0) with false by (symmetry; apply Z.ltb_ge; lia).
  replace (e <? 0) with false by (symmetry; apply Z.ltb_ge; lia).
  replace (0 <? p) with true by (symmetry; apply Z.ltb_lt; lia).
  replace (Z.max 0 (Z.min dim s)) with s by lia.
  replace (Z.max 0 (Z.min dim e)) with (Z.min e dim) by lia.
  pose proof (ceil_ge1 (Z.min e dim - s) p Hp ltac:(lia)).
  f_equal. lia.
Qed.

Lemma axis_info_negstart k dim s e p : s < 0 -> axis_info k dim (Some (s, e, p)) = None.
Proof.
  intros Hs. unfold axis_info.
  replace (s <? 0) with true by (symmetry; apply Z.ltb_lt; lia).
  now rewrite orb_true_r.
Qed.

(* the single-axis extent lemma *)
Lemma axis_info_checked k dim s e p :
  0 <= s -> s < Z.min e dim -> 0 < p ->
  (k = 0%nat -> p = 1 \/ (Z.min e dim - s) mod p = 0) ->
  axis_info k dim (Some (s, e, p)) =
    Some {| a_start := s; a_end := Z.min e dim; a_step := p;
            a_extent := (Z.min e dim - s + p - 1) / p; a_sliced := true; a_empty := false |}.
Proof.
  intros Hs Hlt Hp Hk. unfold axis_info.
  replace (s >? e) with false by (symmetry; rewrite Z.gtb_ltb; apply Z.ltb_ge; lia).
  replace (s <? 0) with false by (symmetry; apply Z.ltb_ge; lia).
  replace (p =? 0) with false by (symmetry; apply Z.eqb_neq; lia).
  replace (s >=? dim) with false by (symmetry; rewrite Z.geb_leb; apply Z.leb_gt; lia).
  cbn [orb andb].
  replace (p >? 0) with true by (symmetry; rewrite Z.gtb_ltb; apply Z.ltb_lt; lia).
  replace (Z.min e dim =? s) with false by (symmetry; apply Z.eqb_neq; lia).
  set (d := Z.min e dim - s) in *.
  assert (Hd : 1 <= d) by (unfold d; lia).
  pose proof (ceil_ge1 d p Hp Hd) as Hc.
  rewrite (ceil_div d p Hp ltac:(lia)) in *.
  assert (Hq : (if (d mod p >? 0) && negb (Nat.eqb k 0) then d / p + 1 else d / p)
               = d / p + (if d mod p >? 0 then 1 else 0)).
  { destruct (Nat.eqb_spec k 0) as [E|E]; cbn [negb].
    - rewrite andb_false_r.
      assert (Hm : d mod p = 0) by (destruct (Hk E) as [->|Hm]; [apply Z.mod_1_r|exact Hm]).
      rewrite Hm. cbn. lia.
    - rewrite andb_true_r. destruct (d mod p >? 0); lia. }
  rewrite Hq.
  replace (d / p + (if d mod p >? 0 then 1 else 0) <=? 0) with false by (symmetry; apply Z.leb_gt; lia).
  reflexivity.
Qed.

Lemma axis_info_unsliced k dim :
  axis_info k dim None =
    Some {| a_start := 0; a_end := dim; a_step := 1; a_extent := dim; a_sliced := false; a_empty := false |}.
Proof. reflexivity. Qed.

(* ---------- stage 2: offsets = row-major enumeration of the source flat offsets ---------- *)
Definition exts (inf : list axinfo) : list nat := map (fun a => Z.to_nat (a_extent a)) inf.
Definition srcI (inf : list axinfo) (i : list nat) : list nat :=
  map (fun p => Z.to_nat (a_start (snd p) + Z.of_nat (fst p) * a_step (snd p))) (combine i inf).

Lemma srcI_cons a inf k i :
  srcI (a :: inf) (k :: i) = Z.to_nat (a_start a + Z.of_nat k * a_step a) :: srcI inf i.
Proof. reflexivity. Qed.

Lemma map_seq_from {X} (f : nat -> X) a N :
  map f (seq a N) = map (fun m => f (a + m)%nat) (seq 0 N).
Proof.
  revert a. induction N as [|N IH]; intros a; cbn [seq map]; [reflexivity|].
  f_equal; [f_equal; lia|]. rewrite IH. rewrite <- (seq_shift N 0), map_map.
  apply map_ext. intros m. f_equal. lia.
Qed.

Lemma map_seq_mul {X} (f : nat -> X) E N :
  map f (seq 0 (E * N)) = flat_map (fun k => map (fun m => f (k * N + m)%nat) (seq 0 N)) (seq 0 E).
Proof.
  induction E as [|E IH]; [reflexivity|].
  replace (S E * N)%nat with (E * N + N)%nat by lia.
  rewrite seq_app, map_app, IH, seq_S, flat_map_app. cbn [flat_map plus]. rewrite app_nil_r.
  f_equal. apply map_seq_from.
Qed.

Lemma unflat_cons_mul E s k m : (m < numel s)%nat ->
  unflat (E :: s) (k * numel s + m) = k :: unflat s m.
Proof.
  intros Hm. cbn [unflat]. assert (HN : numel s <> 0%nat) by lia.
  rewrite Nat.div_add_l by exact HN. rewrite Nat.div_small by exact Hm.
  rewrite (Nat.add_comm (k * numel s) m), Nat.mod_add by exact HN. rewrite Nat.mod_small by exact Hm.
  f_equal. lia.
Qed.

Lemma offsets_enum inf : forall s,
  length inf = length s ->
  Forall (fun a => 0 <= a_start a /\ 0 <= a_step a) inf ->
  offsets inf (strides s) =
    map (fun n => Z.of_nat (flat s (srcI inf (unflat (exts inf) n)))) (seq 0 (numel (exts inf))).
Proof.
  induction inf as [|a inf IH]; intros [|d s] Hl Hp; cbn [length] in Hl; try lia.
  - reflexivity.
  - inversion Hp as [|? ? [Hs0 Hp0] Hp']; subst.
    cbn [strides offsets exts map numel]. fold (exts inf).
    rewrite (IH s ltac:(lia) Hp'). rewrite map_seq_mul.
    apply flat_map_ext. intros k. rewrite map_map. apply map_ext_in. intros m Hm.
    apply in_seq in Hm.
    change (exts (a :: inf)) with (Z.to_nat (a_extent a) :: exts inf).
    rewrite unflat_cons_mul by lia.
    rewrite srcI_cons. cbn [flat].
    rewrite Nat2Z.inj_add, Nat2Z.inj_mul, Z2Nat.id by nia. reflexivity.
Qed.

(* ---------- stage 3: the scalar rule and the dropped axes ---------- *)
Lemma fold_add_acc l acc : fold_left Z.add l acc = acc + fold_right Z.add 0 l.
Proof. revert acc. induction l as [|x l IH]; intros acc; cbn; [lia|]. rewrite IH. lia. Qed.
Lemma fold_sub_acc l acc : fold_left Z.sub l acc = acc - fold_right Z.add 0 l.
Proof. revert acc. induction l as [|x l IH]; intros acc; cbn; [lia|]. rewrite IH. lia. Qed.

(* (number of source elements spanned between the first and the last selected one) - 1 *)
Fixpoint spanD (s : list nat) (inf : list axinfo) : Z :=
  match s, inf with
  | _ :: s', a :: inf' => (a_end a - a_start a - 1) * Z.of_nat (numel s') + spanD s' inf'
  | _, _ => 0
  end.

Lemma nd_diff s : forall inf, length inf = length s ->
  fold_left Z.sub (map (fun p => (Z.of_nat (fst (fst p)) - a_end (snd (fst p))) * snd p)
                       (combine (combine s inf) (strides s))) (Z.of_nat (numel s))
  - fold_left Z.add (map (fun p => a_start (fst p) * snd p) (combine inf (strides s))) 0
  = 1 + spanD s inf.
Proof.
  intros inf. rewrite fold_add_acc, fold_sub_acc. revert inf.
  induction s as [|d s IH]; intros [|a inf] Hl; cbn [length] in Hl; try lia.
  - cbn. lia.
  - specialize (IH inf ltac:(lia)).
    cbn [strides combine map fold_right fst snd numel spanD].
    rewrite Nat2Z.inj_mul. set (N := Z.of_nat (numel s)) in *. lia.
Qed.

Lemma numel_ge1 s : Forall (fun d => (1 <= d)%nat) s -> (1 <= numel s)%nat.
Proof. induction 1 as [|d s Hd _ IH]; cbn [numel]; [lia|nia]. Qed.

Lemma spanD_nonneg s : forall inf,
  Forall (fun a => 1 <= a_end a - a_start a) inf -> 0 <= spanD s inf.
Proof.
  induction s as [|d s IH]; intros [|a inf] H; cbn [spanD]; try lia.
  inversion H; subst. specialize (IH inf ltac:(assumption)). nia.
Qed.

Lemma spanD_pos s : forall inf,
  length inf = length s -> Forall (fun d => (1 <= d)%nat) s ->
  Forall (fun a => 1 <= a_end a - a_start a) inf ->
  Exists (fun a => 2 <= a_end a - a_start a) inf -> 1 <= spanD s inf.
Proof.
  induction s as [|d s IH]; intros [|a inf] Hl Hs Hf Hex; cbn [length] in Hl; try lia.
  - inversion Hex.
  - cbn [spanD]. inversion Hs; subst. inversion Hf; subst.
    pose proof (numel_ge1 s ltac:(assumption)) as HN.
    inversion Hex; subst.
    + pose proof (spanD_nonneg s inf ltac:(assumption)). nia.
    + specialize (IH inf ltac:(lia) ltac:(assumption) ltac:(assumption) ltac:(assumption)). nia.
Qed.

Lemma filter_all {X} (p : X -> bool) l : Forall (fun x => p x = true) l -> filter p l = l.
Proof. induction 1 as [|x l Hx _ IH]; cbn [filter]; [reflexivity|]. now rewrite Hx, IH. Qed.

(* ---------- stage 4: infos, and g_slice on well-behaved per-axis results ---------- *)
Definition dai : axinfo :=
  {| a_start := 0; a_end := 0; a_step := 1; a_extent := 0; a_sliced := false; a_empty := false |}.

Lemma nth_nil' {X} k (d : X) : nth k [] d = d.
Proof. destruct k; reflexivity. Qed.

Lemma infos_spec s : forall i sls,
  match infos i s sls with
  | Some inf => length inf = length s /\
      forall k, (k < length s)%nat ->
        axis_info (i + k) (Z.of_nat (nth k s 0%nat)) (nth k sls None) = Some (nth k inf dai)
  | None => exists k, (k < length s)%nat /\
        axis_info (i + k) (Z.of_nat (nth k s 0%nat)) (nth k sls None) = None
  end.
Proof.
  induction s as [|d s IH]; intros i sls; cbn [infos].
  - split; [reflexivity|]. cbn [length]. intros k Hk. lia.
  - set (sl := match sls with [] => None | x :: _ => x end).
    set (rest := match sls with [] => [] | _ :: r => r end).
    replace (match sls with [] => (None, []) | x :: r => (x, r) end) with (sl, rest)
      by (unfold sl, rest; destruct sls; reflexivity).
    assert (Hn0 : nth 0 sls None = sl) by (unfold sl; destruct sls; reflexivity).
    assert (HnS : forall k, nth (S k) sls None = nth k rest None)
      by (intros k; unfold rest; destruct sls; [destruct k; reflexivity|reflexivity]).
    specialize (IH (S i) rest).
    destruct (axis_info i (Z.of_nat d) sl) as [a|] eqn:E1.
    + destruct (infos (S i) s rest) as [l|].
      * destruct IH as [IHl IHn]. split; [cbn [length]; lia|].
        intros [|k] Hk; cbn [length nth] in *.
        -- rewrite Nat.add_0_r, Hn0. exact E1.
        -- rewrite HnS, Nat.add_succ_r. apply IHn. lia.
      * destruct IH as (k & Hk & E). exists (S k). cbn [length nth]. split; [lia|].
        rewrite HnS, Nat.add_succ_r. exact E.
    + exists 0%nat. cbn [length nth]. split; [lia|]. rewrite Nat.add_0_r, Hn0. exact E1.
Qed.

Definition axgood (a : axinfo) : Prop :=
  0 <= a_start a /\ 0 < a_step a /\ a_empty a = false /\ 1 <= a_end a - a_start a /\
  (a_sliced a = true -> a_extent a <> 1).

Theorem g_slice_value s data sls inf :
  (length sls <= length s)%nat ->
  infos 0 s sls = Some inf ->
  Forall (fun d => (1 <= d)%nat) s ->
  Forall axgood inf ->
  (s = [] \/ Exists (fun a => 2 <= a_end a - a_start a) inf) ->
  g_slice s data sls =
    SOk (exts inf)
        (map (fun n => nth (flat s (srcI inf (unflat (exts inf) n))) data 0) (seq 0 (numel (exts inf)))).
Proof.
  intros Hls Hinf Hpos Hgood Hbig. unfold g_slice.
  replace (length s <? length sls)%nat with false by (symmetry; apply Nat.ltb_ge; exact Hls).
  rewrite Hinf.
  pose proof (infos_spec s 0 sls) as Hsp. rewrite Hinf in Hsp. destruct Hsp as [Hlen _].
  assert (He : existsb a_empty inf = false).
  { clear - Hgood. induction Hgood as [|a l Ha _ IH]; cbn [existsb]; [reflexivity|].
    destruct Ha as (_ & _ & -> & _). exact IH. }
  rewrite He.
  assert (Hvals : map (fun o => nth (Z.to_nat o) data 0) (offsets inf (strides s)) =
                  map (fun n => nth (flat s (srcI inf (unflat (exts inf) n))) data 0) (seq 0 (numel (exts inf)))).
  { rewrite offsets_enum.
    - rewrite map_map. apply map_ext. intros n. now rewrite Nat2Z.id.
    - exact Hlen.
    - revert Hgood. apply Forall_impl. intros a (H1 & H2 & _). lia. }
  rewrite Hvals, nd_diff by exact Hlen.
  destruct Hbig as [->|Hex].
  - destruct inf; [|cbn [length] in Hlen; lia]. reflexivity.
  - assert (H1 : 1 <= spanD s inf).
    { apply spanD_pos; [exact Hlen|exact Hpos| |exact Hex].
      revert Hgood. apply Forall_impl. intros a (_ & _ & _ & H & _). exact H. }
    replace (1 + spanD s inf =? 1) with false by (symmetry; apply Z.eqb_neq; lia).
    rewrite filter_all; [reflexivity|].
    revert Hgood. apply Forall_impl. intros a (_ & _ & _ & _ & H).
    destruct (a_sliced a); [|reflexivity]. cbn [andb].
    destruct (Z.eqb_spec (a_extent a) 1) as [E|E]; [exfalso; exact (H eq_refl E)|reflexivity].
Qed.

Lemma g_slice_err s data sls k :
  (length sls <= length s)%nat -> (k < length s)%nat ->
  axis_info k (Z.of_nat (nth k s 0%nat)) (nth k sls None) = None ->
  g_slice s data sls = SErr.
Proof.
  intros Hls Hk E. unfold g_slice.
  destruct (length s <? length sls)%nat; [reflexivity|].
  pose proof (infos_spec s 0 sls) as Hsp.
  destruct (infos 0 s sls) as [inf|]; [|reflexivity].
  destruct Hsp as [_ Hn]. specialize (Hn k Hk). cbn [plus] in Hn. congruence.
Qed.

(* ---------- stage 5: the slicer list built by constructSlices versus the spec's lookup ---------- *)
Definition nax (r : nat) (a : Z) : nat := Z.to_nat (if a <? 0 then Z.of_nat r + a else a).

Definition build_sl (r : nat) : list Z -> list Z -> list Z -> list Z -> list (option (Z*Z*Z)) -> list (option (Z*Z*Z)) :=
  fix build (stl enl axl spl : list Z) (acc : list (option (Z*Z*Z))) : list (option (Z*Z*Z)) :=
  match stl, enl, axl, spl with
  | s0 :: stl', e0 :: enl', a :: axl', p0 :: spl' =>
      build stl' enl' axl' spl' (set_nth acc (nax r a) (Some (s0, e0, p0)))
  | _, _, _, _ => acc
  end.

Lemma build_sl_cons r s0 st e0 en a ax p0 sp acc :
  build_sl r (s0 :: st) (e0 :: en) (a :: ax) (p0 :: sp) acc =
  build_sl r st en ax sp (set_nth acc (nax r a) (Some (s0, e0, p0))).
Proof. reflexivity. Qed.

Lemma set_nth_upd {X} (l : list X) k x : set_nth l k x = upd l k x.
Proof. revert k. induction l as [|y l IH]; intros [|k]; cbn; try reflexivity; now rewrite IH. Qed.

Lemma build_length r st : forall en ax sp acc, length (build_sl r st en ax sp acc) = length acc.
Proof.
  induction st as [|s0 st IH]; intros [|e0 en] [|a ax] [|p0 sp] acc; try reflexivity.
  rewrite build_sl_cons, IH, set_nth_upd. apply upd_length.
Qed.

Lemma build_nth r k st : forall en ax sp acc,
  length en = length st -> length ax = length st -> length sp = length st ->
  (forall i, (i < length st)%nat -> (nax r (nth i ax 0%Z) < length acc)%nat) ->
  (nth k (build_sl r st en ax sp acc) None = nth k acc None /\
   forall i, (i < length st)%nat -> nax r (nth i ax 0%Z) <> k)
  \/ exists i, (i < length st)%nat /\ nax r (nth i ax 0%Z) = k /\
       nth k (build_sl r st en ax sp acc) None = Some (nth i st 0, nth i en 0, nth i sp 1).
Proof.
  induction st as [|s0 st IH]; intros [|e0 en] [|a ax] [|p0 sp] acc H1 H2 H3 Hr;
    cbn [length] in *; try lia.
  - left. split; [reflexivity|]. intros i Hi. lia.
  - rewrite build_sl_cons.
    assert (Hr' : forall i, (i < length st)%nat ->
                  (nax r (nth i ax 0%Z) < length (set_nth acc (nax r a) (Some (s0, e0, p0))))%nat).
    { intros i Hi. rewrite set_nth_upd, upd_length. apply (Hr (S i)). lia. }
    destruct (IH en ax sp _ ltac:(lia) ltac:(lia) ltac:(lia) Hr') as [[Hn Hno]|(i & Hi & Hk & Hn)].
    + destruct (Nat.eq_dec (nax r a) k) as [E|E].
      * right. exists 0%nat. split; [lia|]. split; [exact E|]. rewrite Hn. cbn [nth].
        rewrite set_nth_upd, nth_upd. pose proof (Hr 0%nat ltac:(lia)) as H0. cbn [nth] in H0.
        replace (k =? nax r a)%nat with true by (symmetry; apply Nat.eqb_eq; lia).
        replace (nax r a <? length acc)%nat with true by (symmetry; apply Nat.ltb_lt; lia).
        reflexivity.
      * left. split.
        -- rewrite Hn, set_nth_upd, nth_upd.
           replace (k =? nax r a)%nat with false by (symmetry; apply Nat.eqb_neq; lia). reflexivity.
        -- intros [|i] Hi; cbn [nth]; [exact E|apply Hno; lia].
    + right. exists (S i). cbn [nth]. split; [lia|]. split; [exact Hk|exact Hn].
Qed.

Lemma find_axis (k : nat) l : forall j,
  match find (fun p : nat * nat => Nat.eqb (snd p) k) (combine (seq j (length l)) l) with
  | Some (i, x) => (j <= i < j + length l)%nat /\ nth (i - j) l 0%nat = k
  | None => forall i, (i < length l)%nat -> nth i l 0%nat <> k
  end.
Proof.
  induction l as [|x l IH]; intros j; cbn [length seq combine find].
  - intros i Hi. lia.
  - cbn [snd]. destruct (Nat.eqb_spec x k) as [E|E].
    + split; [lia|]. rewrite Nat.sub_diag. exact E.
    + specialize (IH (S j)).
      destruct (find _ (combine (seq (S j) (length l)) l)) as [[i y]|].
      * destruct IH as [Hi Hn]. split; [lia|].
        replace (i - j)%nat with (S (i - S j)) by lia. exact Hn.
      * intros [|i] Hi; cbn [nth]; [exact E|apply IH; lia].
Qed.

Lemma nodup_length_le l : (length (nodup Nat.eq_dec l) <= length l)%nat.
Proof.
  induction l as [|x l IH]; cbn [nodup length]; [lia|].
  destruct (in_dec Nat.eq_dec x l); cbn [length]; lia.
Qed.

Lemma nodup_length_NoDup l : (length l <= length (nodup Nat.eq_dec l))%nat -> NoDup l.
Proof.
  induction l as [|x l IH]; cbn [nodup length]; intros H; [constructor|].
  pose proof (nodup_length_le l) as Hle.
  destruct (in_dec Nat.eq_dec x l) as [Hin|Hin]; cbn [length] in H; [lia|].
  constructor; [exact Hin|apply IH; lia].
Qed.

Lemma nth_map_lt {X Y} (f : X -> Y) l i d d' : (i < length l)%nat -> nth i (map f l) d' = f (nth i l d).
Proof. intros H. rewrite nth_indep with (d' := f d) by now rewrite map_length. apply map_nth. Qed.

Lemma nth_repeat' {X} (x : X) n k : nth k (repeat x n) x = x.
Proof. revert k. induction n as [|n IH]; intros [|k]; cbn; auto. Qed.

Definition spec_axis (s : list nat) (st en sp : list Z) (axn : list nat) (k : nat) : Z * Z * Z :=
  match find (fun p => Nat.eqb (snd p) k) (combine (seq 0 (length axn)) axn) with
  | Some (i, _) => onnx_slice_axis (Z.of_nat (nthz s k)) (nth i st 0) (nth i en 0) (nth i sp 1)
  | None => (0, 1, Z.of_nat (nthz s k))
  end.
Definition src_of (pa : list (Z*Z*Z)) (i : list nat) : list nat :=
  map (fun p => Z.to_nat (fst (fst (snd p)) + Z.of_nat (fst p) * snd (fst (snd p)))) (combine i pa).

Lemma combine_map_r {X Y W} (f : Y -> W) (i : list X) l :
  combine i (map f l) = map (fun p => (fst p, f (snd p))) (combine i l).
Proof. revert l. induction i as [|x i IH]; intros [|y l]; cbn; try reflexivity. now rewrite IH. Qed.

Lemma src_of_tri inf i : src_of (map tri inf) i = srcI inf i.
Proof. unfold src_of, srcI. rewrite combine_map_r, map_map. reflexivity. Qed.

Lemma nax_lt r a : - Z.of_nat r <= a < Z.of_nat r -> (nax r a < r)%nat.
Proof. intros H. unfold nax. destruct (Z.ltb_spec a 0); lia. Qed.

Section SliceCore.
Variables (s : list nat) (data : list Z) (st en ax sp : list Z).
Let r := length s.
Let n := length st.
Let axn := map (nax r) ax.
Let sls := build_sl r st en ax sp (repeat None r).
Let dimz (k : nat) := Z.of_nat (nth k s 0%nat).

Hypothesis Hpos : Forall (fun d => (1 <= d)%nat) s.
Hypothesis Hl1 : length en = n.
Hypothesis Hl2 : length ax = n.
Hypothesis Hl3 : length sp = n.
Hypothesis Hchk : forall i, (i < n)%nat ->
  - Z.of_nat r <= nth i ax 0 < Z.of_nat r /\ 0 < nth i sp 1 /\
  nth i st 0 < Z.min (nth i en 0) (dimz (nax r (nth i ax 0%Z))).
Hypothesis Hnd : NoDup axn.

Lemma sls_length : length sls = r.
Proof. unfold sls. now rewrite build_length, repeat_length. Qed.

Lemma nth_axn i : (i < n)%nat -> nth i axn 0%nat = nax r (nth i ax 0%Z).
Proof. intros Hi. unfold axn. apply nth_map_lt. lia. Qed.

Lemma nax_inj i j : (i < n)%nat -> (j < n)%nat -> nax r (nth i ax 0%Z) = nax r (nth j ax 0%Z) -> i = j.
Proof.
  intros Hi Hj E. apply (proj1 (NoDup_nth axn 0%nat) Hnd); unfold axn; rewrite ?map_length; try lia.
  fold axn. now rewrite !nth_axn.
Qed.

Lemma axis_link k :
  (exists i, (i < n)%nat /\ nax r (nth i ax 0%Z) = k /\
     nth k sls None = Some (nth i st 0, nth i en 0, nth i sp 1) /\
     spec_axis s st en sp axn k = onnx_slice_axis (dimz k) (nth i st 0) (nth i en 0) (nth i sp 1))
  \/ (nth k sls None = None /\ spec_axis s st en sp axn k = (0, 1, dimz k) /\
      forall i, (i < n)%nat -> nax r (nth i ax 0%Z) <> k).
Proof.
  assert (Hr : forall i, (i < length st)%nat -> (nax r (nth i ax 0%Z) < length (repeat (@None (Z*Z*Z)) r))%nat).
  { intros i Hi. rewrite repeat_length. apply nax_lt. apply (Hchk i Hi). }
  pose proof (find_axis k axn 0) as Hf. unfold spec_axis, nthz. fold (dimz k).
  assert (Hla : length axn = n) by (unfold axn; rewrite map_length; exact Hl2).
  destruct (build_nth r k st en ax sp (repeat None r) Hl1 Hl2 Hl3 Hr) as [[Hn Hno]|(i & Hi & Hk & Hn)].
  - right. fold sls in Hn. rewrite Hn, nth_repeat'. split; [reflexivity|]. split; [|exact Hno].
    destruct (find _ _) as [[i x]|]; [|reflexivity].
    destruct Hf as [Hi Hx]. rewrite Nat.sub_0_r, nth_axn in Hx by lia.
    exfalso. apply (Hno i); [fold n; lia|exact Hx].
  - left. exists i. fold sls in Hn. split; [exact Hi|]. split; [exact Hk|]. split; [exact Hn|].
    destruct (find _ _) as [[i' x]|].
    + destruct Hf as [Hi' Hx]. rewrite Nat.sub_0_r, nth_axn in Hx by lia.
      assert (i' = i) by (apply nax_inj; try (fold n in Hi); try lia; congruence). subst i'. reflexivity.
    + exfalso. apply (Hf i); [fold n in Hi; lia|]. rewrite nth_axn by exact Hi. exact Hk.
Qed.

Lemma dimz_pos k : (k < r)%nat -> 1 <= dimz k.
Proof.
  intros Hk. unfold dimz. pose proof (proj1 (Forall_nth _ s) Hpos k 0%nat Hk) as H. cbv beta in H. lia.
Qed.

(* (A) a negative start: gorgonia's CheckSlice refuses *)
Lemma core_negstart : (exists i, (i < n)%nat /\ nth i st 0 < 0) -> g_slice s data sls = SErr.
Proof.
  intros (i & Hi & Hneg).
  set (k := nax r (nth i ax 0%Z)).
  assert (Hk : (k < r)%nat) by (apply nax_lt; apply (Hchk i Hi)).
  apply g_slice_err with (k := k); [rewrite sls_length; fold r; lia|exact Hk|].
  destruct (axis_link k) as [(i' & Hi' & Hk' & Hn & _)|(_ & _ & Hno)].
  - assert (i' = i) by (apply nax_inj; auto). subst i'. rewrite Hn. apply axis_info_negstart. exact Hneg.
  - exfalso. exact (Hno i Hi eq_refl).
Qed.

Hypothesis Hnn : forall i, (i < n)%nat -> 0 <= nth i st 0.

(* the ONNX result is never empty once check_slices passed with non-negative starts *)
Lemma core_nonempty k : (k < r)%nat -> 1 <= snd (spec_axis s st en sp axn k).
Proof.
  intros Hk. destruct (axis_link k) as [(i & Hi & Hki & _ & ->)|(_ & -> & _)].
  - destruct (Hchk i Hi) as (_ & Hp & Hlt). rewrite Hki in Hlt.
    rewrite onnx_axis_checked by (auto; lia). cbn [snd]. apply ceil_ge1; lia.
  - cbn [snd]. apply dimz_pos. exact Hk.
Qed.

(* known class 3 and 1 excluded, index by index *)
Hypothesis Hc3 : forall i, (i < n)%nat -> nax r (nth i ax 0%Z) = 0%nat ->
  nth i sp 1 = 1 \/ (Z.min (nth i en 0) (dimz 0) - nth i st 0) mod nth i sp 1 = 0.
Hypothesis Hc1 : forall i, (i < n)%nat ->
  snd (onnx_slice_axis (dimz (nax r (nth i ax 0%Z))) (nth i st 0) (nth i en 0) (nth i sp 1)) <> 1.

Lemma axis_facts k : (k < r)%nat ->
  exists a, axis_info k (dimz k) (nth k sls None) = Some a /\
    tri a = spec_axis s st en sp axn k /\ axgood a /\
    (a_sliced a = true -> 2 <= a_end a - a_start a) /\
    (a_sliced a = false -> a_end a - a_start a = dimz k) /\
    (nth k sls None <> None -> a_sliced a = true).
Proof.
  intros Hk. destruct (axis_link k) as [(i & Hi & Hki & -> & ->)|(-> & -> & _)].
  - destruct (Hchk i Hi) as (_ & Hp & Hlt). rewrite Hki in Hlt.
    pose proof (Hnn i Hi) as Hs. pose proof (Hc1 i Hi) as H1. rewrite Hki in H1.
    rewrite onnx_axis_checked in * by (auto; lia). cbn [snd] in H1.
    rewrite axis_info_checked; [| lia | exact Hlt | exact Hp |].
    + eexists. split; [reflexivity|]. unfold tri, axgood. cbn.
      split; [reflexivity|]. split; [repeat split; try lia; intros _; exact H1|].
      split; [intros _; apply (ceil_eq1 _ (nth i sp 1)); [lia|lia|exact H1]|].
      split; [discriminate|reflexivity].
    + intros E. rewrite E in *. apply (Hc3 i Hi Hki).
  - rewrite axis_info_unsliced. eexists. split; [reflexivity|]. unfold tri, axgood. cbn.
    pose proof (dimz_pos k Hk).
    split; [reflexivity|]. split; [repeat split; try lia; discriminate|].
    split; [discriminate|]. split; [intros _; lia|]. intros H0. congruence.
Qed.

(* no sliced axis at all: some extent >= 2, or rank 0 (otherwise the scalar rule fires) *)
Hypothesis Hunit : n = 0%nat -> s = [] \/ exists k, (k < r)%nat /\ 2 <= dimz k.

Theorem core_value :
  let pa := map (spec_axis s st en sp axn) (seq 0 r) in
  let s' := map (fun p => Z.to_nat (snd p)) pa in
  g_slice s data sls =
    SOk s' (map (fun m => nth (flat s (src_of pa (unflat s' m))) data 0) (seq 0 (numel s'))).
Proof.
  intros pa s'.
  pose proof (infos_spec s 0 sls) as Hsp.
  destruct (infos 0 s sls) as [inf|] eqn:Einf.
  2:{ exfalso. destruct Hsp as (k & Hk & E). cbn [plus] in E.
      destruct (axis_facts k Hk) as (a & Ea & _). fold (dimz k) in E. congruence. }
  destruct Hsp as [Hlen Hn]. cbn [plus] in Hn. fold r in Hlen, Hn.
  assert (Hfacts : forall k, (k < r)%nat ->
            tri (nth k inf dai) = spec_axis s st en sp axn k /\ axgood (nth k inf dai) /\
            (a_sliced (nth k inf dai) = true -> 2 <= a_end (nth k inf dai) - a_start (nth k inf dai)) /\
            (a_sliced (nth k inf dai) = false -> a_end (nth k inf dai) - a_start (nth k inf dai) = dimz k) /\
            (nth k sls None <> None -> a_sliced (nth k inf dai) = true)).
  { intros k Hk. destruct (axis_facts k Hk) as (a & Ea & Hrest).
    specialize (Hn k Hk). fold (dimz k) in Hn. rewrite Ea in Hn. inversion Hn; subst a. exact Hrest. }
  assert (Hpa : pa = map tri inf).
  { apply nth_ext with (d := (0, 1, 0)) (d' := tri dai).
    - unfold pa. now rewrite !map_length, seq_length.
    - unfold pa. rewrite map_length, seq_length. intros k Hk.
      rewrite (nth_map_lt _ _ _ 0%nat) by now rewrite seq_length.
      rewrite seq_nth by exact Hk. cbn [plus].
      rewrite (nth_map_lt _ _ _ dai) by lia. symmetry. apply Hfacts. exact Hk. }
  assert (Hs' : s' = exts inf).
  { unfold s', exts. rewrite Hpa, map_map. reflexivity. }
  rewrite (g_slice_value s data sls inf).
  - rewrite Hs', Hpa. f_equal. apply map_ext. intros m. now rewrite src_of_tri.
  - rewrite sls_length. fold r. lia.
  - exact Einf.
  - exact Hpos.
  - apply Forall_nth. intros k d Hk. rewrite nth_indep with (d' := dai) by exact Hk.
    apply Hfacts. lia.
  - destruct (Nat.eq_dec n 0) as [En|En].
    + destruct (Hunit En) as [->|(k & Hk & H2)]; [left; reflexivity|right].
      apply Exists_nth. exists k, dai. split; [lia|].
      destruct (Hfacts k Hk) as (_ & _ & _ & Hu & _).
      destruct (axis_link k) as [(i & Hi & _)|(Hnone & _)]; [lia|].
      destruct (a_sliced (nth k inf dai)) eqn:Es; [|rewrite Hu by reflexivity; exact H2].
      destruct (Hfacts k Hk) as (_ & _ & H & _). apply H. exact Es.
    + right. assert (H0 : (0 < n)%nat) by lia.
      set (k := nax r (nth 0 ax 0%Z)).
      assert (Hk : (k < r)%nat) by (apply nax_lt; apply (Hchk 0%nat H0)).
      apply Exists_nth. exists k, dai. split; [lia|].
      destruct (Hfacts k Hk) as (_ & _ & H2 & _ & Hsl). apply H2, Hsl.
      destruct (axis_link k) as [(i & _ & _ & -> & _)|(_ & _ & Hno)]; [discriminate|].
      exfalso. exact (Hno 0%nat H0 eq_refl).
Qed.
End SliceCore.

(* ---------- stage 6: slice_model / slice_spec in terms of the pieces above ---------- *)
Definition slice_axes (starts : tval) (axes : option tval) : list Z :=
  match axes with Some a => ints_of a | None => map Z.of_nat (seq 0 (length (ints_of starts))) end.
Definition slice_steps (starts : tval) (steps : option tval) : list Z :=
  match steps with Some s => ints_of s | None => repeat 1 (length (ints_of starts)) end.

Lemma slice_model_eq t starts ends axes steps :
  slice_model t starts ends axes steps =
    let st := ints_of starts in let en := ints_of ends in
    let ax := slice_axes starts axes in let sp := slice_steps starts steps in
    if negb (check_slices t st en ax sp) then MErr else
    match g_slice (sh t) (pl t) (build_sl (length (sh t)) st en ax sp (repeat None (length (sh t)))) with
    | SOk s d => MOk {| dt := dt t; sh := s; pl := d |}
    | SErr => MErr
    | SPanic => MPanic
    | SChaos => MPanic
    end.
Proof. reflexivity. Qed.

Lemma slice_spec_eq t starts ends axes steps :
  slice_spec t starts ends axes steps =
    let st := ints_of starts in let en := ints_of ends in
    let ax := slice_axes starts axes in let sp := slice_steps starts steps in
    let r := rank t in
    if negb (Nat.eqb (length st) (length en) && Nat.eqb (length st) (length ax) && Nat.eqb (length st) (length sp)) then SInvalid
    else if negb (forallb (fun a => (- r <=? a) && (a <? r)) ax) || existsb (Z.eqb 0) sp then SInvalid
    else
      let axn := map (fun a => Z.to_nat (if a <? 0 then a + r else a)) ax in
      if (length (nodup Nat.eq_dec axn) <? length axn)%nat then SInvalid
      else
        let pa := map (spec_axis (sh t) st en sp axn) (seq 0 (length (sh t))) in
        let s' := map (fun p => Z.to_nat (snd p)) pa in
        if existsb (Nat.eqb 0) s' then SEmpty
        else SValue {| dt := dt t; sh := s';
                       pl := map (fun m => nth (flat (sh t) (src_of pa (unflat s' m))) (pl t) 0) (seq 0 (numel s')) |}.
Proof. reflexivity. Qed.

Lemma axn_eq r ax :
  map (fun a => Z.to_nat (if a <? 0 then a + Z.of_nat r else a)) ax = map (nax r) ax.
Proof. apply map_ext. intros a. unfold nax. now rewrite (Z.add_comm a). Qed.

(* --- the two further input classes on which model and spec disagree --- *)
(* an axis named twice (ONNX: "behavior is undefined if an axis is repeated"): the spec of
   CheckC08 demands a refusal, constructSlices lets the later entry overwrite the earlier *)
Definition slice_dup_axes (t starts : tval) (axes : option tval) : bool :=
  let axn := map (fun a => Z.to_nat (if a <? 0 then a + rank t else a)) (slice_axes starts axes) in
  (length (nodup Nat.eq_dec axn) <? length axn)%nat.
(* nothing sliced (starts is empty) on a tensor of rank >= 1 whose extents are all 1: gorgonia's
   ndEnd - ndStart = 1 rule turns the result into a scalar, ONNX keeps the shape *)
Definition slice_unit_noop (t starts : tval) : bool :=
  (length (ints_of starts) =? 0)%nat && negb (length (sh t) =? 0)%nat && forallb (Nat.eqb 1) (sh t).

(* CheckC08.known_class, on the operands *)
Definition slice_known (t s e : tval) (a p : option tval) : option Z :=
  match slice_spec t s e a p with
  | SValue v =>
      let sl := sliced_axes t s e a p in
      if existsb (fun q => let '(s0, e0, k, p0) := q in
                           Nat.eqb k 0 && (1 <? p0) && negb ((Z.min e0 (Z.of_nat (nthz (sh t) k)) - s0) mod p0 =? 0)) sl then Some 3
      else if existsb (fun q => let '(s0, e0, k, p0) := q in
                           let '(_, _, ext) := onnx_slice_axis (Z.of_nat (nthz (sh t) k)) s0 e0 p0 in ext =? 1) sl then Some 1
      else None
  | _ => None
  end.

(* --- boolean checks to indexed facts --- *)
Definition quads (st en ax sp : list Z) := combine (combine (combine st en) ax) sp.

Lemma quads_length st en ax sp :
  length en = length st -> length ax = length st -> length sp = length st ->
  length (quads st en ax sp) = length st.
Proof. intros H1 H2 H3. unfold quads. rewrite !combine_length. lia. Qed.

Lemma quads_nth st en ax sp i :
  length en = length st -> length ax = length st -> length sp = length st ->
  nth i (quads st en ax sp) (0, 0, 0, 1) = (nth i st 0, nth i en 0, nth i ax 0, nth i sp 1).
Proof.
  intros H1 H2 H3. unfold quads.
  rewrite combine_nth by (rewrite !combine_length; lia).
  rewrite combine_nth by (rewrite !combine_length; lia).
  rewrite combine_nth by lia. reflexivity.
Qed.

Lemma forallb_nth {X} (f : X -> bool) l i d : forallb f l = true -> (i < length l)%nat -> f (nth i l d) = true.
Proof. intros H Hi. apply (proj1 (forallb_forall f l) H). apply nth_In. exact Hi. Qed.

Lemma existsb_map_false_nth {X Y} (f : Y -> bool) (g : X -> Y) l i d :
  existsb f (map g l) = false -> (i < length l)%nat -> f (g (nth i l d)) = false.
Proof.
  intros H Hi. destruct (f (g (nth i l d))) eqn:E; [|reflexivity].
  rewrite <- H. symmetry. apply existsb_exists. exists (g (nth i l d)). split; [|exact E].
  apply in_map. apply nth_In. exact Hi.
Qed.

Lemma forallb_false_ex' {X} (p : X -> bool) l : forallb p l = false -> exists x, In x l /\ p x = false.
Proof.
  induction l as [|x l IH]; cbn [forallb]; intros H; [discriminate|].
  apply andb_false_iff in H as [H|H].
  - exists x. split; [left; reflexivity|exact H].
  - destruct (IH H) as (y & Hy & Hp). exists y. split; [right; exact Hy|exact Hp].
Qed.

Definition idx_checked (s : list nat) (st en ax sp : list Z) : Prop :=
  forall i, (i < length st)%nat ->
    - Z.of_nat (length s) <= nth i ax 0 < Z.of_nat (length s) /\ 0 < nth i sp 1 /\
    nth i st 0 < Z.min (nth i en 0) (Z.of_nat (nth (nax (length s) (nth i ax 0)) s 0%nat)).

Lemma check_slices_facts t st en ax sp : check_slices t st en ax sp = true ->
  length en = length st /\ length ax = length st /\ length sp = length st /\
  idx_checked (sh t) st en ax sp.
Proof.
  unfold check_slices. intros H.
  apply andb_true_iff in H as [H H4]. apply andb_true_iff in H as [H H3]. apply andb_true_iff in H as [H1 H2].
  apply Nat.eqb_eq in H1, H2, H3. repeat split; try assumption.
  - fold (quads st en ax sp) in H4.
    pose proof (forallb_nth _ _ i (0, 0, 0, 1) H4 ltac:(rewrite quads_length; assumption)) as Hq.
    rewrite quads_nth in Hq by assumption. cbv beta iota in Hq.
    apply andb_true_iff in Hq as [Hq _]. apply andb_true_iff in Hq as [Hq _]. apply andb_true_iff in Hq as [Hq _].
    apply Z.leb_le in Hq. exact Hq.
  - fold (quads st en ax sp) in H4.
    pose proof (forallb_nth _ _ i (0, 0, 0, 1) H4 ltac:(rewrite quads_length; assumption)) as Hq.
    rewrite quads_nth in Hq by assumption. cbv beta iota in Hq.
    apply andb_true_iff in Hq as [Hq _]. apply andb_true_iff in Hq as [Hq _]. apply andb_true_iff in Hq as [_ Hq].
    apply Z.ltb_lt in Hq. exact Hq.
  - fold (quads st en ax sp) in H4.
    pose proof (forallb_nth _ _ i (0, 0, 0, 1) H4 ltac:(rewrite quads_length; assumption)) as Hq.
    rewrite quads_nth in Hq by assumption. cbv beta iota in Hq.
    apply andb_true_iff in Hq as [Hq _]. apply andb_true_iff in Hq as [_ Hq].
    apply Z.ltb_lt in Hq. exact Hq.
  - fold (quads st en ax sp) in H4.
    pose proof (forallb_nth _ _ i (0, 0, 0, 1) H4 ltac:(rewrite quads_length; assumption)) as Hq.
    rewrite quads_nth in Hq by assumption. cbv beta iota in Hq.
    apply andb_true_iff in Hq as [_ Hq]. apply Z.ltb_lt in Hq. exact Hq.
Qed.

(* check_slices implies the spec's validity tests on lengths, axes and steps *)
Lemma checked_spec_tests (s : list nat) st en ax sp :
  length en = length st -> length ax = length st -> length sp = length st ->
  idx_checked s st en ax sp ->
  Nat.eqb (length st) (length en) && Nat.eqb (length st) (length ax) && Nat.eqb (length st) (length sp) = true /\
  forallb (fun a => (- Z.of_nat (length s) <=? a) && (a <? Z.of_nat (length s))) ax = true /\
  existsb (Z.eqb 0) sp = false.
Proof.
  intros H1 H2 H3 Hc. split; [|split].
  - rewrite H1, H2, H3, !Nat.eqb_refl. reflexivity.
  - apply forallb_forall. intros a Ha. destruct (In_nth _ _ 0 Ha) as (i & Hi & <-).
    destruct (Hc i ltac:(lia)) as ((Ha1 & Ha2) & _).
    apply andb_true_iff. split; [apply Z.leb_le|apply Z.ltb_lt]; assumption.
  - destruct (existsb (Z.eqb 0) sp) eqn:E; [|reflexivity]. exfalso.
    apply existsb_exists in E as (p & Hp & Hp0). apply Z.eqb_eq in Hp0. subst p.
    destruct (In_nth _ _ 1 Hp) as (i & Hi & Hn).
    destruct (Hc i ltac:(lia)) as (_ & Hpos & _). lia.
Qed.

Lemma positive_Forall s : positive s -> Forall (fun d => (1 <= d)%nat) s.
Proof.
  intros H. apply Forall_nth. intros i d Hi. rewrite nth_indep with (d' := 0%nat) by exact Hi.
  apply H. exact Hi.
Qed.

Lemma unit_noop_false (t starts : tval) : positive (sh t) -> slice_unit_noop t starts = false ->
  length (ints_of starts) = 0%nat ->
  sh t = [] \/ exists k, (k < length (sh t))%nat /\ 2 <= Z.of_nat (nth k (sh t) 0%nat).
Proof.
  intros Hpos H Hn. unfold slice_unit_noop in H. rewrite Hn in H. change (0 =? 0)%nat with true in H. cbn [andb] in H.
  destruct (sh t) as [|d s] eqn:Es; [left; reflexivity|right].
  change (length (d :: s) =? 0)%nat with false in H. cbn [negb andb] in H.
  destruct (forallb_false_ex' _ _ H) as (x & Hx & Hx1).
  destruct (In_nth _ _ 0%nat Hx) as (k & Hk & Hnk).
  exists k. split; [exact Hk|]. rewrite Hnk.
  pose proof (Hpos k Hk) as Hp. rewrite Hnk in Hp. apply Nat.eqb_neq in Hx1. lia.
Qed.

(* ---------- the Slice theorem ---------- *)
Theorem slice_refines t starts ends axes steps :
  positive (sh t) ->
  slice_known t starts ends axes steps = None ->
  slice_dup_axes t starts axes = false ->
  slice_unit_noop t starts = false ->
  refines (of_sspec (slice_spec t starts ends axes steps)) (wrap (slice_model t starts ends axes steps)).
Proof.
  intros Hpos Hknown Hdup Hunit. unfold wrap.
  rewrite slice_model_eq. cbv zeta.
  set (st := ints_of starts) in *. set (en := ints_of ends). set (ax := slice_axes starts axes).
  set (sp := slice_steps starts steps).
  destruct (check_slices t st en ax sp) eqn:Hc; cbn [negb].
  2:{ destruct (slice_spec t starts ends axes steps); cbn; [right| |]; reflexivity. }
  destruct (check_slices_facts _ _ _ _ _ Hc) as (H1 & H2 & H3 & Hidx).
  destruct (checked_spec_tests (sh t) st en ax sp H1 H2 H3 Hidx) as (T1 & T2 & T3).
  assert (Hnd : NoDup (map (nax (length (sh t))) ax)).
  { unfold slice_dup_axes in Hdup. fold ax in Hdup. unfold rank in Hdup. rewrite axn_eq in Hdup.
    apply Nat.ltb_ge in Hdup. apply nodup_length_NoDup. exact Hdup. }
  pose proof (positive_Forall _ Hpos) as HposF.
  (* the spec, reduced to its last test *)
  assert (Hspec : slice_spec t starts ends axes steps =
            let pa := map (spec_axis (sh t) st en sp (map (nax (length (sh t))) ax)) (seq 0 (length (sh t))) in
            let s' := map (fun p => Z.to_nat (snd p)) pa in
            if existsb (Nat.eqb 0) s' then SEmpty
            else SValue {| dt := dt t; sh := s';
                           pl := map (fun m => nth (flat (sh t) (src_of pa (unflat s' m))) (pl t) 0) (seq 0 (numel s')) |}).
  { rewrite slice_spec_eq. cbv zeta. fold st en ax sp. unfold rank. rewrite T1, T2, T3. cbn [negb orb].
    unfold slice_dup_axes in Hdup. fold ax in Hdup. unfold rank in Hdup. rewrite Hdup.
    rewrite axn_eq. reflexivity. }
  cbv zeta in Hspec.
  destruct (forallb (fun x => 0 <=? x) st) eqn:Hst.
  - (* all starts non-negative: the ONNX value *)
    assert (Hnn : forall i, (i < length st)%nat -> 0 <= nth i st 0).
    { intros i Hi. apply Z.leb_le. apply (forallb_nth (fun x => 0 <=? x) st i 0 Hst Hi). }
    assert (Hne : existsb (Nat.eqb 0)
              (map (fun p => Z.to_nat (snd p))
                 (map (spec_axis (sh t) st en sp (map (nax (length (sh t))) ax)) (seq 0 (length (sh t))))) = false).
    { match goal with |- ?e = false => destruct e eqn:E end; [|reflexivity]. exfalso.
      apply existsb_exists in E as (x & Hx & Hx0). apply Nat.eqb_eq in Hx0. subst x.
      apply in_map_iff in Hx as (p & Hp0 & Hp). apply in_map_iff in Hp as (k & <- & Hk).
      apply in_seq in Hk.
      pose proof (core_nonempty (sh t) st en ax sp HposF H1 H2 H3 Hidx Hnd Hnn k ltac:(lia)). lia. }
    rewrite Hne in Hspec.
    (* the known classes, index by index *)
    unfold slice_known in Hknown. rewrite Hspec in Hknown.
    destruct (existsb _ (sliced_axes t starts ends axes steps)) eqn:K3 in Hknown; [discriminate|].
    destruct (existsb _ (sliced_axes t starts ends axes steps)) eqn:K1 in Hknown; [discriminate|].
    clear Hknown.
    change (sliced_axes t starts ends axes steps) with
      (map (fun q : Z * Z * Z * Z => let '(((s0, e0), a), p0) := q in
              (s0, e0, Z.to_nat (if a <? 0 then rank t + a else a), p0)) (quads st en ax sp)) in K3, K1.
    assert (Hc3 : forall i, (i < length st)%nat -> nax (length (sh t)) (nth i ax 0) = 0%nat ->
              nth i sp 1 = 1 \/
              (Z.min (nth i en 0) (Z.of_nat (nth 0 (sh t) 0%nat)) - nth i st 0) mod nth i sp 1 = 0).
    { intros i Hi Hk0.
      pose proof (existsb_map_false_nth _ _ _ i (0, 0, 0, 1) K3 ltac:(rewrite quads_length; assumption)) as Hq.
      rewrite quads_nth in Hq by assumption. cbv beta iota in Hq.
      change (Z.to_nat (if nth i ax 0 <? 0 then rank t + nth i ax 0 else nth i ax 0))
        with (nax (length (sh t)) (nth i ax 0)) in Hq.
      rewrite Hk0 in Hq. cbn [Nat.eqb andb] in Hq. unfold nthz in Hq.
      destruct (Hidx i Hi) as (_ & Hp & _).
      destruct (Z.ltb_spec 1 (nth i sp 1)) as [Hgt|Hle]; [|left; lia].
      cbn [andb] in Hq. apply negb_false_iff in Hq. apply Z.eqb_eq in Hq. right. exact Hq. }
    assert (Hc1 : forall i, (i < length st)%nat ->
              snd (onnx_slice_axis (Z.of_nat (nth (nax (length (sh t)) (nth i ax 0)) (sh t) 0%nat))
                     (nth i st 0) (nth i en 0) (nth i sp 1)) <> 1).
    { intros i Hi.
      pose proof (existsb_map_false_nth _ _ _ i (0, 0, 0, 1) K1 ltac:(rewrite quads_length; assumption)) as Hq.
      rewrite quads_nth in Hq by assumption. cbv beta iota in Hq.
      change (Z.to_nat (if nth i ax 0 <? 0 then rank t + nth i ax 0 else nth i ax 0))
        with (nax (length (sh t)) (nth i ax 0)) in Hq.
      unfold nthz in Hq.
      destruct (onnx_slice_axis _ _ _ _) as [[a b] c]. cbn [snd]. apply Z.eqb_neq. exact Hq. }
    rewrite (core_value (sh t) (pl t) st en ax sp HposF H1 H2 H3 Hidx Hnd Hnn Hc3 Hc1
               (unit_noop_false t starts Hpos Hunit)).
    rewrite Hspec. left. reflexivity.
  - (* a negative start: refused *)
    destruct (forallb_false_ex' _ _ Hst) as (x & Hx & Hx0). apply Z.leb_gt in Hx0.
    destruct (In_nth _ _ 0 Hx) as (i & Hi & Hn).
    rewrite (core_negstart (sh t) (pl t) st en ax sp H1 H2 H3 Hidx Hnd).
    + rewrite Hspec. match goal with |- context [if ?e then SEmpty else _] => destruct e end; cbn; [|right]; reflexivity.
    + exists i. split; [exact Hi|lia].
Qed.

(* ==================================================================================== *)
(* The case-level statement                                                              *)
(* ==================================================================================== *)
Definition c08_excluded (c : opcase) : bool :=
  match oc_op c, oc_ins c with
  | "Slice"%string, (Some t :: Some s :: Some e :: rest) =>
      slice_dup_axes t s (nth 0 rest None) || slice_unit_noop t s
  | _, _ => false
  end.

Theorem c08_model_refines_spec (c : opcase) :
  (forall t, nth 0 (oc_ins c) None = Some t -> wf (tz t) /\ positive (sh t)) ->
  known_class c = None ->
  c08_excluded c = false ->
  refines (spec c) (model c).
Proof.
  destruct c as [op attrs ins obs after].
  unfold spec, model, model1, known_class, c08_excluded. cbn [oc_op oc_ins].
  intros Hdom Hk Hex.
  repeat match goal with
         | |- refines (match ?x with _ => _ end) _ =>
             is_var x; destruct x; cbv beta iota; try exact I
         end.
  all: cbv beta iota in Hk, Hex.
  - exact (gather_refines _ _ _).
  - apply orb_false_iff in Hex as [Hd Hu].
    exact (slice_refines _ _ _ None None (proj2 (Hdom _ eq_refl)) Hk Hd Hu).
  - apply orb_false_iff in Hex as [Hd Hu].
    exact (slice_refines _ _ _ _ None (proj2 (Hdom _ eq_refl)) Hk Hd Hu).
  - apply orb_false_iff in Hex as [Hd Hu].
    exact (slice_refines _ _ _ _ _ (proj2 (Hdom _ eq_refl)) Hk Hd Hu).
  - destruct (all_some ins) as [l|]; [|exact I]. exact (concat_refines _ (Some l)).
  - exact (expand_refines _ _ (proj1 (Hdom _ eq_refl)) (proj2 (Hdom _ eq_refl))).
  - exact (transpose_refines _ _ _).
Qed.

(* ==================================================================================== *)
(* Consequences and the refuted statements                                               *)
(* ==================================================================================== *)
(* Slice never yields a value, and never panics, where ONNX has no value: the result would be
   empty, or the request is invalid (unequal operand lengths, axis out of range, step 0) *)
Corollary slice_no_value_is_error t starts ends axes steps :
  positive (sh t) -> slice_dup_axes t starts axes = false -> slice_unit_noop t starts = false ->
  (forall v, slice_spec t starts ends axes steps <> SValue v) ->
  slice_model t starts ends axes steps = MErr.
Proof.
  intros Hpos Hd Hu Hnv.
  assert (Hk : slice_known t starts ends axes steps = None).
  { unfold slice_known. destruct (slice_spec t starts ends axes steps) as [v| |]; [|reflexivity|reflexivity].
    exfalso. exact (Hnv v eq_refl). }
  pose proof (slice_refines t starts ends axes steps Hpos Hk Hd Hu) as H. unfold wrap in H.
  destruct (slice_model t starts ends axes steps) as [x| |]; [|reflexivity|]; exfalso;
    (destruct (slice_spec t starts ends axes steps) as [v| |]; [exact (Hnv v eq_refl)| |]); cbn in H; discriminate.
Qed.

(* Slice outside the known classes: the ONNX tensor, or an error *)
Corollary slice_value t starts ends axes steps v :
  positive (sh t) -> slice_known t starts ends axes steps = None ->
  slice_unit_noop t starts = false ->
  slice_spec t starts ends axes steps = SValue v ->
  slice_model t starts ends axes steps = MOk v \/ slice_model t starts ends axes steps = MErr.
Proof.
  intros Hpos Hk Hu Hv.
  assert (Hd : slice_dup_axes t starts axes = false).
  { rewrite slice_spec_eq in Hv. cbv zeta in Hv. unfold slice_dup_axes. cbv zeta.
    repeat match type of Hv with (if ?c then SInvalid else _) = _ => destruct c eqn:?; [discriminate|] end.
    first [assumption|reflexivity]. }
  pose proof (slice_refines t starts ends axes steps Hpos Hk Hd Hu) as H. rewrite Hv in H.
  unfold wrap in H.
  destruct (slice_model t starts ends axes steps) as [x| |]; cbn in H; destruct H as [H|H]; try discriminate.
  - left. congruence.
  - right. reflexivity.
Qed.

(* `starts` a well-formed tensor of positive extents: the unit no-op class is empty *)
Lemma unit_noop_vacuous t starts :
  wf (tz starts) -> positive (sh starts) -> slice_unit_noop t starts = false.
Proof.
  intros W P. unfold slice_unit_noop, ints_of. unfold wf in W. cbn [tz tdata tshape] in W.
  pose proof (numel_ge1 _ (positive_Forall _ P)) as H.
  replace (length (pl starts) =? 0)%nat with false by (symmetry; apply Nat.eqb_neq; lia). reflexivity.
Qed.

(* --- refuted statements: what the carve-outs and the known classes exclude is real --- *)
Definition T32 (s : list nat) (p : list Z) : tval := {| dt := Float32; sh := s; pl := p |}.
Definition I64 (p : list Z) : tval := {| dt := Int64; sh := [length p]; pl := p |}.

(* an axis named twice (also as 0 and -1): ONNX-invalid for the spec of CheckC08, the model
   returns a tensor; not in a known class *)
Example slice_dup_axes_refuted :
  let t := T32 [4%nat] [10; 11; 12; 13] in
  slice_spec t (I64 [0; 1]) (I64 [2; 3]) (Some (I64 [0; -1])) None = SInvalid /\
  slice_model t (I64 [0; 1]) (I64 [2; 3]) (Some (I64 [0; -1])) None = MOk (T32 [2%nat] [11; 12]) /\
  slice_known t (I64 [0; 1]) (I64 [2; 3]) (Some (I64 [0; -1])) None = None /\
  slice_dup_axes t (I64 [0; 1]) (Some (I64 [0; -1])) = true.
Proof. vm_compute. repeat split. Qed.

(* nothing sliced, all extents 1, rank >= 1: the scalar rule drops the whole shape *)
Example slice_unit_noop_refuted :
  let t := T32 [1; 1]%nat [10] in
  slice_spec t (I64 []) (I64 []) None None = SValue (T32 [1; 1]%nat [10]) /\
  slice_model t (I64 []) (I64 []) None None = MOk (T32 [] [10]) /\
  slice_known t (I64 []) (I64 []) None None = None /\
  slice_dup_axes t (I64 []) None = false /\ slice_unit_noop t (I64 []) = true.
Proof. vm_compute. repeat split. Qed.

(* the two known classes *)
Example slice_class1_refuted :
  let t := T32 [2; 3]%nat [1; 2; 3; 4; 5; 6] in
  slice_spec t (I64 [1]) (I64 [2]) (Some (I64 [1])) None = SValue (T32 [2; 1]%nat [2; 5]) /\
  slice_model t (I64 [1]) (I64 [2]) (Some (I64 [1])) None = MOk (T32 [2]%nat [2; 5]) /\
  slice_known t (I64 [1]) (I64 [2]) (Some (I64 [1])) None = Some 1.
Proof. vm_compute. repeat split. Qed.

Example slice_class3_refuted :
  let t := T32 [5]%nat [1; 2; 3; 4; 5] in
  slice_spec t (I64 [0]) (I64 [5]) (Some (I64 [0])) (Some (I64 [2])) = SValue (T32 [3]%nat [1; 3; 5]) /\
  slice_model t (I64 [0]) (I64 [5]) (Some (I64 [0])) (Some (I64 [2])) = MOk (T32 [2]%nat [1; 3]) /\
  slice_known t (I64 [0]) (I64 [5]) (Some (I64 [0])) (Some (I64 [2])) = Some 3.
Proof. vm_compute. repeat split. Qed.

(* non-vacuity: a strided, two-axis slice with a negative axis, inside the theorem *)
Example slice_nonvacuous :
  let t := T32 [3; 4]%nat [1; 2; 3; 4; 5; 6; 7; 8; 9; 10; 11; 12] in
  slice_known t (I64 [0; 1]) (I64 [3; 100]) (Some (I64 [0; -1])) (Some (I64 [1; 2])) = None /\
  slice_dup_axes t (I64 [0; 1]) (Some (I64 [0; -1])) = false /\
  slice_unit_noop t (I64 [0; 1]) = false /\
  slice_model t (I64 [0; 1]) (I64 [3; 100]) (Some (I64 [0; -1])) (Some (I64 [1; 2]))
    = MOk (T32 [3; 2]%nat [2; 4; 6; 8; 10; 12]) /\
  slice_spec t (I64 [0; 1]) (I64 [3; 100]) (Some (I64 [0; -1])) (Some (I64 [1; 2]))
    = SValue (T32 [3; 2]%nat [2; 4; 6; 8; 10; 12]).
Proof. vm_compute. repeat split. Qed.

(* why positive extents are assumed: an unsliced axis of extent 0 gives an empty ONNX result,
   which the model returns as a tensor instead of refusing *)
Example slice_zero_extent_refuted :
  let t := T32 [0; 4]%nat [] in
  slice_spec t (I64 [0]) (I64 [2]) (Some (I64 [1])) None = SEmpty /\
  slice_model t (I64 [0]) (I64 [2]) (Some (I64 [1])) None = MOk (T32 [0; 2]%nat []).
Proof. vm_compute. repeat split. Qed.

Print Assumptions transpose_refines.
Print Assumptions concat_refines.
Print Assumptions expand_exact.
Print Assumptions expand_refines.
Print Assumptions gather_refines.
Print Assumptions offsets_enum.
Print Assumptions g_slice_value.
Print Assumptions slice_refines.
Print Assumptions slice_no_value_is_error.
Print Assumptions slice_value.
Print Assumptions c08_model_refines_spec.
