(* The Conv loop nests compute the ONNX direct convolution, for every batch/channel/kernel count,
   every (non-square) extent, pads and strides >= 1, over any scalar type (same tap order: no
   algebraic law is used). *)
From Coq Require Import List Arith Lia PeanoNat Bool.
From V Require Import Tensor ListUtil Writes ConvLoop.
Import ListNotations.

Lemma idx2 (i : list nat) a b : valid [a; b] i -> i = [nth 0 i 0; nth 1 i 0] /\ nth 0 i 0 < a /\ nth 1 i 0 < b.
Proof.
  unfold valid. intros V. inversion V as [|? ? ? ? L0 V1]; subst. inversion V1 as [|? ? ? ? L1 V2]; subst.
  inversion V2; subst. cbn. auto.
Qed.
Lemma idx3 (i : list nat) a b c : valid [a; b; c] i ->
  i = [nth 0 i 0; nth 1 i 0; nth 2 i 0] /\ nth 0 i 0 < a /\ nth 1 i 0 < b /\ nth 2 i 0 < c.
Proof.
  unfold valid. intros V. inversion V as [|? ? ? ? L0 V1]; subst. inversion V1 as [|? ? ? ? L1 V2]; subst.
  inversion V2 as [|? ? ? ? L2 V3]; subst. inversion V3; subst. cbn. auto.
Qed.
Lemma idx4 (i : list nat) a b c e : valid [a; b; c; e] i ->
  i = [nth 0 i 0; nth 1 i 0; nth 2 i 0; nth 3 i 0] /\ nth 0 i 0 < a /\ nth 1 i 0 < b /\ nth 2 i 0 < c /\ nth 3 i 0 < e.
Proof.
  unfold valid. intros V. inversion V as [|? ? ? ? L0 V1]; subst. inversion V1 as [|? ? ? ? L1 V2]; subst.
  inversion V2 as [|? ? ? ? L2 V3]; subst. inversion V3 as [|? ? ? ? L3 V4]; subst. inversion V4; subst. cbn. auto 6.
Qed.
Lemma valid3 a b c x0 x1 x2 : x0 < a -> x1 < b -> x2 < c -> valid [a; b; c] [x0; x1; x2].
Proof. intros. unfold valid. repeat constructor; auto. Qed.
Lemma valid4 a b c e x0 x1 x2 x3 : x0 < a -> x1 < b -> x2 < c -> x3 < e -> valid [a; b; c; e] [x0; x1; x2; x3].
Proof. intros. unfold valid. repeat constructor; auto. Qed.

(* trip count of `for h := 0; h < Hp; h += s` reaches every output index; the window stays inside *)
Lemma out_le_trips Hp K s : 1 <= s -> 1 <= K <= Hp -> (Hp - K) / s + 1 <= (Hp + s - 1) / s.
Proof.
  intros S Kf.
  assert ((Hp - K) / s * s <= Hp - K) by (rewrite Nat.mul_comm; apply Nat.mul_div_le; lia).
  pose proof (Nat.div_mod (Hp + s - 1) s ltac:(lia)) as D.
  pose proof (Nat.mod_upper_bound (Hp + s - 1) s ltac:(lia)) as U.
  nia.
Qed.
Lemma window_inside Hp K s o a : 1 <= s -> 1 <= K <= Hp -> o < (Hp - K) / s + 1 -> a < K -> o * s + a < Hp.
Proof.
  intros S Kf Lo La.
  assert ((Hp - K) / s * s <= Hp - K) by (rewrite Nat.mul_comm; apply Nat.mul_div_le; lia).
  nia.
Qed.

Section C.
Context {A : Type} (zero : A) (add mul : A -> A -> A).

Theorem conv1d_loop_spec N C H M KW p0 p1 s (x k : tensor A) :
  1 <= s -> 1 <= KW <= p0 + H + p1 ->
  conv1d_loop zero add mul N C H M KW p0 p1 s x k = conv1d_spec zero add mul N C H M KW p0 p1 s x k.
Proof.
  intros s_pos k_fits.
  set (Hp := p0 + H + p1). set (OH := (Hp - KW) / s + 1). set (J := (Hp + s - 1) / s).
  assert (LJ : OH <= J) by (apply out_le_trips; assumption).
  apply (tensor_ext zero).
  - apply apply_writes_wf, wf_tabulate.
  - apply wf_tabulate.
  - unfold conv1d_loop. now rewrite apply_writes_shape.
  - unfold conv1d_loop. rewrite apply_writes_shape. cbn [tshape tabulate]. fold Hp OH. intros i V.
    destruct (idx3 _ _ _ _ V) as (Ei & L0 & L1 & L2).
    set (b := nth 0 i 0) in *. set (m := nth 1 i 0) in *. set (o := nth 2 i 0) in *.
    set (pd := padded1 zero N C H p0 p1 x).
    set (ws := writes1 zero add mul N C H M KW p0 p1 s k pd).
    assert (Wr : In (i, window1 zero add mul C KW k pd b m (o * s)) ws).
    { unfold ws, writes1. apply in_map_iff. exists i. split; [cbn beta; fold b m o; now rewrite <- Ei|].
      apply filter_In. split; [apply in_all_indices; rewrite Ei; apply valid3; fold Hp J; lia|].
      fold Hp OH. now apply Nat.ltb_lt. }
    pose proof (get_apply_writes zero (tabulate [N; M; OH] (fun _ => zero)) ws i) as G.
    destruct G as [Gin _].
    + apply wf_tabulate.
    + unfold ws, writes1. apply Forall_forall. intros w Iw. apply in_map_iff in Iw as (j & <- & Ij).
      apply filter_In in Ij as [Ij Gd]. apply in_all_indices in Ij. destruct (idx3 _ _ _ _ Ij) as (_ & ? & ? & ?).
      apply Nat.ltb_lt in Gd. cbn [fst tshape tabulate]. apply valid3; auto.
    + unfold ws, writes1. rewrite map_map. cbn [fst]. apply NoDup_map_inj.
      * intros a c Ia Ic E. apply filter_In in Ia as [Ia _], Ic as [Ic _]. apply in_all_indices in Ia, Ic.
        destruct (idx3 _ _ _ _ Ia) as (-> & _), (idx3 _ _ _ _ Ic) as (-> & _). exact E.
      * apply NoDup_filter, NoDup_all_indices.
    + exact V.
    + rewrite (Gin _ Wr). unfold conv1d_spec. fold Hp OH. rewrite get_tabulate by exact V. fold b m o.
      unfold window1. f_equal. apply map_ext_in. intros ca Ica. apply in_all_indices in Ica.
      destruct (idx2 _ _ _ Ica) as (_ & Lc & La). f_equal.
      unfold pd, padded1. fold Hp. rewrite get_tabulate; [reflexivity|].
      apply valid3; try lia. apply window_inside with (K := KW); auto.
Qed.

Theorem conv2d_loop_spec N C H W M KH KW p0 p1 p2 p3 s0 s1 (x k : tensor A) :
  1 <= s0 -> 1 <= s1 -> 1 <= KH <= p0 + H + p2 -> 1 <= KW <= p1 + W + p3 ->
  conv2d_loop zero add mul N C H W M KH KW p0 p1 p2 p3 s0 s1 x k
  = conv2d_spec zero add mul N C H W M KH KW p0 p1 p2 p3 s0 s1 x k.
Proof.
  intros s0_pos s1_pos kh_fits kw_fits.
  set (Hp := p0 + H + p2). set (Wp := p1 + W + p3).
  set (OH := (Hp - KH) / s0 + 1). set (OW := (Wp - KW) / s1 + 1).
  set (JH := (Hp + s0 - 1) / s0). set (JW := (Wp + s1 - 1) / s1).
  assert (LJH : OH <= JH) by (apply out_le_trips; assumption).
  assert (LJW : OW <= JW) by (apply out_le_trips; assumption).
  apply (tensor_ext zero).
  - apply apply_writes_wf, wf_tabulate.
  - apply wf_tabulate.
  - unfold conv2d_loop. now rewrite apply_writes_shape.
  - unfold conv2d_loop. rewrite apply_writes_shape. cbn [tshape tabulate]. fold Hp Wp OH OW. intros i V.
    destruct (idx4 _ _ _ _ _ V) as (Ei & L0 & L1 & L2 & L3).
    set (b := nth 0 i 0) in *. set (m := nth 1 i 0) in *. set (oh := nth 2 i 0) in *. set (ow := nth 3 i 0) in *.
    set (pd := padded2 zero N C H W p0 p1 p2 p3 x).
    set (ws := writes2 zero add mul N C H W M KH KW p0 p1 p2 p3 s0 s1 k pd).
    assert (Wr : In (i, window2 zero add mul C KH KW k pd b m (oh * s0) (ow * s1)) ws).
    { unfold ws, writes2. apply in_map_iff. exists i. split; [cbn beta; fold b m oh ow; now rewrite <- Ei|].
      apply filter_In. split; [apply in_all_indices; rewrite Ei; apply valid4; fold Hp Wp JH JW; lia|].
      fold Hp Wp OH OW. apply andb_true_iff; split; now apply Nat.ltb_lt. }
    pose proof (get_apply_writes zero (tabulate [N; M; OH; OW] (fun _ => zero)) ws i) as G.
    destruct G as [Gin _].
    + apply wf_tabulate.
    + unfold ws, writes2. apply Forall_forall. intros w Iw. apply in_map_iff in Iw as (j & <- & Ij).
      apply filter_In in Ij as [Ij Gd]. apply in_all_indices in Ij. destruct (idx4 _ _ _ _ _ Ij) as (_ & ? & ? & ? & ?).
      apply andb_true_iff in Gd as [G1 G2]. apply Nat.ltb_lt in G1, G2. cbn [fst tshape tabulate]. apply valid4; auto.
    + unfold ws, writes2. rewrite map_map. cbn [fst]. apply NoDup_map_inj.
      * intros a c Ia Ic E. apply filter_In in Ia as [Ia _], Ic as [Ic _]. apply in_all_indices in Ia, Ic.
        destruct (idx4 _ _ _ _ _ Ia) as (-> & _), (idx4 _ _ _ _ _ Ic) as (-> & _). exact E.
      * apply NoDup_filter, NoDup_all_indices.
    + exact V.
    + rewrite (Gin _ Wr). unfold conv2d_spec. fold Hp Wp OH OW. rewrite get_tabulate by exact V. fold b m oh ow.
      unfold window2. f_equal. apply map_ext_in. intros t It. apply in_all_indices in It.
      destruct (idx3 _ _ _ _ It) as (_ & Lc & La & Lb). f_equal.
      unfold pd, padded2. fold Hp Wp. rewrite get_tabulate; [reflexivity|].
      apply valid4; try lia.
      * apply window_inside with (K := KH); auto.
      * apply window_inside with (K := KW); auto.
Qed.

(* the variant of the width loop that was in the repository (bounded by the padded HEIGHT) does not
   reach the last output columns of an image wider than high: the proof above needs OW <= trips *)
End C.
