(* End-to-end refinement for Conv: whenever the model of conv.go (Model/Conv.v: conv_model) returns a
   tensor, it is exactly the tensor of the independent ONNX specification conv_spec
   (conv_with over onnx_pads, every output visited):

     conv_model_refines_spec_min : conv_wf_min cf x k -> c_auto cf <> Valid ->
                                   conv_model cf x k bias = MOk t -> t = conv_spec cf x k bias
     conv_model_refines_spec     : the same under the full list conv_wf cf x k bias.

   Route: conv_model = add_bias (conv?d_spec over the DILATED kernel, nat pads/strides)   [ConvProofs]
          conv_with  = the same tensor                                                    [this file]
   through (1) extents: nat (Hp - K)/s + 1 = Z.to_nat ((H - kext + p + q)/s + 1) (oext_nat, kext_nat);
   (2) tap sums: the sum over the dilated index set is the sum over the original taps re-indexed by
   a |-> a * dilation, the other positions holding 0 (sumz_reindex, taps_1d, taps_2d), with the
   nat-indexed padded input read at Z positions (xpad1_Z, xpad2_Z) and x*y = y*x;
   (3) bias: add_bias adds nth m (pl bt) 0 to every cell, as conv_with does (add_bias_tabulate).

   Stages of the work plan: A (1-D, no dilation, no bias), B (+ bias), C (+ dilation) are all
   conv_model_refines_spec_1d; D (2-D, no dilation), E (+ dilation) are conv_model_refines_spec_2d:
   the re-indexing lemma treats dilation 1 and dilation d alike, bias is one lemma for both ranks.

   Hypotheses actually used (conv_wf_min); all but the channel condition are shown necessary by the
   Examples at the end, where model and spec differ once the hypothesis is dropped:
     rank of k = rank of x;
     channel count of k = channel count of x (used so that kernel reads are in range; probed instances
     with mismatched channel counts still agreed, so this one is sufficient, not shown necessary);
     kernel spatial extents >= 1 (kext in Z and the dilated extent in nat agree);
     strides >= 1, dilations >= 1 (on the spatial axes);
     fit: kext <= dim + pads on every axis (else nat subtraction Hp - K truncates: the code yields
     extent 1 where ONNX yields an empty axis). Under SAME_* the fit is automatic (fit_same).
   Not needed: payload lengths, positivity of the extents of x, attribute list lengths, non-negative
   explicit pads (a negative pad makes the model panic, so MOk excludes it), the bias shape (both
   sides read nth m (pl bt) 0). c_auto <> Valid is needed: the code computes VALID as SAME_UPPER
   (known finding). No input satisfying the hypotheses on which model and spec disagree exists
   (that is the theorem); an exhaustive vm_compute sweep beforehand found none either. *)
From Coq Require Import List ZArith Bool Lia String Arith PeanoNat.
From V Require Import DType Tensor ListUtil Case Writes ConvLoop ConvLoopProofs Conv ConvProofs.
Import ListNotations.
Open Scope Z_scope.
Ltac Zify.zify_post_hook ::= Z.div_mod_to_equations.

(* ---------- sums over Z: fold_left Z.add, zero terms, re-indexing along an injection ---------- *)
Lemma fold_add_acc l a : fold_left Z.add l a = a + sumz l.
Proof.
  unfold sumz. revert a. induction l as [|x l IH]; intros a; cbn [fold_left]; [lia|].
  rewrite IH, (IH (0 + x)). lia.
Qed.
Lemma sumz_cons x l : sumz (x :: l) = x + sumz l.
Proof. unfold sumz at 1. cbn [fold_left]. rewrite fold_add_acc. lia. Qed.
Lemma sumz_app a b : sumz (a ++ b) = sumz a + sumz b.
Proof. unfold sumz at 1. rewrite fold_left_app, fold_add_acc. reflexivity. Qed.
Lemma sumz_zero {X} (f : X -> Z) l : (forall x, In x l -> f x = 0) -> sumz (map f l) = 0.
Proof.
  induction l as [|x l IH]; intros Hz; [reflexivity|]. cbn [map]. rewrite sumz_cons, IH by (intros; apply Hz; cbn; auto). rewrite Hz by (cbn; auto). reflexivity.
Qed.

(* sum of f2 over l2 = sum of f1 over l1 when h embeds l1 into l2, f2 o h = f1 and f2 vanishes off the image *)
Lemma sumz_reindex {X Y} (h : X -> Y) (f1 : X -> Z) (f2 : Y -> Z) (l1 : list X) : forall (l2 : list Y),
  NoDup l1 -> NoDup l2 ->
  (forall x, In x l1 -> In (h x) l2) ->
  (forall a b, In a l1 -> In b l1 -> h a = h b -> a = b) ->
  (forall x, In x l1 -> f2 (h x) = f1 x) ->
  (forall y, In y l2 -> (forall x, In x l1 -> h x <> y) -> f2 y = 0) ->
  sumz (map f2 l2) = sumz (map f1 l1).
Proof.
  induction l1 as [|x l1 IH]; intros l2 N1 N2 Hin Inj Hf Hz.
  - cbn [map]. apply sumz_zero. intros y Iy. apply Hz; auto.
  - destruct (in_split (h x) l2 (Hin x (or_introl eq_refl))) as (a & b & ->).
    apply NoDup_remove in N2 as [N2 Nx]. inversion N1 as [|? ? Nx1 N1']; subst.
    rewrite map_app, sumz_app. cbn [map]. rewrite !sumz_cons. rewrite Hf by (left; auto).
    rewrite <- (IH (a ++ b)).
    + rewrite map_app, sumz_app. lia.
    + assumption.
    + assumption.
    + intros x' I'. specialize (Hin x' (or_intror I')). apply in_app_or in Hin. apply in_or_app.
      destruct Hin as [|[E|]]; auto. exfalso. assert (x = x') by (apply Inj; cbn; auto). subst. contradiction.
    + intros; apply Inj; cbn; auto.
    + intros; apply Hf; cbn; auto.
    + intros y Iy Hn. apply Hz.
      * apply in_or_app; apply in_app_or in Iy; destruct Iy; cbn; auto.
      * intros x' [<-|I']; [intro E; subst; contradiction|auto].
Qed.

(* ---------- nat / Z arithmetic of extents ---------- *)
Lemma kext_nat (KW : nat) (d : Z) : (1 <= KW)%nat -> 1 <= d ->
  Z.of_nat (KW + (KW - 1) * (Z.to_nat d - 1)) = Z.of_nat KW + (Z.of_nat KW - 1) * (d - 1).
Proof.
  intros K D. rewrite Nat2Z.inj_add, Nat2Z.inj_mul, !Nat2Z.inj_sub by lia. rewrite Z2Nat.id by lia. reflexivity.
Qed.

Lemma oext_nat (H K : nat) (p q s : Z) : 0 <= p -> 0 <= q -> 1 <= s -> Z.of_nat K <= Z.of_nat H + p + q ->
  Z.to_nat ((Z.of_nat H - Z.of_nat K + p + q) / s + 1) = ((Z.to_nat p + H + Z.to_nat q - K) / Z.to_nat s + 1)%nat.
Proof.
  intros P Q S F. apply Nat2Z.inj. rewrite Nat2Z.inj_add, Nat2Z.inj_div, Nat2Z.inj_sub by lia.
  rewrite !Nat2Z.inj_add, !Z2Nat.id; try lia.
  - replace (Z.of_nat H - Z.of_nat K + p + q) with (p + Z.of_nat H + q - Z.of_nat K) by lia. reflexivity.
  - assert (0 <= (Z.of_nat H - Z.of_nat K + p + q) / s) by (apply Z.div_pos; lia). lia.
Qed.

(* ---------- the nat-indexed padded input of the loop nest, read at a Z position ---------- *)
Lemma xpad1_Z (H : nat) (xt : tensor Z) b c (p pos : Z) : 0 <= p -> 0 <= pos ->
  xpad1 0 H (Z.to_nat p) xt b c (Z.to_nat pos) =
  if (p <=? pos) && (pos <? p + Z.of_nat H) then get 0 xt [b; c; Z.to_nat (pos - p)] else 0.
Proof.
  intros P Q. unfold xpad1. rewrite Z2Nat.inj_sub by lia.
  replace ((Z.to_nat p <=? Z.to_nat pos)%nat && (Z.to_nat pos <? Z.to_nat p + H)%nat)
    with ((p <=? pos) && (pos <? p + Z.of_nat H)); [reflexivity|].
  apply eq_iff_eq_true. rewrite !andb_true_iff, Nat.leb_le, Nat.ltb_lt, Z.leb_le, Z.ltb_lt. lia.
Qed.

Lemma dil_extent_pos (KW d : nat) a : (1 <= d)%nat -> (a < KW)%nat -> (a * d < KW + (KW - 1) * (d - 1))%nat.
Proof. intros D A. nia. Qed.
Lemma dil_extent_div (KW d : nat) a : (1 <= d)%nat -> (1 <= KW)%nat -> (a < KW + (KW - 1) * (d - 1))%nat -> (a / d < KW)%nat.
Proof. intros D K A. apply Nat.div_lt_upper_bound; [lia|]. nia. Qed.

(* ---------- 1-D: the tap sum over the dilated kernel = the ONNX tap sum over the original taps ---------- *)
Lemma taps_1d (xt kt : tensor Z) (M C KW H : nat) (p s d : Z) (b m o : nat) :
  tshape kt = [M; C; KW] -> 0 <= p -> 1 <= s -> 1 <= d -> (1 <= KW)%nat -> (m < M)%nat ->
  sum 0 Z.add
    (map (fun ca => Z.mul (xpad1 0 H (Z.to_nat p) xt b (nth 0 ca 0%nat) (o * Z.to_nat s + nth 1 ca 0%nat))
                          (get 0 (dilate kt [Z.to_nat d]) [m; nth 0 ca 0%nat; nth 1 ca 0%nat]))
         (all_indices [C; (KW + (KW - 1) * (Z.to_nat d - 1))%nat]))
  = sumz (map (fun t => get 0 kt [m; nth 0 t 0%nat; nth 1 t 0%nat] *
                        (let pos := Z.of_nat o * s + Z.of_nat (nth 1 t 0%nat) * d in
                         if (p <=? pos) && (pos <? p + Z.of_nat H)
                         then get 0 xt [b; nth 0 t 0%nat; Z.to_nat (pos - p)] else 0))
              (all_indices [C; KW])).
Proof.
  intros Sk P S D K Lm. change (sum 0 Z.add) with sumz.
  set (dn := Z.to_nat d). assert (Dn : (1 <= dn)%nat) by (unfold dn; lia).
  assert (Ts : tshape (dilate kt [dn]) = [M; C; (KW + (KW - 1) * (dn - 1))%nat]).
  { unfold dilate. rewrite Sk. reflexivity. }
  apply sumz_reindex with (h := fun t => [nth 0 t 0; nth 1 t 0 * dn]%nat).
  - apply NoDup_all_indices.
  - apply NoDup_all_indices.
  - intros t It. apply in_all_indices in It. apply in_all_indices. destruct (idx2 _ _ _ It) as (_ & Lc & La).
    unfold valid. repeat constructor; [exact Lc|]. now apply dil_extent_pos.
  - intros t u It Iu E. apply in_all_indices in It, Iu.
    destruct (idx2 _ _ _ It) as (Et & _), (idx2 _ _ _ Iu) as (Eu & _). rewrite Et, Eu.
    inversion E as [[E0 E1]]. apply Nat.mul_cancel_r in E1; [congruence|lia].
  - intros t It. apply in_all_indices in It. destruct (idx2 _ _ _ It) as (_ & Lc & La).
    cbn [nth]. set (c := nth 0 t 0%nat) in *. set (a := nth 1 t 0%nat) in *.
    rewrite get_dilate by (rewrite Ts; apply valid3; auto; now apply dil_extent_pos).
    cbn [skipn firstn combine forallb fst snd map app].
    rewrite Nat.mod_mul, Nat.div_mul by lia. cbn [Nat.eqb andb].
    replace (o * Z.to_nat s + a * dn)%nat with (Z.to_nat (Z.of_nat o * s + Z.of_nat a * d)) by (unfold dn; nia).
    rewrite xpad1_Z by nia. apply Z.mul_comm.
  - intros y Iy Hn. apply in_all_indices in Iy. destruct (idx2 _ _ _ Iy) as (Ey & Lc & La).
    set (c := nth 0 y 0%nat) in *. set (a := nth 1 y 0%nat) in *.
    rewrite get_dilate by (rewrite Ts; apply valid3; auto).
    cbn [skipn firstn combine forallb fst snd map app].
    destruct (a mod dn =? 0)%nat eqn:Em; [|cbn [andb]; apply Z.mul_0_r].
    exfalso. apply Nat.eqb_eq in Em. apply (Hn [c; (a / dn)%nat]).
    + apply in_all_indices. unfold valid. repeat constructor; [exact Lc|]. now apply dil_extent_div.
    + cbn [nth]. rewrite Ey. f_equal. f_equal. pose proof (Nat.div_mod a dn ltac:(lia)). lia.
Qed.

(* ---------- conv_with, field by field (definitional) ---------- *)
Definition pack (x : tval) (r : tensor Z) : tval := {| dt := dt x; sh := tshape r; pl := tdata r |}.

Definition cw_oext cf (x k : tval) (pads : nat -> Z * Z) (i : nat) : Z :=
  (zn (sh x) (2 + i) - kext cf k i + fst (pads i) + snd (pads i)) / str cf i + 1.
Definition cw_shape cf (x k : tval) (pads : nat -> Z * Z) : list nat :=
  [nth 0 (sh x) 0%nat; nth 0 (sh k) 0%nat] ++ map (fun i => Z.to_nat (cw_oext cf x k pads i)) (seq 0 (nsp x)).
Definition cw_xpad (x : tval) (pads : nat -> Z * Z) (b c : nat) (pos : list Z) : Z :=
  if forallb (fun p => (fst (pads (fst p)) <=? snd p) && (snd p <? fst (pads (fst p)) + zn (sh x) (2 + fst p)))
             (combine (seq 0 (nsp x)) pos)
  then get 0 (tzc x) (b :: c :: map (fun p => Z.to_nat (snd p - fst (pads (fst p)))) (combine (seq 0 (nsp x)) pos)) else 0.
Definition cw_taps cf (x k : tval) (pads : nat -> Z * Z) (o : list nat) : Z :=
  sumz (map (fun t => get 0 (tzc k) (nth 1 o 0%nat :: nth 0 t 0%nat :: skipn 1 t) *
                      cw_xpad x pads (nth 0 o 0%nat) (nth 0 t 0%nat)
                        (map (fun p => Z.of_nat (snd (fst p)) * str cf (fst (fst p)) + Z.of_nat (snd p) * dil cf (fst (fst p)))
                             (combine (combine (seq 0 (nsp x)) (skipn 2 o)) (skipn 1 t))))
            (all_idx (nth 1 (sh x) 0%nat :: skipn 2 (sh k)))).
Definition cw_bias (bias : option tval) (o : list nat) : Z :=
  match bias with Some bt => nth (nth 1 o 0%nat) (pl bt) 0 | None => 0 end.

Lemma conv_with_eq cf x k bias pads :
  conv_with cf x k bias pads (fun _ _ => true) =
  {| dt := dt x; sh := cw_shape cf x k pads;
     pl := map (fun f => (if forallb (fun _ => true) (combine (seq 0 (nsp x)) (skipn 2 (unflat (cw_shape cf x k pads) f)))
                          then cw_taps cf x k pads (unflat (cw_shape cf x k pads) f) else 0)
                         + cw_bias bias (unflat (cw_shape cf x k pads) f))
               (seq 0 (numel (cw_shape cf x k pads))) |}.
Proof. reflexivity. Qed.

Lemma forallb_const_true {X} (l : list X) : forallb (fun _ => true) l = true.
Proof. induction l; cbn; auto. Qed.

Lemma tval_ext (a b : tval) : dt a = dt b -> sh a = sh b -> pl a = pl b -> a = b.
Proof. destruct a, b; cbn; intros; subst; reflexivity. Qed.

Lemma add_bias_tabulate s f bias :
  tdata (add_bias (tabulate s f) bias) = map (fun n => f (unflat s n) + cw_bias bias (unflat s n)) (seq 0 (numel s)).
Proof.
  destruct bias as [bt|]; cbn [add_bias cw_bias tshape tdata tabulate].
  - apply map_ext_in. intros n In. apply in_seq in In. fold (tabulate s f).
    rewrite get_tabulate by (apply valid_unflat; lia). reflexivity.
  - apply map_ext. intros n. now rewrite Z.add_0_r.
Qed.

(* a model result and a conv_with result coincide when shapes agree and every cell does *)
Lemma conv_with_pack cf x k bias pads s f :
  cw_shape cf x k pads = s ->
  (forall o, valid s o -> cw_taps cf x k pads o = f o) ->
  conv_with cf x k bias pads (fun _ _ => true) = pack x (add_bias (tabulate s f) bias).
Proof.
  intros Es Ec. rewrite conv_with_eq. apply tval_ext; cbn [dt sh pl pack].
  - reflexivity.
  - now rewrite add_bias_shape.
  - rewrite add_bias_tabulate, Es. apply map_ext_in. intros n In. apply in_seq in In.
    rewrite forallb_const_true, Ec by (apply valid_unflat; lia). reflexivity.
Qed.

Section OneD.
Variables (cf : cfg) (x k : tval) (pads : nat -> Z * Z) (N C H M KW : nat).
Hypotheses (Sx : sh x = [N; C; H]) (Sk : sh k = [M; C; KW]).
Hypotheses (P : 0 <= fst (pads 0%nat)) (Q : 0 <= snd (pads 0%nat)) (S : 1 <= str cf 0) (D : 1 <= dil cf 0) (K : (1 <= KW)%nat).
Hypothesis (F : kext cf k 0 <= Z.of_nat H + fst (pads 0%nat) + snd (pads 0%nat)).
Let KWd := (KW + (KW - 1) * (Z.to_nat (dil cf 0) - 1))%nat.

Local Lemma Hn1 : nsp x = 1%nat.
Proof. unfold nsp. now rewrite Sx. Qed.
Local Lemma Ke1 : kext cf k 0 = Z.of_nat KWd.
Proof. unfold kext, zn. rewrite Sk. cbn [nth Nat.add]. unfold KWd. now rewrite kext_nat. Qed.

Lemma cw_shape_1d :
  cw_shape cf x k pads =
  [N; M; ((Z.to_nat (fst (pads 0%nat)) + H + Z.to_nat (snd (pads 0%nat)) - KWd) / Z.to_nat (str cf 0) + 1)%nat].
Proof.
  unfold cw_shape. rewrite Hn1, Sx, Sk. cbn [seq map nth app]. unfold cw_oext. rewrite Ke1. unfold zn. rewrite Sx.
  cbn [nth Nat.add]. rewrite oext_nat; [reflexivity|pose proof Ke1; lia..].
Qed.

Lemma cw_taps_1d b m o :
  cw_taps cf x k pads [b; m; o] =
  sumz (map (fun t => get 0 (tzc k) [m; nth 0 t 0%nat; nth 1 t 0%nat] *
                      (let pos := Z.of_nat o * str cf 0 + Z.of_nat (nth 1 t 0%nat) * dil cf 0 in
                       if (fst (pads 0%nat) <=? pos) && (pos <? fst (pads 0%nat) + Z.of_nat H)
                       then get 0 (tzc x) [b; nth 0 t 0%nat; Z.to_nat (pos - fst (pads 0%nat))] else 0))
            (all_indices [C; KW])).
Proof.
  unfold cw_taps. rewrite Hn1, Sx, Sk.
  change (all_idx (nth 1 [N; C; H] 0%nat :: skipn 2 [M; C; KW])) with (all_indices [C; KW]).
  f_equal. apply map_ext_in. intros t It. apply in_all_indices in It. destruct (idx2 _ _ _ It) as (Et & _ & _).
  revert Et. generalize (nth 0 t 0%nat) (nth 1 t 0%nat). intros c a ->.
  cbn [nth skipn seq combine map fst snd]. unfold cw_xpad. rewrite Hn1. cbn [seq combine forallb map fst snd].
  unfold zn. rewrite Sx. cbn [nth Nat.add]. rewrite andb_true_r. reflexivity.
Qed.

Lemma conv_with_1d bias :
  conv_with cf x k bias pads (fun _ _ => true) =
  pack x (add_bias (conv1d_spec 0 Z.add Z.mul N C H M KWd (Z.to_nat (fst (pads 0%nat))) (Z.to_nat (snd (pads 0%nat)))
                      (Z.to_nat (str cf 0)) (tzc x) (dilate (tzc k) [Z.to_nat (dil cf 0)])) bias).
Proof.
  unfold conv1d_spec. apply conv_with_pack.
  - apply cw_shape_1d.
  - intros o V. destruct (idx3 _ _ _ _ V) as (Eo & Lb & Lm & Lo). revert Eo Lb Lm Lo.
    generalize (nth 0 o 0%nat) (nth 1 o 0%nat) (nth 2 o 0%nat). intros b m oh -> Lb Lm Lo.
    cbn [nth]. rewrite cw_taps_1d. symmetry. apply taps_1d with (M := M); auto.
Qed.
End OneD.

(* ---------- well-formedness and the model side ---------- *)
Record conv_wf_min (cf : cfg) (x k : tval) : Prop := {
  wfm_rank : List.length (sh k) = List.length (sh x);
  wfm_chan : nth 1 (sh k) 0%nat = nth 1 (sh x) 0%nat;
  wfm_kpos : forall i, (i < nsp x)%nat -> (1 <= nth (2 + i) (sh k) 0)%nat;
  wfm_str : forall i, (i < nsp x)%nat -> 1 <= str cf i;
  wfm_dil : forall i, (i < nsp x)%nat -> 1 <= dil cf i;
  wfm_fit : forall i, (i < nsp x)%nat ->
            kext cf k i <= zn (sh x) (2 + i) + fst (onnx_pads cf x k i) + snd (onnx_pads cf x k i) }.

Lemma conv_model_ok_pads cf x k b t i :
  conv_model cf x k b = MOk t -> (i < nsp x)%nat -> 0 <= fst (code_pads cf x k i) /\ 0 <= snd (code_pads cf x k i).
Proof.
  unfold conv_model. destruct (negb _); [discriminate|]. destruct (existsb _ _) eqn:E; [discriminate|]. intros _ Li.
  split; apply Z.nlt_ge; intro Hlt; rewrite <- not_true_iff_false in E; apply E; apply existsb_exists; exists i;
    (split; [apply in_seq; lia|]); apply orb_true_iff; [left|right]; now apply Z.ltb_lt.
Qed.

Theorem conv_model_refines_spec_1d cf x k bias t :
  nsp x = 1%nat -> conv_wf_min cf x k -> c_auto cf <> Valid -> conv_model cf x k bias = MOk t -> t = conv_spec cf x k bias.
Proof.
  intros N1 [Wr Wc Wk Ws Wd Wf] NV HM. rewrite N1 in *.
  specialize (Wk 0%nat ltac:(lia)). specialize (Ws 0%nat ltac:(lia)). specialize (Wd 0%nat ltac:(lia)). specialize (Wf 0%nat ltac:(lia)).
  destruct (conv_model_ok_pads _ _ _ _ _ 0%nat HM ltac:(lia)) as [P Q].
  unfold nsp in N1. destruct (sh x) as [|N [|C [|H [|? ?]]]] eqn:Sx; cbn [List.length] in N1, Wr; try lia.
  destruct (sh k) as [|M [|C' [|KW [|? ?]]]] eqn:Sk; cbn [List.length] in Wr; try lia.
  cbn [nth Nat.add] in Wc, Wk. subst C'. unfold zn in Wf. cbn [nth Nat.add] in Wf.
  rewrite <- code_pads_onnx in Wf by assumption.
  assert (Ke : kext cf k 0 = Z.of_nat (KW + (KW - 1) * (Z.to_nat (dil cf 0) - 1))).
  { unfold kext, zn. rewrite Sk. cbn [nth Nat.add]. now rewrite kext_nat. }
  assert (Ts : tshape (dilate (tzc k) [Z.to_nat (dil cf 0)]) = [M; C; (KW + (KW - 1) * (Z.to_nat (dil cf 0) - 1))%nat]).
  { unfold dilate. cbn [tshape tzc]. rewrite Sk. reflexivity. }
  pose proof (conv_model_1d cf x k bias t) as HT. cbv zeta in HT. rewrite Ts, Sx, Sk in HT. cbn [nth] in HT.
  rewrite HT; [|unfold nsp; rewrite Sx; reflexivity|assumption|assumption|lia].
  unfold conv_spec. rewrite (conv_with_1d cf x k (onnx_pads cf x k) N C H M KW); try assumption;
    rewrite <- ?code_pads_onnx by assumption; try assumption.
  reflexivity.
Qed.

(* ---------- 2-D ---------- *)
Lemma xpad2_Z (H W : nat) (xt : tensor Z) b c (p0 p1 h w : Z) : 0 <= p0 -> 0 <= p1 -> 0 <= h -> 0 <= w ->
  xpad2 0 H W (Z.to_nat p0) (Z.to_nat p1) xt b c (Z.to_nat h) (Z.to_nat w) =
  if ((p0 <=? h) && (h <? p0 + Z.of_nat H)) && ((p1 <=? w) && (w <? p1 + Z.of_nat W))
  then get 0 xt [b; c; Z.to_nat (h - p0); Z.to_nat (w - p1)] else 0.
Proof.
  intros P0 P1 Qh Qw. unfold xpad2. rewrite !Z2Nat.inj_sub by lia.
  replace ((Z.to_nat p0 <=? Z.to_nat h)%nat && (Z.to_nat h <? Z.to_nat p0 + H)%nat &&
           (Z.to_nat p1 <=? Z.to_nat w)%nat && (Z.to_nat w <? Z.to_nat p1 + W)%nat)
    with (((p0 <=? h) && (h <? p0 + Z.of_nat H)) && ((p1 <=? w) && (w <? p1 + Z.of_nat W))); [reflexivity|].
  apply eq_iff_eq_true. rewrite !andb_true_iff, !Nat.leb_le, !Nat.ltb_lt, !Z.leb_le, !Z.ltb_lt. lia.
Qed.

Lemma taps_2d (xt kt : tensor Z) (M C KH KW H W : nat) (p0 p1 s0 s1 d0 d1 : Z) (b m oh ow : nat) :
  tshape kt = [M; C; KH; KW] -> 0 <= p0 -> 0 <= p1 -> 1 <= s0 -> 1 <= s1 -> 1 <= d0 -> 1 <= d1 ->
  (1 <= KH)%nat -> (1 <= KW)%nat -> (m < M)%nat ->
  sum 0 Z.add
    (map (fun t => Z.mul (xpad2 0 H W (Z.to_nat p0) (Z.to_nat p1) xt b (nth 0 t 0%nat)
                                (oh * Z.to_nat s0 + nth 1 t 0%nat) (ow * Z.to_nat s1 + nth 2 t 0%nat))
                         (get 0 (dilate kt [Z.to_nat d0; Z.to_nat d1]) [m; nth 0 t 0%nat; nth 1 t 0%nat; nth 2 t 0%nat]))
         (all_indices [C; (KH + (KH - 1) * (Z.to_nat d0 - 1))%nat; (KW + (KW - 1) * (Z.to_nat d1 - 1))%nat]))
  = sumz (map (fun t => get 0 kt [m; nth 0 t 0%nat; nth 1 t 0%nat; nth 2 t 0%nat] *
                        (let ph := Z.of_nat oh * s0 + Z.of_nat (nth 1 t 0%nat) * d0 in
                         let pw := Z.of_nat ow * s1 + Z.of_nat (nth 2 t 0%nat) * d1 in
                         if ((p0 <=? ph) && (ph <? p0 + Z.of_nat H)) && ((p1 <=? pw) && (pw <? p1 + Z.of_nat W))
                         then get 0 xt [b; nth 0 t 0%nat; Z.to_nat (ph - p0); Z.to_nat (pw - p1)] else 0))
              (all_indices [C; KH; KW])).
Proof.
  intros Sk P0 P1 S0 S1 D0 D1 K0 K1 Lm. change (sum 0 Z.add) with sumz.
  set (e0 := Z.to_nat d0). assert (E0 : (1 <= e0)%nat) by (unfold e0; lia).
  set (e1 := Z.to_nat d1). assert (E1 : (1 <= e1)%nat) by (unfold e1; lia).
  assert (Ts : tshape (dilate kt [e0; e1]) = [M; C; (KH + (KH - 1) * (e0 - 1))%nat; (KW + (KW - 1) * (e1 - 1))%nat]).
  { unfold dilate. rewrite Sk. reflexivity. }
  apply sumz_reindex with (h := fun t => [nth 0 t 0; nth 1 t 0 * e0; nth 2 t 0 * e1]%nat).
  - apply NoDup_all_indices.
  - apply NoDup_all_indices.
  - intros t It. apply in_all_indices in It. apply in_all_indices. destruct (idx3 _ _ _ _ It) as (_ & Lc & La & Lb).
    apply valid3; [exact Lc|now apply dil_extent_pos..].
  - intros t u It Iu E. apply in_all_indices in It, Iu.
    destruct (idx3 _ _ _ _ It) as (Et & _), (idx3 _ _ _ _ Iu) as (Eu & _). rewrite Et, Eu.
    inversion E as [[Ec Ea Eb]]. apply Nat.mul_cancel_r in Ea; [|lia]. apply Nat.mul_cancel_r in Eb; [|lia]. congruence.
  - intros t It. apply in_all_indices in It. destruct (idx3 _ _ _ _ It) as (_ & Lc & La & Lb).
    cbn [nth]. set (c := nth 0 t 0%nat) in *. set (a := nth 1 t 0%nat) in *. set (a' := nth 2 t 0%nat) in *.
    rewrite get_dilate by (rewrite Ts; apply valid4; auto; now apply dil_extent_pos).
    cbn [skipn firstn combine forallb fst snd map app].
    rewrite !Nat.mod_mul, !Nat.div_mul by lia. cbn [Nat.eqb andb].
    replace (oh * Z.to_nat s0 + a * e0)%nat with (Z.to_nat (Z.of_nat oh * s0 + Z.of_nat a * d0)) by (unfold e0; nia).
    replace (ow * Z.to_nat s1 + a' * e1)%nat with (Z.to_nat (Z.of_nat ow * s1 + Z.of_nat a' * d1)) by (unfold e1; nia).
    rewrite xpad2_Z by nia. apply Z.mul_comm.
  - intros y Iy Hn. apply in_all_indices in Iy. destruct (idx3 _ _ _ _ Iy) as (Ey & Lc & La & Lb).
    set (c := nth 0 y 0%nat) in *. set (a := nth 1 y 0%nat) in *. set (a' := nth 2 y 0%nat) in *.
    rewrite get_dilate by (rewrite Ts; apply valid4; auto).
    cbn [skipn firstn combine forallb fst snd map app].
    destruct (a mod e0 =? 0)%nat eqn:Em0; [|cbn [andb]; apply Z.mul_0_r].
    destruct (a' mod e1 =? 0)%nat eqn:Em1; [|cbn [andb]; apply Z.mul_0_r].
    exfalso. apply Nat.eqb_eq in Em0, Em1. apply (Hn [c; (a / e0)%nat; (a' / e1)%nat]).
    + apply in_all_indices. apply valid3; [exact Lc|now apply dil_extent_div..].
    + cbn [nth]. rewrite Ey. f_equal. f_equal; [|f_equal].
      * pose proof (Nat.div_mod a e0 ltac:(lia)). lia.
      * pose proof (Nat.div_mod a' e1 ltac:(lia)). lia.
Qed.

Section TwoD.
Variables (cf : cfg) (x k : tval) (pads : nat -> Z * Z) (N C H W M KH KW : nat).
Hypotheses (Sx : sh x = [N; C; H; W]) (Sk : sh k = [M; C; KH; KW]).
Hypotheses (P0 : 0 <= fst (pads 0%nat)) (Q0 : 0 <= snd (pads 0%nat)) (P1 : 0 <= fst (pads 1%nat)) (Q1 : 0 <= snd (pads 1%nat)).
Hypotheses (S0 : 1 <= str cf 0) (S1 : 1 <= str cf 1) (D0 : 1 <= dil cf 0) (D1 : 1 <= dil cf 1).
Hypotheses (K0 : (1 <= KH)%nat) (K1 : (1 <= KW)%nat).
Hypothesis (F0 : kext cf k 0 <= Z.of_nat H + fst (pads 0%nat) + snd (pads 0%nat)).
Hypothesis (F1 : kext cf k 1 <= Z.of_nat W + fst (pads 1%nat) + snd (pads 1%nat)).
Let KHd := (KH + (KH - 1) * (Z.to_nat (dil cf 0) - 1))%nat.
Let KWd := (KW + (KW - 1) * (Z.to_nat (dil cf 1) - 1))%nat.

Local Lemma Hn2 : nsp x = 2%nat.
Proof. unfold nsp. now rewrite Sx. Qed.
Local Lemma Ke20 : kext cf k 0 = Z.of_nat KHd.
Proof. unfold kext, zn. rewrite Sk. cbn [nth Nat.add]. unfold KHd. now rewrite kext_nat. Qed.
Local Lemma Ke21 : kext cf k 1 = Z.of_nat KWd.
Proof. unfold kext, zn. rewrite Sk. cbn [nth Nat.add]. unfold KWd. now rewrite kext_nat. Qed.

Lemma cw_shape_2d :
  cw_shape cf x k pads =
  [N; M; ((Z.to_nat (fst (pads 0%nat)) + H + Z.to_nat (snd (pads 0%nat)) - KHd) / Z.to_nat (str cf 0) + 1)%nat;
         ((Z.to_nat (fst (pads 1%nat)) + W + Z.to_nat (snd (pads 1%nat)) - KWd) / Z.to_nat (str cf 1) + 1)%nat].
Proof.
  unfold cw_shape. rewrite Hn2, Sx, Sk. cbn [seq map nth app]. unfold cw_oext. rewrite Ke20, Ke21. unfold zn. rewrite Sx.
  cbn [nth Nat.add]. pose proof Ke20. pose proof Ke21. rewrite !oext_nat; [reflexivity|lia..].
Qed.

Lemma cw_taps_2d b m oh ow :
  cw_taps cf x k pads [b; m; oh; ow] =
  sumz (map (fun t => get 0 (tzc k) [m; nth 0 t 0%nat; nth 1 t 0%nat; nth 2 t 0%nat] *
                      (let ph := Z.of_nat oh * str cf 0 + Z.of_nat (nth 1 t 0%nat) * dil cf 0 in
                       let pw := Z.of_nat ow * str cf 1 + Z.of_nat (nth 2 t 0%nat) * dil cf 1 in
                       if ((fst (pads 0%nat) <=? ph) && (ph <? fst (pads 0%nat) + Z.of_nat H)) &&
                          ((fst (pads 1%nat) <=? pw) && (pw <? fst (pads 1%nat) + Z.of_nat W))
                       then get 0 (tzc x) [b; nth 0 t 0%nat; Z.to_nat (ph - fst (pads 0%nat)); Z.to_nat (pw - fst (pads 1%nat))]
                       else 0))
            (all_indices [C; KH; KW])).
Proof.
  unfold cw_taps. rewrite Hn2, Sx, Sk.
  change (all_idx (nth 1 [N; C; H; W] 0%nat :: skipn 2 [M; C; KH; KW])) with (all_indices [C; KH; KW]).
  f_equal. apply map_ext_in. intros t It. apply in_all_indices in It. destruct (idx3 _ _ _ _ It) as (Et & _ & _ & _).
  revert Et. generalize (nth 0 t 0%nat) (nth 1 t 0%nat) (nth 2 t 0%nat). intros c a a' ->.
  cbn [nth skipn seq combine map fst snd]. unfold cw_xpad. rewrite Hn2. cbn [seq combine forallb map fst snd].
  unfold zn. rewrite Sx. cbn [nth Nat.add]. rewrite andb_true_r. reflexivity.
Qed.

Lemma conv_with_2d bias :
  conv_with cf x k bias pads (fun _ _ => true) =
  pack x (add_bias (conv2d_spec 0 Z.add Z.mul N C H W M KHd KWd
                      (Z.to_nat (fst (pads 0%nat))) (Z.to_nat (fst (pads 1%nat)))
                      (Z.to_nat (snd (pads 0%nat))) (Z.to_nat (snd (pads 1%nat)))
                      (Z.to_nat (str cf 0)) (Z.to_nat (str cf 1)) (tzc x)
                      (dilate (tzc k) [Z.to_nat (dil cf 0); Z.to_nat (dil cf 1)])) bias).
Proof.
  unfold conv2d_spec. apply conv_with_pack.
  - apply cw_shape_2d.
  - intros o V. destruct (idx4 _ _ _ _ _ V) as (Eo & Lb & Lm & Lh & Lw). revert Eo Lb Lm Lh Lw.
    generalize (nth 0 o 0%nat) (nth 1 o 0%nat) (nth 2 o 0%nat) (nth 3 o 0%nat). intros b m oh ow -> Lb Lm Lh Lw.
    cbn [nth]. rewrite cw_taps_2d. symmetry. apply taps_2d with (M := M); auto.
Qed.
End TwoD.

Theorem conv_model_refines_spec_2d cf x k bias t :
  nsp x = 2%nat -> conv_wf_min cf x k -> c_auto cf <> Valid -> conv_model cf x k bias = MOk t -> t = conv_spec cf x k bias.
Proof.
  intros N2 [Wr Wc Wk Ws Wd Wf] NV HM. rewrite N2 in *.
  pose proof (Wk 0%nat ltac:(lia)) as K0. pose proof (Wk 1%nat ltac:(lia)) as K1.
  pose proof (Ws 0%nat ltac:(lia)) as S0. pose proof (Ws 1%nat ltac:(lia)) as S1.
  pose proof (Wd 0%nat ltac:(lia)) as D0. pose proof (Wd 1%nat ltac:(lia)) as D1.
  pose proof (Wf 0%nat ltac:(lia)) as F0. pose proof (Wf 1%nat ltac:(lia)) as F1. clear Wk Ws Wd Wf.
  destruct (conv_model_ok_pads _ _ _ _ _ 0%nat HM ltac:(lia)) as [P0 Q0].
  destruct (conv_model_ok_pads _ _ _ _ _ 1%nat HM ltac:(lia)) as [P1 Q1].
  unfold nsp in N2. destruct (sh x) as [|N [|C [|H [|W [|? ?]]]]] eqn:Sx; cbn [List.length] in N2, Wr; try lia.
  destruct (sh k) as [|M [|C' [|KH [|KW [|? ?]]]]] eqn:Sk; cbn [List.length] in Wr; try lia.
  cbn [nth Nat.add] in Wc, K0, K1. subst C'. unfold zn in F0, F1. cbn [nth Nat.add] in F0, F1.
  rewrite <- code_pads_onnx in F0, F1 by assumption.
  assert (Ke0 : kext cf k 0 = Z.of_nat (KH + (KH - 1) * (Z.to_nat (dil cf 0) - 1))).
  { unfold kext, zn. rewrite Sk. cbn [nth Nat.add]. now rewrite kext_nat. }
  assert (Ke1 : kext cf k 1 = Z.of_nat (KW + (KW - 1) * (Z.to_nat (dil cf 1) - 1))).
  { unfold kext, zn. rewrite Sk. cbn [nth Nat.add]. now rewrite kext_nat. }
  assert (Ts : tshape (dilate (tzc k) [Z.to_nat (dil cf 0); Z.to_nat (dil cf 1)]) =
               [M; C; (KH + (KH - 1) * (Z.to_nat (dil cf 0) - 1))%nat; (KW + (KW - 1) * (Z.to_nat (dil cf 1) - 1))%nat]).
  { unfold dilate. cbn [tshape tzc]. rewrite Sk. reflexivity. }
  pose proof (conv_model_2d cf x k bias t) as HT. cbv zeta in HT. rewrite Ts, Sx, Sk in HT. cbn [nth] in HT.
  rewrite HT; [|unfold nsp; rewrite Sx; reflexivity|assumption|assumption|assumption|lia|lia].
  unfold conv_spec. rewrite (conv_with_2d cf x k (onnx_pads cf x k) N C H W M KH KW); try assumption;
    rewrite <- ?code_pads_onnx by assumption; try assumption.
  reflexivity.
Qed.

(* ---------- the theorem ---------- *)
Theorem conv_model_refines_spec_min cf x k bias t :
  conv_wf_min cf x k -> c_auto cf <> Valid -> conv_model cf x k bias = MOk t -> t = conv_spec cf x k bias.
Proof.
  intros W NV HM. destruct (conv_model_ok_rank _ _ _ _ _ HM) as [N1|N2].
  - now apply conv_model_refines_spec_1d.
  - now apply conv_model_refines_spec_2d.
Qed.

(* the full list of well-formedness conditions of a Conv node (group 1) *)
Record conv_wf (cf : cfg) (x k : tval) (bias : option tval) : Prop := {
  wf_x : List.length (pl x) = numel (sh x);
  wf_k : List.length (pl k) = numel (sh k);
  wf_xpos : Forall (fun e => 1 <= e)%nat (sh x);
  wf_kpos : Forall (fun e => 1 <= e)%nat (sh k);
  wf_nsp : nsp x = 1%nat \/ nsp x = 2%nat;
  wf_rank : List.length (sh k) = (nsp x + 2)%nat;
  wf_chan : nth 1 (sh k) 0%nat = nth 1 (sh x) 0%nat;
  wf_str : forall i, (i < nsp x)%nat -> 1 <= str cf i;
  wf_str_len : c_str cf = [] \/ List.length (c_str cf) = nsp x;
  wf_dil : forall i, (i < nsp x)%nat -> 1 <= dil cf i;
  wf_dil_len : c_dil cf = [] \/ List.length (c_dil cf) = nsp x;
  wf_pads : c_auto cf = NotSet -> Forall (fun p => 0 <= p) (c_pads cf);
  wf_pads_len : c_pads cf = [] \/ List.length (c_pads cf) = (2 * nsp x)%nat;
  wf_fit : forall i, (i < nsp x)%nat ->
           kext cf k i <= zn (sh x) (2 + i) + fst (onnx_pads cf x k i) + snd (onnx_pads cf x k i);
  wf_bias : match bias with
            | Some bt => sh bt = [nth 0 (sh k) 0%nat] /\ List.length (pl bt) = nth 0 (sh k) 0%nat
            | None => True
            end }.

Lemma conv_wf_min_of_wf cf x k bias : conv_wf cf x k bias -> conv_wf_min cf x k.
Proof.
  intros W. destruct W. constructor; auto.
  - unfold nsp in *. lia.
  - intros i Li. rewrite Forall_forall in wf_kpos0. apply wf_kpos0. apply nth_In. lia.
Qed.

Theorem conv_model_refines_spec cf x k bias t :
  conv_wf cf x k bias -> c_auto cf <> Valid -> conv_model cf x k bias = MOk t -> t = conv_spec cf x k bias.
Proof. intros W. apply conv_model_refines_spec_min. exact (conv_wf_min_of_wf _ _ _ _ W). Qed.

(* under SAME_UPPER / SAME_LOWER the fit condition is automatic for a non-empty axis *)
Lemma fit_same cf x k i :
  c_auto cf = SameUpper \/ c_auto cf = SameLower -> 1 <= str cf i -> 1 <= zn (sh x) (2 + i) ->
  kext cf k i <= zn (sh x) (2 + i) + fst (onnx_pads cf x k i) + snd (onnx_pads cf x k i).
Proof.
  intros A S Dm. unfold onnx_pads. set (dim := zn (sh x) (2 + i)) in *. set (s := str cf i) in *.
  assert (T : 1 <= (dim + s - 1) / s) by (apply Z.div_le_lower_bound; lia).
  set (tg := (dim + s - 1) / s) in *. set (ke := kext cf k i).
  assert (Nd : ke - dim <= Z.max 0 ((tg - 1) * s + ke - dim)) by nia.
  destruct A as [-> | ->]; cbn [fst snd]; lia.
Qed.

(* ---------- the stages, as instances ---------- *)
Corollary stage_A cf x k t :   (* 1-D, dilation 1, no bias *)
  nsp x = 1%nat -> dil cf 0 = 1 -> conv_wf_min cf x k -> c_auto cf <> Valid ->
  conv_model cf x k None = MOk t -> t = conv_spec cf x k None.
Proof. intros N1 _. now apply conv_model_refines_spec_1d. Qed.
Corollary stage_B cf x k bias t :   (* 1-D, dilation 1, bias *)
  nsp x = 1%nat -> dil cf 0 = 1 -> conv_wf_min cf x k -> c_auto cf <> Valid ->
  conv_model cf x k bias = MOk t -> t = conv_spec cf x k bias.
Proof. intros N1 _. now apply conv_model_refines_spec_1d. Qed.
Definition stage_C := conv_model_refines_spec_1d.   (* 1-D, any dilation >= 1, bias *)
Corollary stage_D cf x k bias t :   (* 2-D, dilations 1 *)
  nsp x = 2%nat -> dil cf 0 = 1 -> dil cf 1 = 1 -> conv_wf_min cf x k -> c_auto cf <> Valid ->
  conv_model cf x k bias = MOk t -> t = conv_spec cf x k bias.
Proof. intros N2 _ _. now apply conv_model_refines_spec_2d. Qed.
Definition stage_E := conv_model_refines_spec_2d.   (* 2-D, any dilations >= 1, bias *)

(* ---------- the hypotheses are satisfiable and each one is needed ---------- *)
Definition mkt (s : list nat) (p : list Z) : tval := {| dt := Float32; sh := s; pl := p |}.
Definition disagree cf x k b : bool :=
  match conv_model cf x k b with MOk t => negb (tval_eqb t (conv_spec cf x k b)) | _ => false end.

(* a 2-D instance inside the domain (dilations 2 and 1, strides 1 and 2, pads, bias) with a tensor outcome *)
Example wf_inhabited :
  let cf := {| c_auto := NotSet; c_dil := [2; 1]; c_pads := [1; 0; 0; 1]; c_str := [1; 2] |} in
  let x := mkt [1; 1; 3; 4]%nat [1; 2; 3; 4; 5; 6; 7; 8; 9; 10; 11; 12] in
  let k := mkt [2; 1; 2; 2]%nat [1; -1; 2; 0; 3; 1; -2; 1] in
  let b := Some (mkt [2%nat] [10; 20]) in
  conv_wf cf x k b /\ exists t, conv_model cf x k b = MOk t.
Proof.
  cbv zeta. split.
  - constructor; try (vm_compute; auto; fail); try (repeat constructor; fail).
    + intros i Li. change (i < 2)%nat in Li. destruct i as [|[|]]; [vm_compute; discriminate..|lia].
    + intros i Li. change (i < 2)%nat in Li. destruct i as [|[|]]; [vm_compute; discriminate..|lia].
    + intros _. repeat constructor; lia.
    + intros i Li. change (i < 2)%nat in Li. destruct i as [|[|]]; [vm_compute; discriminate..|lia].
  - eexists. vm_compute. reflexivity.
Qed.

(* fit dropped: a 3-tap kernel on a 1-element axis; code: extent 1, ONNX: extent 0 *)
Example need_fit : disagree {| c_auto := NotSet; c_dil := []; c_pads := []; c_str := [] |}
                            (mkt [1; 1; 1]%nat [5]) (mkt [1; 1; 3]%nat [1; 2; 3]) None = true.
Proof. vm_compute. reflexivity. Qed.
(* auto_pad = VALID: the code pads as SAME_UPPER (known finding) *)
Example need_not_valid : disagree {| c_auto := Valid; c_dil := []; c_pads := []; c_str := [] |}
                                  (mkt [1; 1; 4]%nat [1; 2; 3; 4]) (mkt [1; 1; 3]%nat [1; 1; 1]) None = true.
Proof. vm_compute. reflexivity. Qed.
Example need_dil_pos : disagree {| c_auto := NotSet; c_dil := [0]; c_pads := []; c_str := [] |}
                                (mkt [1; 1; 4]%nat [1; 2; 3; 4]) (mkt [1; 1; 2]%nat [1; 1]) None = true.
Proof. vm_compute. reflexivity. Qed.
Example need_str_pos : disagree {| c_auto := NotSet; c_dil := []; c_pads := []; c_str := [0] |}
                                (mkt [1; 1; 4]%nat [1; 2; 3; 4]) (mkt [1; 1; 2]%nat [1; 1]) None = true.
Proof. vm_compute. reflexivity. Qed.
Example need_rank : disagree {| c_auto := NotSet; c_dil := []; c_pads := []; c_str := [] |}
                             (mkt [1; 1; 3]%nat [1; 2; 3]) (mkt [1; 1; 2; 2]%nat [1; 2; 3; 4]) None = true.
Proof. vm_compute. reflexivity. Qed.
(* empty kernel axes with dilation 2: kext = -1 on both axes, C * (-1) * (-1) = 1 passes the code's rank guard *)
Example need_kernel_pos : disagree {| c_auto := NotSet; c_dil := [2; 2]; c_pads := []; c_str := [] |}
                                   (mkt [1; 1; 2; 2]%nat [1; 2; 3; 4]) (mkt [1; 1; 0; 0]%nat []) None = true.
Proof. vm_compute. reflexivity. Qed.
