(* Refinement for ArgMax / ReduceMax / ReduceMin (Check/CheckC09.v): outside the known classes
   the model of the Go code over gorgonia's kernels computes exactly what the specification says.
   No axioms. *)
From Coq Require Import List ZArith Bool String Lia Arith PeanoNat.
From V Require Import DType Tensor Case OpCheck Writes ListUtil Ival CheckC09 ReduceProofs.
From V Require ShapeOpsProofs.
Import ListNotations.
Open Scope Z_scope.
Open Scope list_scope.

Notation refines := ShapeOpsProofs.refines.

(* ================================================================================== *)
(* 1. The anatomy of `slices`                                                          *)
(* ================================================================================== *)
Section Slices.
Local Open Scope nat_scope.

Definition keepb (A : list nat) (b : nat) (s : list nat) : list nat :=
  map (fun p => if memn (fst p) A then 1 else snd p) (combine (seq b (List.length s)) s).
Definition redb (A : list nat) (b : nat) (s : list nat) : list nat :=
  map (fun p => if memn (fst p) A then snd p else 1) (combine (seq b (List.length s)) s).
Definition mergeb (A : list nat) (b n : nat) (o c : list nat) : list nat :=
  map (fun p : nat * nat * nat => if memn (fst (fst p)) A then snd p else snd (fst p))
      (combine (combine (seq b n) o) c).

Lemma slices_eq s A :
  slices s A = map (fun o => map (mergeb A 0 (List.length s) o) (all_indices (redb A 0 s)))
                   (all_indices (keepb A 0 s)).
Proof. reflexivity. Qed.

Lemma keepb_length A b s : List.length (keepb A b s) = List.length s.
Proof. unfold keepb. rewrite map_length, combine_length, seq_length. lia. Qed.
Lemma redb_length A b s : List.length (redb A b s) = List.length s.
Proof. unfold redb. rewrite map_length, combine_length, seq_length. lia. Qed.

Lemma keepb_cons A b d s : keepb A b (d :: s) = (if memn b A then 1 else d) :: keepb A (S b) s.
Proof. reflexivity. Qed.
Lemma redb_cons A b d s : redb A b (d :: s) = (if memn b A then d else 1) :: redb A (S b) s.
Proof. reflexivity. Qed.
Lemma mergeb_cons A b n x o y c :
  mergeb A b (S n) (x :: o) (y :: c) = (if memn b A then y else x) :: mergeb A (S b) n o c.
Proof. reflexivity. Qed.

(* a merged index is a valid index of the tensor *)
Lemma mergeb_valid A : forall s b o c,
  valid (keepb A b s) o -> valid (redb A b s) c -> valid s (mergeb A b (List.length s) o c).
Proof.
  unfold valid. induction s as [|d s IH]; intros b o c Ho Hc.
  - inversion Ho; subst. inversion Hc; subst. constructor.
  - rewrite keepb_cons in Ho. rewrite redb_cons in Hc.
    inversion Ho as [|x k o' k' Hx Ho']; subst. inversion Hc as [|y r c' r' Hy Hc']; subst.
    cbn [List.length]. rewrite mergeb_cons. constructor.
    + destruct (memn b A); lia.
    + apply IH; assumption.
Qed.

Lemma slices_valid s A sl i : In sl (slices s A) -> In i sl -> valid s i.
Proof.
  rewrite slices_eq. intros Hsl Hi. apply in_map_iff in Hsl. destruct Hsl as (o & Hsl & Ho). subst sl.
  apply in_map_iff in Hi. destruct Hi as (c & Hi & Hc). subst i.
  apply in_all_indices in Ho. apply in_all_indices in Hc. apply mergeb_valid; assumption.
Qed.

Lemma mergeb_nth A : forall n b o c t, List.length o = n -> List.length c = n -> t < n ->
  nth t (mergeb A b n o c) 0 = if memn (b + t) A then nth t c 0 else nth t o 0.
Proof.
  induction n as [|n IH]; intros b o c t Ho Hc Ht; [lia|].
  destruct o as [|x o]; [discriminate Ho|]. destruct c as [|y c]; [discriminate Hc|].
  rewrite mergeb_cons. destruct t as [|t].
  - rewrite Nat.add_0_r. cbn [nth]. destruct (memn b A); reflexivity.
  - cbn [nth]. rewrite IH; [|simpl in Ho; lia|simpl in Hc; lia|lia].
    replace (S b + t) with (b + S t) by lia. reflexivity.
Qed.

Lemma redb_nth A : forall s b t, t < List.length s ->
  nth t (redb A b s) 1 = if memn (b + t) A then nth t s 1 else 1.
Proof.
  induction s as [|d s IH]; intros b t Ht; [simpl in Ht; lia|].
  rewrite redb_cons. destruct t as [|t].
  - rewrite Nat.add_0_r. reflexivity.
  - cbn [nth]. rewrite IH; [|simpl in Ht; lia]. replace (S b + t) with (b + S t) by lia. reflexivity.
Qed.

(* a shape with extent 1 everywhere except (possibly) at position k *)
Definition one_hot (r : list nat) (k : nat) : Prop := forall t, t <> k -> nth t r 1 = 1.

Lemma one_hot_tail e r k : one_hot (e :: r) (S k) -> one_hot r k.
Proof. intros H t Ht. apply (H (S t)). lia. Qed.

Lemma all_ones_numel : forall r, (forall t, nth t r 1 = 1) -> numel r = 1.
Proof.
  induction r as [|e r IH]; intros H; [reflexivity|].
  cbn [numel]. rewrite IH; [|intros t; apply (H (S t))]. pose proof (H 0) as H0. simpl in H0. lia.
Qed.

Lemma one_hot_numel : forall r k, one_hot r k -> numel r = nth k r 1.
Proof.
  induction r as [|e r IH]; intros k H.
  - destruct k; reflexivity.
  - destruct k as [|k].
    + cbn [numel nth]. rewrite all_ones_numel; [lia|]. intros t. apply (H (S t)). lia.
    + cbn [numel nth]. rewrite (IH k (one_hot_tail _ _ _ H)).
      pose proof (H 0) as H0. simpl in H0. rewrite H0; lia.
Qed.

Lemma one_hot_unflat : forall r k n, one_hot r k -> k < List.length r -> n < numel r ->
  nth k (unflat r n) 0 = n.
Proof.
  induction r as [|e r IH]; intros k n H Hk Hn; [simpl in Hk; lia|].
  cbn [unflat]. destruct k as [|k].
  - cbn [nth]. rewrite all_ones_numel; [apply Nat.div_1_r|]. intros t. apply (H (S t)). lia.
  - cbn [nth]. pose proof (H 0) as H0. simpl in H0. specialize (H0 ltac:(lia)). subst e.
    cbn [numel] in Hn. rewrite Nat.mul_1_l in Hn.
    rewrite Nat.mod_small by exact Hn.
    apply IH; [exact (one_hot_tail _ _ _ H)|simpl in Hk; lia|exact Hn].
Qed.

Lemma redb_one_hot s ax : one_hot (redb [ax] 0 s) ax.
Proof.
  intros t Ht. destruct (Nat.lt_ge_cases t (List.length s)) as [Hlt | Hge].
  - rewrite redb_nth by exact Hlt. simpl. unfold memn. simpl.
    destruct (Nat.eqb_spec t ax); [contradiction|reflexivity].
  - apply nth_overflow. rewrite redb_length. exact Hge.
Qed.

(* every slice along a single axis lists the positions 0, 1, 2 ... of that axis in order *)
Lemma slices_axis_positions s ax sl : ax < List.length s -> In sl (slices s [ax]) ->
  map (fun i => nth ax i 0) sl = seq 0 (List.length sl).
Proof.
  intros Hax Hsl. rewrite slices_eq in Hsl. apply in_map_iff in Hsl. destruct Hsl as (o & Hsl & Ho). subst sl.
  apply in_all_indices in Ho. apply valid_length in Ho. rewrite keepb_length in Ho.
  rewrite map_length. rewrite map_map. unfold all_indices. rewrite map_map, map_length, seq_length.
  set (r := redb [ax] 0 s).
  rewrite <- (map_id (seq 0 (numel r))) at 2. apply map_ext_in. intros n Hn. apply in_seq in Hn.
  assert (Hv : valid r (unflat r n)) by (apply valid_unflat; lia).
  apply valid_length in Hv. unfold r in Hv at 2. rewrite redb_length in Hv.
  rewrite mergeb_nth; [|exact Ho|exact Hv|exact Hax].
  simpl. unfold memn. simpl. rewrite Nat.eqb_refl. simpl.
  apply one_hot_unflat; [apply redb_one_hot|unfold r; rewrite redb_length; exact Hax|lia].
Qed.

End Slices.

(* ================================================================================== *)
(* 2. ArgMax                                                                           *)
(* ================================================================================== *)

Lemma not_nan_key d v : is_nan_or_pinf d v = false -> exists k, okey d v = Some k.
Proof.
  unfold is_nan_or_pinf, okey. destruct d; intros H; try (eexists; reflexivity).
  - destruct (decode W32 v) as [|[|]|]; try discriminate H; eexists; reflexivity.
  - destruct (decode W64 v) as [|[|]|]; try discriminate H; eexists; reflexivity.
Qed.

Definition keyed (d : dtype) (b : nat) (l : list Z) : list (nat * option Z) :=
  map (fun p => (fst p, okey d (snd p))) (combine (seq b (List.length l)) l).

(* the Go scan from a current candidate = the specification's scan from the same candidate *)
Lemma argmax_from_best d : forall l b bi f kf,
  okey d f = Some kf -> existsb (is_nan_or_pinf d) l = false ->
  exists k, best Z.gtb true (keyed d b l) (Some (bi, Some kf)) = Some (argmax_go_from d l b bi f, Some k).
Proof.
  induction l as [|v r IH]; intros b bi f kf Hf Hl.
  - exists kf. reflexivity.
  - simpl in Hl. apply orb_false_iff in Hl. destruct Hl as [Hv Hr].
    destruct (not_nan_key d v Hv) as [kv Hkv].
    unfold keyed. cbn [List.length seq combine map fst snd]. fold (keyed d (S b) r).
    rewrite Hkv. cbn [best argmax_go_from]. rewrite Hv.
    unfold gt_go. rewrite Hkv, Hf. rewrite Z.gtb_ltb.
    destruct (kf <? kv).
    + apply IH; assumption.
    + apply IH; assumption.
Qed.

Lemma argmax_go_best d l : existsb (is_nan_or_pinf d) l = false ->
  match best Z.gtb true (keyed d 0 l) None with Some (i, _) => i | None => 0%nat end = argmax_go d l.
Proof.
  intros Hl. destruct l as [|v r]; [reflexivity|].
  simpl in Hl. apply orb_false_iff in Hl. destruct Hl as [Hv Hr].
  destruct (not_nan_key d v Hv) as [kv Hkv].
  unfold keyed. cbn [List.length seq combine map fst snd]. fold (keyed d 1 r).
  rewrite Hkv. cbn [best argmax_go].
  destruct (argmax_from_best d r 1%nat 0%nat v kv Hkv Hr) as [k Hk]. rewrite Hk. reflexivity.
Qed.

Lemma map_pair_combine {X} (g : X -> nat) (v : X -> Z) d (sl : list X) :
  map (fun i => (g i, okey d (v i))) sl =
  map (fun p => (fst p, okey d (snd p))) (combine (map g sl) (map v sl)).
Proof. induction sl as [|a sl IH]; [reflexivity|]. simpl. rewrite IH. reflexivity. Qed.

Lemma default_not_nan d : is_nan_or_pinf d 0 = false.
Proof. destruct d; reflexivity. Qed.

Lemma existsb_false_In {X} (p : X -> bool) l : existsb p l = false <-> forall x, In x l -> p x = false.
Proof.
  induction l as [|a l IH]; simpl.
  - split; [intros _ x []|reflexivity].
  - rewrite orb_false_iff, IH. split.
    + intros [Ha Hl] x [Hx | Hx]; [subst; exact Ha | exact (Hl x Hx)].
    + intros H. split; [apply H; left; reflexivity | intros x Hx; apply H; right; exact Hx].
Qed.

Lemma get_pl_not_nan x sl : existsb (is_nan_or_pinf (dt x)) (pl x) = false ->
  existsb (is_nan_or_pinf (dt x)) (map (get_pl x) sl) = false.
Proof.
  intros H. apply existsb_false_In. intros v Hv. apply in_map_iff in Hv. destruct Hv as (i & Hv & _). subst v.
  unfold get_pl. destruct (nth_in_or_default (flat (sh x) i) (pl x) 0) as [Hin | Hd].
  - exact (proj1 (existsb_false_In _ _) H _ Hin).
  - rewrite Hd. apply default_not_nan.
Qed.

(* one slice: the index the Go kernel returns = the index the specification selects *)
Lemma argmax_slice x ax sl : (ax < List.length (sh x))%nat -> In sl (slices (sh x) [ax]) ->
  existsb (is_nan_or_pinf (dt x)) (pl x) = false ->
  match best Z.gtb true (map (fun i => (nth ax i 0%nat, okey (dt x) (get_pl x i))) sl) None with
  | Some (i, _) => Z.of_nat i | None => 0 end
  = Z.of_nat (argmax_go (dt x) (map (get_pl x) sl)).
Proof.
  intros Hax Hsl Hnn.
  rewrite (map_pair_combine (fun i => nth ax i 0%nat) (get_pl x) (dt x) sl).
  rewrite (slices_axis_positions (sh x) ax sl Hax Hsl).
  rewrite <- (map_length (get_pl x) sl). fold (keyed (dt x) 0 (map (get_pl x) sl)).
  rewrite <- (argmax_go_best (dt x) (map (get_pl x) sl) (get_pl_not_nan x sl Hnn)).
  destruct (best Z.gtb true (keyed (dt x) 0 (map (get_pl x) sl)) None) as [[i k]|]; reflexivity.
Qed.

(* (A) ArgMax: no NaN and no +Inf in the payload (automatic for the integer types) => the model
   returns exactly the tensor the specification names, and an error exactly when the specification
   demands one. Nothing else is assumed about x (not even well-formedness). *)
Theorem argmax_model_spec attrs x : existsb (is_nan_or_pinf (dt x)) (pl x) = false ->
  match argmax_spec attrs x with
  | SMust v | SEither v => argmax_model attrs x = MOk v
  | SMustErr => argmax_model attrs x = MErr
  | SOutOfDomain => False
  end.
Proof.
  intros Hnn. unfold argmax_spec, argmax_model. cbv zeta.
  destruct (norm_axis (List.length (sh x)) match find_int "axis" attrs with Some a => a | None => 0 end) as [ax|] eqn:Hax;
    [|reflexivity].
  apply norm_axis_lt in Hax.
  assert (E : map (fun sl => match best Z.gtb true (map (fun i => (nth ax i 0%nat, okey (dt x) (get_pl x i))) sl) None with
                             | Some (i, _) => Z.of_nat i | None => 0 end) (slices (sh x) [ax])
              = map (fun sl => Z.of_nat (argmax_go (dt x) (map (get_pl x) sl))) (slices (sh x) [ax])).
  { apply map_ext_in. intros sl Hsl. apply argmax_slice; assumption. }
  rewrite E. destruct (dt x); reflexivity.
Qed.

Theorem argmax_refines attrs x : existsb (is_nan_or_pinf (dt x)) (pl x) = false ->
  refines (argmax_spec attrs x) (argmax_model attrs x).
Proof.
  intros Hnn. pose proof (argmax_model_spec attrs x Hnn) as H.
  destruct (argmax_spec attrs x); simpl; [exact H | exact H | left; exact H | exact I].
Qed.

Lemma int_not_nan d l : d <> Float32 -> d <> Float64 -> existsb (is_nan_or_pinf d) l = false.
Proof.
  intros H1 H2. apply existsb_false_In. intros v _. destruct d; try reflexivity; congruence.
Qed.

(* ================================================================================== *)
(* 3. ReduceMax / ReduceMin: one slice                                                 *)
(* ================================================================================== *)

Definition better_of (mx : bool) : Z -> Z -> bool := if mx then Z.gtb else Z.ltb.

(* what the Go kernels compute on one slice: a left fold of `pick` from the first element *)
Definition vred (mx : bool) (d : dtype) (l : list Z) : Z :=
  match l with [] => 0 | v :: r => fold_left (pick mx d) r v end.

(* the payloads on which "first best" and "last best" cannot be told apart: every entry has a key
   (no NaN) and entries with equal keys are equal (fails for floats only when +0 and -0 both occur) *)
Definition keys_ok (d : dtype) (P : list Z) : Prop :=
  (forall v, In v P -> okey d v <> None) /\
  (forall a b, In a P -> In b P -> okey d a = okey d b -> a = b).

Lemma keys_ok_key d P v : keys_ok d P -> In v P -> exists k, okey d v = Some k.
Proof. intros [H _] Hv. destruct (okey d v) as [k|] eqn:E; [exists k; reflexivity | exfalso; exact (H v Hv E)]. Qed.

Lemma pick_spec mx d a b ka kb : okey d a = Some ka -> okey d b = Some kb ->
  pick mx d a b = if better_of mx kb ka then b else if ka =? kb then b else a.
Proof.
  intros Ha Hb. unfold pick, gt_go, better_of. rewrite Ha, Hb. destruct mx.
  - rewrite Z.gtb_ltb.
    destruct (Z.ltb_spec kb ka); destruct (Z.ltb_spec ka kb); destruct (Z.eqb_spec ka kb); try reflexivity; lia.
  - destruct (Z.ltb_spec ka kb); destruct (Z.ltb_spec kb ka); destruct (Z.eqb_spec ka kb); try reflexivity; lia.
Qed.

Lemma better_irrefl mx k : better_of mx k k = false.
Proof. destruct mx; simpl; [rewrite Z.gtb_ltb|]; apply Z.ltb_irrefl. Qed.

(* the specification's scan (first best) and the fold of `pick` (last best) select the same VALUE *)
Lemma best_pick mx d P : keys_ok d P -> forall (l : list (nat * Z)) fc vc,
  In vc P -> (forall p, In p l -> In (snd p) P) ->
  exists f, best (better_of mx) false (map (fun p => (fst p, okey d (snd p))) l) (Some (fc, okey d vc))
            = Some (f, okey d (fold_left (pick mx d) (map snd l) vc))
         /\ In (f, fold_left (pick mx d) (map snd l) vc) ((fc, vc) :: l).
Proof.
  intros HP. induction l as [|[f1 v1] r IH]; intros fc vc Hvc Hl.
  - exists fc. split; [reflexivity | left; reflexivity].
  - assert (Hv1 : In v1 P) by (apply (Hl (f1, v1)); left; reflexivity).
    assert (Hr : forall p, In p r -> In (snd p) P) by (intros p Hp; apply Hl; right; exact Hp).
    destruct (keys_ok_key d P vc HP Hvc) as [kc Hkc]. destruct (keys_ok_key d P v1 HP Hv1) as [k1 Hk1].
    cbn [map fst snd fold_left]. rewrite (pick_spec mx d vc v1 kc k1 Hkc Hk1).
    rewrite Hkc, Hk1. cbn [best]. destruct (better_of mx k1 kc) eqn:Hb.
    + rewrite <- Hk1. destruct (IH f1 v1 Hv1 Hr) as (f & He & Hin). exists f. split; [exact He|].
      right. exact Hin.
    + destruct (Z.eqb_spec kc k1) as [Heq | Hne].
      * assert (Hvv : vc = v1) by (apply (proj2 HP); [exact Hvc | exact Hv1 | rewrite Hkc, Hk1, Heq; reflexivity]).
        subst v1. rewrite <- Hkc. destruct (IH fc vc Hvc Hr) as (f & He & Hin). exists f. split; [exact He|].
        destruct Hin as [Hin | Hin]; [left; exact Hin | right; right; exact Hin].
      * rewrite <- Hkc. destruct (IH fc vc Hvc Hr) as (f & He & Hin). exists f. split; [exact He|].
        destruct Hin as [Hin | Hin]; [left; exact Hin | right; right; exact Hin].
Qed.

Lemma sel_vred (mx : bool) (x : tval) (sl : list (list nat)) : keys_ok (dt x) (pl x) ->
  (forall i, In i sl -> (flat (sh x) i < List.length (pl x))%nat) ->
  match best (if mx then Z.gtb else Z.ltb) false (map (fun i => (flat (sh x) i, okey (dt x) (get_pl x i))) sl) None with
  | Some (f, _) => nth f (pl x) 0 | None => 0 end
  = vred mx (dt x) (map (get_pl x) sl).
Proof.
  intros HP Hsl. destruct sl as [|i0 r]; [reflexivity|].
  change (if mx then Z.gtb else Z.ltb) with (better_of mx). cbn [map best vred].
  assert (Hin : forall i, In i (i0 :: r) -> In (get_pl x i) (pl x)).
  { intros i Hi. unfold get_pl. apply nth_In. apply Hsl. exact Hi. }
  destruct (best_pick mx (dt x) (pl x) HP (map (fun i => (flat (sh x) i, get_pl x i)) r) (flat (sh x) i0) (get_pl x i0))
    as (f & He & Hf).
  - apply Hin. left. reflexivity.
  - intros p Hp. apply in_map_iff in Hp. destruct Hp as (i & Hp & Hi). subst p. apply Hin. right. exact Hi.
  - rewrite !map_map in He. cbn [fst snd] in He. rewrite He.
    rewrite map_map in Hf. cbn [snd] in Hf.
    change ((flat (sh x) i0, get_pl x i0) :: map (fun i => (flat (sh x) i, get_pl x i)) r)
      with (map (fun i => (flat (sh x) i, get_pl x i)) (i0 :: r)) in Hf.
    apply in_map_iff in Hf. destruct Hf as (i & Hf & _). inversion Hf as [[H1 H2]]. exact H2.
Qed.

(* ---- the fold of `pick` returns an element carrying the best key ---- *)
Definition kle (mx : bool) (a b : Z) : Prop := if mx then a <= b else b <= a.
Definition isbest (mx : bool) (d : dtype) (l : list Z) (w : Z) : Prop :=
  In w l /\ forall v kv kw, In v l -> okey d v = Some kv -> okey d w = Some kw -> kle mx kv kw.

Lemma better_kle mx a b : better_of mx a b = false -> kle mx a b.
Proof.
  unfold better_of, kle. destruct mx; intros H.
  - rewrite Z.gtb_ltb in H. apply Z.ltb_ge in H. exact H.
  - apply Z.ltb_ge in H. exact H.
Qed.
Lemma better_kle_strict mx a b : better_of mx a b = true -> kle mx b a.
Proof.
  unfold better_of, kle. destruct mx; intros H.
  - rewrite Z.gtb_ltb in H. apply Z.ltb_lt in H. lia.
  - apply Z.ltb_lt in H. lia.
Qed.
Lemma kle_trans mx a b c : kle mx a b -> kle mx b c -> kle mx a c.
Proof. unfold kle. destruct mx; lia. Qed.
Lemma kle_refl mx a : kle mx a a.
Proof. unfold kle. destruct mx; lia. Qed.
Lemma kle_antisym mx a b : kle mx a b -> kle mx b a -> a = b.
Proof. unfold kle. destruct mx; lia. Qed.

Lemma fold_pick_isbest mx d P : keys_ok d P -> forall r pre acc,
  (forall v, In v r -> In v P) -> (forall v, In v pre -> In v P) ->
  isbest mx d pre acc -> isbest mx d (pre ++ r) (fold_left (pick mx d) r acc).
Proof.
  intros HP. induction r as [|a r IH]; intros pre acc Hr Hpre Hb.
  - rewrite app_nil_r. exact Hb.
  - cbn [fold_left]. replace (pre ++ a :: r) with ((pre ++ [a]) ++ r) by (rewrite <- app_assoc; reflexivity).
    assert (Ha : In a P) by (apply Hr; left; reflexivity).
    assert (Hacc : In acc P) by (apply Hpre; exact (proj1 Hb)).
    destruct (keys_ok_key d P a HP Ha) as [ka Hka]. destruct (keys_ok_key d P acc HP Hacc) as [kc Hkc].
    apply IH.
    + intros v Hv. apply Hr. right. exact Hv.
    + intros v Hv. apply in_app_or in Hv. destruct Hv as [Hv | [Hv | []]]; [apply Hpre; exact Hv | subst v; exact Ha].
    + rewrite (pick_spec mx d acc a kc ka Hkc Hka). destruct Hb as [Hb1 Hb2].
      assert (Hpre_le : forall v kv, In v pre -> okey d v = Some kv -> kle mx kv kc).
      { intros v kv Hv Hkv. exact (Hb2 v kv kc Hv Hkv Hkc). }
      destruct (better_of mx ka kc) eqn:Hbt; [|destruct (Z.eqb_spec kc ka) as [Heq | Hne]].
      * split; [apply in_or_app; right; left; reflexivity|].
        intros v kv kw Hv Hkv Hkw. rewrite Hka in Hkw. inversion Hkw; subst kw.
        apply in_app_or in Hv. destruct Hv as [Hv | [Hv | []]].
        -- apply (kle_trans mx kv kc ka); [exact (Hpre_le v kv Hv Hkv) | exact (better_kle_strict mx ka kc Hbt)].
        -- subst v. rewrite Hka in Hkv. inversion Hkv. apply kle_refl.
      * split; [apply in_or_app; right; left; reflexivity|].
        intros v kv kw Hv Hkv Hkw. rewrite Hka in Hkw. inversion Hkw; subst kw.
        apply in_app_or in Hv. destruct Hv as [Hv | [Hv | []]].
        -- rewrite <- Heq. exact (Hpre_le v kv Hv Hkv).
        -- subst v. rewrite Hka in Hkv. inversion Hkv. apply kle_refl.
      * split; [apply in_or_app; left; exact Hb1|].
        intros v kv kw Hv Hkv Hkw. rewrite Hkc in Hkw. inversion Hkw; subst kw.
        apply in_app_or in Hv. destruct Hv as [Hv | [Hv | []]].
        -- exact (Hpre_le v kv Hv Hkv).
        -- subst v. rewrite Hka in Hkv. inversion Hkv; subst kv. exact (better_kle mx ka kc Hbt).
Qed.

Lemma vred_isbest mx d P l : keys_ok d P -> l <> [] -> (forall v, In v l -> In v P) ->
  isbest mx d l (vred mx d l).
Proof.
  intros HP Hne Hl. destruct l as [|v r]; [congruence|]. cbn [vred].
  change (v :: r) with ([v] ++ r). apply (fold_pick_isbest mx d P HP).
  - intros w Hw. apply Hl. right. exact Hw.
  - intros w [Hw | []]. subst w. apply Hl. left. reflexivity.
  - split; [left; reflexivity|]. intros w kv kw [Hw | []] Hkv Hkw. subst w. rewrite Hkv in Hkw. inversion Hkw. apply kle_refl.
Qed.

Lemma isbest_unique mx d P l w w' : keys_ok d P -> (forall v, In v l -> In v P) ->
  isbest mx d l w -> isbest mx d l w' -> w = w'.
Proof.
  intros HP Hl [Hw1 Hw2] [Hw1' Hw2'].
  destruct (keys_ok_key d P w HP (Hl w Hw1)) as [k Hk]. destruct (keys_ok_key d P w' HP (Hl w' Hw1')) as [k' Hk'].
  apply (proj2 HP); [exact (Hl w Hw1) | exact (Hl w' Hw1') |].
  rewrite Hk, Hk'. f_equal. apply (kle_antisym mx).
  - exact (Hw2' w k k' Hw1 Hk Hk').
  - exact (Hw2 w' k' k Hw1' Hk' Hk).
Qed.

(* the best of the bests of the parts = the best of the whole, however the whole is ordered *)
Lemma vred_nested mx d P (L : list (list Z)) (l' : list Z) : keys_ok d P ->
  L <> [] -> (forall l, In l L -> l <> []) ->
  (forall v, In v l' -> In v P) ->
  (forall v, In v l' <-> exists l, In l L /\ In v l) ->
  vred mx d (map (vred mx d) L) = vred mx d l'.
Proof.
  intros HP HL Hne Hl'P Hiff.
  assert (HLP : forall l, In l L -> forall v, In v l -> In v P).
  { intros l Hl v Hv. apply Hl'P. apply Hiff. exists l. split; assumption. }
  assert (Hparts : forall l, In l L -> isbest mx d l (vred mx d l)).
  { intros l Hl. apply (vred_isbest mx d P); [exact HP | exact (Hne l Hl) | exact (HLP l Hl)]. }
  assert (HMP : forall v, In v (map (vred mx d) L) -> In v P).
  { intros v Hv. apply in_map_iff in Hv. destruct Hv as (l & Hv & Hl). subst v.
    exact (HLP l Hl _ (proj1 (Hparts l Hl))). }
  assert (Htop : isbest mx d (map (vred mx d) L) (vred mx d (map (vred mx d) L))).
  { apply (vred_isbest mx d P); [exact HP | | exact HMP]. destruct L; [congruence | discriminate]. }
  assert (Hl'ne : l' <> []).
  { destruct L as [|l0 L0]; [congruence|]. destruct l0 as [|v0 r0] eqn:E; [exfalso; apply (Hne []); [left; reflexivity | reflexivity]|].
    intros Hc. assert (Hin : In v0 l') by (apply Hiff; exists (v0 :: r0); split; left; reflexivity).
    rewrite Hc in Hin. destruct Hin. }
  apply (isbest_unique mx d P l' _ _ HP Hl'P); [|apply (vred_isbest mx d P); assumption].
  destruct Htop as [Ht1 Ht2]. apply in_map_iff in Ht1. destruct Ht1 as (lw & Hlw & HlwL).
  split.
  - apply Hiff. exists lw. split; [exact HlwL|]. rewrite <- Hlw. exact (proj1 (Hparts lw HlwL)).
  - intros v kv kw Hv Hkv Hkw. apply Hiff in Hv. destruct Hv as (l & Hl & Hv).
    destruct (Hparts l Hl) as [Hp1 Hp2].
    destruct (keys_ok_key d P (vred mx d l) HP (HLP l Hl _ Hp1)) as [km Hkm].
    apply (kle_trans mx kv km kw).
    + exact (Hp2 v kv km Hv Hkv Hkm).
    + apply (Ht2 (vred mx d l) km kw); [apply in_map; exact Hl | exact Hkm | exact Hkw].
Qed.

(* ================================================================================== *)
(* 4. Reductions as explicit enumerations                                              *)
(* ================================================================================== *)
Section Enum.
Local Open Scope nat_scope.

(* the specification's payload, with the scan replaced by the fold (section 3) *)
Definition redspec (mx : bool) (d : dtype) (s : list nat) (data : list Z) (A : list nat) : list Z :=
  map (fun sl => vred mx d (map (fun i => nth (flat s i) data 0%Z) sl)) (slices s A).

(* ---- only membership in A matters ---- *)
Lemma keepb_ext A A' : (forall k, memn k A = memn k A') -> forall b s, keepb A b s = keepb A' b s.
Proof. intros H b s. unfold keepb. apply map_ext. intros p. rewrite H. reflexivity. Qed.
Lemma redb_ext A A' : (forall k, memn k A = memn k A') -> forall b s, redb A b s = redb A' b s.
Proof. intros H b s. unfold redb. apply map_ext. intros p. rewrite H. reflexivity. Qed.
Lemma mergeb_ext A A' : (forall k, memn k A = memn k A') -> forall b n o c, mergeb A b n o c = mergeb A' b n o c.
Proof. intros H b n o c. unfold mergeb. apply map_ext. intros p. rewrite H. reflexivity. Qed.
Lemma slices_ext A A' s : (forall k, memn k A = memn k A') -> slices s A = slices s A'.
Proof.
  intros H. rewrite !slices_eq. rewrite (keepb_ext A A' H), (redb_ext A A' H).
  apply map_ext. intros o. apply map_ext. intros c. apply mergeb_ext. exact H.
Qed.
Lemma out_shape_ext A A' s kd : (forall k, memn k A = memn k A') -> out_shape s A kd = out_shape s A' kd.
Proof. intros H. unfold out_shape. apply flat_map_ext. intros p. rewrite H. reflexivity. Qed.

(* ---- all_indices, structurally ---- *)
Lemma seq_shift_add : forall m a, seq a m = map (fun r => a + r) (seq 0 m).
Proof.
  induction m as [|m IH]; intros a; [reflexivity|].
  cbn [seq map]. rewrite Nat.add_0_r. f_equal. rewrite (IH (S a)). rewrite <- seq_shift, map_map.
  apply map_ext. intros r. lia.
Qed.

Lemma map_flat_map {X Y W} (g : Y -> W) (f : X -> list Y) l :
  map g (flat_map f l) = flat_map (fun x => map g (f x)) l.
Proof. induction l as [|a l IH]; [reflexivity|]. simpl. rewrite map_app, IH. reflexivity. Qed.

Lemma flat_map_ext_in {X Y} (f g : X -> list Y) l : (forall x, In x l -> f x = g x) -> flat_map f l = flat_map g l.
Proof.
  induction l as [|a l IH]; intros H; [reflexivity|]. simpl. rewrite (H a (or_introl eq_refl)).
  rewrite IH; [reflexivity|]. intros x Hx. apply H. right. exact Hx.
Qed.

Lemma flat_map_single {X Y} (f : X -> Y) l : flat_map (fun x => [f x]) l = map f l.
Proof. induction l as [|a l IH]; [reflexivity|]. simpl. rewrite IH. reflexivity. Qed.

Lemma seq_mul m : forall d, seq 0 (d * m) = flat_map (fun i => map (fun r => i * m + r) (seq 0 m)) (seq 0 d).
Proof.
  induction d as [|d IH]; [reflexivity|].
  replace (S d * m) with (d * m + m) by lia. rewrite seq_app, seq_S, flat_map_app, <- IH.
  cbn [flat_map]. rewrite app_nil_r. rewrite (seq_shift_add m (0 + d * m)). reflexivity.
Qed.

Lemma all_indices_nil : all_indices [] = [[]].
Proof. reflexivity. Qed.

Lemma all_indices_cons d s :
  all_indices (d :: s) = flat_map (fun i => map (cons i) (all_indices s)) (seq 0 d).
Proof.
  unfold all_indices. cbn [numel]. rewrite seq_mul, map_flat_map.
  apply flat_map_ext. intros i. rewrite !map_map. apply map_ext_in. intros r Hr. apply in_seq in Hr.
  cbn [unflat].
  assert (Hq : (i * numel s + r) / numel s = i) by (symmetry; apply Nat.div_unique with (r := r); lia).
  assert (Hm : (i * numel s + r) mod numel s = r) by (symmetry; apply Nat.mod_unique with (q := i); lia).
  rewrite Hq, Hm. reflexivity.
Qed.

Definition enum2 {X} (p q : nat) (F : nat -> nat -> X) : list X :=
  flat_map (fun i => map (F i) (seq 0 q)) (seq 0 p).
Definition enum3 {X} (p q r : nat) (F : nat -> nat -> nat -> X) : list X :=
  flat_map (fun i => enum2 q r (F i)) (seq 0 p).

Lemma all_indices1 p : all_indices [p] = map (fun i => [i]) (seq 0 p).
Proof. rewrite all_indices_cons, all_indices_nil. cbn [map]. apply flat_map_single. Qed.
Lemma all_indices2 p q : all_indices [p; q] = enum2 p q (fun i j => [i; j]).
Proof.
  rewrite all_indices_cons, all_indices1. unfold enum2. apply flat_map_ext. intros i. rewrite map_map. reflexivity.
Qed.
Lemma all_indices3 p q r : all_indices [p; q; r] = enum3 p q r (fun i j k => [i; j; k]).
Proof.
  rewrite all_indices_cons, all_indices2. unfold enum3, enum2. apply flat_map_ext. intros i.
  rewrite map_flat_map. apply flat_map_ext. intros j. rewrite map_map. reflexivity.
Qed.

Lemma map_enum2 {X Y} (G : X -> Y) p q F : map G (enum2 p q F) = enum2 p q (fun i j => G (F i j)).
Proof. unfold enum2. rewrite map_flat_map. apply flat_map_ext. intros i. rewrite map_map. reflexivity. Qed.
Lemma map_enum3 {X Y} (G : X -> Y) p q r F : map G (enum3 p q r F) = enum3 p q r (fun i j k => G (F i j k)).
Proof. unfold enum3. rewrite map_flat_map. apply flat_map_ext. intros i. apply map_enum2. Qed.

Lemma enum2_ext_in {X} p q (F F' : nat -> nat -> X) :
  (forall i j, i < p -> j < q -> F i j = F' i j) -> enum2 p q F = enum2 p q F'.
Proof.
  intros H. unfold enum2. apply flat_map_ext_in. intros i Hi. apply in_seq in Hi.
  apply map_ext_in. intros j Hj. apply in_seq in Hj. apply H; lia.
Qed.
Lemma enum3_ext_in {X} p q r (F F' : nat -> nat -> nat -> X) :
  (forall i j k, i < p -> j < q -> k < r -> F i j k = F' i j k) -> enum3 p q r F = enum3 p q r F'.
Proof.
  intros H. unfold enum3. apply flat_map_ext_in. intros i Hi. apply in_seq in Hi.
  apply enum2_ext_in. intros j k Hj Hk. apply H; lia.
Qed.

Lemma In_enum2 {X} p q (F : nat -> nat -> X) v :
  In v (enum2 p q F) <-> exists i j, i < p /\ j < q /\ v = F i j.
Proof.
  unfold enum2. rewrite in_flat_map. split.
  - intros (i & Hi & Hv). apply in_map_iff in Hv. destruct Hv as (j & Hv & Hj).
    apply in_seq in Hi. apply in_seq in Hj. exists i, j. split; [lia|]. split; [lia|]. symmetry. exact Hv.
  - intros (i & j & Hi & Hj & Hv). exists i. split; [apply in_seq; lia|].
    apply in_map_iff. exists j. split; [symmetry; exact Hv | apply in_seq; lia].
Qed.

Lemma enum2_length {X} p q (F : nat -> nat -> X) : List.length (enum2 p q F) = p * q.
Proof.
  unfold enum2. generalize 0 at 2. induction p as [|p IH]; intros b; [reflexivity|].
  cbn [seq flat_map]. rewrite app_length, map_length, seq_length, IH. lia.
Qed.

Lemma nth_flat_map_block {X Y} (f : X -> list Y) q dX dY : forall l i j,
  (forall x, List.length (f x) = q) -> i < List.length l -> j < q ->
  nth (i * q + j) (flat_map f l) dY = nth j (f (nth i l dX)) dY.
Proof.
  induction l as [|a l IH]; intros i j Hlen Hi Hj; [simpl in Hi; lia|].
  cbn [flat_map]. destruct i as [|i].
  - cbn [nth]. rewrite app_nth1; [reflexivity|]. rewrite Hlen. lia.
  - rewrite app_nth2; [|rewrite Hlen; lia]. rewrite Hlen.
    replace (S i * q + j - q) with (i * q + j) by lia. cbn [nth]. apply IH; [exact Hlen | simpl in Hi; lia | exact Hj].
Qed.

Lemma nth_enum2 {X} p q (F : nat -> nat -> X) dX i j : i < p -> j < q ->
  nth (i * q + j) (enum2 p q F) dX = F i j.
Proof.
  intros Hi Hj. unfold enum2.
  rewrite (nth_flat_map_block (fun i => map (F i) (seq 0 q)) q 0 dX);
    [|intros x; rewrite map_length, seq_length; reflexivity | rewrite seq_length; exact Hi | exact Hj].
  rewrite seq_nth by exact Hi. cbn [plus].
  rewrite (nth_indep _ dX (F i 0)) by (rewrite map_length, seq_length; exact Hj).
  rewrite map_nth, seq_nth by exact Hj. reflexivity.
Qed.

Lemma enum2_1x {X} q (F : nat -> nat -> X) : enum2 1 q F = map (F 0) (seq 0 q).
Proof. unfold enum2. cbn [seq flat_map]. apply app_nil_r. Qed.
Lemma enum2_x1 {X} p (F : nat -> nat -> X) : enum2 p 1 F = map (fun i => F i 0) (seq 0 p).
Proof. unfold enum2. cbn [seq map]. apply flat_map_single. Qed.
Lemma enum3_1xx {X} q r (F : nat -> nat -> nat -> X) : enum3 1 q r F = enum2 q r (F 0).
Proof. unfold enum3. cbn [seq flat_map]. apply app_nil_r. Qed.
Lemma enum3_x1x {X} p r (F : nat -> nat -> nat -> X) : enum3 p 1 r F = enum2 p r (fun i k => F i 0 k).
Proof. unfold enum3. unfold enum2 at 2. apply flat_map_ext. intros i. apply enum2_1x. Qed.
Lemma enum3_xx1 {X} p q (F : nat -> nat -> nat -> X) : enum3 p q 1 F = enum2 p q (fun i j => F i j 0).
Proof. unfold enum3. unfold enum2 at 2. apply flat_map_ext. intros i. apply enum2_x1. Qed.

(* ---- the specification's payload for ranks 2 and 3, as nested enumerations ---- *)
Lemma redspec2 mx d p q data A :
  redspec mx d [p; q] data A =
  enum2 (if memn 0 A then 1 else p) (if memn 1 A then 1 else q)
    (fun o0 o1 => vred mx d (enum2 (if memn 0 A then p else 1) (if memn 1 A then q else 1)
       (fun c0 c1 => nth (flat [p; q] [if memn 0 A then c0 else o0; if memn 1 A then c1 else o1]) data 0%Z))).
Proof.
  unfold redspec. rewrite slices_eq. unfold keepb, redb. cbn [List.length seq combine map fst snd].
  rewrite !all_indices2. rewrite !map_enum2. apply enum2_ext_in. intros o0 o1 _ _.
  rewrite !map_enum2. reflexivity.
Qed.

Lemma redspec3 mx d a b c data A :
  redspec mx d [a; b; c] data A =
  enum3 (if memn 0 A then 1 else a) (if memn 1 A then 1 else b) (if memn 2 A then 1 else c)
    (fun o0 o1 o2 => vred mx d (enum3 (if memn 0 A then a else 1) (if memn 1 A then b else 1) (if memn 2 A then c else 1)
       (fun c0 c1 c2 => nth (flat [a; b; c] [if memn 0 A then c0 else o0; if memn 1 A then c1 else o1;
                                              if memn 2 A then c2 else o2]) data 0%Z))).
Proof.
  unfold redspec. rewrite slices_eq. unfold keepb, redb. cbn [List.length seq combine map fst snd].
  rewrite !all_indices3. rewrite !map_enum3. apply enum3_ext_in. intros o0 o1 o2 _ _ _.
  rewrite !map_enum3. reflexivity.
Qed.

(* ---- all axes: a single slice, the whole payload in order ---- *)
Lemma keepb_all A : forall s b, (forall t, t < List.length s -> memn (b + t) A = true) ->
  keepb A b s = repeat 1 (List.length s).
Proof.
  induction s as [|e s IH]; intros b H; [reflexivity|].
  rewrite keepb_cons. pose proof (H 0 ltac:(simpl; lia)) as H0. rewrite Nat.add_0_r in H0. rewrite H0.
  cbn [List.length repeat]. f_equal. apply IH. intros t Ht. replace (S b + t) with (b + S t) by lia.
  apply H. simpl. lia.
Qed.
Lemma redb_all A : forall s b, (forall t, t < List.length s -> memn (b + t) A = true) -> redb A b s = s.
Proof.
  induction s as [|e s IH]; intros b H; [reflexivity|].
  rewrite redb_cons. pose proof (H 0 ltac:(simpl; lia)) as H0. rewrite Nat.add_0_r in H0. rewrite H0.
  f_equal. apply IH. intros t Ht. replace (S b + t) with (b + S t) by lia. apply H. simpl. lia.
Qed.
Lemma mergeb_all A : forall n b o c, (forall t, t < n -> memn (b + t) A = true) ->
  List.length o = n -> List.length c = n -> mergeb A b n o c = c.
Proof.
  induction n as [|n IH]; intros b o c H Ho Hc.
  - destruct c; [reflexivity | discriminate Hc].
  - destruct o as [|x o]; [discriminate Ho|]. destruct c as [|y c]; [discriminate Hc|].
    rewrite mergeb_cons. pose proof (H 0 ltac:(lia)) as H0. rewrite Nat.add_0_r in H0. rewrite H0.
    f_equal. apply IH; [|simpl in Ho; lia|simpl in Hc; lia].
    intros t Ht. replace (S b + t) with (b + S t) by lia. apply H. lia.
Qed.
Lemma numel_ones n : numel (repeat 1 n) = 1.
Proof. induction n as [|n IH]; [reflexivity|]. cbn [repeat numel]. rewrite IH. reflexivity. Qed.

Lemma map_nth_seq {X} (l : list X) dX : map (fun n => nth n l dX) (seq 0 (List.length l)) = l.
Proof.
  induction l as [|a l IH]; [reflexivity|]. cbn [List.length seq map nth]. f_equal.
  rewrite <- seq_shift, map_map. exact IH.
Qed.

Lemma redspec_full mx d s data A : (forall t, t < List.length s -> memn t A = true) ->
  List.length data = numel s -> redspec mx d s data A = [vred mx d data].
Proof.
  intros HA Hlen. unfold redspec. rewrite slices_eq.
  rewrite (keepb_all A s 0 HA), (redb_all A s 0 HA).
  set (k1 := repeat 1 (List.length s)).
  assert (Hk : all_indices k1 = [unflat k1 0]) by (unfold all_indices, k1; rewrite numel_ones; reflexivity).
  rewrite Hk. cbn [map]. subst k1. f_equal. f_equal.
  rewrite map_map.
  assert (Ho : List.length (unflat (repeat 1 (List.length s)) 0) = List.length s).
  { rewrite (valid_length (repeat 1 (List.length s))); [apply repeat_length|].
    apply valid_unflat. rewrite numel_ones. lia. }
  unfold all_indices. rewrite map_map.
  transitivity (map (fun n => nth n data 0%Z) (seq 0 (List.length data))); [|apply map_nth_seq].
  rewrite Hlen. apply map_ext_in. intros n Hn. apply in_seq in Hn.
  rewrite (mergeb_all A (List.length s) 0 _ (unflat s n) HA Ho).
  - rewrite flat_unflat by lia. reflexivity.
  - apply valid_length. apply valid_unflat. lia.
Qed.

End Enum.

(* ================================================================================== *)
(* 5. The Go reduction, one axis at a time                                             *)
(* ================================================================================== *)
Section Model.
Local Open Scope nat_scope.

(* axis 0 and the last axis (any rank): literally the reduction over the slices of that axis *)
Lemma reduce_axis_go_edge mx d s data axis : axis = 0 \/ S axis = List.length s ->
  reduce_axis_go mx d s data axis
  = Some ((firstn axis s ++ skipn (S axis) s)%list, redspec mx d s data [axis]).
Proof.
  intros H. unfold reduce_axis_go.
  replace ((axis =? 0) || (S axis =? List.length s)) with true; [reflexivity|].
  symmetry. destruct H as [H | H]; [subst axis; reflexivity | rewrite H, Nat.eqb_refl; apply orb_true_r].
Qed.

(* ---- the middle-axis kernel ---- *)
Lemma fold_left_map {X Y W} (g : W -> Y -> W) (f : X -> Y) l a :
  fold_left (fun acc k => g acc (f k)) l a = fold_left g (map f l) a.
Proof. revert a. induction l as [|x l IH]; intros a; [reflexivity|]. simpl. apply IH. Qed.

Lemma vred_seq mx d (f : nat -> Z) n : 1 <= n ->
  fold_left (fun acc k => pick mx d acc (f k)) (seq 1 (n - 1)) (f 0) = vred mx d (map f (seq 0 n)).
Proof.
  intros Hn. destruct n as [|n]; [lia|]. replace (S n - 1) with n by lia.
  cbn [seq map vred]. apply fold_left_map.
Qed.

(* as long as strideTrack does not reach stride, innerStart simply counts the outputs *)
Lemma default_inner_nowrap mx d sliced dimSize stride : 1 <= dimSize -> forall fuel is st,
  st + fuel <= stride -> is + fuel + (dimSize - 1) * stride <= List.length sliced ->
  default_inner mx d sliced dimSize stride fuel is st
  = Some (map (fun t => vred mx d (map (fun k => nth (t + k * stride) sliced 0%Z) (seq 0 dimSize))) (seq is fuel)).
Proof.
  intros Hd. induction fuel as [|f IH]; intros is st Hst Hlen; [reflexivity|].
  cbn [default_inner].
  replace (is + (dimSize - 1) * stride <? List.length sliced) with true by (symmetry; apply Nat.ltb_lt; lia).
  cbn [negb]. replace (nth is sliced 0%Z) with (nth (is + 0 * stride) sliced 0%Z) by (f_equal; lia).
  rewrite (vred_seq mx d (fun k => nth (is + k * stride) sliced 0%Z) dimSize Hd).
  cbn [seq map]. destruct (stride <=? S st) eqn:Hw.
  - apply Nat.leb_le in Hw. assert (f = 0) by lia. subst f. reflexivity.
  - apply Nat.leb_gt in Hw. rewrite (IH (S is) (S st)) by lia. reflexivity.
Qed.

Lemma nth_skipn' {X} (dX : X) : forall m l n, nth n (skipn m l) dX = nth (m + n) l dX.
Proof.
  induction m as [|m IH]; intros l n; [reflexivity|].
  destruct l as [|a l]; [destruct n; reflexivity|]. cbn [skipn plus nth]. apply IH.
Qed.
Lemma nth_firstn' {X} (dX : X) : forall m l n, n < m -> nth n (firstn m l) dX = nth n l dX.
Proof.
  induction m as [|m IH]; intros l n Hn; [lia|].
  destruct l as [|a l]; [reflexivity|]. destruct n as [|n]; [reflexivity|]. cbn [firstn nth]. apply IH. lia.
Qed.

Lemma concat_opt_some {X Y} (f : X -> option (list Y)) (g : X -> list Y) l :
  (forall x, In x l -> f x = Some (g x)) -> concat_opt (map f l) = Some (flat_map g l).
Proof.
  induction l as [|a l IH]; intros H; [reflexivity|].
  cbn [map concat_opt flat_map]. rewrite (H a (or_introl eq_refl)).
  rewrite IH; [reflexivity|]. intros x Hx. apply H. right. exact Hx.
Qed.

Definition X3 (a b c : nat) (data : list Z) (i j k : nat) : Z := nth (flat [a; b; c] [i; j; k]) data 0%Z.
Definition X2 (p q : nat) (data : list Z) (j k : nat) : Z := nth (flat [p; q] [j; k]) data 0%Z.

Lemma redspec3_0 mx d a b c data :
  redspec mx d [a; b; c] data [0] = enum2 b c (fun j k => vred mx d (map (fun i => X3 a b c data i j k) (seq 0 a))).
Proof.
  rewrite redspec3. cbn [memn existsb Nat.eqb orb]. rewrite enum3_1xx. apply enum2_ext_in. intros j k _ _.
  rewrite enum3_xx1, enum2_x1. reflexivity.
Qed.
Lemma redspec3_1 mx d a b c data :
  redspec mx d [a; b; c] data [1] = enum2 a c (fun i k => vred mx d (map (fun j => X3 a b c data i j k) (seq 0 b))).
Proof.
  rewrite redspec3. cbn [memn existsb Nat.eqb orb]. rewrite enum3_x1x. apply enum2_ext_in. intros i k _ _.
  rewrite enum3_1xx, enum2_x1. reflexivity.
Qed.
Lemma redspec3_01 mx d a b c data :
  redspec mx d [a; b; c] data [0; 1] = map (fun k => vred mx d (enum2 a b (fun i j => X3 a b c data i j k))) (seq 0 c).
Proof.
  rewrite redspec3. cbn [memn existsb Nat.eqb orb]. rewrite enum3_1xx, enum2_1x. apply map_ext. intros k.
  rewrite enum3_xx1. reflexivity.
Qed.
Lemma redspec3_02 mx d a b c data :
  redspec mx d [a; b; c] data [0; 2] = map (fun j => vred mx d (enum2 a c (fun i k => X3 a b c data i j k))) (seq 0 b).
Proof.
  rewrite redspec3. cbn [memn existsb Nat.eqb orb]. rewrite enum3_1xx, enum2_x1. apply map_ext. intros j.
  rewrite enum3_x1x. reflexivity.
Qed.
Lemma redspec3_12 mx d a b c data :
  redspec mx d [a; b; c] data [1; 2] = map (fun i => vred mx d (enum2 b c (fun j k => X3 a b c data i j k))) (seq 0 a).
Proof.
  rewrite redspec3. cbn [memn existsb Nat.eqb orb]. rewrite enum3_xx1, enum2_x1. apply map_ext. intros i.
  rewrite enum3_1xx. reflexivity.
Qed.
Lemma redspec2_0 mx d p q data :
  redspec mx d [p; q] data [0] = map (fun k => vred mx d (map (fun j => X2 p q data j k) (seq 0 p))) (seq 0 q).
Proof.
  rewrite redspec2. cbn [memn existsb Nat.eqb orb]. rewrite enum2_1x. apply map_ext. intros k.
  rewrite enum2_x1. reflexivity.
Qed.
Lemma redspec2_1 mx d p q data :
  redspec mx d [p; q] data [1] = map (fun j => vred mx d (map (fun k => X2 p q data j k) (seq 0 q))) (seq 0 p).
Proof.
  rewrite redspec2. cbn [memn existsb Nat.eqb orb]. rewrite enum2_x1. apply map_ext. intros j.
  rewrite enum2_1x. reflexivity.
Qed.

(* rank 3, axis 1: dim0 blocks, `expected = stride` outputs per block, strideTrack never wraps
   before the block is finished, innerStart = the output position: the kernel is right *)
Lemma reduce_axis_go_mid mx d a b c data : 1 <= b -> List.length data = numel [a; b; c] ->
  reduce_axis_go mx d [a; b; c] data 1 = Some ([a; c], redspec mx d [a; b; c] data [1]).
Proof.
  intros Hb Hlen. cbn [numel] in Hlen. rewrite Nat.mul_1_r in Hlen.
  unfold reduce_axis_go. cbn [Nat.eqb List.length orb firstn skipn app nth numel]. rewrite !Nat.mul_1_r.
  replace (b * c / b) with c by (rewrite Nat.mul_comm, Nat.div_mul; lia).
  rewrite (concat_opt_some _ (fun i => map (fun k => vred mx d (map (fun j => X3 a b c data i j k) (seq 0 b))) (seq 0 c))).
  - cbn [option_map]. rewrite redspec3_1. reflexivity.
  - intros i Hi. apply in_seq in Hi.
    set (sliced := firstn (b * c) (skipn (i * (b * c)) data)).
    assert (Hsl : List.length sliced = b * c).
    { unfold sliced. rewrite firstn_length, skipn_length, Hlen. nia. }
    rewrite (default_inner_nowrap mx d sliced b c Hb c 0 0); [| lia | rewrite Hsl; nia].
    f_equal. apply map_ext_in. intros k Hk. apply in_seq in Hk. f_equal.
    apply map_ext_in. intros j Hj. apply in_seq in Hj.
    unfold sliced, X3. rewrite nth_firstn' by nia. rewrite nth_skipn'. f_equal.
    cbn [flat numel]. ring.
Qed.

(* ---- two steps = the two axes at once ---- *)
Lemma vred_two_level mx d P p q (F : nat -> nat -> Z) : keys_ok d P -> 1 <= p -> 1 <= q ->
  (forall u w, u < p -> w < q -> In (F u w) P) ->
  vred mx d (map (fun u => vred mx d (map (F u) (seq 0 q))) (seq 0 p))
  = vred mx d (enum2 q p (fun w u => F u w)).
Proof.
  intros HP Hp Hq HF.
  rewrite <- (map_map (fun u => map (F u) (seq 0 q)) (vred mx d)).
  apply (vred_nested mx d P); [exact HP | | | |].
  - destruct p; [lia | discriminate].
  - intros l Hl. apply in_map_iff in Hl. destruct Hl as (u & Hl & _). subst l. destruct q; [lia | discriminate].
  - intros v Hv. apply In_enum2 in Hv. destruct Hv as (w & u & Hw & Hu & Hv). subst v. apply HF; assumption.
  - intros v. rewrite In_enum2. split.
    + intros (w & u & Hw & Hu & Hv). exists (map (F u) (seq 0 q)). split.
      * apply in_map_iff. exists u. split; [reflexivity | apply in_seq; lia].
      * apply in_map_iff. exists w. split; [symmetry; exact Hv | apply in_seq; lia].
    + intros (l & Hl & Hv). apply in_map_iff in Hl. destruct Hl as (u & Hl & Hu). subst l.
      apply in_map_iff in Hv. destruct Hv as (w & Hv & Hw). apply in_seq in Hu. apply in_seq in Hw.
      exists w, u. split; [lia|]. split; [lia | symmetry; exact Hv].
Qed.

Lemma X3_In a b c data i j k : List.length data = numel [a; b; c] -> i < a -> j < b -> k < c ->
  In (X3 a b c data i j k) data.
Proof.
  intros Hlen Hi Hj Hk. unfold X3. apply nth_In. rewrite Hlen. apply flat_lt. unfold valid.
  repeat constructor; assumption.
Qed.

Lemma comp_01 mx d a b c data : keys_ok d data -> List.length data = numel [a; b; c] ->
  1 <= a -> 1 <= b -> 1 <= c ->
  redspec mx d [b; c] (redspec mx d [a; b; c] data [0]) [0] = redspec mx d [a; b; c] data [0; 1].
Proof.
  intros HP Hlen Ha Hb Hc. rewrite redspec2_0, redspec3_0, redspec3_01.
  apply map_ext_in. intros k Hk. apply in_seq in Hk.
  rewrite <- (vred_two_level mx d data b a (fun j i => X3 a b c data i j k) HP Hb Ha)
    by (intros j i Hj Hi; apply X3_In; [exact Hlen | lia | lia | lia]).
  f_equal. apply map_ext_in. intros j Hj. apply in_seq in Hj.
  unfold X2. cbn [flat numel]. replace (j * (c * 1) + (k * 1 + 0)) with (j * c + k) by ring.
  rewrite (nth_enum2 b c _ 0%Z j k) by lia. reflexivity.
Qed.

Lemma comp_02 mx d a b c data : keys_ok d data -> List.length data = numel [a; b; c] ->
  1 <= a -> 1 <= b -> 1 <= c ->
  redspec mx d [b; c] (redspec mx d [a; b; c] data [0]) [1] = redspec mx d [a; b; c] data [0; 2].
Proof.
  intros HP Hlen Ha Hb Hc. rewrite redspec2_1, redspec3_0, redspec3_02.
  apply map_ext_in. intros j Hj. apply in_seq in Hj.
  rewrite <- (vred_two_level mx d data c a (fun k i => X3 a b c data i j k) HP Hc Ha)
    by (intros k i Hk Hi; apply X3_In; [exact Hlen | lia | lia | lia]).
  f_equal. apply map_ext_in. intros k Hk. apply in_seq in Hk.
  unfold X2. cbn [flat numel]. replace (j * (c * 1) + (k * 1 + 0)) with (j * c + k) by ring.
  rewrite (nth_enum2 b c _ 0%Z j k) by lia. reflexivity.
Qed.

Lemma comp_12 mx d a b c data : keys_ok d data -> List.length data = numel [a; b; c] ->
  1 <= a -> 1 <= b -> 1 <= c ->
  redspec mx d [a; c] (redspec mx d [a; b; c] data [1]) [1] = redspec mx d [a; b; c] data [1; 2].
Proof.
  intros HP Hlen Ha Hb Hc. rewrite redspec2_1, redspec3_1, redspec3_12.
  apply map_ext_in. intros i Hi. apply in_seq in Hi.
  rewrite <- (vred_two_level mx d data c b (fun k j => X3 a b c data i j k) HP Hc Hb)
    by (intros k j Hk Hj; apply X3_In; [exact Hlen | lia | lia | lia]).
  f_equal. apply map_ext_in. intros k Hk. apply in_seq in Hk.
  unfold X2. cbn [flat numel]. replace (i * (c * 1) + (k * 1 + 0)) with (i * c + k) by ring.
  rewrite (nth_enum2 a c _ 0%Z i k) by lia. reflexivity.
Qed.

End Model.

(* ================================================================================== *)
(* 6. Sorting the axes; the finitely many axis sets of rank <= 3                       *)
(* ================================================================================== *)
Section Axes.
Local Open Scope nat_scope.

Lemma In_insert_sorted a x : forall l, In x (insert_sorted a l) <-> x = a \/ In x l.
Proof.
  induction l as [|b r IH]; cbn [insert_sorted].
  - simpl. intuition congruence.
  - destruct (a <=? b).
    + simpl. intuition congruence.
    + simpl. rewrite IH. intuition congruence.
Qed.
Lemma In_sort_nat x : forall l, In x (sort_nat l) <-> In x l.
Proof.
  induction l as [|a l IH]; [reflexivity|]. unfold sort_nat in *. cbn [fold_right].
  rewrite In_insert_sorted, IH. simpl. intuition congruence.
Qed.
Lemma memn_sort k l : memn k (sort_nat l) = memn k l.
Proof.
  destruct (memn k l) eqn:E.
  - apply (proj2 (memn_In k (sort_nat l))). apply (proj2 (In_sort_nat k l)). apply (proj1 (memn_In k l)). exact E.
  - destruct (memn k (sort_nat l)) eqn:E2; [|reflexivity].
    apply (proj1 (memn_In k (sort_nat l))) in E2. apply (proj1 (In_sort_nat k l)) in E2.
    apply (proj2 (memn_In k l)) in E2. congruence.
Qed.

Fixpoint lsorted (l : list nat) : Prop :=
  match l with a :: ((b :: _) as r) => a <= b /\ lsorted r | _ => True end.
Fixpoint ssorted (l : list nat) : Prop :=
  match l with a :: ((b :: _) as r) => a < b /\ ssorted r | _ => True end.

Lemma insert_lsorted a : forall l, lsorted l -> lsorted (insert_sorted a l).
Proof.
  induction l as [|b r IH]; intros H; [exact I|].
  cbn [insert_sorted]. destruct (a <=? b) eqn:E.
  - apply Nat.leb_le in E. split; assumption.
  - apply Nat.leb_gt in E. destruct r as [|c r'].
    + simpl. split; [lia | exact I].
    + destruct H as [Hbc Hr]. specialize (IH Hr). cbn [insert_sorted] in *. destruct (a <=? c) eqn:E2.
      * split; [lia | exact IH].
      * split; [exact Hbc | exact IH].
Qed.
Lemma sort_lsorted : forall l, lsorted (sort_nat l).
Proof. induction l as [|a l IH]; [exact I|]. unfold sort_nat in *. cbn [fold_right]. apply insert_lsorted. exact IH. Qed.

Lemma lsorted_nodup_ssorted : forall l, lsorted l -> nodup_nat l = true -> ssorted l.
Proof.
  induction l as [|a r IH]; intros Hs Hn; [exact I|].
  destruct r as [|b r']; [exact I|].
  destruct Hs as [Hab Hr]. cbn [nodup_nat] in Hn. apply andb_true_iff in Hn. destruct Hn as [Hm Hn].
  split.
  - unfold memn in Hm. cbn [existsb] in Hm. apply negb_true_iff in Hm. apply orb_false_iff in Hm.
    destruct Hm as [Hm _]. apply Nat.eqb_neq in Hm. lia.
  - apply IH; assumption.
Qed.

Lemma ssorted_lt3 A : ssorted A -> (forall a, In a A -> a < 3) ->
  A = [] \/ A = [0] \/ A = [1] \/ A = [2] \/ A = [0; 1] \/ A = [0; 2] \/ A = [1; 2] \/ A = [0; 1; 2].
Proof.
  intros Hs Hb. destruct A as [|a0 [|a1 [|a2 [|a3 r]]]].
  - left. reflexivity.
  - pose proof (Hb a0 ltac:(simpl; tauto)) as H0.
    assert (H : a0 = 0 \/ a0 = 1 \/ a0 = 2) by lia.
    destruct H as [-> | [-> | ->]]; [right; left | do 2 right; left | do 3 right; left]; reflexivity.
  - pose proof (Hb a0 ltac:(simpl; tauto)) as H0. pose proof (Hb a1 ltac:(simpl; tauto)) as H1.
    destruct Hs as [H01 _].
    assert (H : (a0 = 0 /\ a1 = 1) \/ (a0 = 0 /\ a1 = 2) \/ (a0 = 1 /\ a1 = 2)) by lia.
    destruct H as [[-> ->] | [[-> ->] | [-> ->]]]; [do 4 right; left | do 5 right; left | do 6 right; left]; reflexivity.
  - pose proof (Hb a0 ltac:(simpl; tauto)) as H0. pose proof (Hb a1 ltac:(simpl; tauto)) as H1.
    pose proof (Hb a2 ltac:(simpl; tauto)) as H2. destruct Hs as [H01 [H12 _]].
    assert (H : a0 = 0 /\ a1 = 1 /\ a2 = 2) by lia. destruct H as [-> [-> ->]]. do 7 right. reflexivity.
  - exfalso. pose proof (Hb a3 ltac:(simpl; tauto)) as H3. destruct Hs as [H01 [H12 [H23 _]]]. lia.
Qed.

Lemma norm_axes_lt r : forall l A, norm_axes r l = Some A -> forall a, In a A -> a < r.
Proof.
  induction l as [|z l IH]; intros A H a Ha.
  - inversion H; subst. destruct Ha.
  - cbn [norm_axes] in H. destruct (norm_axis r z) as [k|] eqn:Hk; [|discriminate H].
    destruct (norm_axes r l) as [A'|] eqn:HA; [|discriminate H]. inversion H; subst.
    destruct Ha as [Ha | Ha]; [subst a; exact (norm_axis_lt r z k Hk) | exact (IH A' eq_refl a Ha)].
Qed.

Lemma numel_pos s : Forall (fun e => 1 <= e) s -> 1 <= numel s.
Proof. induction 1 as [|e s He _ IH]; cbn [numel]; [lia | nia]. Qed.

(* ---- the model's payload ---- *)
Definition steps (mx : bool) (d : dtype) (A : list nat) (st : option (nat * (list nat * list Z)))
  : option (nat * (list nat * list Z)) :=
  fold_left (fun (st : option (nat * (list nat * list Z))) ax =>
               match st with
               | Some (done, (s, dat)) => option_map (fun r => (S done, r)) (reduce_axis_go mx d s dat (ax - done))
               | None => None end) A st.
Definition model_data (mx : bool) (d : dtype) (s : list nat) (data : list Z) (A : list nat) : option (list Z) :=
  if List.length A =? List.length s then
    match data with [] => Some [] | v :: rest => Some [fold_left (pick mx d) rest v] end
  else option_map (fun st => snd (snd st)) (steps mx d A (Some (0, (s, data)))).

Lemma model_data_full mx d s data A : (forall t, t < List.length s -> memn t A = true) ->
  List.length A = List.length s -> Forall (fun e => 1 <= e) s -> List.length data = numel s ->
  model_data mx d s data A = Some (redspec mx d s data A).
Proof.
  intros HA HlA Hpos Hlen. unfold model_data. rewrite HlA, Nat.eqb_refl.
  rewrite (redspec_full mx d s data A HA Hlen).
  destruct data as [|v rest]; [|reflexivity].
  pose proof (numel_pos s Hpos) as Hn. simpl in Hlen. lia.
Qed.

Lemma model_data_edge mx d s data ax : ax = 0 \/ S ax = List.length s -> List.length s <> 1 ->
  model_data mx d s data [ax] = Some (redspec mx d s data [ax]).
Proof.
  intros Hax Hr. unfold model_data. cbn [List.length].
  replace (1 =? List.length s) with false by (symmetry; apply Nat.eqb_neq; lia).
  unfold steps. cbn [fold_left]. rewrite Nat.sub_0_r. rewrite (reduce_axis_go_edge mx d s data ax Hax). reflexivity.
Qed.

Theorem model_data_ok mx d s data A :
  List.length s <= 3 -> Forall (fun e => 1 <= e) s -> List.length data = numel s -> keys_ok d data ->
  ssorted A -> (A <> [] \/ s = []) -> (forall a, In a A -> a < List.length s) ->
  model_data mx d s data A = Some (redspec mx d s data A).
Proof.
  intros Hr Hpos Hlen HP Hss Hne Hb.
  assert (Hb3 : forall a, In a A -> a < 3) by (intros a Ha; pose proof (Hb a Ha); lia).
  destruct s as [|a [|b [|c [|e s']]]]; [| | | | simpl in Hr; lia].
  - (* rank 0 *)
    destruct A as [|a0 A']; [|exfalso; pose proof (Hb a0 ltac:(simpl; tauto)) as H; simpl in H; lia].
    apply model_data_full; [intros t Ht; simpl in Ht; lia | reflexivity | exact Hpos | exact Hlen].
  - (* rank 1 *)
    destruct (ssorted_lt3 A Hss Hb3) as [E | [E | [E | [E | [E | [E | [E | E]]]]]]]; subst A;
      try (exfalso; pose proof (Hb 1 ltac:(simpl; tauto)) as H; simpl in H; lia);
      try (exfalso; pose proof (Hb 2 ltac:(simpl; tauto)) as H; simpl in H; lia).
    + destruct Hne as [Hne | Hne]; [congruence | discriminate Hne].
    + apply model_data_full; [|reflexivity | exact Hpos | exact Hlen].
      intros t Ht. simpl in Ht. assert (t = 0) by lia. subst t. reflexivity.
  - (* rank 2 *)
    destruct (ssorted_lt3 A Hss Hb3) as [E | [E | [E | [E | [E | [E | [E | E]]]]]]]; subst A;
      try (exfalso; pose proof (Hb 2 ltac:(simpl; tauto)) as H; simpl in H; lia).
    + destruct Hne as [Hne | Hne]; [congruence | discriminate Hne].
    + apply model_data_edge; [left; reflexivity | simpl; lia].
    + apply model_data_edge; [right; reflexivity | simpl; lia].
    + apply model_data_full; [|reflexivity | exact Hpos | exact Hlen].
      intros t Ht. simpl in Ht. destruct t as [|[|t]]; [reflexivity | reflexivity | lia].
  - (* rank 3 *)
    assert (Ha : 1 <= a) by (inversion Hpos; assumption).
    assert (Hbb : 1 <= b) by (inversion Hpos as [|? ? ? H2]; inversion H2; assumption).
    assert (Hc : 1 <= c) by (inversion Hpos as [|? ? ? H2]; inversion H2 as [|? ? ? H3]; inversion H3; assumption).
    destruct (ssorted_lt3 A Hss Hb3) as [E | [E | [E | [E | [E | [E | [E | E]]]]]]]; subst A.
    + destruct Hne as [Hne | Hne]; [congruence | discriminate Hne].
    + apply model_data_edge; [left; reflexivity | simpl; lia].
    + unfold model_data, steps. cbn [List.length Nat.eqb fold_left Nat.sub].
      rewrite (reduce_axis_go_mid mx d a b c data Hbb Hlen). reflexivity.
    + apply model_data_edge; [right; reflexivity | simpl; lia].
    + unfold model_data, steps. cbn [List.length Nat.eqb fold_left Nat.sub].
      rewrite (reduce_axis_go_edge mx d [a; b; c] data 0) by (left; reflexivity).
      cbn [option_map firstn skipn app].
      rewrite (reduce_axis_go_edge mx d [b; c] _ 0) by (left; reflexivity).
      cbn [option_map snd]. rewrite (comp_01 mx d a b c data HP Hlen Ha Hbb Hc). reflexivity.
    + unfold model_data, steps. cbn [List.length Nat.eqb fold_left Nat.sub].
      rewrite (reduce_axis_go_edge mx d [a; b; c] data 0) by (left; reflexivity).
      cbn [option_map firstn skipn app].
      rewrite (reduce_axis_go_edge mx d [b; c] _ 1) by (right; reflexivity).
      cbn [option_map snd]. rewrite (comp_02 mx d a b c data HP Hlen Ha Hbb Hc). reflexivity.
    + unfold model_data, steps. cbn [List.length Nat.eqb fold_left Nat.sub].
      rewrite (reduce_axis_go_mid mx d a b c data Hbb Hlen).
      cbn [option_map].
      rewrite (reduce_axis_go_edge mx d [a; c] _ 1) by (right; reflexivity).
      cbn [option_map snd]. rewrite (comp_12 mx d a b c data HP Hlen Ha Hbb Hc). reflexivity.
    + apply model_data_full; [|reflexivity | exact Hpos | exact Hlen].
      intros t Ht. simpl in Ht. destruct t as [|[|[|t]]]; [reflexivity | reflexivity | reflexivity | lia].
Qed.

End Axes.

(* ================================================================================== *)
(* 7. ReduceMax / ReduceMin: the model refines the specification                       *)
(* ================================================================================== *)

Definition axes_of (attrs : list attr) (x : tval) : option (list nat) :=
  match find_ints "axes" attrs with Some l => norm_axes (List.length (sh x)) l | None => Some [] end.
Definition all_if_empty (r : nat) (A0 : list nat) : list nat := match A0 with [] => seq 0 r | _ => A0 end.

(* FINDING (carved out): the same axis named twice (as in axes = [0, 0] or [0, -r]). The model of the
   code refuses (MErr); the specification does not look at duplicates and demands the reduction
   over the set. Witness below (dup_axes_disagree). *)
Definition dup_axes (attrs : list attr) (x : tval) : bool :=
  match axes_of attrs x with
  | Some A0 => negb (nodup_nat (sort_nat (all_if_empty (List.length (sh x)) A0)))
  | None => false
  end.

Definition spec_res (mx : bool) (x : tval) (A : list nat) : list Z :=
  map (fun sl => match best (if mx then Z.gtb else Z.ltb) false
                              (map (fun i => (flat (sh x) i, okey (dt x) (get_pl x i))) sl) None with
                 | Some (f, _) => nth f (pl x) 0 | None => 0 end) (slices (sh x) A).

Lemma reduce_spec_unfold mx attrs x :
  reduce_spec mx attrs x =
  match axes_of attrs x with
  | None => SMustErr
  | Some A0 =>
      let A := all_if_empty (List.length (sh x)) A0 in
      let out := [Some {| dt := dt x;
                          sh := out_shape (sh x) A (match find_int "keepdims" attrs with Some v => (v =? 1) | None => true end);
                          pl := spec_res mx x A |}] in
      match dt x with Float32 | Float64 | Int32 | Int64 => SMust out | _ => SEither out end
  end.
Proof. reflexivity. Qed.

Lemma reduce_model_unfold mx attrs x :
  reduce_model mx attrs x =
  match axes_of attrs x with
  | None => MErr
  | Some A0 =>
      let A := sort_nat (all_if_empty (List.length (sh x)) A0) in
      if negb (nodup_nat A) then MErr else
      match model_data mx (dt x) (sh x) (pl x) A with
      | None => MPanic
      | Some data =>
          MOk [Some {| dt := dt x;
                       sh := out_shape (sh x) A (match find_int "keepdims" attrs with Some v => (v =? 1) | None => true end);
                       pl := data |}]
      end
  end.
Proof. reflexivity. Qed.

Lemma spec_res_redspec mx x A : List.length (pl x) = numel (sh x) -> keys_ok (dt x) (pl x) ->
  spec_res mx x A = redspec mx (dt x) (sh x) (pl x) A.
Proof.
  intros Hlen HP. unfold spec_res, redspec. apply map_ext_in. intros sl Hsl.
  apply (sel_vred mx x sl HP). intros i Hi. rewrite Hlen. apply flat_lt. exact (slices_valid (sh x) A sl i Hsl Hi).
Qed.

Lemma all_if_empty_lt attrs x A0 : axes_of attrs x = Some A0 ->
  forall a, In a (all_if_empty (List.length (sh x)) A0) -> (a < List.length (sh x))%nat.
Proof.
  intros HA a Ha. unfold all_if_empty in Ha. destruct A0 as [|a0 A0'].
  - apply in_seq in Ha. lia.
  - unfold axes_of in HA. destruct (find_ints "axes" attrs) as [l|]; [|discriminate HA].
    exact (norm_axes_lt _ l _ HA a Ha).
Qed.

Lemma all_if_empty_nonempty r A0 : all_if_empty r A0 <> [] \/ r = 0%nat.
Proof.
  unfold all_if_empty. destruct A0 as [|a0 A0']; [|left; discriminate].
  destruct r as [|r]; [right; reflexivity | left; discriminate].
Qed.

(* the common part: once the model's payload is the specification's, the outcomes agree *)
Lemma reduce_refines_core mx attrs x A0 :
  List.length (pl x) = numel (sh x) -> keys_ok (dt x) (pl x) -> axes_of attrs x = Some A0 ->
  nodup_nat (sort_nat (all_if_empty (List.length (sh x)) A0)) = true ->
  model_data mx (dt x) (sh x) (pl x) (sort_nat (all_if_empty (List.length (sh x)) A0))
  = Some (redspec mx (dt x) (sh x) (pl x) (sort_nat (all_if_empty (List.length (sh x)) A0))) ->
  refines (reduce_spec mx attrs x) (reduce_model mx attrs x).
Proof.
  intros Hlen HP HA Hnd Hdata. rewrite reduce_spec_unfold, reduce_model_unfold. rewrite HA. cbv zeta.
  set (A' := all_if_empty (List.length (sh x)) A0) in *. set (A := sort_nat A') in *.
  rewrite Hnd. cbn [negb].
  assert (Hmem : forall k, memn k A = memn k A') by (intros k; apply memn_sort).
  rewrite Hdata. rewrite (spec_res_redspec mx x A' Hlen HP).
  unfold redspec. rewrite (slices_ext A A' (sh x) Hmem). rewrite (out_shape_ext A A' (sh x) _ Hmem).
  destruct (dt x); simpl; auto.
Qed.

(* (B) ReduceMax (mx = true) / ReduceMin (mx = false), rank <= 3, positive extents, well-formed
   payload without NaN whose equal keys mean equal entries, no axis named twice *)
Theorem reduce_refines mx attrs x :
  (List.length (sh x) <= 3)%nat -> Forall (fun e => (1 <= e)%nat) (sh x) ->
  List.length (pl x) = numel (sh x) -> keys_ok (dt x) (pl x) -> dup_axes attrs x = false ->
  refines (reduce_spec mx attrs x) (reduce_model mx attrs x).
Proof.
  intros Hr Hpos Hlen HP Hdup.
  unfold dup_axes in Hdup. destruct (axes_of attrs x) as [A0|] eqn:HA.
  2:{ rewrite reduce_spec_unfold, reduce_model_unfold, HA. reflexivity. }
  apply negb_false_iff in Hdup.
  apply (reduce_refines_core mx attrs x A0 Hlen HP HA Hdup).
  set (A' := all_if_empty (List.length (sh x)) A0) in *. set (A := sort_nat A') in *.
  apply model_data_ok; try assumption.
  - apply lsorted_nodup_ssorted; [apply sort_lsorted | exact Hdup].
  - destruct (all_if_empty_nonempty (List.length (sh x)) A0) as [Hne | H0].
    + left. fold A' in Hne. intros HE. apply Hne. destruct A' as [|a1 A1] eqn:EA; [reflexivity|].
      exfalso. assert (Hin : In a1 A) by (apply (proj2 (In_sort_nat a1 (a1 :: A1))); left; reflexivity).
      rewrite HE in Hin. destruct Hin.
    + right. destruct (sh x); [reflexivity | discriminate H0].
  - intros a Ha. apply (proj1 (In_sort_nat a A')) in Ha. exact (all_if_empty_lt attrs x A0 HA a Ha).
Qed.

(* ---- beyond rank 3: what does not touch the middle-axis kernel is right at ANY rank ---- *)
Lemma sort_seq : forall n b, sort_nat (seq b n) = seq b n.
Proof.
  induction n as [|n IH]; intros b; [reflexivity|].
  unfold sort_nat in *. cbn [seq fold_right]. rewrite (IH (S b)).
  destruct n as [|n]; [reflexivity|]. cbn [seq insert_sorted].
  replace (b <=? S b)%nat with true by (symmetry; apply Nat.leb_le; lia). reflexivity.
Qed.
Lemma nodup_seq : forall n b, nodup_nat (seq b n) = true.
Proof.
  induction n as [|n IH]; intros b; [reflexivity|].
  cbn [seq nodup_nat]. rewrite (IH (S b)). rewrite andb_true_r. apply negb_true_iff.
  destruct (memn b (seq (S b) n)) eqn:E; [|reflexivity].
  apply (proj1 (memn_In b (seq (S b) n))) in E. apply in_seq in E. lia.
Qed.

(* no `axes` attribute, or an empty one: the reduction over all axes, any rank *)
Theorem reduce_refines_all_axes mx attrs x :
  Forall (fun e => (1 <= e)%nat) (sh x) -> List.length (pl x) = numel (sh x) -> keys_ok (dt x) (pl x) ->
  axes_of attrs x = Some [] -> refines (reduce_spec mx attrs x) (reduce_model mx attrs x).
Proof.
  intros Hpos Hlen HP HA. apply (reduce_refines_core mx attrs x [] Hlen HP HA); cbn [all_if_empty]; rewrite sort_seq.
  - apply nodup_seq.
  - apply model_data_full; [|apply seq_length | exact Hpos | exact Hlen].
    intros t Ht. apply (proj2 (memn_In t (seq 0 (List.length (sh x))))). apply in_seq. lia.
Qed.

(* a single axis that is the first or the last one, any rank *)
Theorem reduce_refines_edge_axis mx attrs x ax :
  Forall (fun e => (1 <= e)%nat) (sh x) -> List.length (pl x) = numel (sh x) -> keys_ok (dt x) (pl x) ->
  axes_of attrs x = Some [ax] -> (ax = 0%nat \/ S ax = List.length (sh x)) ->
  refines (reduce_spec mx attrs x) (reduce_model mx attrs x).
Proof.
  intros Hpos Hlen HP HA Hax. apply (reduce_refines_core mx attrs x [ax] Hlen HP HA); cbn [all_if_empty sort_nat fold_right insert_sorted].
  - reflexivity.
  - destruct (Nat.eq_dec (List.length (sh x)) 1) as [H1 | H1].
    + assert (ax = 0%nat) by lia. subst ax.
      apply model_data_full; [|symmetry; exact H1 | exact Hpos | exact Hlen].
      intros t Ht. assert (t = 0%nat) by lia. subst t. reflexivity.
    + apply model_data_edge; assumption.
Qed.

(* the witness for the duplicate-axes carve-out: specification = a tensor, model = an error *)
Example dup_axes_disagree :
  let x := {| dt := Int64; sh := [2%nat; 2%nat]; pl := [1; 2; 3; 4] |} in
  let attrs := [AInts "axes" [0; -2]] in
  dup_axes attrs x = true /\
  reduce_spec true attrs x = SMust [Some {| dt := Int64; sh := [1%nat; 2%nat]; pl := [3; 4] |}] /\
  reduce_model true attrs x = MErr.
Proof. vm_compute. repeat split. Qed.

(* the witness for the keys_ok restriction: +0 and -0 in one slice have the same key; the
   specification returns the FIRST best entry, the kernels (a > b ? a : b) the LAST *)
Example signed_zero_disagree :
  let x := {| dt := Float32; sh := [2%nat]; pl := [0; 2147483648] |} in
  reduce_spec true [] x = SMust [Some {| dt := Float32; sh := [1%nat]; pl := [0] |}] /\
  reduce_model true [] x = MOk [Some {| dt := Float32; sh := [1%nat]; pl := [2147483648] |}] /\
  reduce_spec false [] x = SMust [Some {| dt := Float32; sh := [1%nat]; pl := [0] |}] /\
  reduce_model false [] x = MOk [Some {| dt := Float32; sh := [1%nat]; pl := [2147483648] |}].
Proof. vm_compute. repeat split. Qed.

(* NaN: the specification skips entries without a key, `pick` lets whatever follows a NaN win *)
Example nan_disagree :
  let x := {| dt := Float32; sh := [3%nat]; pl := [1065353216; 2143289344; 0] |} in
  reduce_spec true [] x = SMust [Some {| dt := Float32; sh := [1%nat]; pl := [1065353216] |}] /\
  reduce_model true [] x = MOk [Some {| dt := Float32; sh := [1%nat]; pl := [0] |}].
Proof. vm_compute. repeat split. Qed.

(* a zero extent: the specification has one (empty) slice and writes 0, the code returns no entry *)
Example zero_extent_disagree :
  let x := {| dt := Int64; sh := [2%nat; 0%nat]; pl := [] |} in
  reduce_spec true [] x = SMust [Some {| dt := Int64; sh := [1%nat; 1%nat]; pl := [0] |}] /\
  reduce_model true [] x = MOk [Some {| dt := Int64; sh := [1%nat; 1%nat]; pl := [] |}].
Proof. vm_compute. repeat split. Qed.

(* ---- a decidable sufficient condition for keys_ok ---- *)
Definition float_plain (w : fw) (l : list Z) : bool :=
  let top := match w with W32 => 4294967296 | W64 => 18446744073709551616 end in
  let sgn := match w with W32 => 2147483648 | W64 => 9223372036854775808 end in
  forallb (fun v => (0 <=? v) && (v <? top) && match decode w v with VNaN => false | _ => true end) l
  && negb (existsb (Z.eqb 0) l && existsb (Z.eqb sgn) l).
Definition pl_plain (d : dtype) (l : list Z) : bool :=
  match d with Float32 => float_plain W32 l | Float64 => float_plain W64 l | _ => true end.

Lemma existsb_eqb_In v l : In v l -> existsb (Z.eqb v) l = true.
Proof. intros H. apply existsb_exists. exists v. split; [exact H | apply Z.eqb_refl]. Qed.

Lemma pl_plain_keys_ok d l : pl_plain d l = true -> keys_ok d l.
Proof.
  intros H. destruct d; try (split; [intros v _; discriminate | intros a b _ _ E; inversion E; reflexivity]).
  - (* Float32 *)
    unfold pl_plain, float_plain in H. apply andb_true_iff in H. destruct H as [Hall Hz].
    rewrite forallb_forall in Hall. apply negb_true_iff in Hz. split.
    + intros v Hv. specialize (Hall v Hv). apply andb_true_iff in Hall. destruct Hall as [_ Hn].
      unfold okey. destruct (decode W32 v); [discriminate Hn | discriminate | discriminate].
    + intros a b Ha Hb E.
      pose proof (Hall a Ha) as Ea. pose proof (Hall b Hb) as Eb.
      apply andb_true_iff in Ea. destruct Ea as [Ra Na]. apply andb_true_iff in Ra. destruct Ra as [Ra1 Ra2].
      apply andb_true_iff in Eb. destruct Eb as [Rb Nb]. apply andb_true_iff in Rb. destruct Rb as [Rb1 Rb2].
      apply Z.leb_le in Ra1. apply Z.ltb_lt in Ra2. apply Z.leb_le in Rb1. apply Z.ltb_lt in Rb2.
      unfold okey in E.
      destruct (decode W32 a); [discriminate Na | |]; (destruct (decode W32 b); [discriminate Nb | |]);
        inversion E as [E'];
        destruct (Z.ltb_spec a 2147483648); destruct (Z.ltb_spec b 2147483648); try lia;
        exfalso;
        [ assert (a = 0 /\ b = 2147483648) as [-> ->] by lia
        | assert (b = 0 /\ a = 2147483648) as [-> ->] by lia
        | assert (a = 0 /\ b = 2147483648) as [-> ->] by lia
        | assert (b = 0 /\ a = 2147483648) as [-> ->] by lia
        | assert (a = 0 /\ b = 2147483648) as [-> ->] by lia
        | assert (b = 0 /\ a = 2147483648) as [-> ->] by lia
        | assert (a = 0 /\ b = 2147483648) as [-> ->] by lia
        | assert (b = 0 /\ a = 2147483648) as [-> ->] by lia ];
        rewrite (existsb_eqb_In _ l Ha), (existsb_eqb_In _ l Hb) in Hz; discriminate Hz.
  - (* Float64 *)
    unfold pl_plain, float_plain in H. apply andb_true_iff in H. destruct H as [Hall Hz].
    rewrite forallb_forall in Hall. apply negb_true_iff in Hz. split.
    + intros v Hv. specialize (Hall v Hv). apply andb_true_iff in Hall. destruct Hall as [_ Hn].
      unfold okey. destruct (decode W64 v); [discriminate Hn | discriminate | discriminate].
    + intros a b Ha Hb E.
      pose proof (Hall a Ha) as Ea. pose proof (Hall b Hb) as Eb.
      apply andb_true_iff in Ea. destruct Ea as [Ra Na]. apply andb_true_iff in Ra. destruct Ra as [Ra1 Ra2].
      apply andb_true_iff in Eb. destruct Eb as [Rb Nb]. apply andb_true_iff in Rb. destruct Rb as [Rb1 Rb2].
      apply Z.leb_le in Ra1. apply Z.ltb_lt in Ra2. apply Z.leb_le in Rb1. apply Z.ltb_lt in Rb2.
      unfold okey in E.
      destruct (decode W64 a); [discriminate Na | |]; (destruct (decode W64 b); [discriminate Nb | |]);
        inversion E as [E'];
        destruct (Z.ltb_spec a 9223372036854775808); destruct (Z.ltb_spec b 9223372036854775808); try lia;
        exfalso;
        [ assert (a = 0 /\ b = 9223372036854775808) as [-> ->] by lia
        | assert (b = 0 /\ a = 9223372036854775808) as [-> ->] by lia
        | assert (a = 0 /\ b = 9223372036854775808) as [-> ->] by lia
        | assert (b = 0 /\ a = 9223372036854775808) as [-> ->] by lia
        | assert (a = 0 /\ b = 9223372036854775808) as [-> ->] by lia
        | assert (b = 0 /\ a = 9223372036854775808) as [-> ->] by lia
        | assert (a = 0 /\ b = 9223372036854775808) as [-> ->] by lia
        | assert (b = 0 /\ a = 9223372036854775808) as [-> ->] by lia ];
        rewrite (existsb_eqb_In _ l Ha), (existsb_eqb_In _ l Hb) in Hz; discriminate Hz.
Qed.

Corollary reduce_refines_plain mx attrs x :
  (List.length (sh x) <= 3)%nat -> Forall (fun e => (1 <= e)%nat) (sh x) ->
  wf_tval x = true -> pl_plain (dt x) (pl x) = true -> dup_axes attrs x = false ->
  refines (reduce_spec mx attrs x) (reduce_model mx attrs x).
Proof.
  intros Hr Hpos Hwf Hpl Hdup. apply reduce_refines; try assumption.
  - unfold wf_tval in Hwf. apply Nat.eqb_eq in Hwf. exact Hwf.
  - apply pl_plain_keys_ok. exact Hpl.
Qed.

(* ================================================================================== *)
(* 8. The case level: CheckC09.spec / CheckC09.model / known_class                     *)
(* ================================================================================== *)

(* what is assumed of a ReduceMax / ReduceMin case besides known_class = None (nothing for ArgMax) *)
Definition reduce_side (c : opcase) : Prop :=
  match oc_ins c with
  | [Some x] =>
      if is_op (oc_op c) "ArgMax" then True
      else Forall (fun e => (1 <= e)%nat) (sh x) /\ List.length (pl x) = numel (sh x) /\
           keys_ok (dt x) (pl x) /\ dup_axes (oc_attrs c) x = false
  | _ => True
  end.

Theorem c09_refines c :
  is_op (oc_op c) "ArgMax" || is_op (oc_op c) "ReduceMax" || is_op (oc_op c) "ReduceMin" = true ->
  known_class c = None -> reduce_side c -> refines (spec c) (model c).
Proof.
  intros Hop Hk Hside. unfold spec, model, known_class, reduce_side in *.
  destruct (oc_ins c) as [|[x|] [|y r]]; try exact I.
  destruct (is_op (oc_op c) "ArgMax") eqn:Ham.
  - apply argmax_refines. destruct (existsb (is_nan_or_pinf (dt x)) (pl x)); [discriminate Hk | reflexivity].
  - destruct Hside as (Hpos & Hlen & HP & Hdup). cbn [orb] in Hop.
    rewrite Hop in Hk.
    assert (Hr : (List.length (sh x) <= 3)%nat).
    { destruct (4 <=? List.length (sh x))%nat eqn:E; [discriminate Hk|]. apply Nat.leb_gt in E. lia. }
    destruct (is_op (oc_op c) "ReduceMax") eqn:Hmax.
    + apply reduce_refines; assumption.
    + cbn [orb] in Hop. rewrite Hop. apply reduce_refines; assumption.
Qed.

(* the same with decidable side conditions *)
Definition reduce_side_b (c : opcase) : bool :=
  match oc_ins c with
  | [Some x] =>
      if is_op (oc_op c) "ArgMax" then true
      else forallb (fun e => (1 <=? e)%nat) (sh x) && wf_tval x && pl_plain (dt x) (pl x)
           && negb (dup_axes (oc_attrs c) x)
  | _ => true
  end.

Corollary c09_refines_b c :
  is_op (oc_op c) "ArgMax" || is_op (oc_op c) "ReduceMax" || is_op (oc_op c) "ReduceMin" = true ->
  known_class c = None -> reduce_side_b c = true -> refines (spec c) (model c).
Proof.
  intros Hop Hk Hb. apply c09_refines; [exact Hop | exact Hk |].
  unfold reduce_side, reduce_side_b in *. destruct (oc_ins c) as [|[x|] [|y r]]; try exact I.
  destruct (is_op (oc_op c) "ArgMax"); [exact I|].
  apply andb_true_iff in Hb. destruct Hb as [Hb Hd]. apply andb_true_iff in Hb. destruct Hb as [Hb Hp].
  apply andb_true_iff in Hb. destruct Hb as [Hpos Hwf].
  split; [|split; [|split]].
  - apply Forall_forall. intros e He. rewrite forallb_forall in Hpos. apply Nat.leb_le. exact (Hpos e He).
  - unfold wf_tval in Hwf. apply Nat.eqb_eq in Hwf. exact Hwf.
  - apply pl_plain_keys_ok. exact Hp.
  - apply negb_true_iff in Hd. exact Hd.
Qed.

Print Assumptions argmax_refines.
Print Assumptions reduce_refines.
Print Assumptions reduce_refines_plain.
Print Assumptions c09_refines.
Print Assumptions c09_refines_b.
Print Assumptions reduce_refines_all_axes.
Print Assumptions reduce_refines_edge_axis.
Print Assumptions reduce_axis_go_mid.
