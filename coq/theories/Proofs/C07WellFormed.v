(* C07: every value S demands (or allows) for a well-formed input is a well-formed tensor:
   payload length = number of elements of the demanded shape *)
From Coq Require Import List ZArith Bool Lia String.
From V Require Import DType Tensor Case OpCheck ShapeOps CheckC07 ShapeOpsProofs C07Payload C07Numel C07Numel2 C07Numel3.
Import ListNotations.
Open Scope Z_scope.

Lemma total_numel t : total t = Z.of_nat (numel (sh t)).
Proof.
  unfold total, zshape. induction (sh t) as [|d s IH]; [reflexivity|].
  cbn [map numel]. rewrite zprod_cons, IH. lia.
Qed.

Lemma wf_transfer t v : pl v = pl t -> total v = total t -> wf_tval t = true -> wf_tval v = true.
Proof.
  unfold wf_tval. intros Hp Ht Hw. apply Nat.eqb_eq in Hw. apply Nat.eqb_eq.
  rewrite !total_numel in Ht. rewrite Hp, Hw. lia.
Qed.

Lemma squeeze_axes_keeps t a v :
  squeeze_spec t (Some a) = SMust [Some v] \/ squeeze_spec t (Some a) = SEither [Some v] -> pl v = pl t /\ dt v = dt t.
Proof.
  unfold squeeze_spec, SMust1, SEither1, with_shape. intros H.
  destruct (sh a) as [|? [|? ?]]; try (destruct H; discriminate).
  destruct (negb (forallb _ (pl a))); [destruct H; discriminate|].
  destruct (negb (forallb _ _)); [destruct H; discriminate|].
  destruct (_ <? _)%nat; destruct H as [H|H]; try discriminate; inversion H; subst; cbn; auto.
Qed.

Lemma reshape_wf t shp v : wf_tval t = true -> reshape_spec t shp = SMust [Some v] -> wf_tval v = true.
Proof.
  intros Hw H. apply (wf_transfer t v); [|now apply (reshape_inferred_keeps_count t shp)|exact Hw].
  revert H. unfold reshape_spec, SMust1, with_shape. intros H.
  repeat match type of H with
         | context [match ?x with _ => _ end] => destruct x; try discriminate
         end; inversion H; subst; cbn; auto.
Qed.
Lemma flatten_wf axis t v : wf_tval t = true -> flatten_spec axis t = SMust [Some v] -> wf_tval v = true.
Proof. intros Hw H. apply (wf_transfer t v); [apply (flatten_keeps axis t v H)|apply (flatten_keeps_count axis t v H)|exact Hw]. Qed.
Lemma unsqueeze_wf t axes v : wf_tval t = true -> unsqueeze_spec t axes = SMust [Some v] -> wf_tval v = true.
Proof. intros Hw H. apply (wf_transfer t v); [apply (unsqueeze_keeps t axes v H)|apply (unsqueeze_keeps_count t axes v H)|exact Hw]. Qed.
Lemma squeeze_wf t axes v : wf_tval t = true ->
  squeeze_spec t axes = SMust [Some v] \/ squeeze_spec t axes = SEither [Some v] -> wf_tval v = true.
Proof.
  intros Hw H. destruct axes as [a|].
  - apply (wf_transfer t v); [apply (squeeze_axes_keeps t a v H)|apply (squeeze_axes_keeps_count t a v H)|exact Hw].
  - destruct H as [H|H]; [|unfold squeeze_spec, SMust1 in H; discriminate].
    apply (wf_transfer t v); [apply (squeeze_keeps t None v H)|apply (squeeze_all_keeps_count t v H)|exact Hw].
Qed.
