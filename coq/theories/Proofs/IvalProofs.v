(* Soundness of the interval enclosures of G/Ival.v: every enclosure function contains the real
   function it is named after.  Built on the correctness theorems of the Coq Interval library. *)
From Coq Require Import ZArith List Bool Reals Lra Lia.
From Flocq Require Import Core.Raux Core.Zaux.
From Interval Require Import Float.Specific_ops Float.Specific_bigint Float.Basic Interval.Interval Interval.Float Interval.Float_full Real.Xreal.
From Coquelicot Require Import Coquelicot.
From Interval Require Import Tactic.
From V Require Import G.Ival.
Import ListNotations.
Local Open Scope R_scope.

(* ---------------------------------------------------------------- basic facts *)

Lemma convert_bnd l u : I.convert (I.bnd l u) = Interval.Ibnd (F.toX l) (F.toX u).
Proof. reflexivity. Qed.

Lemma fz_correct m e : F.toX (fz m e) = Xreal (IZR m * bpow radix2 e).
Proof.
  unfold fz. rewrite F.scale2_correct by reflexivity. rewrite F.fromZ_correct'. simpl.
  unfold F.StoZ, F.ZtoS, BigIntRadix2.EtoZ, BigIntRadix2.ZtoE.
  rewrite Bignums.BigZ.BigZ.BigZ.spec_of_Z. reflexivity.
Qed.

Lemma convert_iv lm le um ue :
  I.convert (iv lm le um ue) = Interval.Ibnd (Xreal (IZR lm * bpow radix2 le)) (Xreal (IZR um * bpow radix2 ue)).
Proof. unfold iv. rewrite convert_bnd, !fz_correct. reflexivity. Qed.

Lemma convert_pt m e :
  I.convert (pt m e) = Interval.Ibnd (Xreal (IZR m * bpow radix2 e)) (Xreal (IZR m * bpow radix2 e)).
Proof. unfold pt. rewrite convert_bnd, !fz_correct. reflexivity. Qed.

Lemma pt_correct m e : contains (I.convert (pt m e)) (Xreal (IZR m * bpow radix2 e)).
Proof. rewrite convert_pt. simpl. lra. Qed.

Lemma contains_iv lm le um ue x :
  contains (I.convert (iv lm le um ue)) (Xreal x) <->
  IZR lm * bpow radix2 le <= x <= IZR um * bpow radix2 ue.
Proof. rewrite convert_iv. simpl. tauto. Qed.

Lemma izero_correct : contains (I.convert izero) (Xreal 0).
Proof. unfold izero. rewrite convert_pt. simpl. lra. Qed.
Lemma ione_correct : contains (I.convert ione) (Xreal 1).
Proof. unfold ione. rewrite convert_pt. simpl. lra. Qed.
Lemma itwo_correct : contains (I.convert itwo) (Xreal 2).
Proof. unfold itwo. rewrite convert_pt. simpl. lra. Qed.
Lemma ihalf_correct : contains (I.convert ihalf) (Xreal (/ 2)).
Proof. unfold ihalf. rewrite convert_pt. simpl. lra. Qed.

Lemma c800_correct : contains (I.convert c800) (Xreal 800).
Proof. unfold c800. rewrite convert_pt. unfold contains. simpl bpow. lra. Qed.

(* a real member excludes Inan-only reasoning: contains of a real in an interval gives the bounds *)
Lemma contains_real_not_nan i x : contains i x -> i <> Interval.Inan -> exists r, x = Xreal r.
Proof. destruct i; [congruence|]. destruct x; simpl; [tauto|]. eauto. Qed.

(* lower / upper bound of a (non-empty) enclosure *)
Lemma lower_le E v :
  contains (I.convert E) (Xreal v) ->
  match F.toX (I.lower E) with Xnan => True | Xreal l => l <= v end.
Proof.
  intros H. assert (Hne : not_empty (I.convert E)) by (exists v; exact H).
  rewrite (I.lower_correct E Hne).
  destruct (I.convert E) as [|l u]; simpl; [exact I|].
  simpl in H. destruct l; tauto.
Qed.

Lemma upper_ge E v :
  contains (I.convert E) (Xreal v) ->
  match F.toX (I.upper E) with Xnan => True | Xreal u => v <= u end.
Proof.
  intros H. assert (Hne : not_empty (I.convert E)) by (exists v; exact H).
  rewrite (I.upper_correct E Hne).
  destruct (I.convert E) as [|l u]; simpl; [exact I|].
  simpl in H. destruct u; tauto.
Qed.

(* lifted forms of Interval's correctness theorems, on real members *)
Lemma add_real a b x y :
  contains (I.convert a) (Xreal x) -> contains (I.convert b) (Xreal y) ->
  contains (I.convert (I.add prec a b)) (Xreal (x + y)).
Proof. intros Ha Hb. exact (I.add_correct prec a b _ _ Ha Hb). Qed.
Lemma sub_real a b x y :
  contains (I.convert a) (Xreal x) -> contains (I.convert b) (Xreal y) ->
  contains (I.convert (I.sub prec a b)) (Xreal (x - y)).
Proof. intros Ha Hb. exact (I.sub_correct prec a b _ _ Ha Hb). Qed.
Lemma mul_real a b x y :
  contains (I.convert a) (Xreal x) -> contains (I.convert b) (Xreal y) ->
  contains (I.convert (I.mul prec a b)) (Xreal (x * y)).
Proof. intros Ha Hb. exact (I.mul_correct prec a b _ _ Ha Hb). Qed.
Lemma div_real a b x y :
  y <> 0 ->
  contains (I.convert a) (Xreal x) -> contains (I.convert b) (Xreal y) ->
  contains (I.convert (I.div prec a b)) (Xreal (x / y)).
Proof.
  intros Hy Ha Hb. generalize (I.div_correct prec a b _ _ Ha Hb).
  simpl. unfold Xdiv'. rewrite is_zero_false by exact Hy. auto.
Qed.
Lemma neg_real a x :
  contains (I.convert a) (Xreal x) -> contains (I.convert (I.neg a)) (Xreal (- x)).
Proof. intros Ha. exact (I.neg_correct a _ Ha). Qed.
Lemma abs_real a x :
  contains (I.convert a) (Xreal x) -> contains (I.convert (I.abs a)) (Xreal (Rabs x)).
Proof. intros Ha. exact (I.abs_correct a _ Ha). Qed.
Lemma sqr_real a x :
  contains (I.convert a) (Xreal x) -> contains (I.convert (I.sqr prec a)) (Xreal (x * x)).
Proof. intros Ha. exact (I.sqr_correct prec a _ Ha). Qed.
Lemma sqrt_real a x :
  contains (I.convert a) (Xreal x) -> contains (I.convert (I.sqrt prec a)) (Xreal (sqrt x)).
Proof. intros Ha. exact (I.sqrt_correct prec a _ Ha). Qed.
Lemma ln_real a x :
  0 < x ->
  contains (I.convert a) (Xreal x) -> contains (I.convert (I.ln prec a)) (Xreal (ln x)).
Proof.
  intros Hx Ha. generalize (I.ln_correct prec a _ Ha).
  simpl. unfold Xln'. rewrite is_positive_true by exact Hx. auto.
Qed.
Lemma atan_real a x :
  contains (I.convert a) (Xreal x) -> contains (I.convert (I.atan prec a)) (Xreal (atan x)).
Proof. intros Ha. exact (I.atan_correct prec a _ Ha). Qed.
Lemma exp_real a x :
  contains (I.convert a) (Xreal x) -> contains (I.convert (I.exp prec a)) (Xreal (exp x)).
Proof. intros Ha. exact (I.exp_correct prec a _ Ha). Qed.

(* ---------------------------------------------------------------- sexp *)

Theorem sexp_correct : forall b x,
  contains (I.convert b) (Xreal x) -> contains (I.convert (sexp b)) (Xreal (exp x)).
Proof.
  intros b x Hx. unfold sexp.
  destruct (I.subset b (iv (-800) 0 800 0)) eqn:H1.
  { apply exp_real; exact Hx. }
  destruct (I.subset b (I.bnd (fz 800 0) F.nan)) eqn:H2.
  { pose proof (I.subset_correct _ _ _ Hx H2) as Hc.
    rewrite convert_bnd, fz_correct in Hc. simpl in Hc.
    assert (H800 : contains (I.convert (I.exp prec c800)) (Xreal (exp 800))).
    { apply exp_real. exact c800_correct. }
    pose proof (lower_le _ _ H800) as Hl.
    rewrite convert_bnd. rewrite I.F'.nan_correct.
    assert (exp 800 <= exp x) by (apply exp_le; lra).
    destruct (F.toX (I.lower (I.exp prec c800))); simpl; [tauto|]. split; [lra|exact I]. }
  destruct (I.subset b (I.bnd F.nan (fz (-800) 0))) eqn:H3.
  { pose proof (I.subset_correct _ _ _ Hx H3) as Hc.
    rewrite convert_bnd, fz_correct in Hc. simpl in Hc.
    assert (H800 : contains (I.convert (I.exp prec (I.neg c800))) (Xreal (exp (- 800)))).
    { apply exp_real. apply neg_real. exact c800_correct. }
    pose proof (upper_ge _ _ H800) as Hl.
    rewrite convert_bnd. rewrite F.zero_correct.
    assert (exp x <= exp (- 800)) by (apply exp_le; lra).
    pose proof (exp_pos x).
    destruct (F.toX (I.upper (I.exp prec (I.neg c800)))); simpl; [lra|]. lra. }
  rewrite convert_bnd, F.zero_correct, I.F'.nan_correct. simpl.
  pose proof (exp_pos x). split; [lra|exact I].
Qed.

(* in Interval's ExtendedR form, for every enclosure other than Inan *)
Corollary sexp_extension_not_nan : forall b x,
  I.convert b <> Interval.Inan ->
  contains (I.convert b) x -> contains (I.convert (sexp b)) (Xexp x).
Proof.
  intros b x Hn Hx. destruct (contains_real_not_nan _ _ Hx Hn) as (r & ->).
  apply sexp_correct. exact Hx.
Qed.

(* sexp is NOT an extension of Xexp in Interval's sense on the undefined value: the enclosure of
   "anything, possibly undefined" is [0, +oo), which does not contain Xnan. *)
Lemma sexp_not_extension : ~ I.extension Xexp sexp.
Proof.
  intros H. specialize (H Inan Xnan I). vm_compute in H. exact H.
Qed.

Theorem r_exp_correct : forall b x,
  contains (I.convert b) (Xreal x) -> contains (I.convert (r_exp b)) (Xreal (exp x)).
Proof. exact sexp_correct. Qed.

(* ---------------------------------------------------------------- guarded trigonometry *)

Lemma unit_iv_correct v : -1 <= v <= 1 -> contains (I.convert (iv (-1) 0 1 0)) (Xreal v).
Proof. intros H. apply contains_iv. simpl bpow. lra. Qed.

Theorem ssin_correct : forall b x,
  contains (I.convert b) (Xreal x) -> contains (I.convert (ssin b)) (Xreal (sin x)).
Proof.
  intros b x Hx. unfold ssin. destruct (trig_ok b).
  - exact (I.sin_correct prec b _ Hx).
  - apply unit_iv_correct. apply SIN_bound.
Qed.

Theorem scos_correct : forall b x,
  contains (I.convert b) (Xreal x) -> contains (I.convert (scos b)) (Xreal (cos x)).
Proof.
  intros b x Hx. unfold scos. destruct (trig_ok b).
  - exact (I.cos_correct prec b _ Hx).
  - apply unit_iv_correct. apply COS_bound.
Qed.

Theorem stan_correct : forall b x,
  cos x <> 0 ->
  contains (I.convert b) (Xreal x) -> contains (I.convert (stan b)) (Xreal (tan x)).
Proof.
  intros b x Hc Hx. unfold stan. destruct (trig_ok b).
  - generalize (I.tan_correct prec b _ Hx). simpl. unfold Xtan'.
    rewrite is_zero_false by exact Hc. auto.
  - rewrite convert_bnd, I.F'.nan_correct. simpl. tauto.
Qed.

(* ---------------------------------------------------------------- sigmoid, cosh, sinh, tanh *)

Theorem r_sigmoid_correct : forall b x,
  contains (I.convert b) (Xreal x) ->
  contains (I.convert (r_sigmoid b)) (Xreal (1 / (1 + exp (- x)))).
Proof.
  intros b x Hx. unfold r_sigmoid.
  apply div_real.
  - pose proof (exp_pos (- x)). lra.
  - exact ione_correct.
  - apply add_real; [exact ione_correct|]. apply sexp_correct. apply neg_real. exact Hx.
Qed.

Theorem r_cosh_correct : forall b x,
  contains (I.convert b) (Xreal x) -> contains (I.convert (r_cosh b)) (Xreal (cosh x)).
Proof.
  intros b x Hx. unfold r_cosh.
  replace (cosh x) with (/ 2 * (exp x + exp (- x))) by (unfold cosh; lra).
  apply mul_real; [exact ihalf_correct|].
  apply add_real; apply sexp_correct; [exact Hx|apply neg_real; exact Hx].
Qed.

Lemma sinh_formula_correct : forall b x,
  contains (I.convert b) (Xreal x) ->
  contains (I.convert (I.mul prec ihalf (I.sub prec (sexp b) (sexp (I.neg b))))) (Xreal (sinh x)).
Proof.
  intros b x Hx.
  replace (sinh x) with (/ 2 * (exp x - exp (- x))) by (unfold sinh; lra).
  apply mul_real; [exact ihalf_correct|].
  apply sub_real; apply sexp_correct; [exact Hx|apply neg_real; exact Hx].
Qed.

Lemma tanh_exp2 x : tanh x = (exp (2 * x) - 1) / (exp (2 * x) + 1).
Proof.
  unfold tanh, sinh, cosh.
  replace (2 * x) with (x + x) by lra. rewrite exp_plus, exp_Ropp.
  pose proof (exp_pos x). field. split; nra.
Qed.

Lemma tanh_formula_correct : forall b x,
  contains (I.convert b) (Xreal x) ->
  contains (I.convert (let t := sexp (I.mul prec itwo b) in I.div prec (I.sub prec t ione) (I.add prec t ione)))
           (Xreal (tanh x)).
Proof.
  intros b x Hx. cbv zeta. rewrite tanh_exp2.
  assert (Ht : contains (I.convert (sexp (I.mul prec itwo b))) (Xreal (exp (2 * x)))).
  { apply sexp_correct. apply mul_real; [exact itwo_correct|exact Hx]. }
  apply div_real.
  - pose proof (exp_pos (2 * x)). lra.
  - apply sub_real; [exact Ht|exact ione_correct].
  - apply add_real; [exact Ht|exact ione_correct].
Qed.

(* ---------------------------------------------------------------- widen: the rounding-aware lemma *)

(* unit roundoff and absolute allowance as reals *)
Definition ur (w : fw) : R := bpow radix2 (- ubits w).
Definition etar (w : fw) : R := bpow radix2 (tiny w).

Lemma ur_pos w : 0 < ur w.
Proof. apply bpow_gt_0. Qed.
Lemma etar_pos w : 0 < etar w.
Proof. apply bpow_gt_0. Qed.

Lemma ur_pow w : IZR (2 ^ ubits w) * ur w = 1.
Proof.
  unfold ur. change 2%Z with (radix_val radix2).
  rewrite IZR_Zpower by (destruct w; simpl; lia).
  rewrite <- bpow_plus. replace (ubits w + - ubits w)%Z with 0%Z by lia. reflexivity.
Qed.

Lemma rel_correct w k d :
  Rabs d <= IZR k * ur w -> contains (I.convert (rel w k)) (Xreal (1 + d)).
Proof.
  intros Hd. unfold rel. apply contains_iv. fold (ur w).
  rewrite minus_IZR, plus_IZR.
  pose proof (ur_pow w) as Hp.
  apply Rabs_le_inv in Hd.
  split; nra.
Qed.

Lemma eta_correct w z : Rabs z <= etar w -> contains (I.convert (eta w)) (Xreal z).
Proof.
  intros Hz. unfold eta. apply contains_iv. fold (etar w).
  apply Rabs_le_inv in Hz. lra.
Qed.

Lemma Rabs_div_le a x c : x <> 0 -> Rabs a <= c * Rabs x -> Rabs (a / x) <= c.
Proof.
  intros Hx H. unfold Rdiv. rewrite Rabs_mult, Rabs_inv.
  pose proof (Rabs_pos_lt x Hx) as Hp.
  apply Rmult_le_reg_r with (Rabs x); [exact Hp|].
  rewrite Rmult_assoc, Rinv_l by lra. lra.
Qed.

(* r within relative error c of x plus absolute error t  <->  r = x (1 + d) + z *)
Lemma rel_abs_decompose c t x r :
  0 <= c -> 0 <= t -> Rabs (r - x) <= c * Rabs x + t ->
  exists d z, Rabs d <= c /\ Rabs z <= t /\ r = x * (1 + d) + z.
Proof.
  intros Hc Ht H.
  destruct (Req_dec x 0) as [Hx|Hx].
  { subst x. exists 0, r. rewrite Rabs_R0 in *. rewrite Rminus_0_r in H.
    split; [lra|]. split; [lra|ring]. }
  destruct (Rle_dec (Rabs (r - x)) t) as [Hs|Hs].
  { exists 0, (r - x). rewrite Rabs_R0. split; [lra|]. split; [exact Hs|ring]. }
  assert (Hs' : t < Rabs (r - x)) by lra. clear Hs.
  destruct (Rle_dec 0 (r - x)) as [He|He].
  - rewrite Rabs_pos_eq in H, Hs' by exact He.
    exists ((r - x - t) / x), t. split; [|split].
    + apply Rabs_div_le; [exact Hx|]. rewrite Rabs_pos_eq by lra. lra.
    + rewrite Rabs_pos_eq; lra.
    + field. exact Hx.
  - assert (He' : r - x < 0) by lra.
    rewrite Rabs_left in H, Hs' by exact He'.
    exists ((r - x + t) / x), (- t). split; [|split].
    + apply Rabs_div_le; [exact Hx|]. rewrite Rabs_left by lra. lra.
    + rewrite Rabs_Ropp, Rabs_pos_eq; lra.
    + field. exact Hx.
Qed.

(* the key lemma: whatever a kernel with relative error <= k u (plus the absolute allowance eta)
   returns for an exact value x in b lies in widen w k b *)
Theorem widen_correct : forall w k b x,
  (0 <= k)%Z ->
  contains (I.convert b) (Xreal x) ->
  forall r, Rabs (r - x) <= IZR k * ur w * Rabs x + etar w ->
  contains (I.convert (widen w k b)) (Xreal r).
Proof.
  intros w k b x Hk Hx r Hr.
  destruct (rel_abs_decompose (IZR k * ur w) (etar w) x r) as (d & z & Hd & Hz & ->).
  - apply Rmult_le_pos; [apply IZR_le; exact Hk|apply Rlt_le, ur_pos].
  - apply Rlt_le, etar_pos.
  - exact Hr.
  - unfold widen. apply add_real; [|apply eta_correct; exact Hz].
    apply mul_real; [exact Hx|apply rel_correct; exact Hd].
Qed.

(* the statement in the 2^-ubits / 2^tiny form *)
Corollary widen_correct_pow : forall w k b x,
  (0 <= k)%Z ->
  contains (I.convert b) (Xreal x) ->
  forall r, Rabs (r - x) <= IZR k / IZR (2 ^ ubits w) * Rabs x + bpow radix2 (tiny w) ->
  contains (I.convert (widen w k b)) (Xreal r).
Proof.
  intros w k b x Hk Hx r Hr. apply (widen_correct w k b x Hk Hx).
  replace (IZR k * ur w) with (IZR k / IZR (2 ^ ubits w)); [exact Hr|].
  pose proof (ur_pow w). pose proof (ur_pos w).
  assert (IZR (2 ^ ubits w) <> 0) by (intros E; rewrite E in *; lra).
  unfold Rdiv. f_equal.
  apply Rmult_eq_reg_l with (IZR (2 ^ ubits w)); [|assumption].
  rewrite Rinv_r by assumption. lra.
Qed.

(* an exact value needs no allowance *)
Corollary widen_exact : forall w k b x,
  (0 <= k)%Z -> contains (I.convert b) (Xreal x) -> contains (I.convert (widen w k b)) (Xreal x).
Proof.
  intros w k b x Hk Hx. apply (widen_correct w k b x Hk Hx).
  replace (x - x) with 0 by ring. rewrite Rabs_R0.
  apply Rplus_le_le_0_compat; [|apply Rlt_le, etar_pos].
  repeat apply Rmult_le_pos; [apply IZR_le; exact Hk|apply Rlt_le, ur_pos|apply Rabs_pos].
Qed.

(* the four IEEE operations: a result within one unit roundoff (plus eta) of the exact result *)
Corollary f_add_correct : forall w a b x y r,
  contains (I.convert a) (Xreal x) -> contains (I.convert b) (Xreal y) ->
  Rabs (r - (x + y)) <= ur w * Rabs (x + y) + etar w ->
  contains (I.convert (f_add w a b)) (Xreal r).
Proof.
  intros w a b x y r Ha Hb Hr. unfold f_add.
  apply (widen_correct w 1 _ (x + y)); [lia|apply add_real; assumption|]. lra.
Qed.

Corollary f_sub_correct : forall w a b x y r,
  contains (I.convert a) (Xreal x) -> contains (I.convert b) (Xreal y) ->
  Rabs (r - (x - y)) <= ur w * Rabs (x - y) + etar w ->
  contains (I.convert (f_sub w a b)) (Xreal r).
Proof.
  intros w a b x y r Ha Hb Hr. unfold f_sub.
  apply (widen_correct w 1 _ (x - y)); [lia|apply sub_real; assumption|]. lra.
Qed.

Corollary f_mul_correct : forall w a b x y r,
  contains (I.convert a) (Xreal x) -> contains (I.convert b) (Xreal y) ->
  Rabs (r - x * y) <= ur w * Rabs (x * y) + etar w ->
  contains (I.convert (f_mul w a b)) (Xreal r).
Proof.
  intros w a b x y r Ha Hb Hr. unfold f_mul.
  apply (widen_correct w 1 _ (x * y)); [lia|apply mul_real; assumption|]. lra.
Qed.

Corollary f_div_correct : forall w a b x y r,
  y <> 0 ->
  contains (I.convert a) (Xreal x) -> contains (I.convert b) (Xreal y) ->
  Rabs (r - x / y) <= ur w * Rabs (x / y) + etar w ->
  contains (I.convert (f_div w a b)) (Xreal r).
Proof.
  intros w a b x y r Hy Ha Hb Hr. unfold f_div.
  apply (widen_correct w 1 _ (x / y)); [lia|apply div_real; assumption|]. lra.
Qed.

(* ---------------------------------------------------------------- sums and dot products *)

Definition rsum (xs : list R) : R := fold_right Rplus 0 xs.
Definition encl (i : I.type) (x : R) : Prop := contains (I.convert i) (Xreal x).

Lemma isum_acc : forall l xs acc a,
  Forall2 encl l xs -> encl acc a ->
  encl (fold_left (I.add prec) l acc) (a + rsum xs).
Proof.
  induction l as [|i l IH]; intros xs acc a HF Ha; inversion HF; subst; simpl.
  - replace (a + 0) with a by ring. exact Ha.
  - replace (a + (y + rsum l')) with ((a + y) + rsum l') by ring.
    apply IH; [assumption|]. apply add_real; assumption.
Qed.

Theorem isum_correct : forall l xs,
  Forall2 (fun i x => contains (I.convert i) (Xreal x)) l xs ->
  contains (I.convert (isum l)) (Xreal (rsum xs)).
Proof.
  intros l xs HF. unfold isum.
  replace (rsum xs) with (0 + rsum xs) by ring.
  apply (isum_acc l xs izero 0 HF). exact izero_correct.
Qed.

Lemma Forall2_abs l xs : Forall2 encl l xs -> Forall2 encl (map I.abs l) (map Rabs xs).
Proof. induction 1; simpl; constructor; [apply abs_real; assumption|assumption]. Qed.

Lemma rsum_abs_nonneg xs : 0 <= rsum (map Rabs xs).
Proof. induction xs; simpl; [lra|]. pose proof (Rabs_pos a). lra. Qed.

Lemma err_iv_correct w n d :
  Rabs d <= IZR (2 * n) * ur w ->
  contains (I.convert (iv (- 2 * n) (- ubits w) (2 * n) (- ubits w))) (Xreal d).
Proof.
  intros Hd. apply contains_iv. fold (ur w).
  replace (- 2 * n)%Z with (- (2 * n))%Z by lia. rewrite opp_IZR.
  apply Rabs_le_inv in Hd. lra.
Qed.

(* the shape shared by f_sum and f_dot *)
Lemma sum_enclosure_correct w n S M s m r :
  (0 <= n)%Z -> encl S s -> encl M m -> 0 <= m ->
  Rabs (r - s) <= IZR (2 * n) * ur w * m + etar w ->
  encl (I.add prec (I.add prec S (I.mul prec M (iv (- 2 * n) (- ubits w) (2 * n) (- ubits w)))) (eta w)) r.
Proof.
  intros Hn HS HM Hm Hr.
  destruct (rel_abs_decompose (IZR (2 * n) * ur w) (etar w) m (r - s + m)) as (d & z & Hd & Hz & E).
  - apply Rmult_le_pos; [apply IZR_le; lia|apply Rlt_le, ur_pos].
  - apply Rlt_le, etar_pos.
  - replace (r - s + m - m) with (r - s) by ring. rewrite (Rabs_pos_eq m) by exact Hm. exact Hr.
  - replace r with (s + m * d + z) by lra.
    unfold encl. apply add_real; [|apply eta_correct; exact Hz].
    apply add_real; [exact HS|]. apply mul_real; [exact HM|]. apply err_iv_correct. exact Hd.
Qed.

(* a floating-point sum, in any order: any r within 2 n u sum|x_i| + eta of the exact sum *)
Theorem f_sum_correct : forall w l xs r,
  Forall2 (fun i x => contains (I.convert i) (Xreal x)) l xs ->
  Rabs (r - rsum xs) <= IZR (2 * Z.of_nat (length l)) * ur w * rsum (map Rabs xs) + etar w ->
  contains (I.convert (f_sum w l)) (Xreal r).
Proof.
  intros w l xs r HF Hr. unfold f_sum. cbv zeta.
  apply (sum_enclosure_correct w (Z.of_nat (length l)) _ _ (rsum xs) (rsum (map Rabs xs)) r).
  - lia.
  - apply isum_correct. exact HF.
  - apply isum_correct. apply Forall2_abs. exact HF.
  - apply rsum_abs_nonneg.
  - exact Hr.
Qed.

Definition rprods (xs ys : list R) : list R := map (fun p => fst p * snd p) (combine xs ys).

Lemma Forall2_prods : forall a xs, Forall2 encl a xs -> forall b ys, Forall2 encl b ys ->
  Forall2 encl (map (fun p => I.mul prec (fst p) (snd p)) (combine a b)) (rprods xs ys).
Proof.
  induction 1 as [|i x a xs Hi Ha IH]; intros b ys Hb; [constructor|].
  destruct Hb as [|j y b ys Hj Hb]; [constructor|].
  unfold rprods. simpl. constructor; [apply mul_real; assumption|]. apply IH. exact Hb.
Qed.

Theorem f_dot_correct : forall w a b xs ys r,
  Forall2 (fun i x => contains (I.convert i) (Xreal x)) a xs ->
  Forall2 (fun i x => contains (I.convert i) (Xreal x)) b ys ->
  Rabs (r - rsum (rprods xs ys)) <=
    IZR (2 * (Z.of_nat (length a) + 1)) * ur w * rsum (map Rabs (rprods xs ys)) + etar w ->
  contains (I.convert (f_dot w a b)) (Xreal r).
Proof.
  intros w a b xs ys r Ha Hb Hr. unfold f_dot. cbv zeta.
  pose proof (Forall2_prods a xs Ha b ys Hb) as HP.
  apply (sum_enclosure_correct w (Z.of_nat (length a) + 1) _ _ (rsum (rprods xs ys)) (rsum (map Rabs (rprods xs ys))) r).
  - lia.
  - apply isum_correct. exact HP.
  - apply isum_correct. apply Forall2_abs. exact HP.
  - apply rsum_abs_nonneg.
  - exact Hr.
Qed.

(* ---------------------------------------------------------------- inverse hyperbolic / trigonometric (formula branches) *)

Lemma sqrt_sq1_gt x : Rabs x < sqrt (x * x + 1).
Proof.
  rewrite <- sqrt_Rsqr_abs. apply sqrt_lt_1_alt. unfold Rsqr. split; [nra|lra].
Qed.

Lemma arcsinh_arg_pos x : 0 < x + sqrt (x * x + 1).
Proof.
  pose proof (sqrt_sq1_gt x) as H. destruct (Rabs_def2 _ _ H). lra.
Qed.

Lemma arcsinh_eq x : arcsinh x = ln (x + sqrt (x * x + 1)).
Proof. unfold arcsinh. replace (x ^ 2) with (x * x) by ring. reflexivity. Qed.

Lemma arcsinh_opp x : arcsinh (- x) = - arcsinh x.
Proof.
  rewrite !arcsinh_eq.
  replace (- x * - x) with (x * x) by ring.
  pose proof (arcsinh_arg_pos x) as H1.
  pose proof (arcsinh_arg_pos (- x)) as H2. replace (- x * - x) with (x * x) in H2 by ring.
  assert (E : ln (- x + sqrt (x * x + 1)) + ln (x + sqrt (x * x + 1)) = 0).
  { rewrite <- ln_mult by assumption. rewrite <- ln_1. f_equal.
    assert (S : sqrt (x * x + 1) * sqrt (x * x + 1) = x * x + 1) by (apply sqrt_sqrt; nra).
    nra. }
  lra.
Qed.

Lemma pos_asinh_correct : forall b x,
  contains (I.convert b) (Xreal x) -> contains (I.convert (pos_asinh b)) (Xreal (arcsinh x)).
Proof.
  intros b x Hx. unfold pos_asinh. rewrite arcsinh_eq.
  apply ln_real; [apply arcsinh_arg_pos|].
  apply add_real; [exact Hx|]. apply sqrt_real. apply add_real; [|exact ione_correct].
  apply sqr_real. exact Hx.
Qed.

Lemma asinh_formula_correct : forall b x,
  contains (I.convert b) (Xreal x) ->
  contains (I.convert (if I.subset b (I.bnd F.zero F.nan) then pos_asinh b else I.neg (pos_asinh (I.neg b))))
           (Xreal (arcsinh x)).
Proof.
  intros b x Hx. destruct (I.subset b (I.bnd F.zero F.nan)).
  - apply pos_asinh_correct. exact Hx.
  - replace (arcsinh x) with (- arcsinh (- x)) by (rewrite arcsinh_opp; ring).
    apply neg_real. apply pos_asinh_correct. apply neg_real. exact Hx.
Qed.

(* acosh and atanh are not in the standard library: their textbook definitions *)
Definition arccosh (x : R) : R := ln (x + sqrt (x * x - 1)).
Definition arctanh (x : R) : R := / 2 * ln ((1 + x) / (1 - x)).

Theorem r_acosh_correct : forall b x,
  1 <= x ->
  contains (I.convert b) (Xreal x) -> contains (I.convert (r_acosh b)) (Xreal (arccosh x)).
Proof.
  intros b x H1 Hx. unfold r_acosh, arccosh.
  apply ln_real.
  - pose proof (sqrt_pos (x * x - 1)). lra.
  - apply add_real; [exact Hx|]. apply sqrt_real. apply sub_real; [|exact ione_correct].
    apply sqr_real. exact Hx.
Qed.

Lemma atanh_formula_correct : forall b x,
  -1 < x < 1 ->
  contains (I.convert b) (Xreal x) ->
  contains (I.convert (I.mul prec ihalf (I.ln prec (I.div prec (I.add prec ione b) (I.sub prec ione b)))))
           (Xreal (arctanh x)).
Proof.
  intros b x H1 Hx. unfold arctanh.
  apply mul_real; [exact ihalf_correct|]. apply ln_real.
  - apply Rdiv_lt_0_compat; lra.
  - apply div_real; [lra| |].
    + apply add_real; [exact ione_correct|exact Hx].
    + apply sub_real; [exact ione_correct|exact Hx].
Qed.

Lemma asin_formula_correct : forall b x,
  -1 < x < 1 ->
  contains (I.convert b) (Xreal x) ->
  contains (I.convert (I.atan prec (I.div prec b (I.sqrt prec (I.sub prec ione (I.sqr prec b))))))
           (Xreal (asin x)).
Proof.
  intros b x H1 Hx. rewrite asin_atan by exact H1. unfold Rsqr.
  apply atan_real. apply div_real.
  - assert (0 < sqrt (1 - x * x)) by (apply sqrt_lt_R0; nra). lra.
  - exact Hx.
  - apply sqrt_real. apply sub_real; [exact ione_correct|]. apply sqr_real. exact Hx.
Qed.

Theorem half_pi_correct : contains (I.convert half_pi) (Xreal (PI / 2)).
Proof.
  unfold half_pi. replace (PI / 2) with (/ 2 * PI) by lra.
  apply mul_real; [exact ihalf_correct|exact (I.pi_correct prec)].
Qed.

(* ---------------------------------------------------------------- the small-argument branch (near_id) *)

Lemma bpow_m20 : bpow radix2 (-20) = 1 / 1048576.
Proof. unfold bpow. change (Z.pow_pos radix2 20) with 1048576%Z. lra. Qed.
Lemma bpow_m38 : bpow radix2 (-38) = 1 / 274877906944.
Proof. unfold bpow. change (Z.pow_pos radix2 38) with 274877906944%Z. lra. Qed.

Lemma is_small_bound b x :
  is_small b = true -> contains (I.convert b) (Xreal x) -> Rabs x <= 1 / 1048576.
Proof.
  intros Hs Hx. unfold is_small in Hs.
  pose proof (I.subset_correct _ _ _ Hx Hs) as Hc.
  apply contains_iv in Hc. rewrite bpow_m20 in Hc. apply Rabs_le. lra.
Qed.

Lemma near_id_factor d :
  Rabs d <= 1 / 274877906944 ->
  contains (I.convert (iv (2 ^ 38 - 1) (-38) (2 ^ 38 + 1) (-38))) (Xreal (1 + d)).
Proof.
  intros Hd. apply contains_iv. rewrite bpow_m38.
  change (2 ^ 38 - 1)%Z with 274877906943%Z. change (2 ^ 38 + 1)%Z with 274877906945%Z.
  apply Rabs_le_inv in Hd. lra.
Qed.

(* any function with f 0 = 0 and |f' - 1| <= 2^-38 on [-2^-20, 2^-20] is enclosed by near_id there *)
Lemma near_id_correct (f f' : R -> R) b x :
  f 0 = 0 ->
  (forall t, Rabs t <= 1 / 1048576 -> derivable_pt_lim f t (f' t)) ->
  (forall t, Rabs t <= 1 / 1048576 -> Rabs (f' t - 1) <= 1 / 274877906944) ->
  is_small b = true ->
  contains (I.convert b) (Xreal x) ->
  contains (I.convert (near_id b)) (Xreal (f x)).
Proof.
  intros f0 Hder Hbound Hs Hx.
  pose proof (is_small_bound b x Hs Hx) as Hxs.
  assert (Hin : forall c, Rmin 0 x <= c <= Rmax 0 x -> Rabs c <= 1 / 1048576).
  { intros c Hc. apply Rabs_le_inv in Hxs. apply Rabs_le.
    unfold Rmin, Rmax in Hc. destruct (Rle_dec 0 x); lra. }
  destruct (MVT_abs (fun t => f t - t) (fun t => f' t - 1) 0 x) as (c & Hc & Hcr).
  { intros c Hc.
    apply (derivable_pt_lim_minus f (fun t => t) c (f' c) 1).
    - apply Hder. apply Hin. exact Hc.
    - apply derivable_pt_lim_id. }
  cbv beta in Hc. rewrite f0 in Hc.
  replace (f x - x - (0 - 0)) with (f x - x) in Hc by ring. rewrite Rminus_0_r in Hc.
  pose proof (Hbound c (Hin c Hcr)) as Hb.
  assert (Hfx : Rabs (f x - x) <= 1 / 274877906944 * Rabs x + 0).
  { rewrite Hc, Rplus_0_r. apply Rmult_le_compat_r; [apply Rabs_pos|exact Hb]. }
  assert (H38 : 0 <= 1 / 274877906944) by lra.
  destruct (rel_abs_decompose _ _ _ _ H38 (Rle_refl 0) Hfx) as (d & z & Hd & Hz & E).
  assert (z = 0) by (pose proof (Rabs_pos z); destruct (Req_dec z 0) as [|Hn]; [assumption|apply Rabs_pos_lt in Hn; lra]).
  subst z. rewrite Rplus_0_r in E. rewrite E.
  unfold near_id. apply mul_real; [exact Hx|]. apply near_id_factor. exact Hd.
Qed.

(* --- sinh *)
Theorem r_sinh_correct : forall b x,
  contains (I.convert b) (Xreal x) -> contains (I.convert (r_sinh b)) (Xreal (sinh x)).
Proof.
  intros b x Hx. unfold r_sinh. destruct (is_small b) eqn:Hs.
  - apply (near_id_correct sinh cosh); try assumption.
    + exact sinh_0.
    + intros t _. apply derivable_pt_lim_sinh.
    + intros t Ht. unfold cosh. interval with (i_prec 80, i_taylor t, i_degree 4).
  - apply sinh_formula_correct. exact Hx.
Qed.

(* --- tanh *)
Lemma cosh_pos x : 0 < cosh x.
Proof. unfold cosh. pose proof (exp_pos x). pose proof (exp_pos (- x)). lra. Qed.

Lemma cosh2_minus_sinh2 x : cosh x * cosh x - sinh x * sinh x = 1.
Proof.
  unfold cosh, sinh. assert (E : exp x * exp (- x) = 1) by (rewrite <- exp_plus, Rplus_opp_r; apply exp_0).
  nra.
Qed.

Lemma derivable_pt_lim_tanh t : derivable_pt_lim tanh t (1 / (cosh t * cosh t)).
Proof.
  replace (1 / (cosh t * cosh t)) with ((cosh t * cosh t - sinh t * sinh t) / (cosh t)²)
    by (rewrite cosh2_minus_sinh2; reflexivity).
  apply (derivable_pt_lim_div sinh cosh t (cosh t) (sinh t)).
  - apply derivable_pt_lim_sinh.
  - apply derivable_pt_lim_cosh.
  - pose proof (cosh_pos t). lra.
Qed.

Theorem r_tanh_correct : forall b x,
  contains (I.convert b) (Xreal x) -> contains (I.convert (r_tanh b)) (Xreal (tanh x)).
Proof.
  intros b x Hx. unfold r_tanh. destruct (is_small b) eqn:Hs.
  - apply (near_id_correct tanh (fun t => 1 / (cosh t * cosh t))); try assumption.
    + unfold tanh. rewrite sinh_0. lra.
    + intros t _. apply derivable_pt_lim_tanh.
    + intros t Ht. unfold cosh. interval with (i_prec 80, i_taylor t, i_degree 4).
  - apply tanh_formula_correct. exact Hx.
Qed.

(* --- asinh *)
Theorem r_asinh_correct : forall b x,
  contains (I.convert b) (Xreal x) -> contains (I.convert (r_asinh b)) (Xreal (arcsinh x)).
Proof.
  intros b x Hx. unfold r_asinh. destruct (is_small b) eqn:Hs.
  - apply (near_id_correct arcsinh (fun t => / sqrt (t ^ 2 + 1))); try assumption.
    + exact arcsinh_0.
    + intros t _. apply derivable_pt_lim_arcsinh.
    + intros t Ht. interval with (i_prec 80).
  - apply asinh_formula_correct. exact Hx.
Qed.

(* --- atanh *)
Lemma derivable_pt_lim_arctanh t : -1 < t < 1 -> derivable_pt_lim arctanh t (1 / (1 - t * t)).
Proof.
  intros Ht. apply is_derive_Reals. unfold arctanh.
  auto_derive.
  - repeat split; try lra. apply Rdiv_lt_0_compat; lra.
  - assert (1 - t * t <> 0) by nra. field. repeat split; lra.
Qed.

Theorem r_atanh_correct : forall b x,
  -1 < x < 1 ->
  contains (I.convert b) (Xreal x) -> contains (I.convert (r_atanh b)) (Xreal (arctanh x)).
Proof.
  intros b x H1 Hx. unfold r_atanh. destruct (is_small b) eqn:Hs.
  - apply (near_id_correct arctanh (fun t => 1 / (1 - t * t))); try assumption.
    + unfold arctanh. replace ((1 + 0) / (1 - 0)) with 1 by field. rewrite ln_1. ring.
    + intros t Ht. apply derivable_pt_lim_arctanh. apply Rabs_le_inv in Ht. lra.
    + intros t Ht. interval with (i_prec 80).
  - apply atanh_formula_correct; assumption.
Qed.

(* --- asin, acos *)
Lemma derivable_pt_lim_asin t : -1 < t < 1 -> derivable_pt_lim asin t (1 / sqrt (1 - t * t)).
Proof.
  intros Ht. apply (derive_pt_eq_1 asin t _ (derivable_pt_asin t Ht)).
  rewrite derive_pt_asin. reflexivity.
Qed.

Theorem r_asin_correct : forall b x,
  -1 < x < 1 ->
  contains (I.convert b) (Xreal x) -> contains (I.convert (r_asin b)) (Xreal (asin x)).
Proof.
  intros b x H1 Hx. unfold r_asin. destruct (is_small b) eqn:Hs.
  - apply (near_id_correct asin (fun t => 1 / sqrt (1 - t * t))); try assumption.
    + exact asin_0.
    + intros t Ht. apply derivable_pt_lim_asin. apply Rabs_le_inv in Ht. lra.
    + intros t Ht. interval with (i_prec 80).
  - apply asin_formula_correct; assumption.
Qed.

Theorem r_acos_correct : forall b x,
  -1 < x < 1 ->
  contains (I.convert b) (Xreal x) -> contains (I.convert (r_acos b)) (Xreal (acos x)).
Proof.
  intros b x H1 Hx. unfold r_acos. rewrite acos_asin by lra.
  apply sub_real; [exact half_pi_correct|]. apply r_asin_correct; assumption.
Qed.

(* ---------------------------------------------------------------- the judgement res_in, finite case *)

Theorem res_in_fin_correct : forall w r E m e,
  decode w r = VFin m e -> res_in w r E = true ->
  contains (I.convert E) (Xreal (IZR m * bpow radix2 e)).
Proof.
  intros w r E m e Hd Hr. unfold res_in in Hr. rewrite Hd in Hr.
  exact (I.subset_correct _ _ _ (pt_correct m e) Hr).
Qed.

Print Assumptions sexp_correct.
Print Assumptions r_sigmoid_correct.
Print Assumptions widen_correct.
