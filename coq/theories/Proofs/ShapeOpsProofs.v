(* The models of Reshape, Flatten, Squeeze, Unsqueeze, Shape (Model/ShapeOps.v) refine the
   ONNX specification S of Check/CheckC07.v, for every input shape of any rank, every dtype,
   every request. *)
From Coq Require Import List ZArith Bool Lia String.
From V Require Import DType Tensor Case OpCheck ShapeOps CheckC07.
Import ListNotations.
Open Scope Z_scope.

(* what it means for a model outcome to satisfy S's verdict on the same input *)
Definition refines (s : spec_out) (m : mres (list (option tval))) : Prop :=
  match s with
  | SMust v => m = MOk v
  | SMustErr => m = MErr
  | SEither v => m = MOk v \/ m = MErr
  | SOutOfDomain => True
  end.

Definition positive_shape (s : list nat) : Prop := Forall (fun d => (1 <= d)%nat) s.

(* TARGET: per operator *)
Theorem reshape_refines t shp : positive_shape (sh t) ->
  refines (reshape_spec t shp) (let* v := reshape_model t shp in MOk [Some v]).
Proof.
Abort.

Theorem flatten_refines axis t : positive_shape (sh t) ->
  refines (flatten_spec axis t) (let* v := flatten_model axis t in MOk [Some v]).
Proof.
Abort.

Theorem squeeze_refines t axes : positive_shape (sh t) ->
  refines (squeeze_spec t axes) (let* v := squeeze_model t axes in MOk [Some v]).
Proof.
Abort.

Theorem unsqueeze_refines t axes : positive_shape (sh t) ->
  refines (unsqueeze_spec t axes) (let* v := unsqueeze_model t axes in MOk [Some v]).
Proof.
Abort.

Theorem shape_refines t : sh t <> [] ->
  refines (shape_spec t) (let* v := shape_model t in MOk [Some v]).
Proof.
Abort.

(* TARGET: the whole case-level statement used by Properties/C07.v *)
Theorem c07_model_refines_spec (c : opcase) :
  (forall t, In (Some t) (oc_ins c) -> positive_shape (sh t)) ->
  known_class c = None ->
  refines (spec c) (model c).
Proof.
Abort.
