(* The models of Reshape, Flatten, Squeeze, Unsqueeze, Shape (Model/ShapeOps.v) refine the
   ONNX specification S of Check/CheckC07.v, for every input shape of any rank, every dtype,
   every request. *)
From Coq Require Import List ZArith Bool Lia String Permutation Sorted.
From V Require Import DType Tensor Case OpCheck ShapeOps CheckC07.
Import ListNotations.
Open Scope Z_scope.

(* what it means for a model outcome to satisfy S's verdict on the same input *)
Definition refines (s : spec_out) (m : mres (list (option tval))) : Prop :=
  match s with
  | SMust v => m = MOk v
  | SMustErr => m = MErr
  | SEither v => m = MOk v \/ m = MErr
  | SOutOfDomain => True
  end.

Definition positive_shape (s : list nat) : Prop := Forall (fun d => (1 <= d)%nat) s.

(* ------------------------------------------------------------------------------------ *)
(* generic facts: products, gz_reshape, boolean list predicates                          *)
(* ------------------------------------------------------------------------------------ *)

Lemma zprod_nil : zprod [] = 1.
Proof. reflexivity. Qed.

Lemma zprod_cons x l : zprod (x :: l) = x * zprod l.
Proof. reflexivity. Qed.

Lemma zprod_app a b : zprod (a ++ b) = zprod a * zprod b.
Proof.
  induction a as [|x a IH]; cbn [app].
  - rewrite zprod_nil. lia.
  - rewrite !zprod_cons, IH. lia.
Qed.

Lemma zprod_pos l : Forall (fun d => 1 <= d) l -> 1 <= zprod l.
Proof.
  induction 1 as [|x l Hx _ IH].
  - rewrite zprod_nil. lia.
  - rewrite zprod_cons. nia.
Qed.

Lemma zprod_nonneg l : Forall (fun d => 0 <= d) l -> 0 <= zprod l.
Proof.
  induction 1 as [|x l Hx _ IH].
  - rewrite zprod_nil. lia.
  - rewrite zprod_cons. apply Z.mul_nonneg_nonneg; assumption.
Qed.

Lemma zprod_all_one l : Forall (fun d => d = 1) l -> zprod l = 1.
Proof.
  induction 1 as [|x l Hx _ IH].
  - reflexivity.
  - rewrite zprod_cons, IH, Hx. reflexivity.
Qed.

Lemma zprod_ge2 l x : Forall (fun d => 1 <= d) l -> In x l -> 2 <= x -> 2 <= zprod l.
Proof.
  intros Hl. revert x. induction Hl as [|y l Hy Hl IH]; intros x Hin Hx.
  - destruct Hin.
  - rewrite zprod_cons. pose proof (zprod_pos l Hl) as Hp. destruct Hin as [->|Hin].
    + nia.
    + specialize (IH x Hin Hx). nia.
Qed.

Lemma Forall_ge1_nonneg l : Forall (fun d => 1 <= d) l -> Forall (fun d => 0 <= d) l.
Proof. apply Forall_impl. intros a Ha. lia. Qed.

Lemma zshape_pos s : positive_shape s -> Forall (fun d => 1 <= d) (zshape s).
Proof.
  unfold positive_shape, zshape. intros H. apply Forall_map. revert H.
  apply Forall_impl. intros a Ha. lia.
Qed.

Lemma zshape_nonneg s : Forall (fun d => 0 <= d) (zshape s).
Proof. unfold zshape. apply Forall_map. apply Forall_forall. intros x _. lia. Qed.

Lemma total_pos t : positive_shape (sh t) -> 1 <= total t.
Proof. intros H. unfold total. apply zprod_pos, zshape_pos, H. Qed.

Lemma existsb_neg_false l : Forall (fun d => 0 <= d) l -> existsb (fun d => d <? 0) l = false.
Proof.
  induction 1 as [|x l Hx _ IH]; cbn [existsb]; [reflexivity|].
  rewrite IH, orb_false_r. apply Z.ltb_ge. exact Hx.
Qed.

Lemma gz_reshape_ok t dims :
  zprod dims = total t -> Forall (fun d => 0 <= d) dims -> gz_reshape t dims = MOk (with_shape t dims).
Proof.
  intros Hp Hn. unfold gz_reshape. rewrite (proj2 (Z.eqb_eq _ _) Hp). cbn [negb].
  rewrite (existsb_neg_false _ Hn). reflexivity.
Qed.

Lemma gz_reshape_err t dims : zprod dims <> total t -> gz_reshape t dims = MErr.
Proof. intros Hp. unfold gz_reshape. rewrite (proj2 (Z.eqb_neq _ _) Hp). reflexivity. Qed.

Lemma refines_ok_must t dims :
  zprod dims = total t -> Forall (fun d => 0 <= d) dims ->
  refines (SMust1 (with_shape t dims)) (let* v := gz_reshape t dims in MOk [Some v]).
Proof. intros Hp Hn. rewrite (gz_reshape_ok t dims Hp Hn). reflexivity. Qed.

Lemma refines_err t dims :
  zprod dims <> total t -> refines SMustErr (let* v := gz_reshape t dims in MOk [Some v]).
Proof. intros Hp. rewrite (gz_reshape_err t dims Hp). reflexivity. Qed.

Lemma forallb_map {A B} (g : A -> B) (p : B -> bool) l :
  forallb p (map g l) = forallb (fun x => p (g x)) l.
Proof. induction l as [|x l IH]; cbn [map forallb]; [reflexivity|]. now rewrite IH. Qed.

Lemma forallb_ext' {A} (p q : A -> bool) l : (forall x, p x = q x) -> forallb p l = forallb q l.
Proof. intros H. induction l as [|x l IH]; cbn [forallb]; [reflexivity|]. now rewrite H, IH. Qed.

Lemma forallb_false_ex {A} (p : A -> bool) l : forallb p l = false -> exists x, In x l /\ p x = false.
Proof.
  induction l as [|x l IH]; cbn [forallb]; intros H; [discriminate|].
  apply andb_false_iff in H as [H|H].
  - exists x. split; [left; reflexivity|exact H].
  - destruct (IH H) as (y & Hy & Hp). exists y. split; [right; exact Hy|exact Hp].
Qed.

Lemma existsb_false_filter {A} (p : A -> bool) l : existsb p l = false -> filter p l = [].
Proof.
  induction l as [|x l IH]; cbn [existsb filter]; intros H; [reflexivity|].
  apply orb_false_iff in H as [H1 H2]. rewrite H1. exact (IH H2).
Qed.

Lemma existsb_true_filter {A} (p : A -> bool) l : existsb p l = true -> (1 <= List.length (filter p l))%nat.
Proof.
  induction l as [|x l IH]; cbn [existsb filter]; intros H; [discriminate|].
  destruct (p x); cbn [orb] in H; [cbn [List.length]; lia|exact (IH H)].
Qed.

Lemma filter_nil_existsb {A} (p : A -> bool) l : filter p l = [] -> existsb p l = false.
Proof.
  intros H. destruct (existsb p l) eqn:E; [|reflexivity].
  apply existsb_true_filter in E. rewrite H in E. cbn [List.length] in E. lia.
Qed.

Lemma Forall_filter {A} (P : A -> Prop) (p : A -> bool) l : Forall P l -> Forall P (filter p l).
Proof.
  intros H. apply Forall_forall. intros x Hx. apply filter_In in Hx as [Hx _].
  revert x Hx. apply Forall_forall. exact H.
Qed.

(* ------------------------------------------------------------------------------------ *)
(* Shape                                                                                 *)
(* ------------------------------------------------------------------------------------ *)

Theorem shape_refines t : sh t <> [] ->
  refines (shape_spec t) (let* v := shape_model t in MOk [Some v]).
Proof.
  intros H. unfold shape_spec, shape_model.
  destruct (sh t) as [|d s] eqn:E; [congruence|]. reflexivity.
Qed.

(* ------------------------------------------------------------------------------------ *)
(* Flatten                                                                               *)
(* ------------------------------------------------------------------------------------ *)

Lemma zprod_firstn_skipn n (s : list nat) :
  zprod (zshape (firstn n s)) * zprod (zshape (skipn n s)) = zprod (zshape s).
Proof. rewrite <- zprod_app. unfold zshape. rewrite <- map_app, firstn_skipn. reflexivity. Qed.

Theorem flatten_refines axis t : positive_shape (sh t) ->
  refines (flatten_spec axis t) (let* v := flatten_model axis t in MOk [Some v]).
Proof.
  intros _. unfold flatten_spec, flatten_model. cbv zeta.
  set (r := Z.of_nat (List.length (sh t))).
  destruct ((axis <? - r) || (r <? axis)) eqn:Hrange; [reflexivity|].
  replace (axis + r) with (r + axis) by lia.
  set (a := if axis <? 0 then r + axis else axis).
  destruct (a =? 0) eqn:Ha.
  - apply Z.eqb_eq in Ha. rewrite Ha. change (Z.to_nat 0) with 0%nat. cbn [firstn skipn].
    change (zprod (zshape [])) with 1. fold (total t).
    apply refines_ok_must.
    + rewrite !zprod_cons, zprod_nil. lia.
    + apply Forall_cons; [lia|]. apply Forall_cons; [|apply Forall_nil].
      unfold total. apply zprod_nonneg, zshape_nonneg.
  - apply refines_ok_must.
    + rewrite !zprod_cons, zprod_nil, Z.mul_1_r. unfold total. apply zprod_firstn_skipn.
    + apply Forall_cons; [apply zprod_nonneg, zshape_nonneg|].
      apply Forall_cons; [apply zprod_nonneg, zshape_nonneg|apply Forall_nil].
Qed.

(* ------------------------------------------------------------------------------------ *)
(* Squeeze                                                                               *)
(* ------------------------------------------------------------------------------------ *)

Lemma zprod_filter_split {A} (f : A -> Z) (p : A -> bool) l :
  zprod (map f (filter p l)) * zprod (map f (filter (fun i => negb (p i)) l)) = zprod (map f l).
Proof.
  induction l as [|x l IH]; cbn [filter map]; [rewrite zprod_nil; lia|].
  destruct (p x); cbn [negb map]; rewrite !zprod_cons, <- IH; lia.
Qed.

Lemma map_nth_seq_gen (s pre : list nat) :
  map (fun i => Z.of_nat (nth i (pre ++ s) 0%nat)) (seq (List.length pre) (List.length s)) = zshape s.
Proof.
  unfold zshape. revert pre. induction s as [|d s IH]; intros pre; [reflexivity|].
  cbn [List.length seq map]. f_equal.
  - rewrite nth_middle. reflexivity.
  - specialize (IH (pre ++ [d])). rewrite <- app_assoc in IH. cbn [app] in IH.
    rewrite app_length in IH. cbn [List.length] in IH. rewrite Nat.add_1_r in IH. exact IH.
Qed.

Lemma map_nth_seq (s : list nat) :
  map (fun i => Z.of_nat (nth i s 0%nat)) (seq 0 (List.length s)) = zshape s.
Proof. exact (map_nth_seq_gen s []). Qed.

Lemma map_filter_comm {A B} (f : A -> B) (q : B -> bool) l :
  map f (filter (fun x => q (f x)) l) = filter q (map f l).
Proof.
  induction l as [|x l IH]; cbn [filter map]; [reflexivity|].
  destruct (q (f x)); cbn [map]; now rewrite IH.
Qed.

Lemma zprod_filter_not1 l : zprod (filter (fun d => negb (d =? 1)) l) = zprod l.
Proof.
  induction l as [|x l IH]; cbn [filter]; [reflexivity|].
  destruct (x =? 1) eqn:E; cbn [negb]; rewrite ?zprod_cons, IH.
  - apply Z.eqb_eq in E. lia.
  - reflexivity.
Qed.

Lemma existsb_Zeq_In i l : existsb (fun d => d =? Z.of_nat i) (map Z.of_nat l) = true <-> In i l.
Proof.
  rewrite existsb_exists. split.
  - intros (d & Hin & Heq). apply in_map_iff in Hin as (j & <- & Hj).
    apply Z.eqb_eq in Heq. apply Nat2Z.inj in Heq. subst j. exact Hj.
  - intros H. exists (Z.of_nat i). split; [apply in_map; exact H|apply Z.eqb_refl].
Qed.

Lemma squeeze_none_refines t :
  refines (squeeze_spec t None) (let* v := squeeze_model t None in MOk [Some v]).
Proof.
  unfold squeeze_spec, squeeze_model. cbv zeta. cbv beta iota.
  set (s := sh t).
  assert (E : map (fun i => Z.of_nat (nth i s 0%nat))
                (filter (fun i => negb (existsb (fun d => d =? Z.of_nat i)
                     (map Z.of_nat (filter (fun i0 => Nat.eqb (nth i0 s 0%nat) 1) (seq 0 (List.length s))))))
                        (seq 0 (List.length s)))
              = filter (fun d => negb (d =? 1)) (zshape s)).
  { rewrite (filter_ext_in _ (fun i => negb (Nat.eqb (nth i s 0%nat) 1))).
    2:{ intros i Hi. f_equal. apply eq_true_iff_eq. rewrite existsb_Zeq_In, filter_In.
        split; [intros [_ H]; exact H|intros H; split; assumption]. }
    rewrite <- (map_nth_seq s), <- map_filter_comm. f_equal. apply filter_ext. intros i.
    f_equal. apply eq_true_iff_eq. rewrite Nat.eqb_eq, Z.eqb_eq. lia. }
  rewrite E. apply refines_ok_must.
  - rewrite zprod_filter_not1. reflexivity.
  - apply Forall_filter, zshape_nonneg.
Qed.

Lemma existsb_Zeq_nat i ds : Forall (fun d => 0 <= d) ds ->
  existsb (fun d => d =? Z.of_nat i) ds = existsb (Nat.eqb i) (map Z.to_nat ds).
Proof.
  induction 1 as [|d ds Hd _ IH]; cbn [existsb map]; [reflexivity|].
  rewrite IH. f_equal. apply eq_true_iff_eq. rewrite Nat.eqb_eq, Z.eqb_eq. lia.
Qed.

Lemma existsb_nat_In i l : existsb (Nat.eqb i) l = true <-> In i l.
Proof.
  rewrite existsb_exists. split.
  - intros (j & Hj & E). apply Nat.eqb_eq in E. subst j. exact Hj.
  - intros H. exists i. split; [exact H|apply Nat.eqb_refl].
Qed.

(* the heart of Squeeze: the remaining extents multiply to the total iff every removed one is 1 *)
Lemma squeeze_core t (nm : list nat) :
  positive_shape (sh t) ->
  Forall (fun i => (i < List.length (sh t))%nat) nm ->
  let f := fun i => Z.of_nat (nth i (sh t) 0%nat) in
  let keep := filter (fun i => negb (existsb (Nat.eqb i) nm)) (seq 0 (List.length (sh t))) in
  if forallb (fun i => Nat.eqb (nth i (sh t) 0%nat) 1) nm
  then gz_reshape t (map f keep) = MOk (with_shape t (map f keep))
  else gz_reshape t (map f keep) = MErr.
Proof.
  intros Hpos Hlt f keep.
  pose proof (zprod_filter_split f (fun i => negb (existsb (Nat.eqb i) nm)) (seq 0 (List.length (sh t)))) as Hsplit.
  fold keep in Hsplit. unfold f in Hsplit at 3. rewrite map_nth_seq in Hsplit. fold (total t) in Hsplit.
  set (rem := filter (fun i => negb (negb (existsb (Nat.eqb i) nm))) (seq 0 (List.length (sh t)))) in Hsplit.
  assert (Hf1 : forall i, (i < List.length (sh t))%nat -> 1 <= f i).
  { intros i Hi. unfold f. pose proof (nth_In (sh t) 0%nat Hi) as Hin.
    unfold positive_shape in Hpos. rewrite Forall_forall in Hpos. specialize (Hpos _ Hin). lia. }
  assert (Hall1 : forall l, Forall (fun i => (i < List.length (sh t))%nat) l -> Forall (fun d => 1 <= d) (map f l)).
  { intros l Hl. apply Forall_map. revert Hl. apply Forall_impl. exact Hf1. }
  assert (Hseq : Forall (fun i => (i < List.length (sh t))%nat) (seq 0 (List.length (sh t)))).
  { apply Forall_forall. intros i Hi. apply in_seq in Hi. lia. }
  assert (Hkeep1 : Forall (fun d => 1 <= d) (map f keep)).
  { apply Hall1. apply Forall_filter. exact Hseq. }
  assert (Hrem1 : Forall (fun d => 1 <= d) (map f rem)).
  { apply Hall1. apply Forall_filter. exact Hseq. }
  destruct (forallb (fun i => Nat.eqb (nth i (sh t) 0%nat) 1) nm) eqn:Hones.
  - apply gz_reshape_ok; [|apply Forall_ge1_nonneg; exact Hkeep1].
    assert (Hr : zprod (map f rem) = 1).
    { apply zprod_all_one. apply Forall_map. apply Forall_forall. intros i Hi.
      apply filter_In in Hi as [_ Hi]. rewrite negb_involutive in Hi. apply existsb_nat_In in Hi.
      rewrite forallb_forall in Hones. specialize (Hones i Hi). apply Nat.eqb_eq in Hones.
      unfold f. rewrite Hones. reflexivity. }
    rewrite Hr in Hsplit. lia.
  - apply gz_reshape_err.
    destruct (forallb_false_ex _ _ Hones) as (i & Hi & Hne). apply Nat.eqb_neq in Hne.
    rewrite Forall_forall in Hlt. pose proof (Hlt i Hi) as Hilt.
    assert (Hir : In i rem).
    { apply filter_In. split; [apply in_seq; lia|]. rewrite negb_involutive. apply existsb_nat_In. exact Hi. }
    assert (H2 : 2 <= zprod (map f rem)).
    { apply (zprod_ge2 _ (f i) Hrem1); [apply in_map; exact Hir|].
      pose proof (Hf1 i Hilt) as H1. unfold f in *. lia. }
    pose proof (zprod_pos _ Hkeep1) as Hk. nia.
Qed.

Theorem squeeze_refines t axes : positive_shape (sh t) ->
  refines (squeeze_spec t axes) (let* v := squeeze_model t axes in MOk [Some v]).
Proof.
  intros Hpos. destruct axes as [a|]; [|apply squeeze_none_refines].
  unfold squeeze_spec, squeeze_model. cbv zeta.
  destruct (sh a) as [|k [|k' sr]] eqn:Hsa; [exact I| |exact I].
  cbv beta iota.
  set (n := Z.of_nat (List.length (sh t))).
  set (ds := map (fun v => if v <? 0 then n + v else v) (pl a)).
  assert (Hrg : forallb (fun v => (0 <=? v) && (v <=? n - 1)) ds
                = forallb (fun x => (- n <=? x) && (x <? n)) (pl a)).
  { unfold ds. rewrite forallb_map. apply forallb_ext'. intros x. apply eq_true_iff_eq.
    destruct (x <? 0) eqn:Hx; [apply Z.ltb_lt in Hx|apply Z.ltb_ge in Hx];
      rewrite !andb_true_iff, !Z.leb_le, Z.ltb_lt; lia. }
  assert (Hds : forallb (fun x => (- n <=? x) && (x <? n)) (pl a) = true -> Forall (fun d => 0 <= d < n) ds).
  { intros Hr. rewrite <- Hrg in Hr. apply Forall_forall. intros d Hd. rewrite forallb_forall in Hr.
    specialize (Hr d Hd). apply andb_true_iff in Hr as [H1 H2].
    apply Z.leb_le in H1, H2. lia. }
  rewrite Hrg. clear Hrg.
  destruct (forallb (fun x => (- n <=? x) && (x <? n)) (pl a)) eqn:Hrange; cbn [negb]; [|reflexivity].
  specialize (Hds eq_refl).
  replace (map (fun x => Z.to_nat (if x <? 0 then x + n else x)) (pl a)) with (map Z.to_nat ds).
  2:{ unfold ds. rewrite map_map. apply map_ext. intros x. destruct (x <? 0); f_equal; lia. }
  rewrite (filter_ext (fun i => negb (existsb (fun d => d =? Z.of_nat i) ds))
                      (fun i => negb (existsb (Nat.eqb i) (map Z.to_nat ds)))).
  2:{ intros i. f_equal. apply existsb_Zeq_nat. revert Hds. apply Forall_impl. intros d Hd. lia. }
  assert (Hlt : Forall (fun i => (i < List.length (sh t))%nat) (map Z.to_nat ds)).
  { apply Forall_map. revert Hds. apply Forall_impl. intros d Hd. unfold n in Hd. lia. }
  pose proof (squeeze_core t (map Z.to_nat ds) Hpos Hlt) as Hcore. cbv zeta in Hcore.
  destruct (forallb (fun i => Nat.eqb (nth i (sh t) 0%nat) 1) (map Z.to_nat ds)) eqn:Hones; cbn [negb].
  - rewrite Hcore.
    destruct (List.length (nodup Nat.eq_dec (map Z.to_nat ds)) <? List.length (map Z.to_nat ds))%nat.
    + left. reflexivity.
    + reflexivity.
  - rewrite Hcore. reflexivity.
Qed.

(* ------------------------------------------------------------------------------------ *)
(* Unsqueeze                                                                             *)
(* ------------------------------------------------------------------------------------ *)

Lemma insert_ones_prod fuel : forall i orig idx,
  (List.length orig + List.length idx <= fuel)%nat ->
  zprod (insert_ones fuel i orig idx) = zprod (zshape orig).
Proof.
  induction fuel as [|f IH]; intros i orig idx Hlen.
  - destruct orig as [|d o']; [|cbn [List.length] in Hlen; lia]. reflexivity.
  - cbn [insert_ones]. destruct idx as [|j idx'].
    + destruct orig as [|d o']; [reflexivity|].
      cbn [List.length] in Hlen. unfold zshape. cbn [map]. fold (zshape o').
      rewrite !zprod_cons, IH; [reflexivity|cbn [List.length]; lia].
    + cbn [List.length] in Hlen. destruct (j =? i).
      * rewrite zprod_cons, IH; [lia|lia].
      * destruct orig as [|d o']; [reflexivity|].
        cbn [List.length] in Hlen. unfold zshape. cbn [map]. fold (zshape o').
        rewrite !zprod_cons, IH; [reflexivity|cbn [List.length]; lia].
Qed.

Lemma insert_ones_nonneg fuel : forall i orig idx,
  Forall (fun d => 0 <= d) (insert_ones fuel i orig idx).
Proof.
  induction fuel as [|f IH]; intros i orig idx; cbn [insert_ones]; [apply Forall_nil|].
  destruct idx as [|j idx'].
  - destruct orig as [|d o']; [apply Forall_nil|]. apply Forall_cons; [lia|apply IH].
  - destruct (j =? i).
    + apply Forall_cons; [lia|apply IH].
    + destruct orig as [|d o']; [apply Forall_nil|]. apply Forall_cons; [lia|apply IH].
Qed.

Lemma insert_sorted_perm x l : Permutation (insert_sorted x l) (x :: l).
Proof.
  induction l as [|y r IH]; cbn [insert_sorted]; [apply Permutation_refl|].
  destruct (x <=? y); [apply Permutation_refl|].
  apply perm_trans with (y :: x :: r); [apply perm_skip; exact IH|apply perm_swap].
Qed.

Lemma sortz_perm l : Permutation (sortz l) l.
Proof.
  induction l as [|x l IH]; cbn [sortz fold_right]; [apply Permutation_refl|].
  fold (sortz l). apply perm_trans with (x :: sortz l); [apply insert_sorted_perm|apply perm_skip; exact IH].
Qed.

Lemma insert_sorted_sorted x l :
  StronglySorted Z.le l -> StronglySorted Z.le (insert_sorted x l).
Proof.
  induction 1 as [|y r Hr IH Hy]; cbn [insert_sorted].
  - apply SSorted_cons; [apply SSorted_nil|apply Forall_nil].
  - destruct (x <=? y) eqn:Hxy.
    + apply Z.leb_le in Hxy. apply SSorted_cons; [apply SSorted_cons; assumption|].
      apply Forall_cons; [exact Hxy|]. revert Hy. apply Forall_impl. intros a Ha. lia.
    + apply Z.leb_gt in Hxy. apply SSorted_cons; [exact IH|].
      apply Forall_forall. intros a Ha.
      apply (Permutation_in _ (insert_sorted_perm x r)) in Ha. destruct Ha as [<-|Ha]; [lia|].
      rewrite Forall_forall in Hy. exact (Hy a Ha).
Qed.

Lemma sortz_sorted l : StronglySorted Z.le (sortz l).
Proof.
  induction l as [|x l IH]; cbn [sortz fold_right]; [apply SSorted_nil|].
  fold (sortz l). apply insert_sorted_sorted. exact IH.
Qed.

Lemma NoDup_has_dup l : NoDup l -> has_dup l = false.
Proof.
  induction 1 as [|a l Ha Hl IH]; [reflexivity|].
  destruct l as [|b r]; [reflexivity|].
  change (has_dup (a :: b :: r)) with ((a =? b) || has_dup (b :: r)).
  rewrite IH, orb_false_r. apply Z.eqb_neq. intros ->. apply Ha. left. reflexivity.
Qed.

Lemma sorted_has_dup_NoDup l : StronglySorted Z.le l -> has_dup l = false -> NoDup l.
Proof.
  induction 1 as [|a l Hl IH Ha]; intros Hd; [apply NoDup_nil|].
  destruct l as [|b r]; [apply NoDup_cons; [intros []|apply NoDup_nil]|].
  change (has_dup (a :: b :: r)) with ((a =? b) || has_dup (b :: r)) in Hd.
  apply orb_false_iff in Hd as [Hab Hd]. apply Z.eqb_neq in Hab.
  apply NoDup_cons; [|exact (IH Hd)].
  intros Hin. inversion Ha as [|? ? Hab' Har]; subst.
  destruct Hin as [E|Hin]; [congruence|].
  inversion Hl as [|? ? _ Hbr]; subst. rewrite Forall_forall in Hbr. specialize (Hbr a Hin). lia.
Qed.

Lemma nodup_length_le (l : list Z) : (List.length (nodup Z.eq_dec l) <= List.length l)%nat.
Proof.
  induction l as [|a l IH]; cbn [nodup List.length]; [lia|].
  destruct (in_dec Z.eq_dec a l); cbn [List.length]; lia.
Qed.

Lemma nodup_length_eq_NoDup (l : list Z) :
  List.length (nodup Z.eq_dec l) = List.length l -> NoDup l.
Proof.
  induction l as [|a l IH]; cbn [nodup List.length]; intros H; [apply NoDup_nil|].
  destruct (in_dec Z.eq_dec a l) as [Hin|Hnin].
  - pose proof (nodup_length_le l). lia.
  - cbn [List.length] in H. apply NoDup_cons; [exact Hnin|apply IH; lia].
Qed.

Lemma nodup_has_dup (l : list Z) :
  (List.length (nodup Z.eq_dec l) <? List.length l)%nat = has_dup (sortz l).
Proof.
  destruct (has_dup (sortz l)) eqn:E.
  - apply Nat.ltb_lt. pose proof (nodup_length_le l) as Hle.
    destruct (Nat.eq_dec (List.length (nodup Z.eq_dec l)) (List.length l)) as [Heq|Hne]; [|lia].
    apply nodup_length_eq_NoDup in Heq.
    apply (Permutation_NoDup (Permutation_sym (sortz_perm l))) in Heq.
    apply NoDup_has_dup in Heq. congruence.
  - apply (sorted_has_dup_NoDup _ (sortz_sorted l)) in E.
    apply (Permutation_NoDup (sortz_perm l)) in E.
    rewrite (nodup_fixed_point Z.eq_dec E). apply Nat.ltb_irrefl.
Qed.

Theorem unsqueeze_refines t axes : positive_shape (sh t) ->
  refines (unsqueeze_spec t axes) (let* v := unsqueeze_model t axes in MOk [Some v]).
Proof.
  intros _. unfold unsqueeze_spec, unsqueeze_model. cbv zeta.
  destruct (sh axes) as [|k [|k' sr]] eqn:Hsa; [exact I| |exact I].
  cbv beta iota.
  set (R := Z.of_nat (List.length (sh t) + List.length (pl axes))).
  rewrite (forallb_ext' (fun a => (- R <=? a) && (a <=? R - 1)) (fun x => (- R <=? x) && (x <? R))).
  2:{ intros x. f_equal. apply eq_true_iff_eq. rewrite Z.leb_le, Z.ltb_lt. lia. }
  destruct (forallb (fun x => (- R <=? x) && (x <? R)) (pl axes)) eqn:Hrange; cbn [negb]; [|reflexivity].
  set (nm := map (fun x => if x <? 0 then x + R else x) (pl axes)).
  rewrite nodup_has_dup.
  destruct (has_dup (sortz nm)) eqn:Hdup; [reflexivity|].
  apply refines_ok_must; [|apply insert_ones_nonneg].
  unfold total. apply insert_ones_prod.
  rewrite (Permutation_length (sortz_perm nm)). unfold nm. rewrite map_length.
  unfold R. rewrite Nat2Z.id. lia.
Qed.

(* ------------------------------------------------------------------------------------ *)
(* Reshape                                                                               *)
(* ------------------------------------------------------------------------------------ *)

(* S's "copied" list, with the index offset made explicit *)
Definition copiedS (k : nat) (ns : list Z) (cur : list nat) : list Z :=
  map (fun p => if snd p =? 0 then match nth_error cur (fst p) with Some d => Z.of_nat d | None => -7 end else snd p)
      (combine (seq k (List.length ns)) ns).

Lemma copy_zeros_copied ns : forall k cur, Forall (fun d => -1 <= d) ns ->
  copy_zeros k ns cur = if existsb (fun d => d =? -7) (copiedS k ns cur) then None else Some (copiedS k ns cur).
Proof.
  induction ns as [|d r IH]; intros k cur Hge; [reflexivity|].
  inversion Hge as [|? ? Hd Hr]; subst.
  unfold copiedS. cbn [List.length seq combine map fst snd existsb copy_zeros]. fold (copiedS (S k) r cur).
  rewrite (IH (S k) cur Hr).
  destruct (d =? 0) eqn:Hd0.
  - destruct (nth_error cur k) as [x|]; cbn [option_map].
    + replace (Z.of_nat x =? -7) with false by (symmetry; apply Z.eqb_neq; lia). cbn [orb].
      destruct (existsb (fun d0 => d0 =? -7) (copiedS (S k) r cur)); reflexivity.
    + reflexivity.
  - replace (d =? -7) with false by (symmetry; apply Z.eqb_neq; lia). cbn [orb].
    destruct (existsb (fun d0 => d0 =? -7) (copiedS (S k) r cur)); reflexivity.
Qed.

Lemma copied_count ns : forall k cur,
  filter (fun d => d =? -1) (copiedS k ns cur) = filter (fun d => d =? -1) ns.
Proof.
  induction ns as [|d r IH]; intros k cur; [reflexivity|].
  unfold copiedS. cbn [List.length seq combine map fst snd filter]. fold (copiedS (S k) r cur).
  rewrite IH. destruct (d =? 0) eqn:Hd0; [|reflexivity].
  apply Z.eqb_eq in Hd0. subst d. change (0 =? -1) with false. cbv iota.
  destruct (nth_error cur k) as [x|]; [|reflexivity].
  replace (Z.of_nat x =? -1) with false by (symmetry; apply Z.eqb_neq; lia). reflexivity.
Qed.

Lemma copied_entries ns : forall k cur, positive_shape cur -> Forall (fun d => -1 <= d) ns ->
  existsb (fun d => d =? -7) (copiedS k ns cur) = false ->
  Forall (fun d => d = -1 \/ 1 <= d) (copiedS k ns cur).
Proof.
  induction ns as [|d r IH]; intros k cur Hpos Hge Hex; [apply Forall_nil|].
  inversion Hge as [|? ? Hd Hr]; subst.
  unfold copiedS in *. cbn [List.length seq combine map fst snd existsb] in *.
  fold (copiedS (S k) r cur) in *.
  apply orb_false_iff in Hex as [H1 H2].
  apply Forall_cons; [|apply IH; assumption].
  destruct (d =? 0) eqn:Hd0.
  - destruct (nth_error cur k) as [x|] eqn:Hn; [|discriminate H1].
    right. apply nth_error_In in Hn. unfold positive_shape in Hpos. rewrite Forall_forall in Hpos.
    specialize (Hpos x Hn). lia.
  - apply Z.eqb_neq in Hd0. lia.
Qed.

Lemma first_neg1_existsb c :
  existsb (fun d => d =? -1) c = match first_neg1 c with Some _ => true | None => false end.
Proof.
  induction c as [|d r IH]; [reflexivity|]. cbn [existsb first_neg1].
  destruct (d =? -1); [reflexivity|]. cbn [orb]. rewrite IH. destruct (first_neg1 r); reflexivity.
Qed.

Lemma first_neg1_split c : forall i, first_neg1 c = Some i ->
  exists a b, c = a ++ -1 :: b /\ firstn i c = a /\ skipn (S i) c = b
              /\ existsb (fun d => d =? -1) a = false.
Proof.
  induction c as [|d r IH]; intros i Hi; [discriminate|].
  cbn [first_neg1] in Hi. destruct (d =? -1) eqn:Hd.
  - injection Hi as <-. apply Z.eqb_eq in Hd. subst d. exists [], r. repeat split.
  - destruct (first_neg1 r) as [j|] eqn:Hj; [|discriminate]. cbn [option_map] in Hi. injection Hi as <-.
    destruct (IH j eq_refl) as (a & b & E1 & E2 & E3 & E4). exists (d :: a), b.
    cbn [firstn skipn app existsb]. rewrite Hd, E4. cbn [skipn] in E3.
    split; [f_equal; exact E1|]. split; [f_equal; exact E2|]. split; [exact E3|reflexivity].
Qed.

Lemma fold_quot_div l : forall tot, Forall (fun d => 1 <= d) l -> 0 <= tot ->
  fold_left Z.quot l tot = tot / zprod l.
Proof.
  induction l as [|d r IH]; intros tot Hl Ht; cbn [fold_left].
  - rewrite zprod_nil, Z.div_1_r. reflexivity.
  - inversion Hl as [|? ? Hd Hr]; subst. rewrite zprod_cons.
    rewrite IH; [|exact Hr|apply Z.quot_pos; lia].
    rewrite Z.quot_div_nonneg by lia. pose proof (zprod_pos r Hr) as Hp.
    rewrite Z.div_div by lia. reflexivity.
Qed.

Lemma filter_neg1_id a : existsb (fun d => d =? -1) a = false ->
  filter (fun d => negb (d =? -1)) a = a.
Proof.
  induction a as [|x a IH]; cbn [existsb filter]; intros H; [reflexivity|].
  apply orb_false_iff in H as [H1 H2]. rewrite H1. cbn [negb]. now rewrite IH.
Qed.

Lemma map_neg1_id q a : existsb (fun d => d =? -1) a = false ->
  map (fun d => if d =? -1 then q else d) a = a.
Proof.
  induction a as [|x a IH]; cbn [existsb map]; intros H; [reflexivity|].
  apply orb_false_iff in H as [H1 H2]. rewrite H1. now rewrite IH.
Qed.

Lemma entries_no_neg1 a : Forall (fun d => d = -1 \/ 1 <= d) a ->
  existsb (fun d => d =? -1) a = false -> Forall (fun d => 1 <= d) a.
Proof.
  induction 1 as [|x a Hx _ IH]; cbn [existsb]; intros H; [apply Forall_nil|].
  apply orb_false_iff in H as [H1 H2]. apply Z.eqb_neq in H1.
  apply Forall_cons; [lia|exact (IH H2)].
Qed.

(* two or more -1: the model's infer refuses *)
Lemma infer_multi c tot : (1 < List.length (filter (fun d => (d =? -1)%Z) c))%nat -> infer c tot = None.
Proof.
  intros Hcnt. unfold infer. destruct (first_neg1 c) as [i|] eqn:Hi.
  - destruct (first_neg1_split c i Hi) as (a & b & Hc & Hfa & Hsb & Ha).
    rewrite Hfa, Hsb. cbv zeta. subst c.
    rewrite filter_app, app_length in Hcnt. rewrite (existsb_false_filter _ _ Ha) in Hcnt.
    cbn [filter] in Hcnt. change (-1 =? -1) with true in Hcnt. cbv iota in Hcnt.
    cbn [List.length] in Hcnt.
    rewrite existsb_app, Ha. cbn [orb].
    destruct (existsb (fun d => d =? -1) b) eqn:Hb; [reflexivity|].
    rewrite (existsb_false_filter _ _ Hb) in Hcnt. cbn [List.length] in Hcnt. lia.
  - pose proof (first_neg1_existsb c) as He. rewrite Hi in He.
    rewrite (existsb_false_filter _ _ He) in Hcnt. cbn [List.length] in Hcnt. lia.
Qed.

(* at most one -1, every other entry positive: S and the model agree *)
Lemma reshape_core t c :
  1 <= total t -> Forall (fun d => d = -1 \/ 1 <= d) c ->
  (List.length (filter (fun d => (d =? -1)%Z) c) <= 1)%nat ->
  refines (let known := zprod (filter (fun d => negb (d =? -1)) c) in
           if existsb (fun d => d =? -1) c then
             if (known =? 0) || negb (total t mod known =? 0) then SMustErr
             else SMust1 (with_shape t (map (fun d => if d =? -1 then total t / known else d) c))
           else if known =? total t then SMust1 (with_shape t c) else SMustErr)
          (let* v := match infer c (total t) with None => MErr | Some ns' => gz_reshape t ns' end
           in MOk [Some v]).
Proof.
  intros Htot Hent Hcnt. cbv zeta. unfold infer. rewrite first_neg1_existsb.
  destruct (first_neg1 c) as [i|] eqn:Hi.
  - destruct (first_neg1_split c i Hi) as (a & b & Hc & Hfa & Hsb & Ha).
    rewrite Hfa, Hsb. cbv zeta. clear Hi Hfa Hsb. subst c.
    assert (Hb : existsb (fun d => d =? -1) b = false).
    { apply filter_nil_existsb. rewrite filter_app, app_length in Hcnt.
      cbn [filter] in Hcnt. change (-1 =? -1) with true in Hcnt. cbv iota in Hcnt.
      cbn [List.length] in Hcnt.
      destruct (filter (fun d => d =? -1) b) as [|x r]; [reflexivity|]. cbn [List.length] in Hcnt. lia. }
    apply Forall_app in Hent as [Hea Heb]. inversion Heb as [|? ? _ Heb']; subst. clear Heb.
    pose proof (entries_no_neg1 a Hea Ha) as Hpa. pose proof (entries_no_neg1 b Heb' Hb) as Hpb.
    rewrite existsb_app, Ha, Hb. cbn [orb].
    rewrite filter_app. cbn [filter]. change (-1 =? -1) with true. cbn [negb]. cbv iota.
    rewrite (filter_neg1_id a Ha), (filter_neg1_id b Hb).
    assert (Hpab : Forall (fun d => 1 <= d) (a ++ b)) by (apply Forall_app; split; assumption).
    pose proof (zprod_pos _ Hpab) as HK.
    rewrite (fold_quot_div (a ++ b) (total t) Hpab) by lia.
    set (K := zprod (a ++ b)) in *.
    rewrite map_app. cbn [map]. change (-1 =? -1) with true. cbv iota.
    rewrite (map_neg1_id _ a Ha), (map_neg1_id _ b Hb).
    replace (K =? 0) with false by (symmetry; apply Z.eqb_neq; lia). cbn [orb app].
    pose proof (Z.div_mod (total t) K ltac:(lia)) as Hdm.
    pose proof (Z.mod_pos_bound (total t) K ltac:(lia)) as Hmb.
    assert (Hprod : zprod (a ++ total t / K :: b) = K * (total t / K)).
    { unfold K. rewrite !zprod_app, zprod_cons. ring. }
    destruct (total t mod K =? 0) eqn:Hm; cbn [negb].
    + apply Z.eqb_eq in Hm. apply refines_ok_must.
      * rewrite Hprod. lia.
      * apply Forall_app. split; [apply Forall_ge1_nonneg; exact Hpa|].
        apply Forall_cons; [apply Z.div_pos; lia|apply Forall_ge1_nonneg; exact Hpb].
    + apply Z.eqb_neq in Hm. apply refines_err. rewrite Hprod. lia.
  - pose proof (first_neg1_existsb c) as He. rewrite Hi in He.
    rewrite (filter_neg1_id c He).
    pose proof (entries_no_neg1 c Hent He) as Hpc.
    destruct (zprod c =? total t) eqn:Hk.
    + apply Z.eqb_eq in Hk. apply refines_ok_must; [exact Hk|apply Forall_ge1_nonneg; exact Hpc].
    + apply Z.eqb_neq in Hk. apply refines_err. exact Hk.
Qed.

Theorem reshape_refines t shp : positive_shape (sh t) ->
  refines (reshape_spec t shp) (let* v := reshape_model t shp in MOk [Some v]).
Proof.
  intros Hpos. unfold reshape_spec, reshape_model.
  destruct (sh shp) as [|k [|k' sr]] eqn:Hs; [exact I| |exact I].
  cbv zeta.
  destruct (existsb (fun d => d <? -1) (pl shp)) eqn:Hlow; [reflexivity|].
  assert (Hge : Forall (fun d => -1 <= d) (pl shp)).
  { apply Forall_forall. intros d Hd. destruct (Z.ltb_spec d (-1)) as [Hlt|Hle]; [|exact Hle].
    exfalso. assert (Hex : existsb (fun d => d <? -1) (pl shp) = true).
    { apply existsb_exists. exists d. split; [exact Hd|apply Z.ltb_lt; exact Hlt]. }
    congruence. }
  fold (copiedS 0 (pl shp) (sh t)).
  rewrite (copy_zeros_copied (pl shp) 0 (sh t) Hge).
  rewrite <- (copied_count (pl shp) 0 (sh t)).
  set (c := copiedS 0 (pl shp) (sh t)).
  destruct (1 <? Z.of_nat (List.length (filter (fun d => d =? -1) c))) eqn:Hcnt.
  - apply Z.ltb_lt in Hcnt.
    destruct (existsb (fun d => d =? -7) c); [reflexivity|].
    cbv beta iota. rewrite infer_multi by lia. reflexivity.
  - apply Z.ltb_ge in Hcnt.
    destruct (existsb (fun d => d =? -7) c) eqn:H7; [reflexivity|].
    cbv beta iota. apply reshape_core.
    + apply total_pos. exact Hpos.
    + apply copied_entries; assumption.
    + lia.
Qed.

(* ------------------------------------------------------------------------------------ *)
(* The case-level statement                                                              *)
(* ------------------------------------------------------------------------------------ *)

Theorem c07_model_refines_spec (c : opcase) :
  (forall t, In (Some t) (oc_ins c) -> positive_shape (sh t)) ->
  known_class c = None ->
  refines (spec c) (model c).
Proof.
  destruct c as [op attrs ins obs after].
  unfold spec, model, model1, known_class. cbn [oc_op oc_ins].
  intros Hpos Hk.
  repeat match goal with
         | |- refines (match ?x with _ => _ end) _ =>
             is_var x; destruct x; cbv beta iota; try exact I
         end.
  all: cbv beta iota in Hk.
  - apply squeeze_refines. apply Hpos. left. reflexivity.
  - apply squeeze_refines. apply Hpos. left. reflexivity.
  - apply shape_refines. intros E. rewrite E in Hk. discriminate Hk.
  - apply unsqueeze_refines. apply Hpos. left. reflexivity.
  - apply flatten_refines. apply Hpos. left. reflexivity.
  - apply reshape_refines. apply Hpos. left. reflexivity.
Qed.

Print Assumptions reshape_refines.
Print Assumptions flatten_refines.
Print Assumptions squeeze_refines.
Print Assumptions unsqueeze_refines.
Print Assumptions shape_refines.
Print Assumptions c07_model_refines_spec.
