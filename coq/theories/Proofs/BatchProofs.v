(* C16: per-sample operators do not mix batch rows. Row-independence lemmas over the models / specs:
   the 2-D product (Gemm, MatMul against weights, the per-gate products of the recurrent operators),
   the direct convolution, and elementwise operators against operands broadcast over the batch. *)
From Coq Require Import List Arith Lia PeanoNat Bool.
From V Require Import Tensor ListUtil Writes ConvLoop ConvLoopProofs MatMul BroadcastSpec.
Import ListNotations.

Section B.
Context {A : Type} (zero : A) (add mul : A -> A -> A).
Notation get := (get zero).

(* sample b of a batch along axis 0 *)
Definition row (b : nat) (t : tensor A) : tensor A :=
  tabulate (1 :: tl (tshape t)) (fun i => get t (b :: tl i)).

Lemma valid2 a b x0 x1 : x0 < a -> x1 < b -> valid [a; b] [x0; x1].
Proof. intros. unfold valid. repeat constructor; auto. Qed.

(* X . W: row i of the product is the product of row i *)
Theorem mm2_row (a w : tensor A) i j :
  tshape a = [ext a 0; ext a 1] -> i < ext a 0 -> j < ext w 1 ->
  get (mm2 zero add mul a w) [i; j] = get (mm2 zero add mul (row i a) w) [0; j].
Proof.
  intros Sa Li Lj. unfold mm2.
  assert (E1 : ext (row i a) 1 = ext a 1) by (unfold ext, row; cbn [tshape tabulate]; rewrite Sa; reflexivity).
  assert (E0 : ext (row i a) 0 = 1) by reflexivity.
  rewrite get_tabulate by (apply valid2; assumption).
  rewrite get_tabulate by (apply valid2; [rewrite E0; lia|assumption]).
  rewrite E1. cbn [nth]. unfold dotk. f_equal. apply map_ext_in. intros k Ik. apply in_seq in Ik.
  f_equal. unfold row. rewrite get_tabulate; [reflexivity|].
  rewrite Sa. cbn [tl]. apply valid2; lia.
Qed.

(* the direct 2-D convolution: output sample b depends on input sample b only *)
Theorem conv2d_spec_row N C H W M KH KW p0 p1 p2 p3 s0 s1 (x k : tensor A) b m oh ow :
  tshape x = [N; C; H; W] -> b < N -> m < M ->
  oh < (p0 + H + p2 - KH) / s0 + 1 -> ow < (p1 + W + p3 - KW) / s1 + 1 ->
  get (conv2d_spec zero add mul N C H W M KH KW p0 p1 p2 p3 s0 s1 x k) [b; m; oh; ow]
  = get (conv2d_spec zero add mul 1 C H W M KH KW p0 p1 p2 p3 s0 s1 (row b x) k) [0; m; oh; ow].
Proof.
  intros Sx Lb Lm Loh Low. unfold conv2d_spec.
  rewrite get_tabulate by (apply valid4; assumption).
  rewrite get_tabulate by (apply valid4; try assumption; lia).
  cbn [nth]. f_equal. apply map_ext_in. intros t It. apply in_all_indices in It.
  destruct (idx3 _ _ _ _ It) as (_ & Lc & La & Lw). f_equal.
  unfold xpad2.
  destruct ((p0 <=? oh * s0 + nth 1 t 0) && (oh * s0 + nth 1 t 0 <? p0 + H) && (p1 <=? ow * s1 + nth 2 t 0) && (ow * s1 + nth 2 t 0 <? p1 + W)) eqn:E; [|reflexivity].
  apply andb_true_iff in E as [E E4]. apply andb_true_iff in E as [E E3]. apply andb_true_iff in E as [E1 E2].
  apply Nat.leb_le in E1, E3. apply Nat.ltb_lt in E2, E4.
  unfold row. rewrite get_tabulate; [reflexivity|].
  rewrite Sx. cbn [tl]. apply valid4; lia.
Qed.

(* an elementwise binary operation against an operand broadcast over the batch axis: sample b of the
   result is the operation applied to sample b *)
Theorem bcast_elementwise_row (g : A -> A -> A) (x w : tensor A) s b i :
  tshape x = s -> bshape s (tshape w) = Some s -> length (tshape w) < length s ->
  valid s (b :: i) ->
  g (get x (b :: i)) (get (bcast_to zero s w) (b :: i))
  = g (get (row b x) (0 :: i)) (get (bcast_to zero (1 :: tl s) w) (0 :: i)).
Proof.
  intros Sx Hb Hr V. unfold bcast_to.
  destruct s as [|d s']; [inversion V|]. cbn [tl].
  assert (V' : valid (1 :: s') (0 :: i)).
  { unfold valid in *. inversion V; subst. constructor; [lia|assumption]. }
  rewrite get_tabulate by exact V. rewrite get_tabulate by exact V'.
  f_equal.
  - unfold row. rewrite Sx. cbn [tl]. rewrite get_tabulate by exact V'. reflexivity.
  - (* the projection drops the batch coordinate: w has fewer axes than the batch tensor *)
    unfold bproj.
    pose proof (valid_length _ _ V) as L. pose proof (valid_length _ _ V') as L0.
    cbn [length] in L, L0, Hr |- *.
    replace (S (length i) - length (tshape w)) with (S (length i - length (tshape w))) by lia.
    reflexivity.
Qed.
End B.
