(* Facts about the executable specification of ArgMax / ReduceMax / ReduceMin (Check/CheckC09.v):
   the scan `best`, axis normalisation, and the rank of the output shape. No axioms. *)
From Coq Require Import List ZArith Bool Lia.
From V Require Import CheckC09.
Import ListNotations.
Open Scope Z_scope.
Open Scope list_scope.

(* no NaN in a slice: no entry without a key *)
Definition no_nan (l : list (nat * option Z)) : Prop := forall j, ~ In (j, @None Z) l.

Lemma no_nan_tail : forall p l, no_nan (p :: l) -> no_nan l.
Proof. intros p l H j Hj. apply (H j). right. exact Hj. Qed.

Lemma no_nan_app_l : forall l1 l2, no_nan (l1 ++ l2) -> no_nan l1.
Proof. intros l1 l2 H j Hj. apply (H j). apply in_or_app. left. exact Hj. Qed.

(* ---------------- the scan, for any `better` that is a strict order seen through `ord` -------- *)
Section BestGeneric.
  Variable better : Z -> Z -> bool.
  Variable ord : Z -> Z.
  Hypothesis better_spec : forall a b, better a b = true <-> ord b < ord a.

  Lemma better_false : forall a b, better a b = false -> ord a <= ord b.
  Proof.
    intros a b Hf. destruct (Z_lt_le_dec (ord b) (ord a)) as [Hlt | Hle]; [|exact Hle].
    apply better_spec in Hlt. rewrite Hlt in Hf. discriminate Hf.
  Qed.

  (* scanning from a current candidate (ic, kc): either nothing beats it, or the result is the
     first element carrying the overall best key *)
  Lemma best_from_some : forall nf l ic kc, no_nan l ->
    (best better nf l (Some (ic, Some kc)) = Some (ic, Some kc) /\
     forall j kj, In (j, Some kj) l -> ord kj <= ord kc)
    \/
    (exists i k l1 l2, l = l1 ++ (i, Some k) :: l2 /\ ord kc < ord k /\
       (forall j kj, In (j, Some kj) l1 -> ord kj < ord k) /\
       (forall j kj, In (j, Some kj) l2 -> ord kj <= ord k) /\
       best better nf l (Some (ic, Some kc)) = Some (i, Some k)).
  Proof.
    intros nf. induction l as [|[i [kn|]] r IH]; intros ic kc Hnn.
    - left. split; [reflexivity|]. intros j kj Hin. destruct Hin.
    - pose proof (no_nan_tail _ _ Hnn) as Hnr. simpl.
      destruct (better kn kc) eqn:Hb.
      + apply better_spec in Hb.
        destruct (IH i kn Hnr) as [[He Hall] | (i' & k' & r1 & r2 & Hr & Hlt & H1 & H2 & He)].
        * right. exists i, kn, [], r. split; [reflexivity|]. split; [exact Hb|].
          split; [intros j kj Hin; destruct Hin|]. split; [exact Hall | exact He].
        * right. exists i', k', ((i, Some kn) :: r1), r2.
          split; [rewrite Hr; reflexivity|]. split; [lia|].
          split; [|split; [exact H2 | exact He]].
          intros j kj Hin. destruct Hin as [Heq | Hin].
          -- inversion Heq; subst. exact Hlt.
          -- exact (H1 j kj Hin).
      + apply better_false in Hb.
        destruct (IH ic kc Hnr) as [[He Hall] | (i' & k' & r1 & r2 & Hr & Hlt & H1 & H2 & He)].
        * left. split; [exact He|]. intros j kj Hin. destruct Hin as [Heq | Hin].
          -- inversion Heq; subst. exact Hb.
          -- exact (Hall j kj Hin).
        * right. exists i', k', ((i, Some kn) :: r1), r2.
          split; [rewrite Hr; reflexivity|]. split; [exact Hlt|].
          split; [|split; [exact H2 | exact He]].
          intros j kj Hin. destruct Hin as [Heq | Hin].
          -- inversion Heq; subst. lia.
          -- exact (H1 j kj Hin).
    - exfalso. apply (Hnn i). left. reflexivity.
  Qed.

  (* existence: a non-empty NaN-free list has a first-best decomposition, and `best` returns it *)
  Theorem best_first_generic : forall nf l, l <> [] -> no_nan l ->
    exists i k l1 l2, l = l1 ++ (i, Some k) :: l2 /\
      (forall j kj, In (j, Some kj) l1 -> ord kj < ord k) /\
      (forall j kj, In (j, Some kj) l2 -> ord kj <= ord k) /\
      best better nf l None = Some (i, Some k).
  Proof.
    intros nf l Hne Hnn. destruct l as [|[i [k|]] r].
    - exfalso. apply Hne. reflexivity.
    - pose proof (no_nan_tail _ _ Hnn) as Hnr. simpl.
      destruct (best_from_some nf r i k Hnr) as [[He Hall] | (i' & k' & r1 & r2 & Hr & Hlt & H1 & H2 & He)].
      + exists i, k, [], r. split; [reflexivity|].
        split; [intros j kj Hin; destruct Hin|]. split; [exact Hall | exact He].
      + exists i', k', ((i, Some k) :: r1), r2.
        split; [rewrite Hr; reflexivity|].
        split; [|split; [exact H2 | exact He]].
        intros j kj Hin. destruct Hin as [Heq | Hin].
        * inversion Heq; subst. exact Hlt.
        * exact (H1 j kj Hin).
    - exfalso. apply (Hnn i). left. reflexivity.
  Qed.

  (* the converse direction: whatever first-best decomposition one exhibits, `best` returns it *)
  Lemma best_keep : forall nf l ic kc, no_nan l ->
    (forall j kj, In (j, Some kj) l -> ord kj <= ord kc) ->
    best better nf l (Some (ic, Some kc)) = Some (ic, Some kc).
  Proof.
    intros nf. induction l as [|[i [kn|]] r IH]; intros ic kc Hnn Hall.
    - reflexivity.
    - simpl. destruct (better kn kc) eqn:Hb.
      + apply better_spec in Hb. pose proof (Hall i kn (or_introl eq_refl)) as Hle. lia.
      + apply IH; [exact (no_nan_tail _ _ Hnn)|]. intros j kj Hin. apply (Hall j kj). right. exact Hin.
    - exfalso. apply (Hnn i). left. reflexivity.
  Qed.

  Lemma best_reach : forall nf l1 i k l2 ic kc, no_nan (l1 ++ (i, Some k) :: l2) ->
    ord kc < ord k ->
    (forall j kj, In (j, Some kj) l1 -> ord kj < ord k) ->
    (forall j kj, In (j, Some kj) l2 -> ord kj <= ord k) ->
    best better nf (l1 ++ (i, Some k) :: l2) (Some (ic, Some kc)) = Some (i, Some k).
  Proof.
    intros nf. induction l1 as [|[j0 [k0|]] r IH]; intros i k l2 ic kc Hnn Hlt H1 H2.
    - simpl. assert (Hb : better k kc = true) by (apply better_spec; exact Hlt). rewrite Hb.
      apply best_keep; [|exact H2]. exact (no_nan_tail _ _ Hnn).
    - simpl. simpl in Hnn. pose proof (no_nan_tail _ _ Hnn) as Hnr.
      assert (H1' : forall j kj, In (j, Some kj) r -> ord kj < ord k)
        by (intros j kj Hin; apply (H1 j kj); right; exact Hin).
      destruct (better k0 kc).
      + apply IH; [exact Hnr | | exact H1' | exact H2]. apply (H1 j0 k0). left. reflexivity.
      + apply IH; [exact Hnr | exact Hlt | exact H1' | exact H2].
    - exfalso. apply (Hnn j0). left. reflexivity.
  Qed.

  Theorem best_first_generic_decomp : forall nf l1 i k l2, no_nan (l1 ++ (i, Some k) :: l2) ->
    (forall j kj, In (j, Some kj) l1 -> ord kj < ord k) ->
    (forall j kj, In (j, Some kj) l2 -> ord kj <= ord k) ->
    best better nf (l1 ++ (i, Some k) :: l2) None = Some (i, Some k).
  Proof.
    intros nf l1 i k l2 Hnn H1 H2. destruct l1 as [|[j0 [k0|]] r].
    - simpl. apply best_keep; [|exact H2]. exact (no_nan_tail _ _ Hnn).
    - simpl. simpl in Hnn. apply best_reach.
      + exact (no_nan_tail _ _ Hnn).
      + apply (H1 j0 k0). left. reflexivity.
      + intros j kj Hin. apply (H1 j kj). right. exact Hin.
      + exact H2.
    - exfalso. apply (Hnn j0). left. reflexivity.
  Qed.

  (* NaN first: with nan_first set, the first entry without a key is the result, whatever the
     keys around it *)
  Lemma best_nan_stuck : forall l i, best better true l (Some (i, None)) = Some (i, None).
  Proof. intros l i. destruct l as [|[j k] r]; reflexivity. Qed.

  Lemma best_nan_from : forall l1 i l2 cur, no_nan l1 ->
    (cur = None \/ exists ic kc, cur = Some (ic, Some kc)) ->
    best better true (l1 ++ (i, None) :: l2) cur = Some (i, None).
  Proof.
    induction l1 as [|[j0 [k0|]] r IH]; intros i l2 cur Hnn Hcur.
    - simpl. destruct Hcur as [Hc | (ic & kc & Hc)]; subst cur.
      + apply best_nan_stuck.
      + reflexivity.
    - pose proof (no_nan_tail _ _ Hnn) as Hnr. simpl.
      destruct Hcur as [Hc | (ic & kc & Hc)]; subst cur.
      + apply IH; [exact Hnr|]. right. exists j0, k0. reflexivity.
      + destruct (better k0 kc).
        * apply IH; [exact Hnr|]. right. exists j0, k0. reflexivity.
        * apply IH; [exact Hnr|]. right. exists ic, kc. reflexivity.
    - exfalso. apply (Hnn j0). left. reflexivity.
  Qed.

  Theorem best_first_nan_generic : forall l1 i l2, no_nan l1 ->
    best better true (l1 ++ (i, None) :: l2) None = Some (i, None).
  Proof. intros l1 i l2 Hnn. apply best_nan_from; [exact Hnn | left; reflexivity]. Qed.
End BestGeneric.

(* ---------------- maximum (ArgMax, ReduceMax): Z.gtb ---------------- *)
Lemma gtb_spec : forall a b, Z.gtb a b = true <-> (fun z => z) b < (fun z => z) a.
Proof. intros a b. simpl. rewrite Z.gtb_lt. reflexivity. Qed.

(* for a non-empty NaN-free list the scan returns (i, Some k) where k is the maximum key and
   (i, Some k) is the FIRST entry carrying it *)
Theorem best_first_max : forall l, l <> [] -> no_nan l ->
  exists i k l1 l2, l = l1 ++ (i, Some k) :: l2 /\
    (forall j kj, In (j, Some kj) l1 -> kj < k) /\
    (forall j kj, In (j, Some kj) l2 -> kj <= k) /\
    best Z.gtb true l None = Some (i, Some k).
Proof. intros l Hne Hnn. exact (best_first_generic Z.gtb (fun z => z) gtb_spec true l Hne Hnn). Qed.

(* the same without the NaN-first rule (ReduceMax, max_pt, kmax) *)
Theorem best_first_max_any : forall nf l, l <> [] -> no_nan l ->
  exists i k l1 l2, l = l1 ++ (i, Some k) :: l2 /\
    (forall j kj, In (j, Some kj) l1 -> kj < k) /\
    (forall j kj, In (j, Some kj) l2 -> kj <= k) /\
    best Z.gtb nf l None = Some (i, Some k).
Proof. intros nf l Hne Hnn. exact (best_first_generic Z.gtb (fun z => z) gtb_spec nf l Hne Hnn). Qed.

(* every exhibited first-maximum decomposition is the one returned *)
Theorem best_first_max_decomp : forall nf l1 i k l2, no_nan (l1 ++ (i, Some k) :: l2) ->
  (forall j kj, In (j, Some kj) l1 -> kj < k) ->
  (forall j kj, In (j, Some kj) l2 -> kj <= k) ->
  best Z.gtb nf (l1 ++ (i, Some k) :: l2) None = Some (i, Some k).
Proof.
  intros nf l1 i k l2 Hnn H1 H2.
  exact (best_first_generic_decomp Z.gtb (fun z => z) gtb_spec nf l1 i k l2 Hnn H1 H2).
Qed.

(* k is the maximum of all keys *)
Corollary best_max_is_max : forall nf l, l <> [] -> no_nan l ->
  exists i k, best Z.gtb nf l None = Some (i, Some k) /\ In (i, Some k) l /\
    forall j kj, In (j, Some kj) l -> kj <= k.
Proof.
  intros nf l Hne Hnn.
  destruct (best_first_max_any nf l Hne Hnn) as (i & k & l1 & l2 & Hl & H1 & H2 & He).
  exists i, k. split; [exact He|]. split.
  - rewrite Hl. apply in_or_app. right. left. reflexivity.
  - intros j kj Hin. rewrite Hl in Hin. apply in_app_or in Hin. destruct Hin as [Hin | [Heq | Hin]].
    + pose proof (H1 j kj Hin). lia.
    + inversion Heq; subst. lia.
    + exact (H2 j kj Hin).
Qed.

Theorem best_first_nan : forall better l1 i l2, no_nan l1 ->
  best better true (l1 ++ (i, None) :: l2) None = Some (i, None).
Proof. intros better l1 i l2 Hnn. exact (best_first_nan_generic better l1 i l2 Hnn). Qed.

(* ---------------- minimum (ReduceMin): Z.ltb ---------------- *)
Lemma ltb_spec : forall a b, Z.ltb a b = true <-> Z.opp b < Z.opp a.
Proof. intros a b. rewrite Z.ltb_lt. lia. Qed.

Theorem best_first_min : forall nf l, l <> [] -> no_nan l ->
  exists i k l1 l2, l = l1 ++ (i, Some k) :: l2 /\
    (forall j kj, In (j, Some kj) l1 -> k < kj) /\
    (forall j kj, In (j, Some kj) l2 -> k <= kj) /\
    best Z.ltb nf l None = Some (i, Some k).
Proof.
  intros nf l Hne Hnn.
  destruct (best_first_generic Z.ltb Z.opp ltb_spec nf l Hne Hnn) as (i & k & l1 & l2 & Hl & H1 & H2 & He).
  exists i, k, l1, l2. split; [exact Hl|]. split; [|split; [|exact He]].
  - intros j kj Hin. pose proof (H1 j kj Hin). lia.
  - intros j kj Hin. pose proof (H2 j kj Hin). lia.
Qed.

Theorem best_first_min_decomp : forall nf l1 i k l2, no_nan (l1 ++ (i, Some k) :: l2) ->
  (forall j kj, In (j, Some kj) l1 -> k < kj) ->
  (forall j kj, In (j, Some kj) l2 -> k <= kj) ->
  best Z.ltb nf (l1 ++ (i, Some k) :: l2) None = Some (i, Some k).
Proof.
  intros nf l1 i k l2 Hnn H1 H2.
  apply (best_first_generic_decomp Z.ltb Z.opp ltb_spec nf l1 i k l2 Hnn).
  - intros j kj Hin. pose proof (H1 j kj Hin). lia.
  - intros j kj Hin. pose proof (H2 j kj Hin). lia.
Qed.

(* ---------------- axis normalisation ---------------- *)
Theorem norm_axis_spec : forall r a k,
  norm_axis r a = Some k <->
  (- Z.of_nat r <= a < Z.of_nat r) /\ k = Z.to_nat (if a <? 0 then a + Z.of_nat r else a).
Proof.
  intros r a k. unfold norm_axis.
  destruct (- Z.of_nat r <=? a) eqn:H1; destruct (a <? Z.of_nat r) eqn:H2; simpl.
  - apply Z.leb_le in H1. apply Z.ltb_lt in H2. split.
    + intros He. inversion He. split; [lia | reflexivity].
    + intros [_ He]. rewrite He. reflexivity.
  - apply Z.ltb_ge in H2. split; [intros He; discriminate He | intros [Hr _]; lia].
  - apply Z.leb_gt in H1. split; [intros He; discriminate He | intros [Hr _]; lia].
  - apply Z.leb_gt in H1. split; [intros He; discriminate He | intros [Hr _]; lia].
Qed.

Corollary norm_axis_none : forall r a, norm_axis r a = None <-> (a < - Z.of_nat r \/ Z.of_nat r <= a).
Proof.
  intros r a. unfold norm_axis.
  destruct (- Z.of_nat r <=? a) eqn:H1; destruct (a <? Z.of_nat r) eqn:H2; simpl.
  - apply Z.leb_le in H1. apply Z.ltb_lt in H2. split; [intros He; discriminate He | lia].
  - apply Z.ltb_ge in H2. split; [lia | reflexivity].
  - apply Z.leb_gt in H1. split; [lia | reflexivity].
  - apply Z.leb_gt in H1. split; [lia | reflexivity].
Qed.

(* a non-negative axis and its negative spelling a - r name the same position *)
Corollary norm_axis_nonneg : forall r a, 0 <= a < Z.of_nat r -> norm_axis r a = Some (Z.to_nat a).
Proof.
  intros r a Ha. apply norm_axis_spec. split; [lia|].
  destruct (a <? 0) eqn:H0; [apply Z.ltb_lt in H0; lia | reflexivity].
Qed.

Corollary norm_axis_negative : forall r a, 0 <= a < Z.of_nat r ->
  norm_axis r (a - Z.of_nat r) = norm_axis r a.
Proof.
  intros r a Ha. rewrite (norm_axis_nonneg r a Ha). apply norm_axis_spec. split; [lia|].
  destruct (a - Z.of_nat r <? 0) eqn:H0.
  - f_equal. lia.
  - apply Z.ltb_ge in H0. lia.
Qed.

Corollary norm_axis_lt : forall r a k, norm_axis r a = Some k -> (k < r)%nat.
Proof.
  intros r a k H. apply norm_axis_spec in H. destruct H as [Hr Hk]. subst k.
  destruct (a <? 0) eqn:H0.
  - apply Z.ltb_lt in H0. lia.
  - apply Z.ltb_ge in H0. lia.
Qed.

(* ---------------- rank of the output shape ---------------- *)
Lemma memn_In : forall k l, memn k l = true <-> In k l.
Proof.
  intros k l. unfold memn. rewrite existsb_exists. split.
  - intros [x [Hin He]]. apply Nat.eqb_eq in He. subst x. exact Hin.
  - intros Hin. exists k. split; [exact Hin | apply Nat.eqb_refl].
Qed.

Lemma out_shape_keep_aux : forall A s b,
  List.length (flat_map (fun p : nat * nat => if memn (fst p) A then [1%nat] else [snd p])
                 (combine (seq b (List.length s)) s)) = List.length s.
Proof.
  intros A. induction s as [|x t IH]; intros b.
  - reflexivity.
  - simpl. rewrite app_length. rewrite (IH (S b)). destruct (memn b A); reflexivity.
Qed.

Theorem out_shape_keepdims : forall s A, List.length (out_shape s A true) = List.length s.
Proof. intros s A. unfold out_shape, idxs. apply out_shape_keep_aux. Qed.

Lemma out_shape_drop_aux : forall A s b,
  List.length (flat_map (fun p : nat * nat => if memn (fst p) A then [] else [snd p])
                 (combine (seq b (List.length s)) s))
  = List.length (filter (fun i => negb (memn i A)) (seq b (List.length s))).
Proof.
  intros A. induction s as [|x t IH]; intros b.
  - reflexivity.
  - simpl. rewrite app_length. rewrite (IH (S b)). destruct (memn b A); reflexivity.
Qed.

Lemma filter_split_length : forall (X : Type) (f : X -> bool) (l : list X),
  (List.length (filter f l) + List.length (filter (fun x => negb (f x)) l) = List.length l)%nat.
Proof.
  intros X f. induction l as [|a t IH].
  - reflexivity.
  - simpl. destruct (f a); simpl; lia.
Qed.

(* the members of A among 0 .. n-1 are exactly A when A has no duplicates and lies below n *)
Lemma count_members : forall A n, NoDup A -> (forall a, In a A -> (a < n)%nat) ->
  List.length (filter (fun i => memn i A) (seq 0 n)) = List.length A.
Proof.
  intros A n Hnd Hlt. apply Nat.le_antisymm.
  - apply NoDup_incl_length.
    + apply NoDup_filter. apply seq_NoDup.
    + intros x Hx. apply filter_In in Hx. destruct Hx as [_ Hm]. apply memn_In. exact Hm.
  - apply NoDup_incl_length; [exact Hnd|].
    intros x Hx. apply filter_In. split.
    + apply in_seq. pose proof (Hlt x Hx). lia.
    + apply memn_In. exact Hx.
Qed.

Theorem out_shape_length_drop : forall s A, NoDup A ->
  (forall a, In a A -> (a < List.length s)%nat) ->
  List.length (out_shape s A false) = (List.length s - List.length A)%nat.
Proof.
  intros s A Hnd Hlt. unfold out_shape, idxs. rewrite out_shape_drop_aux.
  pose proof (filter_split_length nat (fun i => memn i A) (seq 0 (List.length s))) as Hs.
  rewrite (count_members A (List.length s) Hnd Hlt) in Hs. rewrite seq_length in Hs. lia.
Qed.

(* the single-axis case used by ArgMax *)
Corollary out_shape_length_drop_one : forall s ax, (ax < List.length s)%nat ->
  List.length (out_shape s [ax] false) = (List.length s - 1)%nat.
Proof.
  intros s ax Hlt. rewrite out_shape_length_drop.
  - reflexivity.
  - constructor; [intros H; destruct H | constructor].
  - intros a [Ha | Ha]; [subst a; exact Hlt | destruct Ha].
Qed.

Print Assumptions best_first_max.
Print Assumptions best_first_nan.
Print Assumptions best_first_min.
Print Assumptions norm_axis_spec.
Print Assumptions out_shape_length_drop.
