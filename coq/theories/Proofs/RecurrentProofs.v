(* C06, proved for ALL inputs, over an ARBITRARY scalar type and ARBITRARY scalar operations
   (Model/Recurrent.v; no algebraic law is assumed anywhere in this file):

   1. SPLIT CONSISTENCY: the time loop over xs1 ++ xs2 is the loop over xs1 followed by the loop
      over xs2 started from the final state of xs1 (run_from_app, run_rec_app); one output per time
      step (run_from_length); Y_h is the last element of Y (run_from_last, run_rec_last).
   2. PARAMETRICITY: any relation R between two scalar types that is preserved by the scalar
      operations and by the activations is preserved, at every nesting level, by gemm_row, pre, the
      three cells, step, run_from and run_rec (run_from_rel, run_rec_rel).  Instances: "the interval
      instantiation encloses the real instantiation" (R = containment), naturality in the scalar
      type (R = graph of a homomorphism).
   3. BATCH INDEPENDENCE: row i of the new state depends only on row i of xt and of the state
      (step_rnn_row, step_gru_row, step_lstm_row); selecting any list of batch rows (a sub-selection,
      a permutation, with or without repetitions) of every xt and of the initial state selects the
      same rows of every output (step_pick, run_from_pick, run_rec_pick); the one-row version
      (run_rec_single_row). *)
From Coq Require Import List Bool Arith Lia.
From V Require Import Recurrent.
Import ListNotations.

(* ------------------------------------------------------------------------------------------- *)
(* 1. split consistency                                                                         *)
(* ------------------------------------------------------------------------------------------- *)
Section Split.
Context {A : Type} (o : sops A).
Variables (k : rkind) (acts : list (A -> A)) (lbr coupled : bool)
          (Wg Rg : list (list (list A))) (Wb Rb : list (list A)) (P : option (list (list A))).
Notation RUN := (run_from o k acts lbr coupled Wg Rg Wb Rb P).
Notation REC := (run_rec o k acts lbr coupled Wg Rg Wb Rb P).

Theorem run_from_app : forall xs1 xs2 st,
  RUN (xs1 ++ xs2) st =
    let (ys1, st1) := RUN xs1 st in
    let (ys2, st2) := RUN xs2 st1 in (ys1 ++ ys2, st2).
Proof.
  induction xs1 as [|xt xs1 IH]; intros xs2 st; simpl.
  - destruct (RUN xs2 st) as [ys2 st2]; reflexivity.
  - rewrite IH.
    destruct (RUN xs1 (step o k acts lbr coupled Wg Rg Wb Rb P xt st)) as [ys1 st1].
    destruct (RUN xs2 st1) as [ys2 st2]; reflexivity.
Qed.

(* the same statement with projections *)
Corollary run_from_app_proj : forall xs1 xs2 st,
  fst (RUN (xs1 ++ xs2) st) = fst (RUN xs1 st) ++ fst (RUN xs2 (snd (RUN xs1 st))) /\
  snd (RUN (xs1 ++ xs2) st) = snd (RUN xs2 (snd (RUN xs1 st))).
Proof.
  intros xs1 xs2 st. rewrite run_from_app.
  destruct (RUN xs1 st) as [ys1 st1]; simpl.
  destruct (RUN xs2 st1) as [ys2 st2]; simpl. split; reflexivity.
Qed.

(* run_rec is run_from with the state pair flattened *)
Lemma run_rec_proj : forall xs h0 c0,
  fst (fst (REC xs h0 c0)) = fst (RUN xs (h0, c0)) /\
  snd (fst (REC xs h0 c0)) = fst (snd (RUN xs (h0, c0))) /\
  snd (REC xs h0 c0) = snd (snd (RUN xs (h0, c0))).
Proof.
  intros xs h0 c0. unfold run_rec.
  match goal with |- context [match ?r with pair _ _ => _ end] => destruct r as [ys [h c]] end.
  simpl. auto.
Qed.
Lemma run_rec_Y : forall xs h0 c0, fst (fst (REC xs h0 c0)) = fst (RUN xs (h0, c0)).
Proof. intros; apply run_rec_proj. Qed.
Lemma run_rec_h : forall xs h0 c0, snd (fst (REC xs h0 c0)) = fst (snd (RUN xs (h0, c0))).
Proof. intros; apply run_rec_proj. Qed.
Lemma run_rec_c : forall xs h0 c0, snd (REC xs h0 c0) = snd (snd (RUN xs (h0, c0))).
Proof. intros; apply run_rec_proj. Qed.

Theorem run_rec_app : forall xs1 xs2 h0 c0,
  REC (xs1 ++ xs2) h0 c0 =
    let '(Y1, h1, c1) := REC xs1 h0 c0 in
    let '(Y2, h2, c2) := REC xs2 h1 c1 in (Y1 ++ Y2, h2, c2).
Proof.
  intros xs1 xs2 h0 c0. unfold run_rec. rewrite run_from_app.
  destruct (RUN xs1 (h0, c0)) as [ys1 [h1 c1]].
  destruct (RUN xs2 (h1, c1)) as [ys2 [h2 c2]]. reflexivity.
Qed.

Theorem run_from_length : forall xs st, length (fst (RUN xs st)) = length xs.
Proof.
  induction xs as [|xt xs IH]; intros st; simpl; [reflexivity|].
  specialize (IH (step o k acts lbr coupled Wg Rg Wb Rb P xt st)).
  destruct (RUN xs (step o k acts lbr coupled Wg Rg Wb Rb P xt st)) as [ys fin]; simpl in *.
  rewrite IH; reflexivity.
Qed.

Theorem run_rec_length : forall xs h0 c0, length (fst (fst (REC xs h0 c0))) = length xs.
Proof.
  intros xs h0 c0. unfold run_rec. pose proof (run_from_length xs (h0, c0)) as H.
  destruct (RUN xs (h0, c0)) as [ys [h c]]; simpl in *. exact H.
Qed.

(* Y_h = last Y (for any default d) *)
Theorem run_from_last : forall xs st d, xs <> [] ->
  last (fst (RUN xs st)) d = fst (snd (RUN xs st)).
Proof.
  induction xs as [|xt xs IH]; intros st d Hne; [congruence|]. simpl.
  set (st' := step o k acts lbr coupled Wg Rg Wb Rb P xt st).
  destruct xs as [|xt2 xs].
  - simpl. reflexivity.
  - assert (Hne2 : xt2 :: xs <> []) by congruence.
    specialize (IH st' d Hne2).
    pose proof (run_from_length (xt2 :: xs) st') as HL.
    destruct (RUN (xt2 :: xs) st') as [ys fin]; simpl in IH, HL |- *.
    destruct ys as [|y ys]; [simpl in HL; discriminate|]. exact IH.
Qed.

Theorem run_rec_last : forall xs h0 c0 d, xs <> [] ->
  last (fst (fst (REC xs h0 c0))) d = snd (fst (REC xs h0 c0)).
Proof.
  intros xs h0 c0 d Hne. unfold run_rec. pose proof (run_from_last xs (h0, c0) d Hne) as H.
  destruct (RUN xs (h0, c0)) as [ys [h c]]; simpl in *. exact H.
Qed.

(* with no time step the state is returned unchanged *)
Lemma run_rec_nil : forall h0 c0, REC [] h0 c0 = ([], h0, c0).
Proof. reflexivity. Qed.
End Split.

(* ------------------------------------------------------------------------------------------- *)
(* generic list lemmas                                                                          *)
(* ------------------------------------------------------------------------------------------- *)
Lemma Forall2_map_rel : forall {X Y X' Y'} (Q : X -> Y -> Prop) (Q' : X' -> Y' -> Prop) f g l l',
  (forall a b, Q a b -> Q' (f a) (g b)) -> Forall2 Q l l' -> Forall2 Q' (map f l) (map g l').
Proof.
  intros X Y X' Y' Q Q' f g l l' Hf H. induction H as [|a b l l' Hab H IH]; simpl; constructor; auto.
Qed.

Lemma Forall2_combine_rel : forall {X Y X2 Y2} (Q : X -> Y -> Prop) (Q2 : X2 -> Y2 -> Prop) a a' b b',
  Forall2 Q a a' -> Forall2 Q2 b b' ->
  Forall2 (fun p p' => Q (fst p) (fst p') /\ Q2 (snd p) (snd p')) (combine a b) (combine a' b').
Proof.
  intros X Y X2 Y2 Q Q2 a a' b b' Ha. revert b b'.
  induction Ha as [|x y a a' Hxy Ha IH]; intros b b' Hb; simpl; [constructor|].
  destruct Hb as [|x2 y2 b b' Hxy2 Hb]; constructor; simpl; auto.
Qed.

Lemma Forall2_nth_rel : forall {X Y} (Q : X -> Y -> Prop) l l' i d d',
  Forall2 Q l l' -> Q d d' -> Q (nth i l d) (nth i l' d').
Proof.
  intros X Y Q l l' i d d' H Hd. revert i.
  induction H as [|a b l l' Hab H IH]; intros [|i]; simpl; auto.
Qed.

Lemma nth_map_combine : forall {X Y Z} (f : X * Y -> Z) a b i dz dx dy,
  length a = length b -> i < length a ->
  nth i (map f (combine a b)) dz = f (nth i a dx, nth i b dy).
Proof.
  intros X Y Z f a b i dz dx dy HL Hi.
  rewrite nth_indep with (d' := f (dx, dy)).
  - rewrite map_nth, combine_nth by exact HL. reflexivity.
  - rewrite map_length, combine_length. lia.
Qed.

(* ------------------------------------------------------------------------------------------- *)
(* 2. relational / parametricity theorem                                                        *)
(* ------------------------------------------------------------------------------------------- *)
Definition opt_rel {X Y} (Q : X -> Y -> Prop) (x : option X) (y : option Y) : Prop :=
  match x, y with
  | Some a, Some b => Q a b
  | None, None => True
  | _, _ => False
  end.

Record ops_related {A B : Type} (o : sops A) (o' : sops B) (R : A -> B -> Prop) : Prop := {
  rel_zero : R (s_zero o) (s_zero o');
  rel_one : R (s_one o) (s_one o');
  rel_add : forall a b a2 b2, R a b -> R a2 b2 -> R (s_add o a a2) (s_add o' b b2);
  rel_sub : forall a b a2 b2, R a b -> R a2 b2 -> R (s_sub o a a2) (s_sub o' b b2);
  rel_mul : forall a b a2 b2, R a b -> R a2 b2 -> R (s_mul o a a2) (s_mul o' b b2);
  rel_dot : forall x x' y y', Forall2 R x x' -> Forall2 R y y' -> R (s_dot o x y) (s_dot o' x' y')
}.

Section Rel.
Context {A B : Type} (o : sops A) (o' : sops B) (R : A -> B -> Prop).
Hypothesis HO : ops_related o o' R.

Notation R1 := (Forall2 R).
Notation R2 := (Forall2 (Forall2 R)).
Notation R3 := (Forall2 (Forall2 (Forall2 R))).
Definition frel (f : A -> A) (f' : B -> B) : Prop := forall a b, R a b -> R (f a) (f' b).
Definition st_rel (st : list (list A) * list (list A)) (st' : list (list B) * list (list B)) : Prop :=
  R2 (fst st) (fst st') /\ R2 (snd st) (snd st').

Lemma frel_id : frel (fun v => v) (fun v => v).
Proof. intros a b H; exact H. Qed.

Lemma acts_nth_rel : forall acts acts' i,
  Forall2 frel acts acts' -> frel (nth i acts (fun v => v)) (nth i acts' (fun v => v)).
Proof. intros acts acts' i H. apply Forall2_nth_rel; [exact H | exact frel_id]. Qed.

Lemma gate_rel : forall {X Y} (Q : X -> Y -> Prop) g l l' d d',
  Forall2 Q l l' -> Q d d' -> Q (gate g l d) (gate g l' d').
Proof. intros X Y Q g l l' d d' H Hd. unfold gate. apply Forall2_nth_rel; assumption. Qed.

Lemma gate2_rel : forall g (l : list (list A)) (l' : list (list B)),
  R2 l l' -> R1 (gate g l []) (gate g l' []).
Proof. intros g l l' H. apply gate_rel; [exact H | constructor]. Qed.

Lemma gate3_rel : forall g (l : list (list (list A))) (l' : list (list (list B))),
  R3 l l' -> R2 (gate g l []) (gate g l' []).
Proof. intros g l l' H. apply gate_rel; [exact H | constructor]. Qed.

Lemma map_rel : forall f f' x x', frel f f' -> R1 x x' -> R1 (map f x) (map f' x').
Proof. intros f f' x x' Hf Hx. eapply Forall2_map_rel; [|exact Hx]. exact Hf. Qed.

Lemma zip_rel : forall f f' x x' y y',
  (forall a b a2 b2, R a b -> R a2 b2 -> R (f a a2) (f' b b2)) ->
  R1 x x' -> R1 y y' -> R1 (zip f x y) (zip f' x' y').
Proof.
  intros f f' x x' y y' Hf Hx Hy. unfold zip.
  eapply Forall2_map_rel; [|apply Forall2_combine_rel; [exact Hx | exact Hy]].
  intros [a a2] [b b2] [H1 H2]; simpl in *. apply Hf; assumption.
Qed.

Lemma zip_add_rel : forall x x' y y', R1 x x' -> R1 y y' -> R1 (zip (s_add o) x y) (zip (s_add o') x' y').
Proof. intros. apply zip_rel; [apply (rel_add _ _ _ HO) | assumption | assumption]. Qed.

Lemma zip_mul_rel : forall x x' y y', R1 x x' -> R1 y y' -> R1 (zip (s_mul o) x y) (zip (s_mul o') x' y').
Proof. intros. apply zip_rel; [apply (rel_mul _ _ _ HO) | assumption | assumption]. Qed.

Lemma one_minus_rel : forall x x', R1 x x' -> R1 (map (s_sub o (s_one o)) x) (map (s_sub o' (s_one o')) x').
Proof.
  intros x x' H. apply map_rel; [|exact H].
  intros a b Hab. apply (rel_sub _ _ _ HO); [apply (rel_one _ _ _ HO) | exact Hab].
Qed.

Lemma gemm_row_rel : forall x x' W W' b b',
  R1 x x' -> R2 W W' -> R1 b b' -> R1 (gemm_row o x W b) (gemm_row o' x' W' b').
Proof.
  intros x x' W W' b b' Hx HW Hb. unfold gemm_row.
  eapply Forall2_map_rel; [|apply Forall2_combine_rel; [exact HW | exact Hb]].
  intros [w b0] [w' b0'] [H1 H2]; simpl in *.
  apply (rel_add _ _ _ HO); [|exact H2]. apply (rel_dot _ _ _ HO); assumption.
Qed.

Lemma pre_rel : forall x x' h h' W W' Rm Rm' wb wb' rb rb',
  R1 x x' -> R1 h h' -> R2 W W' -> R2 Rm Rm' -> R1 wb wb' -> R1 rb rb' ->
  R1 (pre o x h W Rm wb rb) (pre o' x' h' W' Rm' wb' rb').
Proof.
  intros. unfold pre. apply zip_add_rel; apply gemm_row_rel; assumption.
Qed.

Section Cells.
Variables (Wg Rg : list (list (list A))) (Wb Rb : list (list A)) (P : option (list (list A))).
Variables (Wg' Rg' : list (list (list B))) (Wb' Rb' : list (list B)) (P' : option (list (list B))).
Hypothesis HWg : R3 Wg Wg'.
Hypothesis HRg : R3 Rg Rg'.
Hypothesis HWb : R2 Wb Wb'.
Hypothesis HRb : R2 Rb Rb'.
Hypothesis HP : opt_rel (Forall2 (Forall2 R)) P P'.

Lemma pre_gate_rel : forall g x x' h h', R1 x x' -> R1 h h' ->
  R1 (pre o x h (gate g Wg []) (gate g Rg []) (gate g Wb []) (gate g Rb []))
     (pre o' x' h' (gate g Wg' []) (gate g Rg' []) (gate g Wb' []) (gate g Rb' [])).
Proof.
  intros g x x' h h' Hx Hh.
  apply pre_rel; try assumption; first [apply gate3_rel | apply gate2_rel]; assumption.
Qed.

Lemma rnn_cell_rel : forall f f' x x' h h', frel f f' -> R1 x x' -> R1 h h' ->
  R1 (rnn_cell o f Wg Rg Wb Rb x h) (rnn_cell o' f' Wg' Rg' Wb' Rb' x' h').
Proof.
  intros f f' x x' h h' Hf Hx Hh. unfold rnn_cell.
  apply map_rel; [exact Hf|]. apply pre_gate_rel; assumption.
Qed.

Lemma gru_cell_rel : forall f f' g g' lbr x x' h h', frel f f' -> frel g g' -> R1 x x' -> R1 h h' ->
  R1 (gru_cell o f g lbr Wg Rg Wb Rb x h) (gru_cell o' f' g' lbr Wg' Rg' Wb' Rb' x' h').
Proof.
  intros f f' g g' lbr x x' h h' Hf Hg Hx Hh. unfold gru_cell.
  assert (Hz : R1 (map f (pre o x h (gate 0 Wg []) (gate 0 Rg []) (gate 0 Wb []) (gate 0 Rb [])))
                  (map f' (pre o' x' h' (gate 0 Wg' []) (gate 0 Rg' []) (gate 0 Wb' []) (gate 0 Rb' [])))).
  { apply map_rel; [exact Hf|]. apply pre_gate_rel; assumption. }
  assert (Hr : R1 (map f (pre o x h (gate 1 Wg []) (gate 1 Rg []) (gate 1 Wb []) (gate 1 Rb [])))
                  (map f' (pre o' x' h' (gate 1 Wg' []) (gate 1 Rg' []) (gate 1 Wb' []) (gate 1 Rb' [])))).
  { apply map_rel; [exact Hf|]. apply pre_gate_rel; assumption. }
  apply zip_add_rel.
  - apply zip_mul_rel; [apply one_minus_rel; exact Hz|].
    destruct lbr.
    + apply map_rel; [exact Hg|]. apply zip_add_rel.
      * apply zip_mul_rel; [|exact Hr].
        apply gemm_row_rel; [exact Hh | apply gate3_rel; exact HRg | apply gate2_rel; exact HRb].
      * apply gemm_row_rel; [exact Hx | apply gate3_rel; exact HWg | apply gate2_rel; exact HWb].
    + apply map_rel; [exact Hg|]. apply pre_gate_rel; [exact Hx|].
      apply zip_mul_rel; [exact Hr | exact Hh].
  - apply zip_mul_rel; [exact Hz | exact Hh].
Qed.

Definition pc_rel : option (list A * list A) -> option (list B * list B) -> Prop :=
  opt_rel (fun p p' => R1 (fst p) (fst p') /\ R1 (snd p) (snd p')).

Lemma lstm_gate_rel : forall act act' x x' h h' W W' Rm Rm' wb wb' rb rb' pc pc',
  frel act act' -> R1 x x' -> R1 h h' -> R2 W W' -> R2 Rm Rm' -> R1 wb wb' -> R1 rb rb' -> pc_rel pc pc' ->
  R1 (lstm_gate o act x h W Rm wb rb pc) (lstm_gate o' act' x' h' W' Rm' wb' rb' pc').
Proof.
  intros act act' x x' h h' W W' Rm Rm' wb wb' rb rb' pc pc' Ha Hx Hh HW HR Hwb Hrb Hpc.
  unfold lstm_gate. apply map_rel; [exact Ha|].
  assert (Hs : R1 (pre o x h W Rm wb rb) (pre o' x' h' W' Rm' wb' rb')) by (apply pre_rel; assumption).
  destruct pc as [[p c]|], pc' as [[p' c']|]; simpl in Hpc; try contradiction.
  - destruct Hpc as [Hp Hc]. apply zip_add_rel; [exact Hs|]. apply zip_mul_rel; assumption.
  - exact Hs.
Qed.

Lemma lstm_gate_gate_rel : forall act act' g x x' h h' pc pc',
  frel act act' -> R1 x x' -> R1 h h' -> pc_rel pc pc' ->
  R1 (lstm_gate o act x h (gate g Wg []) (gate g Rg []) (gate g Wb []) (gate g Rb []) pc)
     (lstm_gate o' act' x' h' (gate g Wg' []) (gate g Rg' []) (gate g Wb' []) (gate g Rb' []) pc').
Proof.
  intros. apply lstm_gate_rel; try assumption; first [apply gate3_rel | apply gate2_rel]; assumption.
Qed.

Lemma pe_rel : forall g cc cc', R1 cc cc' ->
  pc_rel (match P with Some p => Some (gate g p [], cc) | None => None end)
         (match P' with Some p => Some (gate g p [], cc') | None => None end).
Proof.
  intros g cc cc' Hc. unfold pc_rel.
  destruct P as [p|], P' as [p'|]; simpl in HP |- *; try contradiction; [|exact I].
  split; [apply gate2_rel; exact HP | exact Hc].
Qed.

Lemma lstm_cell_rel : forall f f' g g' hh hh' coupled x x' h h' c c',
  frel f f' -> frel g g' -> frel hh hh' -> R1 x x' -> R1 h h' -> R1 c c' ->
  R1 (fst (lstm_cell o f g hh coupled Wg Rg Wb Rb P x h c))
     (fst (lstm_cell o' f' g' hh' coupled Wg' Rg' Wb' Rb' P' x' h' c')) /\
  R1 (snd (lstm_cell o f g hh coupled Wg Rg Wb Rb P x h c))
     (snd (lstm_cell o' f' g' hh' coupled Wg' Rg' Wb' Rb' P' x' h' c')).
Proof.
  intros f f' g g' hh hh' coupled x x' h h' c c' Hf Hg Hhh Hx Hh Hc.
  unfold lstm_cell. cbv zeta. simpl fst; simpl snd.
  assert (Hit : R1 (lstm_gate o f x h (gate 0 Wg []) (gate 0 Rg []) (gate 0 Wb []) (gate 0 Rb [])
                      (match P with Some p => Some (gate 0 p [], c) | None => None end))
                   (lstm_gate o' f' x' h' (gate 0 Wg' []) (gate 0 Rg' []) (gate 0 Wb' []) (gate 0 Rb' [])
                      (match P' with Some p => Some (gate 0 p [], c') | None => None end))).
  { apply lstm_gate_gate_rel; try assumption. apply pe_rel; exact Hc. }
  assert (Hct : R1 (lstm_gate o g x h (gate 3 Wg []) (gate 3 Rg []) (gate 3 Wb []) (gate 3 Rb []) None)
                   (lstm_gate o' g' x' h' (gate 3 Wg' []) (gate 3 Rg' []) (gate 3 Wb' []) (gate 3 Rb' []) None)).
  { apply lstm_gate_gate_rel; try assumption. exact I. }
  match goal with |- R1 (zip _ _ (map hh ?c1)) (zip _ _ (map hh' ?c1')) /\ _ =>
    assert (Hc1 : R1 c1 c1') end.
  { apply zip_add_rel; [|apply zip_mul_rel; assumption].
    apply zip_mul_rel; [|exact Hc].
    destruct coupled.
    - apply one_minus_rel; exact Hit.
    - apply lstm_gate_gate_rel; try assumption. apply pe_rel; exact Hc. }
  split; [|exact Hc1].
  apply zip_mul_rel; [|apply map_rel; assumption].
  apply lstm_gate_gate_rel; try assumption. apply pe_rel; exact Hc1.
Qed.

Variables (k : rkind) (acts : list (A -> A)) (acts' : list (B -> B)) (lbr coupled : bool).
Hypothesis Hacts : Forall2 frel acts acts'.

Theorem step_rel : forall xt xt' st st', R2 xt xt' -> st_rel st st' ->
  st_rel (step o k acts lbr coupled Wg Rg Wb Rb P xt st)
         (step o' k acts' lbr coupled Wg' Rg' Wb' Rb' P' xt' st').
Proof.
  intros xt xt' [h c] [h' c'] Hxt [Hh Hc]; simpl in Hh, Hc.
  unfold step, st_rel. destruct k; simpl fst; simpl snd.
  - split; [|exact Hc].
    eapply Forall2_map_rel; [|apply Forall2_combine_rel; [exact Hxt | exact Hh]].
    intros [x h1] [x' h1'] [H1 H2]; simpl in *.
    apply rnn_cell_rel; try assumption. apply acts_nth_rel; exact Hacts.
  - split; [|exact Hc].
    eapply Forall2_map_rel; [|apply Forall2_combine_rel; [exact Hxt | exact Hh]].
    intros [x h1] [x' h1'] [H1 H2]; simpl in *.
    apply gru_cell_rel; try assumption; apply acts_nth_rel; exact Hacts.
  - match goal with |- Forall2 _ (map fst ?r) (map fst ?r') /\ _ =>
      assert (Hr : Forall2 (fun p p' => R1 (fst p) (fst p') /\ R1 (snd p) (snd p')) r r') end.
    { eapply Forall2_map_rel;
        [|apply Forall2_combine_rel; [apply Forall2_combine_rel; [exact Hxt | exact Hh] | exact Hc]].
      intros [[x h1] c1] [[x' h1'] c1'] [[H1 H2] H3]; simpl in *.
      apply lstm_cell_rel; try assumption; apply acts_nth_rel; exact Hacts. }
    split; (eapply Forall2_map_rel; [|exact Hr]); intros p p' [H1 H2]; assumption.
Qed.

Theorem run_from_rel : forall xs xs', R3 xs xs' -> forall st st', st_rel st st' ->
  R3 (fst (run_from o k acts lbr coupled Wg Rg Wb Rb P xs st))
     (fst (run_from o' k acts' lbr coupled Wg' Rg' Wb' Rb' P' xs' st')) /\
  st_rel (snd (run_from o k acts lbr coupled Wg Rg Wb Rb P xs st))
         (snd (run_from o' k acts' lbr coupled Wg' Rg' Wb' Rb' P' xs' st')).
Proof.
  intros xs xs' Hxs. induction Hxs as [|xt xt' xs xs' Hxt Hxs IH]; intros st st' Hst; simpl.
  - split; [constructor | exact Hst].
  - pose proof (step_rel xt xt' st st' Hxt Hst) as Hstep.
    specialize (IH _ _ Hstep).
    destruct (run_from o k acts lbr coupled Wg Rg Wb Rb P xs
                (step o k acts lbr coupled Wg Rg Wb Rb P xt st)) as [ys fin].
    destruct (run_from o' k acts' lbr coupled Wg' Rg' Wb' Rb' P' xs'
                (step o' k acts' lbr coupled Wg' Rg' Wb' Rb' P' xt' st')) as [ys' fin'].
    simpl in IH |- *. destruct IH as [IH1 IH2].
    split; [|exact IH2]. constructor; [exact (proj1 Hstep) | exact IH1].
Qed.

(* the outputs Y, Y_h, Y_c of the two instantiations are related at every nesting level *)
Theorem run_rec_rel : forall xs xs' h0 h0' c0 c0', R3 xs xs' -> R2 h0 h0' -> R2 c0 c0' ->
  R3 (fst (fst (run_rec o k acts lbr coupled Wg Rg Wb Rb P xs h0 c0)))
     (fst (fst (run_rec o' k acts' lbr coupled Wg' Rg' Wb' Rb' P' xs' h0' c0'))) /\
  R2 (snd (fst (run_rec o k acts lbr coupled Wg Rg Wb Rb P xs h0 c0)))
     (snd (fst (run_rec o' k acts' lbr coupled Wg' Rg' Wb' Rb' P' xs' h0' c0'))) /\
  R2 (snd (run_rec o k acts lbr coupled Wg Rg Wb Rb P xs h0 c0))
     (snd (run_rec o' k acts' lbr coupled Wg' Rg' Wb' Rb' P' xs' h0' c0')).
Proof.
  intros xs xs' h0 h0' c0 c0' Hxs Hh Hc.
  rewrite !run_rec_Y, !run_rec_h, !run_rec_c.
  assert (Hst : st_rel (h0, c0) (h0', c0')) by (split; assumption).
  destruct (run_from_rel xs xs' Hxs _ _ Hst) as [H1 [H2 H3]].
  split; [exact H1 | split; [exact H2 | exact H3]].
Qed.
End Cells.
End Rel.

(* ------------------------------------------------------------------------------------------- *)
(* 2'. instance of the relational theorem: naturality in the scalar type                        *)
(* ------------------------------------------------------------------------------------------- *)
Lemma Forall2_graph_intro : forall {X Y} (Q : X -> Y -> Prop) (g : X -> Y) l,
  (forall a, Q a (g a)) -> Forall2 Q l (map g l).
Proof. intros X Y Q g l H. induction l as [|a l IH]; simpl; constructor; auto. Qed.

Lemma Forall2_graph_elim : forall {X Y} (Q : X -> Y -> Prop) (g : X -> Y) l l',
  (forall a b, Q a b -> b = g a) -> Forall2 Q l l' -> l' = map g l.
Proof.
  intros X Y Q g l l' H HF. induction HF as [|a b l l' Hab HF IH]; simpl; [reflexivity|].
  rewrite (H _ _ Hab), IH. reflexivity.
Qed.

Section Natural.
Context {A B : Type} (o : sops A) (o' : sops B) (phi : A -> B).
Notation G := (fun (a : A) (b : B) => b = phi a).
Notation m1 := (map phi).
Notation m2 := (map (map phi)).
Notation m3 := (map (map (map phi))).
Hypothesis HO : ops_related o o' G.

Lemma G1_intro : forall l, Forall2 G l (m1 l).
Proof. intros l. apply Forall2_graph_intro. reflexivity. Qed.
Lemma G2_intro : forall l, Forall2 (Forall2 G) l (m2 l).
Proof. intros l. apply Forall2_graph_intro. exact G1_intro. Qed.
Lemma G3_intro : forall l, Forall2 (Forall2 (Forall2 G)) l (m3 l).
Proof. intros l. apply Forall2_graph_intro. exact G2_intro. Qed.
Lemma G1_elim : forall l l', Forall2 G l l' -> l' = m1 l.
Proof. intros l l'. apply Forall2_graph_elim. auto. Qed.
Lemma G2_elim : forall l l', Forall2 (Forall2 G) l l' -> l' = m2 l.
Proof. intros l l'. apply Forall2_graph_elim. exact G1_elim. Qed.
Lemma G3_elim : forall l l', Forall2 (Forall2 (Forall2 G)) l l' -> l' = m3 l.
Proof. intros l l'. apply Forall2_graph_elim. exact G2_elim. Qed.

(* a scalar map phi that commutes with the scalar operations and with the activations commutes
   with the whole recurrent operator *)
Theorem run_rec_natural : forall k acts acts' lbr coupled Wg Rg Wb Rb P xs h0 c0,
  Forall2 (fun (f : A -> A) (f' : B -> B) => forall a, f' (phi a) = phi (f a)) acts acts' ->
  let r := run_rec o k acts lbr coupled Wg Rg Wb Rb P xs h0 c0 in
  let r' := run_rec o' k acts' lbr coupled (m3 Wg) (m3 Rg) (m2 Wb) (m2 Rb) (option_map m2 P)
                    (m3 xs) (m2 h0) (m2 c0) in
  fst (fst r') = m3 (fst (fst r)) /\ snd (fst r') = m2 (snd (fst r)) /\ snd r' = m2 (snd r).
Proof.
  intros k acts acts' lbr coupled Wg Rg Wb Rb P xs h0 c0 Hacts. cbv zeta.
  assert (Hacts' : Forall2 (frel G) acts acts').
  { induction Hacts as [|f f' l l' Hf Hl IH]; constructor; [|exact IH].
    intros a b Hab. simpl in Hab. subst b. apply Hf. }
  assert (HP : opt_rel (Forall2 (Forall2 G)) P (option_map m2 P)).
  { destruct P as [p|]; simpl; [apply G2_intro | exact I]. }
  destruct (run_rec_rel o o' G HO Wg Rg Wb Rb P (m3 Wg) (m3 Rg) (m2 Wb) (m2 Rb) (option_map m2 P)
              (G3_intro Wg) (G3_intro Rg) (G2_intro Wb) (G2_intro Rb) HP k acts acts' lbr coupled Hacts'
              xs (m3 xs) h0 (m2 h0) c0 (m2 c0) (G3_intro xs) (G2_intro h0) (G2_intro c0)) as [H1 [H2 H3]].
  split; [apply G3_elim; exact H1 | split; [apply G2_elim; exact H2 | apply G2_elim; exact H3]].
Qed.
End Natural.

(* ------------------------------------------------------------------------------------------- *)
(* 3. batch independence                                                                        *)
(* ------------------------------------------------------------------------------------------- *)
(* the rows `is` of l (any list of indices: a sub-selection, a permutation, repetitions allowed) *)
Definition pick {X} (d : X) (is : list nat) (l : list X) : list X := map (fun i => nth i l d) is.

Lemma pick_length : forall {X} (d : X) is l, length (pick d is l) = length is.
Proof. intros. unfold pick. apply map_length. Qed.

Lemma combine_pick : forall {X Y} (dx : X) (dy : Y) is a b, length a = length b ->
  combine (pick dx is a) (pick dy is b) = pick (dx, dy) is (combine a b).
Proof.
  intros X Y dx dy is a b HL. unfold pick.
  induction is as [|i is IH]; simpl; [reflexivity|].
  rewrite IH, combine_nth by exact HL. reflexivity.
Qed.

Lemma pick_map : forall {X Y} (f : X -> Y) (d : X) (dz : Y) is l,
  Forall (fun i => i < length l) is -> pick dz is (map f l) = map f (pick d is l).
Proof.
  intros X Y f d dz is l H. unfold pick. rewrite map_map.
  apply map_ext_in. intros i Hi. rewrite Forall_forall in H.
  rewrite nth_indep with (d' := f d) by (rewrite map_length; apply H; exact Hi).
  apply map_nth.
Qed.

Lemma pick_single : forall {X} (d : X) i l, pick d [i] l = [nth i l d].
Proof. reflexivity. Qed.

Lemma nth_pick : forall {X} (d : X) is l j, j < length is -> nth j (pick d is l) d = nth (nth j is 0) l d.
Proof.
  intros X d is l j Hj. unfold pick.
  rewrite nth_indep with (d' := (fun i => nth i l d) 0) by (rewrite map_length; exact Hj).
  exact (map_nth (fun i => nth i l d) is 0 j).
Qed.

Section Batch.
Context {A : Type} (o : sops A).
Variables (acts : list (A -> A)) (lbr coupled : bool)
          (Wg Rg : list (list (list A))) (Wb Rb : list (list A)) (P : option (list (list A))).
Notation act i := (nth i acts (fun v : A => v)).

(* per step: row i of the new state is the cell applied to row i of xt and row i of the state *)
Theorem step_rnn_row : forall xt h c i, length xt = length h -> i < length h ->
  nth i (fst (step o KRNN acts lbr coupled Wg Rg Wb Rb P xt (h, c))) [] =
    rnn_cell o (act 0) Wg Rg Wb Rb (nth i xt []) (nth i h []) /\
  snd (step o KRNN acts lbr coupled Wg Rg Wb Rb P xt (h, c)) = c.
Proof.
  intros xt h c i HL Hi. simpl. unfold vec in *. split; [|reflexivity].
  rewrite nth_map_combine with (dx := @nil A) (dy := @nil A) by lia. reflexivity.
Qed.

Theorem step_gru_row : forall xt h c i, length xt = length h -> i < length h ->
  nth i (fst (step o KGRU acts lbr coupled Wg Rg Wb Rb P xt (h, c))) [] =
    gru_cell o (act 0) (act 1) lbr Wg Rg Wb Rb (nth i xt []) (nth i h []) /\
  snd (step o KGRU acts lbr coupled Wg Rg Wb Rb P xt (h, c)) = c.
Proof.
  intros xt h c i HL Hi. simpl. unfold vec in *. split; [|reflexivity].
  rewrite nth_map_combine with (dx := @nil A) (dy := @nil A) by lia. reflexivity.
Qed.

Theorem step_lstm_row : forall xt h c i, length xt = length h -> length c = length h -> i < length h ->
  nth i (fst (step o KLSTM acts lbr coupled Wg Rg Wb Rb P xt (h, c))) [] =
    fst (lstm_cell o (act 0) (act 1) (act 2) coupled Wg Rg Wb Rb P (nth i xt []) (nth i h []) (nth i c [])) /\
  nth i (snd (step o KLSTM acts lbr coupled Wg Rg Wb Rb P xt (h, c))) [] =
    snd (lstm_cell o (act 0) (act 1) (act 2) coupled Wg Rg Wb Rb P (nth i xt []) (nth i h []) (nth i c [])).
Proof.
  intros xt h c i HL HLc Hi. simpl. unfold vec in *. rewrite !map_map.
  assert (HL2 : length (combine xt h) = length c) by (rewrite combine_length; lia).
  split.
  - rewrite nth_map_combine with (dx := (@nil A, @nil A)) (dy := @nil A) by lia.
    rewrite combine_nth by exact HL. reflexivity.
  - rewrite nth_map_combine with (dx := (@nil A, @nil A)) (dy := @nil A) by lia.
    rewrite combine_nth by exact HL. reflexivity.
Qed.

(* the number of batch rows is preserved by a step *)
Lemma step_length : forall k n xt st,
  length xt = n -> length (fst st) = n -> (k = KLSTM -> length (snd st) = n) ->
  length (fst (step o k acts lbr coupled Wg Rg Wb Rb P xt st)) = n /\
  (k = KLSTM -> length (snd (step o k acts lbr coupled Wg Rg Wb Rb P xt st)) = n).
Proof.
  intros k n xt [h c] Hx Hh Hc; simpl in Hh, Hc. destruct k; simpl; unfold vec in *.
  - split; [|discriminate]. rewrite map_length, combine_length. lia.
  - split; [|discriminate]. rewrite map_length, combine_length. lia.
  - specialize (Hc eq_refl). rewrite !map_length, !combine_length. split; [|intros _]; lia.
Qed.

(* selecting batch rows commutes with a step *)
Theorem step_pick : forall k n is xt st,
  length xt = n -> length (fst st) = n -> (k = KLSTM -> length (snd st) = n) ->
  Forall (fun i => i < n) is ->
  step o k acts lbr coupled Wg Rg Wb Rb P (pick [] is xt) (pick [] is (fst st), pick [] is (snd st)) =
    (pick [] is (fst (step o k acts lbr coupled Wg Rg Wb Rb P xt st)),
     pick [] is (snd (step o k acts lbr coupled Wg Rg Wb Rb P xt st))).
Proof.
  intros k n is xt [h c] Hx Hh Hc His; simpl in Hh, Hc. destruct k; simpl; unfold vec in *.
  - f_equal. rewrite combine_pick by lia. symmetry. apply pick_map.
    rewrite combine_length. eapply Forall_impl; [|exact His]. simpl; intros; lia.
  - f_equal. rewrite combine_pick by lia. symmetry. apply pick_map.
    rewrite combine_length. eapply Forall_impl; [|exact His]. simpl; intros; lia.
  - specialize (Hc eq_refl).
    assert (HL2 : length (combine xt h) = length c) by (rewrite combine_length; lia).
    rewrite combine_pick by lia. rewrite combine_pick by exact HL2.
    assert (Hb : Forall (fun i => i < length (combine (combine xt h) c)) is).
    { rewrite !combine_length. eapply Forall_impl; [|exact His]. simpl; intros; lia. }
    rewrite !map_map.
    f_equal; symmetry; apply pick_map; exact Hb.
Qed.

Variable k : rkind.
Notation RUN := (run_from o k acts lbr coupled Wg Rg Wb Rb P).
Notation REC := (run_rec o k acts lbr coupled Wg Rg Wb Rb P).

(* the number of batch rows is preserved by the time loop *)
Lemma run_from_batch_length : forall n xs st,
  Forall (fun xt => length xt = n) xs -> length (fst st) = n -> (k = KLSTM -> length (snd st) = n) ->
  Forall (fun y => length y = n) (fst (RUN xs st)) /\
  length (fst (snd (RUN xs st))) = n /\ (k = KLSTM -> length (snd (snd (RUN xs st))) = n).
Proof.
  intros n xs. induction xs as [|xt xs IH]; intros st Hxs Hh Hc; simpl.
  - split; [constructor|]. split; assumption.
  - pose proof (Forall_inv Hxs) as Hxt. pose proof (Forall_inv_tail Hxs) as Hxs'. simpl in Hxt.
    destruct (step_length k n xt st Hxt Hh Hc) as [S1 S2].
    specialize (IH _ Hxs' S1 S2).
    destruct (RUN xs (step o k acts lbr coupled Wg Rg Wb Rb P xt st)) as [ys fin]; simpl in *.
    destruct IH as [I1 [I2 I3]]. split; [constructor; assumption|]. split; assumption.
Qed.

(* selecting batch rows (sub-selection / permutation) commutes with the whole time loop *)
Theorem run_from_pick : forall n is xs st,
  Forall (fun xt => length xt = n) xs -> length (fst st) = n -> (k = KLSTM -> length (snd st) = n) ->
  Forall (fun i => i < n) is ->
  RUN (map (pick [] is) xs) (pick [] is (fst st), pick [] is (snd st)) =
    (map (pick [] is) (fst (RUN xs st)),
     (pick [] is (fst (snd (RUN xs st))), pick [] is (snd (snd (RUN xs st))))).
Proof.
  intros n is xs. induction xs as [|xt xs IH]; intros st Hxs Hh Hc His; simpl; [reflexivity|].
  pose proof (Forall_inv Hxs) as Hxt. pose proof (Forall_inv_tail Hxs) as Hxs'. simpl in Hxt.
  rewrite (step_pick k n is xt st Hxt Hh Hc His).
  destruct (step_length k n xt st Hxt Hh Hc) as [S1 S2].
  specialize (IH _ Hxs' S1 S2 His).
  set (st' := step o k acts lbr coupled Wg Rg Wb Rb P xt st) in *.
  unfold vec in *. rewrite IH.
  destruct (RUN xs st') as [ys fin]; simpl. reflexivity.
Qed.

Theorem run_rec_pick : forall n is xs h0 c0,
  Forall (fun xt => length xt = n) xs -> length h0 = n -> (k = KLSTM -> length c0 = n) ->
  Forall (fun i => i < n) is ->
  REC (map (pick [] is) xs) (pick [] is h0) (pick [] is c0) =
    (map (pick [] is) (fst (fst (REC xs h0 c0))),
     pick [] is (snd (fst (REC xs h0 c0))),
     pick [] is (snd (REC xs h0 c0))).
Proof.
  intros n is xs h0 c0 Hxs Hh Hc His. unfold run_rec.
  pose proof (run_from_pick n is xs (h0, c0) Hxs Hh Hc His) as H. simpl fst in H; simpl snd in H.
  unfold vec in *. rewrite H.
  destruct (RUN xs (h0, c0)) as [ys [h c]]; simpl. reflexivity.
Qed.

(* the one-row version: running the model on batch row i alone gives row i of every output *)
Theorem run_rec_single_row : forall n i xs h0 c0,
  Forall (fun xt => length xt = n) xs -> length h0 = n -> (k = KLSTM -> length c0 = n) -> i < n ->
  let r1 := REC (map (fun xt => [nth i xt []]) xs) [nth i h0 []] [nth i c0 []] in
  let r := REC xs h0 c0 in
  (forall t, t < length xs -> nth t (fst (fst r1)) [] = [nth i (nth t (fst (fst r)) []) []]) /\
  fst (fst r1) = map (fun y => [nth i y []]) (fst (fst r)) /\
  snd (fst r1) = [nth i (snd (fst r)) []] /\
  snd r1 = [nth i (snd r) []].
Proof.
  intros n i xs h0 c0 Hxs Hh Hc Hi. cbv zeta.
  assert (His : Forall (fun j => j < n) [i]) by (constructor; [exact Hi | constructor]).
  pose proof (run_rec_pick n [i] xs h0 c0 Hxs Hh Hc His) as H.
  change (map (fun xt : list (list A) => [nth i xt []]) xs) with (map (pick (@nil A) [i]) xs).
  change [nth i h0 []] with (pick (@nil A) [i] h0).
  change [nth i c0 []] with (pick (@nil A) [i] c0).
  unfold vec in *. rewrite H. simpl fst; simpl snd.
  split; [|split; [|split]]; try reflexivity.
  intros t Ht.
  assert (HL : length (fst (fst (REC xs h0 c0))) = length xs) by apply run_rec_length.
  unfold vec in *.
  rewrite nth_indep with (d' := pick [] [i] []) by (rewrite map_length, HL; exact Ht).
  rewrite map_nth. reflexivity.
Qed.
End Batch.

Print Assumptions run_from_app.
Print Assumptions run_rec_app.
Print Assumptions run_from_length.
Print Assumptions run_from_last.
Print Assumptions run_rec_last.
Print Assumptions step_rel.
Print Assumptions run_from_rel.
Print Assumptions run_rec_rel.
Print Assumptions run_rec_natural.
Print Assumptions step_rnn_row.
Print Assumptions step_gru_row.
Print Assumptions step_lstm_row.
Print Assumptions step_pick.
Print Assumptions run_from_pick.
Print Assumptions run_rec_pick.
Print Assumptions run_rec_single_row.
