(* C07: Unsqueeze -- the shape S demands holds the input's element count, for every axes tensor S accepts *)
From Coq Require Import List ZArith Bool Lia String Permutation.
From V Require Import DType Tensor Case OpCheck ShapeOps CheckC07 ShapeOpsProofs C07Numel.
Import ListNotations.
Open Scope Z_scope.

Lemma insert_ones_prod fuel : forall i orig idx,
  (List.length orig + List.length idx <= fuel)%nat ->
  zprod (insert_ones fuel i orig idx) = zprod (zshape orig).
Proof.
  induction fuel as [|f IH]; intros i orig idx Hf.
  - destruct orig; [reflexivity|cbn [List.length] in Hf; lia].
  - cbn [insert_ones]. destruct idx as [|j idx'].
    + destruct orig as [|d o']; [reflexivity|].
      unfold zshape. cbn [map]. rewrite !zprod_cons. f_equal. apply IH. cbn [List.length] in *. lia.
    + destruct (j =? i).
      * rewrite zprod_cons, IH by (cbn [List.length] in *; lia). lia.
      * destruct orig as [|d o']; [reflexivity|].
        unfold zshape. cbn [map]. rewrite !zprod_cons. f_equal. apply IH. cbn [List.length] in *. lia.
Qed.

Lemma insert_ones_nonneg' fuel : forall i orig idx, Forall (fun d => 0 <= d) (insert_ones fuel i orig idx).
Proof.
  induction fuel as [|f IH]; intros i orig idx; [apply Forall_nil|]. cbn [insert_ones].
  destruct idx as [|j idx'].
  - destruct orig; [apply Forall_nil|apply Forall_cons; [lia|apply IH]].
  - destruct (j =? i); [apply Forall_cons; [lia|apply IH]|].
    destruct orig; [apply Forall_nil|apply Forall_cons; [lia|apply IH]].
Qed.

Lemma unsqueeze_keeps_count t axes v : unsqueeze_spec t axes = SMust [Some v] -> total v = total t.
Proof.
  unfold unsqueeze_spec, SMust1. intros H.
  destruct (sh axes) as [|? [|? ?]]; try discriminate.
  destruct (negb _); [discriminate|].
  destruct (_ <? _)%nat; [discriminate|].
  inversion H; subst v. rewrite total_with_shape by apply insert_ones_nonneg'.
  unfold total. apply insert_ones_prod.
  rewrite Nat2Z.id. rewrite (Permutation_length (sortz_perm _)), map_length. lia.
Qed.

(* Squeeze with explicit axes: also when S leaves the choice open (duplicate axes, SEither) *)
Lemma squeeze_axes_keeps_count t a v :
  squeeze_spec t (Some a) = SMust [Some v] \/ squeeze_spec t (Some a) = SEither [Some v] -> total v = total t.
Proof.
  unfold squeeze_spec, SMust1, SEither1. intros H.
  destruct (sh a) as [|? [|? ?]]; try (destruct H; discriminate).
  destruct (negb (forallb _ (pl a))); [destruct H; discriminate|].
  set (norm := map _ (pl a)) in *.
  destruct (negb (forallb _ norm)) eqn:Hones; [destruct H; discriminate|].
  apply negb_false_iff in Hones. rewrite forallb_forall in Hones.
  set (res := with_shape t _) in *.
  assert (Hv : v = res).
  { destruct (_ <? _)%nat; destruct H as [H|H]; try discriminate; now inversion H. }
  subst v res. rewrite total_with_shape.
  - pose proof (zprod_filter_split (fun i => Z.of_nat (nth i (sh t) 0%nat))
                  (fun i => negb (existsb (Nat.eqb i) norm)) (seq 0 (List.length (sh t)))) as Hs.
    rewrite map_nth_seq in Hs. unfold total. rewrite <- Hs.
    rewrite (zprod_all_one (map _ (filter (fun i => negb (negb _)) _))); [lia|].
    apply Forall_forall. intros d Hd. apply in_map_iff in Hd as [i [<- Hi]].
    apply filter_In in Hi as [_ Hi]. rewrite negb_involutive in Hi.
    apply existsb_exists in Hi as [j [Hj Hij]]. apply Nat.eqb_eq in Hij. subst j.
    specialize (Hones _ Hj). apply Nat.eqb_eq in Hones. rewrite Hones. reflexivity.
  - apply Forall_forall. intros d Hd. apply in_map_iff in Hd as [i [<- _]]. lia.
Qed.
