(* The dims loop of onnx.TensorFromProto as repaired by 1f7a807:

     nElements := 1; nValues := len(values)
     for _, dim := range dims {
         if dim < 1 || dim > nValues/nElements { return ErrInvalidShape }
         nElements *= dim
     }
     if nValues != nElements { return ErrInvalidShape }

   Its verdict is exactly the one of Model/Decode.v (all extents >= 1 and their UNBOUNDED product equal to
   the number of values), and the running product never exceeds the number of values, so the machine
   multiplication never wraps, whatever the dims are. *)
From Coq Require Import List ZArith Bool Lia.
From V Require Import DType Case Decode.
Import ListNotations.
Open Scope Z_scope.

Fixpoint dims_loop (nv acc : Z) (dims : list Z) : option Z :=
  match dims with
  | [] => Some acc
  | d :: r => if (d <? 1) || (nv / acc <? d) then None else dims_loop nv (acc * d) r
  end.
Definition dims_accept (nv : Z) (dims : list Z) : bool :=
  match dims_loop nv 1 dims with Some n => nv =? n | None => false end.

(* every product the loop forms (the list of values nElements takes) *)
Fixpoint dims_trace (nv acc : Z) (dims : list Z) : list Z :=
  match dims with
  | [] => []
  | d :: r => if (d <? 1) || (nv / acc <? d) then [] else (acc * d) :: dims_trace nv (acc * d) r
  end.

Lemma zprod_cons d r : zprod (d :: r) = d * zprod r.
Proof. reflexivity. Qed.

Lemma zprod_pos l : forallb (fun x => 1 <=? x) l = true -> 1 <= zprod l.
Proof.
  induction l as [|d r IH]; cbn [forallb]; intro H; [unfold zprod; simpl; lia|].
  apply andb_true_iff in H. destruct H as [Hd Hr]. apply Z.leb_le in Hd. specialize (IH Hr).
  rewrite zprod_cons. nia.
Qed.

Lemma div_lt_mul nv acc d : 1 <= acc -> 0 <= nv -> nv / acc < d -> nv < acc * d.
Proof.
  intros Ha Hn Hd.
  pose proof (Z.mul_succ_div_gt nv acc ltac:(lia)) as H. (* nv < acc * Z.succ (nv / acc) *)
  nia.
Qed.

Lemma div_ge_mul nv acc d : 1 <= acc -> 0 <= nv -> d <= nv / acc -> acc * d <= nv.
Proof.
  intros Ha Hn Hd. pose proof (Z.mul_div_le nv acc ltac:(lia)). nia.
Qed.

(* generalised: from a running product acc >= 1 *)
Lemma dims_loop_spec nv acc dims : 1 <= acc -> 0 <= nv ->
  match dims_loop nv acc dims with
  | Some n => forallb (fun x => 1 <=? x) dims = true /\ n = acc * zprod dims /\ n <= Z.max acc nv
  | None => forallb (fun x => 1 <=? x) dims = false \/ nv < acc * zprod dims
  end.
Proof.
  revert acc. induction dims as [|d r IH]; intros acc Ha Hn; cbn [dims_loop forallb].
  - unfold zprod; simpl. repeat split; lia.
  - destruct (d <? 1) eqn:Hd1; cbn [orb].
    + left. apply Z.ltb_lt in Hd1. assert (E : (1 <=? d) = false) by (apply Z.leb_gt; lia). rewrite E. reflexivity.
    + apply Z.ltb_ge in Hd1. destruct (nv / acc <? d) eqn:Hdiv.
      * apply Z.ltb_lt in Hdiv. destruct (forallb (fun x => 1 <=? x) r) eqn:Hr.
        -- right. rewrite zprod_cons. pose proof (zprod_pos r Hr). pose proof (div_lt_mul nv acc d Ha Hn Hdiv). nia.
        -- left. apply andb_false_r.
      * apply Z.ltb_ge in Hdiv. pose proof (div_ge_mul nv acc d Ha Hn Hdiv) as Hle.
        specialize (IH (acc * d) ltac:(nia) Hn).
        destruct (dims_loop nv (acc * d) r) as [n|].
        -- destruct IH as (Hr & Hn' & Hb). split; [|split].
           ++ rewrite Hr. assert (E : (1 <=? d) = true) by (apply Z.leb_le; lia). rewrite E. reflexivity.
           ++ rewrite zprod_cons. lia.
           ++ lia.
        -- destruct IH as [Hr | Hgt].
           ++ left. rewrite Hr. apply andb_false_r.
           ++ right. rewrite zprod_cons. lia.
Qed.

Lemma no_small_forall dims : negb (existsb (fun x => x <? 1) dims) = forallb (fun x => 1 <=? x) dims.
Proof.
  induction dims as [|d r IH]; [reflexivity|]. cbn [existsb forallb]. rewrite negb_orb, <- IH.
  destruct (Z.ltb_spec d 1), (Z.leb_spec 1 d); try reflexivity; lia.
Qed.

(* the loop accepts exactly what the model accepts *)
Theorem dims_accept_exact nv dims : 0 <= nv ->
  dims_accept nv dims = negb (existsb (fun x => x <? 1) dims) && (nv =? zprod dims).
Proof.
  intro Hn. unfold dims_accept. pose proof (dims_loop_spec nv 1 dims ltac:(lia) Hn) as H.
  rewrite no_small_forall. destruct (dims_loop nv 1 dims) as [n|].
  - destruct H as (Hr & Hn' & _). rewrite Hr. rewrite Hn'. rewrite Z.mul_1_l. reflexivity.
  - destruct H as [Hr | Hgt]; [rewrite Hr; reflexivity|].
    rewrite Z.mul_1_l in Hgt. assert (E : (nv =? zprod dims) = false) by (apply Z.eqb_neq; lia). rewrite E.
    symmetry. apply andb_false_r.
Qed.

(* no product the loop ever forms exceeds the number of values: the int multiplication cannot wrap *)
Theorem dims_trace_bounded nv acc dims : 1 <= acc -> 0 <= nv -> Forall (fun p => 1 <= p <= nv) (dims_trace nv acc dims).
Proof.
  revert acc. induction dims as [|d r IH]; intros acc Ha Hn; cbn [dims_trace]; [constructor|].
  destruct (d <? 1) eqn:Hd1; cbn [orb]; [constructor|]. apply Z.ltb_ge in Hd1.
  destruct (nv / acc <? d) eqn:Hdiv; [constructor|]. apply Z.ltb_ge in Hdiv.
  pose proof (div_ge_mul nv acc d Ha Hn Hdiv). constructor; [nia|]. apply IH; nia.
Qed.


(* TensorFromProto as repaired, with its loop: the same function as the model's *)
Definition tensor_from_proto_loop (tp : tproto) : mres tval :=
  match decode_values tp with
  | None => MErr
  | Some (_, None) => MErr
  | Some (d, Some vals) =>
      if dims_accept (Z.of_nat (List.length vals)) (tp_dims tp)
      then MOk {| dt := d; sh := map Z.to_nat (tp_dims tp); pl := vals |} else MErr
  end.
Theorem tensor_from_proto_is_loop tp : tensor_from_proto tp = tensor_from_proto_loop tp.
Proof.
  unfold tensor_from_proto, tensor_from_proto_loop.
  destruct (decode_values tp) as [[d [vals|]]|]; try reflexivity.
  rewrite dims_accept_exact by lia.
  destruct (existsb (fun x => x <? 1) (tp_dims tp)); cbn [negb andb]; [reflexivity|].
  destruct (Z.of_nat (List.length vals) =? zprod (tp_dims tp)); reflexivity.
Qed.
