(* The odometer of batchedMatMul visits every batch index exactly once, in row-major order, and
   terminates (the fuel numel s always suffices). *)
From Coq Require Import List Arith Lia PeanoNat Bool.
From V Require Import Tensor Odometer.
Import ListNotations.

Fixpoint flat_r (rs ridx : list nat) : nat :=
  match rs, ridx with d :: rs', k :: ridx' => k + d * flat_r rs' ridx' | _, _ => 0 end.
Fixpoint numel_r (rs : list nat) : nat := match rs with [] => 1 | d :: r => d * numel_r r end.
Definition valid_r (rs ridx : list nat) := Forall2 lt ridx rs.

Lemma numel_app s t : numel (s ++ t) = numel s * numel t.
Proof. induction s; cbn; [lia|]. rewrite IHs. lia. Qed.
Lemma numel_rev s : numel_r (rev s) = numel s.
Proof.
  induction s as [|d s IH]; cbn; [reflexivity|].
  assert (H : forall a b, numel_r (a ++ [b]) = numel_r a * b).
  { induction a as [|x a IHa]; intros b; cbn; [lia|]. rewrite IHa. lia. }
  rewrite H, IH. lia.
Qed.
Lemma flat_app s i d k : length i = length s ->
  flat (s ++ [d]) (i ++ [k]) = flat s i * d + k.
Proof.
  revert i. induction s as [|x s IH]; intros [|y i] Hl; cbn in *; try lia.
  rewrite IH by lia. rewrite numel_app. cbn. lia.
Qed.
Lemma flat_rev s i : length i = length s -> flat_r (rev s) (rev i) = flat s i.
Proof.
  revert i. induction s as [|d s IH] using rev_ind; intros i Hl.
  - destruct i; cbn in *; [reflexivity|lia].
  - destruct i as [|k i _] using rev_ind; [rewrite app_length in Hl; cbn in Hl; lia|].
    rewrite !app_length in Hl; cbn in Hl.
    rewrite !rev_app_distr. cbn. rewrite IH by lia. rewrite flat_app by lia. lia.
Qed.

Lemma incr_r_spec rs ridx : valid_r rs ridx ->
  match incr_r rs ridx with
  | Some r' => valid_r rs r' /\ flat_r rs r' = flat_r rs ridx + 1
  | None => flat_r rs ridx + 1 = numel_r rs
  end.
Proof.
  unfold valid_r. intros H. induction H as [|k d ridx' rs' Hk Hv IH]; cbn; [reflexivity|].
  destruct (d =? k + 1) eqn:E.
  - apply Nat.eqb_eq in E. destruct rs' as [|d' rs''].
    + inversion Hv; subst. cbn. lia.
    + destruct (incr_r (d' :: rs'') ridx') as [r'|]; cbn.
      * destruct IH as [V F]. split; [constructor; [lia|exact V]|]. cbn in F |- *. rewrite F. nia.
      * cbn in IH |- *. nia.
  - apply Nat.eqb_neq in E. split; [constructor; [lia|exact Hv]|]. cbn. lia.
Qed.

Lemma valid_rev s i : valid s i -> valid_r (rev s) (rev i).
Proof. unfold valid, valid_r. induction 1; cbn; [constructor|]. apply Forall2_app; auto. Qed.
Lemma valid_rev' rs ri : valid_r rs ri -> valid (rev rs) (rev ri).
Proof. unfold valid, valid_r. induction 1; cbn; [constructor|]. apply Forall2_app; auto. Qed.

Theorem incr_spec s idx : valid s idx ->
  match incr s idx with
  | Some i' => valid s i' /\ flat s i' = flat s idx + 1
  | None => flat s idx + 1 = numel s
  end.
Proof.
  intros V. unfold incr. pose proof (incr_r_spec _ _ (valid_rev _ _ V)) as H.
  pose proof (valid_length _ _ V) as L.
  destruct (incr_r (rev s) (rev idx)) as [r'|]; cbn.
  - destruct H as [V' F]. split.
    + apply valid_rev' in V'. now rewrite rev_involutive in V'.
    + rewrite <- (flat_rev s (rev r')).
      * rewrite rev_involutive, F. now rewrite flat_rev.
      * rewrite rev_length. apply valid_rev' in V'. apply valid_length in V'. now rewrite !rev_length in V'.
  - rewrite flat_rev, numel_rev in H; auto.
Qed.

Lemma bloop_spec fuel s idx acc :
  valid s idx -> flat s idx + fuel = numel s ->
  bloop fuel s idx acc = Some (rev acc ++ map (unflat s) (seq (flat s idx) fuel)).
Proof.
  revert idx acc. induction fuel as [|f IH]; intros idx acc V E.
  - pose proof (flat_lt _ _ V). lia.
  - cbn [bloop]. pose proof (incr_spec _ _ V) as H. destruct (incr s idx) as [i'|].
    + destruct H as [V' F]. rewrite (IH i' (idx :: acc) V') by lia. cbn [rev seq map]. rewrite <- app_assoc. cbn.
      rewrite (unflat_flat _ _ V), F. now rewrite Nat.add_1_r.
    + assert (f = 0) by lia. subst f. cbn. now rewrite (unflat_flat _ _ V).
Qed.

(* every batch index exactly once, in row-major order, and the fuel suffices *)
Theorem odometer_enumerates s :
  Forall (fun d => 1 <= d) s -> odometer s = Some (map (unflat s) (seq 0 (numel s))).
Proof.
  intros P. unfold odometer.
  assert (V : valid s (repeat 0 (length s))).
  { unfold valid. induction P; cbn; constructor; auto. }
  assert (Z : flat s (repeat 0 (length s)) = 0).
  { clear. induction s; cbn; auto. }
  rewrite bloop_spec with (acc := []) by (auto; lia). now rewrite Z.
Qed.
