(* Naturality of Run (C16, composition): if every operator commutes with a transformation phi of
   tensors (e.g. "select these batch rows" on batched tensors, the identity on weights) and the
   model's weights are fixed by phi, then Run commutes with phi: transforming the inputs transforms
   every output the same way -- for any graph (any DAG, fan-out, multi-output nodes, failures). *)
From Coq Require Import List String Bool Arith ZArith Lia.
From V Require Import Run.
Import ListNotations.
Open Scope string_scope.

Definition xmap {X Y} (f : X -> Y) (r : xres X) : xres Y :=
  match r with XOk x => XOk (f x) | XErr k => XErr k | XPanic => XPanic end.

Section N.
Variable T attrs : Type.
Variable shape_of : T -> list nat.
Variable op_sem : string -> attrs -> list (option T) -> xres (list (option T)).
Variable supported : string -> bool.
Variable phi : T -> T.
Notation env := (env T).
Notation om := (option_map phi).
Notation step := (step T attrs op_sem supported).
Notation run_nodes := (run_nodes T attrs op_sem supported).
Notation run_model := (run_model T attrs shape_of op_sem supported).

(* every operator commutes with phi *)
Hypothesis op_natural : forall o a ins, op_sem o a (map om ins) = xmap (map om) (op_sem o a ins).

Definition erel (e e' : env) : Prop := forall x, e' x = option_map om (e x).

Lemma gather_natural (e e' : env) names : erel e e' -> gather T e' names = xmap (map om) (gather T e names).
Proof.
  intros R. induction names as [|n r IH]; cbn [gather]; [reflexivity|].
  destruct (String.eqb n ""); [rewrite IH; destruct (gather T e r); reflexivity|].
  rewrite (R n). destruct (e n) as [t|]; cbn [option_map]; [|reflexivity].
  rewrite IH. destruct (gather T e r); reflexivity.
Qed.

Lemma upd_natural (e e' : env) n t : erel e e' -> erel (upd T e n t) (upd T e' n (om t)).
Proof. intros R x. unfold upd. destruct (String.eqb x n); [reflexivity|apply R]. Qed.

Lemma bindout_natural names : forall (e e' : env) outs, erel e e' -> erel (bindout T e names outs) (bindout T e' names (map om outs)).
Proof.
  induction names as [|n ns IH]; intros e e' outs R; destruct outs as [|t ts]; cbn [bindout map]; try exact R.
  apply IH. now apply upd_natural.
Qed.

Definition res_rel (r r' : xres env) : Prop :=
  match r, r' with
  | XOk a, XOk b => erel a b
  | XErr k, XErr k' => k = k'
  | XPanic, XPanic => True
  | _, _ => False
  end.

Lemma step_natural (e e' : env) n : erel e e' -> res_rel (step e n) (step e' n).
Proof.
  intros R. unfold Run.step. destruct (supported (n_op n)); [|reflexivity].
  rewrite (gather_natural e e' (n_in n) R). destruct (gather T e (n_in n)) as [ins|k|]; cbn [xmap xbind]; try reflexivity.
  rewrite op_natural. destruct (op_sem (n_op n) (n_attrs n) ins) as [outs|k|]; cbn [xmap xbind]; try reflexivity.
  rewrite map_length. destruct (Nat.eqb (List.length (n_out n)) (List.length outs)); cbn; [|reflexivity].
  now apply bindout_natural.
Qed.

Lemma run_nodes_natural ns : forall (e e' : env), erel e e' -> res_rel (run_nodes e ns) (run_nodes e' ns).
Proof.
  induction ns as [|n r IH]; intros e e' R; cbn [Run.run_nodes]; [exact R|].
  pose proof (step_natural e e' n R) as S. unfold res_rel in S.
  destruct (step e n) as [a|k|], (step e' n) as [b|k'|]; cbn [xbind]; try contradiction; try (subst; reflexivity); try exact I.
  now apply IH.
Qed.

Definition mapf (l : list (string * T)) : list (string * T) := map (fun p => (fst p, phi (snd p))) l.

Lemma collect_natural (e e' : env) outs : erel e e' -> collect T e' outs = xmap mapf (collect T e outs).
Proof.
  intros R. induction outs as [|o r IH]; cbn [collect]; [reflexivity|].
  rewrite (R o). destruct (e o) as [[t|]|]; cbn [option_map]; try reflexivity.
  rewrite IH. destruct (collect T e r); reflexivity.
Qed.

Lemma lookup_last_mapf (l : list (string * T)) n : lookup_last (mapf l) n = option_map phi (lookup_last l n).
Proof.
  induction l as [|[m v] r IH]; cbn [mapf map lookup_last fst snd]; [reflexivity|].
  fold (mapf r). rewrite IH. destruct (lookup_last r n); cbn [option_map]; [reflexivity|].
  destruct (String.eqb m n); reflexivity.
Qed.

(* the weights are fixed by phi *)
Definition params_fixed (g : graph T attrs) : Prop := forall n t, lookup_last (g_params g) n = Some t -> phi t = t.

Lemma env0_natural (g : graph T attrs) feed : params_fixed g -> erel (env0 T attrs g feed) (env0 T attrs g (mapf feed)).
Proof.
  intros F x. unfold env0. rewrite lookup_last_mapf.
  destruct (lookup_last feed x) as [t|]; cbn [option_map].
  - destruct (is_param T attrs g x && negb (has_input T attrs g x)); [|reflexivity].
    destruct (lookup_last (g_params g) x) as [w|] eqn:E; cbn [option_map]; [|reflexivity].
    now rewrite (F x w E).
  - destruct (lookup_last (g_params g) x) as [w|] eqn:E; cbn [option_map]; [|reflexivity].
    now rewrite (F x w E).
Qed.

(* Run commutes with phi (when the transformed inputs pass the same shape validation) *)
Theorem run_model_natural (g : graph T attrs) feed :
  params_fixed g ->
  validate_shapes T attrs shape_of g (mapf feed) = validate_shapes T attrs shape_of g feed ->
  run_model g (mapf feed) = xmap mapf (run_model g feed).
Proof.
  intros F V. unfold Run.run_model. rewrite V. destruct (negb (validate_shapes T attrs shape_of g feed)); [reflexivity|].
  pose proof (run_nodes_natural (g_nodes g) _ _ (env0_natural g feed F)) as R. unfold res_rel in R.
  destruct (run_nodes (env0 T attrs g feed) (g_nodes g)) as [a|k|], (run_nodes (env0 T attrs g (mapf feed)) (g_nodes g)) as [b|k'|];
    cbn [xbind xmap]; try contradiction; try (subst; reflexivity).
  now apply collect_natural.
Qed.
End N.
