(* C04: the model of ops/opset13/matmul.go (Model/MatMul.v: vector promotion, batch broadcasting on
   the block view, the odometer loop over 2-D products, demotion) computes numpy.matmul
   (Spec/MatMulSpec.v) for operands of any rank >= 1 and any positive extents, over any scalar
   type, outside the region where the implementation is known to refuse (matmul_degenerate). *)
From Coq Require Import List Arith Lia PeanoNat Bool.
From V Require Import Tensor ListUtil Case Broadcast BroadcastSpec BroadcastProofs BroadcastFull
                      Odometer OdometerProofs MatMulSpec MatMul.
Import ListNotations.

(* ------------------------------------------------------------------------------------------ *)
(* lists and index arithmetic                                                                  *)
(* ------------------------------------------------------------------------------------------ *)
Lemma split_last2 (l : list nat) : 2 <= length l ->
  exists x y, l = firstn (length l - 2) l ++ [x; y] /\ skipn (length l - 2) l = [x; y] /\
              nth (length l - 2) l 0 = x /\ nth (length l - 1) l 0 = y.
Proof.
  intros Hl. set (n := length l - 2).
  pose proof (firstn_skipn n l) as E.
  assert (Lp : length (firstn n l) = n) by (rewrite firstn_length; lia).
  assert (Lq : length (skipn n l) = 2) by (rewrite skipn_length; lia).
  destruct (skipn n l) as [|x [|y [|z q]]] eqn:Q; cbn in Lq; try lia.
  exists x, y. split; [symmetry; exact E|]. split; [reflexivity|].
  split.
  - rewrite <- E at 1. rewrite app_nth2 by lia. rewrite Lp, Nat.sub_diag. reflexivity.
  - rewrite <- E at 2. rewrite app_nth2 by lia. rewrite Lp.
    replace (length l - 1 - n) with 1 by lia. reflexivity.
Qed.

Lemma flat_app2 bs ms bi mi : length bi = length bs ->
  flat (bs ++ ms) (bi ++ mi) = flat bs bi * numel ms + flat ms mi.
Proof.
  revert bi. induction bs as [|d bs IH]; intros [|k bi] Hl; cbn [length] in Hl; try lia.
  - cbn. reflexivity.
  - cbn [app flat]. rewrite IH by lia. rewrite numel_app. lia.
Qed.

Lemma valid_app bs ms bi mi : valid bs bi -> valid ms mi -> valid (bs ++ ms) (bi ++ mi).
Proof. unfold valid. intros H1 H2. apply Forall2_app; assumption. Qed.

Lemma unflat_app bs ms x : x < numel bs * numel ms ->
  unflat (bs ++ ms) x = unflat bs (x / numel ms) ++ unflat ms (x mod numel ms).
Proof.
  intros Hx.
  assert (Hm : numel ms <> 0) by (intro E; rewrite E in Hx; lia).
  assert (Hq : x / numel ms < numel bs) by (apply Nat.div_lt_upper_bound; lia).
  assert (Hr : x mod numel ms < numel ms) by (apply Nat.mod_upper_bound; exact Hm).
  pose proof (valid_unflat _ _ Hq) as Vq. pose proof (valid_unflat _ _ Hr) as Vr.
  rewrite <- (unflat_flat _ _ (valid_app _ _ _ _ Vq Vr)). f_equal.
  rewrite flat_app2 by (apply valid_length; exact Vq).
  rewrite !flat_unflat by assumption.
  pose proof (Nat.div_mod x (numel ms) Hm). lia.
Qed.

Lemma map_seq_shift {X} (f : nat -> X) a m : map f (seq a m) = map (fun x => f (a + x)) (seq 0 m).
Proof.
  revert a. induction m as [|m IH]; intros a; cbn [seq map]; [reflexivity|].
  rewrite Nat.add_0_r. f_equal. rewrite (IH (S a)). rewrite <- seq_shift, map_map.
  apply map_ext. intros x. f_equal. lia.
Qed.

Lemma concat_map_seq {X} (g : nat -> nat -> X) m n : 0 < m ->
  concat (map (fun j => map (g j) (seq 0 m)) (seq 0 n)) =
  map (fun x => g (x / m) (x mod m)) (seq 0 (n * m)).
Proof.
  intros Hm. induction n as [|n IH]; [reflexivity|].
  rewrite seq_S, map_app, concat_app, IH. cbn [map concat plus]. rewrite app_nil_r.
  replace (S n * m) with (n * m + m) by lia. rewrite seq_app, map_app. f_equal.
  cbn [plus]. rewrite (map_seq_shift _ (n * m) m). apply map_ext_in. intros x Hx.
  apply in_seq in Hx.
  assert (Hq : (n * m + x) / m = n) by (symmetry; apply Nat.div_unique with (r := x); lia).
  assert (Hr : (n * m + x) mod m = x) by (symmetry; apply Nat.mod_unique with (q := n); lia).
  rewrite Hq, Hr. reflexivity.
Qed.

Lemma nth_firstn_lt {X} (l : list X) n i d : i < n -> nth i (firstn n l) d = nth i l d.
Proof.
  revert n i. induction l as [|x l IH]; intros n i Hi.
  - rewrite firstn_nil. reflexivity.
  - destruct n as [|n]; [lia|]. destruct i as [|i]; cbn; [reflexivity|]. apply IH. lia.
Qed.

Lemma nth_skipn_add {X} (l : list X) m i d : nth i (skipn m l) d = nth (m + i) l d.
Proof.
  revert l. induction m as [|m IH]; intros l; [reflexivity|].
  destruct l as [|x l]; cbn [skipn plus nth]; [destruct i; reflexivity|]. apply IH.
Qed.

Lemma nth_chunk {X} (l : list X) n j i d : i < n -> nth i (chunk n j l) d = nth (j * n + i) l d.
Proof. intros Hi. unfold chunk. rewrite nth_firstn_lt by exact Hi. apply nth_skipn_add. Qed.

Lemma firstn_len_app {X} (l1 l2 : list X) : firstn (length l1) (l1 ++ l2) = l1.
Proof. induction l1 as [|x l1 IH]; cbn; [now destruct l2|now rewrite IH]. Qed.

Lemma skipn_len_app {X} (l1 l2 : list X) : skipn (length l1) (l1 ++ l2) = l2.
Proof. induction l1 as [|x l1 IH]; cbn; auto. Qed.

Lemma positive_Forall s : positive s -> Forall (fun d => 1 <= d) s.
Proof.
  induction s as [|x s IH]; intros P; constructor.
  - apply (P 0). cbn. lia.
  - apply IH. intros k Hk. apply (P (S k)). cbn. lia.
Qed.

Lemma positive_app_l s t : positive (s ++ t) -> positive s.
Proof.
  intros P k Hk. specialize (P k). rewrite app_length in P. rewrite app_nth1 in P by exact Hk.
  apply P. lia.
Qed.

Lemma positive_app_r s t : positive (s ++ t) -> positive t.
Proof.
  intros P k Hk. specialize (P (length s + k)). rewrite app_length in P.
  rewrite app_nth2 in P by lia. replace (length s + k - length s) with k in P by lia.
  apply P. lia.
Qed.

(* ------------------------------------------------------------------------------------------ *)
(* the broadcast shape and the projected index                                                 *)
(* ------------------------------------------------------------------------------------------ *)
Lemma nth_pad_shape n s k : length s <= n -> k < length s ->
  nth (n - length s + k) (pad_shape n s) 0 = nth k s 0.
Proof.
  intros Hl Hk. unfold pad_shape. rewrite app_nth2 by (rewrite repeat_length; lia).
  rewrite repeat_length. f_equal. lia.
Qed.

Lemma pad_shape_length n s : length s <= n -> length (pad_shape n s) = n.
Proof. intros Hl. unfold pad_shape. rewrite app_length, repeat_length. lia. Qed.

Lemma bshape_facts sa sb s : bshape sa sb = Some s ->
  length s = Nat.max (length sa) (length sb) /\
  (forall k, k < length sa -> nth k sa 0 <> 1 -> nth (length s - length sa + k) s 0 = nth k sa 0) /\
  (forall k, k < length sb -> nth k sb 0 <> 1 -> nth (length s - length sb + k) s 0 = nth k sb 0) /\
  (positive sa -> positive sb -> positive s).
Proof.
  unfold bshape. set (n := Nat.max (length sa) (length sb)).
  assert (La : length (pad_shape n sa) = n) by (apply pad_shape_length; lia).
  assert (Lb : length (pad_shape n sb) = n) by (apply pad_shape_length; lia).
  destruct (compat_all (pad_shape n sa) (pad_shape n sb)) eqn:C; [|discriminate].
  intros H. inversion H; subst s; clear H.
  pose proof (compat_all_nth _ _ C) as Cn.
  assert (Ls : length (bdims (pad_shape n sa) (pad_shape n sb)) = n) by (rewrite bdims_length; lia).
  split; [exact Ls|]. rewrite Ls. split; [|split].
  - intros k Hk Hne. rewrite nth_bdims by lia. rewrite nth_pad_shape by lia.
    unfold bdim. apply Nat.eqb_neq in Hne. rewrite Hne. reflexivity.
  - intros k Hk Hne. rewrite nth_bdims by lia.
    specialize (Cn (n - length sb + k) ltac:(lia)).
    rewrite (nth_pad_shape n sb) in * by lia.
    unfold compat in Cn. unfold bdim.
    destruct (nth (n - length sb + k) (pad_shape n sa) 0 =? 1) eqn:E1; [reflexivity|].
    destruct (nth (n - length sb + k) (pad_shape n sa) 0 =? nth k sb 0) eqn:E2;
      [apply Nat.eqb_eq in E2; exact E2|].
    apply Nat.eqb_neq in Hne. rewrite Hne in Cn. discriminate.
  - intros Pa Pb k Hk. rewrite Ls in Hk. rewrite nth_bdims by lia.
    pose proof (positive_ones (n - length sa) sa Pa k) as Qa.
    pose proof (positive_ones (n - length sb) sb Pb k) as Qb.
    fold (pad_shape n sa) in Qa. fold (pad_shape n sb) in Qb.
    specialize (Qa ltac:(lia)). specialize (Qb ltac:(lia)).
    unfold bdim. destruct (_ =? 1); assumption.
Qed.

Lemma valid_bproj s sa i : length sa <= length s ->
  (forall k, k < length sa -> nth k sa 0 <> 1 -> nth (length s - length sa + k) s 0 = nth k sa 0) ->
  valid s i -> valid sa (bproj sa i).
Proof.
  intros Hl Hn Hv. pose proof (valid_length _ _ Hv) as Li.
  apply valid_nth in Hv. destruct Hv as [_ Hvn].
  unfold bproj. rewrite Li.
  assert (Lk : length (skipn (length s - length sa) i) = length sa) by (rewrite skipn_length; lia).
  apply valid_nth. split; [apply pin_length; exact Lk|].
  intros k Hk. rewrite nth_pin by assumption.
  destruct (nth k sa 0 =? 1) eqn:E.
  - apply Nat.eqb_eq in E. lia.
  - apply Nat.eqb_neq in E. rewrite nth_skipn_add. rewrite <- (Hn k Hk E). apply Hvn. lia.
Qed.

Section P.
Context {A : Type} (zero : A) (add mul : A -> A -> A).
Notation tensor := (tensor A).
Notation get := (Tensor.get zero).
Notation rank := (@MatMul.rank A).
Notation mext := (@MatMul.ext A).
Notation dblk := (@MatMul.dblk A).
Notation to_blocks := (@MatMul.to_blocks A).
Notation mm2 := (MatMul.mm2 zero add mul).
Notation matmul_model := (MatMul.matmul_model zero add mul).
Notation matmul_spec := (MatMulSpec.matmul_spec zero add mul).

(* ------------------------------------------------------------------------------------------ *)
(* the block view                                                                              *)
(* ------------------------------------------------------------------------------------------ *)
Lemma to_blocks_eq (t : tensor) bs ms : tshape t = bs ++ ms -> length ms = 2 ->
  to_blocks t = mkT bs (map (fun j => mkT ms (chunk (numel ms) j (tdata t))) (seq 0 (numel bs))).
Proof.
  intros Hs Hm. unfold MatMul.to_blocks, MatMul.rank. rewrite Hs, app_length, Hm.
  replace (length bs + 2 - 2) with (length bs) by lia.
  rewrite firstn_len_app, skipn_len_app. reflexivity.
Qed.

Lemma to_blocks_wf (t : tensor) bs ms : tshape t = bs ++ ms -> length ms = 2 -> wf (to_blocks t).
Proof.
  intros Hs Hm. rewrite (to_blocks_eq t bs ms Hs Hm). unfold wf. cbn [tshape tdata].
  now rewrite map_length, seq_length.
Qed.

Lemma get_block (t : tensor) bs ms bi : tshape t = bs ++ ms -> length ms = 2 -> valid bs bi ->
  Tensor.get dblk (to_blocks t) bi = mkT ms (chunk (numel ms) (flat bs bi) (tdata t)).
Proof.
  intros Hs Hm Hv. rewrite (to_blocks_eq t bs ms Hs Hm). unfold Tensor.get. cbn [tshape tdata].
  pose proof (flat_lt _ _ Hv) as Hlt.
  set (f := fun j => mkT ms (chunk (numel ms) j (tdata t))).
  rewrite nth_indep with (d' := f 0) by now rewrite map_length, seq_length.
  rewrite (map_nth f (seq 0 (numel bs)) 0). rewrite seq_nth by exact Hlt. reflexivity.
Qed.

Lemma get_block_elem (t : tensor) bs ms bi mi :
  tshape t = bs ++ ms -> length ms = 2 -> valid bs bi -> valid ms mi ->
  get (Tensor.get dblk (to_blocks t) bi) mi = get t (bi ++ mi).
Proof.
  intros Hs Hm Vb Vm. rewrite (get_block t bs ms bi Hs Hm Vb). unfold Tensor.get at 1.
  cbn [tshape tdata]. rewrite nth_chunk by (apply flat_lt; exact Vm).
  unfold Tensor.get. rewrite Hs. rewrite flat_app2 by (apply valid_length; exact Vb). reflexivity.
Qed.

Lemma sumk_ext K (f g : nat -> A) : (forall k, k < K -> f k = g k) ->
  sumk zero add K f = sumk zero add K g.
Proof.
  intros H. unfold sumk. f_equal. apply map_ext_in. intros k Hk. apply in_seq in Hk. apply H. lia.
Qed.

(* ------------------------------------------------------------------------------------------ *)
(* the batched product                                                                         *)
(* ------------------------------------------------------------------------------------------ *)
Lemma bcast_block (t : tensor) ba ms bs bi : tshape t = ba ++ ms -> length ms = 2 -> valid bs bi ->
  Tensor.get dblk (bcast_to dblk bs (to_blocks t)) bi = Tensor.get dblk (to_blocks t) (bproj ba bi).
Proof.
  intros Hs Hm Hv. unfold bcast_to. rewrite get_tabulate by exact Hv.
  rewrite (to_blocks_eq t ba ms Hs Hm). reflexivity.
Qed.

Lemma mm2_data (X Y : tensor) M K K' N : tshape X = [M; K] -> tshape Y = [K'; N] ->
  tdata (mm2 X Y) =
  map (fun p => dotk zero add mul K (fun k => get X [nth 0 (unflat [M; N] p) 0; k])
                                    (fun k => get Y [k; nth 1 (unflat [M; N] p) 0]))
      (seq 0 (numel [M; N])).
Proof. intros HX HY. unfold MatMul.mm2, MatMul.ext. rewrite HX, HY. reflexivity. Qed.

Lemma valid2 M N i : valid [M; N] i -> exists r c, i = [r; c] /\ r < M /\ c < N.
Proof.
  unfold valid. intros H. inversion H as [|r ? i1 ? Hr H1]; subst.
  inversion H1 as [|c ? i2 ? Hc H2]; subst. inversion H2; subst. eauto.
Qed.

Definition spec_elem (a1 b1 : tensor) (ba bb : shape) (K n : nat) (i : list nat) : A :=
  let bi := firstn n i in let r := nth n i 0 in let c := nth (n + 1) i 0 in
  sumk zero add K (fun k => mul (get a1 (bproj ba bi ++ [r; k])) (get b1 (bproj bb bi ++ [k; c]))).

Lemma spec_elem_app a1 b1 ba bb K bi r c :
  spec_elem a1 b1 ba bb K (length bi) (bi ++ [r; c]) =
  sumk zero add K (fun k => mul (get a1 (bproj ba bi ++ [r; k])) (get b1 (bproj bb bi ++ [k; c]))).
Proof.
  unfold spec_elem. rewrite firstn_len_app.
  rewrite app_nth2 by lia. rewrite Nat.sub_diag.
  rewrite app_nth2 by lia. replace (length bi + 1 - length bi) with 1 by lia. reflexivity.
Qed.

Lemma batched_core (a1 b1 : tensor) ba bb M K N bs :
  tshape a1 = ba ++ [M; K] -> tshape b1 = bb ++ [K; N] -> 1 <= M -> 1 <= N ->
  bshape ba bb = Some bs ->
  concat (map (fun bi => tdata (mm2 (Tensor.get dblk (bcast_to dblk bs (to_blocks a1)) bi)
                                    (Tensor.get dblk (bcast_to dblk bs (to_blocks b1)) bi)))
              (map (unflat bs) (seq 0 (numel bs)))) =
  tdata (tabulate (bs ++ [M; N]) (spec_elem a1 b1 ba bb K (length bs))).
Proof.
  intros Ha Hb HM HN Hbs.
  destruct (bshape_facts _ _ _ Hbs) as (Ls & Fa & Fb & _).
  set (g := fun q p => spec_elem a1 b1 ba bb K (length bs) (unflat bs q ++ unflat [M; N] p)).
  rewrite map_map.
  rewrite (map_ext_in _ (fun q => map (g q) (seq 0 (numel [M; N])))).
  - rewrite concat_map_seq by (cbn; nia).
    unfold tabulate. cbn [tdata]. rewrite numel_app.
    apply map_ext_in. intros x Hx. apply in_seq in Hx. unfold g.
    rewrite unflat_app by lia. reflexivity.
  - intros q Hq. apply in_seq in Hq.
    assert (Vq : valid bs (unflat bs q)) by (apply valid_unflat; lia).
    set (bi := unflat bs q) in *.
    pose proof (valid_length _ _ Vq) as Lbi.
    assert (Va : valid ba (bproj ba bi)) by (apply (valid_bproj bs); [lia|exact Fa|exact Vq]).
    assert (Vb : valid bb (bproj bb bi)) by (apply (valid_bproj bs); [lia|exact Fb|exact Vq]).
    rewrite (bcast_block a1 ba [M; K] bs bi Ha eq_refl Vq).
    rewrite (bcast_block b1 bb [K; N] bs bi Hb eq_refl Vq).
    rewrite (mm2_data _ _ M K K N).
    + apply map_ext_in. intros p Hp. apply in_seq in Hp.
      assert (Vp : valid [M; N] (unflat [M; N] p)) by (apply valid_unflat; lia).
      destruct (valid2 _ _ _ Vp) as (r & c & Ep & Hr & Hc).
      unfold g. fold bi. rewrite Ep. cbn [nth]. rewrite <- Lbi, spec_elem_app.
      unfold dotk. fold (sumk zero add K (fun k =>
        mul (get (Tensor.get dblk (to_blocks a1) (bproj ba bi)) [r; k])
            (get (Tensor.get dblk (to_blocks b1) (bproj bb bi)) [k; c]))).
      apply sumk_ext. intros k Hk.
      rewrite (get_block_elem a1 ba [M; K] _ [r; k] Ha eq_refl Va)
        by (repeat constructor; assumption).
      rewrite (get_block_elem b1 bb [K; N] _ [k; c] Hb eq_refl Vb)
        by (repeat constructor; assumption).
      reflexivity.
    + rewrite (get_block a1 ba [M; K] _ Ha eq_refl Va). reflexivity.
    + rewrite (get_block b1 bb [K; N] _ Hb eq_refl Vb). reflexivity.
Qed.

(* ------------------------------------------------------------------------------------------ *)
(* vector promotion                                                                            *)
(* ------------------------------------------------------------------------------------------ *)
Definition prom_a (a : tensor) : tensor := if rank a =? 1 then mkT [1; mext a 0] (tdata a) else a.
Definition prom_b (b : tensor) : tensor := if rank b =? 1 then mkT [mext b 0; 1] (tdata b) else b.

(* the region in which batchedMatMul is known to refuse (known finding C04 class 1): not the plain
   2-D case, and one of the (promoted) operands has matrices of exactly one element. This is the
   test of matmul_model, on the operands as matmul_model computes them. *)
Definition matmul_degenerate (a b : tensor) : bool :=
  negb ((rank a =? 2) && (rank b =? 2)) &&
  (let a1 := prom_a a in let b1 := prom_b b in
   (mext a1 (rank a1 - 2) * mext a1 (rank a1 - 1) =? 1) ||
   (mext b1 (rank b1 - 2) * mext b1 (rank b1 - 1) =? 1)).

Lemma prom_a_shape a :
  tshape (prom_a a) = if length (tshape a) =? 1 then 1 :: tshape a else tshape a.
Proof.
  unfold prom_a, MatMul.rank, MatMul.ext. destruct a as [[|x [|y s]] d]; reflexivity.
Qed.

Lemma prom_b_shape b :
  tshape (prom_b b) = if length (tshape b) =? 1 then tshape b ++ [1] else tshape b.
Proof.
  unfold prom_b, MatMul.rank, MatMul.ext. destruct b as [[|x [|y s]] d]; reflexivity.
Qed.

Lemma prom_a_eta a : mkT (tshape (prom_a a)) (tdata a) = prom_a a.
Proof. unfold prom_a. destruct (rank a =? 1); [reflexivity|]. destruct a; reflexivity. Qed.

Lemma prom_b_eta b : mkT (tshape (prom_b b)) (tdata b) = prom_b b.
Proof. unfold prom_b. destruct (rank b =? 1); [reflexivity|]. destruct b; reflexivity. Qed.

Lemma prom_a_wf a : wf a -> wf (prom_a a).
Proof.
  unfold prom_a, MatMul.rank, MatMul.ext, wf. destruct a as [[|x [|y s]] d]; cbn; intros; lia.
Qed.

Lemma prom_b_wf b : wf b -> wf (prom_b b).
Proof.
  unfold prom_b, MatMul.rank, MatMul.ext, wf. destruct b as [[|x [|y s]] d]; cbn; intros; lia.
Qed.

Lemma prom_a_pos a : positive (tshape a) -> positive (tshape (prom_a a)).
Proof.
  intros P. rewrite prom_a_shape. destruct (length (tshape a) =? 1); [|exact P].
  intros [|k] Hk; cbn [length nth] in *; [lia|]. apply P. lia.
Qed.

Lemma prom_b_pos b : positive (tshape b) -> positive (tshape (prom_b b)).
Proof.
  intros P. rewrite prom_b_shape. destruct (length (tshape b) =? 1); [|exact P].
  intros k Hk. rewrite app_length in Hk. cbn [length] in Hk.
  destruct (Nat.lt_ge_cases k (length (tshape b))) as [Hlt|Hge].
  - rewrite app_nth1 by exact Hlt. apply P. exact Hlt.
  - rewrite app_nth2 by exact Hge. replace (k - length (tshape b)) with 0 by lia. cbn. lia.
Qed.

Lemma prom_a_rank a : 1 <= rank a -> 2 <= length (tshape (prom_a a)).
Proof.
  unfold MatMul.rank. intros R. rewrite prom_a_shape.
  destruct (length (tshape a) =? 1) eqn:E; cbn [length].
  - lia.
  - apply Nat.eqb_neq in E. lia.
Qed.

Lemma prom_b_rank b : 1 <= rank b -> 2 <= length (tshape (prom_b b)).
Proof.
  unfold MatMul.rank. intros R. rewrite prom_b_shape.
  destruct (length (tshape b) =? 1) eqn:E; [rewrite app_length; cbn [length]|].
  - lia.
  - apply Nat.eqb_neq in E. lia.
Qed.

(* ------------------------------------------------------------------------------------------ *)
(* both sides in terms of the promoted operands                                                *)
(* ------------------------------------------------------------------------------------------ *)
Lemma model_unfold a b :
  (rank a =? 2) && (rank b =? 2) = false -> 1 <= rank a -> 1 <= rank b ->
  matmul_model a b =
  (let a1 := prom_a a in let b1 := prom_b b in
   let* (ab, bb) := multidir_broadcast dblk (to_blocks a1) (to_blocks b1) in
   let bs := tshape ab in
   let M := mext a1 (rank a1 - 2) in let K := mext a1 (rank a1 - 1) in
   let K' := mext b1 (rank b1 - 2) in let N := mext b1 (rank b1 - 1) in
   if (M * K =? 1) || (K' * N =? 1) then MErr
   else if negb (K =? K') then MErr
   else match odometer bs with
        | None => MPanic
        | Some idxs =>
            let out := concat (map (fun bi => tdata (mm2 (Tensor.get dblk ab bi) (Tensor.get dblk bb bi))) idxs) in
            let s := bs ++ (if rank a =? 1 then [] else [M]) ++ (if rank b =? 1 then [] else [N]) in
            MOk (mkT s out)
        end).
Proof.
  intros E2 Ra Rb. unfold MatMul.matmul_model. rewrite E2.
  replace (rank a =? 0) with false by (symmetry; apply Nat.eqb_neq; lia).
  replace (rank b =? 0) with false by (symmetry; apply Nat.eqb_neq; lia).
  reflexivity.
Qed.

Lemma spec_unfold a b : 1 <= rank a -> 1 <= rank b ->
  matmul_spec a b =
  (let a1 := prom_a a in let b1 := prom_b b in
   let sa := tshape a1 in let sb := tshape b1 in
   let ba := firstn (length sa - 2) sa in let bb := firstn (length sb - 2) sb in
   let M := nth (length sa - 2) sa 0 in let K := nth (length sa - 1) sa 0 in
   let K' := nth (length sb - 2) sb 0 in let N := nth (length sb - 1) sb 0 in
   if negb (K =? K') then None else
   match bshape ba bb with
   | None => None
   | Some bs =>
       Some (mkT (bs ++ (if length (tshape a) =? 1 then [] else [M]) ++
                        (if length (tshape b) =? 1 then [] else [N]))
                 (tdata (tabulate (bs ++ [M; N]) (spec_elem a1 b1 ba bb K (length bs)))))
   end).
Proof.
  unfold MatMul.rank. intros Ra Rb. unfold MatMulSpec.matmul_spec. cbv zeta.
  replace (length (tshape a) =? 0) with false by (symmetry; apply Nat.eqb_neq; lia).
  replace (length (tshape b) =? 0) with false by (symmetry; apply Nat.eqb_neq; lia).
  cbn [orb]. rewrite <- prom_a_shape, <- prom_b_shape. rewrite prom_a_eta, prom_b_eta. reflexivity.
Qed.

Lemma to_blocks_shape (t : tensor) bs ms : tshape t = bs ++ ms -> length ms = 2 ->
  tshape (to_blocks t) = bs.
Proof. intros Hs Hm. rewrite (to_blocks_eq t bs ms Hs Hm). reflexivity. Qed.

(* ------------------------------------------------------------------------------------------ *)
(* the theorems                                                                                *)
(* ------------------------------------------------------------------------------------------ *)
(* rank 2 x rank 2: tensor.MatMul on two matrices is the matrix product *)
Theorem matmul_model_correct_2d (a b : tensor) :
  rank a = 2 -> rank b = 2 ->
  matmul_model a b = match matmul_spec a b with Some t => MOk t | None => MErr end.
Proof.
  unfold MatMul.rank. intros Ra Rb.
  destruct a as [[|M [|K [|? ?]]] da]; cbn [tshape length] in Ra; try discriminate.
  destruct b as [[|K' [|N [|? ?]]] db]; cbn [tshape length] in Rb; try discriminate.
  unfold MatMul.matmul_model, MatMul.g_matmul2, MatMulSpec.matmul_spec, MatMul.rank, MatMul.ext.
  cbn [tshape tdata length Nat.eqb andb orb Nat.sub nth].
  destruct (K =? K'); reflexivity.
Qed.

(* every rank >= 1, any positive extents, outside the degenerate region *)
Theorem matmul_model_correct (a b : tensor) :
  wf a -> wf b -> positive (tshape a) -> positive (tshape b) ->
  1 <= rank a -> 1 <= rank b ->
  matmul_degenerate a b = false ->
  matmul_model a b = match matmul_spec a b with Some t => MOk t | None => MErr end.
Proof.
  intros Wa Wb Pa Pb Ra Rb Hd.
  destruct ((rank a =? 2) && (rank b =? 2)) eqn:E2.
  { apply andb_true_iff in E2 as [E2a E2b]. apply Nat.eqb_eq in E2a, E2b.
    apply matmul_model_correct_2d; assumption. }
  unfold matmul_degenerate in Hd. rewrite E2 in Hd. cbn [negb andb] in Hd. cbv zeta in Hd.
  rewrite (model_unfold a b E2 Ra Rb), (spec_unfold a b Ra Rb). cbv zeta.
  rewrite Hd. clear Hd E2.
  pose proof (prom_a_wf a Wa) as Wa1. pose proof (prom_b_wf b Wb) as Wb1.
  pose proof (prom_a_pos a Pa) as Pa1. pose proof (prom_b_pos b Pb) as Pb1.
  pose proof (prom_a_rank a Ra) as Ra1. pose proof (prom_b_rank b Rb) as Rb1.
  set (a1 := prom_a a) in *. set (b1 := prom_b b) in *.
  destruct (split_last2 _ Ra1) as (M & K & Ea & _ & HM & HK).
  destruct (split_last2 _ Rb1) as (K' & N & Eb & _ & HK' & HN).
  unfold MatMul.ext, MatMul.rank.
  rewrite HM, HK, HK', HN. clear HM HK HK' HN.
  set (ba := firstn (length (tshape a1) - 2) (tshape a1)) in *.
  set (bb := firstn (length (tshape b1) - 2) (tshape b1)) in *.
  assert (Pba : positive ba) by (apply (positive_app_l ba [M; K]); rewrite <- Ea; exact Pa1).
  assert (Pbb : positive bb) by (apply (positive_app_l bb [K'; N]); rewrite <- Eb; exact Pb1).
  assert (PM : 1 <= M).
  { pose proof (positive_app_r ba [M; K]) as Q. rewrite <- Ea in Q. apply (Q Pa1 0). cbn. lia. }
  assert (PN : 1 <= N).
  { pose proof (positive_app_r bb [K'; N]) as Q. rewrite <- Eb in Q. apply (Q Pb1 1). cbn. lia. }
  rewrite (multidir_broadcast_correct dblk (to_blocks a1) (to_blocks b1)).
  2: exact (to_blocks_wf a1 ba [M; K] Ea eq_refl).
  2: exact (to_blocks_wf b1 bb [K'; N] Eb eq_refl).
  2: rewrite (to_blocks_shape a1 ba [M; K] Ea eq_refl); exact Pba.
  2: rewrite (to_blocks_shape b1 bb [K'; N] Eb eq_refl); exact Pbb.
  unfold multidir_spec.
  rewrite (to_blocks_shape a1 ba [M; K] Ea eq_refl), (to_blocks_shape b1 bb [K'; N] Eb eq_refl).
  destruct (bshape ba bb) as [bs|] eqn:Hbs.
  2: { cbn [mbind]. destruct (negb (K =? K')); reflexivity. }
  cbn [mbind]. change (tshape (bcast_to dblk bs (to_blocks a1))) with bs.
  destruct (K =? K') eqn:EK; cbn [negb]; [|reflexivity].
  apply Nat.eqb_eq in EK. subst K'.
  destruct (bshape_facts _ _ _ Hbs) as (_ & _ & _ & Pbs).
  rewrite (odometer_enumerates bs (positive_Forall _ (Pbs Pba Pbb))).
  f_equal. f_equal.
  apply (batched_core a1 b1 ba bb M K N bs Ea Eb PM PN Hbs).
Qed.

(* the complement: in the degenerate region the implementation refuses whenever the batch shapes
   broadcast (and also when they do not: second statement) *)
Theorem matmul_model_degenerate (a b : tensor) :
  wf a -> wf b -> positive (tshape a) -> positive (tshape b) ->
  1 <= rank a -> 1 <= rank b ->
  matmul_degenerate a b = true ->
  (exists p, multidir_broadcast dblk (to_blocks (prom_a a)) (to_blocks (prom_b b)) = MOk p) ->
  matmul_model a b = MErr.
Proof.
  intros _ _ _ _ Ra Rb Hd [[ab bb] Hp].
  unfold matmul_degenerate in Hd. apply andb_true_iff in Hd as [E2 Hd].
  apply negb_true_iff in E2. cbv zeta in Hd.
  rewrite (model_unfold a b E2 Ra Rb). cbv zeta. rewrite Hp. cbn [mbind]. rewrite Hd. reflexivity.
Qed.

Theorem matmul_model_degenerate_always (a b : tensor) :
  wf a -> wf b -> positive (tshape a) -> positive (tshape b) ->
  1 <= rank a -> 1 <= rank b ->
  matmul_degenerate a b = true ->
  matmul_model a b = MErr.
Proof.
  intros Wa Wb Pa Pb Ra Rb Hd.
  destruct (multidir_broadcast dblk (to_blocks (prom_a a)) (to_blocks (prom_b b))) as [p| |] eqn:Hp.
  - apply matmul_model_degenerate; eauto.
  - unfold matmul_degenerate in Hd. apply andb_true_iff in Hd as [E2 _].
    apply negb_true_iff in E2. rewrite (model_unfold a b E2 Ra Rb). cbv zeta. rewrite Hp. reflexivity.
  - exfalso.
    pose proof (prom_a_pos a Pa) as Pa1. pose proof (prom_b_pos b Pb) as Pb1.
    destruct (split_last2 _ (prom_a_rank a Ra)) as (M & K & Ea & _).
    destruct (split_last2 _ (prom_b_rank b Rb)) as (K' & N & Eb & _).
    set (ba := firstn (length (tshape (prom_a a)) - 2) (tshape (prom_a a))) in *.
    set (bb := firstn (length (tshape (prom_b b)) - 2) (tshape (prom_b b))) in *.
    rewrite (multidir_broadcast_correct dblk) in Hp.
    + destruct (multidir_spec _ _ _); discriminate.
    + exact (to_blocks_wf _ ba [M; K] Ea eq_refl).
    + exact (to_blocks_wf _ bb [K'; N] Eb eq_refl).
    + rewrite (to_blocks_shape _ ba [M; K] Ea eq_refl).
      apply (positive_app_l ba [M; K]). rewrite <- Ea. exact Pa1.
    + rewrite (to_blocks_shape _ bb [K'; N] Eb eq_refl).
      apply (positive_app_l bb [K'; N]). rewrite <- Eb. exact Pb1.
Qed.

(* the model never panics on well-formed positive operands of rank >= 1 *)
Corollary matmul_model_total (a b : tensor) :
  wf a -> wf b -> positive (tshape a) -> positive (tshape b) ->
  1 <= rank a -> 1 <= rank b -> matmul_model a b <> MPanic.
Proof.
  intros Wa Wb Pa Pb Ra Rb. destruct (matmul_degenerate a b) eqn:Hd.
  - rewrite matmul_model_degenerate_always by assumption. discriminate.
  - rewrite matmul_model_correct by assumption. destruct (matmul_spec a b); discriminate.
Qed.
End P.

(* non-vacuity: a batched, broadcast, vector-promoted product computes on both sides *)
Example matmul_nonvacuous :
  let a := mkT [2; 1; 2; 3] [1;2;3;4;5;6; 7;8;9;10;11;12] in
  let b := mkT [2; 3; 2] [1;0;0;1;1;1; 2;0;0;2;2;2] in
  let v := mkT [3] [1;1;1] in
  matmul_degenerate a b = false /\ matmul_degenerate a v = false /\
  matmul_model 0 Nat.add Nat.mul a b =
    MOk (mkT [2; 2; 2; 2] [4;5;10;11; 8;10;20;22; 16;17;22;23; 32;34;44;46]) /\
  matmul_spec 0 Nat.add Nat.mul a b =
    Some (mkT [2; 2; 2; 2] [4;5;10;11; 8;10;20;22; 16;17;22;23; 32;34;44;46]) /\
  matmul_model 0 Nat.add Nat.mul a v = MOk (mkT [2; 1; 2] [6;15;24;33]) /\
  matmul_degenerate v v = false /\ matmul_model 0 Nat.add Nat.mul v v = MOk (mkT [] [3]) /\
  matmul_degenerate (mkT [1] [5]) (mkT [1] [7]) = true.
Proof. vm_compute. repeat split. Qed.

Print Assumptions matmul_model_degenerate_always.
Print Assumptions matmul_model_correct_2d.
Print Assumptions matmul_model_correct.
