(* The binary-operator model equals the ONNX specification (via the broadcast theorem of C14),
   and the integer scalar layer is two's-complement wrap-around / truncating division. *)
From Coq Require Import List ZArith Bool Lia String.
From V Require Import DType Tensor ListUtil Case Broadcast BroadcastSpec BroadcastProofs BroadcastFull Scalar BinaryOps.
Import ListNotations.
Open Scope Z_scope.

Lemma map2_map {X Y W} (g : Y -> Y -> W) (f1 f2 : X -> Y) (l : list X) :
  map2 g (map f1 l) (map f2 l) = map (fun n => g (f1 n) (f2 n)) l.
Proof. induction l as [|x l IH]; cbn; [reflexivity|now rewrite IH]. Qed.

Definition wf_tv (t : tval) : Prop := wf (tz t) /\ positive (sh t).

Theorem binop_model_correct g odt a b :
  wf_tv a -> wf_tv b -> dt a = dt b ->
  binop_model (Some g) odt a b = match binop_spec g odt a b with Some v => MOk v | None => MErr end.
Proof.
  intros [Wa Pa] [Wb Pb] E. unfold binop_model, binop_spec.
  rewrite (multidir_broadcast_correct 0 (tz a) (tz b) Wa Wb Pa Pb).
  unfold multidir_spec. cbn [tz tshape].
  destruct (bshape (sh a) (sh b)) as [s|]; cbn [mbind]; [|reflexivity].
  rewrite E, dtype_eqb_refl. cbn [negb].
  unfold bcast_to, tabulate. cbn [tshape tdata tz]. now rewrite map2_map.
Qed.

(* a kernel that refuses the element type, or operands of different element types: an error *)
Theorem binop_model_refuses odt a b : forall f, f = None \/ dt a <> dt b ->
  match binop_model f odt a b with MOk _ => False | _ => True end.
Proof.
  intros f H. unfold binop_model. destruct (multidir_broadcast 0 (tz a) (tz b)) as [[a' b']| |]; cbn [mbind]; auto.
  destruct (dtype_eqb (dt a) (dt b)) eqn:E; cbn [negb]; auto.
  destruct H as [->|H]; auto. apply dtype_eqb_eq in E. contradiction.
Qed.

(* shape, type and each element, in the property's words *)
Theorem binop_spec_elements g odt a b v :
  binop_spec g odt a b = Some v ->
  exists s, bshape (sh a) (sh b) = Some s /\ sh v = s /\ dt v = odt /\
    forall i, valid s i ->
      get 0 (tz v) i = g (get 0 (tz a) (bproj (sh a) i)) (get 0 (tz b) (bproj (sh b) i)).
Proof.
  unfold binop_spec. destruct (bshape (sh a) (sh b)) as [s|]; [|discriminate].
  intros H; inversion H; subst; clear H. exists s. repeat split; auto.
  intros i V. unfold tz at 1; cbn [sh pl].
  change (get 0 (tabulate s (fun i => g (get 0 (tz a) (bproj (sh a) i)) (get 0 (tz b) (bproj (sh b) i)))) i = 
          g (get 0 (tz a) (bproj (sh a) i)) (get 0 (tz b) (bproj (sh b) i))).
  now rewrite get_tabulate.
Qed.

(* ---- integer scalar layer ---- *)
Lemma wrap_unsigned_range bits z : 0 < bits -> 0 <= wrap bits false z < 2 ^ bits.
Proof. intros H. unfold wrap. cbn [andb]. apply Z.mod_pos_bound. now apply Z.pow_pos_nonneg; lia. Qed.

Lemma wrap_signed_range bits z : 0 < bits -> - 2 ^ (bits - 1) <= wrap bits true z < 2 ^ (bits - 1).
Proof.
  intros H. unfold wrap. cbn [andb].
  assert (P : 2 ^ bits = 2 * 2 ^ (bits - 1)).
  { replace bits with (1 + (bits - 1)) at 1 by lia. rewrite Z.pow_add_r by lia. reflexivity. }
  assert (Q : 0 < 2 ^ (bits - 1)) by (apply Z.pow_pos_nonneg; lia).
  pose proof (Z.mod_pos_bound z (2 ^ bits) ltac:(lia)) as B.
  destruct (2 ^ (bits - 1) <=? z mod 2 ^ bits) eqn:E; [apply Z.leb_le in E|apply Z.leb_gt in E]; lia.
Qed.

Lemma wrap_congruent bits sg z : 0 < bits -> (wrap bits sg z) mod 2 ^ bits = z mod 2 ^ bits.
Proof.
  intros H. unfold wrap. assert (Q : 0 < 2 ^ bits) by (apply Z.pow_pos_nonneg; lia).
  destruct (sg && (2 ^ (bits - 1) <=? z mod 2 ^ bits)).
  - replace (z mod 2 ^ bits - 2 ^ bits) with (z mod 2 ^ bits + (-1) * 2 ^ bits) by lia.
    rewrite Z.mod_add by lia. apply Z.mod_mod. lia.
  - apply Z.mod_mod. lia.
Qed.

(* in range: no wrap *)
Lemma wrap_id_signed bits z : 0 < bits -> - 2 ^ (bits - 1) <= z < 2 ^ (bits - 1) -> wrap bits true z = z.
Proof.
  intros H R. unfold wrap. cbn [andb].
  assert (P : 2 ^ bits = 2 * 2 ^ (bits - 1)).
  { replace bits with (1 + (bits - 1)) at 1 by lia. rewrite Z.pow_add_r by lia. reflexivity. }
  assert (Q : 0 < 2 ^ (bits - 1)) by (apply Z.pow_pos_nonneg; lia).
  destruct (Z_lt_le_dec z 0) as [N|N].
  - assert (M : z mod 2 ^ bits = z + 2 ^ bits).
    { symmetry. apply Z.mod_unique with (q := -1); lia. }
    rewrite M. destruct (2 ^ (bits - 1) <=? z + 2 ^ bits) eqn:E; [lia|apply Z.leb_gt in E; lia].
  - rewrite Z.mod_small by lia. destruct (2 ^ (bits - 1) <=? z) eqn:E; [apply Z.leb_le in E; lia|reflexivity].
Qed.

(* integer division truncates toward zero: the remainder is smaller than the divisor in
   absolute value and has the sign of the dividend *)
Lemma int_div_truncates a b : b <> 0 ->
  a = b * Z.quot a b + Z.rem a b /\ Z.abs (Z.rem a b) < Z.abs b /\
  (Z.rem a b = 0 \/ Z.sgn (Z.rem a b) = Z.sgn a).
Proof.
  intros H. split; [apply Z.quot_rem'|]. split; [now apply Z.rem_bound_abs|].
  destruct (Z.eq_dec (Z.rem a b) 0) as [E|E]; [now left|right; now apply Z.rem_sign_nz].
Qed.
