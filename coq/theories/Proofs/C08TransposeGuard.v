(* C08: every perm attribute S accepts for Transpose (perm_ok), and the default (reversed axes),
   meets the hypotheses of C08_transpose_spec_is_formula -- the formula theorem covers every
   request for which S prescribes a value *)
From Coq Require Import List ZArith Bool Lia String Arith.
From V Require Import DType Tensor Case Slice Broadcast IndexOps.
Import ListNotations.
Local Open Scope nat_scope.

Lemma has_dupz_nodup l : has_dupz l = false -> NoDup l.
Proof.
  induction l as [|a r IH]; cbn [has_dupz]; intros H; [constructor|].
  apply orb_false_iff in H as [Ha Hr]. constructor; [|now apply IH].
  intros Hin. rewrite <- not_true_iff_false in Ha. apply Ha. apply existsb_exists. exists a. split; [exact Hin|apply Z.eqb_refl].
Qed.

Lemma perm_ok_hyps t p : perm_ok t p = true ->
  List.length (map Z.to_nat p) = List.length (sh t) /\ NoDup (map Z.to_nat p) /\
  forall a, In a (map Z.to_nat p) -> a < List.length (sh t).
Proof.
  unfold perm_ok, rank. intros H. apply andb_true_iff in H as [H Hd]. apply andb_true_iff in H as [Hl Hr].
  apply Z.eqb_eq in Hl. apply negb_true_iff in Hd. rewrite forallb_forall in Hr.
  assert (Hrange : forall x, In x p -> (0 <= x < Z.of_nat (List.length (sh t)))%Z).
  { intros x Hx. specialize (Hr x Hx). apply andb_true_iff in Hr as [H0 H1]. apply Z.leb_le in H0. apply Z.ltb_lt in H1. lia. }
  split; [rewrite map_length; lia|]. split.
  - apply has_dupz_nodup in Hd. clear Hl Hr. induction Hd as [|x l Hx Hd IH]; cbn [map]; [constructor|].
    constructor.
    + intros Hin. apply in_map_iff in Hin as [y [Hy Hyin]]. apply Hx.
      assert (y = x) as <-; [|exact Hyin].
      pose proof (Hrange x (or_introl eq_refl)). pose proof (Hrange y (or_intror Hyin)). lia.
    + apply IH. intros y Hy. apply Hrange. now right.
  - intros a Ha. apply in_map_iff in Ha as [x [<- Hx]]. specialize (Hrange x Hx). lia.
Qed.

Lemma default_perm_hyps (t : tval) :
  let p := rev (seq 0 (List.length (sh t))) in
  List.length p = List.length (sh t) /\ NoDup p /\ forall a, In a p -> a < List.length (sh t).
Proof.
  cbn zeta. split; [now rewrite rev_length, seq_length|]. split.
  - apply NoDup_rev, seq_NoDup.
  - intros a Ha. apply in_rev in Ha. apply in_seq in Ha. lia.
Qed.
