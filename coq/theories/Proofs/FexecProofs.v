(* Soundness of the "rounding-aware evaluation": statements about WHOLE floating-point executions.

   G/Ival.v judges a floating-point result "up to rounding" by an interval enclosure built from
   widen / f_add / f_sub / f_mul / f_div / f_sum / f_dot / f_exp / f_sigmoid / f_tanh / f_relu;
   Proofs/IvalProofs.v proves each of them sound for ONE operation applied to exact operands.
   Here these lemmas are chained through the structure of the two composite enclosures:

   1. `near w k exact r`: r is a rounded version of exact (relative error <= k u, plus the absolute
      allowance eta); an execution with bounded primitive errors is a tuple of reals in which every
      primitive result is `near` the exact operation applied to the PREVIOUS ROUNDED values.
   2. Softmax / LogSoftmax slice (Check/CheckC09.v soft_slice): every such execution lies, pointwise,
      in the enclosure (fexec_softmax, fexec_logsoftmax; W64 / W32 corollaries).
   3. RNN / GRU / LSTM (Model/Recurrent.v run_rec at Check/CheckC06.v iops): the recurrence run
      with ANY rounded real operations satisfying the primitive bounds, on real inputs enclosed by
      the interval inputs, lies in the interval outputs (fexec_recurrent), by the parametricity
      theorem run_rec_rel of Proofs/RecurrentProofs.v. *)
From Coq Require Import ZArith List Bool Reals Lra Lia.
From Flocq Require Import Core.Raux Core.Zaux.
From Interval Require Import Float.Specific_ops Float.Specific_bigint Float.Basic Interval.Interval Interval.Float Interval.Float_full Real.Xreal.
From V Require Import G.Ival Proofs.IvalProofs Model.Recurrent Proofs.RecurrentProofs Check.CheckC06 Check.CheckC09.
Import ListNotations.
Local Open Scope R_scope.

(* ------------------------------------------------------------------------------------------- *)
(* 1. primitive error bounds                                                                    *)
(* ------------------------------------------------------------------------------------------- *)

(* relative error at most c u (c a real), plus the absolute allowance *)
Definition nearR (w : fw) (c : R) (exact r : R) : Prop :=
  Rabs (r - exact) <= c * ur w * Rabs exact + etar w.
(* the integer form used by G/Ival.v's widen *)
Definition near (w : fw) (k : Z) (exact r : R) : Prop :=
  Rabs (r - exact) <= IZR k * ur w * Rabs exact + etar w.

Lemma near_nearR w k x r : near w k x r <-> nearR w (IZR k) x r.
Proof. unfold near, nearR. tauto. Qed.

Lemma nearR_mono w c c' x r : c <= c' -> nearR w c x r -> nearR w c' x r.
Proof.
  unfold nearR. intros Hc H. eapply Rle_trans; [exact H|].
  apply Rplus_le_compat_r. apply Rmult_le_compat_r; [apply Rabs_pos|].
  apply Rmult_le_compat_r; [apply Rlt_le, ur_pos|exact Hc].
Qed.

Lemma near_mono w k k' x r : (k <= k')%Z -> near w k x r -> near w k' x r.
Proof. intros Hk. rewrite !near_nearR. apply nearR_mono. apply IZR_le. exact Hk. Qed.

(* an exact result is near itself *)
Lemma near_refl w k x : (0 <= k)%Z -> near w k x x.
Proof.
  intros Hk. unfold near. replace (x - x) with 0 by ring. rewrite Rabs_R0.
  apply Rplus_le_le_0_compat; [|apply Rlt_le, etar_pos].
  repeat apply Rmult_le_pos; [apply IZR_le; exact Hk|apply Rlt_le, ur_pos|apply Rabs_pos].
Qed.

(* widen, restated with near *)
Lemma widen_near w k b x r :
  (0 <= k)%Z -> encl b x -> near w k x r -> encl (widen w k b) r.
Proof. intros Hk Hx Hr. exact (widen_correct w k b x Hk Hx r Hr). Qed.

Lemma near1 w x r : near w 1 x r -> Rabs (r - x) <= ur w * Rabs x + etar w.
Proof. unfold near. intros H. lra. Qed.

(* a floating-point sum of the terms es, in any order *)
Definition sum_near (w : fw) (es : list R) (s : R) : Prop :=
  Rabs (s - rsum es) <= IZR (2 * Z.of_nat (length es)) * ur w * rsum (map Rabs es) + etar w.
(* a floating-point dot product (one more rounding per term) *)
Definition dot_near (w : fw) (xs ys : list R) (r : R) : Prop :=
  Rabs (r - rsum (rprods xs ys)) <=
    IZR (2 * (Z.of_nat (length xs) + 1)) * ur w * rsum (map Rabs (rprods xs ys)) + etar w.

Lemma Forall2_length' {X Y} (Q : X -> Y -> Prop) l l' : Forall2 Q l l' -> length l = length l'.
Proof. induction 1; simpl; congruence. Qed.

Lemma f_sum_near w l es s : Forall2 encl l es -> sum_near w es s -> encl (f_sum w l) s.
Proof.
  intros HF Hs. apply (f_sum_correct w l es s HF).
  rewrite (Forall2_length' _ _ _ HF). exact Hs.
Qed.

Lemma f_dot_near w a b xs ys r :
  Forall2 encl a xs -> Forall2 encl b ys -> dot_near w xs ys r -> encl (f_dot w a b) r.
Proof.
  intros Ha Hb Hr. apply (f_dot_correct w a b xs ys r Ha Hb).
  rewrite (Forall2_length' _ _ _ Ha). exact Hr.
Qed.

(* division and logarithm WITHOUT side condition: where the real operation is undefined, Interval's
   enclosure is the whole line (Inan), which contains every real *)
Lemma div_real_total a b x y : encl a x -> encl b y -> encl (I.div prec a b) (x / y).
Proof.
  intros Ha Hb. unfold encl in *. generalize (I.div_correct prec a b _ _ Ha Hb).
  simpl. unfold Xdiv'. destruct (is_zero y); [|auto].
  destruct (I.convert (I.div prec a b)); simpl; tauto.
Qed.

Lemma ln_real_total a x : encl a x -> encl (I.ln prec a) (ln x).
Proof.
  intros Ha. unfold encl in *. generalize (I.ln_correct prec a _ Ha).
  simpl. unfold Xln'. destruct (is_positive x); [auto|].
  destruct (I.convert (I.ln prec a)); simpl; tauto.
Qed.

Lemma f_div_near w a b x y r : encl a x -> encl b y -> near w 1 (x / y) r -> encl (f_div w a b) r.
Proof.
  intros Ha Hb Hr. unfold f_div.
  apply (widen_near w 1 _ (x / y)); [lia|apply div_real_total; assumption|exact Hr].
Qed.

(* ------------------------------------------------------------------------------------------- *)
(* 3. the recurrent operators: any execution with rounded real operations is enclosed           *)
(* ------------------------------------------------------------------------------------------- *)

(* a record of real operations "with rounding": arbitrary functions *)
Definition fops (rnd_add rnd_sub rnd_mul : R -> R -> R) (rnd_dot : list R -> list R -> R) : sops R :=
  {| s_zero := 0; s_one := 1; s_add := rnd_add; s_sub := rnd_sub; s_mul := rnd_mul; s_dot := rnd_dot |}.

(* the activation act is a sound rounded version of the activation kind a: its result on x lies in
   the enclosure computed from ANY interval containing x (this is frel encl (act_fn w a) act) *)
Definition act_ok (w : fw) (a : actk) (act : R -> R) : Prop :=
  forall i x, encl i x -> encl (act_fn w a i) (act x).

Section RecOps.
Variable w : fw.
Variables (rnd_add rnd_sub rnd_mul : R -> R -> R) (rnd_dot : list R -> list R -> R).
Hypothesis Hadd : forall x y, near w 1 (x + y) (rnd_add x y).
Hypothesis Hsub : forall x y, near w 1 (x - y) (rnd_sub x y).
Hypothesis Hmul : forall x y, near w 1 (x * y) (rnd_mul x y).
Hypothesis Hdot : forall xs ys, dot_near w xs ys (rnd_dot xs ys).

Notation FO := (fops rnd_add rnd_sub rnd_mul rnd_dot).

Theorem iops_fops_related : ops_related (iops w) FO encl.
Proof.
  constructor; simpl.
  - exact izero_correct.
  - exact ione_correct.
  - intros a x b y Ha Hb. apply (f_add_correct w a b x y); [exact Ha|exact Hb|]. apply near1, Hadd.
  - intros a x b y Ha Hb. apply (f_sub_correct w a b x y); [exact Ha|exact Hb|]. apply near1, Hsub.
  - intros a x b y Ha Hb. apply (f_mul_correct w a b x y); [exact Ha|exact Hb|]. apply near1, Hmul.
  - intros a xs b ys Ha Hb. apply (f_dot_near w a b xs ys); [exact Ha|exact Hb|apply Hdot].
Qed.

Notation E1 := (Forall2 encl).
Notation E2 := (Forall2 (Forall2 encl)).
Notation E3 := (Forall2 (Forall2 (Forall2 encl))).

(* the general form: interval activations iacts, real activations racts, related pointwise *)
Theorem fexec_recurrent_gen :
  forall (k : rkind) (iacts : list (I.type -> I.type)) (racts : list (R -> R)) (lbr coupled : bool)
         Wg Rg Wb Rb P Wg' Rg' Wb' Rb' P' xs xs' h0 h0' c0 c0',
  Forall2 (frel encl) iacts racts ->
  E3 Wg Wg' -> E3 Rg Rg' -> E2 Wb Wb' -> E2 Rb Rb' -> opt_rel E2 P P' ->
  E3 xs xs' -> E2 h0 h0' -> E2 c0 c0' ->
  let ri := run_rec (iops w) k iacts lbr coupled Wg Rg Wb Rb P xs h0 c0 in
  let rr := run_rec FO k racts lbr coupled Wg' Rg' Wb' Rb' P' xs' h0' c0' in
  E3 (fst (fst ri)) (fst (fst rr)) /\ E2 (snd (fst ri)) (snd (fst rr)) /\ E2 (snd ri) (snd rr).
Proof.
  intros k iacts racts lbr coupled Wg Rg Wb Rb P Wg' Rg' Wb' Rb' P' xs xs' h0 h0' c0 c0'
         Hacts HWg HRg HWb HRb HP Hxs Hh Hc. cbv zeta.
  exact (run_rec_rel (iops w) FO encl iops_fops_related Wg Rg Wb Rb P Wg' Rg' Wb' Rb' P'
           HWg HRg HWb HRb HP k iacts racts lbr coupled Hacts xs xs' h0 h0' c0 c0' Hxs Hh Hc).
Qed.

Lemma acts_ok_frel : forall (al : list actk) (racts : list (R -> R)),
  Forall2 (act_ok w) al racts -> Forall2 (frel encl) (map (act_fn w) al) racts.
Proof.
  intros al racts H. induction H as [|a f al racts Ha H IH]; simpl; constructor; [|exact IH].
  intros i x Hi. apply Ha. exact Hi.
Qed.

(* the form matching CheckC06.enclosures: activations given by their kinds *)
Theorem fexec_recurrent :
  forall (k : rkind) (al : list actk) (racts : list (R -> R)) (lbr coupled : bool)
         Wg Rg Wb Rb P Wg' Rg' Wb' Rb' P' xs xs' h0 h0' c0 c0',
  Forall2 (act_ok w) al racts ->
  E3 Wg Wg' -> E3 Rg Rg' -> E2 Wb Wb' -> E2 Rb Rb' -> opt_rel E2 P P' ->
  E3 xs xs' -> E2 h0 h0' -> E2 c0 c0' ->
  let ri := run_rec (iops w) k (map (act_fn w) al) lbr coupled Wg Rg Wb Rb P xs h0 c0 in
  let rr := run_rec FO k racts lbr coupled Wg' Rg' Wb' Rb' P' xs' h0' c0' in
  E3 (fst (fst ri)) (fst (fst rr)) /\ E2 (snd (fst ri)) (snd (fst rr)) /\ E2 (snd ri) (snd rr).
Proof.
  intros k al racts lbr coupled Wg Rg Wb Rb P Wg' Rg' Wb' Rb' P' xs xs' h0 h0' c0 c0' Hacts.
  apply fexec_recurrent_gen. apply acts_ok_frel. exact Hacts.
Qed.
End RecOps.

(* ------------------------------------------------------------------------------------------- *)
(* 3'. discharging act_ok for concrete rounded activations                                      *)
(* ------------------------------------------------------------------------------------------- *)

(* the relative-error allowance f_exp grants on the enclosure z *)
Definition kexp (w : fw) (z : I.type) : Z :=
  match w with W32 => 8 + 4 * abs_up z | W64 => 4 end%Z.

Lemma f_exp_widen w z : f_exp w z = widen w (kexp w z) (sexp z).
Proof. destruct w; reflexivity. Qed.

Lemma abs_up_nonneg z : (0 <= abs_up z)%Z.
Proof.
  unfold abs_up. destruct (I.abs z) as [|l u]; [lia|].
  destruct (F.toF u) as [| |s m e]; try lia.
  destruct (0 <=? e)%Z eqn:He.
  - apply Z.leb_le in He. apply Z.mul_nonneg_nonneg; [lia|]. apply Z.pow_nonneg. lia.
  - apply Z.leb_gt in He.
    assert (0 < 2 ^ (- e))%Z by (apply Z.pow_pos_nonneg; lia).
    assert (0 <= Z.pos m / 2 ^ (- e))%Z by (apply Z.div_pos; lia). lia.
Qed.

Lemma kexp_nonneg w z : (0 <= kexp w z)%Z.
Proof. pose proof (abs_up_nonneg z). destruct w; unfold kexp; lia. Qed.

Lemma f_exp_near w zi z e : encl zi z -> near w (kexp w zi) (exp z) e -> encl (f_exp w zi) e.
Proof.
  intros Hz He. rewrite f_exp_widen.
  apply (widen_near w _ _ (exp z)); [apply kexp_nonneg|apply sexp_correct; exact Hz|exact He].
Qed.

(* ReLU, computed exactly *)
Theorem relu_act_ok w : act_ok w ARelu (fun x => Rmax x 0).
Proof.
  intros i x Hx. simpl. unfold f_relu, encl in *.
  destruct (I.subset i (I.bnd F.zero F.nan)) eqn:H1.
  { pose proof (I.subset_correct _ _ _ Hx H1) as Hc.
    rewrite convert_bnd, F.zero_correct in Hc. simpl in Hc.
    rewrite Rmax_left by tauto. exact Hx. }
  destruct (I.subset i (I.bnd F.nan F.zero)) eqn:H2.
  { pose proof (I.subset_correct _ _ _ Hx H2) as Hc.
    rewrite convert_bnd, F.zero_correct, I.F'.nan_correct in Hc. simpl in Hc.
    rewrite Rmax_right by tauto. exact izero_correct. }
  apply I.join_correct.
  destruct (Rle_dec x 0) as [Hle|Hgt].
  - left. rewrite Rmax_right by exact Hle. exact izero_correct.
  - right. rewrite Rmax_left by lra. apply I.meet_correct; [exact Hx|].
    rewrite convert_bnd, F.zero_correct, I.F'.nan_correct. simpl. split; [lra|exact I].
Qed.

(* Tanh, by any kernel within 8 u of the real tanh *)
Theorem tanh_act_ok w (act : R -> R) :
  (forall x, near w 8 (tanh x) (act x)) -> act_ok w ATanh act.
Proof.
  intros H i x Hx. simpl. unfold f_tanh.
  apply (widen_near w 8 _ (tanh x)); [lia|apply r_tanh_correct; exact Hx|apply H].
Qed.

(* Sigmoid, by any kernel within 8 u of the real sigmoid *)
Theorem sigmoid_act_ok_direct w (act : R -> R) :
  (forall x, near w 8 (1 / (1 + exp (- x))) (act x)) -> act_ok w ASig act.
Proof.
  intros H i x Hx. simpl. unfold f_sigmoid. cbv zeta.
  assert (Hr : encl (I.join (f_div w ione (f_add w ione (f_exp w (I.neg i)))) (widen w 8 (r_sigmoid i))) (act x)).
  { apply I.join_correct. right.
    apply (widen_near w 8 _ (1 / (1 + exp (- x)))); [lia|apply r_sigmoid_correct; exact Hx|apply H]. }
  destruct (negb _); [apply I.join_correct; right; exact Hr|exact Hr].
Qed.

(* Sigmoid as composed in ops/activation.go, 1 / (1 + exp (-x)), every step rounded: e near
   exp(-x) (with the allowance f_exp grants on the enclosure of -x), d near 1 + e, result near 1 / d.
   The three intermediate values may depend on x and on the enclosure. *)
Theorem sigmoid_act_ok_composed w (act : R -> R) :
  (forall i x, encl i x -> exists e d,
      near w (kexp w (I.neg i)) (exp (- x)) e /\ near w 1 (1 + e) d /\ near w 1 (1 / d) (act x)) ->
  act_ok w ASig act.
Proof.
  intros H i x Hx. simpl. unfold f_sigmoid. cbv zeta.
  destruct (H i x Hx) as (e & d & He & Hd & Hr).
  assert (HE : encl (f_exp w (I.neg i)) e).
  { apply (f_exp_near w _ (- x)); [apply neg_real; exact Hx|exact He]. }
  assert (HD : encl (f_add w ione (f_exp w (I.neg i))) d).
  { apply (f_add_correct w _ _ 1 e); [exact ione_correct|exact HE|apply near1; exact Hd]. }
  assert (HR : encl (I.join (f_div w ione (f_add w ione (f_exp w (I.neg i)))) (widen w 8 (r_sigmoid i))) (act x)).
  { apply I.join_correct. left. apply (f_div_near w _ _ 1 d); [exact ione_correct|exact HD|exact Hr]. }
  destruct (negb _); [apply I.join_correct; right; exact HR|exact HR].
Qed.

(* binary64: the allowance of exp is the constant 4 *)
Corollary sigmoid_act_ok_composed_W64 (rexp : R -> R) (radd rdiv : R -> R -> R) :
  (forall z, near W64 4 (exp z) (rexp z)) ->
  (forall x y, near W64 1 (x + y) (radd x y)) ->
  (forall x y, near W64 1 (x / y) (rdiv x y)) ->
  act_ok W64 ASig (fun x => rdiv 1 (radd 1 (rexp (- x)))).
Proof.
  intros Hexp Hadd Hdiv. apply sigmoid_act_ok_composed.
  intros i x _. exists (rexp (- x)), (radd 1 (rexp (- x))).
  split; [apply Hexp|]. split; [apply Hadd|apply Hdiv].
Qed.

(* ------------------------------------------------------------------------------------------- *)
(* 2. Softmax / LogSoftmax slice                                                                *)
(* ------------------------------------------------------------------------------------------- *)

Lemma Forall2_chain {X Y Z X'} (P : X -> Y -> Prop) (Q : Y -> Z -> Prop) (T : X' -> Z -> Prop) (f : X -> X') :
  (forall a b c, P a b -> Q b c -> T (f a) c) ->
  forall la lb lc, Forall2 P la lb -> Forall2 Q lb lc -> Forall2 T (map f la) lc.
Proof.
  intros H la lb lc HP. revert lc.
  induction HP as [|a b la lb Hab HP IH]; intros lc HQ; inversion HQ; subst; simpl; constructor.
  - eapply H; eassumption.
  - apply IH. assumption.
Qed.

(* P relates la and lb, Q relates (la zipped with lb) and lc *)
Lemma Forall2_chain2 {X Y Z X'} (P : X -> Y -> Prop) (Q : X * Y -> Z -> Prop) (T : X' -> Z -> Prop) (f : X -> X') :
  (forall a b c, P a b -> Q (a, b) c -> T (f a) c) ->
  forall la lb lc, Forall2 P la lb -> Forall2 Q (combine la lb) lc -> Forall2 T (map f la) lc.
Proof.
  intros H la lb lc HP. revert lc.
  induction HP as [|a b la lb Hab HP IH]; intros lc HQ; simpl in HQ; inversion HQ; subst; simpl; constructor.
  - eapply H; eassumption.
  - apply IH. assumption.
Qed.

Lemma Forall2_combine_snd {X Y Z} (P : X -> Y -> Prop) (Q : Y -> Z -> Prop) la lb lc :
  Forall2 P la lb -> Forall2 Q lb lc -> Forall2 (fun p c => Q (snd p) c) (combine la lb) lc.
Proof.
  intros HP. revert lc.
  induction HP as [|a b la lb Hab HP IH]; intros lc HQ; inversion HQ; subst; simpl; constructor.
  - assumption.
  - apply IH. assumption.
Qed.

Section Soft.
Variable w : fw.
Variables (px : list I.type) (pm : I.type) (xs : list R) (m : R).
Hypothesis Hx : Forall2 encl px xs.
Hypothesis Hm : encl pm m.

(* the enclosures of the shifted inputs, as soft_slice builds them *)
Definition soft_pzs : list I.type := map (fun x => f_sub w x pm) px.

(* the common prefix of both executions: shifted inputs z, exponentials e, their sum s.
   Every primitive result is near the exact operation applied to the previous ROUNDED values;
   the allowance of exp on z_i is the one f_exp grants on the enclosure of z_i. *)
Definition soft_prefix (zs es : list R) (s : R) : Prop :=
  Forall2 (fun x z => near w 1 (x - m) z) xs zs /\
  Forall2 (fun pz e => near w (kexp w (fst pz)) (exp (snd pz)) e) (combine soft_pzs zs) es /\
  sum_near w es s.

Lemma soft_zs_encl zs : Forall2 (fun x z => near w 1 (x - m) z) xs zs -> Forall2 encl soft_pzs zs.
Proof.
  intros Hz. unfold soft_pzs.
  apply (Forall2_chain encl (fun x z => near w 1 (x - m) z) encl (fun x => f_sub w x pm)) with (lb := xs);
    [|exact Hx|exact Hz].
  intros a x z Ha Hnz. apply (f_sub_correct w a pm x m); [exact Ha|exact Hm|apply near1; exact Hnz].
Qed.

Lemma soft_es_encl zs es :
  Forall2 encl soft_pzs zs ->
  Forall2 (fun pz e => near w (kexp w (fst pz)) (exp (snd pz)) e) (combine soft_pzs zs) es ->
  Forall2 encl (map (f_exp w) soft_pzs) es.
Proof.
  intros Hz He.
  apply (Forall2_chain2 encl (fun pz e => near w (kexp w (fst pz)) (exp (snd pz)) e) encl (f_exp w)) with (lb := zs);
    [|exact Hz|exact He].
  intros zi z e Hzi Hne. simpl in Hne. apply (f_exp_near w zi z e Hzi Hne).
Qed.

Lemma soft_prefix_encl zs es s : soft_prefix zs es s ->
  Forall2 encl soft_pzs zs /\ Forall2 encl (map (f_exp w) soft_pzs) es /\ encl (f_sum w (map (f_exp w) soft_pzs)) s.
Proof.
  intros (Hz & He & Hs).
  pose proof (soft_zs_encl zs Hz) as HZ.
  pose proof (soft_es_encl zs es HZ He) as HE.
  split; [exact HZ|]. split; [exact HE|]. apply (f_sum_near w _ es s HE Hs).
Qed.

(* Softmax: out_i = e_i * (1 / s) *)
Theorem fexec_softmax : forall zs es s inv outs,
  soft_prefix zs es s ->
  near w 1 (1 / s) inv ->
  Forall2 (fun e o => near w 1 (e * inv) o) es outs ->
  Forall2 encl (soft_slice w false px pm) outs.
Proof.
  intros zs es s inv outs Hp Hinv Hout.
  destruct (soft_prefix_encl zs es s Hp) as (HZ & HE & HS).
  unfold soft_slice. cbv zeta. fold soft_pzs.
  assert (HI : encl (f_div w ione (f_sum w (map (f_exp w) soft_pzs))) inv).
  { apply (f_div_near w _ _ 1 s); [exact ione_correct|exact HS|exact Hinv]. }
  apply (Forall2_chain encl (fun e o => near w 1 (e * inv) o) encl
           (fun e => f_mul w e (f_div w ione (f_sum w (map (f_exp w) soft_pzs))))) with (lb := es);
    [|exact HE|exact Hout].
  intros ei e o Hei Hno. apply (f_mul_correct w ei _ e inv); [exact Hei|exact HI|apply near1; exact Hno].
Qed.

(* LogSoftmax: out_i = z_i - ln s *)
Theorem fexec_logsoftmax : forall zs es s l outs,
  soft_prefix zs es s ->
  near w 8 (ln s) l ->
  Forall2 (fun z o => near w 1 (z - l) o) zs outs ->
  Forall2 encl (soft_slice w true px pm) outs.
Proof.
  intros zs es s l outs Hp Hl Hout.
  destruct (soft_prefix_encl zs es s Hp) as (HZ & HE & HS).
  unfold soft_slice. cbv zeta. fold soft_pzs.
  assert (HL : encl (widen w 8 (I.ln prec (f_sum w (map (f_exp w) soft_pzs)))) l).
  { apply (widen_near w 8 _ (ln s)); [lia|apply ln_real_total; exact HS|exact Hl]. }
  apply (Forall2_chain encl (fun z o => near w 1 (z - l) o) encl
           (fun z => f_sub w z (widen w 8 (I.ln prec (f_sum w (map (f_exp w) soft_pzs)))))) with (lb := zs);
    [|exact HZ|exact Hout].
  intros zi z o Hzi Hno. apply (f_sub_correct w zi _ z l); [exact Hzi|exact HL|apply near1; exact Hno].
Qed.
End Soft.

(* ---- binary64: exp within 4 u, stated without reference to the enclosures ---- *)
Lemma soft_prefix_W64 px pm xs m zs es s :
  Forall2 encl px xs -> encl pm m ->
  Forall2 (fun x z => near W64 1 (x - m) z) xs zs ->
  Forall2 (fun z e => near W64 4 (exp z) e) zs es ->
  sum_near W64 es s ->
  soft_prefix W64 px pm xs m zs es s.
Proof.
  intros Hx Hm Hz He Hs. split; [exact Hz|]. split; [|exact Hs].
  pose proof (soft_zs_encl W64 px pm xs m Hx Hm zs Hz) as HZ.
  exact (Forall2_combine_snd encl (fun z e => near W64 4 (exp z) e) _ _ _ HZ He).
Qed.

Theorem fexec_softmax_W64 : forall px pm xs m zs es s inv outs,
  Forall2 encl px xs -> encl pm m ->
  Forall2 (fun x z => near W64 1 (x - m) z) xs zs ->          (* z_i = fl (x_i - m) *)
  Forall2 (fun z e => near W64 4 (exp z) e) zs es ->           (* e_i = fl (exp z_i) *)
  sum_near W64 es s ->                                         (* s = fl (sum e_i), any order *)
  near W64 1 (1 / s) inv ->                                    (* inv = fl (1 / s) *)
  Forall2 (fun e o => near W64 1 (e * inv) o) es outs ->       (* out_i = fl (e_i * inv) *)
  Forall2 encl (soft_slice W64 false px pm) outs.
Proof.
  intros px pm xs m zs es s inv outs Hx Hm Hz He Hs Hinv Hout.
  apply (fexec_softmax W64 px pm xs m Hx Hm zs es s inv outs); [|exact Hinv|exact Hout].
  apply soft_prefix_W64; assumption.
Qed.

Theorem fexec_logsoftmax_W64 : forall px pm xs m zs es s l outs,
  Forall2 encl px xs -> encl pm m ->
  Forall2 (fun x z => near W64 1 (x - m) z) xs zs ->
  Forall2 (fun z e => near W64 4 (exp z) e) zs es ->
  sum_near W64 es s ->
  near W64 8 (ln s) l ->                                       (* l = fl (ln s) *)
  Forall2 (fun z o => near W64 1 (z - l) o) zs outs ->         (* out_i = fl (z_i - l) *)
  Forall2 encl (soft_slice W64 true px pm) outs.
Proof.
  intros px pm xs m zs es s l outs Hx Hm Hz He Hs Hl Hout.
  apply (fexec_logsoftmax W64 px pm xs m Hx Hm zs es s l outs); [|exact Hl|exact Hout].
  apply soft_prefix_W64; assumption.
Qed.

(* ---- binary32: gorgonia's float32 Exp, allowance (8 + 4 |z|) u ---- *)

(* abs_up is an upper bound of |z| whenever the enclosure is bounded above in magnitude (for an
   unbounded enclosure abs_up returns 0 / 1000 and is NOT a bound: the hypothesis is necessary) *)
Lemma abs_up_correct zi z :
  encl zi z -> I.upper_bounded (I.abs zi) = true -> Rabs z <= IZR (abs_up zi).
Proof.
  intros Hz Hb. unfold encl in Hz.
  pose proof (I.abs_correct zi _ Hz) as Ha. simpl Xabs in Ha.
  unfold abs_up. destruct (I.abs zi) as [|l u]; [discriminate|].
  simpl in Hb. rewrite F.real_correct in Hb.
  pose proof (convert_bnd l u) as E. unfold I.bnd in E. rewrite E in Ha. clear E.
  destruct Ha as [_ Hu]. unfold F.toX in Hb, Hu.
  destruct (F.toF u) as [| |s m e]; simpl in Hb, Hu.
  - discriminate.
  - exact Hu.
  - destruct s.
    { pose proof (Generic_proof.FtoR_Rneg F.radix m e). pose proof (Rabs_pos z). lra. }
    eapply Rle_trans; [exact Hu|]. clear Hu Hb.
    destruct e as [|p|p]; simpl FtoR.
    + apply IZR_le. simpl. lia.
    + apply IZR_le. apply Z.le_refl.
    + change (0 <=? Z.neg p)%Z with false. cbv iota.
      change (- Z.neg p)%Z with (Z.pos p). change (2 ^ Z.pos p)%Z with (Z.pow_pos 2 p).
      change (radix_val F.radix) with 2%Z.
      set (b := Z.pow_pos 2 p).
      assert (Hbpos : (0 < b)%Z) by (unfold b; rewrite Z.pow_pos_fold; apply Z.pow_pos_nonneg; lia).
      assert (HbR : 0 < IZR b) by (apply IZR_lt; exact Hbpos).
      unfold Rdiv. apply Rmult_le_reg_r with (IZR b); [exact HbR|].
      rewrite Rmult_assoc, Rinv_l, Rmult_1_r by lra.
      rewrite <- mult_IZR. apply IZR_le.
      pose proof (Z_div_mod_eq_full (Z.pos m) b). pose proof (Z.mod_pos_bound (Z.pos m) b Hbpos). nia.
Qed.

(* the data-independent form of the W32 exp step implies the form soft_prefix uses *)
Lemma near_exp_W32 zi z e :
  encl zi z -> I.upper_bounded (I.abs zi) = true ->
  nearR W32 (8 + 4 * Rabs z) (exp z) e -> near W32 (kexp W32 zi) (exp z) e.
Proof.
  intros Hz Hb He. apply near_nearR. eapply nearR_mono; [|exact He].
  unfold kexp. rewrite plus_IZR, mult_IZR. pose proof (abs_up_correct zi z Hz Hb). lra.
Qed.

Lemma Forall2_combine_both {X Y Z} (P : X -> Y -> Prop) (B : X -> Prop) (Q : Y -> Z -> Prop) (T : X * Y -> Z -> Prop) :
  (forall a b c, P a b -> B a -> Q b c -> T (a, b) c) ->
  forall la lb lc, Forall2 P la lb -> Forall B la -> Forall2 Q lb lc -> Forall2 T (combine la lb) lc.
Proof.
  intros H la lb lc HP. revert lc.
  induction HP as [|a b la lb Hab HP IH]; intros lc HB HQ; inversion HQ; subst; simpl; constructor.
  - apply H; [assumption|exact (Forall_inv HB)|assumption].
  - apply IH; [exact (Forall_inv_tail HB)|assumption].
Qed.

Lemma soft_prefix_W32 px pm xs m zs es s :
  Forall2 encl px xs -> encl pm m ->
  Forall (fun zi => I.upper_bounded (I.abs zi) = true) (soft_pzs W32 px pm) ->
  Forall2 (fun x z => near W32 1 (x - m) z) xs zs ->
  Forall2 (fun z e => nearR W32 (8 + 4 * Rabs z) (exp z) e) zs es ->
  sum_near W32 es s ->
  soft_prefix W32 px pm xs m zs es s.
Proof.
  intros Hx Hm Hb Hz He Hs. split; [exact Hz|]. split; [|exact Hs].
  pose proof (soft_zs_encl W32 px pm xs m Hx Hm zs Hz) as HZ.
  refine (Forall2_combine_both encl (fun zi => I.upper_bounded (I.abs zi) = true)
            (fun z e => nearR W32 (8 + 4 * Rabs z) (exp z) e) _ _ _ _ _ HZ Hb He).
  intros zi z e Hzi Hbi Hne. simpl. apply near_exp_W32; assumption.
Qed.

Theorem fexec_softmax_W32 : forall px pm xs m zs es s inv outs,
  Forall2 encl px xs -> encl pm m ->
  Forall (fun zi => I.upper_bounded (I.abs zi) = true) (soft_pzs W32 px pm) ->   (* bounded enclosures: a computable check *)
  Forall2 (fun x z => near W32 1 (x - m) z) xs zs ->
  Forall2 (fun z e => nearR W32 (8 + 4 * Rabs z) (exp z) e) zs es ->             (* e_i = fl (exp z_i), (8 + 4|z_i|) u *)
  sum_near W32 es s ->
  near W32 1 (1 / s) inv ->
  Forall2 (fun e o => near W32 1 (e * inv) o) es outs ->
  Forall2 encl (soft_slice W32 false px pm) outs.
Proof.
  intros px pm xs m zs es s inv outs Hx Hm Hb Hz He Hs Hinv Hout.
  apply (fexec_softmax W32 px pm xs m Hx Hm zs es s inv outs); [|exact Hinv|exact Hout].
  apply soft_prefix_W32; assumption.
Qed.

Theorem fexec_logsoftmax_W32 : forall px pm xs m zs es s l outs,
  Forall2 encl px xs -> encl pm m ->
  Forall (fun zi => I.upper_bounded (I.abs zi) = true) (soft_pzs W32 px pm) ->
  Forall2 (fun x z => near W32 1 (x - m) z) xs zs ->
  Forall2 (fun z e => nearR W32 (8 + 4 * Rabs z) (exp z) e) zs es ->
  sum_near W32 es s ->
  near W32 8 (ln s) l ->
  Forall2 (fun z o => near W32 1 (z - l) o) zs outs ->
  Forall2 encl (soft_slice W32 true px pm) outs.
Proof.
  intros px pm xs m zs es s l outs Hx Hm Hb Hz He Hs Hl Hout.
  apply (fexec_logsoftmax W32 px pm xs m Hx Hm zs es s l outs); [|exact Hl|exact Hout].
  apply soft_prefix_W32; assumption.
Qed.

(* the composed Sigmoid in binary32, for inputs whose enclosure is bounded *)
Corollary sigmoid_act_ok_composed_W32_at (rexp : R -> R) (radd rdiv : R -> R -> R) :
  (forall z, nearR W32 (8 + 4 * Rabs z) (exp z) (rexp z)) ->
  (forall x y, near W32 1 (x + y) (radd x y)) ->
  (forall x y, near W32 1 (x / y) (rdiv x y)) ->
  forall i x, encl i x -> I.upper_bounded (I.abs (I.neg i)) = true ->
  encl (act_fn W32 ASig i) (rdiv 1 (radd 1 (rexp (- x)))).
Proof.
  intros Hexp Hadd Hdiv i x Hx Hb. simpl. unfold f_sigmoid. cbv zeta.
  assert (HE : encl (f_exp W32 (I.neg i)) (rexp (- x))).
  { apply (f_exp_near W32 _ (- x)); [apply neg_real; exact Hx|].
    apply near_exp_W32; [apply neg_real; exact Hx|exact Hb|apply Hexp]. }
  assert (HD : encl (f_add W32 ione (f_exp W32 (I.neg i))) (radd 1 (rexp (- x)))).
  { apply (f_add_correct W32 _ _ 1 (rexp (- x))); [exact ione_correct|exact HE|apply near1; apply Hadd]. }
  assert (HR : encl (I.join (f_div W32 ione (f_add W32 ione (f_exp W32 (I.neg i)))) (widen W32 8 (r_sigmoid i)))
                    (rdiv 1 (radd 1 (rexp (- x))))).
  { apply I.join_correct. left.
    apply (f_div_near W32 _ _ 1 (radd 1 (rexp (- x)))); [exact ione_correct|exact HD|apply Hdiv]. }
  destruct (negb _); [apply I.join_correct; right; exact HR|exact HR].
Qed.

(* ------------------------------------------------------------------------------------------- *)
(* 4. the hypotheses are satisfiable: the EXACT real operations are such an execution           *)
(* ------------------------------------------------------------------------------------------- *)

Lemma dot_near_exact w xs ys : dot_near w xs ys (rsum (rprods xs ys)).
Proof.
  unfold dot_near. replace (rsum (rprods xs ys) - rsum (rprods xs ys)) with 0 by ring. rewrite Rabs_R0.
  apply Rplus_le_le_0_compat; [|apply Rlt_le, etar_pos].
  repeat apply Rmult_le_pos; [apply IZR_le; lia|apply Rlt_le, ur_pos|apply rsum_abs_nonneg].
Qed.

Lemma sum_near_exact w es : sum_near w es (rsum es).
Proof.
  unfold sum_near. replace (rsum es - rsum es) with 0 by ring. rewrite Rabs_R0.
  apply Rplus_le_le_0_compat; [|apply Rlt_le, etar_pos].
  repeat apply Rmult_le_pos; [apply IZR_le; lia|apply Rlt_le, ur_pos|apply rsum_abs_nonneg].
Qed.

(* the exact real operations *)
Definition xops : sops R := fops Rplus Rminus Rmult (fun xs ys => rsum (rprods xs ys)).

(* the exact real recurrence (real activations related to the interval ones) is enclosed *)
Corollary fexec_recurrent_exact :
  forall w (k : rkind) (al : list actk) (racts : list (R -> R)) (lbr coupled : bool)
         Wg Rg Wb Rb P Wg' Rg' Wb' Rb' P' xs xs' h0 h0' c0 c0',
  Forall2 (act_ok w) al racts ->
  Forall2 (Forall2 (Forall2 encl)) Wg Wg' -> Forall2 (Forall2 (Forall2 encl)) Rg Rg' ->
  Forall2 (Forall2 encl) Wb Wb' -> Forall2 (Forall2 encl) Rb Rb' -> opt_rel (Forall2 (Forall2 encl)) P P' ->
  Forall2 (Forall2 (Forall2 encl)) xs xs' -> Forall2 (Forall2 encl) h0 h0' -> Forall2 (Forall2 encl) c0 c0' ->
  let ri := run_rec (iops w) k (map (act_fn w) al) lbr coupled Wg Rg Wb Rb P xs h0 c0 in
  let rr := run_rec xops k racts lbr coupled Wg' Rg' Wb' Rb' P' xs' h0' c0' in
  Forall2 (Forall2 (Forall2 encl)) (fst (fst ri)) (fst (fst rr)) /\
  Forall2 (Forall2 encl) (snd (fst ri)) (snd (fst rr)) /\ Forall2 (Forall2 encl) (snd ri) (snd rr).
Proof.
  intros w. apply (fexec_recurrent w Rplus Rminus Rmult (fun xs ys => rsum (rprods xs ys))).
  - intros x y. apply near_refl. lia.
  - intros x y. apply near_refl. lia.
  - intros x y. apply near_refl. lia.
  - intros xs ys. apply dot_near_exact.
Qed.

(* the exact activations *)
Corollary exact_tanh_act_ok w : act_ok w ATanh tanh.
Proof. apply tanh_act_ok. intros x. apply near_refl. lia. Qed.
Corollary exact_sigmoid_act_ok w : act_ok w ASig (fun x => 1 / (1 + exp (- x))).
Proof. apply sigmoid_act_ok_direct. intros x. apply near_refl. lia. Qed.

Lemma Forall2_map_r {X Y} (Q : X -> Y -> Prop) (f : X -> Y) l : (forall a, Q a (f a)) -> Forall2 Q l (map f l).
Proof. intros H. induction l; simpl; constructor; auto. Qed.

(* the exact real softmax / logsoftmax of the slice (shifted by m) lies in the enclosure *)
Lemma soft_prefix_exact w px pm xs m :
  Forall2 encl px xs -> encl pm m ->
  soft_prefix w px pm xs m (map (fun x => x - m) xs) (map exp (map (fun x => x - m) xs))
              (rsum (map exp (map (fun x => x - m) xs))).
Proof.
  intros Hx Hm. split; [|split].
  - apply Forall2_map_r. intros x. apply near_refl. lia.
  - assert (HZ : Forall2 encl (soft_pzs w px pm) (map (fun x => x - m) xs)).
    { apply (soft_zs_encl w px pm xs m Hx Hm). apply Forall2_map_r. intros x. apply near_refl. lia. }
    generalize (map (fun x => x - m) xs) HZ. generalize (soft_pzs w px pm).
    induction 1 as [|zi z pzs zs Hz HZ' IH]; simpl; constructor; [|exact IH].
    simpl. apply near_refl. apply kexp_nonneg.
  - apply sum_near_exact.
Qed.

Corollary soft_slice_contains_softmax w px pm xs m :
  Forall2 encl px xs -> encl pm m ->
  let es := map exp (map (fun x => x - m) xs) in
  Forall2 encl (soft_slice w false px pm) (map (fun e => e * (1 / rsum es)) es).
Proof.
  intros Hx Hm es.
  apply (fexec_softmax w px pm xs m Hx Hm _ _ _ (1 / rsum es) _ (soft_prefix_exact w px pm xs m Hx Hm)).
  - apply near_refl. lia.
  - apply Forall2_map_r. intros e. apply near_refl. lia.
Qed.

Corollary soft_slice_contains_logsoftmax w px pm xs m :
  Forall2 encl px xs -> encl pm m ->
  let zs := map (fun x => x - m) xs in
  Forall2 encl (soft_slice w true px pm) (map (fun z => z - ln (rsum (map exp zs))) zs).
Proof.
  intros Hx Hm zs.
  apply (fexec_logsoftmax w px pm xs m Hx Hm _ _ _ (ln (rsum (map exp zs))) _ (soft_prefix_exact w px pm xs m Hx Hm)).
  - apply near_refl. lia.
  - apply Forall2_map_r. intros z. apply near_refl. lia.
Qed.

(* the boundedness side condition of the W32 theorems is a computation on concrete enclosures *)
Example soft_pzs_bounded_example :
  Forall (fun zi => I.upper_bounded (I.abs zi) = true) (soft_pzs W32 [pt 1 0; pt (-3) (-1); pt 5 2] (pt 5 2)).
Proof. repeat constructor. Qed.

