(* C07: S demands an error for an Unsqueeze axis outside [-R, R-1], R = rank + number of axes *)
From Coq Require Import List ZArith Bool Lia String.
From V Require Import DType Tensor Case OpCheck ShapeOps CheckC07.
Import ListNotations.
Open Scope Z_scope.

Lemma unsqueeze_refuses_range t a n :
  let R := Z.of_nat (List.length (sh t) + List.length (pl a)) in
  sh a = [n] -> (exists x, In x (pl a) /\ (x < - R \/ R <= x)) ->
  unsqueeze_spec t a = SMustErr.
Proof.
  cbn zeta. intros Hs [x [Hin Hx]]. unfold unsqueeze_spec. rewrite Hs.
  match goal with |- (if negb (forallb ?f ?l) then _ else _) = _ => destruct (forallb f l) eqn:Hr end; cbn [negb]; [|reflexivity].
  rewrite forallb_forall in Hr. specialize (Hr x Hin). apply andb_true_iff in Hr as [H1 H2].
  apply Z.leb_le in H1. apply Z.ltb_lt in H2. lia.
Qed.
