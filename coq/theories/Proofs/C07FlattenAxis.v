(* C07: S accepts exactly the Flatten axes in [-rank, rank] -- both ends included -- and demands an
   error for every other axis; a negative axis means the same as axis + rank *)
From Coq Require Import List ZArith Bool Lia String.
From V Require Import DType Tensor Case OpCheck ShapeOps CheckC07.
Import ListNotations.
Open Scope Z_scope.

Lemma flatten_accepts_iff axis t :
  let r := Z.of_nat (List.length (sh t)) in
  ((exists v, flatten_spec axis t = SMust [Some v]) <-> - r <= axis <= r) /\
  (~ (- r <= axis <= r) -> flatten_spec axis t = SMustErr).
Proof.
  cbn zeta. unfold flatten_spec, SMust1.
  destruct (axis <? - Z.of_nat (List.length (sh t))) eqn:H1; destruct (Z.of_nat (List.length (sh t)) <? axis) eqn:H2; cbn [orb];
    try apply Z.ltb_lt in H1; try apply Z.ltb_ge in H1; try apply Z.ltb_lt in H2; try apply Z.ltb_ge in H2;
    (split; [split; [intros [v Hv]; try discriminate; lia | intros Hr; try lia; eexists; reflexivity] | intros Hn; try reflexivity; lia]).
Qed.

Lemma flatten_negative_axis axis t :
  let r := Z.of_nat (List.length (sh t)) in
  - r <= axis < 0 -> flatten_spec axis t = flatten_spec (axis + r) t.
Proof.
  cbn zeta. intros Hr. unfold flatten_spec.
  destruct (axis <? - Z.of_nat (List.length (sh t))) eqn:H1; [apply Z.ltb_lt in H1; lia|].
  destruct (Z.of_nat (List.length (sh t)) <? axis) eqn:H2; [apply Z.ltb_lt in H2; lia|].
  destruct (axis + Z.of_nat (List.length (sh t)) <? - Z.of_nat (List.length (sh t))) eqn:H3; [apply Z.ltb_lt in H3; lia|].
  destruct (Z.of_nat (List.length (sh t)) <? axis + Z.of_nat (List.length (sh t))) eqn:H4; [apply Z.ltb_lt in H4; lia|].
  cbn [orb].
  destruct (axis <? 0) eqn:H5; [|apply Z.ltb_ge in H5; lia].
  destruct (axis + Z.of_nat (List.length (sh t)) <? 0) eqn:H6; [apply Z.ltb_lt in H6; lia|]. reflexivity.
Qed.
