(* Proofs about the gate model: the generic gate theorem, necessity of its side
   condition, the Concat and PRelu layers, the registry. *)
From Coq Require Import List Arith Bool Lia String.
From V Require Import DType Gate.
Import ListNotations.

Section GateProofs.
Variable T : Type.
Variable dt : T -> dtype.
Notation validate := (validate T dt).
Notation check_types := (check_types T dt).
Notation pad := (pad T).

(* specification *)
Definition count_ok (o : opinfo) (n : nat) : Prop := o_min o <= n <= o_max o.
Definition type_ok_at (o : opinfo) (i : nat) (x : option T) : Prop :=
  match x with None => True | Some t => exists allowed, nth_error (o_cons o) i = Some allowed /\ In (dt t) allowed end.

Lemma check_types_spec cons i ins :
  List.length ins + i <= List.length cons ->
  match check_types cons i ins with
  | None => False
  | Some None => forall k x, nth_error ins k = Some x ->
        match x with None => True | Some t => exists a, nth_error cons (i + k) = Some a /\ In (dt t) a end
  | Some (Some p) => exists k t a, p = i + k /\ nth_error ins k = Some (Some t) /\ nth_error cons p = Some a /\ ~ In (dt t) a
  end.
Proof.
  revert i. induction ins as [|x r IH]; intros i L; cbn [check_types].
  - intros k x H. destruct k; discriminate.
  - destruct x as [t|].
    + destruct (nth_error cons i) as [a|] eqn:E.
      * destruct (existsb (dtype_eqb (dt t)) a) eqn:X.
        -- specialize (IH (S i) ltac:(cbn in L; lia)). destruct (check_types cons (S i) r) as [[p|]|]; auto.
           ++ destruct IH as (k & t' & a' & -> & H1 & H2 & H3). exists (S k), t', a'. repeat split; auto. lia.
           ++ intros k x H. destruct k; cbn in H.
              ** inversion H; subst. exists a. rewrite Nat.add_0_r. split; auto.
                 apply existsb_exists in X as (d & Id & Ed). apply dtype_eqb_eq in Ed. now subst.
              ** specialize (IH k x H). destruct x; auto. destruct IH as (a' & H1 & H2). exists a'. split; auto.
                 now replace (i + S k) with (S i + k) by lia.
        -- exists 0, t, a. rewrite Nat.add_0_r. repeat split; auto. intro I.
           assert (existsb (dtype_eqb (dt t)) a = true); [|congruence].
           apply existsb_exists. exists (dt t). split; auto. now apply dtype_eqb_eq.
      * apply nth_error_None in E. cbn in L. lia.
    + specialize (IH (S i) ltac:(cbn in L; lia)). destruct (check_types cons (S i) r) as [[p|]|]; auto.
      * destruct IH as (k & t' & a' & -> & H1 & H2 & H3). exists (S k), t', a'. repeat split; auto. lia.
      * intros k x H. destruct k; cbn in H.
        -- inversion H; subst. exact I.
        -- specialize (IH k x H). destruct x; auto. destruct IH as (a' & H1 & H2). exists a'. split; auto.
           now replace (i + S k) with (S i + k) by lia.
Qed.

(* the property, for every well-formed operator description and every input list *)
Theorem validate_spec (o : opinfo) (ins : list (option T)) : wf_info o = true ->
  match validate o ins with
  | GPanic => False
  | GErrCount => ~ count_ok o (List.length ins)
  | GErrType p => count_ok o (List.length ins) /\
        exists t a, nth_error ins p = Some (Some t) /\ nth_error (o_cons o) p = Some a /\ ~ In (dt t) a
  | GOk out => count_ok o (List.length ins) /\ out = ins ++ repeat None (o_max o - List.length ins) /\
        forall k x, nth_error ins k = Some x -> type_ok_at o k x
  end.
Proof.
  unfold wf_info, validate, check_n, count_ok. intros W. apply andb_true_iff in W as [W1 W2].
  apply Nat.leb_le in W1, W2.
  destruct (o_min o =? o_max o) eqn:E.
  - apply Nat.eqb_eq in E. destruct (List.length ins =? o_min o) eqn:E2.
    + apply Nat.eqb_eq in E2.
      assert (P : pad ins (o_min o) = ins ++ repeat None (o_max o - List.length ins)) by (unfold pad; now rewrite <- E).
      pose proof (check_types_spec (o_cons o) 0 (pad ins (o_min o))) as H.
      assert (L : List.length (pad ins (o_min o)) + 0 <= List.length (o_cons o)).
      { unfold pad. rewrite app_length, repeat_length. lia. }
      specialize (H L). destruct (check_types (o_cons o) 0 (pad ins (o_min o))) as [[p|]|]; auto.
      * destruct H as (k & t & a & -> & H1 & H2 & H3). split; [lia|]. exists t, a. repeat split; auto.
        unfold pad in H1. rewrite E2, Nat.sub_diag in H1. cbn in H1. now rewrite app_nil_r in H1.
      * split; [lia|]. split; [exact P|]. intros k x Hk. unfold type_ok_at.
        specialize (H k x). cbn in H. apply H. unfold pad. rewrite nth_error_app1; auto.
        apply nth_error_Some. congruence.
    + apply Nat.eqb_neq in E2. lia.
  - apply Nat.eqb_neq in E.
    destruct ((List.length ins <? o_min o) || (o_max o <? List.length ins)) eqn:E2.
    + apply orb_true_iff in E2 as [E2|E2]; apply Nat.ltb_lt in E2; lia.
    + apply orb_false_iff in E2 as [E2 E3]. apply Nat.ltb_ge in E2, E3.
      pose proof (check_types_spec (o_cons o) 0 (pad ins (o_max o))) as H.
      assert (L : List.length (pad ins (o_max o)) + 0 <= List.length (o_cons o)).
      { unfold pad. rewrite app_length, repeat_length. lia. }
      specialize (H L). destruct (check_types (o_cons o) 0 (pad ins (o_max o))) as [[p|]|]; auto.
      * destruct H as (k & t & a & -> & H1 & H2 & H3). split; [lia|]. exists t, a. repeat split; auto.
        unfold pad in H1. destruct (Nat.lt_ge_cases k (List.length ins)) as [Lk|Lk].
        -- now rewrite nth_error_app1 in H1.
        -- rewrite nth_error_app2 in H1 by exact Lk. exfalso.
           assert (In (Some t) (repeat None (o_max o - List.length ins))) by (eapply nth_error_In; eauto).
           apply repeat_spec in H. discriminate.
      * split; [lia|]. split; [reflexivity|]. intros k x Hk. unfold type_ok_at.
        specialize (H k x). cbn in H. apply H. unfold pad. rewrite nth_error_app1; auto.
        apply nth_error_Some. congruence.
Qed.

(* the side condition is necessary: a constraint list shorter than the maximum makes the gate itself crash *)
Theorem short_constraints_panic (o : opinfo) (t : T) :
  o_min o <= o_max o -> List.length (o_cons o) < o_max o ->
  (forall k a, nth_error (o_cons o) k = Some a -> In (dt t) a) ->
  validate o (repeat (Some t) (o_max o)) = GPanic.
Proof.
  intros W S A. unfold validate, check_n. rewrite repeat_length.
  assert (C : (if o_min o =? o_max o then if o_max o =? o_min o then Some (o_min o) else None
               else if (o_max o <? o_min o) || (o_max o <? o_max o) then None else Some (o_max o)) = Some (o_max o)).
  { destruct (o_min o =? o_max o) eqn:E.
    - apply Nat.eqb_eq in E. rewrite <- E, Nat.eqb_refl. reflexivity.
    - replace (o_max o <? o_min o) with false by (symmetry; apply Nat.ltb_ge; lia).
      now rewrite Nat.ltb_irrefl. }
  rewrite C. unfold pad. rewrite repeat_length, Nat.sub_diag. cbn [repeat]. rewrite app_nil_r.
  assert (G : forall n i, i + n = o_max o -> i <= List.length (o_cons o) -> List.length (o_cons o) < i + n ->
              check_types (o_cons o) i (repeat (Some t) n) = None).
  { induction n as [|n IH]; intros i E L1 L2; [lia|]. cbn [repeat check_types].
    destruct (nth_error (o_cons o) i) as [a|] eqn:N; [|reflexivity].
    assert (X : existsb (dtype_eqb (dt t)) a = true).
    { apply existsb_exists. exists (dt t). split; [eapply A; eauto|now apply dtype_eqb_eq]. }
    rewrite X. apply IH; try lia. apply nth_error_Some. congruence. }
  rewrite (G (o_max o) 0); auto; lia.
Qed.

(* ---- Concat: the dynamic gate accepts every list of at least o_min tensors, of any dtype ---- *)
Lemma concat_info_wf o n : o_min o <= n -> wf_info (concat_info o n) = true.
Proof.
  intros H. unfold wf_info, concat_info; cbn. rewrite repeat_length.
  apply andb_true_iff; split; now apply Nat.leb_le.
Qed.

Theorem validate_concat_spec o ins :
  match validate_concat T dt o ins with
  | GOk out => o_min o <= List.length ins /\ out = ins
  | GErrCount => List.length ins < o_min o
  | GErrType _ => False
  | GPanic => False
  end.
Proof.
  unfold validate_concat.
  destruct (le_lt_dec (o_min o) (List.length ins)) as [L|L].
  - pose proof (validate_spec (concat_info o (List.length ins)) ins (concat_info_wf _ _ L)) as H.
    destruct (validate (concat_info o (List.length ins)) ins) as [out| |p|]; auto.
    + destruct H as (_ & -> & _). cbn. rewrite Nat.sub_diag. cbn. now rewrite app_nil_r.
    + exfalso. apply H. unfold count_ok; cbn. lia.
    + destruct H as (_ & t & a & H1 & H2 & H3). cbn in H2.
      assert (a = all_dtypes).
      { apply nth_error_In in H2. now apply repeat_spec in H2. }
      subst. apply H3, all_dtypes_complete.
  - unfold Gate.validate, check_n; cbn [concat_info o_min o_max o_cons].
    destruct (o_min o =? List.length ins) eqn:E; [apply Nat.eqb_eq in E; lia|].
    assert (X : (List.length ins <? o_min o) = true) by now apply Nat.ltb_lt.
    rewrite X. cbn [orb]. exact L.
Qed.

(* ---- PRelu: generic gate, then dtype equality; with both tensors present it never panics ---- *)
Theorem validate_prelu_spec o ins :
  wf_info o = true -> o_min o = 2 -> o_max o = 2 ->
  (forall x, In x ins -> x <> None) ->
  match validate_prelu T dt o ins with
  | PPanic _ => False
  | PGate _ GPanic => False
  | PGate _ (GOk _) => False
  | PGate _ GErrCount => List.length ins <> 2
  | PGate _ (GErrType p) => exists t a, nth_error ins p = Some (Some t) /\ nth_error (o_cons o) p = Some a /\ ~ In (dt t) a
  | PErrMismatch _ => exists x s, ins = [Some x; Some s] /\ dt x <> dt s
  | POk _ out => out = ins /\ exists x s, ins = [Some x; Some s] /\ dt x = dt s
  end.
Proof.
  intros W Hmin Hmax Hnn. unfold validate_prelu.
  pose proof (validate_spec o ins W) as H.
  destruct (validate o ins) as [out| |p|] eqn:V; auto.
  - destruct H as ((L1 & L2) & -> & _). rewrite Hmin in L1. rewrite Hmax in L2.
    assert (L : List.length ins = 2) by lia. rewrite Hmax, L. cbn. rewrite app_nil_r.
    destruct ins as [|a [|b [|c r]]]; try discriminate.
    destruct a as [x|]; [|exfalso; apply (Hnn None); cbn; auto].
    destruct b as [s|]; [|exfalso; apply (Hnn None); cbn; auto].
    destruct (dtype_eqb (dt x) (dt s)) eqn:E.
    + split; auto. exists x, s. split; auto. now apply dtype_eqb_eq.
    + exists x, s. split; auto. intro Q. apply dtype_eqb_eq in Q. congruence.
  - unfold count_ok in H. lia.
  - destruct H as (_ & t & a & H). eauto.
Qed.
End GateProofs.

(* ---- registry ---- *)
Section RegistryProofs.
Variable St : Type.
Variable init_state : string -> St.
Notation get_operator := (get_operator St init_state).

Lemma lookup_name_In names n : lookup_name names n = true <-> In n names.
Proof.
  unfold lookup_name. rewrite existsb_exists. split.
  - intros (x & I & E). apply String.eqb_eq in E. now subst.
  - intros I. exists n. split; auto. apply String.eqb_refl.
Qed.

(* every listed name resolves; any other name is refused *)
Theorem get_operator_resolves names r n :
  (In n names -> exists i, snd (get_operator names r n) = Some i) /\
  (~ In n names -> get_operator names r n = (r, None)).
Proof.
  unfold Gate.get_operator. split; intros H.
  - apply lookup_name_In in H. rewrite H. cbn. eauto.
  - destruct (lookup_name names n) eqn:E; auto. apply lookup_name_In in E. contradiction.
Qed.

(* invariant of every reachable registry: ids at or above next_id are unused *)
Definition reg_inv (r : registry St) : Prop := forall i, next_id St r <= i -> store St r i = None.

Lemma reg0_inv : reg_inv (reg0 St).
Proof. intros i _. reflexivity. Qed.

Lemma get_operator_inv names r n : reg_inv r -> reg_inv (fst (get_operator names r n)).
Proof.
  unfold Gate.get_operator, reg_inv. intros I. destruct (lookup_name names n); cbn; auto.
  intros i L. destruct (Nat.eqb_spec i (next_id St r)); [lia|]. apply I. lia.
Qed.

Lemma write_state_inv r i s : reg_inv r -> reg_inv (write_state St r i s).
Proof.
  unfold reg_inv, write_state; cbn. intros I j L. destruct (Nat.eqb j i); [|auto]. now rewrite (I j L).
Qed.

(* a lookup returns a NEW instance carrying the constructor's state, and disturbs no other *)
Theorem get_operator_fresh names r n i :
  reg_inv r -> get_operator names r n = (fst (get_operator names r n), Some i) ->
  store St r i = None /\
  read_state St (fst (get_operator names r n)) i = Some (init_state n) /\
  forall j, j <> i -> store St (fst (get_operator names r n)) j = store St r j.
Proof.
  unfold Gate.get_operator, read_state. intros I. destruct (lookup_name names n); cbn; [|discriminate].
  intros E. inversion E; subst. split; [apply I; lia|]. rewrite Nat.eqb_refl. split; auto.
  intros j N. destruct (Nat.eqb_spec j (next_id St r)); congruence.
Qed.

(* a write through one instance is invisible through every other instance *)
Theorem write_state_isolated r i j s : i <> j -> read_state St (write_state St r i s) j = read_state St r j.
Proof.
  unfold read_state, write_state; cbn. intros N. destruct (Nat.eqb_spec j i); congruence.
Qed.

Theorem write_state_read r i s : store St r i <> None -> read_state St (write_state St r i s) i = Some s.
Proof.
  unfold read_state, write_state; cbn. rewrite Nat.eqb_refl. destruct (store St r i); [reflexivity|congruence].
Qed.

(* Hence: the state seen by instance j is independent of every earlier or later lookup and of
   everything done to the instances those lookups return. One step: *)
Inductive reg_op := RLookup (n : string) | RWrite (i : nat) (s : St).
Definition reg_step names (r : registry St) (o : reg_op) : registry St :=
  match o with RLookup n => fst (get_operator names r n) | RWrite i s => write_state St r i s end.

Theorem instance_state_independent names (ops : list reg_op) r j :
  reg_inv r -> store St r j <> None ->
  (forall s, ~ In (RWrite j s) ops) ->
  read_state St (fold_left (reg_step names) ops r) j = read_state St r j.
Proof.
  revert r. induction ops as [|o ops IH]; intros r I E N; cbn [fold_left]; [reflexivity|].
  assert (N' : forall s, ~ In (RWrite j s) ops) by (intros s H; apply (N s); now right).
  destruct o as [n|i s]; cbn [reg_step].
  - rewrite IH; auto using get_operator_inv.
    + unfold Gate.get_operator, read_state. destruct (lookup_name names n); cbn; auto.
      destruct (Nat.eqb_spec j (next_id St r)); auto. subst. exfalso. apply E, I. lia.
    + unfold Gate.get_operator. destruct (lookup_name names n); cbn; auto.
      destruct (Nat.eqb_spec j (next_id St r)); auto. discriminate.
  - assert (i <> j) by (intros ->; apply (N s); now left).
    rewrite IH; auto using write_state_inv.
    + now apply write_state_isolated.
    + unfold write_state; cbn. destruct (Nat.eqb_spec j i); [congruence|auto].
Qed.
End RegistryProofs.

(* With a registry that caches one instance per name the independence theorem is false:
   the statement is about something. *)
Example cached_registry_refuted :
  let names := ["Conv"%string] in
  let idx := fun _ : string => 0 in
  let '(r1, a) := get_operator_cached nat (fun _ => 0) names idx (reg0 nat) "Conv" in
  let '(r2, b) := get_operator_cached nat (fun _ => 0) names idx r1 "Conv" in
  let r3 := write_state nat r2 0 7 in
  a = b /\ read_state nat r3 0 = Some 7 /\ read_state nat r2 0 = Some 0.
Proof. vm_compute. repeat split. Qed.
