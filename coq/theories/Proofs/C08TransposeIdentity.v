(* C08: the identity permutation leaves a well-formed tensor unchanged -- S's Transpose value for
   perm = [0; 1; ...; r-1] is the input itself (shape, element type, every element), any rank *)
From Coq Require Import List ZArith Bool Lia String Arith.
From V Require Import DType Tensor Case Slice Broadcast IndexOps C08TransposeFormula.
Import ListNotations.
Local Open Scope nat_scope.

Lemma map_nthz_seq (s : list nat) : map (nthz s) (seq 0 (List.length s)) = s.
Proof.
  apply nth_ext with (d := nthz s 0) (d' := 0); [now rewrite map_length, seq_length|].
  intros n Hn. rewrite map_length, seq_length in Hn. rewrite map_nth, seq_nth by exact Hn. reflexivity.
Qed.

Lemma transpose_idx_identity r i : List.length i = r -> transpose_idx (seq 0 r) r i = i.
Proof.
  intros Hl. apply nth_ext with (d := 0) (d' := 0).
  - unfold transpose_idx. now rewrite map_length, seq_length.
  - intros k Hk. unfold transpose_idx in Hk. rewrite map_length, seq_length in Hk.
    pose proof (transpose_idx_formula (seq 0 r) r i k (seq_length r 0) (seq_NoDup r 0)) as H.
    rewrite seq_nth in H by exact Hk. cbn [plus] in H. apply H; [|exact Hk].
    intros a Ha. apply in_seq in Ha. lia.
Qed.

Lemma transpose_identity t : List.length (pl t) = numel (sh t) ->
  transpose_value t (seq 0 (List.length (sh t))) = t.
Proof.
  intros Hw. unfold transpose_value, of_tensor. rewrite map_nthz_seq.
  assert (Ht : tabulate (sh t) (fun i => get 0%Z (tz t) (transpose_idx (seq 0 (List.length (sh t))) (List.length (sh t)) i)) = tz t).
  { apply (tensor_ext 0%Z); [apply wf_tabulate|exact Hw|reflexivity|].
    intros i Hv. cbn [tshape tabulate] in Hv. rewrite get_tabulate by exact Hv.
    rewrite transpose_idx_identity; [reflexivity|]. now apply valid_length in Hv. }
  rewrite Ht. destruct t; reflexivity.
Qed.
