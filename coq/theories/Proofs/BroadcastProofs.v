(* Proofs about the broadcast model: the repeat loops implement ONNX broadcasting. *)
From Coq Require Import List Arith Lia PeanoNat Bool.
From V Require Import Tensor ListUtil Case Repeat Reshape Broadcast BroadcastSpec.
Import ListNotations.

Section P.
Context {A : Type} (d : A).
Notation tensor := (tensor A).
Notation g_repeat := (g_repeat d).
Notation step := (step d).
Notation loop := (loop d).
Notation repeat_multidir := (repeat_multidir d).

Lemma pin_length s i : length i = length s -> length (pin s i) = length s.
Proof. revert i; induction s as [|x s IH]; intros [|k i]; cbn; intros; try lia. rewrite IH; lia. Qed.

Lemma nth_pin s i k : length i = length s -> k < length s ->
  nth k (pin s i) 0 = if nth k s 0 =? 1 then 0 else nth k i 0.
Proof.
  revert i k; induction s as [|x s IH]; intros [|y i] k Hl Hk; cbn in *; try lia.
  destruct k; [destruct (x =? 1); reflexivity|]. apply IH; lia.
Qed.

(* invariant for one operand: own original shape s, the other's shape o,
   axes >= m already processed *)
Definition InvT (s o : shape) (t0 tc : tensor) (m : nat) : Prop :=
  length (tshape tc) = length s /\
  (forall k, k < length s ->
     nth k (tshape tc) 0 = if m <=? k then bdim (nth k s 0) (nth k o 0) else nth k s 0) /\
  (forall i, valid (tshape tc) i -> get d tc i = get d t0 (pin s i)).

Lemma InvT_keep s o t0 tc m :
  m < length s -> InvT s o t0 tc (S m) ->
  bdim (nth m s 0) (nth m o 0) = nth m s 0 -> InvT s o t0 tc m.
Proof.
  intros Hm (Hl & Hs & Hg) Hb. split; [exact Hl|split; [|exact Hg]].
  intros k Hk. rewrite (Hs k Hk).
  destruct (Nat.eq_dec k m) as [->|Hne].
  - rewrite Nat.leb_refl. replace (S m <=? m) with false by (symmetry; apply Nat.leb_gt; lia). now rewrite Hb.
  - destruct (S m <=? k) eqn:E1, (m <=? k) eqn:E2; try reflexivity;
      apply Nat.leb_le in E1 || apply Nat.leb_gt in E1; apply Nat.leb_le in E2 || apply Nat.leb_gt in E2; lia.
Qed.

Lemma InvT_stretch s o t0 tc m n :
  m < length s -> InvT s o t0 tc (S m) -> nth m s 0 = 1 -> nth m o 0 = n ->
  InvT s o t0 (g_repeat tc m n) m.
Proof.
  intros Hm (Hl & Hs & Hg) H1 Hn. unfold g_repeat.
  assert (Hcur : nth m (tshape tc) 0 = 1).
  { rewrite (Hs m Hm). replace (S m <=? m) with false by (symmetry; apply Nat.leb_gt; lia). exact H1. }
  split; [cbn; now rewrite upd_length|]. split.
  - intros k Hk. cbn [tshape tabulate]. rewrite nth_upd, Hl.
    destruct (Nat.eq_dec k m) as [->|Hne].
    + rewrite Nat.eqb_refl. replace (m <? length s) with true by (symmetry; apply Nat.ltb_lt; lia).
      cbn [andb]. rewrite Nat.leb_refl, Hcur. unfold bdim. rewrite H1, Hn. cbn. lia.
    + replace (k =? m) with false by (symmetry; apply Nat.eqb_neq; exact Hne). cbn [andb].
      rewrite (Hs k Hk).
      destruct (S m <=? k) eqn:E1, (m <=? k) eqn:E2; try reflexivity;
        apply Nat.leb_le in E1 || apply Nat.leb_gt in E1; apply Nat.leb_le in E2 || apply Nat.leb_gt in E2; lia.
  - intros i Hv. cbn [tshape tabulate] in Hv. rewrite get_tabulate by exact Hv.
    apply valid_nth in Hv. destruct Hv as [Hli Hvi]. rewrite upd_length in Hli, Hvi.
    assert (Him : nth m i 0 < n).
    { specialize (Hvi m ltac:(lia)). rewrite nth_upd, Nat.eqb_refl, Hl in Hvi.
      replace (m <? length s) with true in Hvi by (symmetry; apply Nat.ltb_lt; lia). cbn in Hvi. lia. }
    rewrite Nat.div_small by exact Him.
    rewrite Hg.
    + f_equal. apply list_ext_nth.
      * rewrite !pin_length; rewrite ?upd_length; lia.
      * rewrite pin_length by (rewrite upd_length; lia). intros k Hk.
        rewrite !nth_pin by (rewrite ?upd_length; lia). rewrite nth_upd.
        destruct (Nat.eq_dec k m) as [->|Hne].
        -- now rewrite H1.
        -- replace (k =? m) with false by (symmetry; apply Nat.eqb_neq; exact Hne). reflexivity.
    + apply valid_nth. rewrite upd_length. split; [lia|]. intros k Hk. rewrite nth_upd.
      destruct (Nat.eq_dec k m) as [->|Hne].
      * rewrite Nat.eqb_refl. replace (m <? length i) with true by (symmetry; apply Nat.ltb_lt; lia). cbn. lia.
      * replace (k =? m) with false by (symmetry; apply Nat.eqb_neq; exact Hne). cbn [andb].
        specialize (Hvi k ltac:(lia)). rewrite nth_upd in Hvi.
        replace (k =? m) with false in Hvi by (symmetry; apply Nat.eqb_neq; exact Hne). exact Hvi.
Qed.

Lemma InvT_init s o t0 : tshape t0 = s -> (forall k, k < length s -> 1 <= nth k s 0) -> InvT s o t0 t0 (length s).
Proof.
  intros <- Hpos. split; [reflexivity|split].
  - intros k Hk. replace (length (tshape t0) <=? k) with false by (symmetry; apply Nat.leb_gt; lia). reflexivity.
  - intros i Hv. f_equal. apply valid_nth in Hv. destruct Hv as [Hl Hn]. apply list_ext_nth.
    + now rewrite pin_length.
    + intros k Hk. rewrite nth_pin by lia. destruct (nth k (tshape t0) 0 =? 1) eqn:E; [|reflexivity].
      apply Nat.eqb_eq in E. specialize (Hn k ltac:(lia)). lia.
Qed.

Definition all_compat (sa sb : shape) (m : nat) : Prop :=
  forall k, k < m -> compat (nth k sa 0) (nth k sb 0) = true.

Lemma loop_ok sa sb a0 b0 m a b :
  length sa = length sb -> m <= length sa ->
  InvT sa sb a0 a m -> InvT sb sa b0 b m -> all_compat sa sb m ->
  exists a' b', loop sa sb m (MOk (a, b)) = MOk (a', b') /\ InvT sa sb a0 a' 0 /\ InvT sb sa b0 b' 0.
Proof.
  intros Hlen. revert a b. induction m as [|m IH]; intros a b Hm Ia Ib Hc; cbn [loop].
  - eauto.
  - assert (Hcm : compat (nth m sa 0) (nth m sb 0) = true) by (apply Hc; lia).
    assert (Hc' : all_compat sa sb m) by (intros k Hk; apply Hc; lia).
    unfold step. unfold compat in Hcm.
    destruct (nth m sa 0 =? nth m sb 0) eqn:E1.
    { apply Nat.eqb_eq in E1. apply IH; [lia| | |exact Hc'].
      - apply InvT_keep; [lia|exact Ia|]. unfold bdim. rewrite <- E1. now destruct (nth m sa 0 =? 1) eqn:?.
      - apply InvT_keep; [lia|exact Ib|]. unfold bdim. rewrite E1. now destruct (nth m sb 0 =? 1) eqn:?. }
    destruct (nth m sa 0 =? 1) eqn:E2.
    { apply Nat.eqb_eq in E2. apply IH; [lia| | |exact Hc'].
      - apply InvT_stretch; [lia|exact Ia|exact E2|reflexivity].
      - apply InvT_keep; [lia|exact Ib|]. unfold bdim. destruct (nth m sb 0 =? 1) eqn:E3; [|reflexivity].
        apply Nat.eqb_eq in E3. apply Nat.eqb_neq in E1. lia. }
    destruct (nth m sb 0 =? 1) eqn:E3; [|cbn in Hcm; discriminate].
    apply Nat.eqb_eq in E3. apply IH; [lia| | |exact Hc'].
    + apply InvT_keep; [lia|exact Ia|]. unfold bdim. now rewrite E2.
    + apply InvT_stretch; [lia|exact Ib|exact E3|reflexivity].
Qed.

Lemma loop_err_stays sa sb m : loop sa sb m MErr = MErr.
Proof. induction m; cbn; auto. Qed.

Lemma loop_err sa sb a0 b0 m a b k :
  length sa = length sb -> m <= length sa ->
  InvT sa sb a0 a m -> InvT sb sa b0 b m ->
  k < m -> compat (nth k sa 0) (nth k sb 0) = false ->
  loop sa sb m (MOk (a, b)) = MErr.
Proof.
  intros Hlen. revert a b. induction m as [|m IH]; intros a b Hm Ia Ib Hk Hc; [lia|]. cbn [loop].
  destruct (Nat.eq_dec k m) as [->|Hne].
  - unfold step, compat in *. apply orb_false_elim in Hc as [Hc H3]. apply orb_false_elim in Hc as [H1 H2].
    rewrite H1, H2, H3. apply loop_err_stays.
  - unfold step.
    destruct (nth m sa 0 =? nth m sb 0) eqn:E1.
    { apply Nat.eqb_eq in E1. apply IH; [lia| | |lia|exact Hc].
      - apply InvT_keep; [lia|exact Ia|]. unfold bdim. rewrite <- E1. now destruct (nth m sa 0 =? 1) eqn:?.
      - apply InvT_keep; [lia|exact Ib|]. unfold bdim. rewrite E1. now destruct (nth m sb 0 =? 1) eqn:?. }
    destruct (nth m sa 0 =? 1) eqn:E2.
    { apply Nat.eqb_eq in E2. apply IH; [lia| | |lia|exact Hc].
      - apply InvT_stretch; [lia|exact Ia|exact E2|reflexivity].
      - apply InvT_keep; [lia|exact Ib|]. unfold bdim. destruct (nth m sb 0 =? 1) eqn:E3; [|reflexivity].
        apply Nat.eqb_eq in E3. apply Nat.eqb_neq in E1. lia. }
    destruct (nth m sb 0 =? 1) eqn:E3; [|apply loop_err_stays].
    apply Nat.eqb_eq in E3. apply IH; [lia| | |lia|exact Hc].
    + apply InvT_keep; [lia|exact Ia|]. unfold bdim. now rewrite E2.
    + apply InvT_stretch; [lia|exact Ib|exact E3|reflexivity].
Qed.

Definition positive (s : shape) := forall k, k < length s -> 1 <= nth k s 0.

(* the property, equal-rank half: compatible <-> Ok, and then shape and every element *)
Theorem repeat_multidir_ok a b :
  length (tshape a) = length (tshape b) -> positive (tshape a) -> positive (tshape b) ->
  all_compat (tshape a) (tshape b) (length (tshape a)) ->
  exists a' b', repeat_multidir a b = MOk (a', b') /\
    length (tshape a') = length (tshape a) /\ length (tshape b') = length (tshape a) /\
    (forall k, k < length (tshape a) ->
        nth k (tshape a') 0 = bdim (nth k (tshape a) 0) (nth k (tshape b) 0) /\
        nth k (tshape b') 0 = bdim (nth k (tshape b) 0) (nth k (tshape a) 0)) /\
    (forall i, valid (tshape a') i -> get d a' i = get d a (pin (tshape a) i)) /\
    (forall i, valid (tshape b') i -> get d b' i = get d b (pin (tshape b) i)).
Proof.
  intros Hl Pa Pb Hc. unfold repeat_multidir.
  destruct (loop_ok (tshape a) (tshape b) a b (length (tshape a)) a b Hl (le_n _)) as (a' & b' & E & Ia & Ib).
  - apply InvT_init; auto.
  - rewrite Hl. apply InvT_init; auto.
  - exact Hc.
  - exists a', b'. destruct Ia as (La & Sa & Ga), Ib as (Lb & Sb & Gb).
    repeat split; try assumption; try lia.
    + rewrite (Sa k H). reflexivity.
    + rewrite (Sb k ltac:(lia)). reflexivity.
Qed.

Theorem repeat_multidir_err a b k :
  length (tshape a) = length (tshape b) -> positive (tshape a) -> positive (tshape b) ->
  k < length (tshape a) -> compat (nth k (tshape a) 0) (nth k (tshape b) 0) = false ->
  repeat_multidir a b = MErr.
Proof.
  intros Hl Pa Pb Hk Hc. unfold repeat_multidir.
  eapply loop_err with (a0 := a) (b0 := b) (k := k); eauto.
  - apply InvT_init; auto.
  - rewrite Hl. apply InvT_init; auto.
Qed.

End P.
