(* C10: S judges a unary operator's result ELEMENT BY ELEMENT -- the frame (element type, shape) is
   the input's, and output element i is judged against input element i alone. Consequently the
   judgement is invariant under any reordering applied to both payloads (stated for reversal, which
   is what the harness observes of the implementation: `element_order_independence`). *)
From Coq Require Import List ZArith Bool String Lia.
From V Require Import DType Tensor Case OpCheck Ival CheckC10.
Import ListNotations.
Open Scope Z_scope.

Definition elem_judged (op : string) (w : fw) (xi oi : Z) : bool :=
  match unary_expect op w xi with Some e => elem_ok w oi e | None => false end.

Lemma all2_nth {X Y} (f : X -> Y -> bool) a b :
  all2 f a b = true <->
  List.length a = List.length b /\
  forall i x y, nth_error a i = Some x -> nth_error b i = Some y -> f x y = true.
Proof.
  unfold all2. rewrite andb_true_iff, Nat.eqb_eq, forallb_forall. split.
  - intros [Hl H]. split; [exact Hl|]. revert b Hl H.
    induction a as [|a0 a IH]; intros [|b0 b] Hl H i x y Hx Hy; cbn in Hl; try discriminate.
    + destruct i; discriminate.
    + destruct i as [|i]; cbn in Hx, Hy.
      * inversion Hx; inversion Hy; subst. apply (H (x, y)). left; reflexivity.
      * refine (IH b _ _ i x y Hx Hy); [lia|]. intros p Hp. apply H. right; exact Hp.
  - intros [Hl H]. split; [exact Hl|]. revert b Hl H.
    induction a as [|a0 a IH]; intros [|b0 b] Hl H p Hp; cbn in Hl, Hp; try discriminate; try contradiction.
    destruct Hp as [<-|Hp].
    + apply (H 0%nat); reflexivity.
    + refine (IH b _ _ p Hp); [lia|]. intros i x y Hx Hy. apply (H (S i)); assumption.
Qed.

Lemma all2_rev {X Y} (f : X -> Y -> bool) a b : all2 f (rev a) (rev b) = all2 f a b.
Proof.
  unfold all2. rewrite !rev_length.
  destruct (Nat.eqb (List.length a) (List.length b)) eqn:Hl; [|reflexivity]. cbn [andb].
  apply Nat.eqb_eq in Hl.
  assert (Hc : combine (rev a) (rev b) = rev (combine a b)).
  { revert b Hl. induction a as [|a0 a IH]; intros [|b0 b] Hl; cbn in Hl; try discriminate; [reflexivity|].
    cbn [rev combine]. rewrite <- IH by lia.
    clear IH. generalize (rev a) (rev b) (eq_trans (rev_length a) (eq_trans (f_equal pred Hl) (eq_sym (rev_length b)))).
    intros u. induction u as [|u0 u IH]; intros [|v0 v] Huv; cbn in Huv; try discriminate; [reflexivity|].
    cbn. f_equal. apply IH. lia. }
  rewrite Hc. apply eq_true_iff_eq. rewrite !forallb_forall. split; intros H p Hp; apply H.
  - apply in_rev. rewrite rev_involutive. exact Hp.
  - apply in_rev in Hp. exact Hp.
Qed.

(* what it means for S to accept a float result of a unary operator *)
Theorem judged_per_element op x o w :
  wf_tval x = true -> fw_of (dt x) = Some w ->
  (judge_unary op x (OOk [Some o]) = 0 <->
   dt o = dt x /\ sh o = sh x /\ List.length (pl o) = List.length (pl x) /\
   forall i xi oi, nth_error (pl x) i = Some xi -> nth_error (pl o) i = Some oi -> elem_judged op w xi oi = true).
Proof.
  intros Hwf Hw. unfold judge_unary. rewrite Hwf, Hw. cbn [negb].
  fold (elem_judged op w).
  destruct (same_frame x o) eqn:Hf; cbn [andb].
  - unfold same_frame in Hf. apply andb_true_iff in Hf as [Hf Hwo]. apply andb_true_iff in Hf as [Hd Hs].
    apply dtype_eqb_eq in Hd. apply (list_eqb_eq Nat.eqb Nat.eqb_eq) in Hs.
    destruct (all2 (elem_judged op w) (pl x) (pl o)) eqn:Ha.
    + split; [intros _|reflexivity]. apply all2_nth in Ha as [Hl H]. repeat split; auto.
    + split; [discriminate|]. intros (_ & _ & Hl & H). exfalso.
      assert (all2 (elem_judged op w) (pl x) (pl o) = true) by (apply all2_nth; split; [symmetry; exact Hl|exact H]).
      congruence.
  - split; [discriminate|]. intros (Hd & Hs & Hl & _). exfalso.
    unfold same_frame in Hf. rewrite Hd, Hs, dtype_eqb_refl in Hf.
    assert (Hss : list_eqb Nat.eqb (sh x) (sh x) = true) by (apply (list_eqb_eq Nat.eqb Nat.eqb_eq); reflexivity).
    rewrite Hss in Hf. cbn [andb] in Hf. unfold wf_tval in Hf, Hwf. rewrite Hs, Hl, Hwf in Hf. discriminate.
Qed.

Definition rev_payload (v : tval) : tval := {| dt := dt v; sh := sh v; pl := rev (pl v) |}.

Lemma same_frame_rev x o : same_frame (rev_payload x) (rev_payload o) = same_frame x o.
Proof. unfold same_frame, wf_tval, rev_payload. cbn [dt sh pl]. rewrite rev_length. reflexivity. Qed.

(* the judgement does not depend on the order of the elements *)
Theorem judged_order_independent op x o w :
  wf_tval x = true -> fw_of (dt x) = Some w ->
  judge_unary op (rev_payload x) (OOk [Some (rev_payload o)]) = judge_unary op x (OOk [Some o]).
Proof.
  intros Hwf Hw. unfold judge_unary.
  assert (Hwf' : wf_tval (rev_payload x) = true) by (unfold wf_tval, rev_payload in *; cbn [sh pl]; rewrite rev_length; exact Hwf).
  rewrite Hwf, Hwf'. cbn [negb]. change (dt (rev_payload x)) with (dt x). rewrite Hw.
  rewrite same_frame_rev.
  change (pl (rev_payload x)) with (rev (pl x)). change (pl (rev_payload o)) with (rev (pl o)).
  rewrite all2_rev. reflexivity.
Qed.
