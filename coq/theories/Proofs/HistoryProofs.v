(* Under the premise that every operator leaves its input objects as they were (pure_ops):
   - a Run over the object store computes what the pure Run model of C01 computes on the current
     values, and leaves every pre-existing object (caller tensors, weights) unchanged -- also
     when it fails half-way;
   - hence any history of Runs on one Model returns, call by call, what a freshly loaded Model
     returns for the same inputs (C02);
   - hence under ANY interleaving of the node steps of several Runs sharing the heap, each Run is
     in the state its own sequential execution would be in (C17, logical half). *)
From Coq Require Import List String Bool Arith ZArith Lia.
From V Require Import Run History.
Import ListNotations.
Open Scope string_scope.

Section P.
Variable T attrs : Type.
Variable shape_of : T -> list nat.
Variable op_sem : string -> attrs -> list (option T) -> xres (list (option T)).
Variable op_eff : string -> attrs -> list (option T) -> list (option T).
Variable supported : string -> bool.
Notation heap := (heap T).
Notation oenv := oenv.
Notation ostep := (ostep T attrs op_sem op_eff supported).
Notation orun_nodes := (orun_nodes T attrs op_sem op_eff supported).
Notation orun := (orun T attrs shape_of op_sem op_eff supported).
Notation orun_hist := (orun_hist T attrs shape_of op_sem op_eff supported).
Notation pure := (pure_ops T attrs op_eff).
Notation step := (step T attrs op_sem supported).
Notation run_nodes := (run_nodes T attrs op_sem supported).
Notation run_model := (run_model T attrs shape_of op_sem supported).

(* objects exist exactly below the allocation counter *)
Definition wf_heap (h : heap) : Prop :=
  forall i, (i < h_next T h -> h_obj T h i <> None) /\ (h_next T h <= i -> h_obj T h i = None).
Definition live_env (h : heap) (e : oenv) : Prop := forall n i, e n = Some (Some i) -> i < h_next T h.
Definition live_list (h : heap) (l : list (string * oid)) : Prop := forall n i, In (n, i) l -> i < h_next T h.
(* old objects are untouched, the heap only grows *)
Definition extends (h h' : heap) : Prop :=
  h_next T h <= h_next T h' /\ forall i, i < h_next T h -> h_obj T h' i = h_obj T h i.

(* the value environment an object environment denotes *)
Definition venv (h : heap) (e : oenv) : env T := fun n => option_map (deref T h) (e n).

(* agreement of an object-level outcome with a value-level outcome *)
Definition sim_env (h : heap) (r : xres oenv) (v : xres (env T)) : Prop :=
  match r, v with
  | XOk e, XOk ve => forall x, venv h e x = ve x
  | XErr k, XErr k' => k = k'
  | XPanic, XPanic => True
  | _, _ => False
  end.
Definition sim_out (h : heap) (r : xres (list (string * oid))) (v : xres (list (string * T))) : Prop :=
  match r, v with
  | XOk l, XOk vl => map (fun p => (fst p, h_obj T h (snd p))) l = map (fun p => (fst p, Some (snd p))) vl
  | XErr k, XErr k' => k = k'
  | XPanic, XPanic => True
  | _, _ => False
  end.


(* ---------- helper lemmas: heaps ---------- *)
(* pointwise equality of heaps (write builds a new closure, so Leibniz equality is not available) *)
Definition heq (h h' : heap) : Prop :=
  h_next T h' = h_next T h /\ forall i, h_obj T h' i = h_obj T h i.

Lemma heq_refl h : heq h h.
Proof. split; [reflexivity|]. intros i. reflexivity. Qed.

Lemma extends_refl h : extends h h.
Proof. split; [lia|]. intros i Hi. reflexivity. Qed.

Lemma extends_trans a b c : extends a b -> extends b c -> extends a c.
Proof.
  intros [L1 O1] [L2 O2]. split; [lia|].
  intros i Hi. rewrite O2 by lia. apply O1. exact Hi.
Qed.

Lemma heq_extends h h' : heq h h' -> extends h h'.
Proof. intros [N O]. split; [lia|]. intros i Hi. apply O. Qed.

Lemma heq_wf h h' : heq h h' -> wf_heap h -> wf_heap h'.
Proof. intros [N O] W i. rewrite N, O. apply W. Qed.

Lemma live_env_extends h h' e : extends h h' -> live_env h e -> live_env h' e.
Proof. intros [N O] L n i E. pose proof (L n i E) as Hi. lia. Qed.

Lemma live_list_extends h h' l : extends h h' -> live_list h l -> live_list h' l.
Proof. intros [N O] L n i E. pose proof (L n i E) as Hi. lia. Qed.

Lemma venv_extends h h' e : extends h h' -> live_env h e -> forall x, venv h' e x = venv h e x.
Proof.
  intros [N O] L x. unfold venv.
  destruct (e x) as [[i|]|] eqn:E; cbn; try reflexivity.
  f_equal. apply O. exact (L x i E).
Qed.

(* writing back the values just read leaves the heap pointwise unchanged *)
Lemma write_all_same h ids :
  forall h', heq h h' -> heq h (write_all T h' ids (map (deref T h) ids)).
Proof.
  induction ids as [|o r IH]; intros h' Hq; cbn; [exact Hq|].
  apply IH. destruct Hq as [N O].
  destruct o as [i|]; cbn; [|split; assumption].
  destruct (h_obj T h i) as [v|] eqn:E; cbn; [|split; assumption].
  split; [exact N|]. intros j. cbn.
  destruct (Nat.eqb j i) eqn:J; [|apply O].
  apply Nat.eqb_eq in J. subst j. symmetry. exact E.
Qed.

Lemma alloc_spec h t h1 o :
  alloc T h t = (h1, o) ->
  extends h h1 /\ (wf_heap h -> wf_heap h1) /\ deref T h1 o = t /\
  (forall i, o = Some i -> i < h_next T h1).
Proof.
  intros H. destruct t as [v|]; cbn in H; inversion H; subst; clear H.
  - split; [|split; [|split]].
    + split; cbn; [lia|]. intros i Hi.
      destruct (Nat.eqb i (h_next T h)) eqn:E; [|reflexivity].
      apply Nat.eqb_eq in E. lia.
    + intros W i. cbn.
      destruct (Nat.eqb i (h_next T h)) eqn:E.
      * apply Nat.eqb_eq in E. subst i. split; [discriminate|lia].
      * apply Nat.eqb_neq in E. destruct (W i) as [W1 W2].
        split; intros Hi; [apply W1; lia|apply W2; lia].
    + cbn. rewrite Nat.eqb_refl. reflexivity.
    + intros i Hi. inversion Hi; subst. cbn. lia.
  - split; [apply extends_refl|]. split; [auto|]. split; [reflexivity|].
    intros i Hi. discriminate.
Qed.

Lemma alloc_all_spec outs :
  forall h h2 oids, alloc_all T h outs = (h2, oids) ->
  extends h h2 /\ (wf_heap h -> wf_heap h2) /\ map (deref T h2) oids = outs /\
  (forall i, In (Some i) oids -> i < h_next T h2).
Proof.
  induction outs as [|t r IH]; intros h h2 oids H; cbn in H.
  - inversion H; subst. split; [apply extends_refl|]. split; [auto|]. split; [reflexivity|].
    intros i [].
  - destruct (alloc T h t) as [h1 o] eqn:A.
    destruct (alloc_all T h1 r) as [h2' os] eqn:AA.
    inversion H; subst; clear H.
    destruct (alloc_spec _ _ _ _ A) as (E1 & W1 & D1 & L1).
    destruct (IH _ _ _ AA) as (E2 & W2 & D2 & L2).
    split; [eapply extends_trans; eassumption|].
    split; [auto|]. split.
    + cbn. rewrite D2. f_equal.
      destruct o as [i|]; [|exact D1]. cbn in *.
      destruct E2 as [_ O2]. rewrite O2; [exact D1|]. apply L1. reflexivity.
    + intros i [Hi|Hi]; [|apply L2; exact Hi].
      destruct E2 as [N2 _]. pose proof (L1 i Hi). lia.
Qed.

(* ---------- helper lemmas: environments, pointwise ---------- *)
Definition xenv_eq (a b : xres (env T)) : Prop :=
  match a, b with
  | XOk x, XOk y => forall n, x n = y n
  | XErr k, XErr k' => k = k'
  | XPanic, XPanic => True
  | _, _ => False
  end.

Lemma gather_ext (e e' : env T) names :
  (forall x, e x = e' x) -> gather T e names = gather T e' names.
Proof.
  intros HE. induction names as [|n r IH]; cbn; [reflexivity|].
  rewrite IH, (HE n). reflexivity.
Qed.

Lemma bindout_ext names :
  forall (e e' : env T) outs, (forall x, e x = e' x) ->
  forall x, bindout T e names outs x = bindout T e' names outs x.
Proof.
  induction names as [|n ns IH]; intros e e' outs HE x; cbn; [apply HE|].
  destruct outs as [|t ts]; [apply HE|].
  apply IH. intros y. unfold upd. destruct (String.eqb y n); [reflexivity|apply HE].
Qed.

Lemma step_ext (e e' : env T) n :
  (forall x, e x = e' x) -> xenv_eq (step e n) (step e' n).
Proof.
  intros HE. unfold Run.step.
  destruct (supported (n_op n)); [|reflexivity].
  rewrite (gather_ext e e' _ HE).
  destruct (gather T e' (n_in n)) as [ins|k|]; cbn; [|reflexivity|exact I].
  destruct (op_sem (n_op n) (n_attrs n) ins) as [outs|k|]; cbn; [|reflexivity|exact I].
  destruct (Nat.eqb (List.length (n_out n)) (List.length outs)); cbn; [|reflexivity].
  apply bindout_ext. exact HE.
Qed.

Lemma run_nodes_ext ns :
  forall (e e' : env T), (forall x, e x = e' x) -> xenv_eq (run_nodes e ns) (run_nodes e' ns).
Proof.
  induction ns as [|n r IH]; intros e e' HE; cbn; [exact HE|].
  pose proof (step_ext e e' n HE) as S.
  destruct (step e n) as [a|k|], (step e' n) as [b|k'|]; cbn in *; try contradiction.
  - apply IH. exact S.
  - exact S.
  - exact I.
Qed.

Lemma sim_env_trans h r a b : sim_env h r a -> xenv_eq a b -> sim_env h r b.
Proof.
  unfold sim_env, xenv_eq.
  destruct r as [e|k|], a as [x|k1|], b as [y|k2|]; try contradiction; auto.
  - intros H1 H2 n. rewrite H1. apply H2.
  - intros H1 H2. congruence.
Qed.

Lemma ogather_gather h e names :
  gather T (venv h e) names =
  match ogather e names with
  | XOk ids => XOk (map (deref T h) ids) | XErr k => XErr k | XPanic => XPanic
  end.
Proof.
  induction names as [|n r IH]; cbn; [reflexivity|].
  destruct (String.eqb n "").
  - rewrite IH. destruct (ogather e r); reflexivity.
  - unfold venv in *. destruct (e n) as [o|]; cbn; [|reflexivity].
    rewrite IH. destruct (ogather e r); reflexivity.
Qed.

Lemma venv_obindout h names :
  forall e oids x,
  venv h (obindout e names oids) x = bindout T (venv h e) names (map (deref T h) oids) x.
Proof.
  induction names as [|n ns IH]; intros e oids x; cbn; [reflexivity|].
  destruct oids as [|o os]; cbn; [reflexivity|].
  rewrite IH. apply bindout_ext. intros y. unfold venv, oupd, upd.
  destruct (String.eqb y n); reflexivity.
Qed.

Lemma live_obindout h names :
  forall e oids, live_env h e -> (forall i, In (Some i) oids -> i < h_next T h) ->
  live_env h (obindout e names oids).
Proof.
  induction names as [|a ns IH]; intros e oids L Lo; cbn; [exact L|].
  destruct oids as [|o os]; [exact L|].
  apply IH.
  - intros m i. unfold oupd. destruct (String.eqb m a).
    + intros E. inversion E; subst. apply Lo. now left.
    + apply L.
  - intros i Hi. apply Lo. now right.
Qed.

(* TARGET 1: one node step *)
Theorem ostep_pure h e n h' r :
  pure -> wf_heap h -> live_env h e -> ostep h e n = (h', r) ->
  extends h h' /\ wf_heap h' /\ (forall e', r = XOk e' -> live_env h' e') /\
  sim_env h' r (step (venv h e) n).
Proof.
  intros P W L H. unfold History.ostep in H. unfold Run.step.
  destruct (supported (n_op n)) eqn:S.
  2:{ inversion H; subst. split; [apply extends_refl|]. split; [exact W|].
      split; [intros e' Q; discriminate|reflexivity]. }
  rewrite ogather_gather.
  destruct (ogather e (n_in n)) as [ids|k|] eqn:G.
  2:{ inversion H; subst. split; [apply extends_refl|]. split; [exact W|].
      split; [intros e' Q; discriminate|reflexivity]. }
  2:{ inversion H; subst. split; [apply extends_refl|]. split; [exact W|].
      split; [intros e' Q; discriminate|exact I]. }
  rewrite (P (n_op n) (n_attrs n) (map (deref T h) ids)) in H.
  pose proof (write_all_same h ids h (heq_refl h)) as Hq.
  remember (write_all T h ids (map (deref T h) ids)) as h1 eqn:Eh1. clear Eh1.
  pose proof (heq_extends _ _ Hq) as Ex1. pose proof (heq_wf _ _ Hq W) as W1.
  cbn [xbind].
  destruct (op_sem (n_op n) (n_attrs n) (map (deref T h) ids)) as [outs|k|] eqn:O; cbn [xbind].
  2:{ inversion H; subst. split; [exact Ex1|]. split; [exact W1|].
      split; [intros e' Q; discriminate|reflexivity]. }
  2:{ inversion H; subst. split; [exact Ex1|]. split; [exact W1|].
      split; [intros e' Q; discriminate|exact I]. }
  destruct (Nat.eqb (List.length (n_out n)) (List.length outs)) eqn:Len.
  2:{ inversion H; subst. split; [exact Ex1|]. split; [exact W1|].
      split; [intros e' Q; discriminate|reflexivity]. }
  destruct (alloc_all T h1 outs) as [h2 oids] eqn:A.
  inversion H; subst; clear H.
  destruct (alloc_all_spec _ _ _ _ A) as (Ex2 & W2 & D2 & L2).
  pose proof (extends_trans _ _ _ Ex1 Ex2) as Ex.
  split; [exact Ex|]. split; [auto|]. split.
  - intros e' Q. inversion Q; subst.
    apply live_obindout; [|exact L2]. eapply live_env_extends; eassumption.
  - cbn. intros x. rewrite venv_obindout, D2.
    apply bindout_ext. apply venv_extends; assumption.
Qed.

(* TARGET 2: the node loop *)
Theorem orun_nodes_pure ns h e h' r :
  pure -> wf_heap h -> live_env h e -> orun_nodes h e ns = (h', r) ->
  extends h h' /\ wf_heap h' /\ (forall e', r = XOk e' -> live_env h' e') /\
  sim_env h' r (run_nodes (venv h e) ns).
Proof.
  revert h e h' r. induction ns as [|n ns IH]; intros h e h' r P W L H; cbn in H.
  - inversion H; subst. split; [apply extends_refl|]. split; [exact W|].
    split; [intros e' Q; inversion Q; subst; exact L|]. cbn. intros x. reflexivity.
  - destruct (ostep h e n) as [h1 r1] eqn:St.
    destruct (ostep_pure _ _ _ _ _ P W L St) as (Ex1 & W1 & L1 & S1).
    cbn [Run.run_nodes].
    destruct r1 as [e1|k|].
    + destruct (step (venv h e) n) as [ve|k'|] eqn:Sv; cbn in S1; try contradiction.
      cbn [xbind].
      destruct (IH _ _ _ _ P W1 (L1 e1 eq_refl) H) as (Ex2 & W2 & L2 & S2).
      split; [eapply extends_trans; eassumption|]. split; [exact W2|]. split; [exact L2|].
      eapply sim_env_trans; [exact S2|]. apply run_nodes_ext. exact S1.
    + inversion H; subst.
      split; [exact Ex1|]. split; [exact W1|]. split; [intros e' Q; discriminate|].
      destruct (step (venv h e) n) as [ve|k'|]; cbn in S1 |- *; try contradiction. exact S1.
    + inversion H; subst.
      split; [exact Ex1|]. split; [exact W1|]. split; [intros e' Q; discriminate|].
      destruct (step (venv h e) n) as [ve|k'|]; cbn in S1 |- *; try contradiction. exact I.
Qed.

(* ---------- helper lemmas: the initial environment and output collection ---------- *)
Lemma lookup_last_in {X} (l : list (string * X)) n v : lookup_last l n = Some v -> In (n, v) l.
Proof.
  induction l as [|[m w] r IH]; cbn; [discriminate|].
  destruct (lookup_last r n) as [w'|] eqn:E.
  - intros H. inversion H; subst. right. apply IH. reflexivity.
  - destruct (String.eqb m n) eqn:E2; [|discriminate].
    intros H. inversion H; subst. apply String.eqb_eq in E2. subst. now left.
Qed.

Lemma deref_list_cons h m i r :
  deref_list T h ((m, i) :: r) =
  match h_obj T h i with Some v => (m, v) :: deref_list T h r | None => deref_list T h r end.
Proof. unfold deref_list. cbn. destruct (h_obj T h i); reflexivity. Qed.

Lemma live_obj h i : wf_heap h -> i < h_next T h -> exists v, h_obj T h i = Some v.
Proof.
  intros W Hi. destruct (h_obj T h i) as [v|] eqn:E; [eauto|].
  exfalso. exact (proj1 (W i) Hi E).
Qed.

(* live objects are all present, so dereferencing a list commutes with looking a name up *)
Lemma lookup_last_deref h l n :
  wf_heap h -> live_list h l ->
  lookup_last (deref_list T h l) n =
  match lookup_last l n with Some i => h_obj T h i | None => None end.
Proof.
  intros W. induction l as [|[m i] r IH]; intros L; [reflexivity|].
  assert (Lr : live_list h r) by (intros a b Hab; apply (L a b); now right).
  assert (Li : i < h_next T h) by (apply (L m i); now left).
  destruct (live_obj h i W Li) as [v Ev].
  rewrite deref_list_cons, Ev. cbn. rewrite (IH Lr).
  destruct (lookup_last r n) as [j|] eqn:E2.
  - assert (Lj : j < h_next T h) by (apply (Lr n j), lookup_last_in, E2).
    destruct (live_obj h j W Lj) as [w Ew]. rewrite Ew. reflexivity.
  - destruct (String.eqb m n); [symmetry; exact Ev|reflexivity].
Qed.

Lemma live_oenv0 h (m : omodel attrs) feed :
  live_list h feed -> live_list h (om_params attrs m) -> live_env h (oenv0 attrs m feed).
Proof.
  intros Lf Lp n i E. unfold oenv0 in E.
  assert (Hp : option_map Some (lookup_last (om_params attrs m) n) = Some (Some i) -> i < h_next T h).
  { intros Q. destruct (lookup_last (om_params attrs m) n) as [p|] eqn:Pm; cbn in Q; [|discriminate].
    inversion Q; subst. apply (Lp n i), lookup_last_in, Pm. }
  destruct (lookup_last feed n) as [o|] eqn:F; [|exact (Hp E)].
  destruct ((match lookup_last (om_params attrs m) n with Some _ => true | None => false end)
            && negb (existsb (fun p => String.eqb (fst p) n) (om_inputs attrs m))); [exact (Hp E)|].
  inversion E; subst. apply (Lf n i), lookup_last_in, F.
Qed.

Lemma venv_oenv0 h (m : omodel attrs) feed :
  wf_heap h -> live_list h feed -> live_list h (om_params attrs m) ->
  forall x, venv h (oenv0 attrs m feed) x
            = env0 T attrs (graph_of T attrs h m) (deref_list T h feed) x.
Proof.
  intros W Lf Lp x. unfold venv, oenv0, env0, is_param, has_input, graph_of.
  cbn [g_params g_inputs].
  rewrite !lookup_last_deref by assumption.
  destruct (lookup_last feed x) as [o|] eqn:F.
  - assert (Lo : o < h_next T h) by (apply (Lf x o), lookup_last_in, F).
    destruct (live_obj h o W Lo) as [t Et]. rewrite Et.
    destruct (lookup_last (om_params attrs m) x) as [p|] eqn:Pm.
    + assert (Lq : p < h_next T h) by (apply (Lp x p), lookup_last_in, Pm).
      destruct (live_obj h p W Lq) as [v Ev]. rewrite Ev.
      destruct (negb (existsb (fun p0 => String.eqb (fst p0) x) (om_inputs attrs m)));
        cbn; rewrite ?Ev, ?Et; reflexivity.
    + cbn. rewrite Et. reflexivity.
  - destruct (lookup_last (om_params attrs m) x) as [p|] eqn:Pm; cbn; [|reflexivity].
    assert (Lq : p < h_next T h) by (apply (Lp x p), lookup_last_in, Pm).
    destruct (live_obj h p W Lq) as [v Ev]. rewrite Ev. reflexivity.
Qed.

Lemma ocollect_sim h e (ve : env T) outs :
  wf_heap h -> live_env h e -> (forall x, venv h e x = ve x) ->
  sim_out h (ocollect e outs) (collect T ve outs).
Proof.
  intros W L HE. induction outs as [|o r IH]; cbn; [reflexivity|].
  rewrite <- (HE o). unfold venv.
  destruct (e o) as [[i|]|] eqn:E; cbn; try reflexivity.
  destruct (live_obj h i W (L _ _ E)) as [t Et]. rewrite Et.
  destruct (ocollect e r) as [l|k|], (collect T ve r) as [vl|k'|]; cbn in *; try contradiction; auto.
  rewrite Et, IH. reflexivity.
Qed.

(* TARGET 3: one Run on the object store = the pure Run of C01 on the current values; old objects untouched *)
Theorem orun_pure h (m : omodel attrs) feed h' r :
  pure -> wf_heap h -> live_list h feed -> live_list h (om_params attrs m) ->
  orun h m feed = (h', r) ->
  extends h h' /\ wf_heap h' /\
  sim_out h' r (run_model (graph_of T attrs h m) (deref_list T h feed)).
Proof.
  intros P W Lf Lp H. unfold History.orun in H. unfold Run.run_model.
  destruct (validate_shapes T attrs shape_of (graph_of T attrs h m) (deref_list T h feed)) eqn:V;
    cbn [negb] in H |- *.
  2:{ inversion H; subst. split; [apply extends_refl|]. split; [exact W|]. reflexivity. }
  destruct (orun_nodes h (oenv0 attrs m feed) (om_nodes attrs m)) as [h1 r1] eqn:R.
  pose proof (live_oenv0 h m feed Lf Lp) as L0.
  destruct (orun_nodes_pure _ _ _ _ _ P W L0 R) as (Ex & W1 & L1 & S).
  pose proof (run_nodes_ext (om_nodes attrs m) _ _ (venv_oenv0 h m feed W Lf Lp)) as Xe.
  pose proof (sim_env_trans _ _ _ _ S Xe) as S'.
  change (g_nodes (graph_of T attrs h m)) with (om_nodes attrs m).
  change (g_outputs (graph_of T attrs h m)) with (om_outputs attrs m).
  destruct r1 as [e1|k|];
    destruct (run_nodes (env0 T attrs (graph_of T attrs h m) (deref_list T h feed)) (om_nodes attrs m))
      as [ve|k'|]; cbn in S'; try contradiction; inversion H; subst; clear H;
    (split; [exact Ex|]); (split; [exact W1|]); cbn [xbind].
  - apply ocollect_sim; [exact W1|exact (L1 e1 eq_refl)|exact S'].
  - reflexivity.
  - exact I.
Qed.

(* ---------- helper lemmas: histories ---------- *)
(* reading live objects through a later heap gives the same values *)
Lemma deref_list_extends h h' l :
  extends h h' -> live_list h l -> deref_list T h' l = deref_list T h l.
Proof.
  intros [N O]. induction l as [|[n i] r IH]; intros L; [reflexivity|].
  rewrite !deref_list_cons. rewrite O by (apply (L n i); now left).
  rewrite IH; [reflexivity|]. intros a b Hab. apply (L a b). now right.
Qed.

Lemma graph_of_extends h h' (m : omodel attrs) :
  extends h h' -> live_list h (om_params attrs m) -> graph_of T attrs h' m = graph_of T attrs h m.
Proof. intros Ex L. unfold graph_of. rewrite (deref_list_extends _ _ _ Ex L). reflexivity. Qed.

Definition call_ok (h0 : heap) (m : omodel attrs) (feed : list (string * oid))
           (r : xres (list (string * option T))) : Prop :=
  match r, run_model (graph_of T attrs h0 m) (deref_list T h0 feed) with
  | XOk l, XOk vl => l = map (fun p => (fst p, Some (snd p))) vl
  | XErr k, XErr k' => k = k'
  | XPanic, XPanic => True
  | _, _ => False
  end.

Lemma history_gen calls :
  forall h0 h (m : omodel attrs) h' rs,
  pure -> wf_heap h -> extends h0 h -> live_list h0 (om_params attrs m) ->
  Forall (live_list h0) calls ->
  orun_hist h m calls = (h', rs) ->
  extends h h' /\ Forall2 (call_ok h0 m) calls rs.
Proof.
  induction calls as [|feed r IH]; intros h0 h m h' rs P W Ex0 Lp Lc H; cbn in H.
  - inversion H; subst. split; [apply extends_refl|constructor].
  - destruct (orun h m feed) as [h1 res] eqn:R.
    destruct (orun_hist h1 m r) as [h2 rs'] eqn:RH.
    inversion H; subst; clear H.
    inversion Lc as [|f' r' Lf Lr]; subst.
    destruct (orun_pure _ _ _ _ _ P W (live_list_extends _ _ _ Ex0 Lf)
                        (live_list_extends _ _ _ Ex0 Lp) R) as (Ex1 & W1 & S1).
    rewrite (graph_of_extends _ _ _ Ex0 Lp), (deref_list_extends _ _ _ Ex0 Lf) in S1.
    destruct (IH h0 h1 m _ _ P W1 (extends_trans _ _ _ Ex0 Ex1) Lp Lr RH) as (Ex2 & F2).
    split; [eapply extends_trans; eassumption|].
    constructor; [|exact F2].
    unfold call_ok. unfold sim_out in S1.
    destruct res as [l|k|], (run_model (graph_of T attrs h0 m) (deref_list T h0 feed)) as [vl|k'|];
      cbn; try contradiction; exact S1.
Qed.

(* TARGET 4 (C02): any history of Runs passing pre-existing objects: every pre-existing object is
   unchanged at the end, and the k-th Run returns what the pure model returns on a freshly loaded
   model (the parameter values of the INITIAL heap) for the same inputs *)
Theorem history_independent calls h (m : omodel attrs) h' rs :
  pure -> wf_heap h -> live_list h (om_params attrs m) -> Forall (live_list h) calls ->
  orun_hist h m calls = (h', rs) ->
  extends h h' /\
  Forall2 (fun feed r =>
             match r, run_model (graph_of T attrs h m) (deref_list T h feed) with
             | XOk l, XOk vl => l = map (fun p => (fst p, Some (snd p))) vl
             | XErr k, XErr k' => k = k'
             | XPanic, XPanic => True
             | _, _ => False
             end) calls rs.
Proof.
  intros P W Lp Lc H.
  exact (history_gen calls h h m h' rs P W (extends_refl h) Lp Lc H).
Qed.

(* TARGET 5 (C17): interleavings. A thread's abstraction, and its own sequential step. *)
Record pthread := { p_env : env T; p_todo : list (node attrs); p_failed : option rerr }.
Definition pstep (p : pthread) : pthread :=
  match p_failed p, p_todo p with
  | None, n :: rest =>
      match step (p_env p) n with
      | XOk e1 => {| p_env := e1; p_todo := rest; p_failed := None |}
      | XErr k => {| p_env := p_env p; p_todo := rest; p_failed := Some k |}
      | XPanic => {| p_env := p_env p; p_todo := rest; p_failed := Some ROpErr |}
      end
  | _, _ => p
  end.
Definition abs_thread (h : heap) (t : thread attrs) : pthread :=
  {| p_env := venv h (t_env attrs t); p_todo := t_todo attrs t; p_failed := t_failed attrs t |}.
Definition pthread_eq (a b : pthread) : Prop :=
  (forall x, p_env a x = p_env b x) /\ p_todo a = p_todo b /\ p_failed a = p_failed b.

(* ---------- helper lemmas: interleavings ---------- *)
Lemma pthread_eq_refl a : pthread_eq a a.
Proof. split; [intros x; reflexivity|]. split; reflexivity. Qed.

Lemma pthread_eq_trans a b c : pthread_eq a b -> pthread_eq b c -> pthread_eq a c.
Proof.
  intros (E1 & T1 & F1) (E2 & T2 & F2). split; [|split; congruence].
  intros x. rewrite E1. apply E2.
Qed.

Lemma pstep_ext a b : pthread_eq a b -> pthread_eq (pstep a) (pstep b).
Proof.
  intros Q. pose proof Q as (E & Td & F). unfold pstep. rewrite <- Td, <- F.
  destruct (p_failed a) as [k0|] eqn:Fa; [exact Q|].
  destruct (p_todo a) as [|n rest] eqn:Ta; [exact Q|].
  pose proof (step_ext _ _ n E) as S.
  destruct (step (p_env a) n) as [x|k|], (step (p_env b) n) as [y|k'|]; cbn in S; try contradiction.
  - split; [exact S|]. split; reflexivity.
  - subst k'. split; [exact E|]. split; reflexivity.
  - split; [exact E|]. split; reflexivity.
Qed.

Lemma iter_pstep_ext c a b : pthread_eq a b -> pthread_eq (Nat.iter c pstep a) (Nat.iter c pstep b).
Proof. intros E. induction c as [|c IH]; cbn; [exact E|]. apply pstep_ext. exact IH. Qed.

Lemma iter_succ_r {X} (f : X -> X) c x : Nat.iter (S c) f x = Nat.iter c f (f x).
Proof. induction c as [|c IH]; [reflexivity|]. cbn in *. rewrite IH. reflexivity. Qed.

Lemma nth_replace {X} (t' : X) :
  forall ts i j, i < List.length ts ->
  nth_error (firstn i ts ++ t' :: skipn (S i) ts) j = if Nat.eqb j i then Some t' else nth_error ts j.
Proof.
  induction ts as [|a r IH]; intros i j Hi; cbn in Hi; [lia|].
  destruct i as [|i].
  - destruct j; reflexivity.
  - destruct j as [|j]; [reflexivity|].
    cbn [firstn skipn app nth_error Nat.eqb]. apply IH. lia.
Qed.

Lemma length_replace {X} (t' : X) ts i :
  i < List.length ts -> List.length (firstn i ts ++ t' :: skipn (S i) ts) = List.length ts.
Proof.
  intros Hi. rewrite app_length. cbn [List.length]. rewrite firstn_length, skipn_length. lia.
Qed.

Notation tlive h := (fun t => live_env h (t_env attrs t)).

Definition sched_post (h : heap) (ts : list (thread attrs)) (i : nat)
           (h1 : heap) (ts1 : list (thread attrs)) : Prop :=
  extends h h1 /\ wf_heap h1 /\ Forall (tlive h1) ts1 /\ List.length ts1 = List.length ts /\
  forall j t t1, nth_error ts j = Some t -> nth_error ts1 j = Some t1 ->
    pthread_eq (abs_thread h1 t1) (if Nat.eqb j i then pstep (abs_thread h t) else abs_thread h t).

Lemma sched_noop h ts i :
  wf_heap h -> Forall (tlive h) ts ->
  (forall t, nth_error ts i = Some t -> pstep (abs_thread h t) = abs_thread h t) ->
  sched_post h ts i h ts.
Proof.
  intros W L Hn. split; [apply extends_refl|]. split; [exact W|]. split; [exact L|].
  split; [reflexivity|].
  intros j t t1 A B. rewrite A in B. inversion B; subst t1.
  destruct (Nat.eqb j i) eqn:J; [|apply pthread_eq_refl].
  apply Nat.eqb_eq in J. subst j. rewrite (Hn t A). apply pthread_eq_refl.
Qed.

(* the definition, stated so that unfolding does not reduce skipn (S i) ts *)
Lemma sched_step_unfold h (ts : list (thread attrs)) i :
  sched_step T attrs op_sem op_eff supported h ts i =
  match nth_error ts i with
  | Some t =>
      match t_failed attrs t, t_todo attrs t with
      | None, n :: rest =>
          let (h1, r) := ostep h (t_env attrs t) n in
          let t' := match r with
                    | XOk e1 => {| t_env := e1; t_todo := rest; t_failed := None |}
                    | XErr k => {| t_env := t_env attrs t; t_todo := rest; t_failed := Some k |}
                    | XPanic => {| t_env := t_env attrs t; t_todo := rest; t_failed := Some ROpErr |}
                    end in
          (h1, (firstn i ts ++ t' :: skipn (S i) ts)%list)
      | _, _ => (h, ts)
      end
  | None => (h, ts)
  end.
Proof. reflexivity. Qed.

Lemma sched_step_pure h ts i h1 ts1 :
  pure -> wf_heap h -> Forall (tlive h) ts ->
  sched_step T attrs op_sem op_eff supported h ts i = (h1, ts1) ->
  sched_post h ts i h1 ts1.
Proof.
  intros P W L H. rewrite sched_step_unfold in H.
  destruct (nth_error ts i) as [t|] eqn:N.
  2:{ inversion H; subst. apply sched_noop; [exact W|exact L|]. intros t Q. rewrite N in Q. discriminate. }
  destruct (t_failed attrs t) as [k0|] eqn:F.
  { inversion H; subst. apply sched_noop; [exact W|exact L|].
    intros t0 Q. rewrite N in Q. inversion Q; subst t0.
    unfold pstep, abs_thread. cbn. rewrite F. reflexivity. }
  destruct (t_todo attrs t) as [|n rest] eqn:Td.
  { inversion H; subst. apply sched_noop; [exact W|exact L|].
    intros t0 Q. rewrite N in Q. inversion Q; subst t0.
    unfold pstep, abs_thread. cbn. rewrite F, Td. reflexivity. }
  destruct (ostep h (t_env attrs t) n) as [h2 r] eqn:St.
  cbv zeta in H. apply pair_equal_spec in H. destruct H as [Eh Ets]. subst h2 ts1.
  assert (Hi : i < List.length ts) by (apply nth_error_Some; rewrite N; discriminate).
  assert (Lt : live_env h (t_env attrs t)).
  { rewrite Forall_forall in L. apply L. eapply nth_error_In. exact N. }
  destruct (ostep_pure _ _ _ _ _ P W Lt St) as (Ex & W1 & L1 & S).
  set (t' := match r with
             | XOk e1 => {| t_env := e1; t_todo := rest; t_failed := None |}
             | XErr k => {| t_env := t_env attrs t; t_todo := rest; t_failed := Some k |}
             | XPanic => {| t_env := t_env attrs t; t_todo := rest; t_failed := Some ROpErr |}
             end) in *.
  assert (Lt' : live_env h1 (t_env attrs t')).
  { subst t'. destruct r as [e1|k|]; cbn.
    - apply L1. reflexivity.
    - eapply live_env_extends; eassumption.
    - eapply live_env_extends; eassumption. }
  split; [exact Ex|]. split; [exact W1|]. split; [|split].
  - rewrite Forall_forall in *. intros x Hx.
    apply In_nth_error in Hx. destruct Hx as [j Hj].
    rewrite nth_replace in Hj by exact Hi.
    destruct (Nat.eqb j i).
    + inversion Hj; subst x. exact Lt'.
    + eapply live_env_extends; [exact Ex|]. apply L. eapply nth_error_In. exact Hj.
  - apply length_replace. exact Hi.
  - intros j t0 t1 A B. rewrite nth_replace in B by exact Hi.
    destruct (Nat.eqb j i) eqn:J.
    + apply Nat.eqb_eq in J. subst j. rewrite N in A. inversion A; subst t0.
      inversion B; subst t1. clear A B.
      unfold pstep, abs_thread. cbn [p_failed p_todo p_env]. rewrite F, Td.
      subst t'.
      destruct r as [e1|k|], (step (venv h (t_env attrs t)) n) as [ve|k'|];
        cbn in S; try contradiction; cbn.
      * split; [exact S|]. split; reflexivity.
      * subst k'. split; [|split; reflexivity]. cbn. apply venv_extends; assumption.
      * split; [|split; reflexivity]. cbn. apply venv_extends; assumption.
    + rewrite A in B. inversion B; subst t1.
      split; [|split; reflexivity]. cbn.
      apply venv_extends; [exact Ex|].
      rewrite Forall_forall in L. apply L. eapply nth_error_In. exact A.
Qed.

(* after ANY schedule, thread i is exactly where its own sequential execution is after as many
   steps as the schedule gave it -- whatever the other threads did in between *)
Theorem interleaving_independent sched h (ts : list (thread attrs)) h' ts' :
  pure -> wf_heap h -> Forall (fun t => live_env h (t_env attrs t)) ts ->
  run_schedule T attrs op_sem op_eff supported h ts sched = (h', ts') ->
  extends h h' /\ List.length ts' = List.length ts /\
  forall i t t', nth_error ts i = Some t -> nth_error ts' i = Some t' ->
    pthread_eq (abs_thread h' t') (Nat.iter (count_occ Nat.eq_dec sched i) pstep (abs_thread h t)).
Proof.
  revert h ts h' ts'. induction sched as [|i r IH]; intros h ts h' ts' P W L H; cbn in H.
  - inversion H; subst. split; [apply extends_refl|]. split; [reflexivity|].
    intros i t t' A B. rewrite A in B. inversion B; subst. cbn. apply pthread_eq_refl.
  - destruct (sched_step T attrs op_sem op_eff supported h ts i) as [h1 ts1] eqn:St.
    destruct (sched_step_pure _ _ _ _ _ P W L St) as (Ex & W1 & L1 & Len & Q).
    destruct (IH _ _ _ _ P W1 L1 H) as (Ex' & Len' & Q').
    split; [eapply extends_trans; eassumption|]. split; [lia|].
    intros j t t' A B.
    assert (C : exists t1, nth_error ts1 j = Some t1).
    { destruct (nth_error ts1 j) as [t1|] eqn:E; [eauto|].
      apply nth_error_None in E.
      assert (j < List.length ts) by (apply nth_error_Some; rewrite A; discriminate). lia. }
    destruct C as [t1 C].
    pose proof (Q' j t1 t' C B) as Q1. pose proof (Q j t t1 A C) as Q2.
    cbn [count_occ]. destruct (Nat.eq_dec i j) as [Eij|Ne].
    + subst j. rewrite Nat.eqb_refl in Q2. rewrite iter_succ_r.
      eapply pthread_eq_trans; [exact Q1|]. apply iter_pstep_ext. exact Q2.
    + assert (J : Nat.eqb j i = false) by (apply Nat.eqb_neq; congruence).
      rewrite J in Q2.
      eapply pthread_eq_trans; [exact Q1|]. apply iter_pstep_ext. exact Q2.
Qed.
End P.

Print Assumptions ostep_pure.
Print Assumptions orun_nodes_pure.
Print Assumptions orun_pure.
Print Assumptions history_independent.
Print Assumptions interleaving_independent.
