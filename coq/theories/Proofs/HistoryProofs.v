(* Under the premise that every operator leaves its input objects as they were (pure_ops):
   - a Run over the object store computes what the pure Run model of C01 computes on the current
     values, and leaves every pre-existing object (caller tensors, weights) unchanged -- also
     when it fails half-way;
   - hence any history of Runs on one Model returns, call by call, what a freshly loaded Model
     returns for the same inputs (C02);
   - hence under ANY interleaving of the node steps of several Runs sharing the heap, each Run is
     in the state its own sequential execution would be in (C17, logical half). *)
From Coq Require Import List String Bool Arith ZArith Lia.
From V Require Import Run History.
Import ListNotations.
Open Scope string_scope.

Section P.
Variable T attrs : Type.
Variable shape_of : T -> list nat.
Variable op_sem : string -> attrs -> list (option T) -> xres (list (option T)).
Variable op_eff : string -> attrs -> list (option T) -> list (option T).
Variable supported : string -> bool.
Notation heap := (heap T).
Notation oenv := oenv.
Notation ostep := (ostep T attrs op_sem op_eff supported).
Notation orun_nodes := (orun_nodes T attrs op_sem op_eff supported).
Notation orun := (orun T attrs shape_of op_sem op_eff supported).
Notation orun_hist := (orun_hist T attrs shape_of op_sem op_eff supported).
Notation pure := (pure_ops T attrs op_eff).
Notation step := (step T attrs op_sem supported).
Notation run_nodes := (run_nodes T attrs op_sem supported).
Notation run_model := (run_model T attrs shape_of op_sem supported).

(* objects exist exactly below the allocation counter *)
Definition wf_heap (h : heap) : Prop :=
  forall i, (i < h_next T h -> h_obj T h i <> None) /\ (h_next T h <= i -> h_obj T h i = None).
Definition live_env (h : heap) (e : oenv) : Prop := forall n i, e n = Some (Some i) -> i < h_next T h.
Definition live_list (h : heap) (l : list (string * oid)) : Prop := forall n i, In (n, i) l -> i < h_next T h.
(* old objects are untouched, the heap only grows *)
Definition extends (h h' : heap) : Prop :=
  h_next T h <= h_next T h' /\ forall i, i < h_next T h -> h_obj T h' i = h_obj T h i.

(* the value environment an object environment denotes *)
Definition venv (h : heap) (e : oenv) : env T := fun n => option_map (deref T h) (e n).

(* agreement of an object-level outcome with a value-level outcome *)
Definition sim_env (h : heap) (r : xres oenv) (v : xres (env T)) : Prop :=
  match r, v with
  | XOk e, XOk ve => forall x, venv h e x = ve x
  | XErr k, XErr k' => k = k'
  | XPanic, XPanic => True
  | _, _ => False
  end.
Definition sim_out (h : heap) (r : xres (list (string * oid))) (v : xres (list (string * T))) : Prop :=
  match r, v with
  | XOk l, XOk vl => map (fun p => (fst p, h_obj T h (snd p))) l = map (fun p => (fst p, Some (snd p))) vl
  | XErr k, XErr k' => k = k'
  | XPanic, XPanic => True
  | _, _ => False
  end.

(* TARGET 1: one node step *)
Theorem ostep_pure h e n h' r :
  pure -> wf_heap h -> live_env h e -> ostep h e n = (h', r) ->
  extends h h' /\ wf_heap h' /\ (forall e', r = XOk e' -> live_env h' e') /\
  sim_env h' r (step (venv h e) n).
Proof.
Abort.

(* TARGET 2: the node loop *)
Theorem orun_nodes_pure ns h e h' r :
  pure -> wf_heap h -> live_env h e -> orun_nodes h e ns = (h', r) ->
  extends h h' /\ wf_heap h' /\ (forall e', r = XOk e' -> live_env h' e') /\
  sim_env h' r (run_nodes (venv h e) ns).
Proof.
Abort.

(* TARGET 3: one Run on the object store = the pure Run of C01 on the current values; old objects untouched *)
Theorem orun_pure h (m : omodel attrs) feed h' r :
  pure -> wf_heap h -> live_list h feed -> live_list h (om_params attrs m) ->
  orun h m feed = (h', r) ->
  extends h h' /\ wf_heap h' /\
  sim_out h' r (run_model (graph_of T attrs h m) (deref_list T h feed)).
Proof.
Abort.

(* TARGET 4 (C02): any history of Runs passing pre-existing objects: every pre-existing object is
   unchanged at the end, and the k-th Run returns what the pure model returns on a freshly loaded
   model (the parameter values of the INITIAL heap) for the same inputs *)
Theorem history_independent calls h (m : omodel attrs) h' rs :
  pure -> wf_heap h -> live_list h (om_params attrs m) -> Forall (live_list h) calls ->
  orun_hist h m calls = (h', rs) ->
  extends h h' /\
  Forall2 (fun feed r =>
             match r, run_model (graph_of T attrs h m) (deref_list T h feed) with
             | XOk l, XOk vl => l = map (fun p => (fst p, Some (snd p))) vl
             | XErr k, XErr k' => k = k'
             | XPanic, XPanic => True
             | _, _ => False
             end) calls rs.
Proof.
Abort.

(* TARGET 5 (C17): interleavings. A thread's abstraction, and its own sequential step. *)
Record pthread := { p_env : env T; p_todo : list (node attrs); p_failed : option rerr }.
Definition pstep (p : pthread) : pthread :=
  match p_failed p, p_todo p with
  | None, n :: rest =>
      match step (p_env p) n with
      | XOk e1 => {| p_env := e1; p_todo := rest; p_failed := None |}
      | XErr k => {| p_env := p_env p; p_todo := rest; p_failed := Some k |}
      | XPanic => {| p_env := p_env p; p_todo := rest; p_failed := Some ROpErr |}
      end
  | _, _ => p
  end.
Definition abs_thread (h : heap) (t : thread attrs) : pthread :=
  {| p_env := venv h (t_env attrs t); p_todo := t_todo attrs t; p_failed := t_failed attrs t |}.
Definition pthread_eq (a b : pthread) : Prop :=
  (forall x, p_env a x = p_env b x) /\ p_todo a = p_todo b /\ p_failed a = p_failed b.

(* after ANY schedule, thread i is exactly where its own sequential execution is after as many
   steps as the schedule gave it -- whatever the other threads did in between *)
Theorem interleaving_independent sched h (ts : list (thread attrs)) h' ts' :
  pure -> wf_heap h -> Forall (fun t => live_env h (t_env attrs t)) ts ->
  run_schedule T attrs op_sem op_eff supported h ts sched = (h', ts') ->
  extends h h' /\ List.length ts' = List.length ts /\
  forall i t t', nth_error ts i = Some t -> nth_error ts' i = Some t' ->
    pthread_eq (abs_thread h' t') (Nat.iter (count_occ Nat.eq_dec sched i) pstep (abs_thread h t)).
Proof.
Abort.
End P.
