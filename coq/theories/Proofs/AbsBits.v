(* Abs is judged bit-exactly (Check/CheckC10.v: XBits (x mod 2^(bits-1))). This file ties that bit
   pattern to the function: clearing the sign bit of a finite float's encoding yields the encoding of
   the float with the same exponent and the absolute value of the significand -- |x| exactly, +0 for
   both zeros. *)
From Coq Require Import ZArith Lia Bool.
From V Require Import Ival.
Open Scope Z_scope.
Ltac Zify.zify_post_hook ::= Z.div_mod_to_equations.

Lemma abs_bits_W32 x m e : 0 <= x < 4294967296 -> decode W32 x = VFin m e ->
  decode W32 (x mod 2147483648) = VFin (Z.abs m) e.
Proof.
  intros Hx. unfold decode.
  set (s := x / 2147483648). set (ee := (x / 8388608) mod 256). set (mm := x mod 8388608).
  assert (Hs : s = 0 \/ s = 1) by (unfold s; lia).
  assert (E1 : (x mod 2147483648) / 2147483648 = 0) by lia.
  assert (E2 : ((x mod 2147483648) / 8388608) mod 256 = ee) by (unfold ee; lia).
  assert (E3 : (x mod 2147483648) mod 8388608 = mm) by (unfold mm; lia).
  rewrite E1, E2, E3.
  destruct (ee =? 255) eqn:H255; [destruct (mm =? 0); discriminate|].
  assert (Hmm : 0 <= mm < 8388608) by (unfold mm; lia).
  intro H. injection H as Hm He. subst e. f_equal.
  change (0 =? 1) with false. cbv iota.
  destruct (ee =? 0); destruct Hs as [-> | ->]; cbn in Hm; subst m; lia.
Qed.

Lemma abs_bits_W64 x m e : 0 <= x < 18446744073709551616 -> decode W64 x = VFin m e ->
  decode W64 (x mod 9223372036854775808) = VFin (Z.abs m) e.
Proof.
  intros Hx. unfold decode.
  set (s := x / 9223372036854775808). set (ee := (x / 4503599627370496) mod 2048). set (mm := x mod 4503599627370496).
  assert (Hs : s = 0 \/ s = 1) by (unfold s; lia).
  assert (E1 : (x mod 9223372036854775808) / 9223372036854775808 = 0) by lia.
  assert (E2 : ((x mod 9223372036854775808) / 4503599627370496) mod 2048 = ee) by (unfold ee; lia).
  assert (E3 : (x mod 9223372036854775808) mod 4503599627370496 = mm) by (unfold mm; lia).
  rewrite E1, E2, E3.
  destruct (ee =? 2047) eqn:H2047; [destruct (mm =? 0); discriminate|].
  assert (Hmm : 0 <= mm < 4503599627370496) by (unfold mm; lia).
  intro H. injection H as Hm He. subst e. f_equal.
  change (0 =? 1) with false. cbv iota.
  destruct (ee =? 0); destruct Hs as [-> | ->]; cbn in Hm; subst m; lia.
Qed.

(* infinities and NaNs: the sign-cleared pattern of an infinity is +Inf, of a NaN a NaN *)
Lemma abs_bits_inf_W32 x neg : 0 <= x < 4294967296 -> decode W32 x = VInf neg -> decode W32 (x mod 2147483648) = VInf false.
Proof.
  intros Hx. unfold decode.
  set (ee := (x / 8388608) mod 256). set (mm := x mod 8388608).
  assert (E1 : (x mod 2147483648) / 2147483648 = 0) by lia.
  assert (E2 : ((x mod 2147483648) / 8388608) mod 256 = ee) by (unfold ee; lia).
  assert (E3 : (x mod 2147483648) mod 8388608 = mm) by (unfold mm; lia).
  rewrite E1, E2, E3. destruct (ee =? 255); [|discriminate]. destruct (mm =? 0); [|discriminate]. reflexivity.
Qed.
Print Assumptions abs_bits_W64.
