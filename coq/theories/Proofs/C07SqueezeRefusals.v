(* C07: S demands an error for a Squeeze axis outside [-rank, rank-1] and for a named axis whose
   extent is not 1 *)
From Coq Require Import List ZArith Bool Lia String.
From V Require Import DType Tensor Case OpCheck ShapeOps CheckC07.
Import ListNotations.
Open Scope Z_scope.

Lemma squeeze_refuses t a n :
  let r := Z.of_nat (List.length (sh t)) in
  sh a = [n] ->
  (exists x, In x (pl a) /\ (x < - r \/ r <= x)) \/
  (exists x, In x (pl a) /\ - r <= x < r /\ nth (Z.to_nat (if x <? 0 then x + r else x)) (sh t) 0%nat <> 1%nat) ->
  squeeze_spec t (Some a) = SMustErr.
Proof.
  cbn zeta. intros Hs H. unfold squeeze_spec. rewrite Hs.
  destruct (forallb (fun x => (- Z.of_nat (List.length (sh t)) <=? x) && (x <? Z.of_nat (List.length (sh t)))) (pl a)) eqn:Hr; cbn [negb]; [|reflexivity].
  rewrite forallb_forall in Hr.
  destruct H as [[x [Hin Hx]]|[x [Hin [Hx Hne]]]].
  - specialize (Hr x Hin). apply andb_true_iff in Hr as [H1 H2]. apply Z.leb_le in H1. apply Z.ltb_lt in H2. lia.
  - match goal with |- (if negb (forallb ?f ?l) then _ else _) = _ => destruct (forallb f l) eqn:Hones end; cbn [negb]; [|reflexivity].
    exfalso. rewrite forallb_forall in Hones.
    specialize (Hones (Z.to_nat (if x <? 0 then x + Z.of_nat (List.length (sh t)) else x))).
    apply Hne. apply Nat.eqb_eq. apply Hones. apply in_map_iff. exists x. split; [reflexivity|exact Hin].
Qed.
