(* The broadcast helpers implement ONNX broadcasting for ALL ranks (the equal-rank loop
   theorems of BroadcastProofs.v plus rank equalisation), stated as equality with the spec. *)
From Coq Require Import List Arith Lia PeanoNat Bool.
From V Require Import Tensor ListUtil Case Repeat Reshape Broadcast BroadcastSpec BroadcastProofs.
Import ListNotations.

Section F.
Context {A : Type} (d : A).
Notation tensor := (tensor A).

(* ---------- rank equalisation: prepend k extents of 1, same backing ---------- *)
Definition ext (k : nat) (t : tensor) : tensor := mkT (repeat 1 k ++ tshape t) (tdata t).

Lemma numel_ones k s : numel (repeat 1 k ++ s) = numel s.
Proof. induction k as [|k IH]; cbn [repeat app numel]; lia. Qed.

Lemma ext_0 t : ext 0 t = t.
Proof. destruct t; reflexivity. Qed.

Lemma add_extra_dims_ext t k : add_extra_dims t k = MOk (ext k t).
Proof. unfold add_extra_dims, g_reshape. rewrite numel_ones, Nat.eqb_refl. reflexivity. Qed.

Lemma wf_ext k t : wf t -> wf (ext k t).
Proof. unfold wf, ext; cbn [tshape tdata]. rewrite numel_ones. auto. Qed.

Lemma ext_rank k t : length (tshape (ext k t)) = k + length (tshape t).
Proof. unfold ext; cbn [tshape]. now rewrite app_length, repeat_length. Qed.

Lemma valid_ones k s i : valid (repeat 1 k ++ s) i ->
  valid s (skipn k i) /\ flat (repeat 1 k ++ s) i = flat s (skipn k i).
Proof.
  revert i. induction k as [|k IH]; intros i Hv; cbn [repeat app] in *.
  - cbn [skipn]. split; [exact Hv|reflexivity].
  - unfold valid in Hv. inversion Hv as [|x y i' s' Hx Hv' Ei Es]; subst.
    destruct (IH i' Hv') as [V F]. cbn [flat skipn]. split; [exact V|].
    assert (Hx0 : x = 0) by lia. subst x. rewrite F. lia.
Qed.

Lemma get_ext k t i :
  valid (repeat 1 k ++ tshape t) i -> get d (ext k t) i = get d t (skipn k i).
Proof.
  intros Hv. unfold get, ext; cbn [tshape tdata].
  now rewrite (proj2 (valid_ones _ _ _ Hv)).
Qed.

Lemma skipn_pin_ones k s i : skipn k (pin (repeat 1 k ++ s) i) = pin s (skipn k i).
Proof.
  revert i. induction k as [|k IH]; intros i; cbn [repeat app]; [reflexivity|].
  destruct i as [|x i]; cbn [pin skipn].
  - destruct s; reflexivity.
  - apply IH.
Qed.

Lemma positive_ones k s : positive s -> positive (repeat 1 k ++ s).
Proof.
  intros P. induction k as [|k IH]; cbn [repeat app]; [exact P|].
  unfold positive in *. intros [|j] Hj; cbn [length nth] in *; [lia|apply IH; lia].
Qed.

(* ---------- nth-wise view of the spec's list recursions ---------- *)
Lemma bdims_length sa sb : length sa = length sb -> length (bdims sa sb) = length sa.
Proof.
  revert sb. induction sa as [|x sa IH]; intros [|y sb] Hl; cbn in *; try lia.
  rewrite IH; lia.
Qed.

Lemma nth_bdims sa sb k : length sa = length sb -> k < length sa ->
  nth k (bdims sa sb) 0 = bdim (nth k sa 0) (nth k sb 0).
Proof.
  revert sb k. induction sa as [|x sa IH]; intros [|y sb] k Hl Hk; cbn [length bdims nth] in *; try lia.
  destruct k as [|k]; [reflexivity|]. apply IH; lia.
Qed.

Lemma compat_all_nth sa sb : compat_all sa sb = true ->
  forall k, k < length sa -> compat (nth k sa 0) (nth k sb 0) = true.
Proof.
  revert sb. induction sa as [|x sa IH]; intros [|y sb] H k Hk; cbn [length compat_all nth] in *;
    try lia; try discriminate.
  apply andb_true_iff in H as [H1 H2].
  destruct k as [|k]; [exact H1|]. apply IH; [exact H2|lia].
Qed.

Lemma compat_all_false sa sb : length sa = length sb -> compat_all sa sb = false ->
  exists k, k < length sa /\ compat (nth k sa 0) (nth k sb 0) = false.
Proof.
  revert sb. induction sa as [|x sa IH]; intros [|y sb] Hl H; cbn [length compat_all nth] in *;
    try lia; try discriminate.
  apply andb_false_iff in H as [H|H].
  - exists 0. split; [lia|exact H].
  - destruct (IH sb ltac:(lia) H) as (k & Hk & Hc). exists (S k). split; [lia|exact Hc].
Qed.

Lemma list_neq_nth (l1 l2 : list nat) : length l1 = length l2 -> l1 <> l2 ->
  exists k, k < length l1 /\ nth k l1 0 <> nth k l2 0.
Proof.
  revert l2. induction l1 as [|x l1 IH]; intros [|y l2] Hl Hne; cbn [length nth] in *; try lia.
  - congruence.
  - destruct (Nat.eq_dec x y) as [->|Hxy].
    + destruct (IH l2 ltac:(lia)) as (k & Hk & Hn); [congruence|].
      exists (S k). split; [lia|exact Hn].
    + exists 0. split; [lia|exact Hxy].
Qed.

Lemma bdim_comm x y : compat x y = true -> bdim x y = bdim y x.
Proof.
  unfold compat, bdim. intros H.
  destruct (x =? y) eqn:E1; [apply Nat.eqb_eq in E1; now subst|].
  destruct (x =? 1) eqn:E2, (y =? 1) eqn:E3; cbn in H; try discriminate; try reflexivity.
  apply Nat.eqb_eq in E2, E3. lia.
Qed.

(* ---------- well-formedness through the loops ---------- *)
Lemma loop_wf sa sb m a b a' b' :
  wf a -> wf b -> loop d sa sb m (MOk (a, b)) = MOk (a', b') -> wf a' /\ wf b'.
Proof.
  revert a b. induction m as [|m IH]; intros a b Wa Wb H; cbn [loop] in H.
  - inversion H; subst; auto.
  - unfold step in H.
    destruct (nth m sa 0 =? nth m sb 0); [exact (IH _ _ Wa Wb H)|].
    destruct (nth m sa 0 =? 1); [exact (IH _ _ (g_repeat_wf d _ _ _) Wb H)|].
    destruct (nth m sb 0 =? 1); [exact (IH _ _ Wa (g_repeat_wf d _ _ _) H)|].
    rewrite loop_err_stays in H. discriminate.
Qed.

(* ---------- one operand: invariant at exit = the spec's bcast_to ---------- *)
Lemma side_eq t k t' s (o : nat -> nat) :
  wf t' -> tshape t' = s ->
  length s = k + length (tshape t) ->
  (forall j, j < length s -> nth j s 0 = bdim (nth j (repeat 1 k ++ tshape t) 0) (o j)) ->
  (forall i, valid s i -> get d t' i = get d (ext k t) (pin (repeat 1 k ++ tshape t) i)) ->
  t' = bcast_to d s t.
Proof.
  intros Wt' Hs Hl Hn Hg. unfold bcast_to.
  assert (Hlp : length (repeat 1 k ++ tshape t) = length s)
    by (rewrite app_length, repeat_length; lia).
  apply (tensor_ext d); [exact Wt'|apply wf_tabulate|rewrite Hs; reflexivity|].
  rewrite Hs. intros i Hv. rewrite get_tabulate by exact Hv. rewrite (Hg i Hv).
  pose proof (valid_length _ _ Hv) as Hli.
  rewrite get_ext.
  - rewrite skipn_pin_ones. unfold bproj. f_equal. f_equal. f_equal. lia.
  - apply valid_nth in Hv. destruct Hv as [_ Hvn].
    apply valid_nth. split; [apply pin_length; lia|].
    intros j Hj. rewrite nth_pin by lia.
    specialize (Hvn j ltac:(lia)). rewrite (Hn j ltac:(lia)) in Hvn. unfold bdim in Hvn.
    destruct (nth j (repeat 1 k ++ tshape t) 0 =? 1) eqn:E.
    + apply Nat.eqb_eq in E. lia.
    + exact Hvn.
Qed.

Lemma reshape_multidir_ext (a b : tensor) :
  reshape_multidir a b =
    MOk (ext (Nat.max (length (tshape a)) (length (tshape b)) - length (tshape a)) a,
         ext (Nat.max (length (tshape a)) (length (tshape b)) - length (tshape b)) b).
Proof.
  unfold reshape_multidir.
  set (ra := length (tshape a)). set (rb := length (tshape b)).
  destruct (rb <? ra) eqn:E1.
  - apply Nat.ltb_lt in E1. rewrite add_extra_dims_ext. cbn [mbind].
    replace (Nat.max ra rb - ra) with 0 by lia.
    replace (Nat.max ra rb - rb) with (ra - rb) by lia. now rewrite ext_0.
  - apply Nat.ltb_ge in E1. destruct (ra <? rb) eqn:E2.
    + apply Nat.ltb_lt in E2. rewrite add_extra_dims_ext. cbn [mbind].
      replace (Nat.max ra rb - rb) with 0 by lia.
      replace (Nat.max ra rb - ra) with (rb - ra) by lia. now rewrite ext_0.
    + apply Nat.ltb_ge in E2.
      replace (Nat.max ra rb - rb) with 0 by lia.
      replace (Nat.max ra rb - ra) with 0 by lia. now rewrite !ext_0.
Qed.

(* TARGET 1 *)
Theorem multidir_broadcast_correct (a b : tensor) :
  wf a -> wf b -> positive (tshape a) -> positive (tshape b) ->
  multidir_broadcast d a b =
    match multidir_spec d a b with Some p => MOk p | None => MErr end.
Proof.
  intros Wa Wb Pa Pb. unfold multidir_broadcast, multidir_spec, bshape, pad_shape.
  rewrite reshape_multidir_ext. cbn [mbind].
  set (n := Nat.max (length (tshape a)) (length (tshape b))).
  set (ka := n - length (tshape a)). set (kb := n - length (tshape b)).
  assert (Hka : ka + length (tshape a) = n) by lia.
  assert (Hkb : kb + length (tshape b) = n) by lia.
  set (pa := repeat 1 ka ++ tshape a). set (pb := repeat 1 kb ++ tshape b).
  assert (Hpa : tshape (ext ka a) = pa) by reflexivity.
  assert (Hpb : tshape (ext kb b) = pb) by reflexivity.
  assert (Lpa : length pa = n) by (unfold pa; rewrite app_length, repeat_length; lia).
  assert (Lpb : length pb = n) by (unfold pb; rewrite app_length, repeat_length; lia).
  assert (Ppa : positive pa) by (apply positive_ones; exact Pa).
  assert (Ppb : positive pb) by (apply positive_ones; exact Pb).
  destruct (compat_all pa pb) eqn:C.
  - pose proof (compat_all_nth _ _ C) as Cn.
    destruct (repeat_multidir_ok d (ext ka a) (ext kb b)) as (a' & b' & E & La & Lb & Sh & Ga & Gb).
    + rewrite Hpa, Hpb. lia.
    + rewrite Hpa. exact Ppa.
    + rewrite Hpb. exact Ppb.
    + rewrite Hpa, Hpb. intros k Hk. apply Cn. exact Hk.
    + rewrite E. rewrite Hpa, Hpb in *.
      destruct (loop_wf _ _ _ _ _ _ _ (wf_ext ka a Wa) (wf_ext kb b Wb) E) as [Wa' Wb'].
      assert (Lbd : length (bdims pa pb) = n) by (rewrite bdims_length; lia).
      f_equal. f_equal.
      * apply side_eq with (k := ka) (o := fun j => nth j pb 0).
        -- exact Wa'.
        -- apply list_ext_nth; [lia|]. intros k Hk.
           rewrite nth_bdims by lia. apply (Sh k). lia.
        -- lia.
        -- intros j Hj. fold pa. apply nth_bdims; lia.
        -- intros i Hv. fold pa. apply Ga.
           replace (tshape a') with (bdims pa pb); [exact Hv|].
           symmetry. apply list_ext_nth; [lia|]. intros k Hk.
           rewrite nth_bdims by lia. apply (Sh k). lia.
      * assert (Hsb : tshape b' = bdims pa pb).
        { apply list_ext_nth; [lia|]. intros k Hk.
          rewrite nth_bdims by lia. rewrite bdim_comm by (apply Cn; lia). apply (Sh k). lia. }
        apply side_eq with (k := kb) (o := fun j => nth j pa 0).
        -- exact Wb'.
        -- exact Hsb.
        -- lia.
        -- intros j Hj. fold pb. rewrite nth_bdims by lia. apply bdim_comm. apply Cn. lia.
        -- intros i Hv. fold pb. apply Gb. rewrite Hsb. exact Hv.
  - destruct (compat_all_false pa pb ltac:(lia) C) as (k & Hk & Hc).
    apply (repeat_multidir_err d (ext ka a) (ext kb b) k); rewrite ?Hpa, ?Hpb; auto; lia.
Qed.

(* ---------- unidirectional ---------- *)
Definition ucompat (da db : nat) : bool := (da =? db) || (db =? 1).

Lemma ucompat_spec x y : ucompat x y = compat x y && (bdim x y =? x).
Proof.
  unfold ucompat, compat, bdim.
  destruct (x =? y) eqn:E1, (x =? 1) eqn:E2, (y =? 1) eqn:E3; cbn;
    repeat match goal with
    | H : (_ =? _) = true |- _ => apply Nat.eqb_eq in H
    | H : (_ =? _) = false |- _ => apply Nat.eqb_neq in H
    end; subst;
    try (symmetry; apply Nat.eqb_eq; lia); try (symmetry; apply Nat.eqb_neq; lia); try lia.
Qed.

Lemma uloop_err_stays sa sb m : uloop d sa sb m MErr = MErr.
Proof. induction m; cbn; auto. Qed.

Lemma ustep_inv sa sb b0 b m :
  length sa = length sb -> m < length sa -> InvT d sb sa b0 b (S m) ->
  ucompat (nth m sa 0) (nth m sb 0) = true ->
  exists b1, ustep d sa sb (MOk b) m = MOk b1 /\ InvT d sb sa b0 b1 m /\ (wf b -> wf b1).
Proof.
  intros Hlen Hm Ib Hc. unfold ustep. unfold ucompat in Hc.
  destruct (nth m sa 0 =? nth m sb 0) eqn:E1.
  { apply Nat.eqb_eq in E1. exists b. split; [reflexivity|]. split; [|auto].
    apply InvT_keep; [lia|exact Ib|]. unfold bdim. rewrite E1. now destruct (nth m sb 0 =? 1). }
  destruct (nth m sb 0 =? 1) eqn:E3; [|cbn in Hc; discriminate].
  apply Nat.eqb_eq in E3. eexists. split; [reflexivity|]. split; [|intros _; apply g_repeat_wf].
  apply InvT_stretch; [lia|exact Ib|exact E3|reflexivity].
Qed.

Lemma uloop_ok sa sb b0 m b :
  length sa = length sb -> m <= length sa -> InvT d sb sa b0 b m -> wf b ->
  (forall k, k < m -> ucompat (nth k sa 0) (nth k sb 0) = true) ->
  exists b', uloop d sa sb m (MOk b) = MOk b' /\ InvT d sb sa b0 b' 0 /\ wf b'.
Proof.
  intros Hlen. revert b. induction m as [|m IH]; intros b Hm Ib Wb Hc; cbn [uloop].
  - eauto.
  - destruct (ustep_inv sa sb b0 b m Hlen ltac:(lia) Ib (Hc m ltac:(lia))) as (b1 & E & I1 & W1).
    rewrite E. apply IH; [lia|exact I1|auto|]. intros k Hk. apply Hc. lia.
Qed.

Lemma uloop_err sa sb b0 m b k :
  length sa = length sb -> m <= length sa -> InvT d sb sa b0 b m ->
  k < m -> ucompat (nth k sa 0) (nth k sb 0) = false ->
  uloop d sa sb m (MOk b) = MErr.
Proof.
  intros Hlen. revert b. induction m as [|m IH]; intros b Hm Ib Hk Hc; [lia|]. cbn [uloop].
  destruct (Nat.eq_dec k m) as [->|Hne].
  - unfold ustep. unfold ucompat in Hc. apply orb_false_elim in Hc as [H1 H2].
    rewrite H1, H2. apply uloop_err_stays.
  - destruct (ucompat (nth m sa 0) (nth m sb 0)) eqn:Cm.
    + destruct (ustep_inv sa sb b0 b m Hlen ltac:(lia) Ib Cm) as (b1 & E & I1 & _).
      rewrite E. apply IH; [lia|exact I1|lia|exact Hc].
    + unfold ustep. unfold ucompat in Cm. apply orb_false_elim in Cm as [H1 H2].
      rewrite H1, H2. apply uloop_err_stays.
Qed.

Lemma reshape_unidir_ext (a b : tensor) :
  length (tshape b) <= length (tshape a) ->
  reshape_unidir a b = MOk (ext (length (tshape a) - length (tshape b)) b).
Proof.
  intros Hr. unfold reshape_unidir.
  destruct (length (tshape b) <? length (tshape a)) eqn:E1; [apply add_extra_dims_ext|].
  apply Nat.ltb_ge in E1.
  replace (length (tshape a) =? length (tshape b)) with true by (symmetry; apply Nat.eqb_eq; lia).
  replace (length (tshape a) - length (tshape b)) with 0 by lia. now rewrite ext_0.
Qed.

Lemma reshape_unidir_err (a b : tensor) :
  length (tshape a) < length (tshape b) -> reshape_unidir a b = MErr.
Proof.
  intros Hr. unfold reshape_unidir.
  replace (length (tshape b) <? length (tshape a)) with false by (symmetry; apply Nat.ltb_ge; lia).
  replace (length (tshape a) =? length (tshape b)) with false by (symmetry; apply Nat.eqb_neq; lia).
  reflexivity.
Qed.

(* TARGET 2 *)
Theorem unidir_broadcast_correct (a b : tensor) :
  wf a -> wf b -> positive (tshape a) -> positive (tshape b) ->
  unidir_broadcast d a b =
    match unidir_spec d a b with Some p => MOk p | None => MErr end.
Proof.
  intros Wa Wb Pa Pb. unfold unidir_broadcast, unidir_spec, bshape, pad_shape.
  destruct (Nat.lt_ge_cases (length (tshape a)) (length (tshape b))) as [Hr|Hr].
  - (* rank b > rank a: refused; the spec's shape is longer than a's *)
    rewrite reshape_unidir_err by exact Hr. cbn [mbind].
    set (n := Nat.max (length (tshape a)) (length (tshape b))).
    destruct (compat_all _ _) eqn:C; [|reflexivity].
    destruct (list_eq_dec Nat.eq_dec _ (tshape a)) as [Heq|_]; [|reflexivity].
    exfalso. apply (f_equal (@length nat)) in Heq.
    rewrite bdims_length in Heq; rewrite !app_length, !repeat_length in *; lia.
  - rewrite reshape_unidir_ext by exact Hr. cbn [mbind].
    replace (Nat.max (length (tshape a)) (length (tshape b))) with (length (tshape a)) by lia.
    rewrite Nat.sub_diag. cbn [repeat app].
    set (sa := tshape a) in *.
    set (kb := length sa - length (tshape b)).
    set (pb := repeat 1 kb ++ tshape b).
    assert (Hpb : tshape (ext kb b) = pb) by reflexivity.
    assert (Lpb : length pb = length sa)
      by (unfold pb, kb; rewrite app_length, repeat_length; lia).
    assert (Ppb : positive pb) by (apply positive_ones; exact Pb).
    rewrite Hpb.
    assert (I0 : InvT d pb sa (ext kb b) (ext kb b) (length sa)).
    { rewrite <- Lpb. apply InvT_init; [exact Hpb|exact Ppb]. }
    assert (Herr : forall k, k < length sa -> ucompat (nth k sa 0) (nth k pb 0) = false ->
                   uloop d sa pb (length sa) (MOk (ext kb b)) = MErr).
    { intros k Hk Hc. apply (uloop_err sa pb (ext kb b) (length sa) (ext kb b) k); auto. }
    destruct (compat_all sa pb) eqn:C.
    + pose proof (compat_all_nth _ _ C) as Cn.
      destruct (list_eq_dec Nat.eq_dec (bdims sa pb) sa) as [Heq|Hne].
      * assert (Hu : forall k, k < length sa -> ucompat (nth k sa 0) (nth k pb 0) = true).
        { intros k Hk. rewrite ucompat_spec, (Cn k Hk). cbn [andb].
          apply Nat.eqb_eq. rewrite <- nth_bdims by lia. now rewrite Heq. }
        destruct (uloop_ok sa pb (ext kb b) (length sa) (ext kb b) ltac:(lia) (le_n _) I0
                    (wf_ext kb b Wb) Hu) as (b' & E & (Lb' & Sb' & Gb') & Wb').
        rewrite E. cbn [mbind]. f_equal. f_equal. rewrite Heq.
        assert (Hsb : tshape b' = sa).
        { apply list_ext_nth; [lia|]. intros k Hk. rewrite (Sb' k ltac:(lia)). cbn [Nat.leb].
          rewrite <- bdim_comm by (apply Cn; lia). rewrite <- nth_bdims by lia. now rewrite Heq. }
        apply side_eq with (k := kb) (o := fun j => nth j sa 0).
        -- exact Wb'.
        -- exact Hsb.
        -- unfold kb. lia.
        -- intros j Hj. fold pb. rewrite <- bdim_comm by (apply Cn; lia).
           rewrite <- nth_bdims by lia. now rewrite Heq.
        -- intros i Hv. fold pb. apply Gb'. rewrite Hsb. exact Hv.
      * assert (Lbd : length (bdims sa pb) = length sa) by (apply bdims_length; lia).
        destruct (list_neq_nth (bdims sa pb) sa Lbd Hne) as (k & Hk & Hn).
        rewrite Lbd in Hk. rewrite nth_bdims in Hn by lia.
        rewrite (Herr k Hk); [reflexivity|].
        rewrite ucompat_spec. apply andb_false_iff. right. apply Nat.eqb_neq. exact Hn.
    + destruct (compat_all_false sa pb ltac:(lia) C) as (k & Hk & Hc).
      rewrite (Herr k Hk); [reflexivity|].
      rewrite ucompat_spec, Hc. reflexivity.
Qed.
End F.

Print Assumptions multidir_broadcast_correct.
Print Assumptions unidir_broadcast_correct.
