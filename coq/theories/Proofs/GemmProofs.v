(* C04, proved for ALL inputs: the models of Gemm, LinearRegressor and Scaler (Check/CheckC04.v,
   mirroring the Go code) refine the specifications written from the ONNX / ONNX-ML text, for every
   attribute list and every well-formed input tensor with positive extents.  The corners in which
   model and specification DISAGREE are exhibited below by evaluation and carved out by named
   boolean predicates (see the section of each operator). *)
From Coq Require Import List ZArith Bool String Lia Arith PeanoNat.
From V Require Import DType Tensor Case OpCheck Broadcast BroadcastSpec MatMul MatMulSpec
                      BroadcastProofs BroadcastFull CheckC04.
Import ListNotations.
Open Scope Z_scope.

(* what it means for a model outcome to satisfy S's verdict on the same input
   (the definition of Proofs/ShapeOpsProofs.v, copied) *)
Definition refines (s : spec_out) (m : mres (list (option tval))) : Prop :=
  match s with
  | SMust v => m = MOk v
  | SMustErr => m = MErr
  | SEither v => m = MOk v \/ m = MErr
  | SOutOfDomain => True
  end.

Definition one : mres tval -> mres (list (option tval)) := mmap (fun v => [Some v]).

(* concrete tensors for the examples *)
Definition T32 s p : tval := {| dt := Float32; sh := s; pl := p |}.
Definition x23 := T32 [2%nat; 3%nat] [1; 2; 3; 4; 5; 6].

(* ------------------------------------------------------------------------------------ *)
(* generic facts                                                                        *)
(* ------------------------------------------------------------------------------------ *)

Lemma refines_err_mustErr : refines SMustErr (one MErr).
Proof. reflexivity. Qed.

Lemma refines_moe_ok d v : refines (must_or_either d (Some v)) (one (MOk v)).
Proof. unfold must_or_either. destruct (is_f32 d); cbn; auto. Qed.

Lemma refines_moe_err d v : is_f32 d = false -> refines (must_or_either d v) (one MErr).
Proof. intros H. unfold must_or_either. rewrite H. destruct v; cbn; auto. Qed.

Lemma is_f32_float d : is_f32 d = true -> is_float d = true.
Proof. unfold is_f32, is_float. intros ->. reflexivity. Qed.

Lemma dotk_sumk K (f g : nat -> Z) :
  dotk 0 Z.add Z.mul K f g = sumk 0 Z.add K (fun k => f k * g k).
Proof. reflexivity. Qed.

Lemma sumk_ext K (f g : nat -> Z) :
  (forall k, (k < K)%nat -> f k = g k) -> sumk 0 Z.add K f = sumk 0 Z.add K g.
Proof.
  intros H. unfold sumk. f_equal. apply map_ext_in. intros k Hk. apply in_seq in Hk. apply H. lia.
Qed.

Lemma tabulate_ext {A} s (f g : list nat -> A) :
  (forall i, valid s i -> f i = g i) -> tabulate s f = tabulate s g.
Proof.
  intros H. unfold tabulate. f_equal. apply map_ext_in. intros n Hn. apply in_seq in Hn.
  apply H. apply valid_unflat. lia.
Qed.

Lemma tabulate_get (t : tensor Z) : wf t -> tabulate (tshape t) (fun i => get 0 t i) = t.
Proof.
  intros W. apply (tensor_ext 0); [apply wf_tabulate|exact W|reflexivity|].
  intros i Hv. cbn [tabulate tshape] in Hv. now rewrite get_tabulate.
Qed.

Lemma zmap_tabulate h s (f : list nat -> Z) : zmap h (tabulate s f) = tabulate s (fun i => h (f i)).
Proof. unfold zmap, tabulate. cbn [tshape tdata]. now rewrite map_map. Qed.

Lemma combine_map {X Y W} (f : X -> Y) (g : X -> W) l :
  combine (map f l) (map g l) = map (fun x => (f x, g x)) l.
Proof. induction l as [|x l IH]; cbn [map combine]; [reflexivity|]. now rewrite IH. Qed.

Lemma zmap2_tabulate h s (f g : list nat -> Z) :
  zmap2 h (tabulate s f) (tabulate s g) = tabulate s (fun i => h (f i) (g i)).
Proof. unfold zmap2, tabulate. cbn [tshape tdata]. now rewrite combine_map, map_map. Qed.

Lemma zmap2_tabulate_l h (t : tensor Z) (g : list nat -> Z) :
  wf t -> zmap2 h t (tabulate (tshape t) g) = tabulate (tshape t) (fun i => h (get 0 t i) (g i)).
Proof.
  intros W. rewrite <- (zmap2_tabulate h (tshape t) (fun i => get 0 t i) g).
  now rewrite (tabulate_get t W).
Qed.

Lemma get_zmap_mul c (t : tensor Z) i : get 0 (zmap (Z.mul c) t) i = c * get 0 t i.
Proof.
  unfold get, zmap. cbn [tshape tdata].
  rewrite <- (map_nth (Z.mul c)). now rewrite Z.mul_0_r.
Qed.

Lemma wf_zmap h (t : tensor Z) : wf t -> wf (zmap h t).
Proof. unfold wf, zmap. cbn [tshape tdata]. now rewrite map_length. Qed.

Lemma get_transpose2 (t : tensor Z) i j :
  (i < nth 1 (tshape t) 0)%nat -> (j < nth 0 (tshape t) 0)%nat ->
  get 0 (transpose2 t) [i; j] = get 0 t [j; i].
Proof.
  intros Hi Hj. unfold transpose2. rewrite get_tabulate; [reflexivity|].
  repeat constructor; assumption.
Qed.

Lemma valid2 M N i : valid [M; N] i -> i = [nth 0 i 0%nat; nth 1 i 0%nat] /\ (nth 0 i 0 < M)%nat /\ (nth 1 i 0 < N)%nat.
Proof.
  unfold valid. intros H. inversion H as [|x m i' s' Hx H']; subst.
  inversion H' as [|y n i'' s'' Hy H'']; subst. inversion H''; subst. cbn [nth]. auto.
Qed.

Lemma positive2 M N : (1 <= M)%nat -> (1 <= N)%nat -> positive [M; N].
Proof. intros HM HN [|[|k]] Hk; cbn in *; lia. Qed.

Lemma positive_nth s k : positive s -> (k < List.length s)%nat -> (1 <= nth k s 0)%nat.
Proof. intros P H. apply P. exact H. Qed.

(* the unidirectional broadcast, read through the specification *)
Lemma unidir_ok (x y : tensor Z) :
  wf x -> wf y -> positive (tshape x) -> positive (tshape y) ->
  bshape (tshape x) (tshape y) = Some (tshape x) ->
  unidir_broadcast 0 x y = MOk (x, bcast_to 0 (tshape x) y).
Proof.
  intros Wx Wy Px Py Hb. rewrite unidir_broadcast_correct by assumption.
  unfold unidir_spec. rewrite Hb. destruct (list_eq_dec Nat.eq_dec _ _) as [_|N]; [reflexivity|congruence].
Qed.

Lemma unidir_err (x y : tensor Z) :
  wf x -> wf y -> positive (tshape x) -> positive (tshape y) ->
  bshape (tshape x) (tshape y) <> Some (tshape x) ->
  unidir_broadcast 0 x y = MErr.
Proof.
  intros Wx Wy Px Py Hb. rewrite unidir_broadcast_correct by assumption.
  unfold unidir_spec. destruct (bshape _ _) as [s|]; [|reflexivity].
  destruct (list_eq_dec Nat.eq_dec _ _) as [E|_]; [|reflexivity]. subst s. congruence.
Qed.

(* ------------------------------------------------------------------------------------ *)
(* Gemm                                                                                 *)
(* ------------------------------------------------------------------------------------ *)

Section Gemm.
Variables (tA tB : bool) (a b : tensor Z).
Let M := if tA then nth 1 (tshape a) 0%nat else nth 0 (tshape a) 0%nat.
Let K := if tA then nth 0 (tshape a) 0%nat else nth 1 (tshape a) 0%nat.
Let K' := if tB then nth 1 (tshape b) 0%nat else nth 0 (tshape b) 0%nat.
Let N := if tB then nth 0 (tshape b) 0%nat else nth 1 (tshape b) 0%nat.
Let a' := if tA then transpose2 a else a.
Let b' := if tB then transpose2 b else b.
Let A := fun i k => if tA then get 0 a [k; i] else get 0 a [i; k].
Let B := fun k j => if tB then get 0 b [j; k] else get 0 b [k; j].

Lemma gemm_g_matmul2 :
  List.length (tshape a) = 2%nat -> List.length (tshape b) = 2%nat ->
  g_matmul2 0 Z.add Z.mul a' b' = if (K =? K')%nat then MOk (mm2 0 Z.add Z.mul a' b') else MErr.
Proof.
  intros Ha Hb. unfold g_matmul2, rank, MatMul.ext.
  replace (List.length (tshape a')) with 2%nat by (unfold a'; destruct tA; [reflexivity|now rewrite Ha]).
  replace (List.length (tshape b')) with 2%nat by (unfold b'; destruct tB; [reflexivity|now rewrite Hb]).
  replace (nth 1 (tshape a') 0%nat) with K by (unfold a', K; destruct tA; reflexivity).
  replace (nth 0 (tshape b') 0%nat) with K' by (unfold b', K'; destruct tB; reflexivity).
  reflexivity.
Qed.

Lemma gemm_mm2 : K = K' ->
  mm2 0 Z.add Z.mul a' b' =
  tabulate [M; N] (fun i => sumk 0 Z.add K (fun k => A (nth 0 i 0%nat) k * B k (nth 1 i 0%nat))).
Proof.
  unfold mm2, MatMul.ext.
  replace (nth 0 (tshape a') 0%nat) with M by (unfold a', M; destruct tA; reflexivity).
  replace (nth 1 (tshape a') 0%nat) with K by (unfold a', K; destruct tA; reflexivity).
  replace (nth 1 (tshape b') 0%nat) with N by (unfold b', N; destruct tB; reflexivity).
  intros HK. apply tabulate_ext. intros i Hv. apply valid2 in Hv as (_ & Hi & Hj).
  rewrite dotk_sumk. apply sumk_ext. intros k Hk. f_equal.
  - unfold a', A. unfold M, K in *. destruct tA; [|reflexivity]. now apply get_transpose2.
  - unfold b', B. unfold N, K' in *. destruct tB; [|reflexivity]. apply get_transpose2; [lia|exact Hj].
Qed.
End Gemm.

Lemma gemm_m_nonf32 attrs a b c : is_f32 (dt a) = false -> gemm_m attrs a b c = MErr.
Proof.
  intros Hf. unfold gemm_m. cbv zeta.
  destruct (negb (dtype_eqb (dt a) (dt b))); [reflexivity|].
  destruct (negb (is_float (dt a))); [reflexivity|].
  destruct (negb _); [reflexivity|].
  unfold g_matmul2. destruct (_ && _ && _); [|reflexivity].
  cbn [mbind]. rewrite Hf. reflexivity.
Qed.

Lemma gemm_s_nonf32 attrs a b c : is_f32 (dt a) = false -> refines (gemm_s attrs a b c) (one MErr).
Proof.
  intros Hf. unfold gemm_s. cbv zeta.
  destruct (_ || _); [reflexivity|].
  destruct (negb (_ && _)); [reflexivity|].
  destruct (negb (_ =? _)%nat); [reflexivity|].
  destruct c as [ct|]; [|now apply refines_moe_err].
  destruct (bshape _ _) as [s|]; [|reflexivity].
  destruct (list_eq_dec _ _ _); [now apply refines_moe_err|reflexivity].
Qed.

(* a C of another element type: refused at the latest by the addition *)
Lemma gemm_m_badC attrs a b ct : is_f32 (dt ct) = false -> gemm_m attrs a b (Some ct) = MErr.
Proof.
  intros Hf. unfold gemm_m. cbv zeta.
  destruct (negb (dtype_eqb (dt a) (dt b))); [reflexivity|].
  destruct (negb (is_float (dt a))); [reflexivity|].
  destruct (negb _); [reflexivity|].
  unfold g_matmul2. destruct (_ && _ && _); [|reflexivity].
  cbn [mbind]. destruct (negb (is_f32 (dt a))); [reflexivity|]. rewrite Hf. reflexivity.
Qed.

Lemma rank2_positive s : List.length s = 2%nat -> positive s ->
  (1 <= nth 0 s 0)%nat /\ (1 <= nth 1 s 0)%nat.
Proof. intros L P. split; apply P; lia. Qed.

(* No hypothesis on the attribute list, none on the payloads of A and B (an ill-formed payload is
   read with the same default by both sides); C, when present, must be a tensor (wf) and all
   extents positive -- what unidir_broadcast_correct (C14) asks for. *)
Theorem gemm_refines attrs a b c :
  positive (sh a) -> positive (sh b) ->
  match c with Some ct => wf (tz ct) /\ positive (sh ct) | None => True end ->
  refines (gemm_s attrs a b c) (one (gemm_m attrs a b c)).
Proof.
  intros Pa Pb Hc.
  destruct (is_f32 (dt a)) eqn:Hf;
    [|rewrite (gemm_m_nonf32 attrs a b c Hf); now apply gemm_s_nonf32].
  assert (Hda : dt a = Float32) by (now apply dtype_eqb_eq).
  destruct (dtype_eqb (dt a) (dt b)) eqn:Hab;
    [|unfold gemm_s, gemm_m; cbv zeta; rewrite Hab; reflexivity].
  destruct (match c with Some ct => negb (dtype_eqb (dt ct) (dt a)) | None => false end) eqn:Hct.
  { (* C of another type *)
    destruct c as [ct|]; [|discriminate].
    rewrite gemm_m_badC by (unfold is_f32; rewrite <- Hda; now destruct (dtype_eqb (dt ct) (dt a))).
    unfold gemm_s. cbv zeta. rewrite Hct, orb_true_r. reflexivity. }
  unfold gemm_s, gemm_m. cbv zeta.
  set (tA := match find_int "transA" attrs with Some v => negb (v =? 0) | None => false end).
  set (tB := match find_int "transB" attrs with Some v => negb (v =? 0) | None => false end).
  set (alpha := match find_float "alpha" attrs with Some v => v | None => 1 end).
  set (beta := match find_float "beta" attrs with Some v => v | None => 1 end).
  rewrite Hab, Hct, (is_f32_float _ Hf), Hf. cbn [negb orb].
  destruct ((List.length (sh a) =? 2)%nat && (List.length (sh b) =? 2)%nat) eqn:Hr; cbn [negb]; [|reflexivity].
  apply andb_true_iff in Hr as [Ra Rb]. apply Nat.eqb_eq in Ra, Rb.
  rewrite (gemm_g_matmul2 tA tB (tz a) (tz b) Ra Rb). cbn [tz tshape].
  destruct (_ =? _)%nat eqn:HK; cbn [negb mbind one mmap]; [|reflexivity].
  apply Nat.eqb_eq in HK.
  rewrite (gemm_mm2 tA tB (tz a) (tz b) HK), zmap_tabulate. cbn [tz tshape].
  set (M := if tA then nth 1 (sh a) 0%nat else nth 0 (sh a) 0%nat).
  set (N := if tB then nth 0 (sh b) 0%nat else nth 1 (sh b) 0%nat).
  destruct c as [ct|]; [|apply (refines_moe_ok (dt a))].
  destruct Hc as [Wc Pc].
  assert (Hfc : is_f32 (dt ct) = true).
  { unfold is_f32. rewrite <- Hda. now destruct (dtype_eqb (dt ct) (dt a)). }
  rewrite Hfc. cbn [negb].
  assert (PMN : positive [M; N]).
  { destruct (rank2_positive _ Ra Pa), (rank2_positive _ Rb Pb).
    apply positive2; [unfold M; destruct tA|unfold N; destruct tB]; assumption. }
  match goal with |- context [unidir_broadcast 0 ?x0 ?y0] => set (x := x0); set (y := y0) end.
  assert (Wx : wf x) by apply wf_tabulate.
  assert (Wy : wf y) by (apply wf_zmap; exact Wc).
  destruct (bshape [M; N] (sh ct)) as [s|] eqn:Hb.
  - destruct (list_eq_dec Nat.eq_dec s [M; N]) as [->|Hne].
    + rewrite (unidir_ok x y Wx Wy PMN Pc Hb). cbn [mbind].
      unfold bcast_to, x. cbn [tabulate tshape]. rewrite zmap2_tabulate.
      erewrite tabulate_ext; [apply (refines_moe_ok (dt a))|].
      intros i _. cbn beta. unfold y. rewrite get_zmap_mul. reflexivity.
    + rewrite (unidir_err x y Wx Wy PMN Pc); [reflexivity|].
      cbn [x tabulate tshape y zmap tz]. rewrite Hb. congruence.
  - rewrite (unidir_err x y Wx Wy PMN Pc); [reflexivity|].
    cbn [x tabulate tshape y zmap tz]. rewrite Hb. congruence.
Qed.

(* no carve-out for Gemm.  The corners the random cases never reach agree: a scalar (rank-0) C is
   broadcast, a C of rank 3 is refused by both, duplicate attributes are read alike (first wins) *)
Example gemm_agree_corners :
  let b32 := T32 [3%nat; 2%nat] [1; 0; 0; 1; 1; 1] in
  gemm_s [] x23 b32 (Some (T32 [] [10])) = SMust [Some (T32 [2%nat; 2%nat] [14; 15; 20; 21])] /\
  one (gemm_m [] x23 b32 (Some (T32 [] [10]))) = MOk [Some (T32 [2%nat; 2%nat] [14; 15; 20; 21])] /\
  gemm_s [] x23 b32 (Some (T32 [1%nat; 2%nat; 2%nat] [10; 10; 10; 10])) = SMustErr /\
  one (gemm_m [] x23 b32 (Some (T32 [1%nat; 2%nat; 2%nat] [10; 10; 10; 10]))) = MErr /\
  gemm_s [AInt "transA" 1; AInt "transA" 0; AFloat "alpha" 2] x23 x23 None =
    SMust [Some (T32 [3%nat; 3%nat] [34; 44; 54; 44; 58; 72; 54; 72; 90])] /\
  one (gemm_m [AInt "transA" 1; AInt "transA" 0; AFloat "alpha" 2] x23 x23 None) =
    MOk [Some (T32 [3%nat; 3%nat] [34; 44; 54; 44; 58; 72; 54; 72; 90])].
Proof. vm_compute. repeat split. Qed.

(* ------------------------------------------------------------------------------------ *)
(* broadcasting a vector (an attribute list) along the last axis                         *)
(* ------------------------------------------------------------------------------------ *)

(* the specifications' acceptance test for a per-feature list: one entry per feature, or one *)
Definition okn (F n : nat) : bool := (n =? F)%nat || (n =? 1)%nat.

Lemma compat_one x : compat x 1 = true.
Proof. unfold compat. cbn [Nat.eqb]. now rewrite orb_true_r. Qed.

Lemma bdim_one x : bdim x 1 = x.
Proof. unfold bdim. destruct (Nat.eqb_spec x 1); congruence. Qed.

Lemma vec_compat s : forall k n, List.length s = S k ->
  compat_all s (repeat 1%nat k ++ [n]) = compat (nth k s 0%nat) n /\
  bdims s (repeat 1%nat k ++ [n]) = firstn k s ++ [bdim (nth k s 0%nat) n].
Proof.
  induction s as [|x s IH]; intros k n L; [discriminate|].
  destruct k as [|k].
  - destruct s; [|discriminate]. cbn. now rewrite andb_true_r.
  - cbn [List.length] in L. destruct (IH k n ltac:(lia)) as [E1 E2].
    cbn [repeat app compat_all bdims nth firstn]. rewrite compat_one, bdim_one, E1, E2. auto.
Qed.

Lemma firstn_last_nth (s : list nat) k : List.length s = S k -> firstn k s ++ [nth k s 0%nat] = s.
Proof.
  revert k; induction s as [|x s IH]; intros k L; [discriminate|].
  destruct k as [|k]; [destruct s; [reflexivity|discriminate]|].
  cbn [firstn nth app]. cbn [List.length] in L. now rewrite IH by lia.
Qed.

Lemma okn_spec F n : compat F n && (bdim F n =? F)%nat = okn F n.
Proof.
  unfold compat, bdim, okn.
  destruct (Nat.eqb_spec F n), (Nat.eqb_spec F 1), (Nat.eqb_spec n 1), (Nat.eqb_spec n F); cbn;
    try lia; try reflexivity;
    try (apply Nat.eqb_eq; lia); try (apply Nat.eqb_neq; lia).
Qed.

Lemma bshape_vec s k n : List.length s = S k ->
  (okn (nth k s 0%nat) n = true -> bshape s [n] = Some s) /\
  (okn (nth k s 0%nat) n = false -> bshape s [n] <> Some s).
Proof.
  intros L. unfold bshape, pad_shape. cbn [List.length].
  replace (Nat.max (List.length s) 1) with (List.length s) by lia.
  rewrite Nat.sub_diag, L. cbn [repeat app]. replace (S k - 1)%nat with k by lia.
  destruct (vec_compat s k n L) as [-> ->]. rewrite <- okn_spec.
  split; intros H.
  - apply andb_true_iff in H as [-> H]. apply Nat.eqb_eq in H. rewrite H. now rewrite firstn_last_nth.
  - destruct (compat _ _); [|discriminate]. cbn [andb] in H. apply Nat.eqb_neq in H.
    intros E. inversion E as [E']. apply H.
    assert (E'' : firstn k s ++ [bdim (nth k s 0%nat) n] = firstn k s ++ [nth k s 0%nat])
      by (rewrite (firstn_last_nth s k L); exact E').
    apply app_inv_head in E''. now inversion E''.
Qed.

(* an empty list can never be stretched to a positive extent *)
Lemma unidir_empty (t : tensor Z) :
  (1 <= List.length (tshape t))%nat -> positive (tshape t) ->
  unidir_broadcast 0 t (mkT [0%nat] []) = MErr.
Proof.
  intros L P. unfold unidir_broadcast.
  rewrite reshape_unidir_ext by (cbn; lia). cbn [mbind ext tshape tdata List.length].
  destruct (List.length (tshape t)) as [|m] eqn:E; [lia|].
  replace (S m - 1)%nat with m by lia. cbn [uloop]. unfold ustep at 1.
  rewrite app_nth2 by (rewrite repeat_length; lia). rewrite repeat_length, Nat.sub_diag. cbn [nth].
  pose proof (P m ltac:(lia)) as Hm.
  destruct (Nat.eqb_spec (nth m (tshape t) 0%nat) 0); [lia|]. cbn [Nat.eqb].
  rewrite uloop_err_stays. reflexivity.
Qed.

Lemma unidir_vec (t : tensor Z) (l : list Z) :
  wf t -> positive (tshape t) -> (1 <= List.length (tshape t))%nat ->
  unidir_broadcast 0 t (mkT [List.length l] l) =
  if okn (nth (List.length (tshape t) - 1) (tshape t) 1%nat) (List.length l)
  then MOk (t, bcast_to 0 (tshape t) (mkT [List.length l] l)) else MErr.
Proof.
  intros W P L.
  destruct (List.length (tshape t)) as [|k] eqn:E; [lia|]. replace (S k - 1)%nat with k by lia.
  rewrite (nth_indep _ 1%nat 0%nat) by lia.
  pose proof (P k ltac:(lia)) as HF.
  destruct l as [|v l].
  - cbn [List.length]. rewrite unidir_empty by (assumption || lia).
    unfold okn. destruct (Nat.eqb_spec 0 (nth k (tshape t) 0%nat)); [lia|]. reflexivity.
  - set (n := List.length (v :: l)).
    assert (Wl : wf (mkT [n] (v :: l))) by (unfold wf; cbn [tshape tdata numel]; lia).
    assert (Pl : positive (tshape (mkT [n] (v :: l)))).
    { intros [|j] Hj; cbn in *; lia. }
    destruct (bshape_vec (tshape t) k n E) as [Hok Herr].
    destruct (okn _ n) eqn:O.
    + apply unidir_ok; auto.
    + apply unidir_err; auto.
Qed.

Lemma skipn_last (i : list nat) k : List.length i = S k -> skipn k i = [nth k i 0%nat].
Proof.
  revert k; induction i as [|x i IH]; intros k L; [discriminate|].
  destruct k as [|k]; [destruct i; [reflexivity|discriminate]|].
  cbn [skipn nth]. cbn [List.length] in L. apply IH. lia.
Qed.

(* the element the broadcast list contributes at index i: the spec's `at_` *)
Lemma bcast_vec_get (l : list Z) (i : list nat) k : List.length i = S k ->
  get 0 (mkT [List.length l] l) (bproj [List.length l] i) =
  match l with [v] => v | _ => nth (nth k i 0%nat) l 0 end.
Proof.
  intros L. unfold bproj, get. cbn [tshape tdata List.length]. rewrite L.
  replace (S k - 1)%nat with k by lia. rewrite (skipn_last i k L). cbn [pin flat numel].
  destruct l as [|v [|w l]]; cbn [List.length Nat.eqb].
  - match goal with |- nth ?p [] 0 = nth ?q [] 0 => destruct p, q; reflexivity end.
  - reflexivity.
  - f_equal. lia.
Qed.

(* ------------------------------------------------------------------------------------ *)
(* Scaler                                                                               *)
(* ------------------------------------------------------------------------------------ *)

Definition is_some {X} (o : option X) : bool := match o with Some _ => true | None => false end.

(* CARVE-OUT 1 (attribute lists that are not valid Scaler nodes).  The Go code insists on exactly
   two attributes; the specification only looks for `offset` and `scale`:
   - a third attribute next to offset and scale: S computes, M (and Go) refuse;
   - two attributes that are not offset + scale (a duplicate, an unknown name): S wants an error,
     M says panic (Go: nil tensor in Apply for a duplicate; for an unknown name Go in fact
     returns ErrInvalidAttribute from Init, so there the model is coarser than the code).
   Both are excluded by: "there are exactly two attributes iff both offset and scale are there". *)
Definition scaler_attrs_ok (attrs : list attr) : bool :=
  Bool.eqb (List.length attrs =? 2)%nat
           (is_some (find_floats "offset" attrs) && is_some (find_floats "scale" attrs)).

(* CARVE-OUT 2 (rank-0 X).  S: a single offset/scale applies to every element "regardless of
   dimension count", so a rank-0 X with one offset and one scale is computed; M (and Go):
   UnidirectionalBroadcast refuses to broadcast the rank-1 attribute tensor into a rank-0 X. *)
Definition scaler_rank_ok (x : tval) : bool := (1 <=? List.length (sh x))%nat.

Example scaler_disagree_three_attrs :
  let attrs := [AFloats "offset" [1]; AFloats "scale" [2]; AInt "foo" 0] in
  scaler_s attrs x23 = SMust [Some (T32 [2%nat; 3%nat] [0; 2; 4; 6; 8; 10])] /\
  one (scaler_m attrs x23) = MErr /\ scaler_attrs_ok attrs = false.
Proof. vm_compute. auto. Qed.

Example scaler_disagree_two_attrs_not_both :
  let attrs := [AFloats "offset" [1]; AFloats "offset" [1]] in
  scaler_s attrs x23 = SMustErr /\ one (scaler_m attrs x23) = MPanic /\ scaler_attrs_ok attrs = false.
Proof. vm_compute. auto. Qed.

Example scaler_disagree_unknown_attr :
  let attrs := [AFloats "offset" [1]; AInt "foo" 0] in
  scaler_s attrs x23 = SMustErr /\ one (scaler_m attrs x23) = MPanic /\ scaler_attrs_ok attrs = false.
Proof. vm_compute. auto. Qed.

Example scaler_disagree_rank0 :
  let attrs := [AFloats "offset" [1]; AFloats "scale" [2]] in
  scaler_s attrs (T32 [] [5]) = SMust [Some (T32 [] [8])] /\
  one (scaler_m attrs (T32 [] [5])) = MErr /\ scaler_rank_ok (T32 [] [5]) = false.
Proof. vm_compute. auto. Qed.

(* empty offset / scale lists are NOT a disagreement: both refuse *)
Example scaler_agree_empty :
  scaler_s [AFloats "offset" []; AFloats "scale" [2]] x23 = SMustErr /\
  one (scaler_m [AFloats "offset" []; AFloats "scale" [2]] x23) = MErr.
Proof. vm_compute. auto. Qed.

Theorem scaler_refines attrs x :
  wf (tz x) -> positive (sh x) ->
  scaler_attrs_ok attrs = true -> scaler_rank_ok x = true ->
  refines (scaler_s attrs x) (one (scaler_m attrs x)).
Proof.
  intros W P Ha Hr. apply Nat.leb_le in Hr.
  unfold scaler_attrs_ok in Ha. apply Bool.eqb_prop in Ha.
  unfold scaler_s, scaler_m. rewrite Ha.
  destruct (find_floats "offset" attrs) as [off|]; cbn [is_some andb negb]; [|reflexivity].
  destruct (find_floats "scale" attrs) as [sc|]; cbn [is_some andb negb]; [|reflexivity].
  cbv zeta.
  rewrite (unidir_vec (tz x) off W P Hr). cbn [tz tshape].
  set (F := nth (List.length (sh x) - 1) (sh x) 1%nat).
  fold (okn F (List.length off)). fold (okn F (List.length sc)).
  destruct (okn F (List.length off)) eqn:Oo; cbn [andb negb mbind]; [|reflexivity].
  destruct (is_f32 (dt x)) eqn:Hf; cbn [negb].
  2:{ destruct (okn F (List.length sc)); cbn [negb]; [now apply refines_moe_err|reflexivity]. }
  unfold bcast_to at 1. cbn [tshape].
  rewrite (zmap2_tabulate_l Z.sub (tz x) _ W). cbn [tz tshape].
  match goal with |- context [unidir_broadcast 0 ?d0 _] => set (d := d0) end.
  rewrite (unidir_vec d sc (wf_tabulate _ _) P Hr). change (tshape d) with (sh x). fold F.
  destruct (okn F (List.length sc)) eqn:Os; cbn [negb mbind]; [|reflexivity].
  unfold bcast_to, d. cbn [tshape]. rewrite zmap2_tabulate.
  erewrite tabulate_ext; [apply (refines_moe_ok (dt x))|].
  intros i Hv. cbn beta. apply valid_length in Hv.
  destruct (List.length (sh x)) as [|k] eqn:E; [lia|].
  replace (S k - 1)%nat with k by lia.
  rewrite (bcast_vec_get off i k Hv), (bcast_vec_get sc i k Hv). reflexivity.
Qed.

(* every schema-valid Scaler node passes carve-out 1: distinct attribute names, each attribute
   one of the two the ONNX-ML schema has, and both given (the code needs both) *)
Definition scaler_attr (a : attr) : Prop := exists l, a = AFloats "offset" l \/ a = AFloats "scale" l.

Lemma scaler_schema_ok attrs :
  NoDup (map attr_name attrs) -> Forall scaler_attr attrs -> scaler_attrs_ok attrs = true.
Proof.
  intros ND FA.
  assert (Hname : forall a, scaler_attr a -> attr_name a = "offset"%string \/ attr_name a = "scale"%string).
  { intros a (l & [-> | ->]); cbn; auto. }
  destruct attrs as [|a1 [|a2 [|a3 r]]].
  - reflexivity.
  - inversion FA as [|? ? (l & [-> | ->]) _]; reflexivity.
  - inversion FA as [|? ? (l1 & H1) FA']; subst. inversion FA' as [|? ? (l2 & H2) _]; subst.
    destruct H1 as [-> | ->], H2 as [-> | ->]; try reflexivity;
      exfalso; cbn in ND; inversion ND as [|? ? Hn _]; apply Hn; cbn; auto.
  - exfalso. inversion FA as [|? ? H1 FA']; subst. inversion FA' as [|? ? H2 FA'']; subst.
    inversion FA'' as [|? ? H3 _]; subst.
    apply Hname in H1, H2, H3. cbn [map] in ND.
    inversion ND as [|? ? N1 ND']; subst. inversion ND' as [|? ? N2 _]; subst.
    cbn [In] in N1, N2.
    destruct H1 as [E1|E1], H2 as [E2|E2], H3 as [E3|E3]; rewrite E1, E2, E3 in *; tauto.
Qed.

(* ------------------------------------------------------------------------------------ *)
(* LinearRegressor                                                                      *)
(* ------------------------------------------------------------------------------------ *)

(* CARVE-OUT (intercepts given as an EMPTY list).  S treats it like an absent attribute (nothing
   added); M (and Go) build a tensor of shape [0] and UnidirectionalBroadcast refuses it.  A tensor
   with a zero extent cannot even be built by the real tensor library, so this is excluded. *)
Definition linreg_intercepts_ok (attrs : list attr) : bool :=
  match find_floats "intercepts" attrs with Some [] => false | _ => true end.

Example linreg_disagree_empty_intercepts :
  let attrs := [AFloats "coefficients" [1; 2; 3]; AFloats "intercepts" []] in
  linreg_s attrs x23 = SMust [Some (T32 [2%nat; 1%nat] [14; 32])] /\
  one (linreg_m attrs x23) = MErr /\ linreg_intercepts_ok attrs = false.
Proof. vm_compute. auto. Qed.

(* empty coefficients, non-positive targets: both refuse *)
Example linreg_agree_corners :
  linreg_s [AFloats "coefficients" []] x23 = SMustErr /\ one (linreg_m [AFloats "coefficients" []] x23) = MErr /\
  linreg_s [AFloats "coefficients" [1; 2; 3]; AInt "targets" (-1)] x23 = SMustErr /\
  one (linreg_m [AFloats "coefficients" [1; 2; 3]; AInt "targets" (-1)] x23) = MErr.
Proof. vm_compute. auto. Qed.

(* the intercept of target t, as the specification selects it *)
Definition icv (ic : list Z) (T t : nat) : option Z :=
  match ic with
  | [] => Some 0
  | [v] => Some v
  | _ => if (List.length ic =? T)%nat then Some (nth t ic 0) else None
  end.

Lemma linreg_s_unfold attrs x :
  linreg_s attrs x =
  let targets := match find_int "targets" attrs with Some v => v | None => 1 end in
  match find_floats "coefficients" attrs with
  | None => SMustErr
  | Some co =>
      let n := Z.of_nat (List.length co) in
      if targets <=? 0 then SMustErr
      else if negb (targets * (n / targets) =? n) then SMustErr
      else
        let T := Z.to_nat targets in let F := Z.to_nat (n / targets) in
        if negb ((List.length (sh x) =? 2)%nat && (nth 1 (sh x) 0 =? F)%nat) then SMustErr
        else
          let N := nth 0 (sh x) 0%nat in
          let ic := match find_floats "intercepts" attrs with Some l => l | None => [] end in
          if match icv ic T 0%nat with None => true | _ => false end then SMustErr
          else must_or_either (dt x) (Some (vz Float32 (tabulate [N; T] (fun i =>
                 sumk 0 Z.add F (fun f => get 0 (tz x) [nth 0 i 0%nat; f] * nth (nth 1 i 0 * F + f)%nat co 0)
                 + match icv ic T (nth 1 i 0%nat) with Some v => v | None => 0 end))))
  end.
Proof. reflexivity. Qed.

Lemma icv_ok ic T t : ic <> [] -> okn T (List.length ic) = true ->
  icv ic T t = Some (match ic with [v] => v | _ => nth t ic 0 end).
Proof.
  intros Hne O. destruct ic as [|v [|w ic]]; [congruence|reflexivity|].
  unfold icv. unfold okn in O. change (List.length (v :: w :: ic) =? 1)%nat with false in O.
  rewrite orb_false_r in O. now rewrite O.
Qed.

Lemma icv_err ic T t : ic <> [] -> okn T (List.length ic) = false -> icv ic T t = None.
Proof.
  intros Hne O. destruct ic as [|v [|w ic]]; [congruence| |].
  - unfold okn in O. change (List.length [v] =? 1)%nat with true in O. now rewrite orb_true_r in O.
  - unfold icv. unfold okn in O. change (List.length (v :: w :: ic) =? 1)%nat with false in O.
    rewrite orb_false_r in O. now rewrite O.
Qed.

Section LinReg.
Variables (t : tensor Z) (T F : nat) (co : list Z).
Let w := transpose2 (mkT [T; F] co).

Lemma linreg_g_matmul2 :
  g_matmul2 0 Z.add Z.mul t w =
  if (List.length (tshape t) =? 2)%nat && (nth 1 (tshape t) 0 =? F)%nat
  then MOk (mm2 0 Z.add Z.mul t w) else MErr.
Proof.
  unfold g_matmul2, rank, MatMul.ext, w, transpose2. cbn [tabulate tshape nth List.length Nat.eqb].
  now rewrite andb_true_r.
Qed.

Lemma linreg_mm2 : nth 1 (tshape t) 0%nat = F ->
  mm2 0 Z.add Z.mul t w =
  tabulate [nth 0 (tshape t) 0%nat; T] (fun i =>
    sumk 0 Z.add F (fun f => get 0 t [nth 0 i 0%nat; f] * nth (nth 1 i 0 * F + f)%nat co 0)).
Proof.
  intros HF. unfold mm2, MatMul.ext. rewrite HF.
  change (nth 1 (tshape w) 0%nat) with T.
  apply tabulate_ext. intros i Hv. apply valid2 in Hv as (_ & Hi & Hj).
  rewrite dotk_sumk. apply sumk_ext. intros k Hk. f_equal.
  unfold w. rewrite get_transpose2 by (cbn [tshape nth]; assumption).
  unfold get. cbn [tshape tdata flat numel]. f_equal. lia.
Qed.
End LinReg.

Theorem linreg_refines attrs x :
  positive (sh x) -> linreg_intercepts_ok attrs = true ->
  refines (linreg_s attrs x) (one (linreg_m attrs x)).
Proof.
  intros P Hic. rewrite linreg_s_unfold. unfold linreg_m. cbv zeta.
  set (targets := match find_int "targets" attrs with Some v => v | None => 1 end).
  destruct (find_floats "coefficients" attrs) as [co|]; [|reflexivity].
  destruct (targets <=? 0) eqn:Ht; [reflexivity|]. apply Z.leb_gt in Ht.
  destruct (negb (_ =? _)); [reflexivity|].
  set (T := Z.to_nat targets). set (F := Z.to_nat (Z.of_nat (List.length co) / targets)).
  assert (HT : (1 <= T)%nat) by (unfold T; lia).
  destruct (is_f32 (dt x)) eqn:Hf; cbn [negb].
  2:{ destruct (negb (_ && _)); [reflexivity|].
      destruct (match icv _ _ _ with None => true | _ => false end); [reflexivity|].
      now apply refines_moe_err. }
  rewrite (linreg_g_matmul2 (tz x) T F co). cbn [tz tshape].
  destruct ((List.length (sh x) =? 2)%nat && (nth 1 (sh x) 0 =? F)%nat) eqn:Hr; cbn [negb mbind];
    [|reflexivity].
  apply andb_true_iff in Hr as [R HF]. apply Nat.eqb_eq in R, HF.
  rewrite (linreg_mm2 (tz x) T F co HF). cbn [tz tshape].
  set (N := nth 0 (sh x) 0%nat).
  assert (HN : (1 <= N)%nat) by (apply P; lia).
  unfold linreg_intercepts_ok in Hic.
  destruct (find_floats "intercepts" attrs) as [ic|].
  - assert (Hne : ic <> []) by (destruct ic; [discriminate|congruence]).
    match goal with |- context [unidir_broadcast 0 ?r0 _] => set (r := r0) end.
    assert (Pr : positive (tshape r)) by (apply positive2; assumption).
    rewrite (unidir_vec r ic (wf_tabulate _ _) Pr) by (cbn; lia).
    change (nth (List.length (tshape r) - 1) (tshape r) 1%nat) with T.
    destruct (okn T (List.length ic)) eqn:O; cbn [mbind].
    + rewrite (icv_ok ic T 0%nat Hne O).
      unfold bcast_to, r. cbn [tshape]. rewrite zmap2_tabulate.
      erewrite tabulate_ext; [apply (refines_moe_ok (dt x))|].
      intros i Hv. cbn beta. apply valid_length in Hv.
      rewrite (icv_ok ic T _ Hne O), (bcast_vec_get ic i 1%nat Hv). reflexivity.
    + rewrite (icv_err ic T 0%nat Hne O). reflexivity.
  - cbn [icv one mmap].
    erewrite tabulate_ext; [apply (refines_moe_ok (dt x))|].
    intros i _. cbn beta. now rewrite Z.add_0_r.
Qed.

(* ------------------------------------------------------------------------------------ *)
(* the same, on the cases the Check module decides: spec c / model c of Check/CheckC04.v  *)
(* ------------------------------------------------------------------------------------ *)

Theorem C04_gemm_case c a b cc :
  oc_op c = "Gemm"%string -> (oc_ins c = [Some a; Some b; cc] \/ (oc_ins c = [Some a; Some b] /\ cc = None)) ->
  positive (sh a) -> positive (sh b) ->
  match cc with Some ct => wf (tz ct) /\ positive (sh ct) | None => True end ->
  refines (spec c) (model c).
Proof.
  intros Ho Hi Pa Pb Hc. unfold spec, model. rewrite Ho. cbn [String.eqb Ascii.eqb Bool.eqb].
  destruct Hi as [-> | [-> ->]]; now apply gemm_refines.
Qed.

Theorem C04_linreg_case c x :
  oc_op c = "LinearRegressor"%string -> oc_ins c = [Some x] ->
  positive (sh x) -> linreg_intercepts_ok (oc_attrs c) = true ->
  refines (spec c) (model c).
Proof.
  intros Ho Hi P Hic. unfold spec, model. rewrite Ho, Hi. cbn [String.eqb Ascii.eqb Bool.eqb].
  now apply linreg_refines.
Qed.

Theorem C04_scaler_case c x :
  oc_op c = "Scaler"%string -> oc_ins c = [Some x] ->
  wf (tz x) -> positive (sh x) -> scaler_attrs_ok (oc_attrs c) = true -> scaler_rank_ok x = true ->
  refines (spec c) (model c).
Proof.
  intros Ho Hi W P Ha Hr. unfold spec, model. rewrite Ho, Hi. cbn [String.eqb Ascii.eqb Bool.eqb].
  now apply scaler_refines.
Qed.

Print Assumptions C04_gemm_case.
Print Assumptions C04_linreg_case.
Print Assumptions C04_scaler_case.
Print Assumptions gemm_refines.
Print Assumptions linreg_refines.
Print Assumptions scaler_refines.
