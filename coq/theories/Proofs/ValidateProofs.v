(* validateShapes: the acceptance condition in the property's words. *)
From Coq Require Import List String Bool Arith ZArith Lia.
From V Require Import Run.
Import ListNotations.
Open Scope string_scope.

Definition dim_ok (d : dim) (n : nat) : Prop := d = DDyn \/ d = DFixed (Z.of_nat n).

Lemma dims_match_spec decl s :
  dims_match decl s = true <-> List.length decl = List.length s /\ Forall2 dim_ok decl s.
Proof.
  unfold dims_match. rewrite andb_true_iff, Nat.eqb_eq. split.
  - intros [L H]. split; [exact L|]. revert s L H.
    induction decl as [|d decl IH]; intros [|n s] L H; cbn in *; try discriminate; constructor.
    + apply andb_true_iff in H as [H _]. destruct d as [v|]; [right|now left].
      apply Z.eqb_eq in H. now subst.
    + apply IH; [lia|]. now apply andb_true_iff in H as [_ H].
  - intros [L F]. split; [exact L|]. clear L.
    induction F as [|d n decl s Hd F IH]; cbn; [reflexivity|].
    apply andb_true_iff; split; [|exact IH].
    destruct Hd as [->| ->]; [reflexivity|apply Z.eqb_refl].
Qed.

Section V.
Variable T attrs : Type.
Variable shape_of : T -> list nat.
Variable op_sem : string -> attrs -> list (option T) -> xres (list (option T)).
Variable supported : string -> bool.

(* Run accepts a set of supplied tensors iff every declared input that carries a shape is a
   parameter (initializer) or is supplied with the declared rank and with every fixed dimension
   equal to the declaration; dynamic dimensions accept any size; other supplied tensors are
   ignored *)
Theorem validate_shapes_spec (g : graph T attrs) feed :
  validate_shapes T attrs shape_of g feed = true <->
  forall n decl, In (n, decl) (input_shapes T attrs g) ->
    is_param T attrs g n = true \/
    exists t decl', lookup_last feed n = Some t /\ lookup_last (input_shapes T attrs g) n = Some decl' /\
                    List.length decl' = List.length (shape_of t) /\ Forall2 dim_ok decl' (shape_of t).
Proof.
  unfold validate_shapes. rewrite forallb_forall. split.
  - intros H n decl I. specialize (H (n, decl) I). cbn [fst] in H.
    apply orb_true_iff in H as [H|H]; [now left|right].
    destruct (lookup_last feed n) as [t|]; [|discriminate].
    destruct (lookup_last (input_shapes T attrs g) n) as [decl'|]; [|discriminate].
    apply dims_match_spec in H. exists t, decl'. tauto.
  - intros H [n decl] I. cbn [fst]. apply orb_true_iff.
    destruct (H n decl I) as [P|(t & decl' & E1 & E2 & L & F)]; [now left|right].
    rewrite E1, E2. apply dims_match_spec. tauto.
Qed.

(* a rejected Run is an error reported before any node runs: the outcome does not depend on the
   node list at all, and (the model being a pure function) nothing is touched *)
Theorem rejected_before_any_node (g : graph T attrs) feed :
  validate_shapes T attrs shape_of g feed = false ->
  run_model T attrs shape_of op_sem supported g feed = XErr RShape.
Proof. unfold run_model. now intros ->. Qed.

Theorem accepted_runs_the_nodes (g : graph T attrs) feed :
  validate_shapes T attrs shape_of g feed = true ->
  run_model T attrs shape_of op_sem supported g feed =
  xbind (run_nodes T attrs op_sem supported (env0 T attrs g feed) (g_nodes g)) (fun e => collect T e (g_outputs g)).
Proof. unfold run_model. now intros ->. Qed.

(* extra tensors are ignored by validation *)
Theorem extra_tensors_ignored (g : graph T attrs) feed x t :
  (forall n decl, In (n, decl) (input_shapes T attrs g) -> n <> x) ->
  lookup_last feed x = None ->
  validate_shapes T attrs shape_of g ((x, t) :: feed) = validate_shapes T attrs shape_of g feed.
Proof.
  intros N _. unfold validate_shapes.
  assert (X : forall (l : list (string * list dim)) f1 f2,
             (forall p, In p l -> f1 p = f2 p) -> forallb f1 l = forallb f2 l).
  { induction l as [|p l IH]; intros f1 f2 E; cbn; [reflexivity|].
    rewrite (E p) by now left. f_equal. apply IH. intros q Iq. apply E. now right. }
  apply X. intros [n decl] I. cbn [fst].
  specialize (N n decl I). f_equal. cbn [lookup_last].
  destruct (lookup_last feed n); [reflexivity|].
  destruct (String.eqb_spec x n); [congruence|reflexivity].
Qed.
End V.
