(* C08: the value S prescribes for Transpose is the ONNX index formula -- for any permutation
   perm of the axes, out[i] = in[j] where j[perm[k]] = i[k] for every axis k; the output shape
   is the permuted input shape; the result is a well-formed tensor of the input's element type *)
From Coq Require Import List ZArith Bool Lia String Arith.
From V Require Import DType Tensor Case Slice Broadcast IndexOps.
Import ListNotations.
Local Open Scope nat_scope.

Lemma transpose_idx_formula (perm : list nat) (r : nat) (i : list nat) (k : nat) :
  List.length perm = r -> NoDup perm -> (forall a, In a perm -> a < r) -> k < r ->
  nth (nth k perm 0) (transpose_idx perm r i) 0 = nth k i 0.
Proof.
  intros Hlen Hnd Hrange Hk. unfold transpose_idx.
  set (F := fun a => match find (fun k' => Nat.eqb (nth k' perm 0) a) (seq 0 r) with Some k' => nth k' i 0 | None => 0 end).
  assert (Ha : nth k perm 0 < r) by (apply Hrange, nth_In; lia).
  rewrite (nth_indep _ 0 (F 0)) by (rewrite map_length, seq_length; exact Ha).
  rewrite map_nth, seq_nth by exact Ha. cbn [plus]. unfold F.
  destruct (find _ (seq 0 r)) as [k'|] eqn:Hf.
  - apply find_some in Hf as [Hin Heq]. apply in_seq in Hin. apply Nat.eqb_eq in Heq.
    assert (k' = k) as -> by (apply (proj1 (NoDup_nth perm 0) Hnd); lia). reflexivity.
  - exfalso. pose proof (find_none _ _ Hf k) as Hn. cbv beta in Hn. rewrite Nat.eqb_refl in Hn.
    assert (In k (seq 0 r)) as Hin by (apply in_seq; lia). specialize (Hn Hin). discriminate.
Qed.

Lemma transpose_value_shape t perm : sh (transpose_value t perm) = map (nthz (sh t)) perm /\ dt (transpose_value t perm) = dt t.
Proof. split; reflexivity. Qed.

Lemma transpose_value_wf t perm : List.length (pl (transpose_value t perm)) = numel (sh (transpose_value t perm)).
Proof. unfold transpose_value, of_tensor. cbn [pl sh]. apply wf_tabulate. Qed.

Lemma transpose_value_element t perm i :
  valid (sh (transpose_value t perm)) i ->
  get 0%Z (tz (transpose_value t perm)) i = get 0%Z (tz t) (transpose_idx perm (List.length (sh t)) i).
Proof.
  intros Hv. unfold transpose_value, of_tensor, tz in *. cbn [sh pl] in *.
  exact (get_tabulate 0%Z _ _ i Hv).
Qed.

Lemma transpose_spec_is_formula t (perm : list nat) :
  List.length perm = List.length (sh t) -> NoDup perm -> (forall a, In a perm -> a < List.length (sh t)) ->
  sh (transpose_value t perm) = map (fun a => nth a (sh t) 0) perm /\
  dt (transpose_value t perm) = dt t /\
  List.length (pl (transpose_value t perm)) = numel (sh (transpose_value t perm)) /\
  forall i, valid (sh (transpose_value t perm)) i ->
    exists j, get 0%Z (tz (transpose_value t perm)) i = get 0%Z (tz t) j /\
              List.length j = List.length (sh t) /\
              forall k, k < List.length (sh t) -> nth (nth k perm 0) j 0 = nth k i 0.
Proof.
  intros Hlen Hnd Hr. split; [reflexivity|]. split; [reflexivity|]. split; [apply transpose_value_wf|].
  intros i Hv. exists (transpose_idx perm (List.length (sh t)) i). split; [now apply transpose_value_element|].
  split; [unfold transpose_idx; now rewrite map_length, seq_length|].
  intros k Hk. now apply transpose_idx_formula.
Qed.
