(* Properties of the real-number Softmax / LogSoftmax specification (Spec/SoftmaxSpec.v). *)
From Coq Require Import Reals List Lra.
From V Require Import SoftmaxSpec.
Import ListNotations.
Open Scope R_scope.

(* ---------------- sums ---------------- *)
Lemma sum_list_cons : forall a l, sum_list (a :: l) = a + sum_list l.
Proof. reflexivity. Qed.

Lemma sum_list_nonneg : forall l, (forall x, In x l -> 0 <= x) -> 0 <= sum_list l.
Proof.
  induction l as [|a t IH]; intros Hpos.
  - simpl. lra.
  - rewrite sum_list_cons.
    assert (Ha : 0 <= a) by (apply Hpos; left; reflexivity).
    assert (Ht : 0 <= sum_list t) by (apply IH; intros x Hx; apply Hpos; right; exact Hx).
    lra.
Qed.

Lemma sum_list_pos : forall l, l <> [] -> (forall x, In x l -> 0 < x) -> 0 < sum_list l.
Proof.
  intros l Hne Hpos. destruct l as [|a t].
  - exfalso. apply Hne. reflexivity.
  - rewrite sum_list_cons.
    assert (Ha : 0 < a) by (apply Hpos; left; reflexivity).
    assert (Ht : 0 <= sum_list t).
    { apply sum_list_nonneg. intros x Hx. apply Rlt_le. apply Hpos. right. exact Hx. }
    lra.
Qed.

Lemma sum_list_member_le : forall l a, (forall x, In x l -> 0 <= x) -> In a l -> a <= sum_list l.
Proof.
  induction l as [|b t IH]; intros a Hpos Hin.
  - destruct Hin.
  - rewrite sum_list_cons.
    assert (Hb : 0 <= b) by (apply Hpos; left; reflexivity).
    assert (Ht : forall x, In x t -> 0 <= x) by (intros x Hx; apply Hpos; right; exact Hx).
    destruct Hin as [Heq | Hin].
    + subst b. pose proof (sum_list_nonneg t Ht) as H0. lra.
    + pose proof (IH a Ht Hin) as H1. lra.
Qed.

Lemma sum_list_map_div : forall (f : R -> R) (c : R) (l : list R),
  sum_list (map (fun x => f x / c) l) = sum_list (map f l) / c.
Proof.
  intros f c. induction l as [|a t IH].
  - simpl. unfold Rdiv. rewrite Rmult_0_l. reflexivity.
  - simpl map. rewrite !sum_list_cons. rewrite IH. unfold Rdiv. ring.
Qed.

Lemma sum_list_map_scale : forall (f : R -> R) (c : R) (l : list R),
  sum_list (map (fun x => f x * c) l) = sum_list (map f l) * c.
Proof.
  intros f c. induction l as [|a t IH].
  - simpl. ring.
  - simpl map. rewrite !sum_list_cons. rewrite IH. ring.
Qed.

Lemma map_ext_in_R : forall (A B : Type) (f g : A -> B) (l : list A),
  (forall x, In x l -> f x = g x) -> map f l = map g l.
Proof.
  intros A B f g. induction l as [|a t IH]; intros H.
  - reflexivity.
  - simpl. rewrite (H a (or_introl eq_refl)). rewrite IH.
    + reflexivity.
    + intros x Hx. apply H. right. exact Hx.
Qed.

(* ---------------- the denominator ---------------- *)
Lemma sum_exp_pos : forall l, l <> [] -> 0 < sum_list (map exp l).
Proof.
  intros l Hne. apply sum_list_pos.
  - intro H. apply Hne. destruct l; [reflexivity | discriminate H].
  - intros x Hx. apply in_map_iff in Hx. destruct Hx as [y [Hy _]]. subst x. apply exp_pos.
Qed.

Lemma exp_shift : forall x m, exp (x - m) = exp x * exp (- m).
Proof. intros x m. unfold Rminus. apply exp_plus. Qed.

Lemma sum_exp_shift : forall m l,
  sum_list (map (fun y => exp (y - m)) l) = sum_list (map exp l) * exp (- m).
Proof.
  intros m l. rewrite <- sum_list_map_scale. f_equal.
  apply map_ext_in_R. intros x _. apply exp_shift.
Qed.

Lemma sum_exp_shift_pos : forall m l, l <> [] -> 0 < sum_list (map (fun y => exp (y - m)) l).
Proof.
  intros m l Hne. rewrite sum_exp_shift.
  apply Rmult_lt_0_compat; [apply sum_exp_pos; exact Hne | apply exp_pos].
Qed.

(* ---------------- Softmax ---------------- *)
Theorem softmax_nonneg : forall l, l <> [] -> Forall (fun p => 0 < p) (softmax l).
Proof.
  intros l Hne. unfold softmax. apply Forall_forall. intros p Hp.
  apply in_map_iff in Hp. destruct Hp as [x [Hx _]]. subst p.
  apply Rdiv_lt_0_compat; [apply exp_pos | apply sum_exp_pos; exact Hne].
Qed.

Theorem softmax_sum_one : forall l, l <> [] -> sum_list (softmax l) = 1.
Proof.
  intros l Hne. unfold softmax.
  rewrite (sum_list_map_div exp (sum_list (map exp l)) l).
  pose proof (sum_exp_pos l Hne) as Hpos.
  unfold Rdiv. apply Rinv_r. lra.
Qed.

(* shift invariance: the stable form computes the same function *)
Theorem softmax_shift_eq : forall m l, l <> [] -> softmax_shift m l = softmax l.
Proof.
  intros m l Hne. unfold softmax_shift, softmax.
  rewrite sum_exp_shift.
  pose proof (sum_exp_pos l Hne) as Hpos.
  pose proof (exp_pos (- m)) as Hem.
  apply map_ext_in_R. intros x _. rewrite exp_shift.
  field. split; lra.
Qed.

Theorem softmax_le_one : forall l, l <> [] -> Forall (fun p => p <= 1) (softmax l).
Proof.
  intros l Hne. unfold softmax. apply Forall_forall. intros p Hp.
  apply in_map_iff in Hp. destruct Hp as [x [Hx Hin]]. subst p.
  pose proof (sum_exp_pos l Hne) as Hpos.
  assert (Hle : exp x <= sum_list (map exp l)).
  { apply sum_list_member_le.
    - intros y Hy. apply in_map_iff in Hy. destruct Hy as [z [Hz _]]. subst y.
      apply Rlt_le. apply exp_pos.
    - apply in_map. exact Hin. }
  apply (Rmult_le_reg_r (sum_list (map exp l))); [exact Hpos|].
  unfold Rdiv. rewrite Rmult_assoc. rewrite Rinv_l by lra. lra.
Qed.

(* ---------------- LogSoftmax ---------------- *)
Theorem logsoftmax_is_ln_softmax : forall l, l <> [] -> logsoftmax l = map ln (softmax l).
Proof.
  intros l Hne. unfold logsoftmax, softmax. rewrite map_map.
  pose proof (sum_exp_pos l Hne) as Hpos.
  apply map_ext_in_R. intros x _.
  unfold Rdiv. rewrite ln_mult; [| apply exp_pos | apply Rinv_0_lt_compat; exact Hpos].
  rewrite ln_exp. rewrite ln_Rinv by exact Hpos. ring.
Qed.

Theorem logsoftmax_shift_eq : forall m l, l <> [] -> logsoftmax_shift m l = logsoftmax l.
Proof.
  intros m l Hne. unfold logsoftmax_shift, logsoftmax.
  rewrite sum_exp_shift.
  pose proof (sum_exp_pos l Hne) as Hpos.
  rewrite ln_mult; [| exact Hpos | apply exp_pos].
  rewrite ln_exp.
  apply map_ext_in_R. intros x _. ring.
Qed.

(* ---------------- why the stable form does not overflow ---------------- *)
(* with m an upper bound of the slice, no exponent is positive (so no exponential exceeds 1) *)
Theorem stable_exponents : forall m l,
  (forall x, In x l -> x <= m) -> Forall (fun x => x - m <= 0) l.
Proof.
  intros m l Hub. apply Forall_forall. intros x Hx. pose proof (Hub x Hx) as H. lra.
Qed.

Corollary stable_exponentials_le_one : forall m l,
  (forall x, In x l -> x <= m) -> Forall (fun x => 0 < exp (x - m) <= 1) l.
Proof.
  intros m l Hub. apply Forall_forall. intros x Hx. split; [apply exp_pos|].
  pose proof (Hub x Hx) as H.
  destruct (Req_dec x m) as [Heq | Hneq].
  - subst x. unfold Rminus. rewrite Rplus_opp_r. rewrite exp_0. lra.
  - rewrite <- exp_0. apply Rlt_le. apply exp_increasing. lra.
Qed.

(* with m the maximum of the slice (a member and an upper bound), the denominator is at least 1 *)
Theorem stable_denominator : forall m l,
  In m l -> (forall x, In x l -> x <= m) -> 1 <= sum_list (map (fun y => exp (y - m)) l).
Proof.
  intros m l Hin _.
  assert (H1 : exp (m - m) <= sum_list (map (fun y => exp (y - m)) l)).
  { apply sum_list_member_le.
    - intros y Hy. apply in_map_iff in Hy. destruct Hy as [z [Hz _]]. subst y.
      apply Rlt_le. apply exp_pos.
    - apply (in_map (fun y => exp (y - m))). exact Hin. }
  unfold Rminus in H1 at 1. rewrite Rplus_opp_r in H1. rewrite exp_0 in H1. exact H1.
Qed.

(* and at most the number of elements *)
Theorem stable_denominator_upper : forall m l,
  (forall x, In x l -> x <= m) -> sum_list (map (fun y => exp (y - m)) l) <= INR (length l).
Proof.
  intros m. induction l as [|a t IH]; intros Hub.
  - simpl. lra.
  - simpl map. rewrite sum_list_cons. change (length (a :: t)) with (S (length t)). rewrite S_INR.
    assert (Ht : sum_list (map (fun y => exp (y - m)) t) <= INR (length t)).
    { apply IH. intros x Hx. apply Hub. right. exact Hx. }
    pose proof (stable_exponentials_le_one m (a :: t) Hub) as HF.
    rewrite Forall_forall in HF. pose proof (HF a (or_introl eq_refl)) as [_ Ha]. lra.
Qed.

(* ---------------- along the requested axis only ---------------- *)
Theorem softmax_slices_length : forall ls, length (softmax_slices ls) = length ls.
Proof. intros ls. unfold softmax_slices. apply map_length. Qed.

Theorem softmax_length : forall l, length (softmax l) = length l.
Proof. intros l. unfold softmax. apply map_length. Qed.

(* slice k of the result depends only on slice k of the input *)
Theorem softmax_slices_nth : forall ls k, (k < length ls)%nat ->
  nth k (softmax_slices ls) [] = softmax (nth k ls []).
Proof.
  intros ls k Hk. unfold softmax_slices.
  rewrite (nth_indep (map softmax ls) [] (softmax [])) by (rewrite map_length; exact Hk).
  apply map_nth.
Qed.

Corollary softmax_slices_local : forall ls ls' k, (k < length ls)%nat -> (k < length ls')%nat ->
  nth k ls [] = nth k ls' [] -> nth k (softmax_slices ls) [] = nth k (softmax_slices ls') [].
Proof.
  intros ls ls' k Hk Hk' Heq.
  rewrite (softmax_slices_nth ls k Hk), (softmax_slices_nth ls' k Hk'), Heq. reflexivity.
Qed.

Print Assumptions softmax_sum_one.
Print Assumptions softmax_shift_eq.
