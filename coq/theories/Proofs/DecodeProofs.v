(* The decoder model (Model/Decode.v) refines the specification of Check/CheckC12.v, and the
   fixed-width readers invert the little-endian encoder for every width and length. *)
From Coq Require Import List ZArith Lia Bool.
From V Require Import DType Case OpCheck Scalar Decode CheckC12.
Import ListNotations.
Open Scope Z_scope.

Definition refines (s : spec_out) (m : mres (list (option tval))) : Prop :=
  match s with
  | SMust v => m = MOk v
  | SMustErr => m = MErr
  | SEither v => m = MOk v \/ m = MErr
  | SOutOfDomain => True
  end.

(* ---------- helpers: encoder / little-endian value ---------- *)
Lemma enc_length w x : List.length (enc w x) = w.
Proof. revert x; induction w as [|w IH]; intros x; cbn [enc List.length]; auto. Qed.

Lemma le_enc w x : 0 <= x < 256 ^ Z.of_nat w -> le (enc w x) = x.
Proof.
  revert x. induction w as [|w IH]; intros x Hx.
  - cbn in *. lia.
  - cbn [enc le]. rewrite Nat2Z.inj_succ, Z.pow_succ_r in Hx by lia.
    rewrite IH; [pose proof (Z.div_mod x 256); lia|].
    split; [apply Z.div_pos; lia|apply Z.div_lt_upper_bound; lia].
Qed.

Lemma flat_map_enc_length w l : List.length (flat_map (enc w) l) = (w * List.length l)%nat.
Proof.
  induction l as [|x l IH]; cbn [flat_map List.length]; [lia|].
  rewrite app_length, enc_length, IH. lia.
Qed.

Lemma read_loop_roundtrip w xs : (0 < w)%nat ->
  Forall (fun x => 0 <= x < 256 ^ Z.of_nat w) xs ->
  forall fuel acc, (List.length xs < fuel)%nat ->
  read_loop fuel w w (flat_map (enc w) xs) acc = ROk (rev acc ++ xs).
Proof.
  intros Hw F. induction F as [|x xs Hx F IH]; intros fuel acc Hf.
  - destruct fuel as [|fuel]; [cbn in Hf; lia|]. cbn [flat_map read_loop]. now rewrite app_nil_r.
  - destruct fuel as [|fuel]; [cbn in Hf; lia|]. cbn [flat_map read_loop].
    destruct (enc w x ++ flat_map (enc w) xs) as [|b r] eqn:E.
    + exfalso. assert (L : List.length (enc w x ++ flat_map (enc w) xs) = 0%nat) by now rewrite E.
      rewrite app_length, enc_length in L. lia.
    + rewrite <- E. rewrite firstn_app, enc_length, Nat.sub_diag, firstn_O, app_nil_r.
      rewrite firstn_all2 by (rewrite enc_length; lia). rewrite enc_length, Nat.eqb_refl.
      rewrite skipn_app, enc_length, Nat.sub_diag, skipn_O.
      rewrite skipn_all2 by (rewrite enc_length; lia). cbn [app].
      rewrite IH by (cbn [List.length] in Hf; lia). cbn [rev]. rewrite <- app_assoc. cbn [app].
      now rewrite le_enc.
Qed.

(* TARGET 1: every reader whose buffer has the element size decodes what the encoder wrote *)
Theorem read_array_roundtrip w xs : (0 < w)%nat ->
  Forall (fun x => 0 <= x < 256 ^ Z.of_nat w) xs ->
  read_array w w (flat_map (enc w) xs) = ROk xs.
Proof.
  intros Hw F. unfold read_array. rewrite read_loop_roundtrip with (xs := xs); auto.
  rewrite flat_map_enc_length. nia.
Qed.

Lemma read_loop_partial w : (0 < w)%nat -> forall fuel data acc,
  (List.length data mod w <> 0)%nat ->
  match read_loop fuel w w data acc with ROk _ => False | _ => True end.
Proof.
  intros Hw. induction fuel as [|f IH]; intros data acc Hm; cbn [read_loop]; [exact I|].
  destruct data as [|b r].
  - cbn [List.length] in Hm. rewrite Nat.mod_0_l in Hm by lia. congruence.
  - destruct (Nat.eqb (List.length (firstn w (b :: r))) w) eqn:E; [|exact I].
    apply Nat.eqb_eq in E. apply IH. rewrite skipn_length.
    rewrite firstn_length in E.
    assert (Hle : (w <= List.length (b :: r))%nat) by lia.
    intros Hz. apply Hm.
    replace (List.length (b :: r)) with ((List.length (b :: r) - w) + 1 * w)%nat by lia.
    rewrite Nat.mod_add by lia. exact Hz.
Qed.

(* TARGET 2: a payload that is not a whole number of elements is refused *)
Theorem read_fixed_partial w data : (0 < w)%nat ->
  (List.length data mod w <> 0)%nat -> read_fixed w data = None.
Proof.
  intros Hw Hm. unfold read_fixed, read_array.
  pose proof (read_loop_partial w Hw (S (List.length data)) data [] Hm) as H.
  destruct (read_loop (S (List.length data)) w w data []); [contradiction|reflexivity|reflexivity].
Qed.

(* TARGET 3: the reader as first written for uint64 (4-byte buffer, 8-byte element) never decoded anything *)
Theorem uint64_reader_never_decoded data : data <> [] -> read_array 4 8 data = RNilNil.
Proof.
  intros H. unfold read_array. destruct data as [|b r]; [contradiction|]. cbn [List.length read_loop].
  destruct (Nat.eqb (List.length (firstn 4 (b :: r))) 8) eqn:E; [|reflexivity].
  apply Nat.eqb_eq in E. pose proof (firstn_le_length 4 (b :: r)). lia.
Qed.

(* TARGET 4: the model never panics and every tensor it returns has the declared dims and as many
   values as the dims say *)
Theorem tensor_from_proto_shape tp :
  match tensor_from_proto tp with
  | MOk t => sh t = map Z.to_nat (tp_dims tp) /\ Forall (fun d => 1 <= d) (tp_dims tp) /\
             Z.of_nat (List.length (pl t)) = zprod (tp_dims tp)
  | MErr => True
  | MPanic => False
  end.
Proof.
  unfold tensor_from_proto.
  destruct (decode_values tp) as [[d [vals|]]|]; [|exact I|exact I].
  destruct (existsb (fun x => x <? 1) (tp_dims tp)) eqn:He; [exact I|].
  destruct (Z.of_nat (List.length vals) =? zprod (tp_dims tp)) eqn:Hn; cbn [negb]; [|exact I].
  cbn [sh pl]. split; [reflexivity|]. split; [|now apply Z.eqb_eq].
  apply Forall_forall. intros x Hin. destruct (Z.ltb_spec x 1) as [Hlt|Hge]; [|exact Hge].
  exfalso. assert (Ht : existsb (fun x => x <? 1) (tp_dims tp) = true).
  { apply existsb_exists. exists x. split; [exact Hin|]. now apply Z.ltb_lt. }
  congruence.
Qed.

(* ---------- helpers: read loop = chunks ---------- *)
Lemma le_le_val bs : le bs = le_val bs.
Proof. induction bs as [|b r IH]; cbn [le le_val]; congruence. Qed.

Lemma read_loop_S f buf size data acc :
  read_loop (S f) buf size data acc =
  match data with
  | [] => ROk (rev acc)
  | _ => if Nat.eqb (List.length (firstn buf data)) size
         then read_loop f buf size (skipn buf data) (le (firstn buf data) :: acc)
         else RNilNil
  end.
Proof. reflexivity. Qed.

Lemma chunks_S f w bs :
  chunks (S f) w bs =
  match bs with
  | [] => Some []
  | _ => if (List.length bs <? w)%nat then None
         else option_map (cons (firstn w bs)) (chunks f w (skipn w bs))
  end.
Proof. reflexivity. Qed.

Lemma read_loop_chunks w : (0 < w)%nat -> forall fuel data acc,
  (List.length data <= fuel)%nat ->
  read_loop (S fuel) w w data acc =
  match chunks fuel w data with Some cs => ROk (rev acc ++ map le_val cs) | None => RNilNil end.
Proof.
  intros Hw. induction fuel as [|f IH]; intros data acc Hl.
  - destruct data as [|b r]; [|cbn [List.length] in Hl; lia].
    cbn [read_loop chunks map]. now rewrite app_nil_r.
  - destruct data as [|b r].
    + cbn [read_loop chunks map]. now rewrite app_nil_r.
    + rewrite read_loop_S, chunks_S. rewrite firstn_length.
      destruct (Nat.ltb_spec (List.length (b :: r)) w) as [Hlt|Hge].
      * replace (Nat.eqb (Nat.min w (List.length (b :: r))) w) with false
          by (symmetry; apply Nat.eqb_neq; lia).
        reflexivity.
      * replace (Nat.eqb (Nat.min w (List.length (b :: r))) w) with true
          by (symmetry; apply Nat.eqb_eq; lia).
        rewrite IH by (rewrite skipn_length; cbn [List.length] in *; lia).
        destruct (chunks f w (skipn w (b :: r))) as [cs|]; cbn [option_map map rev]; [|reflexivity].
        rewrite <- app_assoc. cbn [app]. now rewrite le_le_val.
Qed.

Lemma read_fixed_chunks w data : (0 < w)%nat ->
  read_fixed w data = option_map (map le_val) (chunks (List.length data) w data).
Proof.
  intros Hw. unfold read_fixed, read_array. rewrite read_loop_chunks by (assumption || lia).
  destruct (chunks (List.length data) w data); reflexivity.
Qed.

(* ---------- helpers: narrowing is the identity on in-range values ---------- *)
Lemma wrap_unsigned_id bits v : 0 <= bits -> 0 <= v < 2 ^ bits -> wrap bits false v = v.
Proof. intros Hb Hv. unfold wrap. cbn [andb]. now apply Z.mod_small. Qed.

Lemma wrap8s_id v : -128 <= v < 128 -> wrap 8 true v = v.
Proof.
  intros Hv. unfold wrap. change (2 ^ (8 - 1)) with 128. change (2 ^ 8) with 256. cbn [andb].
  pose proof (Z.mod_pos_bound v 256 ltac:(lia)) as Hm. pose proof (Z.div_mod v 256 ltac:(lia)) as Hd.
  destruct (Z.leb_spec 128 (v mod 256)) as [H|H]; lia.
Qed.

Lemma wrap16s_id v : -32768 <= v < 32768 -> wrap 16 true v = v.
Proof.
  intros Hv. unfold wrap. change (2 ^ (16 - 1)) with 32768. change (2 ^ 16) with 65536. cbn [andb].
  pose proof (Z.mod_pos_bound v 65536 ltac:(lia)) as Hm. pose proof (Z.div_mod v 65536 ltac:(lia)) as Hd.
  destruct (Z.leb_spec 32768 (v mod 65536)) as [H|H]; lia.
Qed.

Lemma map_id_forallb (p : Z -> bool) (f : Z -> Z) l :
  (forall v, p v = true -> f v = v) -> forallb p l = true -> map f l = l.
Proof.
  intros Hf. induction l as [|x l IH]; cbn [forallb map]; intros H; [reflexivity|].
  apply andb_true_iff in H as [H1 H2]. now rewrite Hf, IH.
Qed.

Lemma map_ext_forallb (p : Z -> bool) (f g : Z -> Z) l :
  (forall v, p v = true -> f v = g v) -> forallb p l = true -> map f l = map g l.
Proof.
  intros Hf. induction l as [|x l IH]; cbn [forallb map]; intros H; [reflexivity|].
  apply andb_true_iff in H as [H1 H2]. now rewrite Hf, IH.
Qed.

(* ---------- helpers: the declared payload ---------- *)
Definition raw_conv (d : dtype) (w : nat) (sg : bool) (us : list Z) : list Z :=
  match d with
  | DBool => map (fun v => if v =? 0 then 0 else 1) us
  | _ => if sg then map (fun u => if 2 ^ (8 * Z.of_nat w - 1) <=? u then u - 2 ^ (8 * Z.of_nat w) else u) us
         else us
  end.

Lemma dv_raw tp d w sg car : carrier_field car tp = [] -> (0 < w)%nat ->
  declared_values tp d w sg car = option_map (raw_conv d w sg) (read_fixed w (tp_raw tp)).
Proof.
  intros H Hw. unfold declared_values. rewrite H, read_fixed_chunks by assumption.
  destruct (chunks (List.length (tp_raw tp)) w (tp_raw tp)); reflexivity.
Qed.

Lemma dv_typed tp d w sg car x l : carrier_field car tp = x :: l ->
  declared_values tp d w sg car =
  Some (match d with DBool => map (fun v => if v =? 0 then 0 else 1) (x :: l) | _ => x :: l end).
Proof. intros H. unfold declared_values. rewrite H. reflexivity. Qed.

Lemma chunks1 bs : forall fuel, (List.length bs <= fuel)%nat ->
  chunks fuel 1 bs = Some (map (fun b => [b]) bs).
Proof.
  induction bs as [|b r IH]; intros fuel Hl.
  - destruct fuel; reflexivity.
  - destruct fuel as [|f]; [cbn [List.length] in Hl; lia|].
    rewrite chunks_S. cbn [List.length Nat.ltb Nat.leb firstn skipn].
    rewrite IH by (cbn [List.length] in Hl; lia). reflexivity.
Qed.

(* ---------- the domain of the property ---------- *)
Definition in_dom (tp : tproto) (d : dtype) (car : carrier) : Prop :=
  ((1 <? populated tp)%nat ||
   ((populated tp =? 1)%nat && negb (nonempty (tp_raw tp)) && negb (nonempty (carrier_field car tp)))) = false
  /\ forallb (in_range d) (carrier_field car tp) = true.

Lemma refines_supported c d w sg car g :
  type_info (tp_type (pc_tp c)) = Some (d, w, sg, car) ->
  decode_values (pc_tp c) = Some (d, g) ->
  (in_dom (pc_tp c) d car -> g = declared_values (pc_tp c) d w sg car) ->
  refines (spec c) (model c).
Proof.
  intros Hti Hdv Hg. unfold spec, model, tensor_from_proto. cbv zeta. rewrite Hti, Hdv.
  unfold in_dom in Hg.
  destruct ((1 <? populated (pc_tp c))%nat ||
            ((populated (pc_tp c) =? 1)%nat && negb (nonempty (tp_raw (pc_tp c))) &&
             negb (nonempty (carrier_field car (pc_tp c))))) eqn:Hp; [exact I|].
  destruct (forallb (in_range d) (carrier_field car (pc_tp c))) eqn:Hr; cbn [negb]; [|exact I].
  rewrite <- Hg by (split; reflexivity).
  destruct g as [vals|]; [|reflexivity].
  destruct (existsb (fun x => x <? 1) (tp_dims (pc_tp c))) eqn:He; [reflexivity|].
  destruct (Z.of_nat (List.length vals) =? zprod (tp_dims (pc_tp c))) eqn:Hn; cbn [negb mbind refines];
    reflexivity.
Qed.

Ltac dom_split tp Hd :=
  destruct tp as [t dims raw fl i32 i64 db u64];
  unfold in_dom, populated in Hd;
  cbn [tp_raw tp_float tp_int32 tp_int64 tp_double tp_uint64 carrier_field] in Hd;
  destruct Hd as [Hp Hr];
  destruct raw as [|b raw], fl as [|x1 fl], i32 as [|x2 i32], i64 as [|x3 i64],
           db as [|x4 db], u64 as [|x5 u64];
  cbn in Hp; try discriminate Hp; clear Hp.

(* the payload sits in the raw bytes *)
Ltac raw_case :=
  rewrite dv_raw by (reflexivity || lia); cbn [tp_raw];
  match goal with |- context [read_fixed ?w ?l] => destruct (read_fixed w l) as [us|] end;
  [cbn [option_map raw_conv] | reflexivity].

(* the payload sits in the typed field of the declared type *)
Ltac typed_case :=
  erewrite dv_typed by reflexivity; cbv iota; try reflexivity.

Lemma to_signed_conv bits w us : bits = 8 * Z.of_nat w ->
  map (to_signed bits) us =
  map (fun u => if 2 ^ (8 * Z.of_nat w - 1) <=? u then u - 2 ^ (8 * Z.of_nat w) else u) us.
Proof. intros ->. reflexivity. Qed.

Lemma dv_float tp : in_dom tp Float32 CFloat -> get_float tp = declared_values tp Float32 4 false CFloat.
Proof.
  intros Hd. dom_split tp Hd; unfold get_float; cbn [nonempty tp_raw tp_float].
  - reflexivity.
  - typed_case.
  - raw_case. reflexivity.
Qed.

Lemma dv_double tp : in_dom tp Float64 CDouble -> get_double tp = declared_values tp Float64 8 false CDouble.
Proof.
  intros Hd. dom_split tp Hd; unfold get_double; cbn [nonempty tp_raw tp_double].
  - reflexivity.
  - typed_case.
  - raw_case. reflexivity.
Qed.

Lemma dv_uint64 tp : in_dom tp Uint64 CUint64 -> get_uint64 tp = declared_values tp Uint64 8 false CUint64.
Proof.
  intros Hd. dom_split tp Hd; unfold get_uint64; cbn [nonempty tp_raw tp_uint64].
  - reflexivity.
  - typed_case.
  - raw_case. reflexivity.
Qed.

Lemma dv_int64 tp : in_dom tp Int64 CInt64 -> get_int64 tp = declared_values tp Int64 8 true CInt64.
Proof.
  intros Hd. dom_split tp Hd; unfold get_int64; cbn [nonempty tp_raw tp_int64].
  - reflexivity.
  - typed_case.
  - raw_case. f_equal; now apply to_signed_conv.
Qed.

Lemma dv_int32 tp : in_dom tp Int32 CInt32 -> get_int32 tp = declared_values tp Int32 4 true CInt32.
Proof.
  intros Hd. dom_split tp Hd; unfold get_int32; cbn [nonempty tp_raw tp_int32].
  - reflexivity.
  - typed_case.
  - raw_case. f_equal; now apply to_signed_conv.
Qed.

Lemma dv_uint32 tp : in_dom tp Uint32 CUint64 -> get_uint32 tp = declared_values tp Uint32 4 false CUint64.
Proof.
  intros Hd. dom_split tp Hd; unfold get_uint32; cbn [nonempty tp_raw tp_uint64].
  - reflexivity.
  - typed_case. f_equal. apply map_id_forallb with (p := in_range Uint32); [|exact Hr].
    intros v Hv. cbn [in_range] in Hv. apply andb_true_iff in Hv as [H1 H2].
    apply Z.leb_le in H1. apply Z.ltb_lt in H2.
    apply wrap_unsigned_id; [lia|]. change (2 ^ 32) with 4294967296. lia.
  - raw_case. reflexivity.
Qed.

Lemma dv_uint8 tp : in_dom tp Uint8 CInt32 -> get_uint8 tp = declared_values tp Uint8 1 false CInt32.
Proof.
  intros Hd. dom_split tp Hd; unfold get_uint8; cbn [nonempty tp_raw tp_int32].
  - reflexivity.
  - typed_case. f_equal. apply map_id_forallb with (p := in_range Uint8); [|exact Hr].
    intros v Hv. cbn [in_range] in Hv. apply andb_true_iff in Hv as [H1 H2].
    apply Z.leb_le in H1. apply Z.ltb_lt in H2.
    apply wrap_unsigned_id; [lia|]. change (2 ^ 8) with 256. lia.
  - raw_case. reflexivity.
Qed.

Lemma dv_uint16 tp : in_dom tp Uint16 CInt32 -> get_uint16 tp = declared_values tp Uint16 2 false CInt32.
Proof.
  intros Hd. dom_split tp Hd; unfold get_uint16; cbn [nonempty tp_raw tp_int32].
  - reflexivity.
  - typed_case. f_equal. apply map_id_forallb with (p := in_range Uint16); [|exact Hr].
    intros v Hv. cbn [in_range] in Hv. apply andb_true_iff in Hv as [H1 H2].
    apply Z.leb_le in H1. apply Z.ltb_lt in H2.
    apply wrap_unsigned_id; [lia|]. change (2 ^ 16) with 65536. lia.
  - raw_case. reflexivity.
Qed.

Lemma dv_int8 tp : in_dom tp Int8 CInt32 -> get_int8 tp = declared_values tp Int8 1 true CInt32.
Proof.
  intros Hd. dom_split tp Hd; unfold get_int8; cbn [nonempty tp_raw tp_int32].
  - reflexivity.
  - typed_case. f_equal. apply map_id_forallb with (p := in_range Int8); [|exact Hr].
    intros v Hv. cbn [in_range] in Hv. apply andb_true_iff in Hv as [H1 H2].
    apply Z.leb_le in H1. apply Z.ltb_lt in H2. apply wrap8s_id. lia.
  - raw_case. f_equal; now apply to_signed_conv.
Qed.

Lemma dv_int16 tp : in_dom tp Int16 CInt32 -> get_int16 tp = declared_values tp Int16 2 true CInt32.
Proof.
  intros Hd. dom_split tp Hd; unfold get_int16; cbn [nonempty tp_raw tp_int32].
  - reflexivity.
  - typed_case. f_equal. apply map_id_forallb with (p := in_range Int16); [|exact Hr].
    intros v Hv. cbn [in_range] in Hv. apply andb_true_iff in Hv as [H1 H2].
    apply Z.leb_le in H1. apply Z.ltb_lt in H2. apply wrap16s_id. lia.
  - raw_case. f_equal; now apply to_signed_conv.
Qed.

Lemma dv_bool tp : Forall (fun b => 0 <= b < 256) (tp_raw tp) ->
  in_dom tp DBool CInt32 -> get_bool tp = declared_values tp DBool 1 false CInt32.
Proof.
  intros Hb Hd. dom_split tp Hd; unfold get_bool; cbn [nonempty tp_raw tp_int32] in *.
  - reflexivity.
  - typed_case. f_equal. apply map_ext_forallb with (p := in_range DBool); [|exact Hr].
    intros v Hv. cbn [in_range] in Hv. apply orb_true_iff in Hv as [H|H]; apply Z.eqb_eq in H; subst v;
      reflexivity.
  - unfold declared_values. cbn [carrier_field tp_int32 tp_raw].
    rewrite chunks1 by lia. rewrite !map_map. f_equal.
    apply map_ext_in. intros a Hin. rewrite Forall_forall in Hb. specialize (Hb a Hin).
    cbn [le_val].
    destruct (Z.ltb_spec 0 a) as [H1|H1], (Z.eqb_spec (a + 256 * 0) 0) as [H2|H2]; lia || reflexivity.
Qed.

(* ---------- the two data_type switches ---------- *)
Lemma type_info_none t :
  t <> 1 -> t <> 2 -> t <> 3 -> t <> 4 -> t <> 5 -> t <> 6 -> t <> 7 -> t <> 9 -> t <> 11 ->
  t <> 12 -> t <> 13 -> type_info t = None.
Proof.
  intros. unfold type_info.
  repeat match goal with H : t <> ?k |- _ => apply Z.eqb_neq in H; rewrite H; clear H end.
  reflexivity.
Qed.

Lemma decode_values_other tp :
  let t := tp_type tp in
  t <> 1 -> t <> 2 -> t <> 3 -> t <> 4 -> t <> 5 -> t <> 6 -> t <> 7 -> t <> 9 -> t <> 11 ->
  t <> 12 -> t <> 13 ->
  decode_values tp =
  if negb (t =? 0) then None else
  if nonempty (tp_float tp) then Some (Float32, get_float tp) else
  if nonempty (tp_int32 tp) then Some (Int32, get_int32 tp) else
  if nonempty (tp_int64 tp) then Some (Int64, get_int64 tp) else
  if nonempty (tp_double tp) then Some (Float64, get_double tp) else
  if nonempty (tp_uint64 tp) then Some (Uint64, get_uint64 tp) else None.
Proof.
  intros t. intros. unfold decode_values. fold t.
  unfold T_FLOAT, T_UINT8, T_INT8, T_UINT16, T_INT16, T_INT32, T_INT64, T_BOOL, T_DOUBLE, T_UINT32, T_UINT64.
  repeat match goal with H : t <> ?k |- _ => apply Z.eqb_neq in H; rewrite H; clear H end.
  reflexivity.
Qed.

(* TARGET 5: the model refines S on every proto outside the known-finding class. bytes are 0..255. *)
Definition bytes_ok (tp : tproto) : Prop := Forall (fun b => 0 <= b < 256) (tp_raw tp).
Theorem c12_model_refines_spec (c : pcase) :
  bytes_ok (pc_tp c) -> known_class c = None -> refines (spec c) (model c).
Proof.
  intros Hb Hk. unfold bytes_ok in Hb.
  destruct (Z.eq_dec (tp_type (pc_tp c)) 1) as [E|N1].
  { apply refines_supported with (d := Float32) (w := 4%nat) (sg := false) (car := CFloat) (g := get_float (pc_tp c));
      [rewrite E; reflexivity | unfold decode_values; rewrite E; reflexivity | apply dv_float]. }
  destruct (Z.eq_dec (tp_type (pc_tp c)) 2) as [E|N2].
  { apply refines_supported with (d := Uint8) (w := 1%nat) (sg := false) (car := CInt32) (g := get_uint8 (pc_tp c));
      [rewrite E; reflexivity | unfold decode_values; rewrite E; reflexivity | apply dv_uint8]. }
  destruct (Z.eq_dec (tp_type (pc_tp c)) 3) as [E|N3].
  { apply refines_supported with (d := Int8) (w := 1%nat) (sg := true) (car := CInt32) (g := get_int8 (pc_tp c));
      [rewrite E; reflexivity | unfold decode_values; rewrite E; reflexivity | apply dv_int8]. }
  destruct (Z.eq_dec (tp_type (pc_tp c)) 4) as [E|N4].
  { apply refines_supported with (d := Uint16) (w := 2%nat) (sg := false) (car := CInt32) (g := get_uint16 (pc_tp c));
      [rewrite E; reflexivity | unfold decode_values; rewrite E; reflexivity | apply dv_uint16]. }
  destruct (Z.eq_dec (tp_type (pc_tp c)) 5) as [E|N5].
  { apply refines_supported with (d := Int16) (w := 2%nat) (sg := true) (car := CInt32) (g := get_int16 (pc_tp c));
      [rewrite E; reflexivity | unfold decode_values; rewrite E; reflexivity | apply dv_int16]. }
  destruct (Z.eq_dec (tp_type (pc_tp c)) 6) as [E|N6].
  { apply refines_supported with (d := Int32) (w := 4%nat) (sg := true) (car := CInt32) (g := get_int32 (pc_tp c));
      [rewrite E; reflexivity | unfold decode_values; rewrite E; reflexivity | apply dv_int32]. }
  destruct (Z.eq_dec (tp_type (pc_tp c)) 7) as [E|N7].
  { apply refines_supported with (d := Int64) (w := 8%nat) (sg := true) (car := CInt64) (g := get_int64 (pc_tp c));
      [rewrite E; reflexivity | unfold decode_values; rewrite E; reflexivity | apply dv_int64]. }
  destruct (Z.eq_dec (tp_type (pc_tp c)) 9) as [E|N9].
  { apply refines_supported with (d := DBool) (w := 1%nat) (sg := false) (car := CInt32) (g := get_bool (pc_tp c));
      [rewrite E; reflexivity | unfold decode_values; rewrite E; reflexivity | apply dv_bool; exact Hb]. }
  destruct (Z.eq_dec (tp_type (pc_tp c)) 11) as [E|N11].
  { apply refines_supported with (d := Float64) (w := 8%nat) (sg := false) (car := CDouble) (g := get_double (pc_tp c));
      [rewrite E; reflexivity | unfold decode_values; rewrite E; reflexivity | apply dv_double]. }
  destruct (Z.eq_dec (tp_type (pc_tp c)) 12) as [E|N12].
  { apply refines_supported with (d := Uint32) (w := 4%nat) (sg := false) (car := CUint64) (g := get_uint32 (pc_tp c));
      [rewrite E; reflexivity | unfold decode_values; rewrite E; reflexivity | apply dv_uint32]. }
  destruct (Z.eq_dec (tp_type (pc_tp c)) 13) as [E|N13].
  { apply refines_supported with (d := Uint64) (w := 8%nat) (sg := false) (car := CUint64) (g := get_uint64 (pc_tp c));
      [rewrite E; reflexivity | unfold decode_values; rewrite E; reflexivity | apply dv_uint64]. }
  (* a data type outside the eleven supported ones *)
  assert (Hti : type_info (tp_type (pc_tp c)) = None) by (apply type_info_none; assumption).
  unfold spec, model, tensor_from_proto, known_class in *. cbv zeta in *. rewrite Hti in *.
  rewrite decode_values_other by assumption. cbv zeta.
  destruct (negb (tp_type (pc_tp c) =? 0)); [reflexivity|].
  destruct (nonempty (tp_float (pc_tp c))), (nonempty (tp_int32 (pc_tp c))),
           (nonempty (tp_int64 (pc_tp c))), (nonempty (tp_double (pc_tp c))),
           (nonempty (tp_uint64 (pc_tp c))); cbn [orb] in Hk; try discriminate Hk.
  reflexivity.
Qed.

Print Assumptions read_array_roundtrip.
Print Assumptions read_fixed_partial.
Print Assumptions uint64_reader_never_decoded.
Print Assumptions tensor_from_proto_shape.
Print Assumptions c12_model_refines_spec.
