(* C07: S never changes the payload or the element type -- for Flatten, Squeeze and Unsqueeze as for Reshape *)
From Coq Require Import List ZArith Bool String.
From V Require Import DType Tensor Case OpCheck ShapeOps CheckC07.
Import ListNotations.
Open Scope Z_scope.

Ltac keep_payload H :=
  repeat match type of H with
         | context [match ?x with _ => _ end] => destruct x; try discriminate
         | context [if ?x then _ else _] => destruct x; try discriminate
         end; inversion H; subst; cbn; auto.

Lemma flatten_keeps axis t v : flatten_spec axis t = SMust [Some v] -> pl v = pl t /\ dt v = dt t.
Proof. unfold flatten_spec, SMust1, with_shape. intros H. keep_payload H. Qed.
Lemma squeeze_keeps t axes v : squeeze_spec t axes = SMust [Some v] -> pl v = pl t /\ dt v = dt t.
Proof. unfold squeeze_spec, SMust1, with_shape. intros H. keep_payload H. Qed.
Lemma unsqueeze_keeps t axes v : unsqueeze_spec t axes = SMust [Some v] -> pl v = pl t /\ dt v = dt t.
Proof. unfold unsqueeze_spec, SMust1, with_shape. intros H. keep_payload H. Qed.
