(* C08: the value S prescribes for Concat has, along the axis, the SUM of the inputs' extents --
   any number of inputs -- every other extent and the rank of the first input, its element type,
   and one payload entry per element *)
From Coq Require Import List ZArith Bool Lia String Arith.
From V Require Import DType Tensor Case Slice Broadcast IndexOps.
Import ListNotations.
Local Open Scope nat_scope.

Lemma concat2_rank axis a b : List.length (tshape (concat2 axis a b)) = List.length (tshape a).
Proof. unfold concat2, tabulate. cbn [tshape]. now rewrite map_length, seq_length. Qed.

Lemma concat2_extent axis a b k : k < List.length (tshape a) ->
  nthz (tshape (concat2 axis a b)) k =
  if Nat.eqb k axis then nthz (tshape a) axis + nthz (tshape b) axis else nthz (tshape a) k.
Proof.
  intros Hk. unfold concat2, tabulate, nthz at 1. cbn [tshape].
  set (F := fun k0 => if Nat.eqb k0 axis then _ else _).
  rewrite (nth_indep _ 0 (F 0)) by (rewrite map_length, seq_length; exact Hk).
  rewrite map_nth, seq_nth by exact Hk. reflexivity.
Qed.

Definition sum_extents (axis : nat) (ts : list tval) : nat := fold_right (fun t n => nthz (sh t) axis + n) 0 ts.

Lemma concat_fold_shape axis rest : forall acc, axis < List.length (tshape acc) ->
  let r := fold_left (fun acc t => concat2 axis acc (tz t)) rest acc in
  List.length (tshape r) = List.length (tshape acc) /\
  nthz (tshape r) axis = nthz (tshape acc) axis + sum_extents axis rest /\
  forall k, k < List.length (tshape acc) -> k <> axis -> nthz (tshape r) k = nthz (tshape acc) k.
Proof.
  induction rest as [|t rest IH]; intros acc Ha; cbn [fold_left sum_extents fold_right].
  - repeat split; auto.
  - assert (Ha' : axis < List.length (tshape (concat2 axis acc (tz t)))) by (rewrite concat2_rank; exact Ha).
    destruct (IH _ Ha') as [Hr [Hax Hoth]]. fold (sum_extents axis rest) in *.
    rewrite concat2_rank in Hr. split; [exact Hr|]. split.
    + rewrite Hax, concat2_extent by exact Ha. rewrite Nat.eqb_refl. unfold tz at 1. cbn [tshape]. lia.
    + intros k Hk Hne. rewrite Hoth by (rewrite ?concat2_rank; assumption).
      rewrite concat2_extent by exact Hk. apply Nat.eqb_neq in Hne. now rewrite Hne.
Qed.

Lemma concat_fold_wf axis rest : forall acc, wf acc -> wf (fold_left (fun acc t => concat2 axis acc (tz t)) rest acc).
Proof.
  induction rest as [|t rest IH]; intros acc Hw; cbn [fold_left]; [exact Hw|].
  apply IH. unfold concat2. apply wf_tabulate.
Qed.

Lemma concat_spec_shape axis ts v : concat_value axis ts = Some v ->
  match ts with
  | [] => False
  | t0 :: rest =>
      axis < List.length (sh t0) ->
      dt v = dt t0 /\ List.length (sh v) = List.length (sh t0) /\
      nthz (sh v) axis = sum_extents axis (t0 :: rest) /\
      (forall k, k < List.length (sh t0) -> k <> axis -> nthz (sh v) k = nthz (sh t0) k) /\
      (List.length (pl t0) = numel (sh t0) -> List.length (pl v) = numel (sh v))
  end.
Proof.
  unfold concat_value. destruct ts as [|t0 rest]; [discriminate|].
  destruct (forallb _ rest); [|discriminate]. intros H Ha. inversion H; subst v. unfold of_tensor. cbn [dt sh pl].
  destruct (concat_fold_shape axis rest (tz t0) Ha) as [Hr [Hax Hoth]].
  split; [reflexivity|]. split; [exact Hr|]. split; [exact Hax|]. split; [exact Hoth|].
  intros Hw. apply (concat_fold_wf axis rest (tz t0)). exact Hw.
Qed.

(* the joining step S folds over the inputs: at every valid index of the joined shape the element
   is the left operand's where the axis coordinate lies within its extent, and otherwise the right
   operand's at that coordinate minus the left extent (all other coordinates unchanged) *)
Lemma concat2_element axis a b i :
  valid (tshape (concat2 axis a b)) i ->
  get 0%Z (concat2 axis a b) i =
  if nth axis i 0 <? nthz (tshape a) axis then get 0%Z a i
  else get 0%Z b (map (fun k => if Nat.eqb k axis then nth k i 0 - nthz (tshape a) axis else nth k i 0) (seq 0 (List.length i))).
Proof. intros Hv. unfold concat2 in *. exact (get_tabulate 0%Z _ _ i Hv). Qed.

(* n inputs, read from the right: the joined value of acc, rest and a last input t is, at every
   valid index, the last input's element where the axis coordinate reaches the SUM of all earlier
   extents (at that coordinate minus the sum), and otherwise the element of the join of the
   earlier inputs -- by recursion on the number of inputs this is the ONNX cumulative formula *)
Lemma concat_nary_element axis (acc : tensor Z) rest t i :
  axis < List.length (tshape acc) ->
  let join := fold_left (fun acc t => concat2 axis acc (tz t)) in
  valid (tshape (join (rest ++ [t]) acc)) i ->
  get 0%Z (join (rest ++ [t]) acc) i =
  let before := nthz (tshape acc) axis + sum_extents axis rest in
  if nth axis i 0 <? before then get 0%Z (join rest acc) i
  else get 0%Z (tz t) (map (fun k => if Nat.eqb k axis then nth k i 0 - before else nth k i 0) (seq 0 (List.length i))).
Proof.
  intros Ha join. unfold join. rewrite fold_left_app. cbn [fold_left]. intros Hv.
  rewrite concat2_element by exact Hv.
  destruct (concat_fold_shape axis rest acc Ha) as [_ [Hax _]]. cbn zeta in Hax. rewrite Hax. reflexivity.
Qed.
