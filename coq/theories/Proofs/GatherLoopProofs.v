(* The block-copy loop of ops/opset13/gather.go (Model/GatherLoop.v) computes the ONNX Gather index
   formula, for every element type, every data rank, every index rank (0 included) and every axis
   inside the data rank; and Gather.Apply built on the loop IS IndexOps.gather_model. *)
From Coq Require Import List Arith Lia PeanoNat Bool ZArith.
From V Require Import DType Tensor ListUtil Writes Case IndexOps GatherLoop.
Import ListNotations.
Local Open Scope nat_scope.

(* ---------- lists: splitting a concatenation by lengths ---------- *)
Lemma firstn_app_exact {X} n (l1 l2 : list X) : length l1 = n -> firstn n (l1 ++ l2) = l1.
Proof. intros <-. rewrite firstn_app, Nat.sub_diag, firstn_all. cbn. apply app_nil_r. Qed.

Lemma skipn_app_exact {X} n (l1 l2 : list X) : length l1 = n -> skipn n (l1 ++ l2) = l2.
Proof. intros <-. rewrite skipn_app, Nat.sub_diag, skipn_all. reflexivity. Qed.

Lemma app_inj_length {X} (a1 a2 b1 b2 : list X) :
  length a1 = length b1 -> a1 ++ a2 = b1 ++ b2 -> a1 = b1 /\ a2 = b2.
Proof.
  revert b1. induction a1 as [|x a1 IH]; intros [|y b1] L E; cbn in *; try discriminate; [auto|].
  injection E as -> E. destruct (IH b1 ltac:(lia) E) as [-> ->]. auto.
Qed.

(* a list splits around position a *)
Lemma split_at_axis (s : list nat) a : a < length s -> s = firstn a s ++ [nth a s 0] ++ skipn (S a) s.
Proof.
  revert a. induction s as [|x s IH]; intros [|a] L; cbn in *; try lia; [reflexivity|].
  f_equal. apply IH. lia.
Qed.

Lemma NoDup_app_intro {X} (l1 l2 : list X) :
  NoDup l1 -> NoDup l2 -> (forall x, In x l1 -> ~ In x l2) -> NoDup (l1 ++ l2).
Proof.
  intros N1 N2 D. induction N1 as [|x l1 Hx N1 IH]; cbn; [exact N2|]. constructor.
  - intro I. apply in_app_or in I as [I|I]; [contradiction|]. apply (D x); cbn; auto.
  - apply IH. intros y Iy. apply D. now right.
Qed.

(* the keys of a nested loop are distinct when each inner loop's keys are and different outer
   iterations never produce the same key *)
Lemma NoDup_map_flat_map {X Y K} (g : Y -> K) (f : X -> list Y) (l : list X) :
  NoDup l ->
  (forall x, In x l -> NoDup (map g (f x))) ->
  (forall x y u v, In x l -> In y l -> In u (f x) -> In v (f y) -> g u = g v -> x = y) ->
  NoDup (map g (flat_map f l)).
Proof.
  intros ND Hin Hout. induction ND as [|x l Hx ND IH]; cbn [flat_map map]; [constructor|].
  rewrite map_app. apply NoDup_app_intro.
  - apply Hin. now left.
  - apply IH.
    + intros y Iy. apply Hin. now right.
    + intros y z u v Iy Iz. apply Hout; now right.
  - intros k I1 I2. apply in_map_iff in I1 as (u & Eu & Iu). apply in_map_iff in I2 as (v & Ev & Iv).
    apply in_flat_map in Iv as (y & Iy & Iv).
    assert (x = y) as -> by (apply (Hout x y u v); cbn; auto; congruence). contradiction.
Qed.

(* ---------- validity of concatenated indices ---------- *)
Lemma valid_app s1 s2 i1 i2 : valid s1 i1 -> valid s2 i2 -> valid (s1 ++ s2) (i1 ++ i2).
Proof. unfold valid. apply Forall2_app. Qed.

Lemma valid_app_inv s1 s2 i :
  valid (s1 ++ s2) i -> exists i1 i2, i = i1 ++ i2 /\ valid s1 i1 /\ valid s2 i2.
Proof.
  unfold valid. intros H. apply Forall2_app_inv_r in H as (i1 & i2 & H1 & H2 & ->). eauto.
Qed.

Lemma valid_app_iff s1 s2 i1 i2 :
  length i1 = length s1 -> (valid (s1 ++ s2) (i1 ++ i2) <-> valid s1 i1 /\ valid s2 i2).
Proof.
  intros L. split; [|intros [V1 V2]; now apply valid_app].
  intros V. apply valid_app_inv in V as (j1 & j2 & E & V1 & V2).
  apply app_inj_length in E as [-> ->]; [auto|]. rewrite L. symmetry. now apply valid_length.
Qed.

Lemma valid3 s1 s2 s3 i1 i2 i3 :
  valid s1 i1 -> valid s2 i2 -> valid s3 i3 -> valid (s1 ++ s2 ++ s3) (i1 ++ i2 ++ i3).
Proof. intros. now repeat apply valid_app. Qed.

(* an index of a three-part shape splits (uniquely, by lengths) into three valid parts *)
Lemma valid3_inv s1 s2 s3 o :
  valid (s1 ++ s2 ++ s3) o ->
  exists i1 i2 i3, o = i1 ++ i2 ++ i3 /\ valid s1 i1 /\ valid s2 i2 /\ valid s3 i3.
Proof.
  intros V. apply valid_app_inv in V as (i1 & r & -> & V1 & V).
  apply valid_app_inv in V as (i2 & i3 & -> & V2 & V3). exists i1, i2, i3. auto.
Qed.

Lemma concat3_inj (p p' c c' t t' : list nat) :
  length p = length p' -> length c = length c' ->
  p ++ c ++ t = p' ++ c' ++ t' -> p = p' /\ c = c' /\ t = t'.
Proof.
  intros Lp Lc E. apply app_inj_length in E as [-> E]; [|exact Lp].
  apply app_inj_length in E as [-> ->]; auto.
Qed.

(* the three parts are recovered by firstn / skipn *)
Lemma parts_of_concat3 (p c t : list nat) a q :
  length p = a -> length c = q ->
  firstn a (p ++ c ++ t) = p /\ firstn q (skipn a (p ++ c ++ t)) = c /\ skipn (a + q) (p ++ c ++ t) = t.
Proof.
  intros Lp Lc. rewrite (skipn_app_exact a) by exact Lp. repeat split.
  - now apply firstn_app_exact.
  - now apply firstn_app_exact.
  - rewrite app_assoc. apply skipn_app_exact. rewrite app_length. lia.
Qed.

(* ---------- OffsetTensorIfNegative ---------- *)
Lemma offset_neg_range dim k : (- dim <= k < dim)%Z -> (0 <= offset_neg dim k < dim)%Z.
Proof. unfold offset_neg. intros H. destruct (Z.ltb_spec k 0); lia. Qed.

Lemma offset_neg_nonneg dim k : (0 <= k)%Z -> offset_neg dim k = k.
Proof. unfold offset_neg. intros H. destruct (Z.ltb_spec k 0); lia. Qed.

Lemma offset_tensor_shape dim t : tshape (offset_tensor dim t) = tshape t.
Proof. reflexivity. Qed.

Lemma wf_offset_tensor dim t : wf t -> wf (offset_tensor dim t).
Proof. unfold wf, offset_tensor; cbn. now rewrite map_length. Qed.

(* reading the offset tensor = offsetting what is read (0 is a fixed point, so no bound is needed) *)
Lemma get_offset_tensor dim t i : get 0%Z (offset_tensor dim t) i = offset_neg dim (get 0%Z t i).
Proof.
  unfold get, offset_tensor; cbn [tshape tdata].
  change 0%Z with (offset_neg dim 0%Z) at 1. apply map_nth.
Qed.

(* after offsetting, every key read by the loop is a position of the gathered axis *)
Lemma key_of_offset_in_range (dimn : nat) (idx : tensor Z) c :
  (- Z.of_nat dimn <= get 0%Z idx c < Z.of_nat dimn)%Z ->
  key_of (offset_tensor (Z.of_nat dimn) idx) c < dimn.
Proof.
  intros H. unfold key_of. rewrite get_offset_tensor.
  pose proof (offset_neg_range _ _ H). lia.
Qed.

(* ---------- insertWithReplace ---------- *)
Lemma insert_with_replace_eq a x axis :
  insert_with_replace a x axis = firstn axis x ++ a ++ skipn (S axis) x.
Proof.
  unfold insert_with_replace. destruct (Nat.ltb_spec (S axis) (length x)) as [L|L]; [reflexivity|].
  now rewrite skipn_all2 by exact L.
Qed.

Lemma insert_with_replace_length a x axis :
  axis < length x -> length (insert_with_replace a x axis) = length a + length x - 1.
Proof.
  intros L. rewrite insert_with_replace_eq, !app_length, firstn_length, skipn_length. lia.
Qed.

Lemma tabulate_ext {A} s (f g : list nat -> A) :
  (forall i, valid s i -> f i = g i) -> tabulate s f = tabulate s g.
Proof.
  intros H. unfold tabulate. f_equal. apply map_ext_in. intros n Hn. apply in_seq in Hn.
  apply H. apply valid_unflat. lia.
Qed.

(* ---------- the loop ---------- *)
Section Loop.
Context {A : Type} (d : A).
Variables (a : nat) (data : tensor A) (idx : tensor Z).
Notation sd := (tshape data).
Notation si := (tshape idx).
Notation pre_s := (firstn a (tshape data)).
Notation post_s := (skipn (S a) (tshape data)).
Notation os := (firstn a (tshape data) ++ tshape idx ++ skipn (S a) (tshape data)).

Lemma gather_out_shape_eq : gather_out_shape a data idx = os.
Proof. apply insert_with_replace_eq. Qed.

(* what the block copy for one coordinate writes *)
Lemma in_block_writes c k w :
  In w (block_writes d a data c k) <->
  exists pre post, valid pre_s pre /\ valid post_s post /\
                   w = (pre ++ c ++ post, get d data (pre ++ [k] ++ post)).
Proof.
  unfold block_writes. rewrite in_flat_map. split.
  - intros (pre & Ipre & I). apply in_map_iff in I as (post & <- & Ipost).
    apply in_all_indices in Ipre, Ipost. eauto.
  - intros (pre & post & Vpre & Vpost & ->). exists pre. split; [now apply in_all_indices|].
    apply in_map_iff. exists post. split; [reflexivity|now apply in_all_indices].
Qed.

(* what the whole loop writes *)
Lemma in_gather_writes w :
  In w (gather_writes d a data idx) <->
  exists c pre post, valid si c /\ valid pre_s pre /\ valid post_s post /\
                     w = (pre ++ c ++ post, get d data (pre ++ [key_of idx c] ++ post)).
Proof.
  unfold gather_writes. rewrite in_flat_map. split.
  - intros (c & Ic & I). apply in_all_indices in Ic.
    apply in_block_writes in I as (pre & post & Vp & Vt & ->). exists c, pre, post. auto.
  - intros (c & pre & post & Vc & Vp & Vt & ->). exists c. split; [now apply in_all_indices|].
    apply in_block_writes. eauto.
Qed.

(* every write lands inside the output tensor *)
Lemma gather_writes_valid :
  Forall (fun w => valid os (fst w)) (gather_writes d a data idx).
Proof.
  apply Forall_forall. intros w I. apply in_gather_writes in I as (c & pre & post & Vc & Vp & Vt & ->).
  cbn [fst]. now apply valid3.
Qed.

(* within one block copy no cell is written twice *)
Lemma block_writes_NoDup c k : NoDup (map fst (block_writes d a data c k)).
Proof.
  unfold block_writes. apply NoDup_map_flat_map.
  - apply NoDup_all_indices.
  - intros pre Ipre. rewrite map_map. cbn [fst]. apply NoDup_map_inj; [|apply NoDup_all_indices].
    intros t t' _ _ E. apply app_inv_head in E. now apply app_inv_head in E.
  - intros pre pre' u v Ipre Ipre' Iu Iv E.
    apply in_map_iff in Iu as (t & <- & It). apply in_map_iff in Iv as (t' & <- & It').
    cbn [fst] in E. apply in_all_indices in Ipre, Ipre'.
    apply app_inj_length in E as [E _]; [exact E|].
    rewrite (valid_length _ _ Ipre), (valid_length _ _ Ipre'). reflexivity.
Qed.

(* ... and no cell is written by two different iterations: the loop writes each cell at most once *)
Lemma gather_writes_NoDup : NoDup (map fst (gather_writes d a data idx)).
Proof.
  unfold gather_writes. apply NoDup_map_flat_map.
  - apply NoDup_all_indices.
  - intros c _. apply block_writes_NoDup.
  - intros c c' u v Ic Ic' Iu Iv E. apply in_all_indices in Ic, Ic'.
    apply in_block_writes in Iu as (p & t & Vp & Vt & ->).
    apply in_block_writes in Iv as (p' & t' & Vp' & Vt' & ->). cbn [fst] in E.
    apply concat3_inj in E as (_ & E & _); [exact E| |].
    + rewrite (valid_length _ _ Vp), (valid_length _ _ Vp'). reflexivity.
    + rewrite (valid_length _ _ Ic), (valid_length _ _ Ic'). reflexivity.
Qed.

Hypothesis Ha : a < length sd.

Lemma pre_s_length : length pre_s = a.
Proof. rewrite firstn_length. lia. Qed.

(* every cell of the output is written (so no zero of the initial tensor survives), and with the
   value the index formula prescribes *)
Lemma gather_writes_cover o :
  valid os o ->
  In (o, get d data (firstn a o ++ [key_of idx (firstn (length si) (skipn a o))] ++ skipn (a + length si) o))
     (gather_writes d a data idx).
Proof.
  intros V. apply valid3_inv in V as (pre & c & post & -> & Vp & Vc & Vt).
  assert (Lp : length pre = a) by (rewrite (valid_length _ _ Vp); apply pre_s_length).
  assert (Lc : length c = length si) by now apply valid_length.
  destruct (parts_of_concat3 pre c post a (length si) Lp Lc) as (-> & -> & ->).
  apply in_gather_writes. exists c, pre, post. auto.
Qed.

(* every read of the data tensor is in bounds once the keys are positions of the gathered axis *)
Lemma gather_reads_valid pre post k :
  valid pre_s pre -> valid post_s post -> k < nth a sd 0 -> valid sd (pre ++ [k] ++ post).
Proof.
  intros Vp Vt Hk. rewrite (split_at_axis sd a Ha) at 1. apply valid3; auto.
  constructor; [exact Hk|constructor].
Qed.

(* THE LOOP COMPUTES THE INDEX FORMULA, whatever the output tensor was initialised with *)
Theorem gather_loop_from_formula zero :
  gather_loop_from d zero a data idx = gather_formula d a data idx.
Proof.
  unfold gather_loop_from, gather_formula. rewrite gather_out_shape_eq.
  set (init := tabulate os (fun _ => zero)).
  assert (Wi : wf init) by apply wf_tabulate.
  apply (tensor_ext d).
  - now apply apply_writes_wf.
  - apply wf_tabulate.
  - rewrite apply_writes_shape. reflexivity.
  - rewrite apply_writes_shape. cbn [init tabulate tshape]. intros o V.
    rewrite get_tabulate by exact V.
    destruct (get_apply_writes d init (gather_writes d a data idx) o Wi) as [Hin _].
    + exact gather_writes_valid.
    + exact gather_writes_NoDup.
    + exact V.
    + apply Hin. now apply gather_writes_cover.
Qed.

Theorem gather_loop_formula : gather_loop d a data idx = gather_formula d a data idx.
Proof. apply gather_loop_from_formula. Qed.

(* the statement with the formula spelled out *)
Corollary gather_loop_index_formula :
  gather_loop d a data idx =
  tabulate os (fun o => get d data (firstn a o ++ [key_of idx (firstn (length si) (skipn a o))]
                                     ++ skipn (a + length si) o)).
Proof. apply gather_loop_formula. Qed.

(* pointwise form, with the three-part index *)
Corollary gather_loop_get pre c post :
  valid pre_s pre -> valid si c -> valid post_s post ->
  get d (gather_loop d a data idx) (pre ++ c ++ post) = get d data (pre ++ [key_of idx c] ++ post).
Proof.
  intros Vp Vc Vt. rewrite gather_loop_formula. unfold gather_formula.
  rewrite get_tabulate by now apply valid3.
  assert (Lp : length pre = a) by (rewrite (valid_length _ _ Vp); apply pre_s_length).
  assert (Lc : length c = length si) by now apply valid_length.
  now destruct (parts_of_concat3 pre c post a (length si) Lp Lc) as (-> & -> & ->).
Qed.

Lemma gather_loop_shape : tshape (gather_loop d a data idx) = os.
Proof. rewrite gather_loop_formula. reflexivity. Qed.

Lemma gather_loop_wf : wf (gather_loop d a data idx).
Proof. rewrite gather_loop_formula. apply wf_tabulate. Qed.
End Loop.

(* ---------- Gather.Apply on the loop = the index-formula model of IndexOps.v ---------- *)
Local Open Scope Z_scope.

Lemma gather_axis_in_rank (axis : Z) (data : tval) :
  (axis <? - rank data) || (rank data <=? axis) = false ->
  (Z.to_nat (if (axis <? 0)%Z then (axis + rank data)%Z else axis) < length (sh data))%nat.
Proof.
  unfold rank. intros H. apply orb_false_iff in H as [H1 H2].
  apply Z.ltb_ge in H1. apply Z.leb_gt in H2. destruct (Z.ltb_spec axis 0); lia.
Qed.

Theorem gather_model_is_loop_total (axis : Z) (data idx : tval) :
  gather_model axis data idx = gather_loop_model axis data idx.
Proof.
  unfold gather_model, gather_loop_model.
  destruct ((axis <? - rank data) || (rank data <=? axis)) eqn:Hax; [reflexivity|].
  pose proof (gather_axis_in_rank axis data Hax) as Ha.
  set (a := Z.to_nat (if axis <? 0 then axis + rank data else axis)) in *.
  set (dim := Z.of_nat (nthz (sh data) a)).
  destruct (negb (forallb (fun k => (- dim <=? k) && (k <? dim)) (pl idx))); [reflexivity|].
  do 2 f_equal. rewrite (gather_loop_formula 0 a (tz data) (offset_tensor dim (tz idx)) Ha).
  unfold gather_formula. cbn [tz tshape offset_tensor].
  apply tabulate_ext. intros o _. unfold key_of. rewrite get_offset_tensor. reflexivity.
Qed.

(* for inputs passing gather_model's checks, the value it returns is the tval of the loop's tensor *)
Corollary gather_model_is_loop (axis : Z) (data idx : tval) (v : tval) :
  gather_model axis data idx = MOk v ->
  let a := Z.to_nat (if axis <? 0 then axis + rank data else axis) in
  let dim := Z.of_nat (nthz (sh data) a) in
  (a < length (sh data))%nat /\
  Forall (fun k => - dim <= k < dim) (pl idx) /\
  v = of_tensor (dt data) (gather_loop 0 a (tz data) (offset_tensor dim (tz idx))).
Proof.
  intros H a dim. rewrite gather_model_is_loop_total in H. unfold gather_loop_model in H.
  destruct ((axis <? - rank data) || (rank data <=? axis)) eqn:Hax; [discriminate|].
  fold a dim in H.
  destruct (forallb (fun k => (- dim <=? k) && (k <? dim)) (pl idx)) eqn:Hr; cbn [negb] in H; [|discriminate].
  split; [now apply gather_axis_in_rank|]. split.
  - apply Forall_forall. intros k Ik. rewrite forallb_forall in Hr. specialize (Hr k Ik).
    apply andb_true_iff in Hr as [H1 H2]. apply Z.leb_le in H1. apply Z.ltb_lt in H2. lia.
  - now inversion H.
Qed.

(* under those checks every key the loop slices with is a position of the gathered axis *)
Lemma gather_keys_in_range (dimn : nat) (idx : tval) c :
  Forall (fun k => - Z.of_nat dimn <= k < Z.of_nat dimn) (pl idx) ->
  (key_of (offset_tensor (Z.of_nat dimn) (tz idx)) c < dimn \/
   (length (pl idx) <= flat (sh idx) c /\ key_of (offset_tensor (Z.of_nat dimn) (tz idx)) c = 0))%nat.
Proof.
  intros F. destruct (Nat.lt_ge_cases (flat (sh idx) c) (length (pl idx))) as [L|L].
  - left. apply key_of_offset_in_range. rewrite Forall_forall in F. apply F.
    unfold get, tz; cbn [tshape tdata]. now apply nth_In.
  - right. split; [exact L|]. unfold key_of. rewrite get_offset_tensor.
    unfold get, tz; cbn [tshape tdata]. now rewrite nth_overflow.
Qed.

(* ---------- 2x3 data, 2x2 indices (one negative), axis 1 ---------- *)
Example gather_example :
  let data := {| dt := Int64; sh := [2; 3]%nat; pl := [1; 2; 3; 4; 5; 6] |} in
  let idx := {| dt := Int64; sh := [2; 2]%nat; pl := [0; 2; -1; 1] |} in
  let expected := {| dt := Int64; sh := [2; 2; 2]%nat; pl := [1; 3; 3; 2; 4; 6; 6; 5] |} in
  gather_loop_model 1 data idx = MOk expected /\
  gather_model 1 data idx = MOk expected /\
  gather_loop 0 1 (tz data) (offset_tensor 3 (tz idx)) = gather_formula 0 1 (tz data) (offset_tensor 3 (tz idx)) /\
  gather_loop_model (-1) data idx = MOk expected.
Proof. vm_compute. repeat split. Qed.

(* rank-0 index tensor: one coordinate, the empty one; and the last axis *)
Example gather_example_scalar_index :
  let data := mkT [2; 3]%nat [1; 2; 3; 4; 5; 6] in
  gather_loop 0 1 data (mkT [] [2]) = mkT [2]%nat [3; 6] /\
  gather_loop 0 0 data (mkT [] [1]) = mkT [3]%nat [4; 5; 6] /\
  gather_loop 0 1 data (mkT [1]%nat [2]) = mkT [2; 1]%nat [3; 6].
Proof. vm_compute. repeat split. Qed.
