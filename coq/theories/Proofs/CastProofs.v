(* C11: facts about the conversion function of Check/CheckC11.v (= the model of ops/convert.go). *)
From Coq Require Import List ZArith Bool String Lia.
From V Require Import DType Tensor Case OpCheck Scalar CheckC11.
Import ListNotations.
Open Scope Z_scope.

(* a value representable in the target integer type is converted to itself *)
Lemma wrap_id b s v : 0 < b -> in_range b s v = true -> wrap b s v = v.
Proof.
  intros Hb H. unfold in_range in H. unfold wrap.
  assert (P : 0 < 2 ^ (b - 1)) by (apply Z.pow_pos_nonneg; lia).
  assert (E : 2 ^ b = 2 * 2 ^ (b - 1)) by (replace b with (Z.succ (b - 1)) at 1 by lia; rewrite Z.pow_succ_r by lia; reflexivity).
  destruct s; apply andb_true_iff in H as [H1 H2]; apply Z.leb_le in H1; apply Z.ltb_lt in H2; cbn [andb].
  - destruct (Z_lt_le_dec v 0) as [Neg|Pos].
    + assert (M : v mod 2 ^ b = v + 2 ^ b).
      { symmetry. apply Z.mod_unique with (q := -1); lia. }
      rewrite M. destruct (2 ^ (b - 1) <=? v + 2 ^ b) eqn:C; [lia|]. apply Z.leb_gt in C. lia.
    + rewrite Z.mod_small by lia. destruct (2 ^ (b - 1) <=? v) eqn:C; [apply Z.leb_le in C; lia|reflexivity].
  - apply Z.mod_small. lia.
Qed.

Theorem conv_int_exact src dst b s v :
  int_info dst = Some (b, s) -> (exists bs, int_info src = Some bs) -> in_range b s v = true -> conv src dst v = Some v.
Proof.
  intros Hd [bs Hs] R. unfold conv. rewrite Hs, Hd. f_equal. apply wrap_id; [|exact R].
  destruct dst; inversion Hd; subst; lia.
Qed.

(* truncation toward zero: same sign, magnitude within one unit below *)
Lemma quot_trunc m d : 0 < d ->
  Z.abs (Z.quot m d) * d <= Z.abs m < (Z.abs (Z.quot m d) + 1) * d /\ (0 <= m -> 0 <= Z.quot m d) /\ (m <= 0 -> Z.quot m d <= 0).
Proof.
  intros Hd.
  assert (A : Z.abs (Z.quot m d) = Z.abs m / d).
  { rewrite <- Z.quot_abs by lia. rewrite (Z.abs_eq d) by lia. apply Z.quot_div_nonneg; lia. }
  rewrite A. pose proof (Z.div_mod (Z.abs m) d ltac:(lia)) as E. pose proof (Z.mod_pos_bound (Z.abs m) d Hd) as B.
  split; [nia|]. split.
  - intros P. apply Z.quot_pos; lia.
  - intros N. rewrite <- (Z.opp_involutive m). rewrite Z.quot_opp_l by lia.
    assert (0 <= Z.quot (- m) d) by (apply Z.quot_pos; lia). lia.
Qed.

(* float -> integer: the model truncates toward zero (the value of a finite float is m * 2^e) *)
Theorem conv_float_to_int_truncates src dst b s v m e z t :
  int_info src = None -> int_info dst = Some (b, s) ->
  (match src with Float32 => dec32 v | _ => dec64 v end) = FFin m e z -> e < 0 ->
  conv src dst v = Some t ->
  Z.abs t * 2 ^ (- e) <= Z.abs m < (Z.abs t + 1) * 2 ^ (- e) /\ (0 <= m -> 0 <= t) /\ (m <= 0 -> t <= 0) /\ in_range b s t = true.
Proof.
  intros Hs Hd Hdec He Hc. unfold conv in Hc. rewrite Hs, Hd, Hdec in Hc.
  apply Z.ltb_lt in He. rewrite He in Hc. apply Z.ltb_lt in He.
  destruct (in_range b s (Z.quot m (2 ^ (- e)))) eqn:R; [|discriminate]. inversion Hc; subst t.
  assert (P : 0 < 2 ^ (- e)) by (apply Z.pow_pos_nonneg; lia).
  pose proof (quot_trunc m (2 ^ (- e)) P) as (A & B & C). repeat split; auto; lia.
Qed.

(* Cast keeps the shape and gives the requested element type *)
Lemma all_some_length {X Y} (f : X -> option Y) l vs : all_some (map f l) = Some vs -> List.length vs = List.length l.
Proof.
  revert vs. induction l as [|a l IH]; intros vs H; cbn in H.
  - inversion H; reflexivity.
  - destruct (f a); [|discriminate]. destruct (all_some (map f l)) as [r|]; [|discriminate].
    inversion H; subst. cbn. f_equal. apply IH. reflexivity.
Qed.

Theorem cast_spec_frame attrs x v :
  cast_spec attrs x = SMust [Some v] ->
  sh v = sh x /\ List.length (pl v) = List.length (pl x) /\ exists code, attrs = [AInt "to" code] /\ type_of_code code = Some (dt v).
Proof.
  unfold cast_spec. intros H.
  repeat match type of H with context [match ?x with _ => _ end] => destruct x eqn:?; try discriminate end.
  inversion H; subst; cbn.
  split; [reflexivity|]. split; [eapply all_some_length; eassumption|].
  eexists. split; [reflexivity|assumption].
Qed.

(* ConstantOfShape: the requested shape, every element the same value, the value's element type *)
Theorem cos_spec_constant attrs shp t :
  cos_spec attrs shp = SMust [Some t] ->
  sh t = map Z.to_nat (pl shp) /\ exists v, pl t = repeat v (numel (sh t)).
Proof.
  unfold cos_spec. intros H.
  repeat (match type of H with context [match ?x with _ => _ end] => destruct x eqn:?; try discriminate end);
    inversion H; subst; cbn; (split; [reflexivity|eexists; reflexivity]).
Qed.
