(* Conv: the outcome of the model and of the specification does not depend on the order of the node's
   attributes (distinct names) -- in particular `group <> 1` or an unknown attribute refuses the node
   wherever it stands. *)
From Coq Require Import List ZArith Bool String Permutation.
From V Require Import DType Tensor Case OpCheck Conv CheckC05 AttrOrder.
Import ListNotations.

Lemma forallb_perm {A} (f : A -> bool) l l' : Permutation l l' -> forallb f l = forallb f l'.
Proof.
  induction 1 as [|a l l' _ IH|a b l|l1 l2 l3 _ IH1 _ IH2]; cbn [forallb]; try congruence.
  - destruct (f a), (f b); reflexivity.
Qed.
Lemma existsb_perm {A} (f : A -> bool) l l' : Permutation l l' -> existsb f l = existsb f l'.
Proof.
  induction 1 as [|a l l' _ IH|a b l|l1 l2 l3 _ IH1 _ IH2]; cbn [existsb]; try congruence.
  - destruct (f a), (f b); reflexivity.
Qed.

Theorem conv_attr_order c c' :
  oc_ins c = oc_ins c' -> Permutation (oc_attrs c) (oc_attrs c') -> NoDup (map attr_name (oc_attrs c)) ->
  model c = model c' /\ spec c = spec c' /\ known_class c = known_class c'.
Proof.
  intros Hi Hp Hnd.
  assert (Hcfg : cfg_of c = cfg_of c').
  { unfold cfg_of, ints_or_nil.
    destruct (lookups_order_independent _ _ Hp Hnd "auto_pad"%string) as (_ & _ & ->).
    destruct (lookups_order_independent _ _ Hp Hnd "dilations"%string) as (_ & -> & _).
    destruct (lookups_order_independent _ _ Hp Hnd "pads"%string) as (_ & -> & _).
    destruct (lookups_order_independent _ _ Hp Hnd "strides"%string) as (_ & -> & _).
    reflexivity. }
  assert (Hr : init_refuses c = init_refuses c').
  { unfold init_refuses. rewrite (forallb_perm _ _ _ Hp), (existsb_perm _ _ _ Hp). reflexivity. }
  unfold model, spec, known_class, parts. rewrite Hcfg, Hr, Hi. repeat split.
Qed.
Lemma conv_group_refused c : existsb (fun a => match a with AInt n g => String.eqb n "group" && negb (g =? 1)%Z | _ => false end) (oc_attrs c) = true ->
  model c = MErr /\ spec c = SMustErr.
Proof.
  intro H. unfold model, spec, init_refuses. rewrite H, orb_true_r. split; reflexivity.
Qed.
Print Assumptions conv_attr_order.
