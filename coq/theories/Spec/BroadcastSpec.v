(* ONNX broadcasting, written from the standard (and the property's words), not from the code:
   align at the last axes, missing axes count as 1, each pair of extents equal or one of them 1;
   result extent = the maximum; stretched axes read index 0. *)
From Coq Require Import List Arith Lia PeanoNat Bool.
From V Require Import Tensor.
Import ListNotations.

Definition pad_shape (n : nat) (s : shape) : shape := repeat 1 (n - length s) ++ s.

Definition compat (da db : nat) : bool := (da =? db) || (da =? 1) || (db =? 1).
Definition bdim (da db : nat) : nat := if da =? 1 then db else da.

Fixpoint compat_all (sa sb : shape) : bool :=
  match sa, sb with
  | x :: sa', y :: sb' => compat x y && compat_all sa' sb'
  | [], [] => true
  | _, _ => false
  end.
Fixpoint bdims (sa sb : shape) : shape :=
  match sa, sb with
  | x :: sa', y :: sb' => bdim x y :: bdims sa' sb'
  | _, _ => []
  end.

(* the broadcast shape of two shapes, if they are compatible *)
Definition bshape (sa sb : shape) : option shape :=
  let n := Nat.max (length sa) (length sb) in
  let pa := pad_shape n sa in let pb := pad_shape n sb in
  if compat_all pa pb then Some (bdims pa pb) else None.

(* pin the index of every axis of extent 1 to 0 *)
Fixpoint pin (s : shape) (i : list nat) : list nat :=
  match s, i with
  | ds :: s', k :: i' => (if ds =? 1 then 0 else k) :: pin s' i'
  | _, _ => []
  end.

(* source index of result index i for an operand of shape s: drop the leading axes the operand
   does not have, pin its stretched axes *)
Definition bproj (s : shape) (i : list nat) : list nat := pin s (skipn (length i - length s) i).

Section S.
Context {A : Type} (d : A).
Definition bcast_to (s : shape) (t : tensor A) : tensor A :=
  tabulate s (fun i => get d t (bproj (tshape t) i)).

Definition multidir_spec (a b : tensor A) : option (tensor A * tensor A) :=
  match bshape (tshape a) (tshape b) with
  | Some s => Some (bcast_to s a, bcast_to s b)
  | None => None
  end.

(* unidirectional: the result shape must be the first operand's, which stays as it is *)
Definition unidir_spec (a b : tensor A) : option (tensor A * tensor A) :=
  match bshape (tshape a) (tshape b) with
  | Some s => if list_eq_dec Nat.eq_dec s (tshape a) then Some (a, bcast_to s b) else None
  | None => None
  end.
End S.
