(* Real-number specification of Softmax / LogSoftmax over one slice (a list of reals), the
   numerically stable (shifted) forms every implementation uses, and the list-of-slices form
   ("along the requested axis only"). *)
From Coq Require Import Reals List.
Import ListNotations.
Open Scope R_scope.

Definition sum_list (l : list R) : R := fold_right Rplus 0 l.

Definition softmax (l : list R) : list R :=
  map (fun x => exp x / sum_list (map exp l)) l.

(* the stable form every implementation uses, m = max l *)
Definition softmax_shift (m : R) (l : list R) : list R :=
  map (fun x => exp (x - m) / sum_list (map (fun y => exp (y - m)) l)) l.

Definition logsoftmax (l : list R) : list R :=
  map (fun x => x - ln (sum_list (map exp l))) l.

Definition logsoftmax_shift (m : R) (l : list R) : list R :=
  map (fun x => (x - m) - ln (sum_list (map (fun y => exp (y - m)) l))) l.

(* a tensor seen as the list of its slices along the requested axis *)
Definition softmax_slices (ls : list (list R)) : list (list R) := map softmax ls.
