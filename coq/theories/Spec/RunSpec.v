(* What a Run must return, said without an environment and without a loop: the value of a name
   is defined by demand, by recursion on the node list taken latest first. *)
From Coq Require Import List String Bool Arith ZArith.
From V Require Import Run.
Import ListNotations.
Open Scope string_scope.

Section Spec.
Variable T attrs : Type.
Variable op_sem : string -> attrs -> list (option T) -> xres (list (option T)).

Fixpoint index_of (x : string) (l : list string) : option nat :=
  match l with
  | [] => None
  | y :: r => if String.eqb x y then Some 0 else option_map S (index_of x r)
  end.
(* the LAST position at which x occurs (a node that lists a name twice binds it to the later result) *)
Fixpoint last_index_of (x : string) (l : list string) : option nat :=
  match l with
  | [] => None
  | y :: r => match last_index_of x r with
              | Some j => Some (S j)
              | None => if String.eqb x y then Some 0 else None
              end
  end.

Fixpoint sequence {X} (l : list (option X)) : option (list X) :=
  match l with
  | [] => Some []
  | Some x :: r => option_map (cons x) (sequence r)
  | None :: _ => None
  end.

(* value of name x after the nodes rev_ns (latest first), starting from the bindings e0:
   Some (Some t): the tensor t; Some None: a nil tensor; None: x is not bound.
   If the latest node lists x among its outputs at position j, it is the j-th result of that
   node's operator applied to the values (with respect to the EARLIER nodes) of its input names,
   "" meaning absent; otherwise it is the value with respect to the earlier nodes. *)
Fixpoint value (rev_ns : list (node attrs)) (e0 : string -> option (option T)) (x : string) : option (option T) :=
  match rev_ns with
  | [] => e0 x
  | n :: earlier =>
      match last_index_of x (n_out n) with
      | Some j =>
          match sequence (map (fun i => if String.eqb i "" then Some None else value earlier e0 i) (n_in n)) with
          | Some ins => match op_sem (n_op n) (n_attrs n) ins with
                        | XOk outs => nth_error outs j
                        | _ => None
                        end
          | None => None
          end
      | None => value earlier e0 x
      end
  end.

(* the bindings a Run starts from, in the property's words: graph inputs supplied by the caller,
   initializers, where an initializer that is also a graph input only supplies that input's
   default; an initializer that is not a graph input is a constant; a tensor the caller passes
   under any other name is visible under that name *)
Definition spec_env0 (g : graph T attrs) (feed : list (string * T)) : string -> option (option T) :=
  fun n =>
    if has_input T attrs g n then
      match lookup_last feed n with
      | Some t => Some (Some t)
      | None => option_map Some (lookup_last (g_params g) n)
      end
    else match lookup_last (g_params g) n with
         | Some w => Some (Some w)
         | None => option_map Some (lookup_last feed n)
         end.
End Spec.
