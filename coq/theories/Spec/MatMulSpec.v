(* numpy.matmul, written from its documentation (not from the code): a 1-D first operand is
   promoted to a matrix by prepending a 1 to its shape, a 1-D second operand by appending a 1; the
   leading (batch) axes broadcast; the product is taken over the last axis of the first and the
   second-to-last axis of the second operand; prepended/appended axes are removed afterwards. *)
From Coq Require Import List Arith Lia PeanoNat Bool.
From V Require Import Tensor BroadcastSpec.
Import ListNotations.

Section S.
Context {A : Type} (zero : A) (add mul : A -> A -> A).
Notation get := (get zero).

Definition sumk (K : nat) (f : nat -> A) : A := fold_left add (map f (seq 0 K)) zero.

Definition matmul_spec (a b : tensor A) : option (tensor A) :=
  let ra := length (tshape a) in let rb := length (tshape b) in
  if (ra =? 0) || (rb =? 0) then None else
  let sa := if ra =? 1 then 1 :: tshape a else tshape a in
  let sb := if rb =? 1 then tshape b ++ [1] else tshape b in
  let a' := mkT sa (tdata a) in let b' := mkT sb (tdata b) in
  let ba := firstn (length sa - 2) sa in let bb := firstn (length sb - 2) sb in
  let M := nth (length sa - 2) sa 0 in let K := nth (length sa - 1) sa 0 in
  let K' := nth (length sb - 2) sb 0 in let N := nth (length sb - 1) sb 0 in
  if negb (K =? K') then None else
  match bshape ba bb with
  | None => None
  | Some bs =>
      let n := length bs in
      let full := tabulate (bs ++ [M; N]) (fun i =>
                    let bi := firstn n i in let r := nth n i 0 in let c := nth (n + 1) i 0 in
                    sumk K (fun k => mul (get a' (bproj ba bi ++ [r; k])) (get b' (bproj bb bi ++ [k; c])))) in
      Some (mkT (bs ++ (if ra =? 1 then [] else [M]) ++ (if rb =? 1 then [] else [N])) (tdata full))
  end.
End S.
