(* C15 — Every operator's input gate enforces arity and element types before computing.
   Statements only; proofs are in Proofs/GateProofs.v. The obligation over the operator
   table regenerated from /repo on every run is in templates/TableC15.v. *)
From Coq Require Import List Arith Bool String.
From V Require Import DType Gate GateProofs.
Import ListNotations.

(* For every operator description with min <= max <= |constraints| and EVERY input list:
   rejected with a count/type input error exactly when the count or some dtype is wrong;
   otherwise accepted, supplied tensors unchanged and in order, omitted optionals absent;
   never a panic. *)
Theorem C15_gate (T : Type) (dt : T -> dtype) (o : opinfo) (ins : list (option T)) :
  wf_info o = true ->
  match validate T dt o ins with
  | GPanic => False
  | GErrCount => ~ count_ok o (List.length ins)
  | GErrType p => count_ok o (List.length ins) /\
        exists t a, nth_error ins p = Some (Some t) /\ nth_error (o_cons o) p = Some a /\ ~ In (dt t) a
  | GOk out => count_ok o (List.length ins) /\ out = ins ++ repeat None (o_max o - List.length ins) /\
        forall k x, nth_error ins k = Some x -> type_ok_at T dt o k x
  end.
Proof. exact (validate_spec T dt o ins). Qed.
Print Assumptions C15_gate.

(* the side condition is necessary: a constraint list shorter than the maximum crashes the gate *)
Theorem C15_gate_side_condition_necessary (T : Type) (dt : T -> dtype) (o : opinfo) (t : T) :
  o_min o <= o_max o -> List.length (o_cons o) < o_max o ->
  (forall k a, nth_error (o_cons o) k = Some a -> In (dt t) a) ->
  validate T dt o (repeat (Some t) (o_max o)) = GPanic.
Proof. exact (short_constraints_panic T dt o t). Qed.
Print Assumptions C15_gate_side_condition_necessary.

Theorem C15_concat_gate (T : Type) (dt : T -> dtype) o ins :
  match validate_concat T dt o ins with
  | GOk out => o_min o <= List.length ins /\ out = ins
  | GErrCount => List.length ins < o_min o
  | GErrType _ => False
  | GPanic => False
  end.
Proof. exact (validate_concat_spec T dt o ins). Qed.
Print Assumptions C15_concat_gate.

Theorem C15_prelu_gate (T : Type) (dt : T -> dtype) o ins :
  wf_info o = true -> o_min o = 2 -> o_max o = 2 ->
  (forall x, In x ins -> x <> None) ->
  match validate_prelu T dt o ins with
  | PPanic _ => False
  | PGate _ GPanic => False
  | PGate _ (GOk _) => False
  | PGate _ GErrCount => List.length ins <> 2
  | PGate _ (GErrType p) => exists t a, nth_error ins p = Some (Some t) /\ nth_error (o_cons o) p = Some a /\ ~ In (dt t) a
  | PErrMismatch _ => exists x s, ins = [Some x; Some s] /\ dt x <> dt s
  | POk _ out => out = ins /\ exists x s, ins = [Some x; Some s] /\ dt x = dt s
  end.
Proof. exact (validate_prelu_spec T dt o ins). Qed.
Print Assumptions C15_prelu_gate.

(* registry: listed names resolve, others are refused *)
Theorem C15_registry_resolves (St : Type) (init_state : string -> St) names r n :
  (In n names -> exists i, snd (get_operator St init_state names r n) = Some i) /\
  (~ In n names -> get_operator St init_state names r n = (r, None)).
Proof. exact (get_operator_resolves St init_state names r n). Qed.
Print Assumptions C15_registry_resolves.

(* the attribute state of an instance is independent of every other lookup and of everything
   done to the instances those lookups return *)
Theorem C15_instance_state_independent (St : Type) (init_state : string -> St) names ops r j :
  reg_inv St r -> store St r j <> None ->
  (forall s, ~ In (RWrite St j s) ops) ->
  read_state St (fold_left (reg_step St init_state names) ops r) j = read_state St r j.
Proof. exact (instance_state_independent St init_state names ops r j). Qed.
Print Assumptions C15_instance_state_independent.

(* non-vacuity: a concrete operator description meets the hypotheses, and the gate computes *)
Example C15_nonvacuous :
  let o := {| o_name := "Gemm"; o_min := 2; o_max := 3;
              o_cons := [[Float32];[Float32];[Float32]]; o_fresh := true; o_dyn := false |} in
  wf_info o = true /\
  validate dtype (fun d => d) o [Some Float32; Some Float32] = GOk [Some Float32; Some Float32; None] /\
  validate dtype (fun d => d) o [Some Float32; Some Int64] = GErrType 1 /\
  validate dtype (fun d => d) o [Some Float32] = GErrCount.
Proof. vm_compute. repeat split. Qed.
