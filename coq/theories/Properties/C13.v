(* C13 — Run accepts exactly the input sets that satisfy the declared signature.
   Statements only; proofs in Proofs/ValidateProofs.v. M = Model/Run.v (validate_shapes follows
   model.go:validateShapes; input_shapes follows onnx.getShapesFromValueProto, which is also
   what Model.InputShapes returns: the shapes reported are literally the ones enforced). *)
From Coq Require Import List String Bool Arith ZArith.
From V Require Import Run ValidateProofs.
Import ListNotations.
Open Scope string_scope.

Section C13.
Variable T attrs : Type.
Variable shape_of : T -> list nat.
Variable op_sem : string -> attrs -> list (option T) -> xres (list (option T)).
Variable supported : string -> bool.

Theorem C13_accepts_iff_signature_satisfied (g : graph T attrs) feed :
  validate_shapes T attrs shape_of g feed = true <->
  forall n decl, In (n, decl) (input_shapes T attrs g) ->
    is_param T attrs g n = true \/
    exists t decl', lookup_last feed n = Some t /\ lookup_last (input_shapes T attrs g) n = Some decl' /\
                    List.length decl' = List.length (shape_of t) /\ Forall2 dim_ok decl' (shape_of t).
Proof. exact (validate_shapes_spec T attrs shape_of op_sem supported g feed). Qed.

Theorem C13_rejected_before_any_node (g : graph T attrs) feed :
  validate_shapes T attrs shape_of g feed = false ->
  run_model T attrs shape_of op_sem supported g feed = XErr RShape.
Proof. exact (rejected_before_any_node T attrs shape_of op_sem supported g feed). Qed.

Theorem C13_extra_tensors_ignored (g : graph T attrs) feed x t :
  (forall n decl, In (n, decl) (input_shapes T attrs g) -> n <> x) ->
  lookup_last feed x = None ->
  validate_shapes T attrs shape_of g ((x, t) :: feed) = validate_shapes T attrs shape_of g feed.
Proof. exact (extra_tensors_ignored T attrs shape_of g feed x t). Qed.
(* in particular: declared inputs that are backed by initializers -- any number of them, wherever they stand
   in the declaration -- need no tensor and are held to nothing when one is supplied *)
Theorem C13_initializer_backed_inputs_need_no_tensor (g : graph T attrs) feed :
  (forall n decl, In (n, decl) (input_shapes T attrs g) -> is_param T attrs g n = true) ->
  validate_shapes T attrs shape_of g feed = true.
Proof.
  intros H. apply (proj2 (C13_accepts_iff_signature_satisfied g feed)).
  intros n decl Hin. left. exact (H n decl Hin).
Qed.
End C13.
Print Assumptions C13_accepts_iff_signature_satisfied.
Print Assumptions C13_initializer_backed_inputs_need_no_tensor.
Print Assumptions C13_rejected_before_any_node.
Print Assumptions C13_extra_tensors_ignored.

Example C13_nonvacuous :
  let g := {| g_inputs := [("x", Some [DDyn; DFixed 3%Z]); ("w", Some [DFixed 2%Z])];
              g_params := [("w", [2])]; g_outputs := []; g_nodes := ([] : list (node unit)) |} in
  validate_shapes (list nat) unit (fun s => s) g [("x", [7; 3])] = true /\
  validate_shapes (list nat) unit (fun s => s) g [("x", [7; 4])] = false /\
  validate_shapes (list nat) unit (fun s => s) g [("x", [3])] = false /\
  validate_shapes (list nat) unit (fun s => s) g [("y", [7; 3])] = false.
Proof. vm_compute. repeat split. Qed.
