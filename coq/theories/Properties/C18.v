(* C18 — Loading never crashes; unsupported opsets/operators are refused with an error.
   Statements only; proofs in Proofs/LoadProofs.v, Proofs/DecodeProofs.v, Proofs/RunProofs.v.
   M = Model/Load.v over Model/Decode.v (NewModel on the parsed structure) and Model/Run.v.
   PARTIAL, stated as such: "any byte string" includes the protobuf wire parser, which is third
   party and not modelled; the model starts after proto.Unmarshal. The byte-level half is explored
   by the C18_bytes stream under recover(). *)
From Coq Require Import List ZArith Bool String.
From V Require Import DType Case Decode Load LoadProofs Run RunProofs.
Import ListNotations.
Open Scope Z_scope.

(* for EVERY parsed structure (any initializers: any type code, dims, payload; any opset
   imports): loading succeeds or returns an error; it never panics *)
Theorem C18_load_never_panics supported mp : load supported mp <> LPanic.
Proof. exact (load_never_panics supported mp). Qed.
Print Assumptions C18_load_never_panics.

(* whatever loads imports an implemented version as its highest one; the obligation
   supported_opsets = [13] over the table regenerated from /repo is in templates/TableC18.v *)
Theorem C18_loaded_version_is_implemented supported mp ps :
  load supported mp = LOk ps -> In (max_version (m_opsets mp)) supported.
Proof. exact (load_ok_version_in supported mp ps). Qed.

(* a model whose highest imported version (over all domains, 0 if none) is not implemented is
   refused with THE unsupported-opset error, provided its initializers decode *)
Theorem C18_unsupported_opset_refused supported mp ps :
  params (m_inits mp) = MOk ps -> ~ In (max_version (m_opsets mp)) supported -> load supported mp = LErrOpset.
Proof. exact (load_unsupported_opset supported mp ps). Qed.
Theorem C18_highest_version vs : max_version vs = fold_right Z.max 0 vs.
Proof. exact (max_version_spec vs). Qed.
Print Assumptions C18_unsupported_opset_refused.

(* a graph containing a node of an unregistered operator type can never run to completion, and
   fails with the unsupported-operator error as soon as the nodes before it succeed: the node is
   neither skipped nor replaced *)
Theorem C18_unsupported_operator_refused (T attrs : Type) shape_of op_sem supported (g : graph T attrs) feed pre n post :
  g_nodes g = (pre ++ n :: post)%list -> supported (n_op n) = false ->
  (forall out, run_model T attrs shape_of op_sem supported g feed <> XOk out) /\
  (forall e, validate_shapes T attrs shape_of g feed = true ->
             run_nodes T attrs op_sem supported (env0 T attrs g feed) pre = XOk e ->
             run_model T attrs shape_of op_sem supported g feed = XErr RUnsupportedOp).
Proof. exact (unsupported_op_refused T attrs shape_of op_sem supported g feed pre n post). Qed.
Print Assumptions C18_unsupported_operator_refused.

Example C18_nonvacuous :
  let good := {| tp_type := 1; tp_dims := [1]; tp_raw := [0;0;128;63]; tp_float := []; tp_int32 := [];
                 tp_int64 := []; tp_double := []; tp_uint64 := [] |} in
  load [13] {| m_inits := [good]; m_opsets := [13; 1] |} = LOk [{| dt := Float32; sh := [1%nat]; pl := [1065353216] |}] /\
  load [13] {| m_inits := [good]; m_opsets := [13; 14] |} = LErrOpset /\
  load [13] {| m_inits := [good]; m_opsets := [] |} = LErrOpset /\
  load [13] {| m_inits := [{| tp_type := 1; tp_dims := [0]; tp_raw := []; tp_float := []; tp_int32 := [];
                              tp_int64 := []; tp_double := []; tp_uint64 := [] |}]; m_opsets := [13] |} = LErrInit.
Proof. vm_compute. repeat split. Qed.
