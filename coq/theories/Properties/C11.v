(* C11 — Constant, ConstantOfShape and Cast yield the specified values and element type.
   Statements only; proofs in Proofs/CastProofs.v. M = S here: the model of ops/convert.go is the
   source switch x target switch with Go's conversion semantics written out (Check/CheckC11.v: conv),
   which is what "C-style conversion" means; the theorems read it back in the property's words. *)
From Coq Require Import List ZArith Bool String.
From V Require Import DType Case OpCheck Scalar CheckC11 CastProofs.
Import ListNotations.
Open Scope Z_scope.

(* exact when representable: an integer value that fits the target integer type is converted to itself *)
Theorem C11_cast_exact_when_representable src dst b s v :
  int_info dst = Some (b, s) -> (exists bs, int_info src = Some bs) -> in_range b s v = true -> conv src dst v = Some v.
Proof. exact (conv_int_exact src dst b s v). Qed.
Print Assumptions C11_cast_exact_when_representable.

(* float -> integer: truncation toward zero (|x| - 1 < |cast x| <= |x|, same sign), result in range *)
Theorem C11_cast_float_to_int_truncates src dst b s v m e z t :
  int_info src = None -> int_info dst = Some (b, s) ->
  (match src with Float32 => dec32 v | _ => dec64 v end) = FFin m e z -> e < 0 ->
  conv src dst v = Some t ->
  Z.abs t * 2 ^ (- e) <= Z.abs m < (Z.abs t + 1) * 2 ^ (- e) /\ (0 <= m -> 0 <= t) /\ (m <= 0 -> t <= 0) /\ in_range b s t = true.
Proof. exact (conv_float_to_int_truncates src dst b s v m e z t). Qed.

(* Cast keeps the shape and every element position and yields the requested element type; anything
   but a single `to` attribute with a numeric target code is refused *)
Theorem C11_cast_frame attrs x v :
  cast_spec attrs x = SMust [Some v] ->
  sh v = sh x /\ List.length (pl v) = List.length (pl x) /\ exists code, attrs = [AInt "to" code] /\ type_of_code code = Some (dt v).
Proof. exact (cast_spec_frame attrs x v). Qed.

(* ConstantOfShape: the requested shape, all elements one value *)
Theorem C11_constant_of_shape attrs shp t :
  cos_spec attrs shp = SMust [Some t] -> sh t = map Z.to_nat (pl shp) /\ exists v, pl t = repeat v (Tensor.numel (sh t)).
Proof. exact (cos_spec_constant attrs shp t). Qed.

(* Constant: for EVERY payload -- zero scalars, empty or all-zero lists, any bit pattern -- S demands the
   scalar / the vector / the tensor that the attribute holds, with the element type of the attribute form *)
Theorem C11_constant_forms v b vs bs t :
  constant_spec [AInt "value_int" v] = SMust [Some {| dt := Int64; sh := []; pl := [v] |}] /\
  constant_spec [AFloat "value_float" b] = SMust [Some {| dt := Float32; sh := []; pl := [b] |}] /\
  constant_spec [AInts "value_ints" vs] = SMust [Some {| dt := Int64; sh := [List.length vs]; pl := vs |}] /\
  constant_spec [AFloats "value_floats" bs] = SMust [Some {| dt := Float32; sh := [List.length bs]; pl := bs |}] /\
  constant_spec [ATensor "value" t] = SMust [Some t].
Proof. repeat split. Qed.

(* non-vacuity and the rounding rules, computed with Flocq: 2^24+1 -> float32 ties to even; 1e-45 double
   -> float32 rounds to the smallest subnormal; uint64 above 2^63 from a float64; Constant forms *)
Example C11_nonvacuous :
  conv Int32 Float32 16777217 = Some 1266679808 /\ conv Int32 Float32 16777219 = Some 1266679810 /\
  conv Float64 Uint64 4893160995138043904 = Some 13835058055282163712 /\
  conv Float32 Int8 3271524352 = Some (-127) /\ conv Float32 Uint8 3271524352 = None /\
  constant_spec [AInts "value_ints" [1; -2]] = SMust [Some {| dt := Int64; sh := [2%nat]; pl := [1; -2] |}] /\
  constant_spec [AStr "value_string" "x"] = SMustErr.
Proof. vm_compute. repeat split. Qed.
