(* C16 — Samples in a batch do not influence one another.
   Statements only; proofs in Proofs/BatchProofs.v and Proofs/RecurrentProofs.v. Over the models and
   specifications of the per-sample operator families the statement is exact (no rounding): sample b
   of the result is the operator applied to sample b. "Up to floating-point rounding" enters only in
   the tie (Go against Go, harness stream C16_batch_vs_rows). *)
From Coq Require Import List Arith.
From Coq Require Import String.
From V Require Import Tensor ConvLoop MatMul BroadcastSpec BatchProofs Recurrent RecurrentProofs Run RunNatural.
Import ListNotations.

(* Gemm / MatMul against a weight matrix (and the per-gate products of RNN/GRU/LSTM): row i of X . W
   is (row i of X) . W, over any scalar type *)
Theorem C16_matmul_rows {A} (zero : A) add mul (a w : tensor A) i j :
  tshape a = [ext a 0; ext a 1] -> i < ext a 0 -> j < ext w 1 ->
  get zero (mm2 zero add mul a w) [i; j] = get zero (mm2 zero add mul (row zero i a) w) [0; j].
Proof. exact (mm2_row zero add mul a w i j). Qed.
Print Assumptions C16_matmul_rows.

(* Conv: output sample b depends on input sample b only *)
Theorem C16_conv_rows {A} (zero : A) add mul N C H W M KH KW p0 p1 p2 p3 s0 s1 (x k : tensor A) b m oh ow :
  tshape x = [N; C; H; W] -> b < N -> m < M ->
  oh < (p0 + H + p2 - KH) / s0 + 1 -> ow < (p1 + W + p3 - KW) / s1 + 1 ->
  get zero (conv2d_spec zero add mul N C H W M KH KW p0 p1 p2 p3 s0 s1 x k) [b; m; oh; ow]
  = get zero (conv2d_spec zero add mul 1 C H W M KH KW p0 p1 p2 p3 s0 s1 (row zero b x) k) [0; m; oh; ow].
Proof. exact (conv2d_spec_row zero add mul N C H W M KH KW p0 p1 p2 p3 s0 s1 x k b m oh ow). Qed.

(* elementwise operators against an operand broadcast over the batch axis *)
Theorem C16_elementwise_rows {A} (zero : A) (g : A -> A -> A) (x w : tensor A) s b i :
  tshape x = s -> bshape s (tshape w) = Some s -> List.length (tshape w) < List.length s -> valid s (b :: i) ->
  g (get zero x (b :: i)) (get zero (bcast_to zero s w) (b :: i))
  = g (get zero (row zero b x) (0 :: i)) (get zero (bcast_to zero (1 :: tl s) w) (0 :: i)).
Proof. exact (bcast_elementwise_row zero g x w s b i). Qed.

(* RNN / GRU / LSTM: for ANY sub-selection or permutation `is` of the batch rows (repetitions allowed),
   running the selected rows gives the selected rows of every output: Y at every time step, Y_h, Y_c --
   so no sample's output depends on which other samples share the batch, on their order, or on the batch size *)
Theorem C16_recurrent_rows {A} (o : sops A) acts lbr coupled Wg Rg Wb Rb P k n (is : list nat) xs h0 c0 :
  Forall (fun xt : list (list A) => List.length xt = n) xs -> List.length h0 = n -> (k = KLSTM -> List.length c0 = n) ->
  Forall (fun i => i < n) is ->
  run_rec o k acts lbr coupled Wg Rg Wb Rb P (map (pick [] is) xs) (pick [] is h0) (pick [] is c0) =
  (map (pick [] is) (fst (fst (run_rec o k acts lbr coupled Wg Rg Wb Rb P xs h0 c0))),
   pick [] is (snd (fst (run_rec o k acts lbr coupled Wg Rg Wb Rb P xs h0 c0))),
   pick [] is (snd (run_rec o k acts lbr coupled Wg Rg Wb Rb P xs h0 c0))).
Proof. exact (run_rec_pick o acts lbr coupled Wg Rg Wb Rb P k n is xs h0 c0). Qed.
Print Assumptions C16_recurrent_rows.

(* COMPOSITION: for ANY graph (any DAG, fan-out, multi-output nodes, failing nodes) over ANY operator
   semantics: if every operator commutes with a transformation phi of tensors -- "keep these batch
   rows", acting as the identity on weights -- and the weights are fixed by phi, then the whole Run
   commutes with phi: the outputs for the transformed inputs are the transformed outputs (same error
   or panic otherwise). With the per-operator lemmas above as the premise, a model built from
   per-sample operators is batch-equivariant. *)
Theorem C16_run_commutes (T attrs : Type) (shape_of : T -> list nat)
    (op_sem : string -> attrs -> list (option T) -> xres (list (option T))) (supported : string -> bool) (phi : T -> T) :
  (forall o a ins, op_sem o a (map (option_map phi) ins) = xmap (map (option_map phi)) (op_sem o a ins)) ->
  forall (g : graph T attrs) feed,
  params_fixed T attrs phi g ->
  validate_shapes T attrs shape_of g (mapf T phi feed) = validate_shapes T attrs shape_of g feed ->
  run_model T attrs shape_of op_sem supported g (mapf T phi feed) = xmap (mapf T phi) (run_model T attrs shape_of op_sem supported g feed).
Proof. exact (run_model_natural T attrs shape_of op_sem supported phi). Qed.
Print Assumptions C16_run_commutes.

(* non-vacuity: a GRU-free check of the selection [1;0;1] on a two-row RNN batch over nat *)
Example C16_nonvacuous :
  let o := {| s_zero := 0; s_one := 1; s_add := Nat.add; s_sub := Nat.sub; s_mul := Nat.mul;
              s_dot := fun a b => fold_left Nat.add (map (fun p => fst p * snd p) (combine a b)) 0 |} in
  let xs := [[[1]; [2]]; [[3]; [4]]] in
  fst (fst (run_rec o KRNN [fun v => v] false false [[[2]]] [[[3]]] [[5]] [[7]] None (map (pick [] [1;0;1]) xs) (pick [] [1;0;1] [[4]; [6]]) []))
  = map (pick [] [1;0;1]) (fst (fst (run_rec o KRNN [fun v => v] false false [[[2]]] [[[3]]] [[5]] [[7]] None xs [[4]; [6]] []))).
Proof. vm_compute. reflexivity. Qed.
