(* C10 — Unary math and activation operators apply the named function per element.
   Statements only; proofs in Proofs/IvalProofs.v. S judges every output element against an
   ENCLOSURE of the named real function at the input element (G/Ival.v, Check/CheckC10.v); the theorems
   here say that these enclosures really contain the function (so a result inside the widened enclosure
   is within the stated rounding allowance of the true value, and a result outside is not), for EVERY
   real argument. The kernels' rounding allowances (kerr, f_exp) are measured facts about gorgonia and
   Go's math package, not theorems. *)
From Coq Require Import Reals List ZArith.
From Interval Require Import Interval.Interval Real.Xreal.
From V Require Import Ival IvalProofs AbsBits C10PerElement.
Open Scope R_scope.

Notation "b ∋ x" := (contains (I.convert b) (Xreal x)) (at level 70).

Theorem C10_exp_enclosed b x : b ∋ x -> sexp b ∋ exp x.
Proof. exact (sexp_correct b x). Qed.
Theorem C10_sigmoid_enclosed b x : b ∋ x -> r_sigmoid b ∋ 1 / (1 + exp (- x)).
Proof. exact (r_sigmoid_correct b x). Qed.
Theorem C10_tanh_enclosed b x : b ∋ x -> r_tanh b ∋ tanh x.
Proof. exact (r_tanh_correct b x). Qed.
Theorem C10_sinh_enclosed b x : b ∋ x -> r_sinh b ∋ sinh x.
Proof. exact (r_sinh_correct b x). Qed.
Theorem C10_cosh_enclosed b x : b ∋ x -> r_cosh b ∋ cosh x.
Proof. exact (r_cosh_correct b x). Qed.
Theorem C10_asinh_enclosed b x : b ∋ x -> r_asinh b ∋ arcsinh x.
Proof. exact (r_asinh_correct b x). Qed.
Theorem C10_acosh_enclosed b x : 1 <= x -> b ∋ x -> r_acosh b ∋ arccosh x.
Proof. exact (r_acosh_correct b x). Qed.
Theorem C10_atanh_enclosed b x : -1 < x < 1 -> b ∋ x -> r_atanh b ∋ arctanh x.
Proof. exact (r_atanh_correct b x). Qed.
Theorem C10_asin_enclosed b x : -1 < x < 1 -> b ∋ x -> r_asin b ∋ asin x.
Proof. exact (r_asin_correct b x). Qed.
Theorem C10_acos_enclosed b x : -1 < x < 1 -> b ∋ x -> r_acos b ∋ acos x.
Proof. exact (r_acos_correct b x). Qed.
Theorem C10_sin_enclosed b x : b ∋ x -> ssin b ∋ sin x.
Proof. exact (ssin_correct b x). Qed.
Theorem C10_cos_enclosed b x : b ∋ x -> scos b ∋ cos x.
Proof. exact (scos_correct b x). Qed.
Theorem C10_tan_enclosed b x : cos x <> 0 -> b ∋ x -> stan b ∋ tan x.
Proof. exact (stan_correct b x). Qed.

(* the rounding-aware step: ANY real r within relative error k * 2^-ubits plus the absolute allowance
   of a value x enclosed by b lies in `widen w k b` -- for every k >= 0, both float widths *)
Theorem C10_widen_sound w k b x : (0 <= k)%Z -> b ∋ x ->
  forall r, Rabs (r - x) <= IZR k * ur w * Rabs x + etar w -> widen w k b ∋ r.
Proof. exact (widen_correct w k b x). Qed.
Print Assumptions C10_widen_sound.

(* a float result accepted by res_in really is (as the real number m * 2^e it denotes) in the enclosure *)
Theorem C10_res_in_sound w r E m e : decode w r = VFin m e -> res_in w r E = true -> E ∋ (IZR m * Raux.bpow Zaux.radix2 e).
Proof. exact (res_in_fin_correct w r E m e). Qed.

(* Abs (and the identity branch of PRelu) is judged BIT-EXACTLY: the expected pattern is the input's with
   the sign bit cleared. That pattern is the float |x|: same exponent, absolute value of the significand
   (so +0 for both zeros), +Inf for both infinities -- axiom-free *)
Theorem C10_abs_pattern_is_abs_f32 x m e : (0 <= x < 4294967296)%Z -> decode W32 x = VFin m e ->
  decode W32 (x mod 2147483648) = VFin (Z.abs m) e.
Proof. exact (abs_bits_W32 x m e). Qed.
Theorem C10_abs_pattern_is_abs_f64 x m e : (0 <= x < 18446744073709551616)%Z -> decode W64 x = VFin m e ->
  decode W64 (x mod 9223372036854775808) = VFin (Z.abs m) e.
Proof. exact (abs_bits_W64 x m e). Qed.
Print Assumptions C10_abs_pattern_is_abs_f64.

(* non-vacuity: tanh(1.5f) = 0x3F67B7CC lies in the enclosure S uses, a value 64 ulp away does not *)
Example C10_nonvacuous :
  match pt_of W32 1069547520 with
  | Some p => res_in W32 1063761868 (widen W32 8 (r_tanh p)) = true /\ res_in W32 (1063761868 + 64) (widen W32 8 (r_tanh p)) = false
  | None => False end.
Proof. vm_compute. split; reflexivity. Qed.

(* "per element": S accepts a float result of a unary operator exactly when it has the input's element
   type and shape and output element i passes the test for the named function at input element i ALONE
   (elem_judged: the special-value rule or the widened enclosure above) -- for every operator name,
   every tensor of any rank; Print Assumptions lists only the primitive 63-bit integer operations that the Interval library computes with (the statement mentions its enclosures), no logical axiom *)
Theorem C10_judged_per_element op x o w :
  OpCheck.wf_tval x = true -> CheckC10.fw_of (Case.dt x) = Some w ->
  (CheckC10.judge_unary op x (Case.OOk (cons (Some o) nil)) = 0%Z <->
   Case.dt o = Case.dt x /\ Case.sh o = Case.sh x /\ List.length (Case.pl o) = List.length (Case.pl x) /\
   forall i xi oi, nth_error (Case.pl x) i = Some xi -> nth_error (Case.pl o) i = Some oi -> elem_judged op w xi oi = true).
Proof. exact (judged_per_element op x o w). Qed.
Print Assumptions C10_judged_per_element.

(* ... hence the judgement does not depend on the order of the elements (the implementation's side of
   this is the harness observation element_order_independence) *)
Theorem C10_judgement_order_independent op x o w :
  OpCheck.wf_tval x = true -> CheckC10.fw_of (Case.dt x) = Some w ->
  CheckC10.judge_unary op (rev_payload x) (Case.OOk (cons (Some (rev_payload o)) nil)) = CheckC10.judge_unary op x (Case.OOk (cons (Some o) nil)).
Proof. exact (judged_order_independent op x o w). Qed.
