(* C02 — Run is history-independent and never modifies caller tensors or weights.
   Statements only; proofs in Proofs/HistoryProofs.v. M = Model/History.v: Run over an explicit
   object store (tensors are objects with identity; the per-Run environment maps names to objects;
   the caller's tensors and the model's weights are shared references exactly as in model.go; an
   operator application returns new objects and has an EFFECT on its input objects). S = the pure,
   value-level Run model of C01 evaluated on a freshly loaded model. *)
From Coq Require Import List String Bool Arith.
From V Require Import Run History HistoryProofs.
Import ListNotations.
Open Scope string_scope.

(* For ANY tensor type, attribute type, operator semantics, graph and ANY finite history of Runs on
   one Model (re-used input objects, outputs of one Run fed to the next, failing calls in between):
   if every operator leaves its input objects as they were (pure_ops), then every object that
   existed before the history -- the caller's tensors and the weights -- is unchanged after it, and
   the k-th Run returns exactly what the pure Run model returns on the freshly loaded model (the
   INITIAL state of the weights) for the same inputs: a value, the same error, or a panic. *)
Theorem C02_history_independent (T attrs : Type) (shape_of : T -> list nat)
    (op_sem : string -> attrs -> list (option T) -> xres (list (option T)))
    (op_eff : string -> attrs -> list (option T) -> list (option T)) (supported : string -> bool)
    (calls : list (list (string * oid))) (h : heap T) (m : omodel attrs) h' rs :
  pure_ops T attrs op_eff -> wf_heap T h -> live_list T h (om_params attrs m) -> Forall (live_list T h) calls ->
  orun_hist T attrs shape_of op_sem op_eff supported h m calls = (h', rs) ->
  extends T h h' /\
  Forall2 (fun feed r =>
             match r, run_model T attrs shape_of op_sem supported (graph_of T attrs h m) (deref_list T h feed) with
             | XOk l, XOk vl => l = map (fun p => (fst p, Some (snd p))) vl
             | XErr k, XErr k' => k = k'
             | XPanic, XPanic => True
             | _, _ => False
             end) calls rs.
Proof. exact (history_independent T attrs shape_of op_sem op_eff supported calls h m h' rs). Qed.
Print Assumptions C02_history_independent.

(* One Run -- successful, failing half-way or panicking -- leaves every pre-existing object
   (extends: same state below the old allocation counter) and agrees with the pure Run of C01. *)
Theorem C02_run_touches_nothing (T attrs : Type) (shape_of : T -> list nat)
    (op_sem : string -> attrs -> list (option T) -> xres (list (option T)))
    (op_eff : string -> attrs -> list (option T) -> list (option T)) (supported : string -> bool)
    (h : heap T) (m : omodel attrs) feed h' r :
  pure_ops T attrs op_eff -> wf_heap T h -> live_list T h feed -> live_list T h (om_params attrs m) ->
  orun T attrs shape_of op_sem op_eff supported h m feed = (h', r) ->
  extends T h h' /\ wf_heap T h' /\
  sim_out T h' r (run_model T attrs shape_of op_sem supported (graph_of T attrs h m) (deref_list T h feed)).
Proof. exact (orun_pure T attrs shape_of op_sem op_eff supported h m feed h' r). Qed.
Print Assumptions C02_run_touches_nothing.

(* The premise is what the property is about: with ONE operator whose effect is not the identity
   (what Conv's in-place bias reshape, the recurrent operators' in-place state reshape and ArgMax's
   write into the input's shape were before the fix: commits) a two-call history on the same input
   object returns something else the second time. *)
Section Witness.
Let T := nat.
Let sem : string -> unit -> list (option T) -> xres (list (option T)) :=
  fun _ _ ins => match ins with [Some x] => XOk [Some (x + 1)] | _ => XErr ROpErr end.
Let eff_pure : string -> unit -> list (option T) -> list (option T) := fun _ _ ins => ins.
Let eff_bump : string -> unit -> list (option T) -> list (option T) := fun _ _ ins => map (option_map S) ins.
Let m : omodel unit :=
  {| om_inputs := [("x", None)]; om_params := []; om_outputs := ["y"];
     om_nodes := [ {| n_op := "inc"; n_attrs := tt; n_in := ["x"]; n_out := ["y"] |} ] |}.
Let h0 : heap T := {| h_obj := fun i => if Nat.eqb i 0 then Some 5 else None; h_next := 1 |}.
Let calls := [[("x", 0)]; [("x", 0)]].

Example C02_nonvacuous :
  snd (orun_hist T unit (fun _ => []) sem eff_pure (fun _ => true) h0 m calls)
  = [XOk [("y", Some 6)]; XOk [("y", Some 6)]]
  /\ h_obj T (fst (orun_hist T unit (fun _ => []) sem eff_pure (fun _ => true) h0 m calls)) 0 = Some 5.
Proof. vm_compute. split; reflexivity. Qed.

Example C02_impure_effect_refuted :
  snd (orun_hist T unit (fun _ => []) sem eff_bump (fun _ => true) h0 m calls)
  = [XOk [("y", Some 6)]; XOk [("y", Some 7)]]
  /\ h_obj T (fst (orun_hist T unit (fun _ => []) sem eff_bump (fun _ => true) h0 m calls)) 0 = Some 7.
Proof. vm_compute. split; reflexivity. Qed.
End Witness.
