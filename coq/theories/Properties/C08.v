(* C08 — Transpose, Concat, Slice, Gather, Expand select exactly the ONNX-indexed data.
   Statements only; proofs in Proofs/IndexOpsProofs.v and Proofs/GatherLoopProofs.v.
   M = Model/IndexOps.v (transpose.go, concat.go, slice.go through G/Slice.v = gorgonia's Dense.Slice,
   gather.go, expand.go through the broadcast model; as repaired) and Model/GatherLoop.v (the block-copy
   loop of gather.go); S = the ONNX index formulas (Check/CheckC08.v: Slice-13 clamping rules, Gather
   formula, two-way broadcast, concatenation, permutation). *)
From Coq Require Import List ZArith Bool String.
From V Require Import DType Tensor Case OpCheck BroadcastProofs IndexOps CheckC08 ShapeOpsProofs IndexOpsProofs GatherLoop GatherLoopProofs C08TransposeFormula C08ConcatShape C08TransposeGuard C08TransposeIdentity.
Import ListNotations.

(* For EVERY case of the five operators -- any rank, any positive extents, any attributes and operand
   values -- outside the two known-finding classes of Slice and the two excluded corners below, the
   model's outcome is the one S prescribes: exactly the ONNX tensor, or a refusal where S allows one,
   an error where ONNX has no answer or the result would be empty; never another tensor, never a panic *)
Theorem C08_model_refines_spec (c : opcase) :
  (forall t, nth 0 (oc_ins c) None = Some t -> wf (tz t) /\ positive (sh t)) ->
  known_class c = None -> c08_excluded c = false ->
  refines (spec c) (model c).
Proof. exact (c08_model_refines_spec c). Qed.
Print Assumptions C08_model_refines_spec.

(* Slice alone, in the property's words: with positive steps, wherever ONNX's result is a tensor whose
   sliced axes all keep an extent >= 2 and no axis-0 step leaves a remainder, gorgonia's slicing (extent
   arithmetic, offsets, the scalar rule, the dropping of sliced extent-1 axes) returns exactly the ONNX
   tensor -- or the request is refused; an empty or invalid request is always refused *)
Theorem C08_slice_refines t starts ends axes steps :
  positive (sh t) -> slice_known t starts ends axes steps = None ->
  slice_dup_axes t starts axes = false -> slice_unit_noop t starts = false ->
  refines (of_sspec (slice_spec t starts ends axes steps)) (wrap (slice_model t starts ends axes steps)).
Proof. exact (slice_refines t starts ends axes steps). Qed.

(* Expand is the two-way broadcast of the input against the target shape, sharp *)
Theorem C08_expand_exact t shp :
  wf (tz t) -> positive (sh t) -> sh shp <> [] -> existsb (fun d => (d <=? 0)%Z) (pl shp) = false ->
  expand_model t shp = match expand_spec t shp with Some v => MOk v | None => MErr end.
Proof. exact (expand_exact t shp). Qed.

(* Gather: the block-copy LOOP of gather.go (for every coordinate of the index tensor, the block
   data[..., k, ...] assigned pairwise into out[..., coords, ...]) writes every output cell exactly once
   and equals the index formula, for every data rank, index rank (0 included) and axis, any element
   type; and the model used by the check is that loop *)
Theorem C08_gather_loop_is_formula {A} (d : A) a (data : tensor A) (idx : tensor Z) :
  (a < List.length (tshape data))%nat ->
  gather_loop d a data idx =
  tabulate ((firstn a (tshape data) ++ tshape idx ++ skipn (S a) (tshape data))%list)
    (fun o => get d data ((firstn a o ++ [key_of idx (firstn (List.length (tshape idx)) (skipn a o))] ++ skipn (a + List.length (tshape idx))%nat o)%list)).
Proof. exact (gather_loop_index_formula d a data idx). Qed.
Print Assumptions C08_gather_loop_is_formula.
Theorem C08_gather_model_is_loop axis data idx : gather_model axis data idx = gather_loop_model axis data idx.
Proof. exact (gather_model_is_loop_total axis data idx). Qed.

(* the value S prescribes for Transpose (transpose_value, used by spec above) IS the ONNX formula:
   for every permutation perm of the axes -- any rank -- the shape is the permuted input shape, the
   element type is the input's, the payload has one entry per element of that shape, and the element
   at every valid index i is the input element at the index j with j[perm[k]] = i[k] for every axis k *)
Theorem C08_transpose_spec_is_formula t (perm : list nat) :
  List.length perm = List.length (sh t) -> NoDup perm -> (forall a, In a perm -> (a < List.length (sh t))%nat) ->
  sh (transpose_value t perm) = map (fun a => nth a (sh t) 0%nat) perm /\
  dt (transpose_value t perm) = dt t /\
  List.length (pl (transpose_value t perm)) = numel (sh (transpose_value t perm)) /\
  forall i, valid (sh (transpose_value t perm)) i ->
    exists j, get 0%Z (tz (transpose_value t perm)) i = get 0%Z (tz t) j /\
              List.length j = List.length (sh t) /\
              forall k, (k < List.length (sh t))%nat -> nth (nth k perm 0%nat) j 0%nat = nth k i 0%nat.
Proof. exact (transpose_spec_is_formula t perm). Qed.
Print Assumptions C08_transpose_spec_is_formula.
(* its hypotheses are met by every request for which S prescribes a value: every perm attribute
   S accepts (perm_ok), and the default when perm is absent or empty (reversed axes) *)
Theorem C08_transpose_formula_covers_spec t p :
  (perm_ok t p = true ->
   List.length (map Z.to_nat p) = List.length (sh t) /\ NoDup (map Z.to_nat p) /\
   forall a, In a (map Z.to_nat p) -> (a < List.length (sh t))%nat) /\
  (let q := rev (seq 0 (List.length (sh t))) in
   List.length q = List.length (sh t) /\ NoDup q /\ forall a, In a q -> (a < List.length (sh t))%nat).
Proof. exact (conj (perm_ok_hyps t p) (default_perm_hyps t)). Qed.

(* an algebraic law of that value: the identity permutation leaves a well-formed tensor of any rank
   unchanged -- shape, element type and every element *)
Theorem C08_transpose_identity t : List.length (pl t) = numel (sh t) ->
  transpose_value t (seq 0 (List.length (sh t))) = t.
Proof. exact (transpose_identity t). Qed.

(* the value S prescribes for Concat (concat_value), for ANY number of inputs and any axis of the
   first input: the extent along the axis is the sum of all inputs' extents there, every other
   extent, the rank and the element type are the first input's, and the payload has one entry per
   element of that shape *)
Theorem C08_concat_spec_shape axis t0 rest v :
  concat_value axis (t0 :: rest) = Some v -> (axis < List.length (sh t0))%nat ->
  dt v = dt t0 /\ List.length (sh v) = List.length (sh t0) /\
  nthz (sh v) axis = sum_extents axis (t0 :: rest) /\
  (forall k, (k < List.length (sh t0))%nat -> k <> axis -> nthz (sh v) k = nthz (sh t0) k) /\
  (List.length (pl t0) = numel (sh t0) -> List.length (pl v) = numel (sh v)).
Proof. exact (concat_spec_shape axis (t0 :: rest) v). Qed.
(* ... and the joining step that value is folded from: at every valid index the element is the left
   operand's where the axis coordinate lies within its extent, otherwise the right operand's at
   that coordinate minus the left extent. C08_concat_element_partial: stated for the two-operand
   step; the n-ary form follows as C08_concat_nary_element *)
Theorem C08_concat_element_partial axis (a b : tensor Z) i :
  valid (tshape (concat2 axis a b)) i ->
  get 0%Z (concat2 axis a b) i =
  if (nth axis i 0 <? nthz (tshape a) axis)%nat then get 0%Z a i
  else get 0%Z b (map (fun k => if Nat.eqb k axis then (nth k i 0 - nthz (tshape a) axis)%nat else nth k i 0%nat) (seq 0 (List.length i))).
Proof. exact (concat2_element axis a b i). Qed.
(* n inputs, read from the right: at every valid index the joined value is the LAST input's element
   where the axis coordinate reaches the sum of all earlier extents (at the coordinate minus that
   sum), otherwise the element of the join of the earlier inputs; by recursion on the number of
   inputs this is the ONNX cumulative formula for any number of inputs *)
Theorem C08_concat_nary_element axis (acc : tensor Z) rest t i :
  (axis < List.length (tshape acc))%nat ->
  let join := fold_left (fun acc t => concat2 axis acc (tz t)) in
  valid (tshape (join (rest ++ [t]) acc)) i ->
  get 0%Z (join (rest ++ [t]) acc) i =
  let before := (nthz (tshape acc) axis + sum_extents axis rest)%nat in
  if (nth axis i 0 <? before)%nat then get 0%Z (join rest acc) i
  else get 0%Z (tz t) (map (fun k => if Nat.eqb k axis then (nth k i 0 - before)%nat else nth k i 0%nat) (seq 0 (List.length i))).
Proof. exact (concat_nary_element axis acc rest t i). Qed.
Print Assumptions C08_concat_spec_shape.

(* the two excluded corners are real disagreements between gorgonia-through-slice.go and S, outside
   what the harness generates and outside ONNX's defined behaviour: an axis named twice (ONNX: undefined),
   and a Slice with EMPTY starts on an all-ones shape (the library's scalar rule fires) *)
Example C08_dup_axes_refuted :
  let t := {| dt := Float32; sh := [4]%nat; pl := [10;11;12;13]%Z |} in
  let i64 l := {| dt := Int64; sh := [List.length l]; pl := l |} in
  slice_dup_axes t (i64 [0;1]%Z) (Some (i64 [0;-1]%Z)) = true /\
  slice_spec t (i64 [0;1]%Z) (i64 [2;3]%Z) (Some (i64 [0;-1]%Z)) None = SInvalid /\
  slice_model t (i64 [0;1]%Z) (i64 [2;3]%Z) (Some (i64 [0;-1]%Z)) None = MOk {| dt := Float32; sh := [2]%nat; pl := [11;12]%Z |}.
Proof. vm_compute. repeat split. Qed.

(* the known-finding classes are real *)
Example C08_slice_drop_refuted :
  let t := {| dt := Float32; sh := [3;4]%nat; pl := map Z.of_nat (seq 0 12) |} in
  let i64 l := {| dt := Int64; sh := [List.length l]; pl := l |} in
  slice_known t (i64 [0]%Z) (i64 [1]%Z) (Some (i64 [0]%Z)) None = Some 1%Z /\
  slice_model t (i64 [0]%Z) (i64 [1]%Z) (Some (i64 [0]%Z)) None = MOk {| dt := Float32; sh := [4]%nat; pl := [0;1;2;3]%Z |} /\
  slice_spec t (i64 [0]%Z) (i64 [1]%Z) (Some (i64 [0]%Z)) None = SValue {| dt := Float32; sh := [1;4]%nat; pl := [0;1;2;3]%Z |}.
Proof. vm_compute. repeat split. Qed.

(* non-vacuity: a strided two-axis slice with a negative axis; a gather along axis 1 with negative indices *)
Example C08_nonvacuous :
  let t := {| dt := Float32; sh := [3;4]%nat; pl := map Z.of_nat (seq 0 12) |} in
  let i64 s l := {| dt := Int64; sh := s; pl := l |} in
  slice_model t (i64 [2%nat] [0;1]%Z) (i64 [2%nat] [3;4]%Z) (Some (i64 [2%nat] [0;-1]%Z)) (Some (i64 [2%nat] [1;2]%Z))
    = MOk {| dt := Float32; sh := [3;2]%nat; pl := [1;3;5;7;9;11]%Z |} /\
  gather_model 1 t (i64 [2%nat] [-1;0]%Z) = MOk {| dt := Float32; sh := [3;2]%nat; pl := [3;0;7;4;11;8]%Z |}.
Proof. vm_compute. repeat split. Qed.
