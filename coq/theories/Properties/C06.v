(* C06 — RNN, GRU, LSTM implement the ONNX recurrences, consistently under splitting.
   Statements only; proofs in Proofs/RecurrentProofs.v. M = Model/Recurrent.v: the per-gate
   Gemm(transB) calls, the ONNX gate order of the packed W/R/B/P tensors, linear_before_reset,
   peepholes, input_forget, the time loop and the assembly of Y, Y_h, Y_c -- generic in the scalar
   operations (a record `sops`). S = the same equations instantiated at rounding-aware interval
   enclosures of the real functions (Check/CheckC06.v, G/Ival.v, soundness: Properties/C10.v). *)
From Coq Require Import List Bool.
From Coq Require Import Reals.
From V Require Import Recurrent RecurrentProofs Ival IvalProofs CheckC06 FexecProofs.
Import ListNotations.

(* SPLIT CONSISTENCY, for ANY scalar type and ANY scalar operations (no algebraic law is used, so it
   holds bit for bit in floating point), any kind, activations, flags, weights, sequence lengths:
   processing xs1 ++ xs2 gives Y1 ++ Y2 and the final states of running xs2 from the final states of xs1 *)
Theorem C06_split_consistent {A} (o : sops A) k acts lbr coupled Wg Rg Wb Rb P xs1 xs2 h0 c0 :
  run_rec o k acts lbr coupled Wg Rg Wb Rb P (xs1 ++ xs2) h0 c0 =
  (let '(Y1, h1, c1) := run_rec o k acts lbr coupled Wg Rg Wb Rb P xs1 h0 c0 in
   let '(Y2, h2, c2) := run_rec o k acts lbr coupled Wg Rg Wb Rb P xs2 h1 c1 in (Y1 ++ Y2, h2, c2)).
Proof. exact (run_rec_app o k acts lbr coupled Wg Rg Wb Rb P xs1 xs2 h0 c0). Qed.
Print Assumptions C06_split_consistent.

(* one Y entry per time step; Y_h is the last of them *)
Theorem C06_one_output_per_step {A} (o : sops A) k acts lbr coupled Wg Rg Wb Rb P xs h0 c0 :
  length (fst (fst (run_rec o k acts lbr coupled Wg Rg Wb Rb P xs h0 c0))) = length xs.
Proof. exact (run_rec_length o k acts lbr coupled Wg Rg Wb Rb P xs h0 c0). Qed.
Theorem C06_Yh_is_last_Y {A} (o : sops A) k acts lbr coupled Wg Rg Wb Rb P xs h0 c0 d :
  xs <> [] -> last (fst (fst (run_rec o k acts lbr coupled Wg Rg Wb Rb P xs h0 c0))) d
              = snd (fst (run_rec o k acts lbr coupled Wg Rg Wb Rb P xs h0 c0)).
Proof. exact (run_rec_last o k acts lbr coupled Wg Rg Wb Rb P xs h0 c0 d). Qed.

(* THE MODEL IS NATURAL IN THE SCALAR TYPE: any relation preserved by the scalar operations and the
   activations is preserved by the whole recurrence. With R = "the interval contains the real" this
   says: the interval instantiation S encloses the real-number recurrence. *)
Theorem C06_relational {A B} (o : sops A) (o' : sops B) (R : A -> B -> Prop) :
  ops_related o o' R ->
  forall Wg Rg Wb Rb P Wg' Rg' Wb' Rb' P',
  Forall2 (Forall2 (Forall2 R)) Wg Wg' -> Forall2 (Forall2 (Forall2 R)) Rg Rg' ->
  Forall2 (Forall2 R) Wb Wb' -> Forall2 (Forall2 R) Rb Rb' -> opt_rel (Forall2 (Forall2 R)) P P' ->
  forall k acts acts' lbr coupled, Forall2 (frel R) acts acts' ->
  forall xs xs' h0 h0' c0 c0',
  Forall2 (Forall2 (Forall2 R)) xs xs' -> Forall2 (Forall2 R) h0 h0' -> Forall2 (Forall2 R) c0 c0' ->
  Forall2 (Forall2 (Forall2 R)) (fst (fst (run_rec o k acts lbr coupled Wg Rg Wb Rb P xs h0 c0)))
                                 (fst (fst (run_rec o' k acts' lbr coupled Wg' Rg' Wb' Rb' P' xs' h0' c0'))) /\
  Forall2 (Forall2 R) (snd (fst (run_rec o k acts lbr coupled Wg Rg Wb Rb P xs h0 c0)))
                      (snd (fst (run_rec o' k acts' lbr coupled Wg' Rg' Wb' Rb' P' xs' h0' c0'))) /\
  Forall2 (Forall2 R) (snd (run_rec o k acts lbr coupled Wg Rg Wb Rb P xs h0 c0))
                      (snd (run_rec o' k acts' lbr coupled Wg' Rg' Wb' Rb' P' xs' h0' c0')).
Proof. exact (run_rec_rel o o' R). Qed.
Print Assumptions C06_relational.

(* S IS SOUND FOR FLOATING POINT: run the recurrence over the reals with ANY rounded operations --
   arbitrary functions rnd_add, rnd_sub, rnd_mul within one unit roundoff (plus the absolute allowance) of
   the exact result, rnd_dot within the dot-product bound 2(n+1)u sum|x_i y_i|, activations within their
   kernels' allowances -- on real inputs enclosed by the interval inputs: every Y at every step, Y_h and Y_c
   lies in the interval outputs of the model at `iops w`, i.e. in the enclosures the check judges the Go
   outputs against. (near, dot_near, act_ok, fops: Proofs/FexecProofs.v.) *)
Theorem C06_enclosures_sound (w : fw) (rnd_add rnd_sub rnd_mul : R -> R -> R) (rnd_dot : list R -> list R -> R) :
  (forall x y, near w 1 (x + y) (rnd_add x y)) -> (forall x y, near w 1 (x - y) (rnd_sub x y)) ->
  (forall x y, near w 1 (x * y) (rnd_mul x y)) -> (forall xs ys, dot_near w xs ys (rnd_dot xs ys)) ->
  forall k (al : list actk) (racts : list (R -> R)) lbr coupled Wg Rg Wb Rb P Wg' Rg' Wb' Rb' P' xs xs' h0 h0' c0 c0',
  Forall2 (act_ok w) al racts ->
  Forall2 (Forall2 (Forall2 encl)) Wg Wg' -> Forall2 (Forall2 (Forall2 encl)) Rg Rg' ->
  Forall2 (Forall2 encl) Wb Wb' -> Forall2 (Forall2 encl) Rb Rb' -> opt_rel (Forall2 (Forall2 encl)) P P' ->
  Forall2 (Forall2 (Forall2 encl)) xs xs' -> Forall2 (Forall2 encl) h0 h0' -> Forall2 (Forall2 encl) c0 c0' ->
  let ri := run_rec (iops w) k (map (act_fn w) al) lbr coupled Wg Rg Wb Rb P xs h0 c0 in
  let rr := run_rec (fops rnd_add rnd_sub rnd_mul rnd_dot) k racts lbr coupled Wg' Rg' Wb' Rb' P' xs' h0' c0' in
  Forall2 (Forall2 (Forall2 encl)) (fst (fst ri)) (fst (fst rr)) /\
  Forall2 (Forall2 encl) (snd (fst ri)) (snd (fst rr)) /\ Forall2 (Forall2 encl) (snd ri) (snd rr).
Proof. exact (fexec_recurrent w rnd_add rnd_sub rnd_mul rnd_dot). Qed.
Print Assumptions C06_enclosures_sound.
(* relu exactly, tanh within 8u: the activation hypotheses are satisfiable *)
Theorem C06_relu_ok w : act_ok w ARelu (fun x => Rmax x 0).
Proof. exact (relu_act_ok w). Qed.
Theorem C06_tanh_ok w act : (forall x, near w 8 (tanh x) (act x)) -> act_ok w ATanh act.
Proof. exact (tanh_act_ok w act). Qed.

(* the ONNX equations are what the model's cells compute (gate order i o f c / z r h, bias slots Wb then
   Rb, C_t before the output gate, peepholes i o f): by definition of Model/Recurrent.v -- an executable
   witness over the integers, with the identity as activation, f = 1 - i under input_forget: *)
Open Scope nat_scope.
Example C06_nonvacuous :
  let o := {| s_zero := 0; s_one := 1; s_add := Nat.add; s_sub := Nat.sub; s_mul := Nat.mul;
              s_dot := fun a b => fold_left Nat.add (map (fun p => fst p * snd p) (combine a b)) 0 |} in
  (* RNN, hidden 1, input 1: h' = x*w + wb + h*r + rb *)
  run_rec o KRNN [fun v => v] false false [[[2]]] [[[3]]] [[5]] [[7]] None [[[1]]; [[10]]] [[4]] [[0]]
  = ([[[2*1+5+(4*3+7)]]; [[2*10+5+((2*1+5+(4*3+7))*3+7)]]], [[2*10+5+((2*1+5+(4*3+7))*3+7)]], [[0]]).
Proof. vm_compute. reflexivity. Qed.
