(* C05 — Conv equals direct convolution for every geometry, not only square ones.
   Statements only; proofs in Proofs/ConvLoopProofs.v and Proofs/ConvProofs.v.
   M = Model/ConvLoop.v (the loop nests of applyConv1D/applyConv2D as repaired, any scalar type)
   and Model/Conv.v (defaults, dilation by zero insertion, auto_pad as written, refusals, bias);
   S = the ONNX direct-convolution formula (conv1d_spec / conv2d_spec here; Conv.conv_spec with the
   ONNX pad and dilation rules in the correspondence check). *)
From Coq Require Import List ZArith Bool String Lia.
From Coq Require Import Permutation.
From V Require Import DType Tensor Case Writes ConvLoop ConvLoopProofs Conv ConvProofs ConvRefines OpCheck CheckC05 ConvAttrs.
Import ListNotations.

(* The loop nests ARE the direct convolution: for every batch size, channel and kernel count, every
   image and kernel extent (non-square included), every pad per side and every stride >= 1, over ANY
   scalar type with any addition and multiplication (same tap order, so bit for bit in floating
   point): each output cell is written exactly once with the sum over channels and taps of padded
   input times weight, and the output extents are the ONNX ones. *)
Theorem C05_conv1d_loop_is_onnx {A} (zero : A) add mul (N C H M KW p0 p1 s : nat) (x k : tensor A) :
  (1 <= s -> 1 <= KW <= p0 + H + p1 ->
  conv1d_loop zero add mul N C H M KW p0 p1 s x k = conv1d_spec zero add mul N C H M KW p0 p1 s x k)%nat.
Proof. exact (conv1d_loop_spec zero add mul N C H M KW p0 p1 s x k). Qed.
Print Assumptions C05_conv1d_loop_is_onnx.

Theorem C05_conv2d_loop_is_onnx {A} (zero : A) add mul (N C H W M KH KW p0 p1 p2 p3 s0 s1 : nat) (x k : tensor A) :
  (1 <= s0 -> 1 <= s1 -> 1 <= KH <= p0 + H + p2 -> 1 <= KW <= p1 + W + p3 ->
  conv2d_loop zero add mul N C H W M KH KW p0 p1 p2 p3 s0 s1 x k
  = conv2d_spec zero add mul N C H W M KH KW p0 p1 p2 p3 s0 s1 x k)%nat.
Proof. exact (conv2d_loop_spec zero add mul N C H W M KH KW p0 p1 p2 p3 s0 s1 x k). Qed.
Print Assumptions C05_conv2d_loop_is_onnx.

Open Scope Z_scope.

(* auto_pad: for NOTSET, SAME_UPPER and SAME_LOWER the pads the code computes are the ONNX pads,
   and an auto mode never requests a negative pad *)
Theorem C05_auto_pad_is_onnx cf x k i :
  c_auto cf <> Valid -> 1 <= str cf i -> code_pads cf x k i = onnx_pads cf x k i.
Proof. exact (code_pads_onnx cf x k i). Qed.
Print Assumptions C05_auto_pad_is_onnx.

Theorem C05_auto_pad_nonneg cf x k i :
  c_auto cf <> NotSet -> 0 <= fst (code_pads cf x k i) /\ 0 <= snd (code_pads cf x k i).
Proof. exact (code_pads_auto_nonneg cf x k i). Qed.

(* "refused with an error instead of being computed differently": a tensor is returned only for 1-D
   and 2-D inputs, the value is then the direct convolution of the (zero-inserted) dilated kernel
   with the input padded by the pads in force, plus the bias of the output channel; no panic unless
   a negative explicit pad was requested *)
Theorem C05_model_value_1d cf x k b t :
  nsp x = 1%nat -> conv_model cf x k b = MOk t -> 1 <= str cf 0 ->
  let kd := dilate (tzc k) [Z.to_nat (dil cf 0)] in
  let p := Z.to_nat (fst (code_pads cf x k 0)) in let q := Z.to_nat (snd (code_pads cf x k 0)) in
  let e := fun l i => nth i l 0%nat in
  (1 <= e (tshape kd) 2 <= p + e (sh x) 2 + q)%nat ->
  t = let r := add_bias (conv1d_spec 0%Z Z.add Z.mul (e (sh x) 0) (e (sh x) 1) (e (sh x) 2) (e (sh k) 0) (e (tshape kd) 2)
                                      p q (Z.to_nat (str cf 0)) (tzc x) kd)%nat b in
      {| dt := dt x; sh := tshape r; pl := tdata r |}.
Proof. exact (conv_model_1d cf x k b t). Qed.

Theorem C05_model_value_2d cf x k b t :
  nsp x = 2%nat -> conv_model cf x k b = MOk t -> 1 <= str cf 0 -> 1 <= str cf 1 ->
  let kd := dilate (tzc k) [Z.to_nat (dil cf 0); Z.to_nat (dil cf 1)] in
  let p := fun i => Z.to_nat (fst (code_pads cf x k i)) in let q := fun i => Z.to_nat (snd (code_pads cf x k i)) in
  let e := fun l i => nth i l 0%nat in
  (1 <= e (tshape kd) 2 <= p 0 + e (sh x) 2 + q 0)%nat -> (1 <= e (tshape kd) 3 <= p 1 + e (sh x) 3 + q 1)%nat ->
  t = let r := add_bias (conv2d_spec 0%Z Z.add Z.mul (e (sh x) 0) (e (sh x) 1) (e (sh x) 2) (e (sh x) 3) (e (sh k) 0)
                                      (e (tshape kd) 2) (e (tshape kd) 3) (p 0) (p 1) (q 0) (q 1)
                                      (Z.to_nat (str cf 0)) (Z.to_nat (str cf 1)) (tzc x) kd)%nat b in
      {| dt := dt x; sh := tshape r; pl := tdata r |}.
Proof. exact (conv_model_2d cf x k b t). Qed.
Print Assumptions C05_model_value_2d.

Theorem C05_value_only_for_1d_2d cf x k b t : conv_model cf x k b = MOk t -> nsp x = 1%nat \/ nsp x = 2%nat.
Proof. exact (conv_model_ok_rank cf x k b t). Qed.

Theorem C05_no_panic cf x k b :
  (forall i, 0 <= fst (code_pads cf x k i) /\ 0 <= snd (code_pads cf x k i)) -> conv_model cf x k b <> MPanic.
Proof. exact (conv_model_no_panic cf x k b). Qed.

(* END TO END: whenever the model of conv.go returns a tensor and auto_pad is not VALID, it is EXACTLY
   the tensor of the independent ONNX specification conv_spec (direct convolution with taps at k * dilation
   of the input zero-padded by the ONNX pads, ONNX output extents, bias per output channel) -- 1-D and 2-D,
   every dilation, stride, pad, auto_pad NOTSET / SAME_UPPER / SAME_LOWER, with or without bias. The
   hypotheses only say that the operands are a convolution at all (kernel rank and channel count match the
   input, kernel extents, strides and dilations >= 1, the dilated kernel fits into the padded input). *)
Theorem C05_model_refines_spec cf x k bias t :
  conv_wf_min cf x k -> c_auto cf <> Valid -> conv_model cf x k bias = MOk t -> t = conv_spec cf x k bias.
Proof. exact (conv_model_refines_spec_min cf x k bias t). Qed.
Print Assumptions C05_model_refines_spec.

(* the known-finding class is real: for auto_pad = VALID the code pads like SAME_UPPER, ONNX does not pad *)
(* the attributes are a set: whatever the order of the node's attribute list (distinct names), the
   model and the specification give the same outcome -- a `group` other than 1 or an attribute Conv
   does not know refuses the node wherever it stands (the implementation is observed on this by the
   attribute_order stream and by the group / unknown-attribute cases of the generator) *)
Theorem C05_attribute_order_irrelevant c c' :
  oc_ins c = oc_ins c' -> Permutation (oc_attrs c) (oc_attrs c') -> NoDup (map attr_name (oc_attrs c)) ->
  CheckC05.model c = CheckC05.model c' /\ CheckC05.spec c = CheckC05.spec c' /\ CheckC05.known_class c = CheckC05.known_class c'.
Proof. exact (conv_attr_order c c'). Qed.
Theorem C05_group_refused c : existsb (fun a => match a with AInt n g => String.eqb n "group" && negb (g =? 1)%Z | _ => false end) (oc_attrs c) = true ->
  CheckC05.model c = MErr /\ CheckC05.spec c = SMustErr.
Proof. exact (conv_group_refused c). Qed.

Example C05_valid_refuted :
  let cf := {| c_auto := Valid; c_dil := [2]; c_pads := []; c_str := [1] |} in
  let x := {| dt := Float32; sh := [1;1;5]%nat; pl := [1;2;3;4;5] |} in
  let k := {| dt := Float32; sh := [1;1;3]%nat; pl := [1;1;1] |} in
  code_pads cf x k 0 = (2, 2) /\ onnx_pads cf x k 0 = (0, 0) /\
  conv_model cf x k None = MOk {| dt := Float32; sh := [1;1;5]%nat; pl := [4;6;9;6;8] |} /\
  conv_spec cf x k None = {| dt := Float32; sh := [1;1;1]%nat; pl := [9] |}.
Proof. vm_compute. repeat split. Qed.

(* non-vacuity: a wide 2-D image (the geometry the square-only tests never reach), asymmetric pads,
   unequal strides, bias: model = ONNX spec, and the hypotheses of the loop theorem hold *)
Example C05_nonvacuous :
  let cf := {| c_auto := NotSet; c_dil := []; c_pads := [1;0;0;2]; c_str := [1;2] |} in
  let x := {| dt := Float32; sh := [1;1;2;5]%nat; pl := [1;2;3;4;5;6;7;8;9;10] |} in
  let k := {| dt := Float32; sh := [1;1;2;2]%nat; pl := [1;0;0;1] |} in
  let b := Some {| dt := Float32; sh := [1]%nat; pl := [100] |} in
  conv_model cf x k b = MOk (conv_spec cf x k b) /\
  conv_spec cf x k b = {| dt := Float32; sh := [1;1;2;3]%nat; pl := [102;104;100;108;112;105] |} /\
  (1 <= 2 <= 1 + 2 + 0)%nat /\ (1 <= 2 <= 0 + 5 + 2)%nat.
Proof. vm_compute. repeat split; lia. Qed.
