(* C12 — Weights decode to their declared shape, type and exact values, or are refused.
   Statements only; proofs in Proofs/DecodeProofs.v. M = Model/Decode.v (follows
   onnx/graph_proto.go:TensorFromProto and its readers, as repaired), S = Check/CheckC12.v
   (written from the ONNX TensorProto documentation). *)
From Coq Require Import List ZArith Bool Lia.
From V Require Import DType Case OpCheck Scalar Decode CheckC12 DecodeProofs DimsLoop.
Import ListNotations.
Open Scope Z_scope.

(* For EVERY TensorProto (any data_type code, any dims, any payload bytes, any typed fields)
   outside the known-finding class: the model returns the tensor with exactly the declared
   shape, the declared element type and the declared values bit for bit when the proto is well
   formed, and an error when the payload is not a whole number of elements, the element count
   differs from the product of the dims, a dim is not positive, or the element type is not one
   of the eleven. *)
Theorem C12_model_refines_spec (c : pcase) :
  bytes_ok (pc_tp c) -> known_class c = None -> refines (spec c) (model c).
Proof. exact (c12_model_refines_spec c). Qed.
Print Assumptions C12_model_refines_spec.

(* never a crash, never a tensor whose payload length contradicts its shape *)
Theorem C12_never_panics_shape_consistent tp :
  match tensor_from_proto tp with
  | MOk t => sh t = map Z.to_nat (tp_dims tp) /\ Forall (fun d => 1 <= d) (tp_dims tp) /\
             Z.of_nat (List.length (pl t)) = zprod (tp_dims tp)
  | MErr => True
  | MPanic => False
  end.
Proof. exact (tensor_from_proto_shape tp). Qed.
Print Assumptions C12_never_panics_shape_consistent.

(* the little-endian readers invert the encoder, for every element width and every length *)
Theorem C12_reader_roundtrip w xs : (0 < w)%nat ->
  Forall (fun x => 0 <= x < 256 ^ Z.of_nat w) xs ->
  read_array w w (flat_map (enc w) xs) = ROk xs.
Proof. exact (read_array_roundtrip w xs). Qed.
Print Assumptions C12_reader_roundtrip.

Theorem C12_partial_element_refused w data : (0 < w)%nat ->
  (List.length data mod w <> 0)%nat -> read_fixed w data = None.
Proof. exact (read_fixed_partial w data). Qed.

(* The dims loop of TensorFromProto as repaired (fix 1f7a807: `dim < 1 || dim > nValues/nElements`
   refuses, else nElements *= dim; finally nValues == nElements): for ANY dims -- huge, negative,
   wrapping -- it accepts exactly what the model's test accepts (every extent >= 1 and the unbounded
   product equal to the number of values), and no product it ever forms exceeds the number of values,
   so the machine multiplication cannot wrap. *)
Theorem C12_dims_loop_is_the_models_test nv dims : 0 <= nv ->
  dims_accept nv dims = negb (existsb (fun x => x <? 1) dims) && (nv =? zprod dims).
Proof. exact (dims_accept_exact nv dims). Qed.
Theorem C12_model_is_the_loop tp : tensor_from_proto tp = tensor_from_proto_loop tp.
Proof. exact (tensor_from_proto_is_loop tp). Qed.
Theorem C12_dims_loop_cannot_overflow nv dims : 0 <= nv -> Forall (fun p => 1 <= p <= nv) (dims_trace nv 1 dims).
Proof. intro H. exact (dims_trace_bounded nv 1 dims ltac:(lia) H). Qed.
(* as first written (product, then one comparison) the wrapped product of [2^32; 2^32] is 0 = an empty payload *)
Example C12_wrapping_dims_refuted :
  (fold_left (fun a d => (a * d) mod 2 ^ 64) [4294967296; 4294967296] 1 =? 0) = true /\ dims_accept 0 [4294967296; 4294967296] = false.
Proof. vm_compute. split; reflexivity. Qed.

(* The defect that was repaired (fix: raw uint64 ...): with the buffer and element sizes of the
   reader as first written, NO non-empty payload ever decoded. *)
Theorem C12_uint64_reader_as_first_written_refuted data :
  data <> [] -> read_array 4 8 data = RNilNil.
Proof. exact (uint64_reader_never_decoded data). Qed.

(* the remaining known-finding class is real *)
Example C12_undefined_fallback_refuted :
  let tp := {| tp_type := 0; tp_dims := [2]; tp_raw := []; tp_float := [1065353216; 1073741824];
               tp_int32 := []; tp_int64 := []; tp_double := []; tp_uint64 := [] |} in
  known_class {| pc_tp := tp; pc_obs := OPanic |} = Some 1 /\
  spec {| pc_tp := tp; pc_obs := OPanic |} = SMustErr /\
  tensor_from_proto tp = MOk {| dt := Float32; sh := [2%nat]; pl := [1065353216; 1073741824] |}.
Proof. vm_compute. repeat split. Qed.

Example C12_nonvacuous :
  let tp := {| tp_type := 7; tp_dims := [2]; tp_raw := [255;255;255;255;255;255;255;255; 1;0;0;0;0;0;0;128];
               tp_float := []; tp_int32 := []; tp_int64 := []; tp_double := []; tp_uint64 := [] |} in
  bytes_ok tp /\ tensor_from_proto tp = MOk {| dt := Int64; sh := [2%nat]; pl := [-1; -9223372036854775807] |}.
Proof. split; [repeat constructor; lia|vm_compute; reflexivity]. Qed.
