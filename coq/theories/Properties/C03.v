(* C03 — Elementwise binary arithmetic, comparison and logic follow ONNX broadcasting.
   Statements only; proofs in Proofs/BinaryOpsProofs.v (which rests on the broadcast theorem
   of C14). M = Model/BinaryOps.v + Model/Scalar.v, S = binop_spec over Spec/BroadcastSpec.v. *)
From Coq Require Import List ZArith Bool String Lia.
From V Require Import DType Tensor Case Broadcast BroadcastSpec BroadcastProofs Scalar BinaryOps BinaryOpsProofs.
Import ListNotations.
Open Scope Z_scope.

(* For operands of ANY rank with positive extents and the same element type, and any scalar
   operation g: the model returns exactly the ONNX result -- the broadcast shape, the result
   dtype, g applied to the correspondingly broadcast elements -- when the shapes are
   broadcast-compatible, and an error when they are not. *)
Theorem C03_binop_is_onnx g odt a b :
  wf_tv a -> wf_tv b -> dt a = dt b ->
  binop_model (Some g) odt a b = match binop_spec g odt a b with Some v => MOk v | None => MErr end.
Proof. exact (binop_model_correct g odt a b). Qed.
Print Assumptions C03_binop_is_onnx.

Theorem C03_spec_shape_type_elements g odt a b v :
  binop_spec g odt a b = Some v ->
  exists s, bshape (sh a) (sh b) = Some s /\ sh v = s /\ dt v = odt /\
    forall i, valid s i ->
      get 0 (tz v) i = g (get 0 (tz a) (bproj (sh a) i)) (get 0 (tz b) (bproj (sh b) i)).
Proof. exact (binop_spec_elements g odt a b v). Qed.
Print Assumptions C03_spec_shape_type_elements.

(* an element type the kernel does not implement, or mixed element types: refused, never a value *)
Theorem C03_refused_not_computed odt a b f : f = None \/ dt a <> dt b ->
  match binop_model f odt a b with MOk _ => False | _ => True end.
Proof. exact (binop_model_refuses odt a b f). Qed.
Print Assumptions C03_refused_not_computed.

(* integers: two's-complement wrap-around, truncating division *)
Theorem C03_wrap_signed bits z : 0 < bits ->
  - 2 ^ (bits - 1) <= wrap bits true z < 2 ^ (bits - 1) /\ (wrap bits true z) mod 2 ^ bits = z mod 2 ^ bits.
Proof. intros H. split; [now apply wrap_signed_range|now apply wrap_congruent]. Qed.
Theorem C03_wrap_unsigned bits z : 0 < bits ->
  0 <= wrap bits false z < 2 ^ bits /\ (wrap bits false z) mod 2 ^ bits = z mod 2 ^ bits.
Proof. intros H. split; [now apply wrap_unsigned_range|now apply wrap_congruent]. Qed.
Theorem C03_int_div_truncates a b : b <> 0 ->
  a = b * Z.quot a b + Z.rem a b /\ Z.abs (Z.rem a b) < Z.abs b /\ (Z.rem a b = 0 \/ Z.sgn (Z.rem a b) = Z.sgn a).
Proof. exact (int_div_truncates a b). Qed.
Print Assumptions C03_int_div_truncates.

(* floats: the model's operations ARE Flocq's IEEE-754 binary32/binary64 operations at
   round-to-nearest-even (Model/Scalar.v: b32_plus, b32_minus, b32_mult, b32_div, Bcompare), so
   NaN/Inf/signed-zero behaviour is IEEE's by Flocq's Bplus_correct etc. The one deviation of the
   code -- gorgonia's float kernels return +Inf for every division by a zero -- is a known
   finding; it is refuted here against IEEE: *)
Example C03_float_div_by_zero_refuted :
  (* 0/0: IEEE says NaN, the code's kernel says +Inf *)
  f32_div_ieee 0 0 = nan32 /\ f32_arith ODiv 0 0 = 2139095040 /\
  (* -1/0: IEEE says -Inf, the kernel says +Inf *)
  f32_div_ieee 3212836864 0 = 4286578688 /\ f32_arith ODiv 3212836864 0 = 2139095040.
Proof. vm_compute. repeat split. Qed.

Example C03_nonvacuous :
  let a := {| dt := Int32; sh := [2;1]%nat; pl := [2147483647; -5] |} in
  let b := {| dt := Int32; sh := [2]%nat; pl := [1; 2] |} in
  wf_tv a /\ wf_tv b /\
  binop_model (arith_fn Int32 OAdd) Int32 a b = MOk {| dt := Int32; sh := [2;2]%nat; pl := [-2147483648; -2147483647; -4; -3] |} /\
  binop_model (arith_fn Int32 ODiv) Int32 a b = MOk {| dt := Int32; sh := [2;2]%nat; pl := [2147483647; 1073741823; -5; -2] |}.
Proof.
  cbn zeta. split; [|split]; [split; [reflexivity|intros k Hk; cbn in *; repeat (destruct k as [|k]; cbn; try lia)]..|].
  vm_compute. repeat split.
Qed.
