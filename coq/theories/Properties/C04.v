(* C04 — MatMul, Gemm, LinearRegressor and Scaler compute their algebraic definitions.
   Statements only; proofs in Proofs/MatMulProofs.v, Proofs/OdometerProofs.v, Proofs/GemmProofs.v.
   M = Model/MatMul.v (matmul.go: 2-D product, vector promotion/demotion, batch broadcasting on the
   block view, the odometer of batchedMatMul) and the models of gemm.go / linear_regressor.go /
   scaler.go in Check/CheckC04.v; S = numpy.matmul (Spec/MatMulSpec.v) and the ONNX / ONNX-ML
   formulas (gemm_s, linreg_s, scaler_s in Check/CheckC04.v). *)
From Coq Require Import List ZArith Bool String.
From Coq Require Import Reals.
From V Require Import Tensor Case OpCheck BroadcastProofs Odometer OdometerProofs MatMul MatMulSpec MatMulProofs CheckC04 GemmProofs Ival IvalProofs FexecProofs C04FloatProofs.
Import ListNotations.

(* MatMul follows numpy.matmul for EVERY rank combination -- vector.vector, vector.matrix,
   matrix.vector, stacks of matrices with broadcast batch dimensions, any number of batch axes, any
   positive extents -- over ANY scalar type with any addition and multiplication (sums accumulated
   from k = 0, so bit for bit in floating point when the kernel does the same): the model returns
   exactly numpy's tensor (shape and every element), or an error exactly when numpy has no answer
   (inner extents differ, batch shapes do not broadcast). The one exception is the known-finding
   region `matmul_degenerate`. *)
Theorem C04_matmul_is_numpy {A} (zero : A) add mul (a b : tensor A) :
  wf a -> wf b -> positive (tshape a) -> positive (tshape b) -> (1 <= rank a)%nat -> (1 <= rank b)%nat ->
  matmul_degenerate a b = false ->
  matmul_model zero add mul a b = match matmul_spec zero add mul a b with Some t => MOk t | None => MErr end.
Proof. exact (matmul_model_correct zero add mul a b). Qed.
Print Assumptions C04_matmul_is_numpy.

(* the known finding, exactly: outside the plain matrix.matrix case, when the A-matrix or the
   B-matrix has a single element the code answers with an error (never with a different result) *)
Theorem C04_matmul_degenerate_refused {A} (zero : A) add mul (a b : tensor A) :
  wf a -> wf b -> positive (tshape a) -> positive (tshape b) -> (1 <= rank a)%nat -> (1 <= rank b)%nat ->
  matmul_degenerate a b = true -> matmul_model zero add mul a b = MErr.
Proof. exact (matmul_model_degenerate_always zero add mul a b). Qed.

(* never a panic; the odometer loop always terminates having visited every batch index exactly
   once, in row-major order *)
Theorem C04_matmul_never_panics {A} (zero : A) add mul (a b : tensor A) :
  wf a -> wf b -> positive (tshape a) -> positive (tshape b) -> (1 <= rank a)%nat -> (1 <= rank b)%nat ->
  matmul_model zero add mul a b <> MPanic.
Proof. exact (matmul_model_total zero add mul a b). Qed.

Theorem C04_odometer_enumerates s :
  Forall (fun d => (1 <= d)%nat) s -> odometer s = Some (map (unflat s) (seq 0 (numel s))).
Proof. exact (odometer_enumerates s). Qed.
Print Assumptions C04_odometer_enumerates.

(* Gemm = alpha * op(A) * op(B) + beta * C for every transA/transB/alpha/beta, every attribute list,
   every C unidirectionally broadcastable to the result (or absent); anything else is an error *)
Theorem C04_gemm_refines attrs a b c :
  positive (sh a) -> positive (sh b) ->
  match c with Some ct => wf (tz ct) /\ positive (sh ct) | None => True end ->
  refines (gemm_s attrs a b c) (mmap (fun v => [Some v]) (gemm_m attrs a b c)).
Proof. exact (gemm_refines attrs a b c). Qed.
Print Assumptions C04_gemm_refines.

(* LinearRegressor and Scaler compute their ONNX-ML affine formulas (the side conditions exclude
   attribute lists that are not valid nodes -- extra/duplicate attributes, an empty intercepts
   list -- and a rank-0 input of Scaler; see the Examples in Proofs/GemmProofs.v) *)
Theorem C04_linreg_refines attrs x :
  positive (sh x) -> linreg_intercepts_ok attrs = true ->
  refines (linreg_s attrs x) (mmap (fun v => [Some v]) (linreg_m attrs x)).
Proof. exact (linreg_refines attrs x). Qed.

Theorem C04_scaler_refines attrs x :
  wf (tz x) -> positive (sh x) -> scaler_attrs_ok attrs = true -> scaler_rank_ok x = true ->
  refines (scaler_s attrs x) (mmap (fun v => [Some v]) (scaler_m attrs x)).
Proof. exact (scaler_refines attrs x). Qed.
Print Assumptions C04_scaler_refines.

Open Scope Z_scope.
(* the known-finding class is real, and the theorems are not vacuous *)
(* FLOATING POINT. The float stream (Check/CheckC04F.v) judges every output element against an interval
   enclosure of the ONNX formula. These enclosures are sound: ANY execution of the formula in which each
   arithmetic result is within one unit roundoff (plus the absolute allowance) of the exact result computed
   from the previous rounded values, and each dot product within the bound of `dot_near` (any summation
   order), lands inside the enclosure -- so such an execution is never flagged, and an output outside the
   enclosure is not such an execution (the numerically different x*scale - offset*scale is flagged where
   it cancels). encl, near, dot_near: Proofs/IvalProofs.v, Proofs/FexecProofs.v. *)
Theorem C04_scaler_enclosure_sound w px po ps x o s d y :
  encl px x -> encl po o -> encl ps s -> near w 1 (x - o)%R d -> near w 1 (d * s)%R y ->
  encl (f_mul w (f_sub w px po) ps) y.
Proof. exact (fexec_scaler_elem w px po ps x o s d y). Qed.
Theorem C04_scaler_tensor_enclosed w pX X po os ps ss Y :
  Forall2 (Forall2 encl) pX X -> Forall2 encl po os -> Forall2 encl ps ss ->
  Forall2 (fun xs ys => exists ds, scaler_exec_row w xs os ss ds ys) X Y ->
  Forall2 (Forall2 encl) (map (fun xr => scaler_row w xr po ps) pX) Y.
Proof. exact (fexec_scaler_tensor w pX X po os ps ss Y). Qed.
Theorem C04_linreg_enclosure_sound w pxs pcs pi xs cs i d y :
  Forall2 encl pxs xs -> Forall2 encl pcs cs -> encl pi i -> dot_near w xs cs d -> near w 1 (d + i)%R y ->
  encl (f_add w (f_dot w pxs pcs) pi) y.
Proof. exact (fexec_linreg_elem w pxs pcs pi xs cs i d y). Qed.
Theorem C04_matmul_enclosure_sound w pas pbs as_ bs y :
  Forall2 encl pas as_ -> Forall2 encl pbs bs -> dot_near w as_ bs y -> encl (f_dot w pas pbs) y.
Proof. exact (fexec_matmul_elem w pas pbs as_ bs y). Qed.
Theorem C04_gemm_enclosure_sound w pas pbs pal pbe pc as_ bs al be c d p t y :
  Forall2 encl pas as_ -> Forall2 encl pbs bs -> dot_near w as_ bs d ->
  encl pal al -> near w 1 (al * d)%R p -> encl pbe be -> encl pc c -> near w 1 (be * c)%R t -> near w 1 (p + t)%R y ->
  encl (f_add w (f_mul w pal (f_dot w pas pbs)) (f_mul w pbe pc)) y.
Proof. exact (fexec_gemm_c_elem w pas pbs pal pbe pc as_ bs al be c d p t y). Qed.
Print Assumptions C04_gemm_enclosure_sound.

Example C04_degenerate_refuted :
  let a := mkT [3;1]%nat [1;2;3] in let b := mkT [1]%nat [5] in
  matmul_degenerate a b = true /\ matmul_model 0 Z.add Z.mul a b = MErr /\
  matmul_spec 0 Z.add Z.mul a b = Some (mkT [3]%nat [5;10;15]).
Proof. vm_compute. repeat split. Qed.

Example C04_nonvacuous :
  let a := mkT [2;1;2;3]%nat [1;2;3;4;5;6;7;8;9;10;11;12] in
  let b := mkT [3;3;2]%nat [1;0;0;1;1;1; 2;0;0;2;2;2; 3;0;0;3;3;3] in
  wf a /\ wf b /\ matmul_degenerate a b = false /\
  matmul_model 0 Z.add Z.mul a b =
    MOk (mkT [2;3;2;2]%nat [4;5;10;11;8;10;20;22;12;15;30;33;16;17;22;23;32;34;44;46;48;51;66;69]).
Proof. vm_compute. repeat split. Qed.
