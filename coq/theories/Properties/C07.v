(* C07 — Reshape, Flatten, Squeeze, Unsqueeze, Shape keep element order, give the ONNX shape.
   Statements only; proofs in Proofs/ShapeOpsProofs.v. M = Model/ShapeOps.v (follows the Go
   code of reshape.go, flatten.go, squeeze.go, unsqueeze.go, shape.go as repaired), S = the
   ONNX text as written in Check/CheckC07.v (reshape_spec ... shape_spec). *)
From Coq Require Import List ZArith Bool String.
From V Require Import DType Tensor Case OpCheck ShapeOps CheckC07 ShapeOpsProofs C07Payload C07Numel C07Numel2 C07Numel3 C07WellFormed C07FlattenAxis C07ReshapeRefusals C07SqueezeRefusals C07UnsqueezeRefusals.
Import ListNotations.
Open Scope Z_scope.

(* For every input of any rank and dtype with positive extents and EVERY request, the model's
   outcome is the one ONNX prescribes: the tensor with the input's payload, unchanged and in the
   same order, and the ONNX shape -- or an error for an invalid request; never anything else.
   The one exception is the known-finding class (Shape of a rank-0 tensor). *)
Theorem C07_model_refines_spec (c : opcase) :
  (forall t, In (Some t) (oc_ins c) -> positive_shape (sh t)) ->
  known_class c = None ->
  refines (spec c) (model c).
Proof. exact (c07_model_refines_spec c). Qed.
Print Assumptions C07_model_refines_spec.

(* S itself never changes the payload or the element type: whatever S demands as a value has
   the input's elements in the input's order (Shape aside, whose value is the dimension list) *)
Theorem C07_spec_keeps_payload t shp v :
  reshape_spec t shp = SMust [Some v] -> pl v = pl t /\ dt v = dt t.
Proof.
  unfold reshape_spec, SMust1, with_shape. intros H.
  repeat match type of H with
         | context [match ?x with _ => _ end] => destruct x; try discriminate
         end; inversion H; subst; cbn; auto.
Qed.

(* ... and the same for the other three operators: every axis, every axes tensor, any rank *)
Theorem C07_flatten_keeps_payload axis t v :
  flatten_spec axis t = SMust [Some v] -> pl v = pl t /\ dt v = dt t.
Proof. exact (flatten_keeps axis t v). Qed.
Theorem C07_squeeze_keeps_payload t axes v :
  squeeze_spec t axes = SMust [Some v] -> pl v = pl t /\ dt v = dt t.
Proof. exact (squeeze_keeps t axes v). Qed.
Theorem C07_unsqueeze_keeps_payload t axes v :
  unsqueeze_spec t axes = SMust [Some v] -> pl v = pl t /\ dt v = dt t.
Proof. exact (unsqueeze_keeps t axes v). Qed.
Print Assumptions C07_unsqueeze_keeps_payload.

(* ... and the shape S demands holds exactly as many elements as the input has, so the input's
   payload under it is a well-formed tensor: Flatten at every accepted axis, Squeeze without
   axes, Reshape when no extent is inferred (C07_reshape_count_partial: the inferred -1 case is
   covered by C07_model_refines_spec through the model only, not stated on S alone) *)
Theorem C07_flatten_keeps_count axis t v :
  flatten_spec axis t = SMust [Some v] -> total v = total t.
Proof. exact (flatten_keeps_count axis t v). Qed.
Theorem C07_squeeze_all_keeps_count t v :
  squeeze_spec t None = SMust [Some v] -> total v = total t.
Proof. exact (squeeze_all_keeps_count t v). Qed.
Theorem C07_reshape_count_partial t shp v :
  ~ In (-1) (pl shp) -> reshape_spec t shp = SMust [Some v] -> total v = total t.
Proof. exact (reshape_plain_keeps_count t shp v). Qed.
(* the full Reshape statement: every request S accepts, inferred extent (-1) and copied (0) included *)
Theorem C07_reshape_keeps_count t shp v :
  reshape_spec t shp = SMust [Some v] -> total v = total t.
Proof. exact (reshape_inferred_keeps_count t shp v). Qed.
Print Assumptions C07_reshape_keeps_count.
(* Unsqueeze for every axes tensor S accepts; Squeeze with explicit axes, also where S leaves
   the choice open (duplicate axes: SEither) *)
Theorem C07_unsqueeze_keeps_count t axes v :
  unsqueeze_spec t axes = SMust [Some v] -> total v = total t.
Proof. exact (unsqueeze_keeps_count t axes v). Qed.
Theorem C07_squeeze_axes_keeps_count t a v :
  squeeze_spec t (Some a) = SMust [Some v] \/ squeeze_spec t (Some a) = SEither [Some v] -> total v = total t.
Proof. exact (squeeze_axes_keeps_count t a v). Qed.
Print Assumptions C07_squeeze_axes_keeps_count.
(* together: for a well-formed input (payload length = element count of its shape) every value
   S demands -- or allows, for Squeeze with duplicate axes -- is a well-formed tensor *)
Theorem C07_spec_values_well_formed t :
  wf_tval t = true ->
  (forall shp v, reshape_spec t shp = SMust [Some v] -> wf_tval v = true) /\
  (forall axis v, flatten_spec axis t = SMust [Some v] -> wf_tval v = true) /\
  (forall axes v, squeeze_spec t axes = SMust [Some v] \/ squeeze_spec t axes = SEither [Some v] -> wf_tval v = true) /\
  (forall axes v, unsqueeze_spec t axes = SMust [Some v] -> wf_tval v = true).
Proof.
  intros Hw. repeat split; intros.
  - eapply reshape_wf; eassumption.
  - eapply flatten_wf; eassumption.
  - eapply squeeze_wf; eassumption.
  - eapply unsqueeze_wf; eassumption.
Qed.
Print Assumptions C07_spec_values_well_formed.

(* "Flatten accepts every axis in [-rank, rank]": S prescribes a value exactly for those axes, both
   ends included, demands an error for every other axis, and reads a negative axis as axis + rank *)
Theorem C07_flatten_accepts_exactly axis t :
  let r := Z.of_nat (List.length (sh t)) in
  ((exists v, flatten_spec axis t = SMust [Some v]) <-> - r <= axis <= r) /\
  (~ (- r <= axis <= r) -> flatten_spec axis t = SMustErr).
Proof. exact (flatten_accepts_iff axis t). Qed.
Theorem C07_flatten_negative_axis axis t :
  let r := Z.of_nat (List.length (sh t)) in
  - r <= axis < 0 -> flatten_spec axis t = flatten_spec (axis + r) t.
Proof. exact (flatten_negative_axis axis t). Qed.

(* "a single -1 is inferred": S demands an error for a request with an extent below -1 or with
   more than one -1, whatever the input *)
Theorem C07_reshape_refuses_bad_request t shp n :
  sh shp = [n] ->
  (exists d, In d (pl shp) /\ d < -1) \/ (2 <= List.length (filter (fun d => (d =? -1)%Z) (pl shp)))%nat ->
  reshape_spec t shp = SMustErr.
Proof. exact (reshape_refuses_bad_request t shp n). Qed.

(* S demands an error for a Squeeze axis outside [-rank, rank-1], and for a named axis (negative
   ones counted from the end) whose extent is not 1 *)
Theorem C07_squeeze_refuses t a n :
  let r := Z.of_nat (List.length (sh t)) in
  sh a = [n] ->
  (exists x, In x (pl a) /\ (x < - r \/ r <= x)) \/
  (exists x, In x (pl a) /\ - r <= x < r /\ nth (Z.to_nat (if x <? 0 then x + r else x)) (sh t) 0%nat <> 1%nat) ->
  squeeze_spec t (Some a) = SMustErr.
Proof. exact (squeeze_refuses t a n). Qed.

(* ... and for an Unsqueeze axis outside [-R, R-1], R = input rank + number of axes *)
Theorem C07_unsqueeze_refuses_range t a n :
  let R := Z.of_nat (List.length (sh t) + List.length (pl a)) in
  sh a = [n] -> (exists x, In x (pl a) /\ (x < - R \/ R <= x)) ->
  unsqueeze_spec t a = SMustErr.
Proof. exact (unsqueeze_refuses_range t a n). Qed.

(* the known-finding class is real: the model (and the code) panic on it *)
Example C07_shape_rank0_refuted :
  let t := {| dt := Float32; sh := []; pl := [100] |} in
  known_class {| oc_op := "Shape"; oc_attrs := []; oc_ins := [Some t]; oc_obs := OPanic; oc_after := [] |} = Some 4 /\
  shape_model t = MPanic /\ shape_spec t = SMust [Some {| dt := Int64; sh := [0%nat]; pl := [] |}].
Proof. vm_compute. repeat split. Qed.

(* non-vacuity *)
Example C07_nonvacuous :
  let t := {| dt := Float32; sh := [2;3]%nat; pl := [1;2;3;4;5;6] |} in
  positive_shape (sh t) /\
  reshape_model t {| dt := Int64; sh := [2]%nat; pl := [-1; 2] |} = MOk {| dt := Float32; sh := [3;2]%nat; pl := [1;2;3;4;5;6] |} /\
  reshape_model t {| dt := Int64; sh := [2]%nat; pl := [-1; -1] |} = MErr /\
  squeeze_model t (Some {| dt := Int64; sh := [1]%nat; pl := [0] |}) = MErr /\
  unsqueeze_model t {| dt := Int64; sh := [2]%nat; pl := [-1; 0] |} = MOk {| dt := Float32; sh := [1;2;3;1]%nat; pl := [1;2;3;4;5;6] |}.
Proof. split; [repeat constructor|vm_compute; repeat split]. Qed.
