(* C14 — Broadcast helpers implement ONNX multi- and unidirectional broadcasting.
   Statements only; proofs in Proofs/BroadcastProofs.v and Proofs/BroadcastFull.v.
   The model (Model/Broadcast.v) follows ops/multidir_broadcast.go and ops/unidir_broadcast.go;
   the specification (Spec/BroadcastSpec.v) is ONNX's: align at the last axes, missing axes
   count as 1, extents equal or one of them 1, result = elementwise maximum, stretched axes
   read index 0. *)
From Coq Require Import List Arith Bool.
From V Require Import Tensor Case Broadcast BroadcastSpec BroadcastProofs BroadcastFull.
Import ListNotations.

(* For tensors of ANY rank and any positive extents, over ANY element type: the helper
   succeeds exactly when the shapes are broadcast-compatible, and then returns exactly the two
   tensors of the broadcast shape whose element at every index is the source element at the
   projected index; otherwise it returns an error. *)
Theorem C14_multidir (A : Type) (d : A) (a b : tensor A) :
  wf a -> wf b -> positive (tshape a) -> positive (tshape b) ->
  multidir_broadcast d a b = match multidir_spec d a b with Some p => MOk p | None => MErr end.
Proof. exact (multidir_broadcast_correct d a b). Qed.
Print Assumptions C14_multidir.

(* Unidirectional: additionally the broadcast shape must be the first operand's, and the
   first operand is returned as it is. *)
Theorem C14_unidir (A : Type) (d : A) (a b : tensor A) :
  wf a -> wf b -> positive (tshape a) -> positive (tshape b) ->
  unidir_broadcast d a b = match unidir_spec d a b with Some p => MOk p | None => MErr end.
Proof. exact (unidir_broadcast_correct d a b). Qed.
Print Assumptions C14_unidir.

(* Reading the specification back in the property's words. *)
Theorem C14_spec_shape_and_elements (A : Type) (d : A) (a b a' b' : tensor A) s :
  bshape (tshape a) (tshape b) = Some s ->
  multidir_spec d a b = Some (a', b') ->
  tshape a' = s /\ tshape b' = s /\
  (forall i, valid s i -> get d a' i = get d a (bproj (tshape a) i)) /\
  (forall i, valid s i -> get d b' i = get d b (bproj (tshape b) i)).
Proof.
  unfold multidir_spec. intros -> H. inversion H; subst; clear H. unfold bcast_to.
  split; [reflexivity|]. split; [reflexivity|].
  split; intros i V; now rewrite get_tabulate.
Qed.

(* "the source tensors are never modified": the model is a pure function of immutable values;
   that the Go code does not write through its arguments is what the correspondence check
   observes (inputs re-read after every call). *)

(* non-vacuity: both-sides stretching computes *)
Example C14_nonvacuous :
  let a := mkT [2;1;3] [10;11;12;20;21;22] in
  let b := mkT [2;1] [100;200] in
  wf a /\ wf b /\
  multidir_broadcast 0 a b =
    MOk (mkT [2;2;3] [10;11;12;10;11;12;20;21;22;20;21;22],
         mkT [2;2;3] [100;100;100;200;200;200;100;100;100;200;200;200]) /\
  unidir_broadcast 0 a b = MErr /\
  unidir_broadcast 0 a (mkT [3] [7;8;9]) = MOk (a, mkT [2;1;3] [7;8;9;7;8;9]).
Proof. vm_compute. repeat split. Qed.
