(* C09 — ArgMax, ReduceMax/Min, Softmax, LogSoftmax act on exactly the requested axes.
   Statements only; proofs in Proofs/SoftmaxProofs.v, Proofs/ReduceProofs.v. S = Spec/SoftmaxSpec.v
   (the real-number softmax) and the scans of Check/CheckC09.v (argmax_spec, reduce_spec: `best` over the
   slices of the requested axes). M = the gorgonia-faithful models in Check/CheckC09.v (argmax_go,
   reduce_axis_go); their deviations from S are the three known-finding classes. *)
From Coq Require Import Reals List ZArith Bool String.
From V Require Import SoftmaxSpec SoftmaxProofs CheckC09 ReduceProofs ReduceRefines Ival IvalProofs FexecProofs.
Import ListNotations.

(* Softmax over the reals, for every non-empty slice of any length and any values: every entry is
   positive and at most 1, the entries sum to 1, LogSoftmax is its logarithm, and the stable form every
   implementation computes (shift by any m, in particular the maximum) is the same function *)
Theorem C09_softmax_positive l : l <> [] -> Forall (fun p => (0 < p)%R) (softmax l).
Proof. exact (softmax_nonneg l). Qed.
Theorem C09_softmax_sums_to_one l : l <> [] -> sum_list (softmax l) = 1%R.
Proof. exact (softmax_sum_one l). Qed.
Print Assumptions C09_softmax_sums_to_one.
Theorem C09_logsoftmax_is_log l : l <> [] -> logsoftmax l = map ln (softmax l).
Proof. exact (logsoftmax_is_ln_softmax l). Qed.
Theorem C09_shift_invariant m l : l <> [] -> softmax_shift m l = softmax l.
Proof. exact (softmax_shift_eq m l). Qed.
Theorem C09_logsoftmax_shift_invariant m l : l <> [] -> logsoftmax_shift m l = logsoftmax l.
Proof. exact (logsoftmax_shift_eq m l). Qed.
(* why finite inputs of any magnitude give finite results: with m the maximum no exponent is positive
   and the denominator is at least 1 *)
Theorem C09_stable_exponents m l : (forall x, In x l -> (x <= m)%R) -> Forall (fun x => (x - m <= 0)%R) l.
Proof. exact (stable_exponents m l). Qed.
Theorem C09_stable_denominator m l : In m l -> (forall x, In x l -> (x <= m)%R) -> (1 <= sum_list (map (fun y => exp (y - m)) l))%R.
Proof. exact (stable_denominator m l). Qed.
(* along the requested axis only: slice k of the result depends on slice k of the input alone *)
Theorem C09_slices_independent ls k : (k < List.length ls)%nat -> nth k (softmax_slices ls) [] = softmax (nth k ls []).
Proof. exact (softmax_slices_nth ls k). Qed.

(* ArgMax / ReduceMax / ReduceMin in S: the scan returns the FIRST element carrying the maximum
   (resp. minimum); a NaN, when present, wins at its first occurrence (ArgMax) *)
Theorem C09_first_maximum l : l <> [] -> no_nan l ->
  exists i k l1 l2, l = l1 ++ (i, Some k) :: l2 /\ (forall j kj, In (j, Some kj) l1 -> (kj < k)%Z) /\
                    (forall j kj, In (j, Some kj) l2 -> (kj <= k)%Z) /\ best Z.gtb true l None = Some (i, Some k).
Proof. exact (best_first_max l). Qed.
Print Assumptions C09_first_maximum.
Theorem C09_first_nan better l1 i l2 : no_nan l1 -> best better true (l1 ++ (i, None) :: l2) None = Some (i, None).
Proof. exact (best_first_nan better l1 i l2). Qed.
(* negative axes: a and a - rank name the same axis; out-of-range axes are refused *)
Theorem C09_negative_axis r a : (0 <= a < Z.of_nat r)%Z -> norm_axis r (a - Z.of_nat r) = norm_axis r a.
Proof. exact (norm_axis_negative r a). Qed.
Theorem C09_axis_out_of_range r a : norm_axis r a = None <-> (a < - Z.of_nat r \/ Z.of_nat r <= a)%Z.
Proof. exact (norm_axis_none r a). Qed.
(* keepdims: the rank is kept iff keepdims is set *)
Theorem C09_keepdims_rank s A : List.length (out_shape s A true) = List.length s.
Proof. exact (out_shape_keepdims s A). Qed.
Theorem C09_dropdims_rank s A : NoDup A -> (forall a, In a A -> (a < List.length s)%nat) -> List.length (out_shape s A false) = (List.length s - List.length A)%nat.
Proof. exact (out_shape_length_drop s A). Qed.

(* M REFINES S outside the known classes: ArgMax on data without NaN / +Inf (every rank, axis, keepdims),
   ReduceMax / ReduceMin of rank <= 3 over every set of axes in every spelling and order (well-formed
   NaN-free payload without both signed zeros, no repeated axis): the gorgonia-faithful model returns
   exactly the tensor S names, or an error exactly where S demands one *)
Theorem C09_model_refines_spec c :
  (is_op (Case.oc_op c) "ArgMax" || is_op (Case.oc_op c) "ReduceMax" || is_op (Case.oc_op c) "ReduceMin")%bool = true ->
  known_class c = None -> reduce_side_b c = true -> ShapeOpsProofs.refines (spec c) (model c).
Proof. exact (c09_refines_b c). Qed.
Print Assumptions C09_model_refines_spec.

(* S of the softmax family is sound for floating point: ANY execution of exp(x-m)/sum exp(x-m) in which
   every primitive result is within its allowance of the exact value computed from the previous rounded
   values yields outputs inside the enclosures the check judges against (likewise (x-m) - ln sum) *)
Theorem C09_softmax_enclosures_sound w px pm xs m :
  Forall2 encl px xs -> encl pm m ->
  forall zs es s inv outs, soft_prefix w px pm xs m zs es s -> near w 1 (1 / s)%R inv ->
  Forall2 (fun e o => near w 1 (e * inv)%R o) es outs -> Forall2 encl (soft_slice w false px pm) outs.
Proof. exact (fexec_softmax w px pm xs m). Qed.
Theorem C09_logsoftmax_enclosures_sound w px pm xs m :
  Forall2 encl px xs -> encl pm m ->
  forall zs es s l outs, soft_prefix w px pm xs m zs es s -> near w 8 (ln s) l ->
  Forall2 (fun z o => near w 1 (z - l)%R o) zs outs -> Forall2 encl (soft_slice w true px pm) outs.
Proof. exact (fexec_logsoftmax w px pm xs m). Qed.
Print Assumptions C09_softmax_enclosures_sound.

Open Scope string_scope.
Open Scope Z_scope.
(* the known-finding classes are real (gorgonia kernels as modelled): *)
Example C09_argmax_inf_tie_refuted :            (* [+Inf, +Inf, -1.5]: the kernel returns 1, S the first maximum 0 *)
  argmax_go DType.Float32 [2139095040; 2139095040; 3217031168] = 1%nat /\
  best Z.gtb true (map (fun p => (fst p, okey DType.Float32 (snd p))) (combine (seq 0 3) [2139095040; 2139095040; 3217031168])) None = Some (0%nat, Some 2139095040).
Proof. vm_compute. split; reflexivity. Qed.
Example C09_reduce_middle_axis_refuted :        (* shape (1,2,3,2), axis 2: the kernel gives [2;0;1;2], S [2;0;0;2] *)
  let x := {| Case.dt := DType.Int64; Case.sh := [1;2;3;2]%nat; Case.pl := [-2;0;2;-1;1;-2;0;2;-1;1;-2;0] |} in
  reduce_model true [Case.AInts "axes" [2]; Case.AInt "keepdims" 0] x = Case.MOk [Some {| Case.dt := DType.Int64; Case.sh := [1;2;2]%nat; Case.pl := [2;0;1;2] |}] /\
  reduce_spec true [Case.AInts "axes" [2]; Case.AInt "keepdims" 0] x = OpCheck.SMust [Some {| Case.dt := DType.Int64; Case.sh := [1;2;2]%nat; Case.pl := [2;0;0;2] |}].
Proof. vm_compute. split; reflexivity. Qed.
