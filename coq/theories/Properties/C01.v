(* C01 — Run computes the dataflow composition of the graph, returning every output.
   Statements only; proofs in Proofs/RunProofs.v. M = Model/Run.v (follows model.go: Run,
   applyOp, getInputTensorsForNode, setOutputTensorsOfNode, validateShapes, as repaired);
   S = Spec/RunSpec.v (demand-driven value of a name; no environment, no loop).
   Everything is for ANY tensor type, ANY attribute type, ANY operator semantics (each node's
   operator is a function of its own type, attributes and inputs only: a fresh operator per
   node), ANY node list -- no topological-order, SSA or distinct-name hypothesis: a node that
   reads an unbound name makes the run fail, a re-bound name means "latest producer". *)
From Coq Require Import List String Bool Arith ZArith.
From V Require Import Run RunSpec RunProofs.
Import ListNotations.
Open Scope string_scope.

Section C01.
Variable T attrs : Type.
Variable shape_of : T -> list nat.
Variable op_sem : string -> attrs -> list (option T) -> xres (list (option T)).
Variable supported : string -> bool.

(* a successful Run returns exactly the declared outputs, in order, each the non-nil
   demand-driven value of its name with respect to the bindings the property describes *)
Theorem C01_run_returns_dataflow_values (g : graph T attrs) feed out :
  run_model T attrs shape_of op_sem supported g feed = XOk out ->
  validate_shapes T attrs shape_of g feed = true /\
  map fst out = g_outputs g /\
  forall o t, In (o, t) out ->
    value T attrs op_sem (rev (g_nodes g)) (spec_env0 T attrs g feed) o = Some (Some t).
Proof. exact (run_model_ok T attrs shape_of op_sem supported g feed out). Qed.

(* the environment after the node loop holds the demand-driven value under EVERY name *)
Theorem C01_env_is_value (ns : list (node attrs)) e0 e :
  run_nodes T attrs op_sem supported e0 ns = XOk e ->
  forall x, e x = value T attrs op_sem (rev ns) e0 x.
Proof. exact (run_nodes_value T attrs op_sem supported ns e0 e). Qed.

(* the initial bindings: a supplied declared input overrides its initializer (default); an
   initializer that is not a graph input is a constant *)
Theorem C01_initial_bindings (g : graph T attrs) feed n :
  env0 T attrs g feed n = spec_env0 T attrs g feed n.
Proof. exact (env0_spec T attrs g feed n). Qed.

(* Run fails exactly when validation fails, a node fails (its error is the one reported), or a
   declared output is not bound to a tensor: every declared output is present and non-nil, or
   Run reports an error *)
Theorem C01_failures (g : graph T attrs) feed k :
  run_model T attrs shape_of op_sem supported g feed = XErr k ->
  (k = RShape /\ validate_shapes T attrs shape_of g feed = false) \/
  (validate_shapes T attrs shape_of g feed = true /\
   exists pre n post, g_nodes g = (pre ++ n :: post)%list /\
     (exists e, run_nodes T attrs op_sem supported (env0 T attrs g feed) pre = XOk e /\
                step T attrs op_sem supported e n = XErr k)) \/
  (validate_shapes T attrs shape_of g feed = true /\ k = RModel /\
   exists e, run_nodes T attrs op_sem supported (env0 T attrs g feed) (g_nodes g) = XOk e /\
     exists o, In o (g_outputs g) /\ (e o = None \/ e o = Some None)).
Proof. exact (run_model_err T attrs shape_of op_sem supported g feed k). Qed.

Theorem C01_never_panics (g : graph T attrs) feed :
  (forall o a i, op_sem o a i <> XPanic) -> run_model T attrs shape_of op_sem supported g feed <> XPanic.
Proof. exact (run_model_no_panic T attrs shape_of op_sem supported g feed). Qed.

(* results are bound to output names by position, whatever those names are: a consistent
   injective renaming of all names (fixing "") leaves every value unchanged *)
Theorem C01_positional_binding (f : string -> string) (ns : list (node attrs)) e0 e0' x :
  (forall a b, f a = f b -> a = b) -> f "" = "" -> (forall y, e0' (f y) = e0 y) ->
  value T attrs op_sem (map (rename_node attrs f) ns) e0' (f x) = value T attrs op_sem ns e0 x.
Proof. intros Hi H0 He. exact (value_rename_env T attrs op_sem f ns e0 e0' x Hi H0 He). Qed.
End C01.
Print Assumptions C01_run_returns_dataflow_values.
Print Assumptions C01_env_is_value.
Print Assumptions C01_failures.
Print Assumptions C01_positional_binding.

(* Node isolation is built into the model's type: op_sem receives the node's own operator type,
   attributes and inputs and nothing else. That the Go registry really hands out a fresh operator
   per node is C15's registry theorem plus the freshness obligation over the regenerated table;
   the symbolic stream runs graphs with repeated operator types carrying different attributes. *)

(* non-vacuity: a two-node graph with a skipped input and a renamed second output *)
Example C01_nonvacuous :
  let sem := fun (o : string) (a : nat) (ins : list (option nat)) =>
               XOk [Some (a + fold_left (fun s t => s + match t with Some v => v | None => 0 end) ins 0); Some a] in
  let g := {| g_inputs := [("x", Some [DFixed 1%Z])]; g_params := [("w", 10)]; g_outputs := ["z"; "y2"];
              g_nodes := [{| n_op := "A"; n_attrs := 1; n_in := ["x"; ""; "w"]; n_out := ["y1"; "y2"] |};
                          {| n_op := "A"; n_attrs := 5; n_in := ["y1"; "y2"]; n_out := ["z"; ""] |}] |} in
  run_model nat nat (fun _ => [1]) sem (fun _ => true) g [("x", 100)] = XOk [("z", 117); ("y2", 1)].
Proof. vm_compute. reflexivity. Qed.
