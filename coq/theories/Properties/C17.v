(* C17 — A loaded Model can be run from many goroutines at once: the LOGICAL half.
   Statements only; proofs in Proofs/HistoryProofs.v. M = Model/History.v: n Runs share one object
   store (weights, caller tensors); each has a private name -> object environment and a private
   list of nodes still to execute; a schedule is any list of Run ids, each entry executing one node
   of that Run. A data race proper is a property of the Go memory model and of gorgonia's global
   pools and is outside any executable Gallina model: that half is explored under the Go race
   detector by the harness (see DESIGN.md, C17). *)
From Coq Require Import List String Bool Arith.
From V Require Import Run History HistoryProofs.
Import ListNotations.
Open Scope string_scope.

(* For ANY number of Runs, ANY schedule (any interleaving of their node steps, complete or not) and
   any operators: if no operator writes to its input objects, then after the schedule every Run is
   in exactly the state its own sequential execution is in after as many steps as the schedule gave
   it -- same environment (pointwise), same remaining nodes, same failure -- whatever the other
   Runs did in between; and every object that existed before (the weights) is unchanged. *)
Theorem C17_interleaving_independent (T attrs : Type)
    (op_sem : string -> attrs -> list (option T) -> xres (list (option T)))
    (op_eff : string -> attrs -> list (option T) -> list (option T)) (supported : string -> bool)
    (sched : list nat) (h : heap T) (ts : list (thread attrs)) h' ts' :
  pure_ops T attrs op_eff -> wf_heap T h -> Forall (fun t => live_env T h (t_env attrs t)) ts ->
  run_schedule T attrs op_sem op_eff supported h ts sched = (h', ts') ->
  extends T h h' /\ List.length ts' = List.length ts /\
  forall i t t', nth_error ts i = Some t -> nth_error ts' i = Some t' ->
    pthread_eq T attrs (abs_thread T attrs h' t')
      (Nat.iter (count_occ Nat.eq_dec sched i) (pstep T attrs op_sem supported) (abs_thread T attrs h t)).
Proof. exact (interleaving_independent T attrs op_sem op_eff supported sched h ts h' ts'). Qed.
Print Assumptions C17_interleaving_independent.

(* The premise is necessary: with an operator that writes to its input object (a shared weight),
   what a Run computes depends on the schedule. *)
Section Witness.
Let T := nat.
Let sem : string -> unit -> list (option T) -> xres (list (option T)) :=
  fun _ _ ins => match ins with [Some x] => XOk [Some (x + 1)] | _ => XErr ROpErr end.
Let eff_pure : string -> unit -> list (option T) -> list (option T) := fun _ _ ins => ins.
Let eff_bump : string -> unit -> list (option T) -> list (option T) := fun _ _ ins => map (option_map S) ins.
Let nd : node unit := {| n_op := "inc"; n_attrs := tt; n_in := ["w"]; n_out := ["y"] |}.
Let h0 : heap T := {| h_obj := fun i => if Nat.eqb i 0 then Some 5 else None; h_next := 1 |}.
Let th : thread unit := {| t_env := fun n => if String.eqb n "w" then Some (Some 0) else None; t_todo := [nd]; t_failed := None |}.
Let y_of (r : heap T * list (thread unit)) (i : nat) : option (option T) :=
  match nth_error (snd r) i with Some t => option_map (deref T (fst r)) (t_env unit t "y") | None => None end.

Example C17_nonvacuous :
  let r := run_schedule T unit sem eff_pure (fun _ => true) h0 [th; th] [1; 0] in
  y_of r 0 = Some (Some 6) /\ y_of r 1 = Some (Some 6).
Proof. vm_compute. split; reflexivity. Qed.

Example C17_shared_write_refuted :
  let r := run_schedule T unit sem eff_bump (fun _ => true) h0 [th; th] [1; 0] in
  y_of r 0 = Some (Some 7) /\ y_of r 1 = Some (Some 6).
Proof. vm_compute. split; reflexivity. Qed.
End Witness.
