(* C02, effect stream: the model's effect of every operator on its input objects is the
   identity (Model/History.v: pure_ops); the harness snapshots every input before and after one
   application. *)
From Coq Require Import List ZArith Bool String.
From V Require Import DType Case OpCheck.
Import ListNotations.
Open Scope Z_scope.

(* the observed post-state of the inputs must be their pre-state: shape, element type, contents *)
Definition intact (c : opcase) : bool := outs_eqb (oc_ins c) (oc_after c).

Definition verdict (c : opcase) : Z :=
  match oc_obs c with
  | OPanic => 2
  | _ => if intact c then 0 else 2
  end.
Definition kind (c : opcase) : Z := match oc_obs c with OOk _ => 1 | OErr _ => 2 | OPanic => 3 end.
