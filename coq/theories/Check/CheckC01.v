(* C01 (and the shared vocabulary of C13/C18's run streams): Run's plumbing against the run
   model instantiated with SYMBOLIC operators whose outputs are hashes of (operator id, attribute,
   input values, output index): any misrouting of a tensor changes a hash. *)
From Coq Require Import List ZArith Bool String.
From V Require Import Case Run RunSpec.
Import ListNotations.
Open Scope Z_scope.

(* symbolic tensors: a shape (for validateShapes) and a value *)
Record stensor := { s_shape : list nat; s_val : Z }.

Definition HP : Z := 1000003.
Definition HM : Z := 2305843009213693951.            (* 2^61 - 1 *)
Definition mix (h x : Z) : Z := (h * HP + x) mod HM.
Definition absent : Z := 7.

(* attributes of a symbolic node *)
Record sattrs := { sa_attr : Z;                      (* a per-node attribute, part of the hash *)
                   sa_nout : nat;                    (* how many tensors Apply returns *)
                   sa_fail : bool }.                 (* Apply returns an error *)

(* operator types are "Sym<id>"; the harness' getter registers ids < 1000 *)
Definition op_id (s : string) : Z :=
  (* decimal value of the digits after the 3-letter prefix *)
  let fix digits (s : string) (acc : Z) : Z :=
    match s with
    | EmptyString => acc
    | String c r => digits r (acc * 10 + (Z.of_nat (Ascii.nat_of_ascii c) - 48))
    end in
  match s with String _ (String _ (String _ r)) => digits r 0 | _ => 1000000 end.
Definition sym_supported (s : string) : bool := op_id s <? 1000.

Definition sym_sem (op : string) (a : sattrs) (ins : list (option stensor)) : xres (list (option stensor)) :=
  if sa_fail a then XErr ROpErr
  else
    let h := fold_left mix (map (fun t => match t with Some t => s_val t | None => absent end) ins)
                       (mix (mix 17 (op_id op)) (sa_attr a)) in
    XOk (map (fun k => Some {| s_shape := [1%nat]; s_val := mix h (Z.of_nat k) |}) (seq 0 (sa_nout a))).

Definition sgraph := graph stensor sattrs.
Definition snode := node sattrs.

(* what the harness observed *)
Inductive robs := RPanicked | RError (k : ekind) | ROutputs (l : list (string * option stensor)).
Record scase := { sc_graph : sgraph; sc_feed : list (string * stensor); sc_obs : robs }.

Definition run (g : sgraph) (feed : list (string * stensor)) :=
  run_model stensor sattrs s_shape sym_sem sym_supported g feed.

(* ---- S ---- *)
Definition spec_env0 := RunSpec.spec_env0 stensor sattrs.

Definition stensor_eqb (a b : stensor) : bool := list_eqb Nat.eqb (s_shape a) (s_shape b) && (s_val a =? s_val b).

(* S accepts an observed outcome iff:
   - the run as a whole must fail (validation fails, or some node fails / reads an unbound name /
     has an unregistered type / returns a wrong number of results, or a declared output is not
     bound to a tensor) and an error was reported; an unregistered operator type as the first
     failure must be reported as the unsupported-operator error;
   - otherwise exactly the declared outputs were returned, each equal to its demand-driven value *)
Definition first_failure (g : sgraph) (feed : list (string * stensor)) : option rerr :=
  match run g feed with XErr k => Some k | _ => None end.

Definition spec_outputs (g : sgraph) (feed : list (string * stensor)) : option (list (string * option stensor)) :=
  let e0 := spec_env0 g feed in
  let outs := map (fun o => (o, value stensor sattrs sym_sem (rev (g_nodes g)) e0 o)) (g_outputs g) in
  if forallb (fun p => match snd p with Some (Some _) => true | _ => false end) outs
  then Some (map (fun p => (fst p, match snd p with Some t => t | None => None end)) outs) else None.

Definition outs_eqb (a b : list (string * option stensor)) : bool :=
  list_eqb (fun p q => String.eqb (fst p) (fst q) &&
                       match snd p, snd q with
                       | Some u, Some v => stensor_eqb u v | None, None => true | _, _ => false end) a b.

(* does every node succeed when the nodes are evaluated in order from S's own bindings *)
Definition nodes_succeed (g : sgraph) (feed : list (string * stensor)) : bool :=
  match run_nodes stensor sattrs sym_sem sym_supported (spec_env0 g feed) (g_nodes g) with XOk _ => true | _ => false end.
Definition first_node_error (g : sgraph) (feed : list (string * stensor)) : option rerr :=
  match run_nodes stensor sattrs sym_sem sym_supported (spec_env0 g feed) (g_nodes g) with XErr k => Some k | _ => None end.

Definition holds (c : scase) : bool :=
  let g := sc_graph c in let feed := sc_feed c in
  match sc_obs c with
  | RPanicked => false
  | RError k =>
      if negb (validate_shapes stensor sattrs s_shape g feed) then true
      else if negb (nodes_succeed g feed) then
        match first_node_error g feed with
        | Some RUnsupportedOp => match k with EUnsupportedOp => true | _ => false end
        | _ => true
        end
      else match spec_outputs g feed with None => true | Some _ => false end
  | ROutputs l =>
      validate_shapes stensor sattrs s_shape g feed && nodes_succeed g feed &&
      match spec_outputs g feed with Some s => outs_eqb s l | None => false end
  end.

Definition agree (c : scase) : bool :=
  match run (sc_graph c) (sc_feed c), sc_obs c with
  | XOk l, ROutputs l' => outs_eqb (map (fun p => (fst p, Some (snd p))) l) l'
  | XErr RUnsupportedOp, RError EUnsupportedOp => true
  | XErr RUnsupportedOp, RError _ => false
  | XErr _, RError _ => true
  | XPanic, RPanicked => true
  | _, _ => false
  end.

Definition verdict (c : scase) : Z :=
  if holds c then (if agree c then 0 else 3) else 2.

(* which branch of S: 1 outputs required, 2 validation error, 3 node failure, 4 missing output *)
Definition kind (c : scase) : Z :=
  let g := sc_graph c in let feed := sc_feed c in
  if negb (validate_shapes stensor sattrs s_shape g feed) then 2
  else if negb (nodes_succeed g feed) then 3
  else match spec_outputs g feed with Some _ => 1 | None => 4 end.
