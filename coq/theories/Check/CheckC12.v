(* C12: weights decode to their declared shape, type and exact values, or are refused.
   S is written from the ONNX TensorProto documentation, not from the decoder. *)
From Coq Require Import List ZArith Bool String.
From V Require Import DType Case OpCheck Scalar Decode.
Import ListNotations.
Open Scope Z_scope.

Record pcase := { pc_tp : tproto; pc_obs : observed }.

(* element type, byte width, signedness, and which typed field carries it (ONNX onnx.proto) *)
Inductive carrier := CFloat | CInt32 | CInt64 | CDouble | CUint64.
Definition type_info (t : Z) : option (dtype * nat * bool * carrier) :=
  if t =? 1 then Some (Float32, 4%nat, false, CFloat) else
  if t =? 2 then Some (Uint8, 1%nat, false, CInt32) else
  if t =? 3 then Some (Int8, 1%nat, true, CInt32) else
  if t =? 4 then Some (Uint16, 2%nat, false, CInt32) else
  if t =? 5 then Some (Int16, 2%nat, true, CInt32) else
  if t =? 6 then Some (Int32, 4%nat, true, CInt32) else
  if t =? 7 then Some (Int64, 8%nat, true, CInt64) else
  if t =? 9 then Some (DBool, 1%nat, false, CInt32) else
  if t =? 11 then Some (Float64, 8%nat, false, CDouble) else
  if t =? 12 then Some (Uint32, 4%nat, false, CUint64) else
  if t =? 13 then Some (Uint64, 8%nat, false, CUint64) else None.

Definition carrier_field (c : carrier) (tp : tproto) : list Z :=
  match c with CFloat => tp_float tp | CInt32 => tp_int32 tp | CInt64 => tp_int64 tp
             | CDouble => tp_double tp | CUint64 => tp_uint64 tp end.

(* split raw bytes into little-endian elements of w bytes; None if the length is not a multiple *)
Fixpoint chunks (fuel w : nat) (bs : list Z) : option (list (list Z)) :=
  match fuel with
  | O => match bs with [] => Some [] | _ => None end
  | S f => match bs with
           | [] => Some []
           | _ => if (List.length bs <? w)%nat then None
                  else option_map (cons (firstn w bs)) (chunks f w (skipn w bs))
           end
  end.
Fixpoint le_val (bs : list Z) : Z := match bs with [] => 0 | b :: r => b + 256 * le_val r end.

(* the declared payload: the typed field of this element type if populated, else the raw bytes *)
Definition declared_values (tp : tproto) (d : dtype) (w : nat) (sg : bool) (c : carrier) : option (list Z) :=
  let typed := carrier_field c tp in
  match typed with
  | _ :: _ => Some (match d with DBool => map (fun v => if v =? 0 then 0 else 1) typed | _ => typed end)
  | [] =>
      match chunks (List.length (tp_raw tp)) w (tp_raw tp) with
      | None => None
      | Some cs =>
          let us := map le_val cs in
          Some (match d with
                | DBool => map (fun v => if v =? 0 then 0 else 1) us
                | _ => if sg then map (fun u => if 2 ^ (8 * Z.of_nat w - 1) <=? u then u - 2 ^ (8 * Z.of_nat w) else u) us else us
                end)
      end
  end.

(* is the typed payload inside the range of the declared type (otherwise the proto is malformed
   and the property says nothing) *)
Definition in_range (d : dtype) (v : Z) : bool :=
  match d with
  | Uint8 => (0 <=? v) && (v <? 256) | Int8 => (-128 <=? v) && (v <? 128)
  | Uint16 => (0 <=? v) && (v <? 65536) | Int16 => (-32768 <=? v) && (v <? 32768)
  | Uint32 => (0 <=? v) && (v <? 4294967296)
  | DBool => (v =? 0) || (v =? 1)
  | _ => true
  end.

Definition populated (tp : tproto) : nat :=
  List.length (filter (fun b : bool => b)
    [nonempty (tp_raw tp); nonempty (tp_float tp); nonempty (tp_int32 tp); nonempty (tp_int64 tp);
     nonempty (tp_double tp); nonempty (tp_uint64 tp)]).

Definition spec (c : pcase) : spec_out :=
  let tp := pc_tp c in
  match type_info (tp_type tp) with
  | None => SMustErr                                   (* an element type the library cannot represent *)
  | Some (d, w, sg, car) =>
      (* a proto carrying its payload in a field that does not belong to its type, or in two
         places at once, is outside what the property quantifies over *)
      if (1 <? populated tp)%nat || ((populated tp =? 1)%nat && negb (nonempty (tp_raw tp)) && negb (nonempty (carrier_field car tp)))
      then SOutOfDomain
      else if negb (forallb (in_range d) (carrier_field car tp)) then SOutOfDomain
      else
      match declared_values tp d w sg car with
      | None => SMustErr                               (* payload is not a whole number of elements *)
      | Some vals =>
          if existsb (fun x => x <? 1) (tp_dims tp) then SMustErr
          else if Z.of_nat (List.length vals) =? zprod (tp_dims tp)
               then SMust [Some {| dt := d; sh := map Z.to_nat (tp_dims tp); pl := vals |}]
               else SMustErr                           (* element count does not match the declared shape *)
      end
  end.

Definition model (c : pcase) : mres (list (option tval)) :=
  let* v := tensor_from_proto (pc_tp c) in MOk [Some v].

(* K1: data_type UNDEFINED (0) with a populated float/int32/int64/double/uint64 field is loaded as
   that field's type instead of being refused *)
Definition known_class (c : pcase) : option Z :=
  let tp := pc_tp c in
  match type_info (tp_type tp) with
  | None => if negb (tp_type tp =? 0) then None else
            if nonempty (tp_float tp) || nonempty (tp_int32 tp) || nonempty (tp_int64 tp) ||
               nonempty (tp_double tp) || nonempty (tp_uint64 tp) then Some 1 else None
  | Some _ => None
  end.

(* a proto outside the property's quantifier (payload in two places at once, values outside the carrier's
   range) has no prescribed value -- but "never by crashing" holds for it as for any other *)
Definition verdict (c : pcase) : Z :=
  match spec c, pc_obs c with
  | SOutOfDomain, OPanic => 2
  | _, _ => verdict_of (spec c) (model c) (known_class c) (pc_obs c)
  end.
Definition kind (c : pcase) : Z := spec_kind (spec c).
