(* C05: Conv against S (ONNX direct convolution) and M (Model/Conv.v). *)
From Coq Require Import List ZArith Bool String.
From V Require Import DType Tensor Case OpCheck Conv.
Import ListNotations.
Open Scope Z_scope.

Definition ints_or_nil (n : string) (l : list attr) : list Z := match find_ints n l with Some v => v | None => [] end.
Definition cfg_of (c : opcase) : cfg :=
  {| c_auto := match find_str "auto_pad" (oc_attrs c) with
               | Some s => if String.eqb s "SAME_UPPER" then SameUpper else if String.eqb s "SAME_LOWER" then SameLower
                           else if String.eqb s "VALID" then Valid else NotSet
               | None => NotSet end;
     c_dil := ints_or_nil "dilations" (oc_attrs c); c_pads := ints_or_nil "pads" (oc_attrs c); c_str := ints_or_nil "strides" (oc_attrs c) |}.

Definition parts (c : opcase) : option (tval * tval * option tval) :=
  match oc_ins c with
  | [Some x; Some k] => Some (x, k, None)
  | [Some x; Some k; b] => Some (x, k, b)
  | _ => None
  end.

(* Init of conv.go: an attribute it does not know, or group <> 1, refuses the node -- wherever the
   attribute stands in the list *)
Definition known_attr (a : attr) : bool :=
  existsb (String.eqb (attr_name a)) ["auto_pad"; "dilations"; "group"; "kernel_shape"; "pads"; "strides"]%string.
Definition init_refuses (c : opcase) : bool :=
  negb (forallb known_attr (oc_attrs c))
  || existsb (fun a => match a with AInt n g => String.eqb n "group" && negb (g =? 1) | _ => false end) (oc_attrs c).

Definition model (c : opcase) : mres (list (option tval)) :=
  if init_refuses c then MErr else
  match parts c with
  | Some (x, k, b) => let* v := conv_model (cfg_of c) x k b in MOk [Some v]
  | None => MErr
  end.

(* S: the ONNX result, or a refusal ("a configuration the library does not implement is refused
   with an error instead of being computed differently") *)
Definition spec (c : opcase) : spec_out :=
  if init_refuses c then SMustErr (* grouped convolution / unknown attributes: not implemented, so refused *) else
  match parts c with
  | Some (x, k, b) => SEither [Some (conv_spec (cfg_of c) x k b)]
  | None => SOutOfDomain
  end.

(* K3: auto_pad = VALID is computed as SAME_UPPER *)
Definition known_class (c : opcase) : option Z :=
  match c_auto (cfg_of c) with Valid => Some 3 | _ => None end.

Definition verdict (c : opcase) : Z := verdict_of (spec c) (model c) (known_class c) (oc_obs c).
Definition kind (c : opcase) : Z :=
  match oc_obs c with OOk _ => 1 | OErr _ => 2 | OPanic => 3 end.
