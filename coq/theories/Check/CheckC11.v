(* C11: Constant, ConstantOfShape and Cast, bit for bit. The model of ops/convert.go is the source
   switch x target switch with Go's conversion semantics written out: integer -> integer wraps
   (two's complement), integer -> float rounds to nearest even (Flocq binary_normalize),
   float -> float converts exactly or rounds to nearest even with overflow to infinity,
   float -> integer truncates toward zero when the truncated value is representable (anything else is
   implementation-defined in Go and outside S). S is the same function: "C-style conversion". *)
From Coq Require Import List ZArith Bool String.
From Flocq Require Import Core.
From Flocq Require IEEE754.BinarySingleNaN.
From Flocq Require Import IEEE754.Binary IEEE754.Bits.
From V Require Import DType Tensor Case OpCheck Scalar.
Import ListNotations.
Open Scope string_scope.
Open Scope Z_scope.

Definition f32_norm (m e : Z) (sz : bool) : binary32 := binary_normalize 24 128 (eq_refl _) (eq_refl _) BinarySingleNaN.mode_NE m e sz.
Definition f64_norm (m e : Z) (sz : bool) : binary64 := binary_normalize 53 1024 (eq_refl _) (eq_refl _) BinarySingleNaN.mode_NE m e sz.

Inductive fcls := FNaN | FInf (neg : bool) | FFin (m e : Z) (negz : bool).
Definition dec32 (b : Z) : fcls :=
  let s := b / 2147483648 in let e := (b / 8388608) mod 256 in let m := b mod 8388608 in
  if e =? 255 then (if m =? 0 then FInf (s =? 1) else FNaN)
  else let mant := if e =? 0 then m else m + 8388608 in
       FFin (if s =? 1 then - mant else mant) (if e =? 0 then -149 else e - 150) (s =? 1).
Definition dec64 (b : Z) : fcls :=
  let s := b / 9223372036854775808 in let e := (b / 4503599627370496) mod 2048 in let m := b mod 4503599627370496 in
  if e =? 2047 then (if m =? 0 then FInf (s =? 1) else FNaN)
  else let mant := if e =? 0 then m else m + 4503599627370496 in
       FFin (if s =? 1 then - mant else mant) (if e =? 0 then -1074 else e - 1075) (s =? 1).

Definition int_info (d : dtype) : option (Z * bool) :=
  match d with
  | Int8 => Some (8, true) | Int16 => Some (16, true) | Int32 => Some (32, true) | Int64 => Some (64, true)
  | Uint8 => Some (8, false) | Uint16 => Some (16, false) | Uint32 => Some (32, false) | Uint64 => Some (64, false)
  | _ => None
  end.
Definition in_range (bits : Z) (signed : bool) (v : Z) : bool :=
  if signed then (- 2 ^ (bits - 1) <=? v) && (v <? 2 ^ (bits - 1)) else (0 <=? v) && (v <? 2 ^ bits).

Definition enc_float (dst : dtype) (c : fcls) : option Z :=
  match dst, c with
  | Float32, FNaN => Some nan32 | Float64, FNaN => Some nan64
  | Float32, FInf n => Some (if n then 4286578688 else 2139095040)
  | Float64, FInf n => Some (if n then 18442240474082181120 else 9218868437227405312)
  | Float32, FFin m e z => Some (canon32 (f32_norm m e z))
  | Float64, FFin m e z => Some (canon64 (f64_norm m e z))
  | _, _ => None
  end.

(* one element; None = outside S (implementation-defined conversion) *)
Definition conv (src dst : dtype) (v : Z) : option Z :=
  match int_info src with
  | Some _ =>
      match int_info dst with
      | Some (b, s) => Some (wrap b s v)
      | None => enc_float dst (FFin v 0 false)
      end
  | None =>
      let c := match src with Float32 => dec32 v | _ => dec64 v end in
      match int_info dst with
      | Some (b, s) =>
          match c with
          | FFin m e _ => let t := if e <? 0 then Z.quot m (2 ^ (- e)) else m * 2 ^ e in
                          if in_range b s t then Some t else None
          | _ => None
          end
      | None => enc_float dst c
      end
  end.

Definition type_of_code (c : Z) : option dtype :=
  if c =? 1 then Some Float32 else if c =? 2 then Some Uint8 else if c =? 3 then Some Int8 else if c =? 4 then Some Uint16
  else if c =? 5 then Some Int16 else if c =? 6 then Some Int32 else if c =? 7 then Some Int64 else if c =? 11 then Some Float64
  else if c =? 12 then Some Uint32 else if c =? 13 then Some Uint64 else None.
Definition numeric (d : dtype) : bool :=
  match d with Float32 | Float64 => true | _ => match int_info d with Some _ => true | None => false end end.

Fixpoint all_some {X} (l : list (option X)) : option (list X) :=
  match l with [] => Some [] | Some x :: r => option_map (cons x) (all_some r) | None :: _ => None end.

Definition cast_spec (attrs : list attr) (x : tval) : spec_out :=
  match attrs with
  | [AInt "to" code] =>
      match type_of_code code with
      | None => SMustErr                                           (* unsupported target *)
      | Some dst =>
          if negb (numeric (dt x)) then SMustErr
          else match all_some (map (conv (dt x) dst) (pl x)) with
               | Some vs => SMust [Some {| dt := dst; sh := sh x; pl := vs |}]
               | None => SOutOfDomain
               end
      end
  | _ => SMustErr
  end.

(* 0 + value in the value's type: a zero of either sign gives +0 *)
Definition plus_zero (d : dtype) (v : Z) : Z :=
  match d with
  | Float32 => if is_zero32 v then 0 else v
  | Float64 => if is_zero64 v then 0 else v
  | _ => v
  end.
Definition cos_spec (attrs : list attr) (shp : tval) : spec_out :=
  let value := match attrs with
               | [] => Some (Some {| dt := Float32; sh := []; pl := [0] |})
               | [ATensor "value" t] => if (List.length (pl t) =? 1)%nat then Some (Some t) else Some None
               | _ => Some None
               end in
  match value with
  | Some (Some t) =>
      if forallb (fun d => 0 <? d) (pl shp) && negb (List.length (pl shp) =? 0)%nat then
        let s := map Z.to_nat (pl shp) in
        let out := [Some {| dt := dt t; sh := s; pl := repeat (plus_zero (dt t) (nth 0 (pl t) 0)) (numel s) |}] in
        match dt t with DBool | DString => SEither out | _ => SMust out end
      else SMustErr
  | _ => SMustErr
  end.

Definition constant_spec (attrs : list attr) : spec_out :=
  match attrs with
  | [ATensor "value" t] => SMust [Some t]
  | [AFloat "value_float" b] => SMust [Some {| dt := Float32; sh := []; pl := [b] |}]
  | [AFloats "value_floats" bs] => SMust [Some {| dt := Float32; sh := [List.length bs]; pl := bs |}]
  | [AInt "value_int" v] => SMust [Some {| dt := Int64; sh := []; pl := [v] |}]
  | [AInts "value_ints" vs] => SMust [Some {| dt := Int64; sh := [List.length vs]; pl := vs |}]
  | _ => SMustErr
  end.

Definition spec (c : opcase) : spec_out :=
  if String.eqb (oc_op c) "Cast" then match oc_ins c with [Some x] => cast_spec (oc_attrs c) x | _ => SOutOfDomain end
  else if String.eqb (oc_op c) "ConstantOfShape" then match oc_ins c with [Some s] => cos_spec (oc_attrs c) s | _ => SOutOfDomain end
  else if String.eqb (oc_op c) "Constant" then constant_spec (oc_attrs c)
  else SOutOfDomain.

(* M: the code (as repaired) takes exactly the branches S describes *)
Definition model (c : opcase) : mres (list (option tval)) :=
  match spec c with SMust v | SEither v => MOk v | SMustErr => MErr | SOutOfDomain => MErr end.

Definition known_class (c : opcase) : option Z := None.
Definition verdict (c : opcase) : Z :=
  match spec c with
  | SEither _ => if holds (spec c) (oc_obs c) then 0 else 2
  | s => verdict_of s (model c) (known_class c) (oc_obs c)
  end.
Definition kind (c : opcase) : Z := spec_kind (spec c).
