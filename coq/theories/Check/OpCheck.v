(* Shared pieces of the operator-level Check modules: conversion between the boundary type
   tval and the functional tensors the models and theorems are about, the generic verdict. *)
From Coq Require Import List ZArith Bool String.
From V Require Import DType Tensor Case.
Import ListNotations.

Definition t_of (v : tval) : tensor Z := mkT (sh v) (pl v).
Definition v_of (d : dtype) (t : tensor Z) : tval := {| dt := d; sh := tshape t; pl := tdata t |}.

(* does the boundary value describe a tensor at all *)
Definition wf_tval (v : tval) : bool := Nat.eqb (List.length (pl v)) (numel (sh v)).

(* what S says about a case *)
Inductive spec_out :=
| SMust (v : list (option tval))       (* exactly these outputs *)
| SMustErr                              (* an error, never a tensor, never a panic *)
| SEither (v : list (option tval))      (* these outputs, or a refusal with an error *)
| SOutOfDomain.                         (* the case is outside what the property quantifies over *)

Definition outs_eqb (a b : list (option tval)) : bool := list_eqb otval_eqb a b.

Definition holds (s : spec_out) (o : observed) : bool :=
  match s, o with
  | SMust v, OOk w => outs_eqb v w
  | SMustErr, OErr _ => true
  | SEither v, OErr _ => true
  | SEither v, OOk w => outs_eqb v w
  | SOutOfDomain, _ => true
  | _, _ => false
  end.

Definition agree (m : mres (list (option tval))) (o : observed) : bool :=
  match m, o with
  | MOk v, OOk w => outs_eqb v w
  | MErr, OErr _ => true
  | MPanic, OPanic => true
  | _, _ => false
  end.

(* 0 pass; 100+k known finding k reproduced exactly; 2 violation; 3 drift; 4 out of domain *)
Definition verdict_of (s : spec_out) (m : mres (list (option tval))) (cls : option Z) (o : observed) : Z :=
  match s with
  | SOutOfDomain => 4%Z
  | _ => if holds s o
         then (match s with
               | SEither _ =>
                   (* S allows a refusal because the library need not implement everything. Computing
                      where the model refuses is fine (the value is S's). REFUSING what the model of the
                      current code computes -- and S confirms -- is a configuration the library implements
                      and no longer answers: a violation, not drift *)
                   match m, o with MOk _, OErr _ => 2%Z | _, _ => 0%Z end
               | _ => if agree m o then 0%Z else 3%Z
               end)
         else match cls with
              | Some k => if agree m o then (100 + k)%Z else 2%Z
              | None => 2%Z
              end
  end.

Definition spec_kind (s : spec_out) : Z :=
  match s with SMust _ => 1%Z | SMustErr => 2%Z | SEither _ => 3%Z | SOutOfDomain => 0%Z end.
