(* C14: the broadcast helpers against S (Spec/BroadcastSpec.v) and M (Model/Broadcast.v). *)
From Coq Require Import List ZArith Bool String.
From V Require Import DType Tensor Case OpCheck Broadcast BroadcastSpec.
Import ListNotations.
Open Scope string_scope.

Definition pair_out (a b : tval) (p : tensor Z * tensor Z) : list (option tval) :=
  [Some (v_of (dt a) (fst p)); Some (v_of (dt b) (snd p))].

Definition model (c : opcase) : mres (list (option tval)) :=
  match oc_op c, oc_ins c with
  | "MultidirBroadcast", [Some a; Some b] =>
      let* p := multidir_broadcast 0%Z (t_of a) (t_of b) in MOk (pair_out a b p)
  | "UnidirBroadcast", [Some a; Some b] =>
      let* p := unidir_broadcast 0%Z (t_of a) (t_of b) in MOk (pair_out a b p)
  | _, _ => MErr
  end.

Definition spec (c : opcase) : spec_out :=
  match oc_op c, oc_ins c with
  | "MultidirBroadcast", [Some a; Some b] =>
      if negb (wf_tval a && wf_tval b) then SOutOfDomain else
      match multidir_spec 0%Z (t_of a) (t_of b) with Some p => SMust (pair_out a b p) | None => SMustErr end
  | "UnidirBroadcast", [Some a; Some b] =>
      if negb (wf_tval a && wf_tval b) then SOutOfDomain else
      match unidir_spec 0%Z (t_of a) (t_of b) with Some p => SMust (pair_out a b p) | None => SMustErr end
  | _, _ => SOutOfDomain
  end.

(* the sources are never modified: part of S *)
Definition sources_intact (c : opcase) : bool := outs_eqb (oc_ins c) (oc_after c).

Definition verdict (c : opcase) : Z :=
  let v := verdict_of (spec c) (model c) None (oc_obs c) in
  if Z.eqb v 4 then 4%Z else if sources_intact c then v else 2%Z.
Definition kind (c : opcase) : Z := spec_kind (spec c).
