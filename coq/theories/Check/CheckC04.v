(* C04: MatMul, Gemm, LinearRegressor, Scaler against S (numpy.matmul / the ONNX and ONNX-ML
   formulas) and M (Model/MatMul.v and the models below). Integer-valued data: float arithmetic is
   exact, so everything is compared exactly over Z. *)
From Coq Require Import List ZArith Bool String.
From V Require Import DType Tensor Case OpCheck Broadcast BroadcastSpec MatMul MatMulSpec.
Import ListNotations.
Open Scope Z_scope.

Definition tz (t : tval) : tensor Z := mkT (sh t) (pl t).
Definition vz (d : dtype) (t : tensor Z) : tval := {| dt := d; sh := tshape t; pl := tdata t |}.
Definition is_f32 (d : dtype) : bool := dtype_eqb d Float32.
Definition is_float (d : dtype) : bool := dtype_eqb d Float32 || dtype_eqb d Float64.
Definition find_float (n : string) (l : list attr) : option Z :=
  (fix go l := match l with [] => None | AFloat m v :: r => if String.eqb m n then Some v else go r | _ :: r => go r end) l.
Definition find_floats (n : string) (l : list attr) : option (list Z) :=
  (fix go l := match l with [] => None | AFloats m v :: r => if String.eqb m n then Some v else go r | _ :: r => go r end) l.
Definition mmap {X Y} (f : X -> Y) (m : mres X) : mres Y := match m with MOk x => MOk (f x) | MErr => MErr | MPanic => MPanic end.
Definition zmap (f : Z -> Z) (t : tensor Z) : tensor Z := mkT (tshape t) (map f (tdata t)).
Definition zmap2 (f : Z -> Z -> Z) (a b : tensor Z) : tensor Z := mkT (tshape a) (map (fun p => f (fst p) (snd p)) (combine (tdata a) (tdata b))).
Definition transpose2 (t : tensor Z) : tensor Z :=
  tabulate [nth 1 (tshape t) 0%nat; nth 0 (tshape t) 0%nat] (fun i => get 0 t [nth 1 i 0%nat; nth 0 i 0%nat]).

(* ---------------- M ---------------- *)
(* gorgonia's tensor.MatMul computes float32 and float64 only *)
Definition matmul_m (a b : tval) : mres tval :=
  if negb (dtype_eqb (dt a) (dt b)) then MErr
  else if negb (is_float (dt a)) then MErr
  else mmap (vz (dt a)) (matmul_model 0 Z.add Z.mul (tz a) (tz b)).

Definition gemm_m (attrs : list attr) (a b : tval) (c : option tval) : mres tval :=
  let tA := match find_int "transA" attrs with Some v => negb (v =? 0) | None => false end in
  let tB := match find_int "transB" attrs with Some v => negb (v =? 0) | None => false end in
  let alpha := match find_float "alpha" attrs with Some v => v | None => 1 end in
  let beta := match find_float "beta" attrs with Some v => v | None => 1 end in
  if negb (dtype_eqb (dt a) (dt b)) then MErr
  else if negb (is_float (dt a)) then MErr
  else if negb ((List.length (sh a) =? 2)%nat && (List.length (sh b) =? 2)%nat) then MErr
  else
    let a' := if tA then transpose2 (tz a) else tz a in
    let b' := if tB then transpose2 (tz b) else tz b in
    let* x := g_matmul2 0 Z.add Z.mul a' b' in
    (* tensor.Mul(x, alpha) with a float32 scalar: only float32 tensors *)
    if negb (is_f32 (dt a)) then MErr
    else
      let x := zmap (Z.mul alpha) x in
      match c with
      | None => MOk (vz (dt a) x)
      | Some ct =>
          if negb (is_f32 (dt ct)) then MErr
          else
            let y := zmap (Z.mul beta) (tz ct) in
            let* (x1, y1) := unidir_broadcast 0 x y in
            MOk (vz (dt a) (zmap2 Z.add x1 y1))
      end.

Definition linreg_m (attrs : list attr) (x : tval) : mres tval :=
  let targets := match find_int "targets" attrs with Some v => v | None => 1 end in
  match find_floats "coefficients" attrs with
  | None => MErr                                    (* missing coefficients: refused at Init (as repaired) *)
  | Some co =>
      let n := Z.of_nat (List.length co) in
      if targets <=? 0 then MErr                    (* refused at Init (as repaired) *)
      else if negb (targets * (n / targets) =? n) then MErr
      else
        let T := Z.to_nat targets in let F := Z.to_nat (n / targets) in
        (* coefficients reshaped to (targets, features) and transposed *)
        let w := transpose2 (mkT [T; F] co) in
        if negb (is_f32 (dt x)) then MErr
        else
          let* r := g_matmul2 0 Z.add Z.mul (tz x) w in
          match find_floats "intercepts" attrs with
          | None => MOk (vz Float32 r)              (* intercepts are optional (as repaired) *)
          | Some ic =>
              let* (r1, i1) := unidir_broadcast 0 r (mkT [List.length ic] ic) in
              MOk (vz Float32 (zmap2 Z.add r1 i1))
          end
  end.

Definition scaler_m (attrs : list attr) (x : tval) : mres tval :=
  if negb (List.length attrs =? 2)%nat then MErr
  else match find_floats "offset" attrs, find_floats "scale" attrs with
       | Some off, Some sc =>
           let* (x1, o1) := unidir_broadcast 0 (tz x) (mkT [List.length off] off) in
           if negb (is_f32 (dt x)) then MErr
           else
             let d := zmap2 Z.sub x1 o1 in
             let* (x2, s1) := unidir_broadcast 0 d (mkT [List.length sc] sc) in
             MOk (vz Float32 (zmap2 Z.mul x2 s1))
       | _, _ => MPanic
       end.

Definition model (c : opcase) : mres (list (option tval)) :=
  let one := mmap (fun v => [Some v]) in
  if String.eqb (oc_op c) "MatMul" then
    match oc_ins c with [Some a; Some b] => one (matmul_m a b) | _ => MErr end
  else if String.eqb (oc_op c) "Gemm" then
    match oc_ins c with
    | [Some a; Some b] => one (gemm_m (oc_attrs c) a b None)
    | [Some a; Some b; cc] => one (gemm_m (oc_attrs c) a b cc)
    | _ => MErr end
  else if String.eqb (oc_op c) "LinearRegressor" then
    match oc_ins c with [Some x] => one (linreg_m (oc_attrs c) x) | _ => MErr end
  else if String.eqb (oc_op c) "Scaler" then
    match oc_ins c with [Some x] => one (scaler_m (oc_attrs c) x) | _ => MErr end
  else MErr.

(* ---------------- S ---------------- *)
(* float32 operands are always computed; any other accepted type is computed correctly or refused *)
Definition must_or_either (d : dtype) (v : option tval) : spec_out :=
  match v with
  | Some t => if is_f32 d then SMust [Some t] else SEither [Some t]
  | None => SMustErr
  end.

(* integer element types compute modulo 2^bits (two's complement for the signed ones): exact integer
   arithmetic, never a detour through floating point *)
Definition wrap_dt (d : dtype) (z : Z) : Z :=
  let w (bits : Z) (signed : bool) :=
    let m := z mod 2 ^ bits in if signed && (2 ^ (bits - 1) <=? m) then m - 2 ^ bits else m in
  match d with
  | Int32 => w 32 true | Int64 => w 64 true | Uint32 => w 32 false | Uint64 => w 64 false
  | _ => z
  end.
Definition vzw (d : dtype) (t : tensor Z) : tval := {| dt := d; sh := tshape t; pl := map (wrap_dt d) (tdata t) |}.

Definition matmul_s (a b : tval) : spec_out :=
  if negb (dtype_eqb (dt a) (dt b)) then SMustErr
  else must_or_either (dt a) (option_map (vzw (dt a)) (matmul_spec 0 Z.add Z.mul (tz a) (tz b))).

(* Y = alpha * op(A) * op(B) + beta * C, C unidirectionally broadcastable to (M, N) *)
Definition gemm_s (attrs : list attr) (a b : tval) (c : option tval) : spec_out :=
  let tA := match find_int "transA" attrs with Some v => negb (v =? 0) | None => false end in
  let tB := match find_int "transB" attrs with Some v => negb (v =? 0) | None => false end in
  let alpha := match find_float "alpha" attrs with Some v => v | None => 1 end in
  let beta := match find_float "beta" attrs with Some v => v | None => 1 end in
  if negb (dtype_eqb (dt a) (dt b)) || match c with Some ct => negb (dtype_eqb (dt ct) (dt a)) | None => false end then SMustErr
  else if negb ((List.length (sh a) =? 2)%nat && (List.length (sh b) =? 2)%nat) then SMustErr
  else
    let e := fun (t : tval) (i : nat) => nth i (sh t) 0%nat in
    let M := if tA then e a 1%nat else e a 0%nat in let K := if tA then e a 0%nat else e a 1%nat in
    let K' := if tB then e b 1%nat else e b 0%nat in let N := if tB then e b 0%nat else e b 1%nat in
    if negb (K =? K')%nat then SMustErr
    else
      let A := fun i k => if tA then get 0 (tz a) [k; i] else get 0 (tz a) [i; k] in
      let B := fun k j => if tB then get 0 (tz b) [j; k] else get 0 (tz b) [k; j] in
      let prod := fun i j => sumk 0 Z.add K (fun k => A i k * B k j) in
      match c with
      | None => must_or_either (dt a) (Some (vz (dt a) (tabulate [M; N] (fun i => alpha * prod (nth 0 i 0%nat) (nth 1 i 0%nat)))))
      | Some ct =>
          match bshape [M; N] (sh ct) with
          | Some s => if list_eq_dec Nat.eq_dec s [M; N]
                      then must_or_either (dt a) (Some (vz (dt a) (tabulate [M; N] (fun i =>
                             alpha * prod (nth 0 i 0%nat) (nth 1 i 0%nat) + beta * get 0 (tz ct) (bproj (sh ct) i)))))
                      else SMustErr
          | None => SMustErr
          end
      end.

(* ONNX-ML LinearRegressor: Y[n, t] = sum_f X[n, f] * coefficients[t * F + f] + intercepts[t] *)
Definition linreg_s (attrs : list attr) (x : tval) : spec_out :=
  let targets := match find_int "targets" attrs with Some v => v | None => 1 end in
  match find_floats "coefficients" attrs with
  | None => SMustErr
  | Some co =>
      let n := Z.of_nat (List.length co) in
      if targets <=? 0 then SMustErr
      else if negb (targets * (n / targets) =? n) then SMustErr
      else
        let T := Z.to_nat targets in let F := Z.to_nat (n / targets) in
        if negb ((List.length (sh x) =? 2)%nat && (nth 1 (sh x) 0 =? F)%nat) then SMustErr
        else
          let N := nth 0 (sh x) 0%nat in
          let ic := match find_floats "intercepts" attrs with Some l => l | None => [] end in
          (* intercepts: one per target, or a single one for all; absent = none added *)
          let icv := fun t => match ic with [] => Some 0 | [v] => Some v
                                        | _ => if (List.length ic =? T)%nat then Some (nth t ic 0) else None end in
          if match icv 0%nat with None => true | _ => false end then SMustErr
          else must_or_either (dt x) (Some (vz Float32 (tabulate [N; T] (fun i =>
                 sumk 0 Z.add F (fun f => get 0 (tz x) [nth 0 i 0%nat; f] * nth (nth 1 i 0 * F + f)%nat co 0)
                 + match icv (nth 1 i 0%nat) with Some v => v | None => 0 end))))
  end.

(* ONNX-ML Scaler: Y = (X - offset) * scale, offset/scale per feature (last axis) or a single value *)
Definition scaler_s (attrs : list attr) (x : tval) : spec_out :=
  match find_floats "offset" attrs, find_floats "scale" attrs with
  | Some off, Some sc =>
      let F := nth (List.length (sh x) - 1) (sh x) 1%nat in
      let okl := fun (l : list Z) => (List.length l =? F)%nat || (List.length l =? 1)%nat in
      if negb (okl off && okl sc) then SMustErr
      else
        let at_ := fun (l : list Z) (f : nat) => match l with [v] => v | _ => nth f l 0 end in
        must_or_either (dt x) (Some (vz Float32 (tabulate (sh x) (fun i =>
          let f := nth (List.length (sh x) - 1) i 0%nat in (get 0 (tz x) i - at_ off f) * at_ sc f))))
  | _, _ => SMustErr
  end.

Definition spec (c : opcase) : spec_out :=
  if String.eqb (oc_op c) "MatMul" then
    match oc_ins c with [Some a; Some b] => matmul_s a b | _ => SOutOfDomain end
  else if String.eqb (oc_op c) "Gemm" then
    match oc_ins c with
    | [Some a; Some b] => gemm_s (oc_attrs c) a b None
    | [Some a; Some b; cc] => gemm_s (oc_attrs c) a b cc
    | _ => SOutOfDomain end
  else if String.eqb (oc_op c) "LinearRegressor" then
    match oc_ins c with [Some x] => linreg_s (oc_attrs c) x | _ => SOutOfDomain end
  else if String.eqb (oc_op c) "Scaler" then
    match oc_ins c with [Some x] => scaler_s (oc_attrs c) x | _ => SOutOfDomain end
  else SOutOfDomain.

(* K1: batched MatMul refuses a valid float32 product when a sliced matrix has exactly one element *)
Definition known_class (c : opcase) : option Z :=
  if String.eqb (oc_op c) "MatMul" then
    match oc_ins c, spec c with
    | [Some a; Some b], SMust _ =>
        if negb ((List.length (sh a) =? 2)%nat && (List.length (sh b) =? 2)%nat) then Some 1 else None
    | _, _ => None
    end
  else None.

Definition verdict (c : opcase) : Z := verdict_of (spec c) (model c) (known_class c) (oc_obs c).
Definition kind (c : opcase) : Z :=
  match oc_obs c with OOk _ => 1 | OErr _ => 2 | OPanic => 3 end.
