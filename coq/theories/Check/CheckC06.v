(* C06: RNN, GRU, LSTM (forward) against S: the ONNX recurrence equations with the ONNX gate order
   (RNN: i; GRU: z r h; LSTM: i o f c; bias slots Wb then Rb; peepholes i o f), evaluated over
   interval enclosures of the real functions and widened by the rounding the float kernels may
   commit (G/Ival.v). The model of rnn.go / gru.go / lstm.go is Model/Recurrent.v (generic in the
   scalar operations); S here is that model instantiated at rounding-aware intervals. *)
From Coq Require Import List ZArith Bool String.
From V Require Import DType Tensor Case OpCheck Ival Recurrent.
Import ListNotations.
Open Scope string_scope.
Open Scope Z_scope.

Definition is_op (a b : string) := String.eqb a b.
Fixpoint find_strs (n : string) (l : list attr) : option (list string) :=
  match l with [] => None | AStrs m v :: r => if String.eqb m n then Some v else find_strs n r | _ :: r => find_strs n r end.

Inductive actk := ASig | ATanh | ARelu.
(* the names ONNX uses, and the lower-case spelling the library's table uses *)
Definition act_of (s : string) : option actk :=
  if is_op s "Sigmoid" || is_op s "sigmoid" then Some ASig
  else if is_op s "Tanh" || is_op s "tanh" then Some ATanh
  else if is_op s "Relu" || is_op s "relu" then Some ARelu else None.
Definition lower_name (s : string) : bool := is_op s "sigmoid" || is_op s "tanh" || is_op s "relu".
Definition act_fn (w : fw) (a : actk) : I.type -> I.type :=
  match a with ASig => f_sigmoid w | ATanh => f_tanh w | ARelu => f_relu end.

(* the scalar operations of Model/Recurrent.v over rounding-aware intervals *)
Definition iops (w : fw) : sops I.type :=
  {| s_zero := izero; s_one := ione; s_add := f_add w; s_sub := f_sub w; s_mul := f_mul w; s_dot := f_dot w |}.

Fixpoint chunks {X} (n : nat) (fuel : nat) (l : list X) : list (list X) :=
  match fuel with O => [] | S f => firstn n l :: chunks n f (skipn n l) end.
Fixpoint pts (w : fw) (l : list Z) : option (list I.type) :=
  match l with [] => Some [] | b :: r => match pt_of w b, pts w r with Some p, Some q => Some (p :: q) | _, _ => None end end.

Definition all2 {X Y} (f : X -> Y -> bool) (a : list X) (b : list Y) : bool :=
  Nat.eqb (List.length a) (List.length b) && forallb (fun p => f (fst p) (snd p)) (combine a b).

Record parsed := { p_op : rkind; p_H : nat; p_acts : list string; p_explicit : bool; p_lbr : bool; p_if : bool }.
Definition parse (c : opcase) : option parsed :=
  let k := if is_op (oc_op c) "RNN" then Some KRNN else if is_op (oc_op c) "GRU" then Some KGRU else if is_op (oc_op c) "LSTM" then Some KLSTM else None in
  match k, find_int "hidden_size" (oc_attrs c) with
  | Some k, Some h =>
      let dflt := match k with KRNN => ["tanh"] | KGRU => ["sigmoid"; "tanh"] | KLSTM => ["sigmoid"; "tanh"; "tanh"] end in
      Some {| p_op := k; p_H := Z.to_nat h;
              p_acts := match find_strs "activations" (oc_attrs c) with Some l => l | None => dflt end;
              p_explicit := match find_strs "activations" (oc_attrs c) with Some _ => true | None => false end;
              p_lbr := match find_int "linear_before_reset" (oc_attrs c) with Some v => negb (v =? 0) | None => false end;
              p_if := match find_int "input_forget" (oc_attrs c) with Some v => (v =? 1) | None => false end |}
  | _, _ => None
  end.

Definition nth_in (c : opcase) (i : nat) : option tval := match nth_error (oc_ins c) i with Some (Some t) => Some t | _ => None end.
Definition nacts (k : rkind) : nat := match k with KRNN => 1 | KGRU => 2 | KLSTM => 3 end%nat.
Definition ngates (k : rkind) : nat := match k with KRNN => 1 | KGRU => 3 | KLSTM => 4 end%nat.

(* the enclosures of Y, Y_h (and Y_c): None when the inputs are not a well-formed float32/64 case *)
Definition enclosures (c : opcase) (p : parsed) (w : fw) (coupled : bool) : option (list (list I.type)) :=
  match nth_in c 0, nth_in c 1, nth_in c 2 with
  | Some X, Some W, Some R =>
      match sh X with
      | [Sq; B; In] =>
          let H := p_H p in let G := ngates (p_op p) in
          let opt (i : nat) (n : nat) : option (option (list I.type)) :=
            match nth_in c i with None => Some None | Some t => if (List.length (pl t) =? n)%nat then option_map Some (pts w (pl t)) else None end in
          match pts w (pl X), pts w (pl W), pts w (pl R), opt 3%nat (2 * G * H)%nat, opt 5%nat (B * H)%nat, opt 6%nat (B * H)%nat, opt 7%nat (3 * H)%nat,
                map act_of (p_acts p) with
          | Some x, Some wv, Some rv, Some bias, Some h0, Some c0, Some pe, acts =>
              if negb ((List.length x =? Sq * B * In)%nat && (List.length wv =? G * H * In)%nat && (List.length rv =? G * H * H)%nat) then None else
              match (fix all (l : list (option actk)) := match l with [] => Some [] | Some a :: r => option_map (cons a) (all r) | None :: _ => None end) acts with
              | Some al =>
                  if (List.length al <? nacts (p_op p))%nat then None else
                  let xs := map (chunks In B) (chunks (B * In) Sq x) in
                  let Wg := chunks H G (chunks In (G * H) wv) in
                  let Rg := chunks H G (chunks H (G * H) rv) in
                  let bz := match bias with Some b => b | None => repeat izero (2 * G * H) end in
                  let Wb := chunks H G (firstn (G * H) bz) in let Rb := chunks H G (skipn (G * H) bz) in
                  let h0v := chunks H B (match h0 with Some v => v | None => repeat izero (B * H) end) in
                  let c0v := chunks H B (match c0 with Some v => v | None => repeat izero (B * H) end) in
                  let pv := match pe with Some v => Some (chunks H 3 v) | None => None end in
                  let '(ys, hl, cl) := run_rec (iops w) (p_op p) (map (act_fn w) al) (p_lbr p) coupled Wg Rg Wb Rb pv xs h0v c0v in
                  Some (match p_op p with
                        | KLSTM => [List.concat (List.concat ys); List.concat hl; List.concat cl]
                        | _ => [List.concat (List.concat ys); List.concat hl] end)
              | None => None
              end
          | _, _, _, _, _, _, _, _ => None
          end
      | _ => None
      end
  | _, _, _ => None
  end.

Definition shapes_ok (c : opcase) (p : parsed) (outs : list (option tval)) : bool :=
  match nth_in c 0 with
  | Some X => match sh X with
              | [Sq; B; _] =>
                  let H := p_H p in
                  all2 (fun (o : option tval) (s : list nat) => match o with Some t => list_eqb Nat.eqb (sh t) s && dtype_eqb (dt t) (dt X) && wf_tval t | None => false end)
                       outs (match p_op p with KLSTM => [[Sq; 1; B; H]; [1; B; H]; [1; B; H]] | _ => [[Sq; 1; B; H]; [1; B; H]] end)%nat
              | _ => false end
  | None => false
  end.

Definition within (w : fw) (outs : list (option tval)) (enc : list (list I.type)) : bool :=
  all2 (fun (o : option tval) (E : list I.type) => match o with Some t => all2 (fun b e => res_in w b e) (pl t) E | None => false end) outs enc.

(* 0: what the property prescribes; 2: not; 4: outside the domain (malformed operands) *)
Definition judge (c : opcase) : Z :=
  match parse c with
  | None => 4
  | Some p =>
      match nth_in c 0 with
      | None => 4
      | Some X =>
          let known_names := forallb (fun s => match act_of s with Some _ => true | None => false end) (p_acts p) in
          let long_enough := (nacts (p_op p) <=? List.length (p_acts p))%nat in
          let is_err := match oc_obs c with OErr _ => true | _ => false end in
          if negb known_names || negb long_enough then (if is_err then 0 else 2)          (* must be refused with an error *)
          else
            let w := match dt X with Float64 => W64 | _ => W32 end in
            (* may be refused: float64; names spelled the ONNX way (the table is lower case); input_forget = 1 *)
            let may_refuse := negb (dtype_eqb (dt X) Float32) || (p_explicit p && negb (forallb lower_name (p_acts p))) || p_if p in
            match oc_obs c with
            | OErr _ => if may_refuse then 0 else 2
            | OPanic => 2
            | OOk outs =>
                match enclosures c p w (p_if p) with
                | None => 4
                | Some enc => if shapes_ok c p outs && within w outs enc then 0 else 2
                end
            end
      end
  end.

(* known-finding classes (filled in as the implementation is observed to deviate) *)
Definition known_class (c : opcase) : option Z := None.
Definition verdict (c : opcase) : Z :=
  let j := judge c in if j =? 2 then match known_class c with Some k => 100 + k | None => 2 end else j.
Definition kind (c : opcase) : Z := match oc_obs c with OOk _ => 1 | OErr _ => 2 | OPanic => 3 end.
