(* S for C07 written from the ONNX text, known-finding classes, verdicts *)
From Coq Require Import List ZArith Bool Lia String.
From V Require Import DType Tensor Case OpCheck ShapeOps.
Import ListNotations.
Open Scope Z_scope.

Definition SMust1 (v : tval) := SMust [Some v].
Definition SEither1 (v : tval) := SEither [Some v].

Definition with_shape (t : tval) (s : list Z) : tval := {| dt := dt t; sh := map Z.to_nat s; pl := pl t |}.

(* Reshape (allowzero = 0): 0 copies the input dimension, a single -1 is inferred *)
Definition reshape_spec (t shp : tval) : spec_out :=
  match sh shp with
  | [_] =>
      let ns := pl shp in
      let r := List.length (sh t) in
      if existsb (fun d => d <? -1) ns then SMustErr
      else if (1 <? Z.of_nat (List.length (filter (fun d => d =? -1) ns))) then SMustErr
      else
        let copied := map (fun p => if snd p =? 0 then match nth_error (sh t) (fst p) with Some d => Z.of_nat d | None => -7 end else snd p)
                          (combine (seq 0 (List.length ns)) ns) in
        if existsb (fun d => d =? -7) copied then SMustErr
        else
          let known := zprod (filter (fun d => negb (d =? -1)) copied) in
          if existsb (fun d => d =? -1) copied then
            if (known =? 0) || negb (total t mod known =? 0) then SMustErr
            else SMust1 (with_shape t (map (fun d => if d =? -1 then total t / known else d) copied))
          else if known =? total t then SMust1 (with_shape t copied) else SMustErr
  | _ => SOutOfDomain
  end.

Definition flatten_spec (axis : Z) (t : tval) : spec_out :=
  let r := Z.of_nat (List.length (sh t)) in
  if (axis <? - r) || (r <? axis) then SMustErr
  else let a := Z.to_nat (if axis <? 0 then axis + r else axis) in
       SMust1 (with_shape t [zprod (zshape (firstn a (sh t))); zprod (zshape (skipn a (sh t)))]).

Definition squeeze_spec (t : tval) (axes : option tval) : spec_out :=
  let r := Z.of_nat (List.length (sh t)) in
  match axes with
  | None => SMust1 (with_shape t (filter (fun d => negb (d =? 1)) (zshape (sh t))))
  | Some a =>
      match sh a with
      | [_] =>
          if negb (forallb (fun x => (- r <=? x) && (x <? r)) (pl a)) then SMustErr
          else
            let norm := map (fun x => Z.to_nat (if x <? 0 then x + r else x)) (pl a) in
            if negb (forallb (fun i => Nat.eqb (nth i (sh t) 0%nat) 1) norm) then SMustErr
            else
              let res := with_shape t (map (fun i => Z.of_nat (nth i (sh t) 0%nat))
                                           (filter (fun i => negb (existsb (Nat.eqb i) norm)) (seq 0 (List.length (sh t))))) in
              if (List.length (nodup Nat.eq_dec norm) <? List.length norm)%nat then SEither1 res   (* ONNX is silent on duplicates here *)
              else SMust1 res
      | _ => SOutOfDomain
      end
  end.

Definition unsqueeze_spec (t axes : tval) : spec_out :=
  match sh axes with
  | [_] =>
      let R := Z.of_nat (List.length (sh t) + List.length (pl axes)) in
      if negb (forallb (fun x => (- R <=? x) && (x <? R)) (pl axes)) then SMustErr
      else
        let norm := map (fun x => if x <? 0 then x + R else x) (pl axes) in
        if (List.length (nodup Z.eq_dec norm) <? List.length norm)%nat then SMustErr
        else SMust1 (with_shape t (insert_ones (Z.to_nat R) 0 (sh t) (sortz norm)))
  | _ => SOutOfDomain
  end.

Definition shape_spec (t : tval) : spec_out :=
  SMust1 {| dt := Int64; sh := [List.length (sh t)]; pl := zshape (sh t) |}.

Definition axis_attr (c : opcase) : Z := match find_int "axis" (oc_attrs c) with Some a => a | None => 1 end.

Definition spec (c : opcase) : spec_out :=
  match oc_op c, oc_ins c with
  | "Reshape"%string, [Some t; Some s] => reshape_spec t s
  | "Flatten"%string, [Some t] => flatten_spec (axis_attr c) t
  | "Squeeze"%string, [Some t] => squeeze_spec t None
  | "Squeeze"%string, [Some t; a] => squeeze_spec t a
  | "Unsqueeze"%string, [Some t; Some a] => unsqueeze_spec t a
  | "Shape"%string, [Some t] => shape_spec t
  | _, _ => SOutOfDomain
  end.

Definition model1 (c : opcase) : mres tval :=
  match oc_op c, oc_ins c with
  | "Reshape"%string, [Some t; Some s] => reshape_model t s
  | "Flatten"%string, [Some t] => flatten_model (axis_attr c) t
  | "Squeeze"%string, [Some t] => squeeze_model t None
  | "Squeeze"%string, [Some t; a] => squeeze_model t a
  | "Unsqueeze"%string, [Some t; Some a] => unsqueeze_model t a
  | "Shape"%string, [Some t] => shape_model t
  | _, _ => MErr
  end.

(* known-finding classes: decidable predicates on the input *)
Definition known_class (c : opcase) : option Z :=
  match oc_op c, oc_ins c with
  | "Shape"%string, [Some t] => match sh t with [] => Some 4 | _ => None end   (* K4: Shape of a rank-0 tensor panics *)
  | _, _ => None
  end.

Definition model (c : opcase) : mres (list (option tval)) := let* v := model1 c in MOk [Some v].

Definition verdict (c : opcase) : Z := verdict_of (spec c) (model c) (known_class c) (oc_obs c).
Definition kind (c : opcase) : Z := spec_kind (spec c).
