(* C04, floating-point stream: MatMul (2-D), Gemm, LinearRegressor and Scaler on float32 data that is
   NOT integer valued, judged against the ONNX formulas evaluated over rounding-aware interval
   enclosures (G/Ival.v): every output element must lie in the enclosure of

     MatMul            sum_k a_ik b_kj                                   (f_dot: any summation order)
     Gemm              alpha * sum_k op(A)_ik op(B)_kj + beta * C_ij      (C broadcast unidirectionally)
     LinearRegressor   sum_f x_nf coef_tf + intercept_t
     Scaler            (x - offset_f) * scale_f

   with one unit roundoff per arithmetic operation. float32 cases must be computed; float64 cases
   (same formulas at 2^-53; the attributes stay float32 values) must be computed or refused. An algebraically equal formula that is
   numerically different (x*scale - offset*scale) leaves the enclosure as soon as it cancels. *)
From Coq Require Import List ZArith Bool String.
From V Require Import DType Tensor Case OpCheck Ival CheckC06.
Import ListNotations.
Open Scope string_scope.
Open Scope Z_scope.

Definition ffloat (n : string) (l : list attr) : option Z :=
  (fix go l := match l with [] => None | AFloat m v :: r => if String.eqb m n then Some v else go r | _ :: r => go r end) l.
Definition ffloats (n : string) (l : list attr) : option (list Z) :=
  (fix go l := match l with [] => None | AFloats m v :: r => if String.eqb m n then Some v else go r | _ :: r => go r end) l.

Definition rows {X} (r c : nat) (l : list X) : list (list X) := chunks c r l.
Definition col {X} (d : X) (m : list (list X)) (j : nat) : list X := map (fun row => nth j row d) m.
Definition transpose_m {X} (d : X) (r c : nat) (m : list (list X)) : list (list X) := map (col d m) (seq 0 c).

(* the enclosures, one per output element in row-major order; None: not a case of this stream *)
Definition width (c : opcase) : fw := match oc_ins c with Some x :: _ => (match dt x with Float64 => W64 | _ => W32 end) | _ => W32 end.
Definition fdt (c : opcase) : dtype := match width c with W64 => Float64 | W32 => Float32 end.
(* attribute floats are float32 bit patterns whatever the tensors' type *)
Definition enclosures (c : opcase) : option (list nat * list I.type) :=
  let ins := oc_ins c in
  let w := width c in
  let f32 (t : tval) := dtype_eqb (dt t) (fdt c) in
  if is_op (oc_op c) "MatMul" then
    match ins with
    | [Some a; Some b] =>
        match sh a, sh b, pts w (pl a), pts w (pl b) with
        | [M; K], [K'; N], Some av, Some bv =>
            if negb (f32 a && f32 b && Nat.eqb K K') then None else
            let A := rows M K av in let Bt := transpose_m izero K N (rows K N bv) in
            Some ([M; N], List.concat (map (fun ra => map (fun cb => f_dot w ra cb) Bt) A))
        | _, _, _, _ => None
        end
    | _ => None
    end
  else if is_op (oc_op c) "Gemm" then
    match ins with
    | Some a :: Some b :: rest =>
        let tA := match find_int "transA" (oc_attrs c) with Some v => negb (v =? 0) | None => false end in
        let tB := match find_int "transB" (oc_attrs c) with Some v => negb (v =? 0) | None => false end in
        match sh a, sh b, pts w (pl a), pts w (pl b) with
        | [a0; a1], [b0; b1], Some av, Some bv =>
            let A := if tA then transpose_m izero a0 a1 (rows a0 a1 av) else rows a0 a1 av in
            let Bt := if tB then rows b0 b1 bv else transpose_m izero b0 b1 (rows b0 b1 bv) in
            let M := if tA then a1 else a0 in let K := if tA then a0 else a1 in
            let K' := if tB then b1 else b0 in let N := if tB then b0 else b1 in
            if negb (f32 a && f32 b && Nat.eqb K K') then None else
            let alpha := match ffloat "alpha" (oc_attrs c) with Some v => pt_of W32 v | None => Some ione end in
            let beta := match ffloat "beta" (oc_attrs c) with Some v => pt_of W32 v | None => Some ione end in
            let cmat : option (option (list (list I.type))) :=
              match rest with
              | [] | [None] => Some None
              | [Some ct] =>
                  match pts w (pl ct) with
                  | Some cv =>
                      if negb (f32 ct) then None else
                      match sh ct with
                      | [] | [1%nat] | [1%nat; 1%nat] => Some (Some (repeat (repeat (nth 0 cv izero) N) M))
                      | [n] => if Nat.eqb n N then Some (Some (repeat cv M)) else None
                      | [m; n] => if Nat.eqb m M && Nat.eqb n N then Some (Some (rows M N cv))
                                  else if Nat.eqb m 1 && Nat.eqb n N then Some (Some (repeat cv M))
                                  else if Nat.eqb m M && Nat.eqb n 1 then Some (Some (map (fun x => repeat x N) cv))
                                  else None
                      | _ => None
                      end
                  | None => None
                  end
              | _ => None
              end in
            match alpha, beta, cmat with
            | Some al, Some be, Some cm =>
                let prod := map (fun ra => map (fun cb => f_mul w al (f_dot w ra cb)) Bt) A in
                let out := match cm with
                           | None => prod
                           | Some C => map (fun pr => map (fun pc => f_add w (fst pc) (f_mul w be (snd pc))) (combine (fst pr) (snd pr))) (combine prod C)
                           end in
                Some ([M; N], List.concat out)
            | _, _, _ => None
            end
        | _, _, _, _ => None
        end
    | _ => None
    end
  else if is_op (oc_op c) "LinearRegressor" then
    match ins, ffloats "coefficients" (oc_attrs c), find_int "targets" (oc_attrs c) with
    | [Some x], Some co, tg =>
        let T := match tg with Some t => Z.to_nat t | None => 1%nat end in
        match sh x, pts w (pl x), pts W32 co with
        | [N; F], Some xv, Some cv =>
            if negb (f32 x && Nat.eqb (List.length cv) (T * F)) then None else
            let ic := match ffloats "intercepts" (oc_attrs c) with
                      | Some l => match pts W32 l with Some v => if Nat.eqb (List.length v) T then Some v else if Nat.eqb (List.length v) 1 then Some (repeat (nth 0 v izero) T) else None | None => None end
                      | None => Some (repeat izero T) end in
            match ic with
            | Some iv =>
                Some ([N; T], List.concat (map (fun xr => map (fun ci => f_add w (f_dot w xr (fst ci)) (snd ci)) (combine (rows T F cv) iv)) (rows N F xv)))
            | None => None
            end
        | _, _, _ => None
        end
    | _, _, _ => None
    end
  else if is_op (oc_op c) "Scaler" then
    match ins, ffloats "offset" (oc_attrs c), ffloats "scale" (oc_attrs c) with
    | [Some x], Some off, Some scl =>
        match sh x, pts w (pl x), pts W32 off, pts W32 scl with
        | [N; F], Some xv, Some ov, Some sv =>
            let fit (v : list I.type) := if Nat.eqb (List.length v) F then Some v else if Nat.eqb (List.length v) 1 then Some (repeat (nth 0 v izero) F) else None in
            match fit ov, fit sv with
            | Some o, Some s =>
                if negb (f32 x) then None else
                Some ([N; F], List.concat (map (fun xr => map (fun t => f_mul w (f_sub w (fst (fst t)) (snd (fst t))) (snd t)) (combine (combine xr o) s)) (rows N F xv)))
            | _, _ => None
            end
        | _, _, _, _ => None
        end
    | _, _, _ => None
    end
  else None.

(* 0: every element inside its enclosure; 2: not (or refused / panicked: every case of this stream is a
   valid float32 configuration); 4: not a case of this stream *)
Definition verdict (c : opcase) : Z :=
  match enclosures c with
  | None => 4
  | Some (shp, enc) =>
      match oc_obs c with
      | OOk [Some t] =>
          if list_eqb Nat.eqb (sh t) shp && dtype_eqb (dt t) (fdt c) && all2 (fun b e => res_in (width c) b e) (pl t) enc then 0 else 2
      | OErr _ => match width c with W64 => 0 | W32 => 2 end   (* float64 must be computed correctly or refused *)
      | _ => 2
      end
  end.
Definition kind (c : opcase) : Z := match oc_obs c with OOk _ => 1 | OErr _ => 2 | OPanic => 3 end.
