(* C18: loading never crashes; unsupported opsets are refused with the unsupported-opset error.
   The set of implemented opset versions is the table regenerated from /repo (OpTable.v). *)
From Coq Require Import List ZArith Bool String.
From V Require Import DType Case OpCheck Decode Load CheckC12.
Import ListNotations.
Open Scope Z_scope.

Record lcase := { lc_inits : list tproto; lc_opsets : list Z; lc_obs : observed }.

(* S, in the property's words. An initializer is judged by C12's specification. *)
Inductive init_status := IGood | IBad | IUnspecified.
Definition init_status_of (tp : tproto) : init_status :=
  let c := {| pc_tp := tp; pc_obs := OPanic |} in
  match known_class c with
  | Some _ => IUnspecified                      (* C12's known finding: not this property's business *)
  | None => match CheckC12.spec c with
            | SMust _ => IGood | SMustErr => IBad | _ => IUnspecified end
  end.
Definition highest (vs : list Z) : Z := fold_right Z.max 0 vs.

Definition holds (supported : list Z) (c : lcase) : bool :=
  let st := map init_status_of (lc_inits c) in
  let any_bad := existsb (fun s => match s with IBad => true | _ => false end) st in
  let implemented := existsb (Z.eqb (highest (lc_opsets c))) supported in
  match lc_obs c with
  | OPanic => false                                               (* never a crash *)
  | OOk _ => negb any_bad && implemented                          (* loaded: only if everything is in order *)
  | OErr k =>
      if any_bad then true                                        (* some error; which one is not prescribed *)
      else if implemented then false                              (* nothing wrong: must load *)
      else match k with EUnsupportedOpset => true | _ => false end   (* the unsupported-opset error *)
  end.

Definition in_domain (c : lcase) : bool :=
  forallb (fun tp => match init_status_of tp with IUnspecified => false | _ => true end) (lc_inits c).

Definition agree (supported : list Z) (c : lcase) : bool :=
  match load supported {| m_inits := lc_inits c; m_opsets := lc_opsets c |}, lc_obs c with
  | LOk _, OOk _ => true
  | LErrInit, OErr EUnsupportedOpset => false
  | LErrInit, OErr _ => true
  | LErrOpset, OErr EUnsupportedOpset => true
  | LPanic, OPanic => true
  | _, _ => false
  end.

Definition verdict (supported : list Z) (c : lcase) : Z :=
  if negb (in_domain c) then 4
  else if holds supported c then (if agree supported c then 0 else 3) else 2.
Definition kind (supported : list Z) (c : lcase) : Z :=
  if existsb (fun tp => match init_status_of tp with IBad => true | _ => false end) (lc_inits c) then 3
  else if existsb (Z.eqb (highest (lc_opsets c))) supported then 1 else 2.
