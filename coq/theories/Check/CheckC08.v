From Coq Require Import List ZArith Bool String.
From V Require Import DType Tensor Case OpCheck IndexOps.
Import ListNotations.
Open Scope Z_scope.

Definition SMust1 (v : tval) := SMust [Some v].
Definition SEither1 (v : tval) := SEither [Some v].

Definition axis_of (c : opcase) : Z := match find_int "axis" (oc_attrs c) with Some a => a | None => 0 end.
Fixpoint all_some (l : list (option tval)) : option (list tval) :=
  match l with [] => Some [] | Some t :: r => option_map (cons t) (all_some r) | None :: _ => None end.

Definition model1 (c : opcase) : mres tval :=
  match oc_op c, oc_ins c with
  | "Transpose"%string, [Some t] => transpose_model (find_ints "perm" (oc_attrs c)) (List.length (oc_attrs c)) t
  | "Concat"%string, ins => match all_some ins with Some ts => concat_model (axis_of c) ts | None => MErr end
  | "Slice"%string, [Some t; Some s; Some e] => slice_model t s e None None
  | "Slice"%string, [Some t; Some s; Some e; a] => slice_model t s e a None
  | "Slice"%string, [Some t; Some s; Some e; a; p] => slice_model t s e a p
  | "Gather"%string, [Some d; Some i] => gather_model (axis_of c) d i
  | "Expand"%string, [Some t; Some s] => expand_model t s
  | _, _ => MErr
  end.
Definition of_sspec (s : sspec) : spec_out :=
  match s with SValue v => SEither1 v        (* computed as ONNX says, or refused *)
             | SEmpty => SMustErr           (* an empty result cannot be represented: only a refusal is acceptable *)
             | SInvalid => SMustErr end.
Definition spec (c : opcase) : spec_out :=
  match oc_op c, oc_ins c with
  | "Transpose"%string, [Some t] =>
      match find_ints "perm" (oc_attrs c) with
      | Some p => if perm_ok t p then SEither1 (transpose_value t (map Z.to_nat p))
                  else match p with [] => SEither1 (transpose_value t (rev (seq 0 (List.length (sh t))))) | _ => SMustErr end
      | None => SEither1 (transpose_value t (rev (seq 0 (List.length (sh t)))))       (* default: reversed axes; refusing is allowed *)
      end
  | "Concat"%string, ins =>
      match all_some ins with
      | Some [t0] => SEither1 t0                                             (* one input: the axis plays no role *)
      | Some (t0 :: rest) =>
          let a := axis_of c in
          if (a <? - rank t0) || (rank t0 <=? a) then SMustErr
          else match concat_value (Z.to_nat (if a <? 0 then a + rank t0 else a)) (t0 :: rest) with
               | Some v => SEither1 v | None => SMustErr end
      | _ => SOutOfDomain
      end
  | "Slice"%string, [Some t; Some s; Some e] => of_sspec (slice_spec t s e None None)
  | "Slice"%string, [Some t; Some s; Some e; a] => of_sspec (slice_spec t s e a None)
  | "Slice"%string, [Some t; Some s; Some e; a; p] => of_sspec (slice_spec t s e a p)
  | "Gather"%string, [Some d; Some i] =>
      match gather_model (axis_of c) d i with MOk v => SEither1 v | _ => SMustErr end   (* the model here IS the ONNX formula *)
  | "Expand"%string, [Some t; Some s] =>
      match expand_spec t s with Some v => SEither1 v | None => SMustErr end
  | _, _ => SOutOfDomain
  end.

(* known-finding classes, as decidable predicates on the input:
   1 slice-drop: some sliced axis has ONNX extent 1 -> gorgonia drops that axis from the shape (data right);
   3 slice-axis0-step: axis 0 sliced with a step > 1 that leaves a remainder -> gorgonia computes the
     extent with floor instead of ceiling and loses the last element *)
Definition sliced_axes (t starts ends : tval) (axes steps : option tval) : list (Z * Z * nat * Z) :=
  let '(st, en, ax, sp) := slice_operands t starts ends axes steps in
  map (fun q => let '(((s0, e0), a), p0) := q in (s0, e0, Z.to_nat (if a <? 0 then rank t + a else a), p0))
      (combine (combine (combine st en) ax) sp).
Definition known_class (c : opcase) : option Z :=
  match oc_op c, oc_ins c with
  | "Slice"%string, (Some t :: Some s :: Some e :: rest) =>
      let a := nth 0 rest None in let p := nth 1 rest None in
      match slice_spec t s e a p with
      | SValue v =>
          let sl := sliced_axes t s e a p in
          if existsb (fun q => let '(s0, e0, k, p0) := q in
                               Nat.eqb k 0 && (1 <? p0) && negb ((Z.min e0 (Z.of_nat (nthz (sh t) k)) - s0) mod p0 =? 0)) sl then Some 3
          else if existsb (fun q => let '(s0, e0, k, p0) := q in
                               let '(_, _, ext) := onnx_slice_axis (Z.of_nat (nthz (sh t) k)) s0 e0 p0 in ext =? 1) sl then Some 1
          else None
      | _ => None
      end
  | _, _ => None
  end.

Definition model (c : opcase) : mres (list (option tval)) := let* v := model1 c in MOk [Some v].

Definition verdict (c : opcase) : Z := verdict_of (spec c) (model c) (known_class c) (oc_obs c).
Definition kind (c : opcase) : Z := spec_kind (spec c).
