(* C03: the twelve elementwise binary operators against S and M. The operator table
   regenerated from /repo supplies the gate (type constraints). *)
From Coq Require Import List ZArith Bool String.
From V Require Import DType Tensor Case OpCheck Gate Scalar BinaryOps.
Import ListNotations.
Open Scope Z_scope.
Open Scope string_scope.

(* the kernel of the code (gorgonia) per operator and dtype, and the result dtype *)
Definition kernel (op : string) (d : dtype) : option (option (Z -> Z -> Z) * dtype) :=
  if String.eqb op "Add" then Some (arith_fn d OAdd, d) else
  if String.eqb op "Sub" then Some (arith_fn d OSub, d) else
  if String.eqb op "Mul" then Some (arith_fn d OMul, d) else
  if String.eqb op "Div" then Some (arith_fn d ODiv, d) else
  if String.eqb op "Equal" then Some (cmp_fn d CEq, DBool) else
  if String.eqb op "Greater" then Some (cmp_fn d CGt, DBool) else
  if String.eqb op "GreaterOrEqual" then Some (cmp_fn d CGe, DBool) else
  if String.eqb op "Less" then Some (cmp_fn d CLt, DBool) else
  if String.eqb op "LessOrEqual" then Some (cmp_fn d CLe, DBool) else
  if String.eqb op "And" then Some (match d with DBool => Some (bool_logic LAnd) | _ => None end, DBool) else
  if String.eqb op "Or" then Some (match d with DBool => Some (bool_logic LOr) | _ => None end, DBool) else
  if String.eqb op "Xor" then Some (match d with DBool => Some (bool_logic LXor) | _ => None end, DBool) else None.

(* the scalar operation S asks for: IEEE-754 division where the code's kernel deviates *)
Definition kernel_spec (op : string) (d : dtype) : option (Z -> Z -> Z) :=
  if String.eqb op "Div" then arith_fn_spec d ODiv
  else match kernel op d with Some (f, _) => f | None => None end.

(* element types the property says must be computed, not refused *)
Definition mandatory (op : string) (d : dtype) : bool :=
  if String.eqb op "And" || String.eqb op "Or" || String.eqb op "Xor" then (match d with DBool => true | _ => false end)
  else match d with Float32 | Float64 | Int32 | Int64 => true | _ => false end.

Definition gate_allows (tbl : list opinfo) (op : string) (a b : dtype) : bool :=
  match find (fun o => String.eqb (o_name o) op) tbl with
  | Some o => match o_cons o with
              | [ca; cb] => mem_dtype a ca && mem_dtype b cb
              | _ => false
              end
  | None => false
  end.

Definition model (tbl : list opinfo) (c : opcase) : mres (list (option tval)) :=
  match oc_ins c with
  | [Some a; Some b] =>
      if negb (gate_allows tbl (oc_op c) (dt a) (dt b)) then MErr else
      match kernel (oc_op c) (dt a) with
      | Some (f, odt) => let* v := binop_model f odt a b in MOk [Some v]
      | None => MErr
      end
  | _ => MErr
  end.

Definition spec (c : opcase) : spec_out :=
  match oc_ins c with
  | [Some a; Some b] =>
      if negb (dtype_eqb (dt a) (dt b) && wf_tval a && wf_tval b) then SOutOfDomain else
      match kernel (oc_op c) (dt a) with
      | None => SOutOfDomain
      | Some (_, odt) =>
          match BroadcastSpec.bshape (sh a) (sh b) with
          | None => SMustErr                                        (* not broadcast-compatible: an error *)
          | Some _ =>
              match kernel_spec (oc_op c) (dt a) with
              | Some g => match binop_spec g odt a b with
                          | Some v => if mandatory (oc_op c) (dt a) then SMust [Some v] else SEither [Some v]
                          | None => SMustErr
                          end
              | None => if mandatory (oc_op c) (dt a) then SOutOfDomain else SMustErr   (* no scalar semantics: must be refused *)
              end
          end
      end
  | _ => SOutOfDomain
  end.

(* K1: float division whose divisor contains a zero of either sign *)
Definition known_class (c : opcase) : option Z :=
  match oc_ins c with
  | [Some a; Some b] =>
      if String.eqb (oc_op c) "Div" &&
         (match dt a with Float32 => existsb is_zero32 (pl b) | Float64 => existsb is_zero64 (pl b) | _ => false end)
      then Some 1 else None
  | _ => None
  end.

Definition verdict (tbl : list opinfo) (c : opcase) : Z := verdict_of (spec c) (model tbl c) (known_class c) (oc_obs c).
Definition kind (c : opcase) : Z := spec_kind (spec c).
