(* C09: ArgMax, ReduceMax, ReduceMin (exact) and Softmax, LogSoftmax (interval enclosures of the
   real-number definition, widened by the rounding the floating-point kernel may commit). *)
From Coq Require Import List ZArith Bool String.
From V Require Import DType Tensor Case OpCheck Writes Ival.
Import ListNotations.
Open Scope string_scope.
Open Scope Z_scope.

Definition is_op (a b : string) := String.eqb a b.
Definition fw_of (d : dtype) : option fw := match d with Float32 => Some W32 | Float64 => Some W64 | _ => None end.

(* a key that orders payload entries as numbers: integers by value, floats by sign and magnitude
   (-0 = +0); None for NaN *)
Definition okey (d : dtype) (v : Z) : option Z :=
  match d with
  | Float32 => match decode W32 v with VNaN => None | _ => Some (if v <? 2147483648 then v else - (v - 2147483648)) end
  | Float64 => match decode W64 v with VNaN => None | _ => Some (if v <? 9223372036854775808 then v else - (v - 9223372036854775808)) end
  | _ => Some v
  end.

(* axes as given -> normalised positions, or None when one is out of [-r, r-1] *)
Definition norm_axis (r : nat) (a : Z) : option nat :=
  let rz := Z.of_nat r in
  if (- rz <=? a) && (a <? rz) then Some (Z.to_nat (if a <? 0 then a + rz else a)) else None.
Fixpoint norm_axes (r : nat) (l : list Z) : option (list nat) :=
  match l with [] => Some [] | a :: t => match norm_axis r a, norm_axes r t with Some x, Some y => Some (x :: y) | _, _ => None end end.
Definition memn (k : nat) (l : list nat) : bool := existsb (Nat.eqb k) l.
Definition idxs (s : list nat) : list (nat * nat) := combine (seq 0 (List.length s)) s.

(* for every output position (reduced axes pinned to extent 1): the input positions of its slice,
   in row-major order *)
Definition slices (s : list nat) (A : list nat) : list (list (list nat)) :=
  let keep := map (fun p => if memn (fst p) A then 1%nat else snd p) (idxs s) in
  let red := map (fun p => if memn (fst p) A then snd p else 1%nat) (idxs s) in
  map (fun o => map (fun c => map (fun p => if memn (fst (fst p)) A then snd p else snd (fst p)) (combine (combine (seq 0 (List.length s)) o) c))
                    (all_indices red))
      (all_indices keep).
Definition out_shape (s : list nat) (A : list nat) (keepdims : bool) : list nat :=
  flat_map (fun p => if memn (fst p) A then (if keepdims then [1%nat] else []) else [snd p]) (idxs s).

(* first position attaining the best key under `better`; a NaN (no key) wins over everything when
   nan_first is set (gorgonia's Argmax, numpy's argmax) *)
Fixpoint best (better : Z -> Z -> bool) (nan_first : bool) (l : list (nat * option Z)) (cur : option (nat * option Z)) : option (nat * option Z) :=
  match l with
  | [] => cur
  | (i, k) :: r =>
      match cur with
      | None => best better nan_first r (Some (i, k))
      | Some (_, None) => if nan_first then cur else best better nan_first r (Some (i, k))
      | Some (_, Some kc) =>
          match k with
          | None => if nan_first then Some (i, None) else best better nan_first r cur
          | Some kn => if better kn kc then best better nan_first r (Some (i, k)) else best better nan_first r cur
          end
      end
  end.

Definition get_pl (x : tval) (i : list nat) : Z := nth (flat (sh x) i) (pl x) 0.

Definition argmax_spec (attrs : list attr) (x : tval) : spec_out :=
  let r := List.length (sh x) in
  let axis := match find_int "axis" attrs with Some a => a | None => 0 end in
  let keepdims := match find_int "keepdims" attrs with Some v => negb (v =? 0) | None => true end in
  match norm_axis r axis with
  | None => SMustErr
  | Some ax =>
      let res := map (fun sl =>
                        match best Z.gtb true (map (fun i => (nth ax i 0%nat, okey (dt x) (get_pl x i))) sl) None with
                        | Some (i, _) => Z.of_nat i | None => 0 end) (slices (sh x) [ax]) in
      let out := [Some {| dt := Int64; sh := out_shape (sh x) [ax] keepdims; pl := res |}] in
      match dt x with Float32 | Float64 | Int32 | Int64 => SMust out | _ => SEither out end
  end.

Definition reduce_spec (mx : bool) (attrs : list attr) (x : tval) : spec_out :=
  let r := List.length (sh x) in
  let keepdims := match find_int "keepdims" attrs with Some v => (v =? 1) | None => true end in
  let axes := match find_ints "axes" attrs with Some l => norm_axes r l | None => Some [] end in
  match axes with
  | None => SMustErr
  | Some A0 =>
      let A := match A0 with [] => seq 0 r | _ => A0 end in            (* no axes: all of them *)
      let res := map (fun sl =>
                        match best (if mx then Z.gtb else Z.ltb) false (map (fun i => (flat (sh x) i, okey (dt x) (get_pl x i))) sl) None with
                        | Some (f, _) => nth f (pl x) 0 | None => 0 end) (slices (sh x) A) in
      let out := [Some {| dt := dt x; sh := out_shape (sh x) A keepdims; pl := res |}] in
      match dt x with Float32 | Float64 | Int32 | Int64 => SMust out | _ => SEither out end
  end.

(* ---------------- Softmax / LogSoftmax ---------------- *)
Fixpoint all_some_iv (w : fw) (l : list Z) : option (list I.type) :=
  match l with [] => Some [] | b :: r => match pt_of w b, all_some_iv w r with Some p, Some q => Some (p :: q) | _, _ => None end end.
(* the largest element of a slice (bit patterns of finite floats), as a point interval *)
Definition max_pt (w : fw) (d : dtype) (xs : list Z) : I.type :=
  match best Z.gtb false (map (fun p => (fst p, okey d (snd p))) (combine (seq 0 (List.length xs)) xs)) None with
  | Some (i, _) => match pt_of w (nth i xs 0) with Some p => p | None => izero end
  | None => izero
  end.
(* one slice: inputs as point intervals -> enclosures of what a float kernel computing
   exp(x - m) / sum exp(x - m) (resp. (x - m) - ln sum) may return, for the shift m *)
Definition soft_slice (w : fw) (logsm : bool) (xs : list I.type) (m : I.type) : list I.type :=
  let zs := map (fun x => f_sub w x m) xs in
  let es := map (f_exp w) zs in
  let s := f_sum w es in
  if logsm then let l := widen w 8 (I.ln prec s) in map (fun z => f_sub w z l) zs
  else let inv := f_div w ione s in map (fun e => f_mul w e inv) es.

Definition all2 {X Y} (f : X -> Y -> bool) (a : list X) (b : list Y) : bool :=
  Nat.eqb (List.length a) (List.length b) && forallb (fun p => f (fst p) (snd p)) (combine a b).
Definition all_fin (w : fw) (l : list Z) : bool := forallb (is_fin w) l.

(* judge one slice: every output finite, inside its enclosure; Softmax additionally non-negative
   and the slice sum inside the enclosure of the sum (which contains 1) *)
Definition slice_ok (w : fw) (d : dtype) (logsm : bool) (xs : list Z) (os : list Z) : bool :=
  match all_some_iv w xs with
  | None => false
  | Some px =>
      let enc := soft_slice w logsm px (max_pt w d xs) in
      (* LogSoftmax may legitimately round to -Inf when the exact value is below the float range:
         res_in accepts an infinity only where the enclosure reaches beyond the largest finite value *)
      (logsm || all_fin w os) && all2 (fun o E => res_in w o E) os enc &&
      (logsm || (forallb (fun o => match decode w o with VFin m _ => 0 <=? m | _ => false end) os &&
                 match all_some_iv w os with
                 | Some po => I.subset (isum po) (f_sum w enc) && I.subset ione (f_sum w enc)
                 | None => false end))
  end.

(* the whole tensor: every slice along the axis *)
Definition soft_judge (logsm : bool) (attrs : list attr) (x : tval) (obs : observed) : Z :=
  let r := List.length (sh x) in
  let axis := match find_int "axis" attrs with Some a => a | None => -1 end in
  match fw_of (dt x) with
  | None => (match obs with OErr _ => 0 | _ => 2 end)
  | Some w =>
      if negb (all_fin w (pl x)) then 4                                  (* the property speaks of finite inputs *)
      else match norm_axis r axis with
           | None => (match obs with OErr _ => 0 | _ => 2 end)
           | Some ax =>
               match obs with
               | OOk [Some o] =>
                   if dtype_eqb (dt o) (dt x) && list_eqb Nat.eqb (sh o) (sh x) && wf_tval o &&
                      forallb (fun sl => slice_ok w (dt x) logsm (map (get_pl x) sl) (map (get_pl o) sl)) (slices (sh x) [ax])
                   then 0 else 2
               | _ => 2
               end
           end
  end.

(* K1 (gorgonia, last-axis kernels softMaxLastDimF32/F64): the running maximum of every row starts
   from the FIRST ELEMENT OF THE WHOLE TENSOR and the row's own first element is never looked at
   (`maxInput := xArr[0]; for j := 1; ...`). For a row other than the first whose true maximum differs
   from max(x[0], row[1:]) the shift is wrong: overflow to Inf/NaN, underflow of the whole row, or
   degraded accuracy *)
Definition kmax (d : dtype) (l : list Z) : option Z :=
  match best Z.gtb false (map (fun p => (fst p, okey d (snd p))) (combine (seq 0 (List.length l)) l)) None with
  | Some (_, k) => k | None => None end.
Definition soft_known (attrs : list attr) (x : tval) : bool :=
  let r := List.length (sh x) in
  let axis := match find_int "axis" attrs with Some a => a | None => -1 end in
  match norm_axis r axis with
  | Some ax =>
      (Nat.eqb (S ax) r) &&
      existsb (fun sl => let row := map (get_pl x) sl in
                         negb (match kmax (dt x) row, kmax (dt x) (nth 0 (pl x) 0 :: tl row) with
                               | Some a, Some b => a =? b | _, _ => false end))
              (tl (slices (sh x) [ax]))
  | None => false
  end.

Definition spec (c : opcase) : spec_out :=
  match oc_ins c with
  | [Some x] =>
      if is_op (oc_op c) "ArgMax" then argmax_spec (oc_attrs c) x
      else if is_op (oc_op c) "ReduceMax" then reduce_spec true (oc_attrs c) x
      else if is_op (oc_op c) "ReduceMin" then reduce_spec false (oc_attrs c) x
      else SOutOfDomain
  | _ => SOutOfDomain
  end.

(* ---------------- M: the code (as repaired) over gorgonia's kernels ---------------- *)
(* gorgonia ArgmaxF32/F64/I*: the first element is taken as it is; from the second on a NaN or a
   +Inf returns its index at once; otherwise a strictly greater element takes over *)
Definition is_nan_or_pinf (d : dtype) (v : Z) : bool :=
  match d with
  | Float32 => match decode W32 v with VNaN => true | VInf false => true | _ => false end
  | Float64 => match decode W64 v with VNaN => true | VInf false => true | _ => false end
  | _ => false
  end.
Definition gt_go (d : dtype) (a b : Z) : bool :=
  match okey d a, okey d b with Some x, Some y => y <? x | _, _ => false end.
Fixpoint argmax_go_from (d : dtype) (l : list Z) (i : nat) (best_i : nat) (f : Z) : nat :=
  match l with
  | [] => best_i
  | v :: r => if is_nan_or_pinf d v then i
              else if gt_go d v f then argmax_go_from d r (S i) i v else argmax_go_from d r (S i) best_i f
  end.
Definition argmax_go (d : dtype) (l : list Z) : nat :=
  match l with [] => 0%nat | v :: r => argmax_go_from d r 1 0 v end.

Definition argmax_model (attrs : list attr) (x : tval) : mres (list (option tval)) :=
  let r := List.length (sh x) in
  let axis := match find_int "axis" attrs with Some a => a | None => 0 end in
  let keepdims := match find_int "keepdims" attrs with Some v => negb (v =? 0) | None => true end in
  match norm_axis r axis with
  | None => MErr
  | Some ax =>
      let res := map (fun sl => Z.of_nat (argmax_go (dt x) (map (get_pl x) sl))) (slices (sh x) [ax]) in
      MOk [Some {| dt := Int64; sh := out_shape (sh x) [ax] keepdims; pl := res |}]
  end.

(* gorgonia OptimizedReduce, one axis: ReduceFirst (axis 0) and ReduceLast (last axis) reduce what
   they should; the "default" kernel for a middle axis (the reduceDefault functions) walks the input with
   innerStart, advancing it by `stride` (instead of (dimSize-1)*stride) when a group is complete *)
Definition pick (mx : bool) (d : dtype) (a b : Z) : Z :=
  if mx then (if gt_go d a b then a else b) else (if gt_go d b a then a else b).
(* None: a read beyond the slice (Go: index out of range, a panic) *)
Fixpoint default_inner (mx : bool) (d : dtype) (sliced : list Z) (dimSize stride : nat) (fuel : nat) (innerStart strideTrack : nat) : option (list Z) :=
  match fuel with
  | O => Some []
  | S f =>
      let n := List.length sliced in
      if negb (innerStart + (dimSize - 1) * stride <? n)%nat then None else
      let v := fold_left (fun acc k => pick mx d acc (nth (innerStart + k * stride) sliced 0)) (seq 1 (dimSize - 1)) (nth innerStart sliced 0) in
      let st := S strideTrack in
      let (st', is') := if (stride <=? st)%nat then (0%nat, (innerStart + stride)%nat) else (st, innerStart) in
      option_map (cons v) (default_inner mx d sliced dimSize stride f (S is') st')
  end.
Fixpoint concat_opt {X} (l : list (option (list X))) : option (list X) :=
  match l with [] => Some [] | Some a :: r => option_map (app a) (concat_opt r) | None :: _ => None end.
Definition reduce_axis_go (mx : bool) (d : dtype) (s : list nat) (data : list Z) (axis : nat) : option (list nat * list Z) :=
  let outs := (firstn axis s ++ skipn (S axis) s)%list in
  let dimSize := nth axis s 1%nat in
  if (axis =? 0)%nat || (S axis =? List.length s)%nat then
    Some (outs, map (fun sl => match map (fun i => nth (flat s i) data 0) sl with
                               | [] => 0 | v :: r => fold_left (pick mx d) r v end) (slices s [axis]))
  else
    let dim0 := nth 0 s 1%nat in
    let outerStride := numel (skipn 1 s) in
    let stride := numel (skipn (S axis) s) in
    let expected := (outerStride / dimSize)%nat in
    option_map (fun dd => (outs, dd))
      (concat_opt (map (fun i => default_inner mx d (firstn outerStride (skipn (i * outerStride) data)) dimSize stride expected 0 0) (seq 0 dim0))).

Fixpoint insert_sorted (a : nat) (l : list nat) : list nat :=
  match l with [] => [a] | b :: r => if (a <=? b)%nat then a :: l else b :: insert_sorted a r end.
Definition sort_nat (l : list nat) : list nat := fold_right insert_sorted [] l.
Fixpoint nodup_nat (l : list nat) : bool := match l with [] => true | a :: r => negb (memn a r) && nodup_nat r end.

Definition reduce_model (mx : bool) (attrs : list attr) (x : tval) : mres (list (option tval)) :=
  let r := List.length (sh x) in
  let keepdims := match find_int "keepdims" attrs with Some v => (v =? 1) | None => true end in
  let axes := match find_ints "axes" attrs with Some l => norm_axes r l | None => Some [] end in
  match axes with
  | None => MErr
  | Some A0 =>
      let A := sort_nat (match A0 with [] => seq 0 r | _ => A0 end) in
      if negb (nodup_nat A) then MErr else
      let data :=
        if (List.length A =? r)%nat then                                   (* all axes: the flat maximum *)
          match pl x with [] => Some [] | v :: rest => Some [fold_left (pick mx (dt x)) rest v] end
        else option_map (fun st => snd (snd st))
               (fold_left (fun (st : option (nat * (list nat * list Z))) ax =>
                             match st with
                             | Some (done, (s, dat)) => option_map (fun r => (S done, r)) (reduce_axis_go mx (dt x) s dat (ax - done))
                             | None => None end) A (Some (0%nat, (sh x, pl x)))) in
      match data with
      | None => MPanic
      | Some data =>
      MOk [Some {| dt := dt x; sh := out_shape (sh x) A keepdims; pl := data |}]
      end
  end.

Definition model (c : opcase) : mres (list (option tval)) :=
  match oc_ins c with
  | [Some x] =>
      if is_op (oc_op c) "ArgMax" then argmax_model (oc_attrs c) x
      else if is_op (oc_op c) "ReduceMax" then reduce_model true (oc_attrs c) x
      else if is_op (oc_op c) "ReduceMin" then reduce_model false (oc_attrs c) x
      else MErr
  | _ => MErr
  end.

(* K2 (gorgonia Argmax kernels): a slice with a NaN or a +Inf on which the kernel's early return does
   not give the first maximum / first NaN;  K3 (gorgonia reduceDefault): Max/Min over a middle axis of
   a tensor of rank >= 4 *)
Definition known_class (c : opcase) : option Z :=
  match oc_ins c with
  | [Some x] =>
      if is_op (oc_op c) "ArgMax" then
        (if existsb (is_nan_or_pinf (dt x)) (pl x) then Some 2 else None)
      else if is_op (oc_op c) "ReduceMax" || is_op (oc_op c) "ReduceMin" then
        (if (4 <=? List.length (sh x))%nat then Some 3 else None)
      else None
  | _ => None
  end.

Definition verdict (c : opcase) : Z :=
  if is_op (oc_op c) "Softmax" || is_op (oc_op c) "LogSoftmax" then
    match oc_ins c with
    | [Some x] =>
        let j := soft_judge (is_op (oc_op c) "LogSoftmax") (oc_attrs c) x (oc_obs c) in
        if (j =? 2) && soft_known (oc_attrs c) x then 101 else j
    | _ => 4
    end
  else match spec c with
       | SEither _ => if holds (spec c) (oc_obs c)
                      then (* refusing what the model of the current code computes is a violation (OpCheck.verdict_of) *)
                           (match model c, oc_obs c with MOk _, OErr _ => 2 | _, _ => 0 end)
                      else (match known_class c with Some k => if agree (model c) (oc_obs c) then 100 + k else 2 | None => 2 end)
       | s => verdict_of s (model c) (known_class c) (oc_obs c)
       end.
Definition kind (c : opcase) : Z := match oc_obs c with OOk _ => 1 | OErr _ => 2 | OPanic => 3 end.
