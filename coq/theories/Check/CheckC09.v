(* C09: ArgMax, ReduceMax, ReduceMin (exact) and Softmax, LogSoftmax (interval enclosures of the
   real-number definition, widened by the rounding the floating-point kernel may commit). *)
From Coq Require Import List ZArith Bool String.
From V Require Import DType Tensor Case OpCheck Writes Ival.
Import ListNotations.
Open Scope string_scope.
Open Scope Z_scope.

Definition is_op (a b : string) := String.eqb a b.
Definition fw_of (d : dtype) : option fw := match d with Float32 => Some W32 | Float64 => Some W64 | _ => None end.

(* a key that orders payload entries as numbers: integers by value, floats by sign and magnitude
   (-0 = +0); None for NaN *)
Definition okey (d : dtype) (v : Z) : option Z :=
  match d with
  | Float32 => match decode W32 v with VNaN => None | _ => Some (if v <? 2147483648 then v else - (v - 2147483648)) end
  | Float64 => match decode W64 v with VNaN => None | _ => Some (if v <? 9223372036854775808 then v else - (v - 9223372036854775808)) end
  | _ => Some v
  end.

(* axes as given -> normalised positions, or None when one is out of [-r, r-1] *)
Definition norm_axis (r : nat) (a : Z) : option nat :=
  let rz := Z.of_nat r in
  if (- rz <=? a) && (a <? rz) then Some (Z.to_nat (if a <? 0 then a + rz else a)) else None.
Fixpoint norm_axes (r : nat) (l : list Z) : option (list nat) :=
  match l with [] => Some [] | a :: t => match norm_axis r a, norm_axes r t with Some x, Some y => Some (x :: y) | _, _ => None end end.
Definition memn (k : nat) (l : list nat) : bool := existsb (Nat.eqb k) l.
Definition idxs (s : list nat) : list (nat * nat) := combine (seq 0 (List.length s)) s.

(* for every output position (reduced axes pinned to extent 1): the input positions of its slice,
   in row-major order *)
Definition slices (s : list nat) (A : list nat) : list (list (list nat)) :=
  let keep := map (fun p => if memn (fst p) A then 1%nat else snd p) (idxs s) in
  let red := map (fun p => if memn (fst p) A then snd p else 1%nat) (idxs s) in
  map (fun o => map (fun c => map (fun p => if memn (fst (fst p)) A then snd p else snd (fst p)) (combine (combine (seq 0 (List.length s)) o) c))
                    (all_indices red))
      (all_indices keep).
Definition out_shape (s : list nat) (A : list nat) (keepdims : bool) : list nat :=
  flat_map (fun p => if memn (fst p) A then (if keepdims then [1%nat] else []) else [snd p]) (idxs s).

(* first position attaining the best key under `better`; a NaN (no key) wins over everything when
   nan_first is set (gorgonia's Argmax, numpy's argmax) *)
Fixpoint best (better : Z -> Z -> bool) (nan_first : bool) (l : list (nat * option Z)) (cur : option (nat * option Z)) : option (nat * option Z) :=
  match l with
  | [] => cur
  | (i, k) :: r =>
      match cur with
      | None => best better nan_first r (Some (i, k))
      | Some (_, None) => if nan_first then cur else best better nan_first r (Some (i, k))
      | Some (_, Some kc) =>
          match k with
          | None => if nan_first then Some (i, None) else best better nan_first r cur
          | Some kn => if better kn kc then best better nan_first r (Some (i, k)) else best better nan_first r cur
          end
      end
  end.

Definition get_pl (x : tval) (i : list nat) : Z := nth (flat (sh x) i) (pl x) 0.

Definition argmax_spec (attrs : list attr) (x : tval) : spec_out :=
  let r := List.length (sh x) in
  let axis := match find_int "axis" attrs with Some a => a | None => 0 end in
  let keepdims := match find_int "keepdims" attrs with Some v => negb (v =? 0) | None => true end in
  match norm_axis r axis with
  | None => SMustErr
  | Some ax =>
      let res := map (fun sl =>
                        match best Z.gtb true (map (fun i => (nth ax i 0%nat, okey (dt x) (get_pl x i))) sl) None with
                        | Some (i, _) => Z.of_nat i | None => 0 end) (slices (sh x) [ax]) in
      let out := [Some {| dt := Int64; sh := out_shape (sh x) [ax] keepdims; pl := res |}] in
      match dt x with Float32 | Float64 | Int32 | Int64 => SMust out | _ => SEither out end
  end.

Definition reduce_spec (mx : bool) (attrs : list attr) (x : tval) : spec_out :=
  let r := List.length (sh x) in
  let keepdims := match find_int "keepdims" attrs with Some v => (v =? 1) | None => true end in
  let axes := match find_ints "axes" attrs with Some l => norm_axes r l | None => Some [] end in
  match axes with
  | None => SMustErr
  | Some A0 =>
      let A := match A0 with [] => seq 0 r | _ => A0 end in            (* no axes: all of them *)
      let res := map (fun sl =>
                        match best (if mx then Z.gtb else Z.ltb) false (map (fun i => (flat (sh x) i, okey (dt x) (get_pl x i))) sl) None with
                        | Some (f, _) => nth f (pl x) 0 | None => 0 end) (slices (sh x) A) in
      let out := [Some {| dt := dt x; sh := out_shape (sh x) A keepdims; pl := res |}] in
      match dt x with Float32 | Float64 | Int32 | Int64 => SMust out | _ => SEither out end
  end.

(* ---------------- Softmax / LogSoftmax ---------------- *)
Fixpoint all_some_iv (w : fw) (l : list Z) : option (list I.type) :=
  match l with [] => Some [] | b :: r => match pt_of w b, all_some_iv w r with Some p, Some q => Some (p :: q) | _, _ => None end end.
(* the largest element of a slice (bit patterns of finite floats), as a point interval *)
Definition max_pt (w : fw) (d : dtype) (xs : list Z) : I.type :=
  match best Z.gtb false (map (fun p => (fst p, okey d (snd p))) (combine (seq 0 (List.length xs)) xs)) None with
  | Some (i, _) => match pt_of w (nth i xs 0) with Some p => p | None => izero end
  | None => izero
  end.
(* allowance for the float Exp kernel: gorgonia's float32 exp (8 + 4|z|) u, Go's float64 math.Exp 4u *)
Definition abs_up (z : I.type) : Z :=
  match I.abs z with Interval.Float.Ibnd _ u => match F.toF u with Basic.Float _ m e => (if (0 <=? e) then Z.pos m * 2 ^ e else Z.pos m / 2 ^ (- e) + 1) | _ => 0 end | _ => 1000 end.
Definition f_exp (w : fw) (z : I.type) : I.type :=
  match w with W32 => widen w (8 + 4 * abs_up z) (I.exp prec z) | W64 => widen w 4 (I.exp prec z) end.

(* one slice: inputs as point intervals -> enclosures of what a float kernel computing
   exp(x - m) / sum exp(x - m) (resp. (x - m) - ln sum) may return, for the shift m *)
Definition soft_slice (w : fw) (logsm : bool) (xs : list I.type) (m : I.type) : list I.type :=
  let zs := map (fun x => f_sub w x m) xs in
  let es := map (f_exp w) zs in
  let s := f_sum w es in
  if logsm then let l := widen w 8 (I.ln prec s) in map (fun z => f_sub w z l) zs
  else let inv := f_div w ione s in map (fun e => f_mul w e inv) es.

Definition all2 {X Y} (f : X -> Y -> bool) (a : list X) (b : list Y) : bool :=
  Nat.eqb (List.length a) (List.length b) && forallb (fun p => f (fst p) (snd p)) (combine a b).
Definition all_fin (w : fw) (l : list Z) : bool := forallb (is_fin w) l.

(* judge one slice: every output finite, inside its enclosure; Softmax additionally non-negative
   and the slice sum inside the enclosure of the sum (which contains 1) *)
Definition slice_ok (w : fw) (d : dtype) (logsm : bool) (xs : list Z) (os : list Z) : bool :=
  match all_some_iv w xs with
  | None => false
  | Some px =>
      let enc := soft_slice w logsm px (max_pt w d xs) in
      all_fin w os && all2 (fun o E => res_in w o E) os enc &&
      (logsm || (forallb (fun o => match decode w o with VFin m _ => 0 <=? m | _ => false end) os &&
                 match all_some_iv w os with
                 | Some po => I.subset (isum po) (f_sum w enc) && I.subset ione (f_sum w enc)
                 | None => false end))
  end.

(* the whole tensor: every slice along the axis *)
Definition soft_judge (logsm : bool) (attrs : list attr) (x : tval) (obs : observed) : Z :=
  let r := List.length (sh x) in
  let axis := match find_int "axis" attrs with Some a => a | None => -1 end in
  match fw_of (dt x) with
  | None => (match obs with OErr _ => 0 | _ => 2 end)
  | Some w =>
      if negb (all_fin w (pl x)) then 4                                  (* the property speaks of finite inputs *)
      else match norm_axis r axis with
           | None => (match obs with OErr _ => 0 | _ => 2 end)
           | Some ax =>
               match obs with
               | OOk [Some o] =>
                   if dtype_eqb (dt o) (dt x) && list_eqb Nat.eqb (sh o) (sh x) && wf_tval o &&
                      forallb (fun sl => slice_ok w (dt x) logsm (map (get_pl x) sl) (map (get_pl o) sl)) (slices (sh x) [ax])
                   then 0 else 2
               | _ => 2
               end
           end
  end.

(* K1 (gorgonia, last-axis kernel): the running maximum of EVERY row starts from the first element of
   the whole tensor; a row whose own maximum is below that element is shifted too far: degraded
   accuracy, and NaN once all its exponentials underflow *)
Definition soft_known (attrs : list attr) (x : tval) : bool :=
  let r := List.length (sh x) in
  let axis := match find_int "axis" attrs with Some a => a | None => -1 end in
  match norm_axis r axis, okey (dt x) (nth 0 (pl x) 0) with
  | Some ax, Some k0 =>
      (Nat.eqb (S ax) r) &&
      existsb (fun sl => forallb (fun i => match okey (dt x) (get_pl x i) with Some k => k <? k0 | None => false end) sl)
              (tl (slices (sh x) [ax]))
  | _, _ => false
  end.

Definition spec (c : opcase) : spec_out :=
  match oc_ins c with
  | [Some x] =>
      if is_op (oc_op c) "ArgMax" then argmax_spec (oc_attrs c) x
      else if is_op (oc_op c) "ReduceMax" then reduce_spec true (oc_attrs c) x
      else if is_op (oc_op c) "ReduceMin" then reduce_spec false (oc_attrs c) x
      else SOutOfDomain
  | _ => SOutOfDomain
  end.

(* M: the code as repaired computes what S describes (ArgMax through gorgonia's Argmax: first NaN,
   else first maximum; Reduce* through Max/Min over the normalised axes) *)
Definition model (c : opcase) : mres (list (option tval)) :=
  match spec c with SMust v | SEither v => MOk v | SMustErr => MErr | SOutOfDomain => MErr end.

Definition verdict (c : opcase) : Z :=
  if is_op (oc_op c) "Softmax" || is_op (oc_op c) "LogSoftmax" then
    match oc_ins c with
    | [Some x] =>
        let j := soft_judge (is_op (oc_op c) "LogSoftmax") (oc_attrs c) x (oc_obs c) in
        if (j =? 2) && soft_known (oc_attrs c) x then 101 else j
    | _ => 4
    end
  else match spec c with
       | SEither _ => if holds (spec c) (oc_obs c) then 0 else 2
       | s => verdict_of s (model c) None (oc_obs c)
       end.
Definition kind (c : opcase) : Z := match oc_obs c with OOk _ => 1 | OErr _ => 2 | OPanic => 3 end.
