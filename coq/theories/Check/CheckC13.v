(* C13: Run accepts exactly the input sets that satisfy the declared signature. The cases are
   symbolic graphs (Check/CheckC01.v) with one node reading every declared input; S is the
   acceptance predicate in the property's words. *)
From Coq Require Import List ZArith Bool String.
From V Require Import Case Run RunSpec CheckC01.
Import ListNotations.
Open Scope Z_scope.

(* S: every declared graph input that is not an initializer is supplied, with the declared rank
   and with every fixed dimension equal to the declaration; symbolic or unspecified dimensions
   accept any size; inputs that are also initializers are not required; extra tensors are ignored *)
Fixpoint dims_ok (decl : list dim) (s : list nat) : bool :=
  match decl, s with
  | [], [] => true
  | d :: decl', n :: s' => (match d with DDyn => true | DFixed v => v =? Z.of_nat n end) && dims_ok decl' s'
  | _, _ => false
  end.
Definition is_initializer (g : sgraph) (n : string) : bool := existsb (fun p => String.eqb (fst p) n) (g_params g).
Definition supplied (feed : list (string * stensor)) (n : string) : option stensor :=
  (* the caller's map holds one tensor per name; the harness never lists a name twice *)
  match filter (fun p => String.eqb (fst p) n) feed with [] => None | p :: _ => Some (snd p) end.
Definition accepts (g : sgraph) (feed : list (string * stensor)) : bool :=
  forallb (fun p => match snd p with
                    | None => true
                    | Some decl => is_initializer g (fst p) ||
                                   match supplied feed (fst p) with
                                   | Some t => dims_ok decl (s_shape t)
                                   | None => false
                                   end
                    end) (g_inputs g).

(* in domain: every declared input carries a shape, no duplicate input names, no duplicate feed names *)
Fixpoint nodupb (l : list string) : bool :=
  match l with [] => true | x :: r => negb (existsb (String.eqb x) r) && nodupb r end.
Definition in_domain (c : scase) : bool :=
  forallb (fun p => match snd p with Some _ => true | None => false end) (g_inputs (sc_graph c)) &&
  nodupb (map fst (g_inputs (sc_graph c))) && nodupb (map fst (sc_feed c)).

Definition holds13 (c : scase) : bool :=
  let g := sc_graph c in let feed := sc_feed c in
  match sc_obs c with
  | RPanicked => false
  | RError _ => negb (accepts g feed)                      (* an error, no outputs *)
  | ROutputs l =>
      accepts g feed &&
      match run g feed with                               (* the outputs are those of the graph on these inputs *)
      | XOk m => outs_eqb (map (fun p => (fst p, Some (snd p))) m) l
      | _ => false
      end
  end.

Definition verdict (c : scase) : Z :=
  if negb (in_domain c) then 4 else
  if holds13 c then (if agree c then 0 else 3) else 2.
Definition kind (c : scase) : Z := if accepts (sc_graph c) (sc_feed c) then 1 else 2.
