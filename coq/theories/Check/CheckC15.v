(* C15: S written from the property's words, projection of the model's outcome, verdicts.
   The operator table is a parameter here; the generated case files apply it to the
   table regenerated from /repo. *)
From Coq Require Import List Arith Bool String ZArith.
From V Require Import DType Gate.
Import ListNotations.
Open Scope string_scope.

(* what the harness observed calling op.ValidateInputs under recover():
   accepted with n tensors returned (supplied ones pointer-identical and in order, the rest nil),
   an ops.InputError of kind count / of kind type at position p, another error, a panic,
   or accepted but with the supplied tensors altered / reordered. *)
Inductive gobs := GOOkLen (n : nat) | GOErrCount | GOErrType (p : nat) | GOErrOther | GOPanic | GOChanged.
Definition gcase := (string * list (option dtype) * gobs)%type.

Definition lookup (tbl : list opinfo) (n : string) : option opinfo :=
  find (fun o => String.eqb (o_name o) n) tbl.

Definition is_prelu (o : opinfo) : bool := String.eqb (o_name o) "PRelu".

(* the model's outcome for this operator, projected on the observable *)
Definition model_obs (o : opinfo) (ins : list (option dtype)) : gobs :=
  let proj (g : gate_out dtype) :=
    match g with
    | GOk out => GOOkLen (List.length out) | GErrCount => GOErrCount
    | GErrType p => GOErrType p | GPanic => GOPanic
    end in
  if o_dyn o then proj (validate_concat dtype (fun d => d) o ins)
  else if is_prelu o then
    match validate_prelu dtype (fun d => d) o ins with
    | POk _ out => GOOkLen (List.length out)
    | PGate _ g => proj g
    | PErrMismatch _ => GOErrOther
    | PPanic _ => GOPanic
    end
  else proj (validate dtype (fun d => d) o ins).

Definition gobs_eqb (a b : gobs) : bool :=
  match a, b with
  | GOOkLen n, GOOkLen m => Nat.eqb n m
  | GOErrCount, GOErrCount | GOErrOther, GOErrOther | GOPanic, GOPanic | GOChanged, GOChanged => true
  | GOErrType p, GOErrType q => Nat.eqb p q
  | _, _ => false
  end.

(* S, from the statement, not from the model *)
Definition count_okb (mn mx n : nat) : bool := Nat.leb mn n && Nat.leb n mx.
Definition types_okb (cons : list (list dtype)) (ins : list (option dtype)) : bool :=
  forallb (fun p => match snd p with
                    | None => true
                    | Some d => match nth_error cons (fst p) with
                                | Some allowed => mem_dtype d allowed
                                | None => false
                                end
                    end) (combine (seq 0 (List.length ins)) ins).
Definition is_input_err (g : gobs) : bool := match g with GOErrCount | GOErrType _ => true | _ => false end.

Definition holds (o : opinfo) (ins : list (option dtype)) (obs : gobs) : bool :=
  if o_dyn o then
    (* variadic: any count >= min, any dtype *)
    if Nat.leb (o_min o) (List.length ins) then gobs_eqb obs (GOOkLen (List.length ins)) else is_input_err obs
  else if count_okb (o_min o) (o_max o) (List.length ins) && types_okb (o_cons o) ins then
    if is_prelu o then
      match ins with
      | [Some a; Some b] =>
          if dtype_eqb a b then gobs_eqb obs (GOOkLen 2)
          else match obs with GOOkLen 2 | GOErrCount | GOErrType _ | GOErrOther => true | _ => false end
      | _ => gobs_eqb obs (GOOkLen (o_max o))
      end
    else gobs_eqb obs (GOOkLen (o_max o))          (* accepted, padded to the maximum, unchanged *)
  else is_input_err obs.                            (* an input error, never a panic *)

(* 0 pass, 2 violation, 3 drift (property holds, model disagrees), 4 unknown operator *)
Definition verdict (tbl : list opinfo) (c : gcase) : Z :=
  let '(n, ins, obs) := c in
  match lookup tbl n with
  | None => 4%Z
  | Some o => if holds o ins obs then (if gobs_eqb (model_obs o ins) obs then 0%Z else 3%Z) else 2%Z
  end.

(* which branch of S the case exercises: 1 accept, 2 reject-count, 3 reject-type *)
Definition kind (tbl : list opinfo) (c : gcase) : Z :=
  let '(n, ins, _) := c in
  match lookup tbl n with
  | None => 0%Z
  | Some o =>
      let mx := if o_dyn o then List.length ins else o_max o in
      if negb (count_okb (o_min o) mx (List.length ins)) then 2%Z
      else if o_dyn o || types_okb (o_cons o) ins then 1%Z else 3%Z
  end.

(* ---- registry stream ---- *)
Inductive robs := ROResolved | ROUnsupportedOp | ROOtherErr | ROPanic | RONil.
Definition rcase := (string * robs)%type.
Definition rverdict (tbl : list opinfo) (c : rcase) : Z :=
  let '(n, obs) := c in
  let listed := existsb (fun o => String.eqb (o_name o) n) tbl in
  let m := if lookup_name (map o_name tbl) n then ROResolved else ROUnsupportedOp in
  let same := match m, obs with ROResolved, ROResolved | ROUnsupportedOp, ROUnsupportedOp => true | _, _ => false end in
  let ok := if listed then match obs with ROResolved => true | _ => false end
            else match obs with ROUnsupportedOp => true | _ => false end in
  if ok then (if same then 0%Z else 3%Z) else 2%Z.
