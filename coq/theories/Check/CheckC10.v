(* C10: the unary math / activation operators, element by element, against S: the named real
   function (a PROVED interval enclosure from the Coq Interval library, widened by the rounding a
   floating-point kernel may commit) and the IEEE-754 / C99 Annex F special-value rules; exact for
   Abs, Relu, PRelu on integers, Not. *)
From Coq Require Import List ZArith Bool String.
From V Require Import DType Tensor Case OpCheck BroadcastSpec Scalar Ival.
Import ListNotations.
Open Scope string_scope.
Open Scope Z_scope.

Inductive expect := XNaN | XPInf | XNInf | XBits (b : Z) (* exactly this bit pattern: the operation is exact, the sign of a zero included *) | XEncl (E : I.type).

Definition elem_ok (w : fw) (r : Z) (e : expect) : bool :=
  match e, decode w r with
  | XNaN, VNaN => true
  | XPInf, VInf false => true
  | XNInf, VInf true => true
  | XBits b, _ => (r =? b)%Z
  | XEncl E, _ => res_in w r E
  | _, _ => false
  end.

Definition is_op (a b : string) := String.eqb a b.
Definition within1 (p : I.type) : bool := I.subset p (iv (-1) 0 1 0).
Definition ge1 (p : I.type) : bool := I.subset p (I.bnd (fz 1 0) F.nan).
Definition is_pos (m : Z) : bool := (0 <? m)%Z.
Definition is_neg (m : Z) : bool := (m <? 0)%Z.

(* relative error allowance (in unit roundoffs) of the kernel behind each operator:
   float32 closures routed through float64 math: correctly rounded up to double rounding (2);
   gorgonia's float32 Tanh: 8; float64 math functions: 8 (a few ulp) *)
Definition kerr (op : string) (w : fw) : Z :=
  match w with
  | W32 => if is_op op "Tanh" then 8 else 2
  | W64 => if is_op op "Tan" then 64 else 8     (* Go's math.Tan returns x for |x| < 1e-7: 15 ulp *)
  end.
(* Go's math.Sin/Cos/Tan reduce the argument with a three-part pi/4: an argument perturbation of
   relative size 2^-90 covers the reduction error near the zeros of the function *)
Definition perturb (p : I.type) : I.type := I.mul prec p (iv (2 ^ 90 - 1) (-90) (2 ^ 90 + 1) (-90)).
(* Sinh and Cosh are computed from exp(|x|): when that overflows IEEE gives an infinity although the
   value itself may still be finite (|x| within ln 2 of the overflow threshold) *)
(* (a factor 2 of slack: the overflow threshold of a float exp kernel is a rounded constant) *)
Definition exp_overflows (w : fw) (p : I.type) : bool := negb (I.subset (I.mul prec itwo (sexp (I.abs p))) (I.bnd F.nan (maxfin w))).
Definition up_to_inf (E : I.type) : I.type := I.join E (I.bnd (I.upper E) F.nan).
Definition down_to_inf (E : I.type) : I.type := I.join E (I.bnd F.nan (I.lower E)).

(* Sigmoid as composed in ops/activation.go: 1 / (1 + exp(-x)); gorgonia's float32 Exp has a relative
   error growing with |x| (allowance (8 + 4|x|) u); when exp(-x) overflows IEEE gives 1/(1+Inf) = 0 *)
Definition sigmoid_encl (w : fw) (p : I.type) (absx_ceil : Z) : I.type :=
  let kexp := match w with W32 => 8 + 4 * absx_ceil | W64 => 4 end in
  let e := widen w kexp (sexp (I.neg p)) in
  let overflow := negb (I.subset e (I.bnd F.nan (maxfin w))) in
  let r := f_div w ione (f_add w ione e) in
  let r := I.join r (widen w (kerr "Sigmoid" w + 4) (r_sigmoid p)) in
  if overflow then I.join izero r else r.

(* |m * 2^e| rounded up to an integer (only needs to be an upper bound) *)
Definition abs_ceil (m e : Z) : Z := if e <? 0 then Z.abs m / 2 ^ (- e) + 1 else Z.abs m * 2 ^ e.

Definition unary_expect (op : string) (w : fw) (x : Z) : option expect :=
  let K := kerr op w in
  match decode w x with
  | VNaN => Some XNaN
  | VInf neg =>
      if is_op op "Abs" then Some XPInf
      else if is_op op "Relu" then Some (if neg then XEncl izero else XPInf)
      else if is_op op "Sigmoid" then Some (XEncl (if neg then izero else ione))
      else if is_op op "Tanh" then Some (XEncl (if neg then I.neg ione else ione))
      else if is_op op "Sin" || is_op op "Cos" || is_op op "Tan" || is_op op "Asin" || is_op op "Acos" || is_op op "Atanh" then Some XNaN
      else if is_op op "Atan" then Some (XEncl (widen w K (if neg then I.neg half_pi else half_pi)))
      else if is_op op "Sinh" || is_op op "Asinh" then Some (if neg then XNInf else XPInf)
      else if is_op op "Cosh" then Some XPInf
      else if is_op op "Acosh" then Some (if neg then XNaN else XPInf)
      else None
  | VFin m e =>
      let p := pt m e in
      if is_op op "Abs" then Some (XBits (x mod match w with W32 => 2147483648 | W64 => 9223372036854775808 end))   (* sign bit cleared, -0 included *)
      else if is_op op "Relu" then Some (XEncl (if is_pos m then p else izero))
      else if is_op op "Sigmoid" then Some (XEncl (sigmoid_encl w p (abs_ceil m e)))
      else if is_op op "Tanh" then Some (XEncl (widen w K (r_tanh p)))
      else if is_op op "Sin" then Some (XEncl (widen w K (ssin (perturb p))))
      else if is_op op "Cos" then Some (XEncl (widen w K (scos (perturb p))))
      else if is_op op "Tan" then Some (XEncl (widen w K (stan (perturb p))))
      else if is_op op "Asin" then
        Some (if negb (within1 p) then XNaN
              else if I.subset p ione then XEncl (widen w K half_pi)
              else if I.subset p (I.neg ione) then XEncl (widen w K (I.neg half_pi))
              else XEncl (widen w K (r_asin p)))
      else if is_op op "Acos" then
        Some (if negb (within1 p) then XNaN
              else if I.subset p ione then XEncl izero
              else if I.subset p (I.neg ione) then XEncl (widen w K (I.pi prec))
              else XEncl (let E := widen w K (r_acos p) in
                          (* Go's math.Acos is pi/2 - Asin(x): its error is a few units in the last place OF
                             pi/2, not of the (small) result when x is close to 1 -- an ABSOLUTE allowance of
                             2^-50 (float64; float32 results are rounded from float64 and need none) *)
                          match w with W64 => I.add prec E (iv (-1) (-50) 1 (-50)) | W32 => E end))
      else if is_op op "Atan" then Some (XEncl (widen w K (I.atan prec p)))
      else if is_op op "Sinh" then
        Some (XEncl (let E := widen w K (r_sinh p) in
                     if exp_overflows w p then (if is_pos m then up_to_inf E else down_to_inf E) else E))
      else if is_op op "Cosh" then
        Some (XEncl (let E := widen w K (r_cosh p) in if exp_overflows w p then up_to_inf E else E))
      else if is_op op "Asinh" then Some (XEncl (widen w K (r_asinh p)))
      else if is_op op "Acosh" then Some (if ge1 p then XEncl (widen w K (r_acosh p)) else XNaN)
      else if is_op op "Atanh" then
        Some (if negb (within1 p) then XNaN
              else if I.subset p ione then XPInf
              else if I.subset p (I.neg ione) then XNInf
              else XEncl (widen w K (r_atanh p)))
      else None
  end.

(* PRelu on floats: x < 0 ? slope * x : x *)
Definition prelu_expect (w : fw) (x s : Z) : expect :=
  match decode w x with
  | VNaN => XNaN
  | VInf false => XPInf
  | VFin m e => if is_neg m
                then match decode w s with
                     | VNaN => XNaN
                     | VInf sneg => if sneg then XPInf else XNInf
                     | VFin sm se => XEncl (f_mul w (pt sm se) (pt m e))
                     end
                else XBits x          (* x >= 0, both zeros included: x itself *)
  | VInf true => match decode w s with
                 | VNaN => XNaN
                 | VInf sneg => if sneg then XPInf else XNInf
                 | VFin sm _ => if is_pos sm then XNInf else if is_neg sm then XPInf else XNaN
                 end
  end.

Definition fw_of (d : dtype) : option fw := match d with Float32 => Some W32 | Float64 => Some W64 | _ => None end.
Definition int_bits (d : dtype) : option (Z * bool) :=
  match d with
  | Int8 => Some (8, true) | Int16 => Some (16, true) | Int32 => Some (32, true) | Int64 => Some (64, true)
  | Uint8 => Some (8, false) | Uint16 => Some (16, false) | Uint32 => Some (32, false) | Uint64 => Some (64, false)
  | _ => None
  end.

Definition all2 {X Y} (f : X -> Y -> bool) (a : list X) (b : list Y) : bool :=
  Nat.eqb (List.length a) (List.length b) && forallb (fun p => f (fst p) (snd p)) (combine a b).

(* result of S on a case: 0 the observed outcome is what the property prescribes; 2 it is not;
   4 outside the property's domain *)
Definition same_frame (x o : tval) : bool := dtype_eqb (dt x) (dt o) && list_eqb Nat.eqb (sh x) (sh o) && wf_tval o.

Definition judge_unary (op : string) (x : tval) (obs : observed) : Z :=
  if negb (wf_tval x) then 4 else
  match fw_of (dt x), obs with
  | Some w, OOk [Some o] =>
      if same_frame x o && all2 (fun xi oi => match unary_expect op w xi with Some e => elem_ok w oi e | None => false end) (pl x) (pl o)
      then 0 else 2
  | Some _, _ => 2                                          (* float32 / float64: must be computed *)
  | None, _ =>
      if is_op op "Abs" then
        match int_bits (dt x), obs with
        | Some (b, sg), OOk [Some o] =>
            if same_frame x o && list_eqb Z.eqb (pl o) (map (fun v => wrap b sg (Z.abs v)) (pl x)) then 0 else 2
        | Some _, OErr EInput => 0                          (* an element type the gate refuses *)
        | Some _, _ => 2
        | None, OErr _ => 0
        | None, _ => 2
        end
      else match obs with OErr _ => 0 | _ => 2 end          (* other element types are refused *)
  end.

Definition judge_prelu (x s : tval) (obs : observed) : Z :=
  if negb (wf_tval x && wf_tval s) then 4 else
  if negb (dtype_eqb (dt x) (dt s)) then (match obs with OErr _ => 0 | _ => 2 end) else
  match bshape (sh x) (sh s) with
  | Some bs =>
      if negb (list_eqb Nat.eqb bs (sh x)) then (match obs with OErr _ => 0 | _ => 2 end) else
      let sl := map (fun n => nth (flat (sh s) (bproj (sh s) (unflat (sh x) n))) (pl s) 0) (seq 0 (numel (sh x))) in
      match fw_of (dt x), obs with
      | Some w, OOk [Some o] =>
          if same_frame x o && all2 (fun xs oi => elem_ok w oi (prelu_expect w (fst xs) (snd xs))) (combine (pl x) sl) (pl o) then 0 else 2
      | Some _, _ => 2
      | None, _ =>
          match int_bits (dt x), obs with
          | Some (b, sg), OOk [Some o] =>
              if same_frame x o && list_eqb Z.eqb (pl o) (map (fun p => if fst p <? 0 then wrap b sg (snd p * fst p) else fst p) (combine (pl x) sl)) then 0 else 2
          | Some _, OErr EInput => 0
          | _, OErr _ => (match int_bits (dt x) with Some _ => 2 | None => 0 end)
          | _, _ => 2
          end
      end
  | None => match obs with OErr _ => 0 | _ => 2 end
  end.

Definition judge_not (x : tval) (obs : observed) : Z :=
  match dt x, obs with
  | DBool, OOk [Some o] => if same_frame x o && list_eqb Z.eqb (pl o) (map (fun v => 1 - v) (pl x)) then 0 else 2
  | DBool, _ => 2
  | _, OErr _ => 0
  | _, _ => 2
  end.

Definition judge (c : opcase) : Z :=
  if is_op (oc_op c) "PRelu" then match oc_ins c with [Some x; Some s] => judge_prelu x s (oc_obs c) | _ => 4 end
  else if is_op (oc_op c) "Not" then match oc_ins c with [Some x] => judge_not x (oc_obs c) | _ => 4 end
  else match oc_ins c with [Some x] => judge_unary (oc_op c) x (oc_obs c) | _ => 4 end.

(* no known-finding class is left: Relu(-Inf) = NaN and Abs on unsigned types were repaired *)
Definition known_class (c : opcase) : option Z := None.

Definition verdict (c : opcase) : Z :=
  let j := judge c in
  if j =? 2 then match known_class c with Some k => 100 + k | None => 2 end else j.
Definition kind (c : opcase) : Z := match oc_obs c with OOk _ => 1 | OErr _ => 2 | OPanic => 3 end.
