#!/bin/bash
# Runs the repository's suite the way BASELINE.json does (guard off) and prints the number of
# passing tests; exits 0 iff the 254 stable passes of the baseline are all there.
export GOFLAGS=-mod=mod GOPROXY=off GOSUMDB=off GOTOOLCHAIN=local
cd /repo && go test -vet=off -count=1 -json ./... 2>/dev/null | python3 -c "
import sys, json
base = set(json.load(open('/root/.vp/BASELINE.json'))['stable_pass'])
ok = set()
for l in sys.stdin:
    try: e = json.loads(l)
    except Exception: continue
    if e.get('Action') == 'pass' and e.get('Test'):
        ok.add(e['Package'] + '::' + e['Test'])
missing = sorted(base - ok)
print('passing', len(ok & base), 'of', len(base), 'baseline tests;', 'missing:', missing[:10])
sys.exit(0 if not missing else 1)
"
