#!/usr/bin/env python3
"""Rewrites the table of section 13 of DESIGN.md from /verif/seeded/*/meta.json."""
import json, glob, os, re
ROOT = os.path.dirname(os.path.dirname(os.path.abspath(__file__)))
rows = []
for d in sorted(glob.glob(os.path.join(ROOT, "seeded", "*"))):
    mp = os.path.join(d, "meta.json")
    if not os.path.exists(mp):
        continue
    m = json.load(open(mp))
    sid = os.path.basename(d)
    notes = m.get("summary_by_author", "")
    # first sentence-like description of the change
    what = m.get("what", "")
    if not what:
        k = m.get("change", 1)
        k = ((int(k) - 1) % 2) + 1
        pat = re.compile(r"(?:^|\n)[#*\s]*Change\s*%d\b[^\n]*\n?(.*?)(?=\n[#*\s]*Change\s*\d|\Z)" % k, re.S)
        mm = pat.search(notes)
        txt = (mm.group(0) if mm else notes)[:700]
        txt = re.sub(r"[`*#]", "", txt)
        txt = re.sub(r"\s+", " ", txt).strip()
        what = txt[:260]
    caught = "; ".join("%s: %s" % (c, "caught" if "VIOLATION" in r else "not caught") for c, r in sorted(m.get("checks_run", {}).items()))
    rows.append("| %s | %s | %s |" % (sid, what.replace("|", "/"), caught))
table = "\n\n| seed | change (from its author's notes) | quick checks run against it |\n|---|---|---|\n" + "\n".join(rows) + "\n"
p = os.path.join(ROOT, "DESIGN.md")
s = open(p).read()
if "<!-- SEEDS-BEGIN -->" in s:
    s = re.sub(r"<!-- SEEDS-BEGIN -->.*?<!-- SEEDS-END -->", "<!-- SEEDS-BEGIN -->" + table + "<!-- SEEDS-END -->", s, flags=re.S)
else:
    s = s.replace("Table SEEDED_TABLE", "<!-- SEEDS-BEGIN -->" + table + "<!-- SEEDS-END -->")
open(p, "w").write(s)
print(len(rows), "seeds")
